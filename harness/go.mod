module verifharness

go 1.24.2

require (
	example.com/scion-time v0.0.0
	golang.org/x/sys v0.31.0
)

require (
	github.com/beorn7/perks v1.0.1 // indirect
	github.com/cespare/xxhash/v2 v2.3.0 // indirect
	github.com/google/gopacket v1.1.19 // indirect
	github.com/munnerz/goautoneg v0.0.0-20191010083416-a7dc8b61c822 // indirect
	github.com/opentracing/opentracing-go v1.2.0 // indirect
	github.com/pelletier/go-toml/v2 v2.2.3 // indirect
	github.com/prometheus/client_golang v1.21.1 // indirect
	github.com/prometheus/client_model v0.6.1 // indirect
	github.com/prometheus/common v0.63.0 // indirect
	github.com/prometheus/procfs v0.16.0 // indirect
	github.com/scionproto/scion v0.12.0 // indirect
	go.uber.org/multierr v1.11.0 // indirect
	go.uber.org/zap v1.27.0 // indirect
	google.golang.org/protobuf v1.36.6 // indirect
)

replace example.com/scion-time => /repo
