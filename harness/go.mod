module verifharness

go 1.24.2

require example.com/scion-time v0.0.0

replace example.com/scion-time => /repo
