module verifharness

go 1.24.2

require example.com/scion-time v0.0.0

require golang.org/x/sys v0.31.0 // indirect

replace example.com/scion-time => /repo
