module verifharness

go 1.24.2

require (
	example.com/scion-time v0.0.0
	github.com/HdrHistogram/hdrhistogram-go v1.1.2
	github.com/google/gopacket v1.1.19
	github.com/miscreant/miscreant.go v0.0.0-20200214223636-26d376326b75
	github.com/prometheus/client_golang v1.21.1
	github.com/scionproto/scion v0.12.0
	golang.org/x/sys v0.31.0
	google.golang.org/grpc v1.71.1
	google.golang.org/protobuf v1.36.6
)

require (
	github.com/beorn7/perks v1.0.1 // indirect
	github.com/cespare/xxhash/v2 v2.3.0 // indirect
	github.com/dchest/cmac v1.0.0 // indirect
	github.com/dustin/go-humanize v1.0.1 // indirect
	github.com/google/uuid v1.6.0 // indirect
	github.com/grpc-ecosystem/go-grpc-middleware v1.4.0 // indirect
	github.com/grpc-ecosystem/go-grpc-prometheus v1.2.0 // indirect
	github.com/grpc-ecosystem/grpc-opentracing v0.0.0-20180507213350-8e809c8a8645 // indirect
	github.com/munnerz/goautoneg v0.0.0-20191010083416-a7dc8b61c822 // indirect
	github.com/opentracing/opentracing-go v1.2.0 // indirect
	github.com/pelletier/go-toml/v2 v2.2.3 // indirect
	github.com/prometheus/client_model v0.6.1 // indirect
	github.com/prometheus/common v0.63.0 // indirect
	github.com/prometheus/procfs v0.16.0 // indirect
	github.com/quic-go/quic-go v0.50.1 // indirect
	github.com/remyoudompheng/bigfft v0.0.0-20230129092748-24d4a6f8daec // indirect
	github.com/uber/jaeger-client-go v2.30.0+incompatible // indirect
	github.com/uber/jaeger-lib v2.4.1+incompatible // indirect
	go.uber.org/atomic v1.11.0 // indirect
	go.uber.org/multierr v1.11.0 // indirect
	go.uber.org/zap v1.27.0 // indirect
	golang.org/x/crypto v0.36.0 // indirect
	golang.org/x/exp v0.0.0-20250305212735-054e65f0b394 // indirect
	golang.org/x/net v0.38.0 // indirect
	golang.org/x/text v0.23.0 // indirect
	google.golang.org/genproto/googleapis/rpc v0.0.0-20250324211829-b45e905df463 // indirect
	modernc.org/libc v1.62.1 // indirect
	modernc.org/mathutil v1.7.1 // indirect
	modernc.org/memory v1.9.1 // indirect
	modernc.org/sqlite v1.37.0 // indirect
)

replace example.com/scion-time => /repo
