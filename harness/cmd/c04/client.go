// cli.fresh: the conversion at its call site in the clients. The real IPClient (interleaved
// mode on) holds, from an earlier exchange, the 64-bit transmit timestamp of a request sent at
// `prev`; at local time `now` (a registered fake clock) it decides from (timestamp, reference
// time now) whether that exchange is at most 3 s old and builds its next request accordingly.
// The request is read off a loopback socket.
//
//	cli.fresh <now sec> <now ns> <prev sec> <prev ns>  ->  ok interleaved|basic <tx S> <tx F>
//
// (interleaved: origin/receive/transmit are the stored sRx/cRx/cTx; basic: origin = receive = 0)
package main

import (
	"context"
	"fmt"
	"io"
	"log/slog"
	"net"
	"sync"
	"time"

	basetb "example.com/scion-time/base/timebase"
	"example.com/scion-time/core/client"
	"example.com/scion-time/core/timebase"
	"example.com/scion-time/net/ntp"

	"verifharness/lib"
)

type fakeClock struct {
	mu  sync.Mutex
	now time.Time
}

func (c *fakeClock) Epoch() uint64 { return 0 }
func (c *fakeClock) Now() time.Time {
	c.mu.Lock()
	defer c.mu.Unlock()
	return c.now
}
func (c *fakeClock) set(t time.Time)                              { c.mu.Lock(); c.now = t; c.mu.Unlock() }
func (c *fakeClock) Drift(time.Duration) time.Duration            { return 0 }
func (c *fakeClock) Step(time.Duration)                           {}
func (c *fakeClock) Adjust(time.Duration, time.Duration, float64) {}
func (c *fakeClock) Sleep(time.Duration)                          {}

var _ basetb.SystemClock = (*fakeClock)(nil)

var (
	clk      = &fakeClock{now: time.Unix(0, 0)}
	srvOnce  sync.Once
	srvConn  *net.UDPConn
	srvAddr  *net.UDPAddr
	quietLog = slog.New(slog.NewTextHandler(io.Discard, nil))
)

func init() { timebase.RegisterClock(clk) }

func cliFresh(nowS, nowN, prevS, prevN int64) string {
	if nowN < 0 || nowN >= nsps || prevN < 0 || prevN >= nsps {
		return "bad-op"
	}
	srvOnce.Do(func() {
		var err error
		srvConn, err = net.ListenUDP("udp", &net.UDPAddr{IP: net.IPv4(127, 0, 0, 1)})
		if err != nil {
			panic("listen: " + err.Error())
		}
		srvAddr = srvConn.LocalAddr().(*net.UDPAddr)
	})
	now, prev := time.Unix(nowS, nowN), time.Unix(prevS, prevN)
	clk.set(now)
	cl := &client.IPClient{InterleavedMode: true, Log: quietLog}
	remote := &net.UDPAddr{IP: net.IPv4(127, 0, 0, 1).To4(), Port: srvAddr.Port}
	st := client.VerifC03Prev{
		Reference:   remote.String(),
		Interleaved: false,
		CTxTime:     ntp.Time64FromTime(prev),
		CRxTime:     ntp.Time64{Seconds: 0x11111111, Fraction: 0x22222222},
		SRxTime:     ntp.Time64{Seconds: 0x33333333, Fraction: 0x44444444},
	}
	client.VerifC03SetPrevIP(cl, st)
	type got struct {
		pkt ntp.Packet
		err error
	}
	ch := make(chan got, 1)
	go func() {
		buf := make([]byte, 2048)
		srvConn.SetReadDeadline(time.Now().Add(5 * time.Second))
		n, from, err := srvConn.ReadFromUDP(buf)
		if err != nil {
			ch <- got{err: err}
			return
		}
		var p ntp.Packet
		err = ntp.DecodePacket(&p, buf[:n])
		// two datagrams that are no NTP packets: the client gives up at once (it retries once
		// if its clock reads a time before the context's deadline)
		srvConn.WriteToUDP([]byte{0}, from)
		srvConn.WriteToUDP([]byte{0}, from)
		ch <- got{pkt: p, err: err}
	}()
	ctx, cancel := context.WithTimeout(context.Background(), 2*time.Second)
	client.VerifC03MeasureIP(ctx, cl, &net.UDPAddr{IP: net.IPv4(127, 0, 0, 1)}, remote)
	cancel()
	g := <-ch
	if g.err != nil {
		return "harness-assumption-broken " + g.err.Error()
	}
	p := g.pkt
	kind := "other"
	switch {
	case p.OriginTime == st.SRxTime && p.ReceiveTime == st.CRxTime && p.TransmitTime == st.CTxTime:
		kind = "interleaved"
	case p.OriginTime == (ntp.Time64{}) && p.ReceiveTime == (ntp.Time64{}):
		kind = "basic"
	}
	return fmt.Sprintf("ok %s %d %d", kind, p.TransmitTime.Seconds, p.TransmitTime.Fraction)
}

// genClient: reference times anywhere and around every era boundary x ages of the stored
// exchange around the 3 s threshold, far beyond it (seconds .. 2^31 s) and slightly negative.
// Oracle (independent of the conversion code): the elapsed time the client derives from
// (timestamp, reference) is the true elapsed time up to the 1 ns the 64-bit format loses, so
// the request is interleaved if now - prev <= 3 s - 1 ns and basic if now - prev > 3 s; a
// basic request carries the timestamp of `now`.
func genClient(c *lib.Ctx, r *lib.Rand) {
	c.Comment("clients: freshness of the stored exchange derived from (timestamp, reference)")
	probe := cliFresh(1700000000, 0, 1699999999, 0)
	if len(probe) < 3 || probe[:3] != "ok " {
		c.NotExecuted("cli.fresh: no loopback UDP exchange possible: " + probe)
		return
	}
	boundaries := []int64{}
	for k := int64(1); k <= 4; k++ {
		boundaries = append(boundaries, epoch+k*era)
	}
	ages := []int64{0, 1, 999_999_999, 1_000_000_000, 2_999_999_999, 3_000_000_000, 3_000_000_001, 4_000_000_000, 10 * nsps, 3600 * nsps,
		86400 * nsps, 30 * 86400 * nsps, (half - 1) * nsps, -1, -nsps, -5 * nsps}
	one := func(nowS, nowN, age int64) {
		ageS, ageN := age/nsps, age%nsps // seconds arithmetic: now*1e9 does not fit after 2262
		if ageN < 0 {
			ageS, ageN = ageS-1, ageN+nsps
		}
		prevS, prevN := nowS-ageS, nowN-ageN
		if prevN < 0 {
			prevS, prevN = prevS-1, prevN+nsps
		}
		if prevS < 0 {
			return
		}
		op := fmt.Sprintf("cli.fresh %d %d %d %d", nowS, nowN, prevS, prevN)
		ans := c.Do(op)
		var kind string
		var s, f int64
		if _, err := fmt.Sscanf(ans, "ok %s %d %d", &kind, &s, &f); err != nil {
			if len(ans) > 7 && ans[:7] == "harness" {
				c.NotExecuted("cli.fresh: " + ans)
				return
			}
			c.Fail("C04:client:not-ok", "the client sent no request", []string{op}, map[string]any{"answer": ans})
			return
		}
		if (prevS-epoch)>>32 != (nowS-epoch)>>32 {
			c.Count("client:stored-exchange-in-previous-era")
		} else {
			c.Count("client:stored-exchange-in-same-era")
		}
		want := ""
		switch {
		case age <= 3*nsps-1:
			want = "interleaved"
		case age > 3*nsps:
			want = "basic"
		default:
			c.Count("client:age-exactly-3s (either)")
		}
		c.Count("client:request-" + kind)
		if kind == "other" || (want != "" && kind != want) {
			c.Fail("C04:client:freshness", "the elapsed time the client derives from the stored 64-bit timestamp relative to its current time is not the true elapsed time: a request of the wrong kind was sent",
				[]string{op}, map[string]any{"age_ns": age, "sent": kind, "expected": want})
			return
		}
		if kind == "basic" {
			x, _ := lib.Ints(c.Do(fmt.Sprintf("t64.dec %d %d %d %d", s, f, nowS, nowN)))
			if len(x) == 2 {
				if d := (x[0]-nowS)*nsps + (x[1] - nowN); d > 0 || d < -1 {
					c.Fail("C04:client:transmit-time", "the transmit timestamp of a basic request does not decode to the client's current time", []string{op},
						map[string]any{"decoded_sec": x[0], "decoded_ns": x[1]})
				}
			}
		}
	}
	for _, b := range boundaries {
		for _, off := range []int64{-1, 0, 1, 2, 3, 4, 10, 3600, 86400} {
			for _, age := range ages {
				one(b+off, r.Pick64([]int64{0, 1, 500_000_000, 999_999_999}), age)
			}
		}
	}
	n := c.Scale(1500, 30000)
	for i := 0; i < n; i++ {
		var nowS int64
		switch r.Intn(3) {
		case 0:
			nowS = r.Range(0, 16725225600)
		case 1:
			nowS = r.Pick64(boundaries) + r.Range(0, 100000)
		default:
			nowS = r.Pick64(boundaries) + r.Range(-100000, half)
		}
		age := r.Pick64(ages)
		switch r.Intn(4) {
		case 0:
			age = r.Range(-2*nsps, 6*nsps)
		case 1:
			age = r.Range(0, (half-1)*nsps)
		case 2:
			age += r.Range(-3, 3)
		}
		one(nowS, r.Range(0, nsps-1), age)
	}
}
