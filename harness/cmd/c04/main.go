// c04: correspondence + direct oracle for NTP timestamp conversion (net/ntp).
package main

import (
	"fmt"
	"strconv"
	"time"

	"example.com/scion-time/net/ntp"

	"verifharness/lib"
)

const (
	epoch = int64(-2208988800)
	era   = int64(1) << 32
	half  = int64(1) << 31
	nsps  = int64(1000000000)
)

func i64(s string) int64 {
	v, err := strconv.ParseInt(s, 10, 64)
	if err != nil {
		panic("bad-op")
	}
	return v
}

func exec(t []string) string {
	switch {
	case t[0] == "t64.enc" && len(t) == 3:
		x := ntp.Time64FromTime(time.Unix(i64(t[1]), i64(t[2])))
		return fmt.Sprintf("ok %d %d", x.Seconds, x.Fraction)
	case t[0] == "t64.dec" && len(t) == 5:
		x := ntp.Time64{Seconds: uint32(i64(t[1])), Fraction: uint32(i64(t[2]))}
		r := ntp.TimeFromTime64(x, time.Unix(i64(t[3]), i64(t[4])))
		return fmt.Sprintf("ok %d %d", r.Unix(), r.Nanosecond())
	case (t[0] == "t64.before" || t[0] == "t64.after") && len(t) == 5:
		a := ntp.Time64{Seconds: uint32(i64(t[1])), Fraction: uint32(i64(t[2]))}
		b := ntp.Time64{Seconds: uint32(i64(t[3])), Fraction: uint32(i64(t[4]))}
		if t[0] == "t64.before" {
			return "ok " + lib.Bool(a.Before(b))
		}
		return "ok " + lib.Bool(a.After(b))
	case t[0] == "cli.fresh" && len(t) == 5:
		return cliFresh(i64(t[1]), i64(t[2]), i64(t[3]), i64(t[4]))
	}
	return "bad-op"
}

// roundTrip evaluates the property predicate on one (time, reference) pair in the window.
func roundTrip(c *lib.Ctx, sec, ns, rs, rn int64) (int64, int64) {
	op1 := fmt.Sprintf("t64.enc %d %d", sec, ns)
	x, _ := lib.Ints(c.Do(op1))
	op2 := fmt.Sprintf("t64.dec %d %d %d %d", x[0], x[1], rs, rn)
	y, _ := lib.Ints(c.Do(op2))
	ds, dn := y[0], y[1]
	d := sec - rs
	switch {
	case d == -half:
		c.Count("window:lower-edge")
	case d == half-1:
		c.Count("window:upper-edge")
	case d < 0:
		c.Count("window:before-ref")
	default:
		c.Count("window:after-ref")
	}
	if (sec-epoch)>>32 != (rs-epoch)>>32 {
		if sec < rs {
			c.Count("era:time-in-previous-era")
		} else {
			c.Count("era:time-in-next-era")
		}
	} else {
		c.Count("era:same")
	}
	orig := sec*nsps + ns // fits: |sec| < 2^35
	got := ds*nsps + dn
	if got > orig || got < orig-1 {
		kind := "sub-second"
		if ds != sec {
			kind = "seconds"
			if sec < rs {
				kind = "seconds:time-before-ref-in-previous-era"
			}
		}
		c.Fail("C04:roundtrip:"+kind, "time -> Time64 -> time relative to a reference within 2^31 s is not within [t-1ns, t]",
			[]string{op1, op2},
			map[string]any{"time_sec": sec, "time_ns": ns, "ref_sec": rs, "ref_ns": rn, "decoded_sec": ds, "decoded_ns": dn,
				"error_ns": fmt.Sprint(got - orig)})
	}
	return ds, dn
}

func gen(c *lib.Ctx) {
	r := c.Rand

	boundaries := []int64{}
	for k := int64(1); k <= 4; k++ {
		boundaries = append(boundaries, epoch+k*era) // 2036, 2172, 2308, 2444
	}
	nsEdges := []int64{0, 1, 2, 3, 4, 5, 232, 233, 499999999, 500000000, 500000001, 999999998, 999999999}
	deltas := []int64{-half, -half + 1, -half + 2, -65536, -15, -5, -1, 0, 1, 5, 15, 65536, half - 2, half - 1}

	// corpus: the F1 witness (reference 10 s after the 2036 rollover, time 5 s before)
	c.Comment("corpus F1 witness")
	roundTrip(c, 2085978491, 0, 2085978506, 0)

	// boundary stream: references around every era boundary x window deltas x ns edges
	c.Comment("boundary stream")
	for _, b := range boundaries {
		for _, ro := range []int64{-half - 1, -half, -half + 1, -3, -1, 0, 1, 3, 10, half - 1, half, half + 1} {
			rs := b + ro
			if rs < 0 {
				continue // the property quantifies over references from 1970 on
			}
			for _, d := range deltas {
				for _, ns := range []int64{0, 1, 999999999} {
					roundTrip(c, rs+d, ns, rs, r.Range(0, nsps-1))
				}
			}
		}
	}
	for _, ns := range nsEdges {
		roundTrip(c, 1700000000, ns, 1700000000, 0)
	}

	n := c.Scale(20000, 1000000)
	c.Comment("random stream")
	for i := 0; i < n; i++ {
		var rs int64
		switch r.Intn(4) {
		case 0: // anywhere 1970..2500
			rs = r.Range(0, 16725225600)
		case 1: // near an era boundary (within the window)
			rs = r.Pick64(boundaries) + r.Range(-half-10, half+10)
		case 2: // very near an era boundary
			rs = r.Pick64(boundaries) + r.Range(-100, 100)
		default: // present day
			rs = r.Range(1600000000, 1900000000)
		}
		if rs < 0 {
			rs = 0
		}
		var d int64
		switch r.Intn(4) {
		case 0:
			d = r.Pick64(deltas)
		case 1:
			d = r.Range(-half, half-1)
		case 2:
			d = r.Range(-1000, 1000)
		default:
			// straddle the nearest boundary on purpose
			b := r.Pick64(boundaries)
			d = b - rs + r.Range(-50, 50)
			if d < -half || d >= half {
				d = r.Range(-half, half-1)
			}
		}
		var ns int64
		if r.Chance(30) {
			ns = r.Pick64(nsEdges)
		} else {
			ns = r.Range(0, nsps-1)
		}
		sec := rs + d
		ds, dn := roundTrip(c, sec, ns, rs, r.Range(0, nsps-1))

		// order preservation: a second time u >= t in the same window
		if r.Chance(40) {
			var us, un int64
			switch r.Intn(3) {
			case 0:
				us, un = sec, ns+r.Range(0, 3)
				if un >= nsps {
					us, un = us+1, un-nsps
				}
			case 1:
				us, un = sec+r.Range(0, 2), r.Range(0, nsps-1)
				if us == sec && un < ns {
					un = ns
				}
			default:
				us, un = rs+r.Range(d, half-1), r.Range(0, nsps-1)
				if us == sec && un < ns {
					un = ns
				}
			}
			if us-rs < half && us-rs >= -half {
				opa := fmt.Sprintf("t64.enc %d %d", us, un)
				x, _ := lib.Ints(c.Do(opa))
				opb := fmt.Sprintf("t64.dec %d %d %d %d", x[0], x[1], rs, 0)
				u, _ := lib.Ints(c.Do(opb))
				c.Count("order:pairs")
				if u[0] < ds || (u[0] == ds && u[1] < dn) {
					c.Fail("C04:order", "t <= u within the window but decoded(t) > decoded(u)",
						[]string{fmt.Sprintf("t64.enc %d %d", sec, ns), opa, opb},
						map[string]any{"ref_sec": rs})
				}
			}
		}

		// Before/After on raw values
		if r.Chance(20) {
			a := ntp.Time64{Seconds: uint32(r.U64()), Fraction: uint32(r.U64())}
			b := a
			switch r.Intn(4) {
			case 0:
				b.Fraction += uint32(r.Range(-2, 2))
			case 1:
				b.Seconds += uint32(r.Range(-1, 1))
			case 2:
				b = ntp.Time64{Seconds: uint32(r.U64()), Fraction: uint32(r.U64())}
			}
			c.Dof("t64.before %d %d %d %d", a.Seconds, a.Fraction, b.Seconds, b.Fraction)
			c.Dof("t64.after %d %d %d %d", a.Seconds, a.Fraction, b.Seconds, b.Fraction)
		}
	}
	genClient(c, r.Fork("client"))
}

func main() { lib.Main(exec, gen) }
