// Several rounds on ONE ReferenceClockClient (op col.rounds, model Model/CollectRounds.lean).
//
// The real MeasureClockOffsets is called round after round on the same *client*, shared by
// pointer, inside one synctest bubble; clocks of round k that have not returned by its deadline
// keep running while rounds k+1, k+2 … are in progress (they return in the middle of a later
// round, between rounds, or after the last one). Clock ids are 100·k + position, so the offset of
// every result says which round's call produced it. Every round gets a fresh slice pre-filled with
// failed sentinels (so the front the collector wrote and an untouched tail are visible).
//
// Direct oracle (no model): per round — returned by its deadline; the front holds exactly the
// successful results of THAT round's own calls that were available before its deadline, once
// each, in arrival order; nothing behind the front was written; nothing blocked at bubble exit.
package main

import (
	"context"
	"fmt"
	"sort"
	"strconv"
	"strings"
	"sync"
	"testing/synctest"
	"time"

	"example.com/scion-time/core/client"
	"example.com/scion-time/core/measurements"

	"verifharness/lib"
)

type roundPlan struct {
	t0, d int64
	specs []spec
}

type roundOutcome struct {
	ret     int64
	front   []int // global ids (100·k + position), slice order
	tail    int
	problem string
	// after every straggler has returned and the bubble is quiescent: indices of the round's slice
	// whose content is no longer what it was when the round's MeasureClockOffsets returned
	after []int
}

func (p roundPlan) tieAt() int64 {
	if p.t0 > p.d {
		return p.t0
	}
	return p.d
}

func parseRounds(toks []string) ([]roundPlan, bool) {
	var plans []roundPlan
	cur := []string{}
	flush := func() bool {
		if len(cur) < 2 {
			return false
		}
		t0, e1 := strconv.ParseInt(cur[0], 10, 64)
		d, e2 := strconv.ParseInt(cur[1], 10, 64)
		specs, ok := parseSpecs(cur[2:])
		if e1 != nil || e2 != nil || !ok || t0 < 0 {
			return false
		}
		for _, sp := range specs {
			if sp.due < t0 {
				return false
			}
		}
		if len(specs) > 99 {
			return false
		}
		plans = append(plans, roundPlan{t0, d, specs})
		cur = cur[:0]
		return true
	}
	for _, t := range toks {
		if t == "/" {
			if !flush() {
				return nil, false
			}
			continue
		}
		cur = append(cur, t)
	}
	if !flush() {
		return nil, false
	}
	for k := 1; k < len(plans); k++ {
		if plans[k].t0 < plans[k-1].tieAt() {
			return nil, false // the previous call has not necessarily returned
		}
	}
	return plans, true
}

func runRounds(plans []roundPlan) (outs []roundOutcome, leak string) {
	leak = "0"
	outs = make([]roundOutcome, len(plans))
	var mu sync.Mutex
	var rets []int64
	body := func() {
		start := time.Now()
		cl := &client.ReferenceClockClient{} // ONE client, shared by pointer by all rounds
		var cancels []context.CancelFunc
		var maxDue int64
		var slices, snaps [][]measurements.Measurement
		for k, p := range plans {
			time.Sleep(time.Duration(p.t0) - time.Since(start))
			clks := make([]client.ReferenceClock, len(p.specs))
			for i, sp := range p.specs {
				clks[i] = &fakeClk{id: 100*k + i, sp: sp, t0: p.t0, start: start, mu: &mu, rets: &rets}
				if sp.due > maxDue && !sp.aware {
					maxDue = sp.due
				}
			}
			if p.tieAt() > maxDue {
				maxDue = p.tieAt()
			}
			ms := make([]measurements.Measurement, len(p.specs))
			for i := range ms {
				ms[i] = measurements.Measurement{Offset: time.Duration(-1 - i), Error: errSentinel}
			}
			ctx, cancel := context.WithTimeout(context.Background(), time.Duration(p.d-p.t0))
			cancels = append(cancels, cancel)
			cl.MeasureClockOffsets(ctx, clks, ms)
			o := &outs[k]
			o.ret = int64(time.Since(start))
			slices, snaps = append(slices, ms), append(snaps, append([]measurements.Measurement(nil), ms...))
			j := 0
			for j < len(ms) && ms[j].Error == nil {
				id := int((ms[j].Offset - 1) / 1000)
				if ms[j].Offset != offsetOf(id) || id < 0 {
					o.problem = "front entry is not a measurement result"
				}
				o.front = append(o.front, id)
				j++
			}
			for i := j; i < len(ms); i++ {
				if ms[i].Error == errSentinel && ms[i].Offset == time.Duration(-1-i) {
					o.tail++
				}
			}
		}
		time.Sleep(time.Duration(maxDue) - time.Since(start) + 1)
		synctest.Wait()
		for _, c := range cancels {
			c()
		}
		synctest.Wait()
		// every call of every round has returned and nothing can run any more: the slices must
		// still be what the rounds returned (a result that was not there at the return instant
		// did not arrive in time)
		for k := range slices {
			for i := range slices[k] {
				if slices[k][i] != snaps[k][i] {
					outs[k].after = append(outs[k].after, i)
				}
			}
		}
	}
	if runBubble(body) {
		leak = "deadlock"
	}
	return outs, leak
}

// canonRoundFront: like canonFront, for global ids (specs looked up through lookup).
func canonRoundFront(front []int, due func(id int) (int64, bool)) []int64 {
	out := make([]int64, len(front))
	for i, id := range front {
		out[i] = int64(id)
	}
	for a := 0; a < len(front); {
		b := a + 1
		da, oka := due(front[a])
		for b < len(front) {
			db, okb := due(front[b])
			if !oka || !okb || da != db {
				break
			}
			b++
		}
		sort.Slice(out[a:b], func(x, y int) bool { return out[a+x] < out[a+y] })
		a = b
	}
	return out
}

var lastRounds []roundOutcome
var lastRoundsLeak string

func execRounds(t []string) string {
	plans, ok := parseRounds(t)
	if !ok {
		return "bad-op"
	}
	outs, leak := runRounds(plans)
	lastRounds, lastRoundsLeak = outs, leak
	due := func(id int) (int64, bool) {
		k, i := id/100, id%100
		if k < 0 || k >= len(plans) || i >= len(plans[k].specs) {
			return 0, false
		}
		return plans[k].specs[i].due, true
	}
	parts := make([]string, len(outs))
	for k, o := range outs {
		if o.problem != "" {
			return "err " + strings.ReplaceAll(o.problem, " ", "-")
		}
		parts[k] = fmt.Sprintf("ret=%d front=%s tail=%d", o.ret, lib.IntList(canonRoundFront(o.front, due)), o.tail)
	}
	return "ok " + strings.Join(parts, " ; ") + " leak=" + leak
}

func fmtRounds(plans []roundPlan) string {
	var sb strings.Builder
	sb.WriteString("col.rounds")
	b := func(x bool) int {
		if x {
			return 1
		}
		return 0
	}
	for k, p := range plans {
		if k > 0 {
			sb.WriteString(" /")
		}
		fmt.Fprintf(&sb, " %d %d", p.t0, p.d)
		for _, sp := range p.specs {
			fmt.Fprintf(&sb, " %d:%d:%d", sp.due, b(sp.ok), b(sp.aware))
		}
	}
	return sb.String()
}

// roundsScenario runs one multi-round case through the correspondence and the direct oracle.
func roundsScenario(c *lib.Ctx, plans []roundPlan) {
	op := fmtRounds(plans)
	ans := c.Do(op)
	fail := func(sig, what string, k int) {
		c.Fail(sig, what, []string{op}, map[string]any{"answer": ans, "round": k})
	}
	if !strings.HasPrefix(ans, "ok ") {
		fail("c16:rounds-failed", "the rounds did not complete: "+ans, -1)
		return
	}
	outs := lastRounds
	stragglerDuringLater := false
	for k, p := range plans {
		o := outs[k]
		tieAt := p.tieAt()
		if o.ret > tieAt {
			fail("c16:late-return", "MeasureClockOffsets returned after its deadline", k)
		}
		if o.ret < p.t0 {
			fail("c16:time", "return instant before entry", k)
		}
		seen := map[int]bool{}
		prev := int64(-1)
		for _, id := range o.front {
			rk, i := id/100, id%100
			if rk != k || i >= len(p.specs) {
				fail("c16:cross-round", "the result slice of a round holds the result of another round's measurement call", k)
				continue
			}
			sp := p.specs[i]
			if seen[i] {
				fail("c16:duplicate", "a result appears twice in the result slice", k)
			}
			seen[i] = true
			if !sp.ok {
				fail("c16:failed-in-front", "a failed measurement was placed in the result slice", k)
			}
			if sp.due > tieAt {
				fail("c16:late-in-front", "a result that was not available by the deadline is in the result slice", k)
			}
			if sp.due < prev {
				fail("c16:order", "results are not in arrival order", k)
			}
			prev = sp.due
		}
		for i, sp := range p.specs {
			if sp.ok && sp.due < tieAt && !seen[i] {
				fail("c16:missing", "a successful result of this round that arrived before its deadline is missing from the front", k)
			}
			if !sp.aware && sp.due > tieAt && k+1 < len(plans) && sp.due >= plans[k+1].t0 {
				stragglerDuringLater = true
			}
		}
		if o.tail != len(p.specs)-len(o.front) {
			fail("c16:tail-written", "entries behind the front were modified", k)
		}
		if len(o.after) > 0 {
			c.Fail("c16:written-after-return", "the result slice of a round was written after the round's MeasureClockOffsets had returned (a result that arrived after the deadline was placed in it)",
				[]string{op}, map[string]any{"answer": ans, "round": k, "indices": fmt.Sprint(o.after)})
		}
	}
	if lastRoundsLeak != "0" {
		fail("c16:leak", "goroutines still blocked at bubble exit: "+lastRoundsLeak, -1)
	}
	c.Count(fmt.Sprintf("rounds:%d", len(plans)))
	if stragglerDuringLater {
		c.Count("rounds:straggler-returns-during-or-after-a-later-round")
	}
}

// genRounds: 2–4 rounds on one client; ≈ 60 % of the rounds leave stragglers behind that return
// while a later round is collecting, between rounds or after the last one. Exact ties with a
// deadline are left to col.run (single round), where the scheduler's choice is observed.
func genRounds(c *lib.Ctx, r *lib.Rand) {
	// corpus: the schedule decided in Props/C16Rounds.lean and the shape of seeded C16-13's demo
	roundsScenario(c, []roundPlan{
		{0, 10, []spec{{3, true, false}, {14, true, false}}},
		{12, 22, []spec{{13, true, false}, {15, false, false}}}})
	sec := int64(time.Second)
	roundsScenario(c, []roundPlan{
		{0, sec, []spec{{0, true, false}, {5 * sec / 2, true, false}}},
		{2 * sec, 3 * sec, []spec{{2*sec + sec/10, true, false}, {2*sec + sec/5, true, false}, {2*sec + 3*sec/10, false, false}}},
		{60 * sec, 61 * sec, []spec{{60 * sec, true, false}}}})
	roundsScenario(c, []roundPlan{
		{0, sec, []spec{{0, true, false}, {30 * sec, true, false}}},
		{2 * sec, 3 * sec, []spec{{2*sec + sec/10, true, false}, {2*sec + sec/5, true, false}, {2*sec + 3*sec/10, false, false}}},
		{60 * sec, 61 * sec, []spec{{60 * sec, true, false}}}})
	units := []int64{1, int64(time.Microsecond), int64(time.Millisecond)}
	for n := 0; n < c.Scale(400, 6000); n++ {
		u := units[r.Intn(len(units))]
		nr := int(r.Range(2, 4))
		var plans []roundPlan
		t := r.Range(0, 50) * u
		for k := 0; k < nr; k++ {
			span := r.Range(4, 400) * u
			p := roundPlan{t0: t, d: t + span}
			m := int(r.Range(0, 5))
			for i := 0; i < m; i++ {
				sp := spec{ok: r.Chance(80), aware: r.Chance(25)}
				switch q := r.Intn(100); {
				case q < 45: // in time
					sp.due = p.t0 + r.Range(0, span-1)
				case q < 85: // straggler: returns during a later round, between rounds, or after all
					sp.due = p.d + r.Range(1, 3*span+int64(nr)*400*u)
					if r.Chance(70) {
						sp.aware = false
					}
				case q < 92: // never (until cancelled)
					sp.due = p.d + 1000*int64(time.Hour)
					sp.aware = true
				default:
					sp.due = p.t0
				}
				if sp.due == p.tieAt() {
					sp.due++
				}
				p.specs = append(p.specs, sp)
			}
			plans = append(plans, p)
			t = p.tieAt() + r.Range(0, 3)*r.Range(0, 200)*u
		}
		roundsScenario(c, plans)
	}
}
