// c16: correspondence + direct oracle for a measurement round
// (core/client: (*ReferenceClockClient).MeasureClockOffsets / collectMeasurements).
//
// Every scenario runs the real MeasureClockOffsets inside its own testing/synctest bubble with
// fake reference clocks that return before / at / after the deadline, only when cancelled, with
// or without an error. Instants are ns of the bubble's virtual clock. The result slice is
// pre-filled with failed sentinel measurements, so the number of entries the collector wrote
// (the `j` that MeasureClockOffsets does not return) is visible as the leading successes.
// synctest.Run panics with a deadlock report when goroutines are still blocked at bubble exit;
// that is recovered and reported as leak=deadlock.
package main

import (
	"context"
	"errors"
	"fmt"
	"sort"
	"strconv"
	"strings"
	"sync"
	"testing/synctest"
	"time"

	"example.com/scion-time/core/client"
	"example.com/scion-time/core/measurements"

	"verifharness/lib"
)

type spec struct {
	due       int64
	ok, aware bool
}

var (
	errFake     = errors.New("fake clock failure")
	errSentinel = errors.New("sentinel")
)

type fakeClk struct {
	id    int
	sp    spec
	t0    int64
	start time.Time
	mu    *sync.Mutex
	rets  *[]int64
}

func offsetOf(id int) time.Duration { return time.Duration(id)*1000 + 1 }

func (f *fakeClk) MeasureClockOffset(ctx context.Context) (time.Time, time.Duration, error) {
	rec := func() {
		f.mu.Lock()
		*f.rets = append(*f.rets, int64(time.Since(f.start)))
		f.mu.Unlock()
	}
	d := time.Duration(f.sp.due - f.t0)
	if f.sp.aware {
		t := time.NewTimer(d)
		select {
		case <-t.C:
		case <-ctx.Done():
			t.Stop()
			rec()
			return time.Time{}, 0, ctx.Err()
		}
	} else {
		time.Sleep(d)
	}
	rec()
	if f.sp.ok {
		// about half of the successful clocks report the zero time.Time, as core/sync's
		// localReferenceClock does: a success is a nil error, whatever its timestamp
		if (int64(f.id)+f.sp.due)%2 == 1 {
			return time.Time{}, offsetOf(f.id), nil
		}
		return time.Now(), offsetOf(f.id), nil
	}
	return time.Time{}, 0, errFake
}

// runBubble is synctest.Run with (a) an explicit happens-before edge from the end of the
// bubble's root function to the caller (the race detector does not see one through
// synctest.Run) and (b) the runtime's "deadlock: all goroutines in bubble are blocked" panic —
// raised in the caller of Run when goroutines are still blocked at bubble exit — recovered and
// returned as deadlocked=true. Any other panic is passed on.
func runBubble(f func()) (deadlocked bool) {
	ch := make(chan struct{}, 1)
	defer func() {
		select {
		case <-ch:
		default:
		}
		if r := recover(); r != nil {
			if strings.Contains(fmt.Sprint(r), "deadlock") {
				deadlocked = true
				return
			}
			panic(r)
		}
	}()
	synctest.Run(func() {
		f()
		ch <- struct{}{}
	})
	return false
}

type outcome struct {
	ret     int64
	front   []int // ids in slice order
	tail    int   // entries behind the front that still hold the sentinel
	last    int64
	leak    string
	problem string
}

func runScenario(t0, deadline int64, specs []spec) (o outcome) {
	o.leak = "0"
	var rets []int64
	var mu sync.Mutex
	body := func() {
		start := time.Now()
		time.Sleep(time.Duration(t0))
		clks := make([]client.ReferenceClock, len(specs))
		var maxDue int64 = t0
		for i, sp := range specs {
			clks[i] = &fakeClk{id: i, sp: sp, t0: t0, start: start, mu: &mu, rets: &rets}
			if sp.due > maxDue && !sp.aware {
				maxDue = sp.due
			}
		}
		if deadline > maxDue {
			maxDue = deadline
		}
		ms := make([]measurements.Measurement, len(specs))
		for i := range ms {
			ms[i] = measurements.Measurement{Offset: time.Duration(-1 - i), Error: errSentinel}
		}
		ctx, cancel := context.WithTimeout(context.Background(), time.Duration(deadline-t0))
		var c client.ReferenceClockClient
		c.MeasureClockOffsets(ctx, clks, ms)
		o.ret = int64(time.Since(start))
		j := 0
		for j < len(ms) && ms[j].Error == nil {
			id := int((ms[j].Offset - 1) / 1000)
			if ms[j].Offset != offsetOf(id) || id < 0 || id >= len(specs) {
				o.problem = "front entry is not a result of this round"
			}
			o.front = append(o.front, id)
			j++
		}
		for k := j; k < len(ms); k++ {
			if ms[k].Error == errSentinel && ms[k].Offset == time.Duration(-1-k) {
				o.tail++
			}
		}
		// let the late clocks finish, then leave the bubble
		time.Sleep(time.Duration(maxDue) - time.Since(start) + 1)
		synctest.Wait()
		cancel()
		synctest.Wait()
	}
	if runBubble(body) {
		o.leak = "deadlock"
	}
	o.last = t0
	mu.Lock()
	defer mu.Unlock()
	for _, r := range rets {
		if r > o.last {
			o.last = r
		}
	}
	return o
}

// canonFront: ids in slice order; runs of results with the same due instant (their arrival
// order is up to the goroutine scheduler) are sorted by id.
func canonFront(front []int, specs []spec) []int64 {
	out := make([]int64, len(front))
	for i, id := range front {
		out[i] = int64(id)
	}
	for a := 0; a < len(front); {
		b := a + 1
		for b < len(front) && specs[front[b]].due == specs[front[a]].due {
			b++
		}
		sort.Slice(out[a:b], func(x, y int) bool { return out[a+x] < out[a+y] })
		a = b
	}
	return out
}

func parseSpecs(toks []string) ([]spec, bool) {
	var specs []spec
	for _, t := range toks {
		if strings.HasPrefix(t, "tie=") {
			continue
		}
		f := strings.Split(t, ":")
		if len(f) != 3 {
			return nil, false
		}
		d, err := strconv.ParseInt(f[0], 10, 64)
		if err != nil || (f[1] != "0" && f[1] != "1") || (f[2] != "0" && f[2] != "1") {
			return nil, false
		}
		specs = append(specs, spec{due: d, ok: f[1] == "1", aware: f[2] == "1"})
	}
	return specs, true
}

var lastOutcome outcome

func exec(t []string) string {
	switch {
	case t[0] == "col.run" && len(t) >= 3:
		t0, e1 := strconv.ParseInt(t[1], 10, 64)
		d, e2 := strconv.ParseInt(t[2], 10, 64)
		specs, ok := parseSpecs(t[3:])
		if e1 != nil || e2 != nil || !ok || t0 < 0 {
			return "bad-op"
		}
		for _, sp := range specs {
			if sp.due < t0 {
				return "bad-op"
			}
		}
		o := runScenario(t0, d, specs)
		lastOutcome = o
		if o.problem != "" {
			return "err " + strings.ReplaceAll(o.problem, " ", "-")
		}
		return fmt.Sprintf("ok ret=%d front=%s tail=%d last=%d leak=%s", o.ret, lib.IntList(canonFront(o.front, specs)), o.tail, o.last, o.leak)
	case t[0] == "col.entry" && len(t) == 4:
		a, e1 := strconv.Atoi(t[1])
		b, e2 := strconv.Atoi(t[2])
		if e1 != nil || e2 != nil || a < 0 || b < 0 || a > 64 || b > 64 || (t[3] != "0" && t[3] != "1") {
			return "bad-op"
		}
		return runEntry(a, b, t[3] == "1")
	case t[0] == "col.guard" && len(t) >= 2:
		return runGuard(t[1:])
	case t[0] == "col.rounds" && len(t) >= 3:
		return execRounds(t[1:]) // rounds.go: several rounds on one shared client
	}
	return "bad-op"
}

type blockClk struct{}

func (blockClk) MeasureClockOffset(ctx context.Context) (time.Time, time.Duration, error) {
	<-ctx.Done()
	return time.Time{}, 0, ctx.Err()
}

type instantClk struct{}

func (instantClk) MeasureClockOffset(ctx context.Context) (time.Time, time.Duration, error) {
	return time.Time{}, 0, nil
}

// runEntry: one call with len(ms)=a, len(refclks)=b on a client that is idle or (busy) has a
// collection in progress; afterwards one well-formed call (the first one, if accepted, has
// returned by then).
func runEntry(a, b int, busy bool) string {
	var first, next string
	dead := runBubble(func() {
		var c client.ReferenceClockClient
		var release context.CancelFunc
		var done chan struct{}
		if busy {
			var ctx context.Context
			ctx, release = context.WithCancel(context.Background())
			done = make(chan struct{})
			go func() {
				defer close(done)
				c.MeasureClockOffsets(ctx, []client.ReferenceClock{blockClk{}}, make([]measurements.Measurement, 1))
			}()
			synctest.Wait()
		}
		call := func(nms, nclk int) (res string) {
			defer func() {
				if r := recover(); r != nil {
					s := fmt.Sprint(r)
					switch {
					case strings.Contains(s, "number of result offsets must be equal"):
						res = "len-panic"
					case strings.Contains(s, "too many reference clock offset measurements in progress"):
						res = "refused"
					default:
						res = "panic:" + lib.PanicClass(r)
					}
				}
			}()
			clks := make([]client.ReferenceClock, nclk)
			for i := range clks {
				clks[i] = instantClk{}
			}
			c.MeasureClockOffsets(context.Background(), clks, make([]measurements.Measurement, nms))
			return "accepted"
		}
		first = call(a, b)
		next = call(2, 2)
		if busy {
			release()
			<-done
		}
		synctest.Wait()
	})
	if dead {
		return "ok " + first + " next=" + next + " leak=deadlock"
	}
	return "ok " + first + " next=" + next
}

// runGuard: e = a new goroutine enters MeasureClockOffsets on the shared client (its clock
// blocks until the call's context is cancelled); l = the accepted call is cancelled and returns.
func runGuard(evs []string) string {
	var res []string
	bad := false
	dead := runBubble(func() {
		var c client.ReferenceClockClient
		var inside context.CancelFunc
		var insideDone chan struct{}
		for _, ev := range evs {
			switch ev {
			case "e":
				ctx, cancel := context.WithCancel(context.Background())
				done := make(chan struct{})
				var pan any
				go func() {
					defer close(done)
					defer func() { pan = recover() }()
					c.MeasureClockOffsets(ctx, []client.ReferenceClock{blockClk{}}, make([]measurements.Measurement, 1))
				}()
				synctest.Wait()
				select {
				case <-done:
					cancel()
					if pan != nil && strings.Contains(fmt.Sprint(pan), "too many reference clock offset measurements in progress") {
						res = append(res, "refused")
					} else {
						res = append(res, "returned-at-once:"+lib.PanicClass(pan))
					}
				default:
					if inside != nil {
						res = append(res, "accepted-while-in-progress")
						// two collections interleave now; release both
						cancel()
						<-done
					} else {
						res = append(res, "accepted")
						inside, insideDone = cancel, done
					}
				}
			case "l":
				if inside == nil {
					bad = true
					continue
				}
				inside()
				<-insideDone
				inside, insideDone = nil, nil
				res = append(res, "left")
			default:
				bad = true
			}
		}
		if inside != nil {
			inside()
			<-insideDone
		}
		synctest.Wait()
	})
	if bad {
		return "bad-op"
	}
	if dead {
		return "ok " + strings.Join(res, " ") + " leak=deadlock"
	}
	return "ok " + strings.Join(res, " ")
}

// ------------------------------------------------------------------ generator + direct oracle

func fmtOp(t0, d int64, specs []spec, tie []int64) string {
	var sb strings.Builder
	fmt.Fprintf(&sb, "col.run %d %d", t0, d)
	b := func(x bool) int {
		if x {
			return 1
		}
		return 0
	}
	for _, sp := range specs {
		fmt.Fprintf(&sb, " %d:%d:%d", sp.due, b(sp.ok), b(sp.aware))
	}
	if len(tie) > 0 {
		sb.WriteString(" tie=" + lib.IntList(tie))
	}
	return sb.String()
}

// scenario runs one case, evaluates the statement's clauses on the observation and emits the
// op (with the observed scheduler choice at an exact tie) for the model.
func scenario(c *lib.Ctx, t0, d int64, specs []spec) {
	op := fmtOp(t0, d, specs, nil)
	ans := lib.Try(func() string { return exec(strings.Fields(op)) })
	o := lastOutcome
	tieAt := d
	if t0 > tieAt {
		tieAt = t0
	}
	var tie []int64
	if strings.HasPrefix(ans, "ok ") {
		for _, id := range o.front {
			if specs[id].due == tieAt {
				tie = append(tie, int64(id))
			}
		}
		sort.Slice(tie, func(i, j int) bool { return tie[i] < tie[j] })
	}
	full := fmtOp(t0, d, specs, tie)
	c.Emit(full, ans)
	if len(tie) > 0 {
		c.Count("tie:success-received-at-deadline")
	}
	fail := func(sig, what string) {
		c.Fail(sig, what, []string{op}, map[string]any{"answer": ans})
	}
	if !strings.HasPrefix(ans, "ok ") {
		fail("c16:run-failed", "the round did not complete: "+ans)
		return
	}
	// clause 1: returns no later than the deadline (or at once if the deadline has passed)
	if o.ret > tieAt {
		fail("c16:late-return", "MeasureClockOffsets returned after the deadline")
	}
	if o.ret < t0 {
		fail("c16:time", "return instant before entry")
	}
	// clause 2: each successful result that arrived in time exactly once at the front, in
	// arrival order; nothing else there; the rest of the slice untouched
	seen := map[int]bool{}
	prev := int64(-1)
	for _, id := range o.front {
		sp := specs[id]
		if seen[id] {
			fail("c16:duplicate", "a result appears twice in the result slice")
		}
		seen[id] = true
		if !sp.ok {
			fail("c16:failed-in-front", "a failed measurement was placed in the result slice")
		}
		if sp.due > tieAt {
			fail("c16:late-in-front", "a result that was not available by the deadline is in the result slice")
		}
		if sp.due < prev {
			fail("c16:order", "results are not in arrival order")
		}
		prev = sp.due
	}
	for id, sp := range specs {
		if sp.ok && sp.due < tieAt && !seen[id] {
			fail("c16:missing", "a successful result that arrived before the deadline is missing from the front")
		}
	}
	if o.tail != len(specs)-len(o.front) {
		fail("c16:tail-written", "entries behind the front were modified")
	}
	// clause 3: nothing left behind once every measurement call has returned
	if o.leak != "0" {
		fail("c16:leak", "goroutines still blocked at bubble exit: "+o.leak)
	}
	// counters
	switch {
	case len(specs) == 0:
		c.Count("n:0")
	case len(specs) == 1:
		c.Count("n:1")
	default:
		c.Count("n:many")
	}
	if o.ret < tieAt {
		c.Count("ret:all-in-before-deadline")
	} else {
		c.Count("ret:at-deadline")
	}
	if d <= t0 {
		c.Count("deadline:already-passed")
	}
	for _, sp := range specs {
		switch {
		case sp.due < tieAt:
			c.Count("clock:before")
		case sp.due == tieAt:
			c.Count("clock:at-deadline")
		case sp.aware:
			c.Count("clock:cancelled")
		default:
			c.Count("clock:late")
		}
		if !sp.ok {
			c.Count("clock:error")
		}
	}
}

func genSpecs(r *lib.Rand, n int, t0, d int64, style int) []spec {
	specs := make([]spec, n)
	span := d - t0
	if span < 10 {
		span = 10
	}
	for i := range specs {
		var sp spec
		sp.ok = r.Chance(75)
		sp.aware = r.Chance(40)
		switch k := r.Intn(100); {
		case style == 1 || k < 45: // before
			sp.due = t0 + r.Range(0, span-1)
		case k < 60: // at / around the deadline
			sp.due = d + r.Range(-1, 1)
		case k < 80: // late
			sp.due = d + r.Range(1, 4*span)
		case k < 90: // never (until cancelled)
			sp.due = d + 1000*int64(time.Hour)
			sp.aware = true
		default: // immediately
			sp.due = t0
		}
		if style == 2 && r.Chance(50) { // clustered instants: equal arrival times
			sp.due = t0 + (sp.due-t0)/(span/4+1)*(span/4+1)
		}
		if sp.due < t0 {
			sp.due = t0
		}
		tieAt := d
		if t0 > tieAt {
			tieAt = t0
		}
		// a ctx-aware successful clock due exactly at the cancellation instant has two
		// admissible results (its own select); keep that out of the comparison
		if sp.aware && sp.ok && sp.due == tieAt {
			sp.aware = false
		}
		specs[i] = sp
	}
	return specs
}

func gen(c *lib.Ctx) {
	r := c.Rand
	units := []int64{1, int64(time.Microsecond), int64(time.Millisecond), int64(time.Second)}
	for k := 0; k < c.Scale(3000, 40000); k++ {
		n := int(r.Range(0, 6))
		if r.Chance(15) {
			n = int(r.Range(7, 40))
		}
		u := units[r.Intn(len(units))]
		t0 := int64(0)
		if r.Chance(30) {
			t0 = r.Range(0, 1000) * u
		}
		d := t0 + r.Range(1, 1000)*u
		switch r.Intn(20) {
		case 0:
			d = t0 // timeout 0: cancelled from the start (SyncTimeout may be 0)
		case 1:
			d = t0 - r.Range(1, 5)
			if d < 0 {
				d = 0
			}
		}
		scenario(c, t0, d, genSpecs(r, n, t0, d, r.Intn(3)))
	}
	// several rounds on ONE client, with stragglers of earlier rounds still running (rounds.go)
	genRounds(c, r.Fork("rounds"))
	// What the caller in core/sync does with the slice (informational, no oracle): the same
	// slice round after round, FaultTolerantMidpoint over all of it. Round 1: every clock
	// succeeds; round 2: every clock fails. Counted: whether round 2 reports round 1's midpoint.
	for k := 0; k < c.Scale(5, 50); k++ {
		n := int(r.Range(1, 7))
		var off1, off2 time.Duration
		dead := runBubble(func() {
			ms := make([]measurements.Measurement, n)
			round := func(ok bool) time.Duration {
				start := time.Now()
				var mu sync.Mutex
				var rets []int64
				clks := make([]client.ReferenceClock, n)
				for i := range clks {
					clks[i] = &fakeClk{id: i + 1, sp: spec{due: int64(i + 1), ok: ok}, start: start, mu: &mu, rets: &rets}
				}
				ctx, cancel := context.WithTimeout(context.Background(), time.Second)
				defer cancel()
				var cl client.ReferenceClockClient
				cl.MeasureClockOffsets(ctx, clks, ms)
				return measurements.FaultTolerantMidpoint(ms).Offset
			}
			off1 = round(true)
			off2 = round(false)
			synctest.Wait()
		})
		if dead {
			// the equivalent single round as a replayable op: n clocks that all fail in time
			specs := make([]spec, n)
			for i := range specs {
				specs[i] = spec{due: int64(i + 1)}
			}
			op := fmtOp(0, int64(time.Second), specs, nil)
			c.Fail("c16:leak", "goroutines still blocked at bubble exit (two rounds on one slice, second round all clocks fail)", []string{op}, nil)
			c.Count("reuse:deadlock")
		} else if off1 != 0 && off2 == off1 {
			c.Count("reuse:all-clocks-failed-yet-previous-midpoint-reported")
		} else {
			c.Count("reuse:other")
		}
	}
	// entry checks: length mismatch (before the guard), busy / idle client
	for k := 0; k < c.Scale(40, 400); k++ {
		a, b := int(r.Range(0, 5)), int(r.Range(0, 5))
		if r.Chance(40) {
			b = a
		}
		busy := r.Bool()
		op := fmt.Sprintf("col.entry %d %d %d", a, b, map[bool]int{false: 0, true: 1}[busy])
		ans := c.Do(op)
		want := "accepted"
		switch {
		case a != b:
			want = "len-panic"
			c.Count("entry:len-mismatch")
		case busy:
			want = "refused"
			c.Count("entry:busy")
		default:
			c.Count("entry:idle")
		}
		wantNext := "accepted"
		if busy {
			wantNext = "refused"
		}
		if strings.HasSuffix(ans, " leak=deadlock") {
			c.Fail("c16:leak", "goroutines still blocked at bubble exit", []string{op}, map[string]any{"answer": ans})
		} else if ans != "ok "+want+" next="+wantNext {
			c.Fail("c16:entry", "entry of MeasureClockOffsets: expected "+want+" then "+wantNext+", got "+ans, []string{op}, nil)
		}
	}
	// CAS guard
	for k := 0; k < c.Scale(60, 600); k++ {
		var evs []string
		inside := false
		m := int(r.Range(1, 12))
		for i := 0; i < m; i++ {
			if inside && r.Chance(40) {
				evs = append(evs, "l")
				inside = false
			} else {
				evs = append(evs, "e")
				inside = true
			}
		}
		op := "col.guard " + strings.Join(evs, " ")
		ans := c.Do(op)
		// direct oracle: an enter while a collection is in progress must be refused
		if strings.HasSuffix(ans, " leak=deadlock") {
			c.Fail("c16:leak", "goroutines still blocked at bubble exit", []string{op}, map[string]any{"answer": ans})
			ans = strings.TrimSuffix(ans, " leak=deadlock")
		}
		f := strings.Fields(ans)
		in := false
		okAns := len(f) == len(evs)+1 && f[0] == "ok"
		for i := 0; okAns && i < len(evs); i++ {
			switch evs[i] {
			case "e":
				if in && f[i+1] != "refused" {
					c.Fail("c16:second-collection-not-refused", "a second collection on the same client was not refused", []string{op}, map[string]any{"answer": ans})
				}
				if !in && f[i+1] != "accepted" {
					c.Fail("c16:collection-refused-while-idle", "a collection on an idle client was refused", []string{op}, map[string]any{"answer": ans})
				}
				if !in {
					c.Count("guard:accepted")
				} else {
					c.Count("guard:refused")
				}
				in = true
			case "l":
				in = false
				c.Count("guard:left")
			}
		}
		if !okAns {
			c.Fail("c16:guard-failed", "guard scenario failed: "+ans, []string{op}, nil)
		}
	}
}

func main() { lib.Main(exec, gen) }
