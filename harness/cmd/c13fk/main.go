// c13fk: the DRKey fetch chain against a scripted SCION daemon (see fk/fk.go).
package main

import (
	"verifharness/cmd/c13fk/fk"
	"verifharness/lib"
)

func main() { lib.Main(fk.Exec, fk.Gen) }
