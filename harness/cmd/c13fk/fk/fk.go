// c13fk: the DRKey fetch chain (net/scion daemon.go, drkey.go, fetcher.go) executed in-process
// against a *scripted SCION daemon*: either handed to scion.NewFetcher directly as a
// daemon.Connector, or — the production path — behind a stand-in gRPC daemon service on loopback
// TCP that the real scion.NewDaemonConnector connects to (the gRPC SCION daemon itself cannot be
// run here; the stand-in implements the DRKeyHostAS / DRKeyHostHost methods of scionproto's
// daemon service with the real grpc server of the module cache).
// Correspondence with Model/DrkeyFetch.lean (driver drv_c13fk) and direct oracles: the key used
// at validity instant t is the daemon's key for the epoch containing t; errors are not cached;
// the cache never serves another identity; the client's host-host fetch is never cached.
package fk

import (
	"context"
	"crypto/sha256"
	"encoding/hex"
	"errors"
	"fmt"
	"net"
	"strconv"
	"strings"
	"sync"
	"time"

	"github.com/prometheus/client_golang/prometheus"
	"google.golang.org/grpc"
	"google.golang.org/grpc/codes"
	"google.golang.org/grpc/status"
	"google.golang.org/protobuf/types/known/timestamppb"

	"github.com/scionproto/scion/pkg/addr"
	"github.com/scionproto/scion/pkg/daemon"
	"github.com/scionproto/scion/pkg/drkey"
	"github.com/scionproto/scion/pkg/drkey/generic"
	sdpb "github.com/scionproto/scion/pkg/proto/daemon"
	"github.com/scionproto/scion/pkg/scrypto/cppki"

	"example.com/scion-time/base/metrics"
	"example.com/scion-time/net/scion"

	"verifharness/lib"
)

// ---------------------------------------------------------------- the scripted daemon

// script: the answer to the next level-2 / level-3 request, and what was seen.
type l2Answer struct {
	err                  bool
	proto                int
	srcIA, dstIA         uint64
	host                 string
	nb, na               int64
	key                  []byte
}

type scripted struct {
	mu     sync.Mutex
	l2     *l2Answer
	l3     *l2Answer // nb, na, key, err only
	asked  int
	saw    string
	askedH int
}

var sd scripted

func (s *scripted) reset() {
	s.mu.Lock()
	s.asked, s.askedH, s.saw, s.l2, s.l3 = 0, 0, "-", nil, nil
	s.mu.Unlock()
}

func nsTime(ns int64) time.Time { return time.Unix(0, ns).UTC() }

var errScripted = errors.New("scripted daemon error")

func (s *scripted) hostAS(meta drkey.HostASMeta) (*l2Answer, error) {
	s.mu.Lock()
	defer s.mu.Unlock()
	s.asked++
	s.saw = fmt.Sprintf("%d:%d:%d:%s:%d", int(meta.ProtoId), uint64(meta.SrcIA), uint64(meta.DstIA), hex.EncodeToString([]byte(meta.SrcHost)), meta.Validity.UnixNano())
	a := s.l2
	if a == nil || a.err {
		return nil, errScripted
	}
	return a, nil
}

func (s *scripted) hostHost() (*l2Answer, error) {
	s.mu.Lock()
	defer s.mu.Unlock()
	s.askedH++
	a := s.l3
	if a == nil || a.err {
		return nil, errScripted
	}
	return a, nil
}

// directConn: the scripted daemon as a daemon.Connector (every other method of the embedded
// nil interface would panic; the Fetcher calls none).
type directConn struct{ daemon.Connector }

func (directConn) DRKeyGetHostASKey(ctx context.Context, meta drkey.HostASMeta) (drkey.HostASKey, error) {
	a, err := sd.hostAS(meta)
	if err != nil {
		return drkey.HostASKey{}, err
	}
	k := drkey.HostASKey{ProtoId: drkey.Protocol(a.proto), SrcIA: addr.IA(a.srcIA), DstIA: addr.IA(a.dstIA), SrcHost: a.host,
		Epoch: drkey.Epoch{Validity: cppki.Validity{NotBefore: nsTime(a.nb), NotAfter: nsTime(a.na)}}}
	copy(k.Key[:], a.key)
	return k, nil
}

func (directConn) DRKeyGetHostHostKey(ctx context.Context, meta drkey.HostHostMeta) (drkey.HostHostKey, error) {
	a, err := sd.hostHost()
	if err != nil {
		return drkey.HostHostKey{}, err
	}
	k := drkey.HostHostKey{ProtoId: meta.ProtoId, SrcIA: meta.SrcIA, DstIA: meta.DstIA, SrcHost: meta.SrcHost, DstHost: meta.DstHost,
		Epoch: drkey.Epoch{Validity: cppki.Validity{NotBefore: nsTime(a.nb), NotAfter: nsTime(a.na)}}}
	copy(k.Key[:], a.key)
	return k, nil
}

// grpcDaemon: the same scripted daemon behind scionproto's daemon gRPC service.
type grpcDaemon struct {
	sdpb.UnimplementedDaemonServiceServer
}

func (*grpcDaemon) DRKeyHostAS(ctx context.Context, req *sdpb.DRKeyHostASRequest) (*sdpb.DRKeyHostASResponse, error) {
	meta := drkey.HostASMeta{ProtoId: drkey.Protocol(req.ProtocolId), Validity: req.ValTime.AsTime(), SrcIA: addr.IA(req.SrcIa),
		DstIA: addr.IA(req.DstIa), SrcHost: req.SrcHost}
	a, err := sd.hostAS(meta)
	if err != nil {
		return nil, status.Error(codes.NotFound, err.Error())
	}
	return &sdpb.DRKeyHostASResponse{EpochBegin: timestamppb.New(nsTime(a.nb)), EpochEnd: timestamppb.New(nsTime(a.na)), Key: a.key}, nil
}

func (*grpcDaemon) DRKeyHostHost(ctx context.Context, req *sdpb.DRKeyHostHostRequest) (*sdpb.DRKeyHostHostResponse, error) {
	a, err := sd.hostHost()
	if err != nil {
		return nil, status.Error(codes.NotFound, err.Error())
	}
	return &sdpb.DRKeyHostHostResponse{EpochBegin: timestamppb.New(nsTime(a.nb)), EpochEnd: timestamppb.New(nsTime(a.na)), Key: a.key}, nil
}

var (
	grpcOnce sync.Once
	grpcAddr string
	grpcErr  error
)

func startGRPCDaemon() (string, error) {
	grpcOnce.Do(func() {
		ln, err := net.Listen("tcp", "127.0.0.1:0")
		if err != nil {
			grpcErr = err
			return
		}
		srv := grpc.NewServer()
		sdpb.RegisterDaemonServiceServer(srv, &grpcDaemon{})
		go srv.Serve(ln)
		grpcAddr = ln.Addr().String()
	})
	return grpcAddr, grpcErr
}

// ---------------------------------------------------------------- metrics

func cacheCounters() [3]float64 {
	var out [3]float64
	mfs, err := prometheus.DefaultGatherer.Gather()
	if err != nil {
		return out
	}
	for _, mf := range mfs {
		idx := -1
		switch mf.GetName() {
		case metrics.DRKeyCacheKeysInsertedN:
			idx = 0
		case metrics.DRKeyCacheKeysExpiredN:
			idx = 1
		case metrics.DRKeyCacheKeysReplacedN:
			idx = 2
		}
		if idx >= 0 && len(mf.GetMetric()) == 1 {
			out[idx] = mf.GetMetric()[0].GetCounter().GetValue()
		}
	}
	return out
}

// ---------------------------------------------------------------- exec

var (
	fetcher  *scion.Fetcher
	connKind string
	mockMode bool
	histT0   time.Time
)

func kv(t []string, key string) string {
	for _, x := range t {
		if strings.HasPrefix(x, key+"=") {
			return x[len(key)+1:]
		}
	}
	panic("bad-op")
}

func atoi64(s string) int64 {
	v, err := strconv.ParseInt(s, 10, 64)
	if err != nil {
		panic("bad-op")
	}
	return v
}

func atou64(s string) uint64 {
	v, err := strconv.ParseUint(s, 10, 64)
	if err != nil {
		panic("bad-op")
	}
	return v
}

func unhex(s string) []byte {
	if s == "-" {
		return []byte{}
	}
	b, err := hex.DecodeString(s)
	if err != nil || strings.ToLower(s) != s {
		panic("bad-op")
	}
	return b
}

// parseAns: err | k:<proto>:<srcIA>:<dstIA>:<hosthex>:<nb>:<na>:<keyhex>
func parseAns(s string) *l2Answer {
	if s == "err" {
		return &l2Answer{err: true}
	}
	p := strings.Split(s, ":")
	if len(p) != 8 || p[0] != "k" {
		panic("bad-op")
	}
	a := &l2Answer{proto: int(atoi64(p[1])), srcIA: atou64(p[2]), dstIA: atou64(p[3]), host: string(unhex(p[4])),
		nb: atoi64(p[5]), na: atoi64(p[6]), key: unhex(p[7])}
	if len(a.key) != 16 || a.proto < 0 || a.proto > 65535 {
		panic("bad-op") // drkey.Protocol is 16 bits wide
	}
	return a
}

func parseAnsHH(s string) *l2Answer {
	if s == "err" {
		return &l2Answer{err: true}
	}
	p := strings.Split(s, ":")
	if len(p) != 4 || p[0] != "k" {
		panic("bad-op")
	}
	a := &l2Answer{nb: atoi64(p[1]), na: atoi64(p[2]), key: unhex(p[3])}
	if len(a.key) != 16 {
		panic("bad-op")
	}
	return a
}

func epochText(e drkey.Epoch, t1 time.Time) string {
	if mockMode {
		// now -/+ 6 h around a clock reading between the start of the history and now
		mid := e.NotBefore.Add(6 * time.Hour)
		if e.NotAfter.Sub(e.NotBefore) == 12*time.Hour && !mid.Before(histT0) && !mid.After(t1) {
			return "mock"
		}
	}
	return fmt.Sprintf("%d:%d", e.NotBefore.UnixNano(), e.NotAfter.UnixNano())
}

func Exec(t []string) (res string) {
	defer func() {
		if r := recover(); r != nil {
			if s, ok := r.(string); ok && s == "bad-op" {
				res = "bad-op"
				return
			}
			panic(r)
		}
	}()
	switch t[0] {
	case "fk.new":
		if len(t) != 3 {
			return "bad-op"
		}
		conn, mock := kv(t[1:], "conn"), kv(t[1:], "mock")
		if (mock != "0" && mock != "1") || (mock == "1") != scion.UseMockKeys() {
			return "bad-op" // USE_MOCK_KEYS is read once, when the process starts
		}
		mockMode = mock == "1"
		var dc daemon.Connector
		switch conn {
		case "direct":
			dc = directConn{}
		case "nil":
			dc = scion.NewDaemonConnector(context.Background(), "")
		case "grpc":
			a, err := startGRPCDaemon()
			if err != nil {
				return "err harness-assumption-broken:listen"
			}
			dc = scion.NewDaemonConnector(context.Background(), a)
			if dc == nil {
				return "err harness-assumption-broken:connect"
			}
		default:
			return "bad-op"
		}
		connKind = conn
		fetcher = scion.NewFetcher(dc)
		sd.reset()
		histT0 = time.Now()
		return "ok"
	case "fk.hak":
		if len(t) != 7 || fetcher == nil {
			return "bad-op"
		}
		a := t[1:]
		tv := atoi64(kv(a, "t"))
		validity := nsTime(tv)
		if mockMode {
			validity = time.Now().Add(time.Duration(tv)) // relative to the process clock
		}
		meta := drkey.HostASMeta{ProtoId: proto16(kv(a, "p")), Validity: validity,
			SrcIA: addr.IA(atou64(kv(a, "s"))), DstIA: addr.IA(atou64(kv(a, "d"))), SrcHost: string(unhex(kv(a, "h")))}
		ans := parseAns(kv(a, "ans"))
		if connKind == "grpc" && !ans.err && (ans.proto != int(meta.ProtoId) || ans.srcIA != uint64(meta.SrcIA) ||
			ans.dstIA != uint64(meta.DstIA) || ans.host != meta.SrcHost) {
			return "bad-op" // the daemon's wire format carries epoch and key only
		}
		sd.mu.Lock()
		sd.l2, sd.asked, sd.saw = ans, 0, "-"
		sd.mu.Unlock()
		before := cacheCounters()
		ctx, cancel := context.WithTimeout(context.Background(), 20*time.Second)
		k, err := fetcher.FetchHostASKey(ctx, meta)
		timedOut := ctx.Err() != nil
		cancel()
		after := cacheCounters()
		sd.mu.Lock()
		asked, saw := sd.asked, sd.saw
		sd.mu.Unlock()
		if mockMode && saw != "-" {
			saw = "asked-in-mock-mode"
		}
		tail := fmt.Sprintf("asked=%d saw=%s cnt=%d,%d,%d", asked, saw, int(after[0]-before[0]), int(after[1]-before[1]), int(after[2]-before[2]))
		if err != nil {
			if timedOut || (connKind == "grpc" && status.Code(err) != codes.NotFound && asked == 0) {
				return "err harness-assumption-broken:" + strings.ReplaceAll(err.Error(), " ", "_")
			}
			return "err " + tail
		}
		return fmt.Sprintf("ok key=%s id=%d:%d:%d:%s ep=%s %s", lib.Hex(k.Key[:]), int(k.ProtoId), uint64(k.SrcIA), uint64(k.DstIA),
			lib.Hex([]byte(k.SrcHost)), epochText(k.Epoch, time.Now()), tail)
	case "fk.hh":
		if len(t) != 8 || fetcher == nil {
			return "bad-op"
		}
		a := t[1:]
		meta := drkey.HostHostMeta{ProtoId: proto16(kv(a, "p")), Validity: nsTime(atoi64(kv(a, "t"))),
			SrcIA: addr.IA(atou64(kv(a, "s"))), DstIA: addr.IA(atou64(kv(a, "d"))), SrcHost: string(unhex(kv(a, "h"))), DstHost: string(unhex(kv(a, "dh")))}
		ans := parseAnsHH(kv(a, "ans"))
		sd.mu.Lock()
		sd.l3, sd.askedH = ans, 0
		sd.mu.Unlock()
		ctx, cancel := context.WithTimeout(context.Background(), 20*time.Second)
		k, err := fetcher.FetchHostHostKey(ctx, meta)
		timedOut := ctx.Err() != nil
		cancel()
		sd.mu.Lock()
		asked := sd.askedH
		sd.mu.Unlock()
		if err != nil {
			if timedOut {
				return "err harness-assumption-broken:timeout"
			}
			return fmt.Sprintf("err asked=%d", asked)
		}
		if k.ProtoId != meta.ProtoId || k.SrcIA != meta.SrcIA || k.DstIA != meta.DstIA || k.SrcHost != meta.SrcHost || k.DstHost != meta.DstHost {
			return "ok other-identity"
		}
		return fmt.Sprintf("ok key=%s ep=%s asked=%d", lib.Hex(k.Key[:]), epochText(k.Epoch, time.Now()), asked)
	case "fk.derive":
		if len(t) != 4 {
			return "bad-op"
		}
		a := t[1:]
		ka := parseAns(kv(a, "k"))
		if ka.err {
			return "bad-op"
		}
		dh := string(unhex(kv(a, "dh")))
		dv := kv(a, "derived")
		if dv != "err" {
			unhex(dv)
		}
		hak := drkey.HostASKey{ProtoId: drkey.Protocol(ka.proto), SrcIA: addr.IA(ka.srcIA), DstIA: addr.IA(ka.dstIA), SrcHost: ka.host,
			Epoch: drkey.Epoch{Validity: cppki.Validity{NotBefore: nsTime(ka.nb), NotAfter: nsTime(ka.na)}}}
		copy(hak.Key[:], ka.key)
		hh, err := scion.DeriveHostHostKey(hak, dh)
		if err != nil {
			return "err"
		}
		return fmt.Sprintf("ok key=%s id=%d:%d:%d:%s:%s ep=%d:%d", lib.Hex(hh.Key[:]), int(hh.ProtoId), uint64(hh.SrcIA), uint64(hh.DstIA),
			lib.Hex([]byte(hh.SrcHost)), lib.Hex([]byte(hh.DstHost)), hh.Epoch.NotBefore.UnixNano(), hh.Epoch.NotAfter.UnixNano())
	}
	return "bad-op"
}

// ---------------------------------------------------------------- the honest daemon of the generator

type ident struct {
	proto        int
	srcIA, dstIA uint64
	host         string
}

func (i ident) opFields() string {
	return fmt.Sprintf("p=%d s=%d d=%d h=%s", i.proto, i.srcIA, i.dstIA, lib.Hex([]byte(i.host)))
}

// honestKey: the key of identity id for the epoch (length L ns, aligned at multiples of L)
// that contains t: sha256(identity | epoch number).
func honestKey(id ident, t, L int64) (nb, na int64, key []byte) {
	e := t / L
	if t%L < 0 {
		e--
	}
	h := sha256.Sum256([]byte(fmt.Sprintf("%d|%d|%d|%s|%d", id.proto, id.srcIA, id.dstIA, id.host, e)))
	return e * L, (e+1)*L - 1, h[:16]
}

func ansText(id ident, nb, na int64, key []byte) string {
	return fmt.Sprintf("k:%d:%d:%d:%s:%d:%d:%s", id.proto, id.srcIA, id.dstIA, lib.Hex([]byte(id.host)), nb, na, lib.Hex(key))
}

func field(ans, key string) string {
	for _, x := range strings.Fields(ans) {
		if strings.HasPrefix(x, key+"=") {
			return x[len(key)+1:]
		}
	}
	return ""
}

// Gen: real keys (the process must have been started without USE_MOCK_KEYS).
func Gen(c *lib.Ctx) {
	genHonest(c)
	genMisbehaving(c)
	genHostHost(c)
	genDerive(c)
}

// GenMock: mock keys (cmd/c13fkmock re-executes itself with USE_MOCK_KEYS=true).
func GenMock(c *lib.Ctx) { genMock(c) }

var (
	ias   = []uint64{0x1ff0000000110, 0x1ff0000000111, 0x2ff0000000210, 0x1ff0000000112}
	hosts = []string{"10.0.0.1", "10.0.0.2", "fd00::1", "192.0.2.77"}
)

func pickIdent(r *lib.Rand, pool []ident) ident { return pool[r.Intn(len(pool))] }

func identPool(r *lib.Rand, n int) []ident {
	var out []ident
	srv := ias[r.Intn(len(ias))]
	for i := 0; i < n; i++ {
		id := ident{proto: 123, srcIA: srv, dstIA: ias[r.Intn(len(ias))], host: hosts[r.Intn(len(hosts))]}
		if r.Chance(10) {
			id.proto = 5
		}
		if r.Chance(10) {
			id.srcIA = ias[r.Intn(len(ias))]
		}
		out = append(out, id)
		// a sibling that shares the remote AS (= the cache slot) and differs in exactly one field
		if r.Chance(50) {
			sib := id
			switch r.Intn(3) {
			case 0:
				sib.proto = map[bool]int{true: 5, false: 123}[id.proto == 123]
			case 1:
				sib.host = hosts[(r.Intn(3)+1+indexOf(hosts, id.host))%len(hosts)]
			case 2:
				sib.srcIA = ias[(r.Intn(3)+1+indexOfU(ias, id.srcIA))%len(ias)]
			}
			out = append(out, sib)
		}
	}
	return out
}

func indexOf(xs []string, x string) int {
	for i, y := range xs {
		if y == x {
			return i
		}
	}
	return 0
}

func indexOfU(xs []uint64, x uint64) int {
	for i, y := range xs {
		if y == x {
			return i
		}
	}
	return 0
}

// genHonest: histories of FetchHostASKey calls against an honest daemon whose keys rotate by
// epoch, across epoch changes, with errors, several remote ASes / local hosts / protocols, time
// going forward, standing still and jumping back (a late packet), on all three connectors.
func genHonest(c *lib.Ctx) {
	r := c.Rand.Fork("honest")
	nh := c.Scale(60, 600)
	grpcBroken := false
	for h := 0; h < nh; h++ {
		conn := []string{"direct", "grpc", "grpc", "direct", "nil"}[h%5]
		if conn == "grpc" && grpcBroken {
			conn = "direct"
		}
		L := r.Pick64([]int64{1e9, 3600e9, 86400e9, 7})
		t := int64(1_700_000_000_000_000_000) + r.Range(0, 1e15)
		pool := identPool(r, 1+r.Intn(4))
		c.Comment(fmt.Sprintf("history keys %d %s", h, conn))
		var ops []string
		do := func(op string) string {
			ops = append(ops, op)
			return c.Do(op)
		}
		if a := do(fmt.Sprintf("fk.new conn=%s mock=0", conn)); a != "ok" {
			if strings.HasPrefix(a, "err harness-assumption-broken") {
				grpcBroken = true
				c.NotExecuted("c13fk: stand-in gRPC daemon unavailable: " + a)
				continue
			}
		}
		c.Count("fk:history:" + conn)
		n := 4 + r.Intn(12)
		for i := 0; i < n; i++ {
			// time: mostly small steps inside the epoch, sometimes to the boundary, across it, or back
			switch r.Intn(10) {
			case 0, 1, 2, 3:
				t += r.Range(0, L/4+1)
			case 4:
				t += L
				c.Count("fk:time:next-epoch")
			case 5:
				nb, na, _ := honestKey(pool[0], t, L)
				t = r.Pick64([]int64{nb, na, na + 1, nb - 1})
				c.Count("fk:time:at-epoch-boundary")
			case 6:
				t -= r.Range(0, 2*L)
				c.Count("fk:time:back")
			case 7:
				t += r.Range(0, 5*L)
				c.Count("fk:time:far-ahead")
			}
			id := pickIdent(r, pool)
			nb, na, key := honestKey(id, t, L)
			ans := ansText(id, nb, na, key)
			scriptedErr := r.Chance(12)
			if scriptedErr {
				ans = "err"
			}
			got := do(fmt.Sprintf("fk.hak %s t=%d ans=%s", id.opFields(), t, ans))
			if strings.HasPrefix(got, "err harness-assumption-broken") {
				c.NotExecuted("c13fk: " + got)
				break
			}
			// ---- direct oracle (independent of the model): honest daemon D(id, t)
			fail := func(sig, what string) {
				c.Fail(sig, what, append([]string{}, ops...), map[string]any{"answer": got, "conn": conn,
					"want_key": lib.Hex(key), "want_epoch": fmt.Sprintf("%d:%d", nb, na), "t": t})
			}
			asked := field(got, "asked")
			switch {
			case strings.HasPrefix(got, "ok "):
				ep := strings.Split(field(got, "ep"), ":")
				okEp := len(ep) == 2 && atoi64(ep[0]) <= t && t <= atoi64(ep[1])
				if !okEp {
					fail("C13:key-epoch-does-not-contain-validity-instant", "the level-2 key handed out for validity instant t is one whose epoch does not contain t (an expired or not yet valid key is used although the daemon issues the right one)")
				} else if field(got, "key") != lib.Hex(key) || field(got, "ep") != fmt.Sprintf("%d:%d", nb, na) {
					fail("C13:key-not-the-daemons-key-for-the-instant", "the level-2 key handed out is not the daemon's key for (identity, t)")
				}
				if field(got, "id") != fmt.Sprintf("%d:%d:%d:%s", id.proto, id.srcIA, id.dstIA, lib.Hex([]byte(id.host))) {
					fail("C13:key-of-another-identity", "the level-2 key handed out belongs to another protocol / AS / host than asked for")
				}
				if conn == "nil" {
					fail("C13:key-without-connector", "a key was handed out without a daemon connector and without mock keys")
				}
				c.Count("fk:hak:ok:asked=" + asked)
			case strings.HasPrefix(got, "err "):
				if conn != "nil" && !scriptedErr {
					fail("C13:error-although-daemon-answered", "FetchHostASKey failed although the daemon had a key for (identity, t)")
				}
				if conn != "nil" && asked != "1" {
					fail("C13:error-without-asking", "FetchHostASKey failed without asking the daemon (a cached error?)")
				}
				c.Count("fk:hak:err")
			default:
				fail("C13:fetch-panic-or-unknown", "unexpected answer")
			}
			if asked == "1" {
				want := fmt.Sprintf("%d:%d:%d:%s:%d", id.proto, id.srcIA, id.dstIA, lib.Hex([]byte(id.host)), t)
				if field(got, "saw") != want {
					fail("C13:daemon-asked-for-something-else", "the request the daemon received is not (identity, validity instant) of the call")
				}
			}
		}
	}
}

// genMisbehaving: a connector that answers with keys of other epochs / identities (the in-process
// connector only: the daemon's wire format cannot express another identity). No oracle beyond the
// correspondence: the model says exactly what the Fetcher stores and returns.
func genMisbehaving(c *lib.Ctx) {
	r := c.Rand.Fork("misbehaving")
	nh := c.Scale(40, 400)
	for h := 0; h < nh; h++ {
		L := r.Pick64([]int64{1e9, 3600e9})
		t := int64(1_700_000_000_000_000_000) + r.Range(0, 1e15)
		pool := identPool(r, 2+r.Intn(3))
		c.Comment(fmt.Sprintf("history keys-misbehaving %d", h))
		c.Do("fk.new conn=direct mock=0")
		c.Count("fk:history:misbehaving")
		for i := 0; i < 5+r.Intn(10); i++ {
			if r.Chance(40) {
				t += r.Range(0, L)
			}
			id := pickIdent(r, pool)
			aid := id
			at := t
			switch r.Intn(8) {
			case 0:
				aid.dstIA = pickIdent(r, pool).dstIA
				c.Count("fk:misbehaving:other-remote-ia")
			case 1:
				aid.host = hosts[r.Intn(len(hosts))]
				c.Count("fk:misbehaving:other-host")
			case 2:
				aid.proto = 5 + r.Intn(3)
				c.Count("fk:misbehaving:other-protocol")
			case 3:
				aid.srcIA = ias[r.Intn(len(ias))]
				c.Count("fk:misbehaving:other-local-ia")
			case 4:
				at = t - L*(1+int64(r.Intn(3)))
				c.Count("fk:misbehaving:expired-epoch")
			case 5:
				at = t + L*(1+int64(r.Intn(3)))
				c.Count("fk:misbehaving:future-epoch")
			}
			nb, na, key := honestKey(aid, at, L)
			ans := ansText(aid, nb, na, key)
			if r.Chance(8) {
				ans = "err"
			}
			c.Do(fmt.Sprintf("fk.hak %s t=%d ans=%s", id.opFields(), t, ans))
		}
	}
}

// genHostHost: the client's call. Oracle: the daemon is asked every single time and its answer
// is what comes back.
func genHostHost(c *lib.Ctx) {
	r := c.Rand.Fork("hh")
	for _, conn := range []string{"direct", "grpc", "nil"} {
		c.Comment("history keys-hh " + conn)
		var ops []string
		op0 := fmt.Sprintf("fk.new conn=%s mock=0", conn)
		ops = append(ops, op0)
		if a := c.Do(op0); a != "ok" {
			c.NotExecuted("c13fk: hh: " + a)
			continue
		}
		t := int64(1_700_000_000_000_000_000)
		id := ident{proto: 123, srcIA: ias[0], dstIA: ias[1], host: hosts[0]}
		for i := 0; i < c.Scale(12, 120); i++ {
			if r.Chance(30) {
				id = ident{proto: 123, srcIA: ias[r.Intn(4)], dstIA: ias[r.Intn(4)], host: hosts[r.Intn(4)]}
			}
			if r.Chance(50) {
				t += r.Range(0, 4000e9)
			}
			nb, na, key := honestKey(id, t, 3600e9)
			ans := fmt.Sprintf("k:%d:%d:%s", nb, na, lib.Hex(key))
			if r.Chance(15) {
				ans = "err"
			}
			op := fmt.Sprintf("fk.hh %s dh=%s t=%d ans=%s", id.opFields(), lib.Hex([]byte(hosts[r.Intn(4)])), t, ans)
			ops = append(ops, op)
			got := c.Do(op)
			c.Count("fk:hh:" + conn)
			want := fmt.Sprintf("ok key=%s ep=%d:%d asked=1", lib.Hex(key), nb, na)
			if ans == "err" {
				want = "err asked=1"
			}
			if conn == "nil" {
				want = "err asked=0"
			}
			if got != want {
				c.Fail("C13:client-host-host-key", "FetchHostHostKey did not return the daemon's answer to this very call (the client's key must come from the daemon for the transmit time, every time)",
					append([]string{}, ops...), map[string]any{"got": got, "want": want})
			}
		}
	}
}

func genDerive(c *lib.Ctx) {
	r := c.Rand.Fork("derive")
	c.Comment("history keys-derive")
	for i := 0; i < c.Scale(40, 400); i++ {
		id := ident{proto: 123, srcIA: ias[r.Intn(4)], dstIA: ias[r.Intn(4)], host: hosts[r.Intn(4)]}
		if r.Chance(20) {
			id.proto = r.Intn(65536)
		}
		key := r.Bytes(16)
		nb := r.Range(0, 1e18)
		dh := hosts[r.Intn(4)]
		if r.Chance(15) {
			dh = []string{"", "not-an-address", "10.0.0.256", "::ffff:10.0.0.1", "fe80::1%lo"}[r.Intn(5)]
		}
		var k16 drkey.Key
		copy(k16[:], key)
		derived := "err"
		if d, err := (generic.Deriver{Proto: drkey.Protocol(id.proto)}).DeriveHostHost(dh, k16); err == nil {
			derived = lib.Hex(d[:])
		}
		c.Do(fmt.Sprintf("fk.derive k=%s dh=%s derived=%s", ansText(id, nb, nb+r.Range(0, 1e15), key), lib.Hex([]byte(dh)), derived))
		c.Count("fk:derive:" + map[bool]string{true: "err", false: "ok"}[derived == "err"])
	}
}

// genMock: USE_MOCK_KEYS=true (separate process: the variable is read at start). Instants are
// offsets from the process clock, hours away from the mock epoch's ends.
func genMock(c *lib.Ctx) {
	r := c.Rand.Fork("mock")
	if !scion.UseMockKeys() {
		c.NotExecuted("c13fk: mock part started without USE_MOCK_KEYS=true")
		return
	}
	hour := int64(3600e9)
	for h := 0; h < c.Scale(20, 200); h++ {
		c.Comment(fmt.Sprintf("history keys-mock %d", h))
		var ops []string
		do := func(op string) string { ops = append(ops, op); return c.Do(op) }
		do("fk.new conn=" + []string{"direct", "nil"}[h%2] + " mock=1")
		pool := identPool(r, 1+r.Intn(3))
		for i := 0; i < 3+r.Intn(8); i++ {
			id := pickIdent(r, pool)
			dt := r.Pick64([]int64{0, -5 * hour, 5 * hour, -7 * hour, 7 * hour, 60e9, -60e9})
			got := do(fmt.Sprintf("fk.hak %s t=%d ans=err", id.opFields(), dt))
			c.Count("fk:mock:hak")
			if !strings.HasPrefix(got, "ok ") || field(got, "asked") != "0" || field(got, "key") != strings.Repeat("00", 16) ||
				field(got, "id") != fmt.Sprintf("%d:%d:%d:%s", id.proto, id.srcIA, id.dstIA, lib.Hex([]byte(id.host))) {
				c.Fail("C13:mock-keys", "with USE_MOCK_KEYS the level-2 key is the zero key of the asked identity and the daemon is never asked",
					append([]string{}, ops...), map[string]any{"got": got})
			}
		}
	}
}

func proto16(s string) drkey.Protocol {
	v := atoi64(s)
	if v < 0 || v > 65535 {
		panic("bad-op")
	}
	return drkey.Protocol(v)
}
