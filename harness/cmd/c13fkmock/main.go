// c13fkmock: the DRKey fetch chain with USE_MOCK_KEYS=true. net/scion reads the variable when the
// process starts, so this command re-executes itself with the variable set.
package main

import (
	"os"
	"syscall"

	"example.com/scion-time/net/scion"

	"verifharness/cmd/c13fk/fk"
	"verifharness/lib"
)

func main() {
	if !scion.UseMockKeys() {
		os.Setenv("USE_MOCK_KEYS", "true")
		exe, err := os.Executable()
		if err == nil {
			err = syscall.Exec(exe, os.Args, os.Environ())
		}
		panic(err)
	}
	lib.Main(fk.Exec, fk.GenMock)
}
