package main

// genLatePort: the clients are called with a local address that carries a NON-ZERO port (the `tool`
// sub-commands with `-local host:port`, library users). The code binds port 0 of that address for every
// exchange — the kernel picks a fresh port — so a response that is still on its way when an exchange
// times out can never reach the socket of the next exchange, whose request is bit-identical in
// interleaved mode (same `prev`): hypothesis A4 of the pairing theorem (Props/C03Port.lean).
//
// History on one client in interleaved mode: exchange 1 basic, 2 interleaved, 3 = k: the scripted
// server serves it but the response is held back and the exchange times out; 4 = k+1: when its request
// arrives the server first releases the held response TO THE ADDRESS REQUEST k CAME FROM, then answers
// request k+1; 5 = k+2 and 6: answered normally. Whether the held response reaches the socket of
// exchange k+1 is decided by the ports the peer saw (by the kernel, not by the harness).
//
// Direct oracles: `C03:A4:configured-port-bound` (a request came from the configured port: the client
// bound it — responses to earlier exchanges can reach later ones), recordIP's
// `C03:response-of-another-exchange-evaluated` (the datagram used was built as the answer to an earlier
// request), `C03:half-rtt` with the script's per-exchange offsets (the mixed tuple one exchange later).

import (
	"fmt"
	"net"
	"net/netip"
	"time"

	"example.com/scion-time/core/client"

	"verifharness/lib"
)

// freePortBelowEphemeral: a UDP port on 127.0.0.1 that is free now and lies below the kernel's
// ephemeral range (32768..60999): the kernel never picks it for a socket bound to port 0.
func freePortBelowEphemeral(r *lib.Rand) int {
	for try := 0; try < 50; try++ {
		port := 20000 + r.Intn(10000)
		pc, err := net.ListenUDP("udp4", &net.UDPAddr{IP: net.IPv4(127, 0, 0, 1), Port: port})
		if err == nil {
			pc.Close()
			return port
		}
	}
	return 0
}

func genLatePort(c *lib.Ctx, tag string, scionTr bool) {
	if sandbox != "" {
		return
	}
	p := thePeer
	r := c.Rand.Fork(tag)
	c.Comment("history " + tag)
	rounds := c.Scale(3, 20)
	for round := 0; round < rounds; round++ {
		port := freePortBelowEphemeral(r)
		if port == 0 {
			c.Count(tag + ":discarded:no-free-port")
			continue
		}
		var lc liveClient
		var sl *scionLive
		if scionTr {
			sl = &scionLive{c: &client.SCIONClient{Log: logger}}
			lc = sl
		} else {
			lc = ipLive{&client.IPClient{Log: logger}}
		}
		mk := func(pay []byte, dstPort uint16) dgram {
			if scionTr {
				return buildSCION(genuineVariant(), uint16(p.addr.Port()), dstPort, pay)
			}
			return dgram{src: srcServer, b: pay}
		}
		var held *dgram          // the response to request k, built when request k was served
		var heldFrom netip.AddrPort // where request k came from
		var ports []uint16
		step := func(name string, deadline time.Duration, hold, release bool) bool {
			cfg := exchCfg{il: true, deadline: deadline, port: port, filter: r.Chance(30)}
			theta := pickTheta(r)
			sc := func(ri *reqInfo) ([]dgram, int64, int64, bool) {
				ri.R = wallNow().UnixNano()
				S := wallNow().UnixNano()
				g, gil := p.reply(*ri, theta, S, true)
				dst := uint16(0)
				if scionTr {
					dst = sl.srcPort
				}
				d := mk(g, dst)
				d.genuine = true
				ports = append(ports, ri.from.Port())
				if hold {
					// served (the server's store knows the exchange), the response is on its way ... for long
					d.genuine, d.answersOther = false, true
					held, heldFrom = &d, ri.from
					return nil, theta, S, false
				}
				var out []dgram
				if release && held != nil {
					if heldFrom == ri.from {
						// same address and port: the held response is delivered to this exchange's socket, first
						out = append(out, *held)
						c.Count(tag + ":held-response-reaches-the-next-socket")
					} else {
						// the port request k came from is closed by now: the datagram goes nowhere
						if held.wire != nil {
							p.conns[0].WriteToUDPAddrPort(held.wire, heldFrom)
						} else {
							p.conns[0].WriteToUDPAddrPort(held.b, heldFrom)
						}
						c.Count(tag + ":held-response-goes-to-the-old-port")
					}
					held = nil
				}
				return append(out, d), theta, S, gil
			}
			res := exchange(c, lc, cfg, sc)
			if !res.valid {
				c.Count(tag + ":discarded:" + name)
				return false
			}
			if int(res.ri.from.Port()) == port {
				c.Fail("C03:A4:configured-port-bound",
					"the request of an exchange came from the port of the configured local address: the client binds it for every exchange instead of a fresh port, so a response to an earlier exchange can be delivered to a later one (hypothesis A4 of the pairing theorem)",
					[]string{fmt.Sprintf("# %s %s: local address 127.0.0.1:%d configured, request seen from %s", tag, name, port, res.ri.from)},
					map[string]any{"configured_port": port, "request_from": res.ri.from.String(), "exchange": name})
			}
			recordIP(c, tag+":"+name, cfg, res)
			return hold || res.err == nil && res.panicked == ""
		}
		ok := step("ex1", 400*time.Millisecond, false, false) &&
			step("ex2", 400*time.Millisecond, false, false) &&
			step("ex3:response-held-back", 40*time.Millisecond, true, false) &&
			step("ex4:late-response-released", 400*time.Millisecond, false, true) &&
			step("ex5", 400*time.Millisecond, false, false) &&
			step("ex6", 400*time.Millisecond, false, false)
		if ok {
			c.Count(tag + ":history-complete")
		}
		// kernel assumption of the discharge of A4, observed: the ports of the six sockets
		seen := map[uint16]bool{}
		for _, q := range ports {
			if seen[q] {
				c.Count(tag + ":kernel-reused-a-port-within-the-history")
			}
			seen[q] = true
		}
	}
}
