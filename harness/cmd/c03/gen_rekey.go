package main

import (
	"fmt"
	"time"

	"example.com/scion-time/core/client"

	"verifharness/lib"
)

// NTS clause of C05 along a history of associations on ONE client object: when the cookie pool
// has run dry the fetcher performs a new key exchange and replaces its key exchange data (new
// C2S/S2C keys, new cookies) — here through the ntske hook that assigns the fetcher's data exactly
// as exchangeKeys does. "Verifies under the server-to-client key" means the key of the association
// the outstanding request belongs to: datagrams sealed under the S2C key of an EARLIER association
// of the same client (which the earlier server, or whoever learnt that key, can still produce),
// under its C2S key, or under a random key must not yield an offset. The verdicts of every
// datagram are computed by the harness under the current association's key (ntsVerdicts), so
// recordIP's oracles (C05:nts:offset-from-unauthenticated-datagram, accepted-other-datagram) and
// the model apply unchanged.
func genRekey(c *lib.Ctx, tag string, scionTr bool) {
	if sandbox != "" {
		return
	}
	p := thePeer
	r := c.Rand.Fork(tag)
	c2s0, s2c0 := ntsC2S, ntsS2C
	defer func() { ntsC2S, ntsS2C = c2s0, s2c0 }()
	c.Comment("history " + tag)
	rounds := c.Scale(2, 12)
	for round := 0; round < rounds; round++ {
		var lc liveClient
		var sl *scionLive
		if scionTr {
			sl = &scionLive{c: &client.SCIONClient{Log: logger}}
			lc = sl
		} else {
			lc = ipLive{&client.IPClient{Log: logger}}
		}
		var prevS2C, prevC2S []byte
		nassoc := 2 + r.Intn(3)
		for a := 0; a < nassoc; a++ {
			ntsC2S, ntsS2C = r.Bytes(32), r.Bytes(32)
			type shape struct {
				name string
				key  func() []byte // nil: genuine only
				then bool          // followed by the genuine response
			}
			shapes := []shape{{"genuine", nil, false}}
			if prevS2C != nil {
				ps, pc := prevS2C, prevC2S
				shapes = append(shapes,
					shape{"previous-association-s2c", func() []byte { return ps }, true},
					shape{"previous-association-s2c", func() []byte { return ps }, false},
					shape{"previous-association-c2s", func() []byte { return pc }, true})
			}
			shapes = append(shapes, shape{"random-key", func() []byte { return r.Bytes(32) }, true}, shape{"genuine", nil, false})
			for _, sh := range shapes {
				cfg := exchCfg{il: !r.Chance(20), deadline: 300 * time.Millisecond, nts: true}
				if sh.key != nil && !sh.then {
					cfg.deadline = 15 * time.Millisecond
				}
				theta := pickTheta(r)
				wantIL := r.Chance(60)
				var names []string
				sc := func(ri *reqInfo) ([]dgram, int64, int64, bool) {
					ri.R = wallNow().UnixNano()
					S := wallNow().UnixNano()
					h, il := p.reply(*ri, theta, S, wantIL)
					mk := func(pay []byte, genuine bool) dgram {
						var d dgram
						if scionTr {
							d = buildSCION(genuineVariant(), uint16(p.addr.Port()), sl.srcPort, pay)
						} else {
							d = dgram{src: srcServer, b: pay}
						}
						d.genuine = genuine
						d.ntsDec, d.ntsUID, d.ntsOpen = ntsVerdicts(pay, ri.uid)
						return d
					}
					g := mk(encodeNTS(h, ntsS2C, ri.uid, 7), true)
					if sh.key == nil {
						names = []string{"genuine"}
						return []dgram{g}, theta, S, il
					}
					// genuine in source, origin echo, metadata and unique identifier; server times of another clock
					fh, _ := p.reply(*ri, theta+3600*nsps, S, wantIL)
					m := mk(encodeNTS(tagRx(fh, 1), sh.key(), ri.uid, 11), false)
					if sh.then {
						names = []string{sh.name, "genuine"}
						return []dgram{m, g}, theta, S, il
					}
					names = []string{sh.name}
					return []dgram{m}, theta, S, il
				}
				res := exchange(c, lc, cfg, sc)
				if !res.valid {
					continue
				}
				idx := recordIP(c, tag, cfg, res)
				if res.err == nil && res.panicked == "" {
					if idx >= 0 && idx < len(names) {
						c.Count(fmt.Sprintf("%s:assoc%d:accepted:%s", tag, min(a, 2), names[idx]))
					}
				} else if len(names) > 0 {
					c.Count(fmt.Sprintf("%s:assoc%d:rejected-first:%s:%s%s", tag, min(a, 2), names[0], errKind(res.err), res.panicked))
				}
			}
			prevS2C, prevC2S = ntsS2C, ntsC2S
		}
	}
}
