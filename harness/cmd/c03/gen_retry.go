package main

// genNTSRetry: the retry budget of the receive loops with NTS enabled. Every refusal site that can
// be reached from the network is visited as FIRST and as SECOND refused datagram of an exchange
// (maxNumRetries = 1: the second refusal must end the exchange with an error), with and without the
// genuine reply behind them, and as the only datagram of an exchange WITHOUT a deadline (no retry at
// all: the first refusal ends the exchange). The NTS verdicts of the model are computed by the
// harness with the real libraries on the bytes it sends; the direct oracle is recordIP's
// `C05:nts:offset-from-unauthenticated-datagram` / `C05:accepted-without-acceptable-datagram`.

import (
	"fmt"
	"time"

	"example.com/scion-time/core/client"
	"example.com/scion-time/net/scion"

	"verifharness/lib"
)

type refusal struct {
	name string
	site string // refusal site by construction ("-": ends the exchange at once / is accepted)
	// build: payload from the genuine 48-byte reply header h (already carrying its own receive stamp) and, for SCION, the variant
	pay func(r *lib.Rand, h []byte, ri reqInfo) []byte
	v   func(v *scionVariant) // SCION only: packet-level mutation (nil: genuine packet)
	src int                   // IP only: source socket
	ip  bool                  // available for the IP client
	sc  bool                  // available for the SCION client
	key bool                  // SCION only: needs the DRKey host-host key (packet authenticator evaluated)
}

func refusals() []refusal {
	gen := func(r *lib.Rand, h []byte, ri reqInfo) []byte { return encodeNTS(h, ntsS2C, ri.uid, 7) }
	srv, alg := scion.PacketAuthSPIServer, scion.PacketAuthAlgorithm
	return []refusal{
		{name: "oversize", site: "flags", ip: true, sc: true,
			pay: func(r *lib.Rand, h []byte, ri reqInfo) []byte { return append(gen(r, h, ri), make([]byte, 1100)...) },
			v:   func(v *scionVariant) { v.padTo = scionBufLen + 40 }},
		{name: "other-address", site: "source", ip: true, src: srcOtherAddr, pay: gen},
		{name: "garbage", site: "layers", sc: true, pay: gen, v: func(v *scionVariant) { v.garbage = []byte{0xde, 0xad, 0xbe, 0xef, 1, 2, 3} }},
		{name: "unknown-l4", site: "type", sc: true, pay: gen, v: func(v *scionVariant) { v.rawNextHdr = 253 }},
		{name: "scmp", site: "scmp", sc: true, pay: gen, v: func(v *scionVariant) { v.scmp = true }},
		{name: "udplen+200", site: "udplen", sc: true, pay: gen, v: func(v *scionVariant) { v.udpLenDelta = 200 }},
		{name: "src-host", site: "addr", sc: true, pay: gen, v: func(v *scionVariant) { v.srcIP = otherIP }},
		{name: "dst-ia", site: "addr", sc: true, pay: gen, v: func(v *scionVariant) { v.dstIA = otherIA }},
		{name: "auth-len27", site: "authlen", sc: true, key: true, pay: gen,
			v: func(v *scionVariant) { v.auth = &authSpec{spi: srv, alg: alg, mac: "valid", dataLen: 27} }},
		{name: "auth-mac-flip", site: "authmac", sc: true, key: true, pay: gen,
			v: func(v *scionVariant) { v.auth = &authSpec{spi: srv, alg: alg, mac: "flip", flipBit: 77} }},
		{name: "runt47", site: "size", ip: true, sc: true, pay: func(r *lib.Rand, h []byte, ri reqInfo) []byte { return append([]byte(nil), h[:47]...) }},
		{name: "plain48", site: "ntsDecode", ip: true, sc: true, pay: func(r *lib.Rand, h []byte, ri reqInfo) []byte { return append([]byte(nil), h...) }},
		{name: "uid-only", site: "ntsDecode", ip: true, sc: true, pay: func(r *lib.Rand, h []byte, ri reqInfo) []byte { return gen(r, h, ri)[:48+36] }},
		{name: "random-key", site: "ntsProcess", ip: true, sc: true, pay: func(r *lib.Rand, h []byte, ri reqInfo) []byte { return encodeNTS(h, r.Bytes(32), ri.uid, 11) }},
		{name: "c2s-key", site: "ntsProcess", ip: true, sc: true, pay: func(r *lib.Rand, h []byte, ri reqInfo) []byte { return encodeNTS(h, ntsC2S, ri.uid, 11) }},
		{name: "other-uid", site: "ntsProcess", ip: true, sc: true, pay: func(r *lib.Rand, h []byte, ri reqInfo) []byte {
			return encodeNTS(h, ntsS2C, flip(ri.uid, r.Intn(32)), 9)
		}},
		{name: "tag-flip", site: "ntsProcess", ip: true, sc: true, pay: func(r *lib.Rand, h []byte, ri reqInfo) []byte { return flip(gen(r, h, ri), -1) }},
		{name: "header-flip", site: "ntsProcess", ip: true, sc: true, pay: func(r *lib.Rand, h []byte, ri reqInfo) []byte { return flip(gen(r, h, ri), 2) }},
		{name: "authentic:origin+1", site: "origin", ip: true, sc: true, pay: func(r *lib.Rand, h []byte, ri reqInfo) []byte { return gen(r, flip(h, 31), ri) }},
	}
}

func genNTSRetry(c *lib.Ctx, tag string, scionTr bool) {
	if sandbox != "" {
		return
	}
	p := thePeer
	r := c.Rand.Fork(tag)
	var lc liveClient
	var sl *scionLive
	if scionTr {
		sl = &scionLive{c: &client.SCIONClient{Log: logger}}
		lc = sl
	} else {
		lc = ipLive{&client.IPClient{Log: logger}}
	}
	var ks []refusal
	for _, k := range refusals() {
		if scionTr && k.sc || !scionTr && k.ip {
			ks = append(ks, k)
		}
	}
	c.Comment("history " + tag)
	type shape struct {
		first, second int // indices into ks, -1: none
		genuine       bool
		deadline      bool
	}
	var shapes []shape
	for a := range ks {
		for b := range ks {
			// the full square once per run in the thorough tier; quick: every site as first and as second
			// refusal against a rotating partner, and the whole row / column of the ProcessResponse site
			if c.Thorough() || ks[a].site == "ntsProcess" || ks[b].site == "ntsProcess" || (a+b)%4 == 0 {
				shapes = append(shapes, shape{a, b, false, true}, shape{a, b, true, true})
			}
		}
		shapes = append(shapes, shape{a, -1, false, false}, shape{a, -1, true, false}, shape{a, -1, true, true})
	}
	rounds := c.Scale(1, 3)
	for round := 0; round < rounds; round++ {
		for _, sh := range shapes {
			cfg := exchCfg{il: r.Chance(70), nts: true}
			if sh.deadline {
				cfg.deadline = 400 * time.Millisecond
			}
			if ks[sh.first].key || sh.second >= 0 && ks[sh.second].key {
				cfg.spaoKey = true
			}
			theta := pickTheta(r)
			wantIL := r.Chance(50)
			var names []string
			sc := func(ri *reqInfo) ([]dgram, int64, int64, bool) {
				ri.R = wallNow().UnixNano()
				S := wallNow().UnixNano()
				h, il := p.reply(*ri, theta, S, wantIL)
				mk := func(k *refusal, n int) dgram {
					hh := h
					if n > 0 {
						hh = tagRx(h, n)
					}
					var pay []byte
					if k == nil {
						pay = encodeNTS(h, ntsS2C, ri.uid, 7)
					} else {
						pay = k.pay(r, hh, *ri)
					}
					var d dgram
					if scionTr {
						v := genuineVariant()
						if cfg.spaoKey {
							v.auth = &authSpec{spi: scion.PacketAuthSPIServer, alg: scion.PacketAuthAlgorithm, mac: "valid"}
						}
						if k != nil && k.v != nil {
							k.v(&v)
						}
						d = buildSCION(v, uint16(p.addr.Port()), sl.srcPort, pay)
					} else {
						d = dgram{src: srcServer, b: pay}
						if k != nil {
							d.src = k.src
						}
					}
					d.genuine = k == nil
					if len(d.b) > 0 {
						d.ntsDec, d.ntsUID, d.ntsOpen = ntsVerdicts(d.b, ri.uid)
					}
					return d
				}
				out := []dgram{mk(&ks[sh.first], 1)}
				names = []string{ks[sh.first].name}
				if sh.second >= 0 {
					out = append(out, mk(&ks[sh.second], 2))
					names = append(names, ks[sh.second].name)
				}
				if sh.genuine {
					g := mk(nil, 0)
					if !(g.ntsDec && g.ntsUID && g.ntsOpen) {
						c.Count(tag + ":harness-genuine-not-verifying")
					}
					out = append(out, g)
					names = append(names, "genuine")
				}
				return out, theta, S, il
			}
			res := exchange(c, lc, cfg, sc)
			if !res.valid {
				c.Count(tag + ":discarded")
				continue
			}
			c.Count(fmt.Sprintf("%s:first:%s", tag, ks[sh.first].site))
			if sh.second >= 0 {
				c.Count(fmt.Sprintf("%s:second:%s", tag, ks[sh.second].site))
			}
			if !sh.deadline {
				c.Count(fmt.Sprintf("%s:no-deadline:%s", tag, ks[sh.first].site))
			}
			idx := recordIP(c, tag, cfg, res)
			if res.err == nil && res.panicked == "" {
				if idx >= 0 && idx < len(names) {
					c.Count(tag + ":accepted:" + names[idx])
				}
			} else {
				c.Count(fmt.Sprintf("%s:error:%s%s", tag, errKind(res.err), res.panicked))
			}
		}
	}
}
