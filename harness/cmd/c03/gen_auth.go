package main

import (
	"bytes"
	"context"
	"crypto/sha256"
	"encoding/binary"
	"fmt"
	"strings"
	"sync"
	"time"

	"github.com/scionproto/scion/pkg/addr"
	"github.com/scionproto/scion/pkg/daemon"
	"github.com/scionproto/scion/pkg/drkey"
	"github.com/scionproto/scion/pkg/scrypto/cppki"
	"github.com/scionproto/scion/pkg/slayers"
	"github.com/scionproto/scion/pkg/spao"

	"example.com/scion-time/core/client"
	"example.com/scion-time/net/scion"

	"verifharness/lib"
)

// Client side of C13 (and the DRKey clause of C05), executed live: the SCION client runs with
// Auth.Enabled and a DRKey fetcher on a fake daemon connector, so the host-host key IS
// available. The scripted peer answers with SCION/UDP packets with / without a hop-by-hop
// extension header in front, with / without an end-to-end extension, and with a packet
// authenticator option that is absent / valid / invalid in various ways. The MAC verdict the
// model needs (`macOk`) is computed by the harness with spao.ComputeAuthCMAC under its own
// derivation of the key, on the bytes it sends — not through the client.

// hhKey: the host-host key of the fake control plane, a deterministic function of the
// request metadata (stands in for the SCION daemon / control service).
func hhKey(proto drkey.Protocol, srcIA, dstIA addr.IA, srcHost, dstHost string) (k drkey.Key) {
	h := sha256.Sum256([]byte(fmt.Sprintf("hh|%d|%s|%s|%s|%s", uint16(proto), srcIA, dstIA, srcHost, dstHost)))
	copy(k[:], h[:16])
	return
}

// fakeDaemon answers host-host key requests; every other method of the embedded nil
// interface would panic (the client calls none).
type fakeDaemon struct {
	daemon.Connector
	mu    sync.Mutex
	asked []drkey.HostHostMeta
}

func (f *fakeDaemon) DRKeyGetHostHostKey(ctx context.Context, meta drkey.HostHostMeta) (drkey.HostHostKey, error) {
	f.mu.Lock()
	f.asked = append(f.asked, meta)
	f.mu.Unlock()
	now := time.Now()
	return drkey.HostHostKey{
		ProtoId: meta.ProtoId, SrcIA: meta.SrcIA, DstIA: meta.DstIA, SrcHost: meta.SrcHost, DstHost: meta.DstHost,
		Epoch: drkey.Epoch{Validity: cppki.Validity{NotBefore: now.Add(-6 * time.Hour), NotAfter: now.Add(6 * time.Hour)}},
		Key:   hhKey(meta.ProtoId, meta.SrcIA, meta.DstIA, meta.SrcHost, meta.DstHost),
	}, nil
}

func (f *fakeDaemon) take() []drkey.HostHostMeta {
	f.mu.Lock()
	defer f.mu.Unlock()
	a := f.asked
	f.asked = nil
	return a
}

var theDaemon = &fakeDaemon{}

// exchKey: the key shared by the queried server host and this client host, derived by the
// harness from its own constants (not from what the client asked the daemon for).
func exchKey() []byte {
	k := hhKey(scion.DRKeyProtocolTS, remoteIA, localIA, thePeer.addr.Addr().String(), localIP.String())
	return k[:]
}

// authSpec describes the packet authenticator option of a crafted response.
type authSpec struct {
	spi          uint32
	alg          uint8
	mac          string // valid | flip | zero | wrongkey | random
	flipBit      int    // mac == flip: bit 0..127 of the MAC
	dataLen      int    // != 0: option data cut / padded to this length after the MAC was computed (malformed)
	first        bool   // placed in front of the other options of the extension
	alterPayload bool   // one payload byte the NTP stage does not check is changed after the MAC was computed
	rnd          []byte // mac == random
}

func (a *authSpec) option(scn *slayers.SCION, l4 slayers.L4ProtocolType, pld []byte) *slayers.EndToEndOption {
	data := make([]byte, scion.PacketAuthOptDataLen)
	binary.BigEndian.PutUint32(data, a.spi)
	data[4] = a.alg
	opt := &slayers.EndToEndOption{OptType: slayers.OptTypeAuthenticator, OptData: data}
	opt.OptAlign = [2]uint8{4, 2}
	key := exchKey()
	if a.mac == "wrongkey" {
		key = append([]byte(nil), key...)
		key[5] ^= 0x20
	}
	mac, err := spao.ComputeAuthCMAC(spao.MACInput{Key: key, Header: slayers.PacketAuthOption{EndToEndOption: opt},
		ScionLayer: scn, PldType: l4, Pld: pld}, make([]byte, spao.MACBufferSize), make([]byte, 16))
	if err != nil {
		panic(err)
	}
	copy(data[12:], mac)
	switch a.mac {
	case "flip":
		data[12+a.flipBit/8] ^= 1 << (a.flipBit % 8)
	case "zero":
		copy(data[12:], make([]byte, 16))
	case "random":
		copy(data[12:], a.rnd)
	}
	if a.dataLen != 0 {
		if a.dataLen < len(data) {
			opt.OptData = data[:a.dataLen]
		} else {
			opt.OptData = append(data, make([]byte, a.dataLen-len(data))...)
		}
	}
	return opt
}

// readRespAuth: the authenticator facts of a crafted response for the model
// (`wellFormed.spi.alg.macOk`, `-` when the parsed packet has no such option), by the
// harness's own parse and MAC computation; also sets the dgram's verdicts for the oracles.
func readRespAuth(d *dgram, p parsed, layers string, udpLen int) string {
	if !strings.Contains(layers, "e") {
		return "-"
	}
	opt, err := p.e2e.FindOption(slayers.OptTypeAuthenticator)
	if err != nil {
		return "-"
	}
	if len(opt.OptData) != 28 {
		d.authMalformed = true
		return "false.0.0.false"
	}
	spi := binary.BigEndian.Uint32(opt.OptData)
	alg := opt.OptData[4]
	macOk := false
	if udpLen >= 8 && udpLen <= len(d.wire) {
		// the authenticated upper-layer data: the UDP header and the payload it delimits, as decoded
		// (for a well-formed packet these are the last udpLen bytes of the datagram)
		l4 := append(append([]byte(nil), p.udp.Contents...), p.udp.Payload...)
		mac, err := spao.ComputeAuthCMAC(spao.MACInput{Key: exchKey(), Header: slayers.PacketAuthOption{EndToEndOption: opt},
			ScionLayer: &p.scn, PldType: slayers.L4UDP, Pld: l4},
			make([]byte, spao.MACBufferSize), make([]byte, 16))
		macOk = err == nil && bytes.Equal(mac, opt.OptData[12:])
	}
	if spi == scion.PacketAuthSPIServer && alg == scion.PacketAuthAlgorithm {
		d.authInvalid, d.authValid = !macOk, macOk
	}
	return fmt.Sprintf("true.%d.%d.%s", spi, alg, lib.Bool(macOk))
}

// reqAuthInfo: the packet authenticator of the client's request as the peer reads it.
type reqAuthInfo struct {
	present bool
	spi     uint32
	alg     uint8
	macOk   bool
}

func readReqAuth(p parsed, wire []byte) (ra reqAuthInfo) {
	if len(p.decoded) < 3 || p.decoded[len(p.decoded)-2] != slayers.LayerTypeEndToEndExtn {
		return
	}
	opt, err := p.e2e.FindOption(slayers.OptTypeAuthenticator)
	if err != nil || len(opt.OptData) != 28 {
		return
	}
	ra.present = true
	ra.spi = binary.BigEndian.Uint32(opt.OptData)
	ra.alg = opt.OptData[4]
	udpLen := int(p.udp.Length)
	if thePeer != nil && udpLen >= 8 && udpLen <= len(wire) {
		mac, err := spao.ComputeAuthCMAC(spao.MACInput{Key: exchKey(), Header: slayers.PacketAuthOption{EndToEndOption: opt},
			ScionLayer: &p.scn, PldType: slayers.L4UDP, Pld: wire[len(wire)-udpLen:]},
			make([]byte, spao.MACBufferSize), make([]byte, 16))
		ra.macOk = err == nil && bytes.Equal(mac, opt.OptData[12:])
	}
	return
}

type spaoCase struct {
	name string
	v    scionVariant
}

// spaoCases: extension layouts x authenticator kinds. `now` is the peer's reading at receipt.
func spaoCases(r *lib.Rand, now int64, malformed bool) []spaoCase {
	g := genuineVariant()
	srv, alg := scion.PacketAuthSPIServer, scion.PacketAuthAlgorithm
	var cs []spaoCase
	add := func(name string, f func(v *scionVariant)) {
		for _, hbh := range []bool{false, true} {
			v := g
			f(&v)
			v.hbh = hbh
			n := name
			if hbh {
				n = "hbh+" + name
			}
			cs = append(cs, spaoCase{n, v})
		}
	}
	au := func(a authSpec) func(v *scionVariant) { return func(v *scionVariant) { v.auth = &a } }
	// no authenticator at all
	add("no-ext", func(v *scionVariant) {})
	add("e2e:padding", func(v *scionVariant) { v.e2eEmpty = true })
	add("e2e:timestamp", func(v *scionVariant) { v.e2eTs = wallNow().UnixNano(); v.tsUse = true })
	// authenticator for the time service: valid and invalid MACs
	add("e2e:auth:valid", au(authSpec{spi: srv, alg: alg, mac: "valid"}))
	add("e2e:auth:valid+timestamp", func(v *scionVariant) {
		v.auth = &authSpec{spi: srv, alg: alg, mac: "valid", first: r.Bool()}
		v.e2eTs = wallNow().UnixNano()
		v.tsUse = true
	})
	add("e2e:auth:valid+padding", func(v *scionVariant) {
		v.auth = &authSpec{spi: srv, alg: alg, mac: "valid"}
		v.e2eEmpty = true
	})
	add("e2e:auth:mac-bit-first", au(authSpec{spi: srv, alg: alg, mac: "flip", flipBit: 0}))
	add("e2e:auth:mac-bit-last", au(authSpec{spi: srv, alg: alg, mac: "flip", flipBit: 127}))
	add("e2e:auth:mac-bit-any", au(authSpec{spi: srv, alg: alg, mac: "flip", flipBit: r.Intn(128)}))
	add("e2e:auth:mac-zero", au(authSpec{spi: srv, alg: alg, mac: "zero"}))
	add("e2e:auth:mac-random", au(authSpec{spi: srv, alg: alg, mac: "random", rnd: r.Bytes(16)}))
	add("e2e:auth:mac-wrong-key", au(authSpec{spi: srv, alg: alg, mac: "wrongkey"}))
	add("e2e:auth:payload-altered", au(authSpec{spi: srv, alg: alg, mac: "valid", alterPayload: true}))
	add("e2e:auth:invalid+timestamp", func(v *scionVariant) {
		v.auth = &authSpec{spi: srv, alg: alg, mac: "flip", flipBit: r.Intn(128), first: r.Bool()}
		v.e2eTs = wallNow().UnixNano()
		v.tsUse = true
	})
	// other SPI / algorithm: not a time-service server authenticator, the code does not evaluate it
	add("e2e:auth:spi=client", au(authSpec{spi: scion.PacketAuthSPIClient, alg: alg, mac: "valid"}))
	add("e2e:auth:spi=client:mac-zero", au(authSpec{spi: scion.PacketAuthSPIClient, alg: alg, mac: "zero"}))
	add("e2e:auth:spi-bit", au(authSpec{spi: srv ^ 1<<uint(r.Intn(22)), alg: alg, mac: "zero"}))
	add("e2e:auth:alg=1", au(authSpec{spi: srv, alg: 1, mac: "zero"}))
	if malformed {
		add("e2e:auth:len27", au(authSpec{spi: srv, alg: alg, mac: "valid", dataLen: 27}))
		add("e2e:auth:len12", au(authSpec{spi: srv, alg: alg, mac: "valid", dataLen: 12}))
		add("e2e:auth:len32", au(authSpec{spi: srv, alg: alg, mac: "valid", dataLen: 32}))
		// a path of an unregistered type (slayers decodes it as a raw path): the MAC cannot be computed
		add("e2e:auth:path-type-4", func(v *scionVariant) {
			v.auth = &authSpec{spi: srv, alg: alg, mac: "valid"}
			v.rawPathType = 4
		})
		add("e2e:auth:path-type-200", func(v *scionVariant) {
			v.auth = &authSpec{spi: srv, alg: alg, mac: "valid"}
			v.rawPathType = 200
		})
	}
	_ = now
	return cs
}

// genSPAO: the scripted SCION peer against a client with DRKey authentication enabled.
func genSPAO(c *lib.Ctx, tag string) {
	if sandbox != "" {
		return
	}
	p := thePeer
	r := c.Rand.Fork(tag)
	lc := &scionLive{c: &client.SCIONClient{Log: logger}}
	c.Comment("history " + tag)
	rounds := c.Scale(2, 16)
	nc := len(spaoCases(r, 0, *probeMalformedAuth))
	for round := 0; round < rounds; round++ {
		for ci := -1; ci < nc; ci++ {
			for shape := 0; shape < 3; shape++ { // 0: [case, genuine]   1: [case]   2: [case, case]
				if ci < 0 && shape >= 1 {
					continue
				}
				cfg := exchCfg{il: !r.Chance(20), deadline: 300 * time.Millisecond, spaoKey: true}
				if r.Chance(30) {
					cfg.filter = true
				}
				if r.Chance(12) {
					// no key becomes available: authenticators are not evaluated at all
					cfg.spaoKey, cfg.spao = false, true
				}
				if shape == 1 {
					cfg.deadline = 15 * time.Millisecond
				}
				if r.Chance(4) {
					lc.c.ResetInterleavedMode()
				}
				theta := pickTheta(r)
				wantIL := r.Chance(60)
				var names []string
				sc := func(ri *reqInfo) ([]dgram, int64, int64, bool) {
					ri.R = wallNow().UnixNano()
					S := wallNow().UnixNano()
					gpay, il := p.reply(*ri, theta, S, wantIL)
					gv := genuineVariant()
					gv.auth = &authSpec{spi: scion.PacketAuthSPIServer, alg: scion.PacketAuthAlgorithm, mac: "valid"}
					g := buildSCION(gv, uint16(p.addr.Port()), lc.srcPort, gpay)
					g.genuine = true
					if !g.authValid {
						c.Count(tag + ":harness-genuine-not-verifying") // scaffolding self-check
					}
					if ci < 0 {
						names = []string{"genuine"}
						return []dgram{g}, theta, S, il
					}
					cs := spaoCases(r, ri.R, *probeMalformedAuth)[ci]
					m := buildSCION(cs.v, uint16(p.addr.Port()), lc.srcPort, tagRx(gpay, 1))
					if shape == 0 {
						names = []string{cs.name, "genuine"}
						return []dgram{m, g}, theta, S, il
					}
					if shape == 2 {
						m2 := buildSCION(cs.v, uint16(p.addr.Port()), lc.srcPort, tagRx(gpay, 2))
						names = []string{cs.name, cs.name}
						return []dgram{m, m2}, theta, S, il
					}
					names = []string{cs.name}
					return []dgram{m}, theta, S, il
				}
				theDaemon.take()
				res := exchange(c, lc, cfg, sc)
				asked := theDaemon.take()
				if !res.valid {
					continue
				}
				keyS := "key"
				if !cfg.spaoKey {
					keyS = "nokey"
				}
				// direct oracles on the request (C13, client -> server direction): the key asked for is
				// the one of (queried server, this client), and the request carries a time-service
				// client authenticator that verifies under it
				if cfg.spaoKey {
					want := drkey.HostHostMeta{ProtoId: scion.DRKeyProtocolTS, SrcIA: remoteIA, DstIA: localIA,
						SrcHost: p.addr.Addr().String(), DstHost: localIP.String()}
					if len(asked) != 1 || asked[0].ProtoId != want.ProtoId || asked[0].SrcIA != want.SrcIA || asked[0].DstIA != want.DstIA ||
						asked[0].SrcHost != want.SrcHost || asked[0].DstHost != want.DstHost {
						c.Fail("C13:client:key-for-other-hosts", "the client did not ask for exactly the host-host key of (queried server, this client)",
							[]string{fmt.Sprintf("# %s key requests: %v", tag, asked)}, map[string]any{"requests": len(asked)})
					}
					ra := lc.reqAuth
					if !ra.present || ra.spi != scion.PacketAuthSPIClient || ra.alg != scion.PacketAuthAlgorithm || !ra.macOk {
						c.Fail("C13:client:request-authenticator", "a client with the host-host key available sent a request without a verifying time-service client authenticator",
							[]string{fmt.Sprintf("# %s request authenticator present=%v spi=%d alg=%d macOk=%v", tag, ra.present, ra.spi, ra.alg, ra.macOk)}, nil)
					}
					c.Count(tag + ":oracle:request-authenticator")
				}
				idx := recordIP(c, tag, cfg, res)
				if res.err == nil && res.panicked == "" {
					if idx >= 0 && idx < len(names) {
						c.Count(tag + ":" + keyS + ":accepted:" + names[idx])
					}
				} else if len(names) > 0 {
					c.Count(fmt.Sprintf("%s:%s:rejected-first:%s:%s%s", tag, keyS, names[0], errKind(res.err), res.panicked))
				}
			}
		}
	}
}
