package main

import (
	"fmt"
	"time"

	"example.com/scion-time/core/client"
	"example.com/scion-time/net/ntp"

	"verifharness/lib"
)

// Origin clause of C05, exercised systematically for both transports: a response is accepted
// only if it echoes the outstanding request's transmit timestamp, or — only when the request
// was an interleaved one — its receive timestamp.
//
// request modes x origin values x timestamp shapes x delivery shapes:
//   modes    basic with interleaved mode off (fresh client / client with stale state),
//            basic with interleaved mode on: fresh client, state older than the 3 s window,
//            state for another reference; interleaved (after a genuine exchange)
//   origin   zero, the request's origin / receive / transmit field, +-1 of those, the stale
//            prev.cTxTime / cRxTime / sRxTime of the client state
//   stamps   as a server answering now would set them, or as an interleaved response would
//            look like relative to the client's state (transmit stamp just after prev.sRxTime:
//            the tuple (prev.cTx, prev.sRx, tx, prev.cRx) is then a valid one)
//   shapes   [crafted, genuine], [crafted]

type originMode struct {
	name  string
	il    bool   // InterleavedMode of the client
	prev  string // "" none | "warmup" genuine exchange first | "stale" older than the window | "other" other reference
}

var originModes = []originMode{
	{"basic:il-off:fresh", false, ""},
	{"basic:il-off:stale-state", false, "stale"},
	{"basic:il-on:fresh", true, ""},
	{"basic:il-on:stale-state", true, "stale"},
	{"basic:il-on:other-reference", true, "other"},
	{"interleaved", true, "warmup"},
}

func add64(x ntp.Time64, frac int64) ntp.Time64 {
	v := uint64(x.Seconds)<<32 | uint64(x.Fraction)
	v += uint64(frac)
	return ntp.Time64{Seconds: uint32(v >> 32), Fraction: uint32(v)}
}

type originKind struct {
	name string
	f    func(ri reqInfo, pv client.VerifC03Prev) ntp.Time64
}

var originKinds = []originKind{
	{"zero", func(ri reqInfo, pv client.VerifC03Prev) ntp.Time64 { return ntp.Time64{} }},
	{"req.tx", func(ri reqInfo, pv client.VerifC03Prev) ntp.Time64 { return ri.tx }},
	{"req.rx", func(ri reqInfo, pv client.VerifC03Prev) ntp.Time64 { return ri.rx }},
	{"req.origin", func(ri reqInfo, pv client.VerifC03Prev) ntp.Time64 { return ri.org }},
	{"req.tx+1", func(ri reqInfo, pv client.VerifC03Prev) ntp.Time64 { return add64(ri.tx, 1) }},
	{"req.tx-1", func(ri reqInfo, pv client.VerifC03Prev) ntp.Time64 { return add64(ri.tx, -1) }},
	{"req.rx+1", func(ri reqInfo, pv client.VerifC03Prev) ntp.Time64 { return add64(ri.rx, 1) }},
	{"prev.cTx", func(ri reqInfo, pv client.VerifC03Prev) ntp.Time64 { return pv.CTxTime }},
	{"prev.cRx", func(ri reqInfo, pv client.VerifC03Prev) ntp.Time64 { return pv.CRxTime }},
	{"prev.sRx", func(ri reqInfo, pv client.VerifC03Prev) ntp.Time64 { return pv.SRxTime }},
}

func genOrigin(c *lib.Ctx, tag string, scionTr bool) {
	if sandbox != "" {
		return
	}
	p := thePeer
	r := c.Rand.Fork(tag)
	c.Comment("history " + tag)
	reference := p.addr.String()
	if scionTr {
		reference = scionReference()
	}
	genuineOnly := func(theta int64, wantIL bool, sl *scionLive) script {
		return func(ri *reqInfo) ([]dgram, int64, int64, bool) {
			ri.R = wallNow().UnixNano()
			S := wallNow().UnixNano()
			g, il := p.reply(*ri, theta, S, wantIL)
			d := dgram{src: srcServer, b: g, genuine: true}
			if scionTr {
				d = buildSCION(genuineVariant(), uint16(p.addr.Port()), sl.srcPort, g)
				d.genuine = true
			}
			return []dgram{d}, theta, S, il
		}
	}
	rounds := c.Scale(1, 12)
	for round := 0; round < rounds; round++ {
		for _, mode := range originModes {
			for _, ok := range originKinds {
				for txShape := 0; txShape < 2; txShape++ { // 0: server answering now   1: transmit stamp just after prev.sRxTime
					for shape := 0; shape < 2; shape++ { // 0: [crafted, genuine]   1: [crafted]
						if shape == 1 && txShape == 0 {
							continue
						}
						var lc liveClient
						var sl *scionLive
						if scionTr {
							sl = &scionLive{c: &client.SCIONClient{Log: logger}}
							lc = sl
						} else {
							lc = ipLive{&client.IPClient{Log: logger}}
						}
						theta := int64(0)
						if round > 0 {
							theta = pickTheta(r)
						}
						cfg := exchCfg{il: mode.il, deadline: 300 * time.Millisecond}
						if r.Chance(40) {
							cfg.filter = true // the filter sees the exact tuple: identifies the datagram used
						}
						switch mode.prev {
						case "warmup":
							w := exchCfg{il: true, deadline: 300 * time.Millisecond}
							res := exchange(c, lc, w, genuineOnly(theta, false, sl))
							if !res.valid || res.err != nil || res.panicked != "" {
								c.Count(tag + ":warmup-failed")
								continue
							}
							recordIP(c, tag+":warmup", w, res)
						case "stale", "other":
							now := time.Now().UnixNano()
							age := 10 * nsps
							pv := client.VerifC03Prev{Reference: reference, Interleaved: true, CTxTime: enc64(now - age),
								CRxTime: enc64(now - age + 50000), SRxTime: enc64(now - age + 30000 + theta)}
							if mode.prev == "other" {
								pv.Reference = "192.0.2.1:123"
								if r.Bool() {
									// fresh enough for the window: only the reference differs
									pv.CTxTime, pv.CRxTime, pv.SRxTime = enc64(now-nsps), enc64(now-nsps+50000), enc64(now-nsps+30000+theta)
								}
							}
							cfg.setPrev = &pv
						}
						pv := lc.getPrev()
						if cfg.setPrev != nil {
							pv = *cfg.setPrev
						}
						if shape == 1 {
							cfg.deadline = 15 * time.Millisecond
						}
						var names []string
						sc := func(ri *reqInfo) ([]dgram, int64, int64, bool) {
							ri.R = wallNow().UnixNano()
							S := wallNow().UnixNano()
							g, il := p.reply(*ri, theta, S, true)
							m := append([]byte(nil), g...)
							put64(m[24:], ok.f(*ri, pv))
							if txShape == 1 {
								put64(m[40:], add64(pv.SRxTime, 85899)) // 20 us after prev.sRxTime
							} else {
								put64(m[40:], enc64(S+theta)) // as a basic response (g may be an interleaved one)
							}
							m = tagRx(m, 1)
							mk := func(b []byte, genuine bool) dgram {
								d := dgram{src: srcServer, b: b}
								if scionTr {
									d = buildSCION(genuineVariant(), uint16(p.addr.Port()), sl.srcPort, b)
								}
								d.genuine = genuine
								return d
							}
							name := fmt.Sprintf("origin=%s:tx=%s", ok.name, []string{"now", "after-prev.sRx"}[txShape])
							if shape == 0 {
								names = []string{name, "genuine"}
								return []dgram{mk(m, false), mk(g, true)}, theta, S, il
							}
							names = []string{name}
							return []dgram{mk(m, false)}, theta, S, false
						}
						res := exchange(c, lc, cfg, sc)
						if !res.valid {
							continue
						}
						if res.ri.interleavedRq != (mode.name == "interleaved") {
							c.Count(tag + ":" + mode.name + ":request-kind-not-as-planned")
						}
						idx := recordIP(c, tag, cfg, res)
						if res.err == nil && res.panicked == "" {
							if idx >= 0 && idx < len(names) {
								c.Count(tag + ":" + mode.name + ":accepted:" + names[idx])
							}
						} else if len(names) > 0 {
							c.Count(fmt.Sprintf("%s:%s:rejected-first:%s:%s%s", tag, mode.name, names[0], errKind(res.err), res.panicked))
						}
					}
				}
			}
		}
	}
}
