// c03: correspondence + direct oracles for the NTP clients (properties C03 and C05).
//
// The real client code (core/client: MeasureClockOffsetIP and the per-exchange functions
// measureClockOffsetIP / measureClockOffsetSCION through verif hooks) runs against a scripted
// peer on loopback inside this process. Every exchange is recorded as op lines carrying all
// the facts the client branched on (state before, clock reading, datagram facts in delivery
// order, kernel timestamps) and the implementation's answer; the Lean model recomputes the
// answer from the same facts. Live ops depend on the real clock and kernel timestamps and
// are therefore not re-executable by -replay (exec answers them "live-only"); the pure ops
// ntp.off / ntp.meta / ntp.ts are.
//
//	-prop c03   timing / pairing scripts (offset, delays, drop, duplicate, stale, basic/interleaved)
//	-prop c05   acceptance scripts (random bytes, single-field mutants, foreign sources, origin
//	            echo per request mode, NTS, SCION packet authenticator with a key available)
//	-prop c13   the SCION client with DRKey authentication enabled only (client clause of C13), incl. re-framed datagrams
//	-prop c11   the NTS clients' cookie pool along histories of exchanges with unauthenticated
//	            datagrams in front of / instead of the genuine reply (client clauses of C11; driver drv_c11)
//	-prop c11origin  the pool when datagrams that authenticate but do not echo the request precede the genuine reply (driver drv_c03)
//	-prop c15wrap    the SCION wrapper's per-path attempt loop under context regimes, a path server that answers interleaved (break)
//	-prop c20   destination of the NTS-protected request for every kind of server / port an
//	            NTS key exchange may name (client clause of C20)
package main

import (
	"flag"
	"fmt"
	"strconv"
	"time"

	"example.com/scion-time/net/ntp"

	"verifharness/lib"
)

var prop = flag.String("prop", "c03", "c03|c05|c13|c11|c20: which generator streams to run")

// probeMalformedAuth adds responses whose authenticator option data is not 28 bytes long to the
// SPAO stream (and empty paths of an unregistered type). On by default since the repair dd91497;
// before it, with a key available, the client panicked on them in
// scion.PacketAuthOptMetadata (reported finding, C08's clause; see notes/C13.md).
var probeMalformedAuth = flag.Bool("probe-malformed-auth", true, "SPAO stream: include authenticator options of wrong length")

func i64(s string) int64 {
	v, err := strconv.ParseInt(s, 10, 64)
	if err != nil {
		panic("bad-op")
	}
	return v
}

// exec: the replayable ops (pure functions of net/ntp).
func exec(t []string) string {
	switch {
	case t[0] == "ntp.off" && len(t) == 9:
		var ts [4]time.Time
		for i := range ts {
			ts[i] = time.Unix(i64(t[1+2*i]), i64(t[2+2*i]))
		}
		return fmt.Sprintf("ok %d %d", int64(ntp.ClockOffset(ts[0], ts[1], ts[2], ts[3])),
			int64(ntp.RoundTripDelay(ts[0], ts[1], ts[2], ts[3])))
	case t[0] == "ntp.ts" && len(t) == 9:
		var ts [4]time.Time
		for i := range ts {
			ts[i] = time.Unix(i64(t[1+2*i]), i64(t[2+2*i]))
		}
		if err := ntp.ValidateResponseTimestamps(ts[0], ts[1], ts[2], ts[3]); err != nil {
			return "err response"
		}
		return "ok"
	case t[0] == "ntp.meta" && len(t) == 3:
		p := ntp.Packet{LVM: uint8(i64(t[1])), Stratum: uint8(i64(t[2]))}
		return "ok " + lib.Bool(ntp.ValidateResponseMetadata(&p) == nil)
	case t[0] == "cli.hist":
		return execHist(t) // hdrhistogram.RecordValue on the real library (gen_tail.go)
	case len(t[0]) > 4 && t[0][:4] == "cli.":
		return "live-only"
	case t[0] == "cl.exch":
		return execExch(t) // one live exchange, re-executable (gen_pool.go)
	}
	return "bad-op"
}

func genPure(c *lib.Ctx) {
	r := c.Rand.Fork("pure")
	c.Comment("ntp.meta: all 256 first bytes x strata")
	for lvm := 0; lvm < 256; lvm++ {
		for _, st := range []int{0, 1, 2, 15, 16, 255} {
			c.Dof("ntp.meta %d %d", lvm, st)
		}
	}
	c.Comment("ntp.off / ntp.ts: random near, boundary, saturating")
	const maxSec = int64(1) << 40
	edge := []int64{0, 1, -1, 2, -2, 3, 1000000000, 9223372036, 9223372037, -9223372036, -9223372037, -9223372038,
		18446744073, 18446744074, -18446744074, 1 << 33}
	n := c.Scale(3000, 60000)
	for i := 0; i < n; i++ {
		var s [4]int64
		var ns [4]int64
		base := r.Range(-maxSec, maxSec)
		for k := range s {
			switch r.Intn(4) {
			case 0: // close together
				s[k] = base + r.Range(-2, 2)
			case 1:
				s[k] = base + r.Pick64(edge)
			case 2:
				s[k] = r.Pick64(edge)
			default:
				s[k] = r.Range(-maxSec, maxSec)
			}
			ns[k] = r.Pick64([]int64{0, 1, 2, 999999999, 999999998, 500000000, r.Range(0, 999999999)})
		}
		a := c.Dof("ntp.off %d %d %d %d %d %d %d %d", s[0], ns[0], s[1], ns[1], s[2], ns[2], s[3], ns[3])
		if i%3 == 0 {
			c.Dof("ntp.ts %d %d %d %d %d %d %d %d", s[0], ns[0], s[1], ns[1], s[2], ns[2], s[3], ns[3])
		}
		_ = a
		c.Count("pure:ntp.off")
	}
}

func gen(c *lib.Ctx) {
	setup(c)
	switch *prop {
	case "c03":
		genPure(c)
		genC03IP(c)
		genWrapIP(c)
		genA4Scenario(c)
		genC03SCION(c)
		genNoStamp(c, "c03nostamp-ip", false)
		genNoStamp(c, "c03nostamp-scion", true)
		genLatePort(c, "c03lateport-ip", false)
		genLatePort(c, "c03lateport-scion", true)
		genHistPure(c)
		genHist(c, "c03hist-ip", false)
		genHist(c, "c03hist-scion", true)
		genHistWrap(c, "c03histwrap-ip", false)
		genHistWrap(c, "c03histwrap-scion", true)
		genHdr(c, "c03hdr")
		genUnsync(c, "c03unsync-ip", false)
		genUnsync(c, "c03unsync-scion", true)
		genSlowPath(c, "c03slow-ip", false)
		genSlowPath(c, "c03slow-scion", true)
	case "unsync": // development
		genUnsync(c, "c03unsync-ip", false)
		genUnsync(c, "c03unsync-scion", true)
		genSlowPath(c, "c03slow-ip", false)
		genSlowPath(c, "c03slow-scion", true)
	case "tail": // development: the streams of gen_tail.go only
		genHistPure(c)
		genHist(c, "c03hist-ip", false)
		genHist(c, "c03hist-scion", true)
		genHistWrap(c, "c03histwrap-ip", false)
		genHistWrap(c, "c03histwrap-scion", true)
		genHdr(c, "c03hdr")
	case "c05":
		genC05IP(c)
		genWrapIP(c)
		genF13(c)
		genC05SCION(c)
		genNTS(c, "c05nts-ip", false)
		genNTS(c, "c05nts-scion", true)
		genOrigin(c, "c05origin-ip", false)
		genOrigin(c, "c05origin-scion", true)
		genSPAO(c, "c05spao")
		genAddr(c, "c05addr")
		genTsWindow(c, "c05tswin")
		genNTSDest(c, "c20ntsdest")
		genWrapCtx(c, "c05wrapctx-ip", false)
		genWrapCtx(c, "c05wrapctx-scion", true)
		genNTSRetry(c, "c05ntsretry-ip", false)
		genNTSRetry(c, "c05ntsretry-scion", true)
		genReframe(c, "c05reframe", false)
		genNoStamp(c, "c05nostamp-ip", false)
		genNoStamp(c, "c05nostamp-scion", true)
		genHistPure(c)
		genHist(c, "c05hist-ip", false)
		genHist(c, "c05hist-scion", true)
		genHistWrap(c, "c05histwrap-ip", false)
		genHistWrap(c, "c05histwrap-scion", true)
		genUnsync(c, "c05unsync-ip", false)
		genUnsync(c, "c05unsync-scion", true)
		genRekey(c, "c05rekey-ip", false)
		genRekey(c, "c05rekey-scion", true)
	case "rekey": // development
		genRekey(c, "c05rekey-ip", false)
		genRekey(c, "c05rekey-scion", true)
	case "port": // development
		genLatePort(c, "c03lateport-ip", false)
		genLatePort(c, "c03lateport-scion", true)
	case "reframe": // development
		genReframe(c, "c05reframe", false)
	case "retry": // development
		genNTSRetry(c, "c05ntsretry-ip", false)
		genNTSRetry(c, "c05ntsretry-scion", true)
	case "flow": // development: the streams of gen_flow.go only
		genNoStamp(c, "c03nostamp-ip", false)
		genNoStamp(c, "c03nostamp-scion", true)
		genWrapCtx(c, "c05wrapctx-ip", false)
		genWrapCtx(c, "c05wrapctx-scion", true)
	case "c20":
		genNTSDest(c, "c20ntsdest")
	case "c13":
		genSPAO(c, "c13spao")
		genReframe(c, "c13reframe", true)
	case "c11":
		genPool(c, "c11pool-ip", false)
		genPool(c, "c11pool-scion", true)
	case "c15wrap": // the per-path attempt loop of MeasureClockOffsetSCION incl. its break in interleaved mode (composition into C15)
		genWrapCtx(c, "c15wrapctx-scion", true)
		genHistWrap(c, "c15histwrap-scion", true)
	case "c11origin":
		genPoolOrigin(c, "c11origin-ip", false)
		genPoolOrigin(c, "c11origin-scion", true)
	default:
		panic("unknown -prop")
	}
}

func main() { lib.Main(exec, gen) }
