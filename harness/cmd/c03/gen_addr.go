package main

import (
	"fmt"
	"net/netip"
	"time"

	"example.com/scion-time/core/client"

	"verifharness/lib"
)

// Address clause of C05 / C08 for the SCION client, executed live: "from the queried ISD-AS and
// host and addressed to the client" over every shape a host address of a received SCION header
// can take. The header's 4-bit type/length field and the raw bytes are network input: lengths
// 4, 8, 12, 16; IP, service and unassigned types; IPv4-mapped IPv6; IPv6 addresses that merely
// end in (or start with, or embed) the bytes of the IPv4 address they are compared with.
// The expected verdict is the harness's own (hostIsIP in gen_scion.go, through
// slayers.ParseAddr): the address is an IP address and equals the queried one up to
// IPv4-mapping. Each case replaces the source or the destination host of an otherwise genuine
// response and is delivered as [case, genuine] (exact tuple / tagged receive stamp identify the
// datagram the result stems from) and as [case] alone.

type addrCase struct {
	name string
	h    rawHost
}

func cat(bs ...[]byte) []byte {
	var o []byte
	for _, b := range bs {
		o = append(o, b...)
	}
	return o
}

var mappedPrefix = []byte{0, 0, 0, 0, 0, 0, 0, 0, 0, 0, 0xff, 0xff}

// addrCasesFor: host addresses to put in the place of ip (the queried server's or the client's).
func addrCasesFor(r *lib.Rand, ip netip.Addr) []addrCase {
	z := func(n int) []byte { return make([]byte, n) }
	var cs []addrCase
	add := func(name string, typ uint8, raw []byte) {
		if len(raw) != 4*(int(typ&3)+1) {
			panic("addrCasesFor: " + name)
		}
		cs = append(cs, addrCase{name, rawHost{typ, raw}})
	}
	if ip.Unmap().Is4() {
		a4 := ip.Unmap().As4()
		b := a4[:]
		other := []byte{127, 0, 0, 9}
		bit := append([]byte(nil), b...)
		bit[3] ^= 1
		// IP types
		add("t4ip:same", 0, b) // the genuine form
		add("t4ip:other", 0, other)
		add("t4ip:last-bit", 0, bit)
		add("t16ip:v4mapped", 3, cat(mappedPrefix, b)) // the same address in its 16-byte form
		add("t16ip:2001:db8::+ip", 3, cat([]byte{0x20, 0x01, 0x0d, 0xb8}, z(8), b))
		add("t16ip:::+ip", 3, cat(z(12), b))
		add("t16ip:::fffe:+ip", 3, cat(z(10), []byte{0xff, 0xfe}, b))
		add("t16ip:::ffff:0:+ip", 3, cat(z(8), []byte{0xff, 0xff, 0, 0}, b))
		add("t16ip:0100::ffff:+ip", 3, cat([]byte{1}, z(9), []byte{0xff, 0xff}, b))
		add("t16ip:ip+zeros", 3, cat(b, z(12)))
		add("t16ip:v4mapped-other", 3, cat(mappedPrefix, other))
		add("t16ip:random+ip", 3, cat(r.Bytes(12), b))
		// IP type with the unassigned lengths 8 and 12
		add("t8:ip+zeros", 1, cat(b, z(4)))
		add("t8:zeros+ip", 1, cat(z(4), b))
		add("t8:ffff+ip", 1, cat([]byte{0, 0, 0xff, 0xff}, b))
		add("t12:ip+zeros", 2, cat(b, z(8)))
		add("t12:zeros+ip", 2, cat(z(8), b))
		add("t12:ffff+ip", 2, cat(z(6), []byte{0xff, 0xff}, b))
		// service addresses
		add("svc4:ip-bytes", 4, b)
		add("svc4:cs", 4, []byte{0, 2, 0, 0})
		add("svc8:ip+zeros", 5, cat(b, z(4)))
		add("svc12:zeros+ip", 6, cat(z(8), b))
		add("svc16:v4mapped", 7, cat(mappedPrefix, b))
		// unassigned types
		add("t8type:4:ip-bytes", 8, b)
		add("t12type:4:ip-bytes", 12, b)
		add("t9:8", 9, cat(b, z(4)))
		add("t14:12", 14, cat(z(8), b))
		add("t11:16:v4mapped", 11, cat(mappedPrefix, b))
		add("t15:16:v4mapped", 15, cat(mappedPrefix, b))
		t := uint8(r.Intn(16))
		add(fmt.Sprintf("random:type%d", t), t, r.Bytes(4*(int(t&3)+1)))
		return cs
	}
	a16 := ip.As16()
	b := a16[:]
	bit := append([]byte(nil), b...)
	bit[r.Intn(16)] ^= 1 << uint(r.Intn(8))
	add("t16ip:same", 3, b)
	add("t16ip:one-bit", 3, bit)
	add("t4ip:last4", 0, b[12:])
	add("t4ip:first4", 0, b[:4])
	add("t8:last8", 1, b[8:])
	add("t12:first12", 2, b[:12])
	add("svc16:same-bytes", 7, b)
	add("t15:16:same-bytes", 15, b)
	add("svc4:last4", 4, b[12:])
	return cs
}

// runAddrCase: one exchange; build makes the crafted datagram from the genuine payload.
func runScionCase(c *lib.Ctx, tag, name string, lc *scionLive, cfg exchCfg, shape int,
	build func(ri *reqInfo, gpay []byte) dgram) {
	p := thePeer
	var names []string
	sc := func(ri *reqInfo) ([]dgram, int64, int64, bool) {
		ri.R = wallNow().UnixNano()
		S := wallNow().UnixNano()
		gpay, il := p.reply(*ri, 0, S, false)
		g := buildSCION(genuineVariant(), uint16(p.addr.Port()), lc.srcPort, gpay)
		g.genuine = true
		m := build(ri, tagRx(gpay, 1))
		if shape == 0 {
			names = []string{name, "genuine"}
			return []dgram{m, g}, 0, S, il
		}
		names = []string{name}
		return []dgram{m}, 0, S, il
	}
	res := exchange(c, lc, cfg, sc)
	if !res.valid {
		c.Count(tag + ":discarded")
		return
	}
	idx := recordIP(c, tag, cfg, res)
	if res.err == nil && res.panicked == "" {
		if idx >= 0 && idx < len(names) {
			c.Count(tag + ":accepted:" + names[idx])
		}
	} else if len(names) > 0 {
		c.Count(fmt.Sprintf("%s:rejected-first:%s:%s%s", tag, names[0], errKind(res.err), res.panicked))
	}
}

func genAddr(c *lib.Ctx, tag string) {
	if sandbox != "" {
		return
	}
	p := thePeer
	r := c.Rand.Fork(tag)
	c.Comment("history " + tag)
	defer func() { scionRemoteIP, scionLocal16 = netip.Addr{}, false }()
	type config struct {
		name    string
		remote  netip.Addr // invalid: the peer's address
		local16 bool
		sides   []string
	}
	configs := []config{
		{"v4", netip.Addr{}, false, []string{"src", "dst"}},
		{"local16", netip.Addr{}, true, []string{"dst", "src"}},
		{"server-v6", netip.MustParseAddr("2001:db8::1:7f00:1"), false, []string{"src"}},
		{"server-v6-embeds-local", netip.MustParseAddr("64:ff9b::7f00:1"), false, []string{"src", "dst"}},
	}
	rounds := c.Scale(1, 6)
	k := 0
	for round := 0; round < rounds; round++ {
		for ci, cf := range configs {
			scionRemoteIP, scionLocal16 = cf.remote, cf.local16
			for _, side := range cf.sides {
				ip := localIP
				if side == "src" {
					ip = scionServerHost()
				}
				cases := addrCasesFor(r, ip)
				if ci > 0 && side == cf.sides[len(cf.sides)-1] && len(cf.sides) > 1 && !c.Thorough() {
					cases = cases[:6] // the secondary side of the secondary configurations: a sample
				}
				for _, ac := range cases {
					for shape := 0; shape < 2; shape++ { // 0: [case, genuine]   1: [case]
						k++
						lc := &scionLive{c: &client.SCIONClient{Log: logger}}
						// the datagram a result stems from is identified exactly: by the tuple the
						// filter sees, or by the tagged receive stamp kept in prev
						cfg := exchCfg{deadline: 300 * time.Millisecond}
						if k%2 == 0 {
							cfg.il = true
						} else {
							cfg.filter = true
						}
						if shape == 1 {
							cfg.deadline = 15 * time.Millisecond
						}
						h := ac.h
						name := cf.name + ":" + side + ":" + ac.name
						runScionCase(c, tag, name, lc, cfg, shape, func(ri *reqInfo, gpay []byte) dgram {
							v := genuineVariant()
							if side == "src" {
								v.srcRaw = &h
							} else {
								v.dstRaw = &h
							}
							return buildSCION(v, uint16(p.addr.Port()), lc.srcPort, gpay)
						})
					}
				}
			}
		}
	}
}

// genTsWindow: the plausibility window of the end-to-end timestamp option (C08; finding F10,
// third variant) at its lower end. The option's time replaces the kernel receive time, i.e.
// becomes t3, while t0 is the KERNEL transmit time cTxTime1 of the request — not the clock
// reading cTxTime0 the request was built with, which the request's own transmit timestamp
// discloses to the peer. Option times: cTxTime0 (+0, +1 ns, +2 ns), the request's transmit
// timestamp as decoded from the wire (+0, +1, +2 ns), and a ladder of points between cTxTime0
// and the peer's receipt, which brackets cTxTime1 from both sides. The client runs with a
// recording filter, so the kernel transmit time is known exactly afterwards and the expectation
// "used iff cTxTime1 <= time <= kernel receive time" is evaluated then; any panic is a failure.
func genTsWindow(c *lib.Ctx, tag string) {
	if sandbox != "" {
		return
	}
	p := thePeer
	c.Comment("history " + tag)
	type tsPoint struct {
		name string
		f    func(ri *reqInfo, tx0 int64) int64
	}
	pts := []tsPoint{
		{"cTx0", func(ri *reqInfo, tx0 int64) int64 { return tx0 }},
		{"cTx0+1ns", func(ri *reqInfo, tx0 int64) int64 { return tx0 + 1 }},
		{"cTx0+2ns", func(ri *reqInfo, tx0 int64) int64 { return tx0 + 2 }},
		{"req.tx", func(ri *reqInfo, tx0 int64) int64 { return dec64(ri.tx, ri.R) }},
		{"req.tx+1ns", func(ri *reqInfo, tx0 int64) int64 { return dec64(ri.tx, ri.R) + 1 }},
		{"req.tx+2ns", func(ri *reqInfo, tx0 int64) int64 { return dec64(ri.tx, ri.R) + 2 }},
		{"cTx0+1us", func(ri *reqInfo, tx0 int64) int64 { return tx0 + 1000 }},
		{"R", func(ri *reqInfo, tx0 int64) int64 { return ri.R }},
		{"R-1ns", func(ri *reqInfo, tx0 int64) int64 { return ri.R - 1 }},
	}
	for _, num := range []int64{1, 2, 3, 4, 6, 8, 10, 12, 14, 15} {
		num := num
		pts = append(pts, tsPoint{fmt.Sprintf("cTx0+%d/16", num), func(ri *reqInfo, tx0 int64) int64 {
			return tx0 + (ri.R-tx0)*num/16
		}})
	}
	rounds := c.Scale(1, 10)
	for round := 0; round < rounds; round++ {
		for _, pt := range pts {
			for shape := 0; shape < 2; shape++ { // 0: [case, genuine]   1: [case]
				if shape == 1 && round%2 == 0 && !c.Thorough() && pt.name != "cTx0+1ns" && pt.name != "req.tx+2ns" {
					continue
				}
				lc := &scionLive{c: &client.SCIONClient{Log: logger}}
				cfg := exchCfg{deadline: 300 * time.Millisecond, filter: true, il: round%2 == 1}
				if shape == 1 {
					cfg.deadline = 15 * time.Millisecond
				}
				pt := pt
				runScionCase(c, tag, "e2e:timestamp:"+pt.name, lc, cfg, shape, func(ri *reqInfo, gpay []byte) dgram {
					v := genuineVariant()
					v.e2eTs = pt.f(ri, firstReading())
					v.tsAuto = true
					return buildSCION(v, uint16(p.addr.Port()), lc.srcPort, gpay)
				})
			}
		}
	}
}
