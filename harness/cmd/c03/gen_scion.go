package main

import "verifharness/lib"

func genC03SCION(c *lib.Ctx) {
	c.NotExecuted("SCION client on the live socket (modelled and proved at the abstract level; scripted SCION peer not built)")
}
func genC05SCION(c *lib.Ctx) {
	c.NotExecuted("SCION client acceptance on the live socket (modelled and proved at the abstract level; scripted SCION peer not built)")
}
