package main

import (
	"context"
	"encoding/binary"
	"fmt"
	"net"
	"net/netip"
	"strings"
	"time"
	"unsafe"

	"github.com/google/gopacket"
	"golang.org/x/sys/unix"

	"github.com/scionproto/scion/pkg/addr"
	"github.com/scionproto/scion/pkg/slayers"
	"github.com/scionproto/scion/pkg/snet"
	spath "github.com/scionproto/scion/pkg/snet/path"

	"example.com/scion-time/core/client"
	"example.com/scion-time/net/ntp"
	"example.com/scion-time/net/scion"
	"example.com/scion-time/net/udp"

	"verifharness/lib"
)

// The SCION client is driven over loopback with an empty dataplane path: the "next hop" is
// the scripted peer's UDP socket, which parses the SCION/UDP request with slayers and
// answers with SCION/UDP packets it builds itself.

var (
	localIA  = addr.MustParseIA("1-ff00:0:110")
	remoteIA = addr.MustParseIA("1-ff00:0:111")
	otherIA  = addr.MustParseIA("2-ff00:0:222")
	localIP  = netip.MustParseAddr("127.0.0.1")
	otherIP  = netip.MustParseAddr("127.0.0.9")
)

// The queried server's SCION host address is by default the peer's underlay address. The
// address streams (gen_addr.go) override it (the datagrams still travel to the peer's socket:
// with a non-empty path the underlay next hop is independent of the SCION destination) and
// pass the client's own address in its 16-byte IPv4-mapped form.
var (
	scionRemoteIP netip.Addr // valid: the queried server's host address instead of the peer's
	scionLocal16  bool       // localAddr.Host.IP as 16 bytes (net.ParseIP's form) instead of 4
)

// scionServerHost: the host address of the queried server as an IP address.
func scionServerHost() netip.Addr {
	if scionRemoteIP.IsValid() {
		return scionRemoteIP
	}
	return thePeer.addr.Addr()
}

func scionRemote() udp.UDPAddr {
	return udp.UDPAddr{IA: remoteIA, Host: net.UDPAddrFromAddrPort(netip.AddrPortFrom(scionServerHost(), thePeer.addr.Port()))}
}

// scionLocalIP: the bytes handed to the client as localAddr.Host.IP.
func scionLocalIP() net.IP {
	if scionLocal16 {
		return net.IPv4(127, 0, 0, 1).To16()
	}
	return net.IPv4(127, 0, 0, 1).To4()
}

// scionRemoteHeld: the bytes the client holds in remoteAddr.Host.IP when it compares
// (it replaces them by their 4-byte form when there is one).
func scionRemoteHeld() []byte {
	a := scionServerHost()
	if a.Unmap().Is4() {
		b := a.Unmap().As4()
		return b[:]
	}
	b := a.As16()
	return b[:]
}

func scionReference() string {
	r := scionRemote()
	return r.IA.String() + "," + r.Host.String()
}

type scionLive struct {
	c       *client.SCIONClient
	srcPort uint16 // of the last request (for replies)
	key     bool   // the configured DRKey fetcher hands out a host-host key
	noKeyF  *scion.Fetcher
	keyF    *scion.Fetcher
	reqAuth reqAuthInfo // what the peer saw of the last request's packet authenticator
}

func (l *scionLive) configure(cfg exchCfg, f *recFilter) {
	l.c.InterleavedMode = cfg.il
	l.c.Auth.NTSEnabled = cfg.nts
	if cfg.nts {
		l.c.Auth.NTSKEFetcher.VerifC11SetData(ntsData())
	}
	l.c.Auth.Enabled = cfg.spao || cfg.spaoKey
	l.key = cfg.spaoKey
	switch {
	case cfg.spaoKey:
		if l.keyF == nil {
			l.keyF = scion.NewFetcher(theDaemon) // fake daemon connector: the key fetch succeeds (gen_auth.go)
		}
		l.c.Auth.DRKeyFetcher = l.keyF
	case cfg.spao:
		if l.noKeyF == nil {
			l.noKeyF = scion.NewFetcher(nil) // no daemon: the key fetch fails, no key becomes available
		}
		l.c.Auth.DRKeyFetcher = l.noKeyF
	}
	l.c.Filter = nil
	if f != nil {
		l.c.Filter = f
	}
}
func (l *scionLive) getPrev() client.VerifC03Prev  { return client.VerifC03PrevSCION(l.c) }
func (l *scionLive) setPrev(p client.VerifC03Prev) { client.VerifC03SetPrevSCION(l.c, p) }
func (l *scionLive) measure(ctx context.Context) (time.Time, time.Duration, error) {
	la := udp.UDPAddr{IA: localIA, Host: &net.UDPAddr{IP: scionLocalIP(), Zone: liveZone, Port: livePort}}
	ra := scionRemote()
	var path snet.Path = spath.Path{Src: localIA, Dst: remoteIA, DataplanePath: spath.Empty{},
		NextHop: net.UDPAddrFromAddrPort(thePeer.addr)}
	return client.VerifC03MeasureSCION(ctx, l.c, la, ra, path)
}

// transport: rhost / lhost are the bytes of remoteAddr.Host.IP / localAddr.Host.IP as the client
// holds them (`x<hex>`; a decimal number is the older form: an address up to IPv4-mapping).
func (l *scionLive) transport() (string, string) {
	return "scion", fmt.Sprintf("key="+lib.Bool(l.key)+" ria=%d rhost=x%s lia=%d lhost=x%s",
		uint64(remoteIA), lib.Hex(scionRemoteHeld()), uint64(localIA), lib.Hex(scionLocalIP()))
}

// rawHost: a host address of a crafted SCION header given by its 4-bit type/length field and
// its raw bytes (4 * (typ&3 + 1) of them).
type rawHost struct {
	typ uint8
	raw []byte
}

// hostTok: a received host address for the model: `t<type field>x<raw bytes>`.
func hostTok(t slayers.AddrType, raw []byte) string {
	return fmt.Sprintf("t%dx%s", uint8(t), lib.Hex(raw))
}

// hostIsIP: the property's own reading of "the host of this header is the IP address ip":
// the address parses (slayers' own interpretation of type and bytes) as an IP address and is
// that address, an IPv4 address and its IPv4-mapped IPv6 form being the same.
func hostIsIP(t slayers.AddrType, raw []byte, ip netip.Addr) bool {
	if len(raw) != t.Length() {
		return false
	}
	h, err := slayers.ParseAddr(t, raw)
	return err == nil && h.Type() == addr.HostTypeIP && h.IP().Unmap() == ip.Unmap()
}

type parsed struct {
	ok      bool
	decoded []gopacket.LayerType
	scn     slayers.SCION
	udp     slayers.UDP
	e2e     slayers.EndToEndExtn
}

// parseSCION runs the same layer parser configuration the client uses.
func parseSCION(b []byte) (p parsed) {
	var hbh slayers.HopByHopExtnSkipper
	var scmp slayers.SCMP
	parser := gopacket.NewDecodingLayerParser(slayers.LayerTypeSCION, &p.scn, &hbh, &p.e2e, &p.udp, &scmp)
	parser.IgnoreUnsupported = true
	p.decoded = make([]gopacket.LayerType, 4)
	func() {
		defer func() {
			if recover() != nil {
				p.ok = false
			}
		}()
		p.ok = parser.DecodeLayers(b, &p.decoded) == nil
	}()
	return
}

func (l *scionLive) parse(b []byte) reqInfo {
	p := parseSCION(b)
	if !p.ok || len(p.decoded) < 2 || p.decoded[len(p.decoded)-1] != slayers.LayerTypeSCIONUDP {
		return reqInfo{}
	}
	l.srcPort = p.udp.SrcPort
	l.reqAuth = readReqAuth(p, b)
	return parseReq(p.udp.Payload)
}

type scionVariant struct {
	srcIA, dstIA   addr.IA
	srcIP, dstIP   netip.Addr
	scmp           bool
	e2eTs          int64 // != 0: E2E extension with a timestamp option carrying this time
	e2eEmpty       bool  // E2E extension with a padding option only
	tsUse          bool  // the option's time lies inside the exchange: the client is expected to use it
	tsRaw          []byte // != nil: E2E extension with a timestamp option carrying these (malformed) bytes
	udpLenDelta    int   // added to the UDP length field after serialisation
	truncate       int   // bytes cut from the end
	garbage        []byte
	hbh            bool      // a hop-by-hop extension header (padding option) in front of E2E extension / UDP
	auth           *authSpec // E2E extension with a packet authenticator option (gen_auth.go)
	rawPathType    byte      // != 0: path type field of the common header overwritten after serialisation (empty path of an unregistered type)
	srcRaw, dstRaw *rawHost  // != nil: address type field and raw bytes of the source / destination host instead of srcIP / dstIP
	rawNextHdr     byte      // != 0: next-header field of the common header overwritten after serialisation (an L4 protocol the client's parser does not know)
	padTo          int       // > 0: the datagram is padded with zero bytes to this length after serialisation (longer than the client's buffer: MSG_TRUNC)
	tsAuto         bool      // e2eTs lies near the request's transmit time: whether the client is expected to use it is decided after the exchange, when the kernel transmit time is known
}

func tsOptData(ns int64) []byte {
	b := make([]byte, unix.CmsgSpace(3*16))
	h := (*unix.Cmsghdr)(unsafe.Pointer(&b[0]))
	h.Level = unix.SOL_SOCKET
	h.Type = unix.SO_TIMESTAMPING_NEW
	h.SetLen(unix.CmsgSpace(3 * 16))
	binary.NativeEndian.PutUint64(b[unix.CmsgSpace(0):], uint64(ns/nsps))
	binary.NativeEndian.PutUint64(b[unix.CmsgSpace(8):], uint64(ns%nsps))
	return b
}

// buildSCION serialises payload as SCION/UDP (or SCMP) per variant and derives the facts the
// model needs from the result with the client's own parser configuration.
func buildSCION(v scionVariant, srcPort, dstPort uint16, payload []byte) (d dgram) {
	d.src = srcServer
	if v.garbage != nil {
		d.wire = v.garbage
	} else {
		var scn slayers.SCION
		scn.SrcIA, scn.DstIA = v.srcIA, v.dstIA
		if err := scn.SetSrcAddr(addr.HostIP(v.srcIP)); err != nil {
			panic(err)
		}
		if err := scn.SetDstAddr(addr.HostIP(v.dstIP)); err != nil {
			panic(err)
		}
		if v.srcRaw != nil {
			scn.SrcAddrType, scn.RawSrcAddr = slayers.AddrType(v.srcRaw.typ), v.srcRaw.raw
		}
		if v.dstRaw != nil {
			scn.DstAddrType, scn.RawDstAddr = slayers.AddrType(v.dstRaw.typ), v.dstRaw.raw
		}
		if err := (spath.Empty{}).SetPath(&scn); err != nil {
			panic(err)
		}
		buffer := gopacket.NewSerializeBuffer()
		options := gopacket.SerializeOptions{ComputeChecksums: true, FixLengths: true}
		must := func(err error) {
			if err != nil {
				panic(err)
			}
		}
		must(gopacket.Payload(payload).SerializeTo(buffer, options))
		l4 := slayers.L4UDP
		if v.scmp {
			var scmp slayers.SCMP
			scmp.TypeCode = slayers.CreateSCMPTypeCode(slayers.SCMPTypeDestinationUnreachable, 0)
			scmp.SetNetworkLayerForChecksum(&scn)
			must(scmp.SerializeTo(buffer, options))
			l4 = slayers.L4SCMP
		} else {
			var u slayers.UDP
			u.SrcPort, u.DstPort = srcPort, dstPort
			u.SetNetworkLayerForChecksum(&scn)
			must(u.SerializeTo(buffer, options))
		}
		scn.NextHdr = l4
		if v.e2eTs != 0 || v.e2eEmpty || v.tsRaw != nil || v.auth != nil {
			var e2e slayers.EndToEndExtn
			e2e.NextHdr = l4
			if v.tsRaw != nil {
				e2e.Options = []*slayers.EndToEndOption{{OptType: scion.OptTypeTimestamp, OptData: v.tsRaw}}
			} else if v.e2eTs != 0 {
				e2e.Options = []*slayers.EndToEndOption{{OptType: scion.OptTypeTimestamp, OptData: tsOptData(v.e2eTs)}}
			} else if v.e2eEmpty {
				e2e.Options = []*slayers.EndToEndOption{{OptType: slayers.OptTypePadN, OptData: make([]byte, 2)}}
			}
			if v.auth != nil {
				// the MAC covers the SCION header fields and the UDP header + payload serialised so far
				ao := v.auth.option(&scn, l4, buffer.Bytes())
				if v.auth.first {
					e2e.Options = append([]*slayers.EndToEndOption{ao}, e2e.Options...)
				} else {
					e2e.Options = append(e2e.Options, ao)
				}
			}
			must(e2e.SerializeTo(buffer, options))
			scn.NextHdr = slayers.End2EndClass
		}
		if v.hbh {
			var hbh slayers.HopByHopExtn
			hbh.NextHdr = scn.NextHdr
			hbh.Options = []*slayers.HopByHopOption{{OptType: slayers.OptTypePadN, OptData: make([]byte, 2)}}
			must(hbh.SerializeTo(buffer, options))
			scn.NextHdr = slayers.HopByHopClass
		}
		must(scn.SerializeTo(buffer, options))
		d.wire = append([]byte(nil), buffer.Bytes()...)
		if v.auth != nil && v.auth.alterPayload && len(payload) > 2 {
			d.wire[len(d.wire)-len(payload)+2] ^= 0x04 // poll field, after the MAC was computed: unchecked by the NTP stage
		}
		if v.rawPathType != 0 {
			d.wire[8] = v.rawPathType
		}
		if v.rawNextHdr != 0 {
			d.wire[4] = v.rawNextHdr
		}
		if v.padTo > len(d.wire) {
			d.wire = append(d.wire, make([]byte, v.padTo-len(d.wire))...)
		}
		if v.udpLenDelta != 0 && !v.scmp {
			off := len(d.wire) - len(payload) - 8 + 4
			binary.BigEndian.PutUint16(d.wire[off:], uint16(int(binary.BigEndian.Uint16(d.wire[off:]))+v.udpLenDelta))
		}
		if v.truncate > 0 && v.truncate < len(d.wire) {
			d.wire = d.wire[:len(d.wire)-v.truncate]
		}
	}
	finishSCION(&d, v)
	return
}

// finishSCION derives, from the bytes of d.wire, the facts the model needs (with the client's own
// parser configuration) and the harness's own verdicts for the oracles. v: the variant the packet
// was built from (only its timestamp-option expectations are read).
func finishSCION(dp *dgram, v scionVariant) {
	d := *dp
	defer func() { *dp = d }()
	// facts, by the client's parser configuration
	p := parseSCION(d.wire)
	layers := ""
	for _, lt := range p.decoded {
		switch lt {
		case slayers.LayerTypeSCION:
			layers += "s"
		case slayers.LayerTypeHopByHopExtn:
			layers += "h"
		case slayers.LayerTypeEndToEndExtn:
			layers += "e"
		case slayers.LayerTypeSCIONUDP:
			layers += "u"
		case slayers.LayerTypeSCMP:
			layers += "m"
		default:
			layers += "s" // cannot happen with this parser configuration
		}
	}
	if !p.ok {
		d.facts = fmt.Sprintf("false:-:%d:0:0:0:0:0:-:-", len(d.wire))
		return
	}
	if layers == "" {
		layers = "-"
	}
	isUDP := len(p.decoded) >= 2 && p.decoded[len(p.decoded)-1] == slayers.LayerTypeSCIONUDP
	ts := "-"
	if len(p.decoded) >= 3 && p.decoded[len(p.decoded)-2] == slayers.LayerTypeEndToEndExtn && v.e2eTs != 0 {
		ts = fmt.Sprint(v.e2eTs)
		d.tsOpt = v.e2eTs
		d.tsUse = v.tsUse
		d.tsAuto = v.tsAuto
	}
	udpLen := 0
	if isUDP {
		udpLen = int(p.udp.Length)
		d.b = append([]byte(nil), p.udp.Payload...)
	}
	au := readRespAuth(&d, p, layers, udpLen)
	d.facts = fmt.Sprintf("true:%s:%d:%d:%d:%s:%d:%s:%s:%s", layers, len(d.wire), udpLen,
		uint64(p.scn.SrcIA), hostTok(p.scn.SrcAddrType, p.scn.RawSrcAddr), uint64(p.scn.DstIA),
		hostTok(p.scn.DstAddrType, p.scn.RawDstAddr), ts, au)
	// the property's conditions in front of the NTP stage, by the harness's own reading:
	// SCION/UDP structure; from the queried ISD-AS and host, addressed to the client
	d.structOK = isUDP && len(d.wire) >= udpLen
	d.addrOK = p.scn.SrcIA == remoteIA && hostIsIP(p.scn.SrcAddrType, p.scn.RawSrcAddr, scionServerHost()) &&
		p.scn.DstIA == localIA && hostIsIP(p.scn.DstAddrType, p.scn.RawDstAddr, localIP)
	d.pathOK = d.structOK && d.addrOK
	return
}

// firstReading: cTxTime0 of the running exchange (the clock's first reading since reset).
func firstReading() int64 {
	rd := clk.readings()
	if len(rd) == 0 {
		return wallNow().UnixNano()
	}
	return rd[0].UnixNano()
}

func genuineVariant() scionVariant {
	return scionVariant{srcIA: remoteIA, dstIA: localIA, srcIP: scionServerHost(), dstIP: localIP}
}

type scionMutant struct {
	name string
	v    scionVariant
	pay  func(g []byte) []byte // payload mutation (nil: genuine payload)
}

func scionMutants(r *lib.Rand, now int64) []scionMutant {
	g := genuineVariant()
	with := func(f func(v *scionVariant)) scionVariant { v := g; f(&v); return v }
	return []scionMutant{
		{"srcIA", with(func(v *scionVariant) { v.srcIA = otherIA }), nil},
		{"srcIA=local", with(func(v *scionVariant) { v.srcIA = localIA }), nil},
		{"srcHost", with(func(v *scionVariant) { v.srcIP = otherIP }), nil},
		{"dstIA", with(func(v *scionVariant) { v.dstIA = otherIA }), nil},
		{"dstHost", with(func(v *scionVariant) { v.dstIP = otherIP }), nil},
		{"src<->dst", with(func(v *scionVariant) { v.srcIA, v.dstIA = v.dstIA, v.srcIA }), nil},
		{"srcHost=v4mapped", with(func(v *scionVariant) { v.srcIP = netip.AddrFrom16(v.srcIP.As16()) }), nil},
		{"scmp", with(func(v *scionVariant) { v.scmp = true }), nil},
		{"e2e:padding", with(func(v *scionVariant) { v.e2eEmpty = true }), nil},
		{"e2e:timestamp", with(func(v *scionVariant) { v.e2eTs = wallNow().UnixNano(); v.tsUse = true }), nil},
		{"e2e:timestamp:1h-early", with(func(v *scionVariant) { v.e2eTs = now - 3600*nsps }), nil},
		{"e2e:timestamp:just-before-tx", with(func(v *scionVariant) { v.e2eTs = firstReading() - 1 }), nil},
		{"e2e:timestamp:late", with(func(v *scionVariant) { v.e2eTs = now + 2*nsps }), nil}, // 2 s: later than any receive time of the exchange, also on a loaded machine
		{"e2e:timestamp:100y-future", with(func(v *scionVariant) { v.e2eTs = now + 100*365*86400*nsps }), nil},
		{"e2e:timestamp:malformed-len63", with(func(v *scionVariant) { v.tsRaw = tsOptData(now)[:63] }), nil},
		{"e2e:timestamp:malformed-len20", with(func(v *scionVariant) { v.tsRaw = tsOptData(now)[:20] }), nil},
		{"e2e:timestamp:malformed-cmsglen", with(func(v *scionVariant) {
			v.tsRaw = tsOptData(now)
			binary.NativeEndian.PutUint64(v.tsRaw, 200)
		}), nil},
		{"e2e:timestamp:inconsistent-triple", with(func(v *scionVariant) {
			v.tsRaw = tsOptData(now)
			binary.NativeEndian.PutUint64(v.tsRaw[unix.CmsgSpace(32):], uint64(now/nsps))
		}), nil},
		{"udplen+1", with(func(v *scionVariant) { v.udpLenDelta = 1 }), nil},
		{"udplen+200", with(func(v *scionVariant) { v.udpLenDelta = 200 }), nil},
		{"truncate:1", with(func(v *scionVariant) { v.truncate = 1 }), nil},
		{"truncate:20", with(func(v *scionVariant) { v.truncate = 20 }), nil},
		{"truncate:60", with(func(v *scionVariant) { v.truncate = 60 }), nil},
		{"garbage", with(func(v *scionVariant) { v.garbage = r.Bytes(20 + r.Intn(100)) }), nil},
		{"garbage:empty", with(func(v *scionVariant) { v.garbage = []byte{} }), nil},
		{"payload:47", g, func(b []byte) []byte { return b[:47] }},
		{"payload:0", g, func(b []byte) []byte { return b[:0] }},
		{"payload:60", g, func(b []byte) []byte { return append(append([]byte(nil), b...), make([]byte, 12)...) }},
		{"payload:origin+1", g, func(b []byte) []byte { b = append([]byte(nil), b...); b[31] ^= 1; return b }},
		{"payload:li=3", g, func(b []byte) []byte { b = append([]byte(nil), b...); b[0] |= 0xc0; return b }},
		{"payload:mode=3", g, func(b []byte) []byte { b = append([]byte(nil), b...); b[0] = b[0]&^7 | 3; return b }},
		{"payload:version=2", g, func(b []byte) []byte { b = append([]byte(nil), b...); b[0] = b[0]&^0x38 | 2<<3; return b }},
		{"payload:stratum=0", g, func(b []byte) []byte { b = append([]byte(nil), b...); b[1] = 0; return b }},
		{"payload:stratum=16", g, func(b []byte) []byte { b = append([]byte(nil), b...); b[1] = 16; return b }},
		{"payload:tx<rx", g, func(b []byte) []byte {
			b = append([]byte(nil), b...)
			rx := be64(b[32:])
			put64(b[40:], ntp.Time64{Seconds: rx.Seconds - 1, Fraction: rx.Fraction})
			return b
		}},
	}
}

func scionExchanges(c *lib.Ctx, tag string, n int, mutantShare int) {
	if sandbox != "" {
		return
	}
	p := thePeer
	r := c.Rand.Fork(tag)
	lc := &scionLive{c: &client.SCIONClient{Log: logger}}
	c.Comment("history " + tag)
	nm := len(scionMutants(r, 0))
	mi := 0
	for i := 0; i < n; i++ {
		cfg := exchCfg{il: !r.Chance(10), deadline: 400 * time.Millisecond}
		if r.Chance(8) {
			cfg.filter = true
		}
		if r.Chance(4) {
			lc.c.ResetInterleavedMode()
		}
		// window boundary (SCION: strictly less than 3 s)
		if r.Chance(8) && cfg.il {
			pv := lc.getPrev()
			if pv.Reference == "" {
				pv = client.VerifC03Prev{Interleaved: true, CRxTime: enc64(time.Now().UnixNano() - 3*nsps + 50000),
					SRxTime: enc64(time.Now().UnixNano() - 3*nsps + 30000)}
			}
			pv.Reference = scionReference()
			pv.CTxTime = enc64(time.Now().UnixNano() - 3*nsps)
			if dec64(pv.CRxTime, time.Now().UnixNano()) < dec64(pv.CTxTime, time.Now().UnixNano()) {
				pv.CRxTime = enc64(time.Now().UnixNano() - 3*nsps + 50000)
			}
			cfg.setPrev = &pv
			dlt := r.Pick64([]int64{-2, -1, 0, 1, 2})
			cfg.setNow = func(prev client.VerifC03Prev) []time.Time {
				x := dec64(prev.CTxTime, time.Now().UnixNano())
				return []time.Time{time.Unix(0, x+3*nsps+dlt).UTC()}
			}
			c.Count(fmt.Sprintf("%s:window-boundary:%+d", tag, dlt))
		}
		useMutant := r.Chance(mutantShare)
		shape := r.Intn(3) // 0: [m, genuine]  1: [m]  2: [m, m', genuine]
		drop := !useMutant && r.Chance(6)
		if drop || useMutant && shape == 1 {
			cfg.deadline = 20 * time.Millisecond
		}
		theta := pickTheta(r)
		wantIL := r.Chance(65)
		fwd, back := r.Range(0, 300)*int64(r.Intn(2)), r.Range(0, 300)*int64(r.Intn(2))
		var names []string
		sc := func(ri *reqInfo) ([]dgram, int64, int64, bool) {
			usleep(fwd)
			ri.R = wallNow().UnixNano()
			S := wallNow().UnixNano()
			gpay, il := p.reply(*ri, theta, S, wantIL)
			mk := func(m scionMutant, k int) dgram {
				pay := gpay
				if m.pay != nil {
					pay = m.pay(gpay)
				}
				pay = tagRx(pay, k)
				return buildSCION(m.v, uint16(p.addr.Port()), lc.srcPort, pay)
			}
			g := buildSCION(genuineVariant(), uint16(p.addr.Port()), lc.srcPort, gpay)
			g.genuine = true
			var out []dgram
			switch {
			case drop:
				c.Count(tag + ":script:drop")
				return nil, theta, 0, false
			case !useMutant:
				out = []dgram{g}
				names = []string{"genuine"}
				if r.Chance(15) {
					out = append(out, g)
					names = append(names, "genuine")
				}
			default:
				ms := scionMutants(r, ri.R)
				m := ms[mi%nm]
				mi++
				switch shape {
				case 0:
					out = []dgram{mk(m, 1), g}
					names = []string{m.name, "genuine"}
				case 1:
					out = []dgram{mk(m, 1)}
					names = []string{m.name}
				default:
					m2 := ms[r.Intn(nm)]
					out = []dgram{mk(m, 1), mk(m2, 2), g}
					names = []string{m.name, m2.name, "genuine"}
				}
			}
			usleep(back)
			return out, theta, S, il
		}
		res := exchange(c, lc, cfg, sc)
		if !res.valid {
			continue
		}
		idx := recordIP(c, tag, cfg, res)
		if res.err == nil && res.panicked == "" {
			if idx >= 0 && idx < len(names) {
				c.Count(tag + ":accepted:" + names[idx])
			}
		} else if len(names) > 0 {
			c.Count(tag + ":rejected-first:" + names[0] + ":" + errKind(res.err) + res.panicked)
		}
	}
}

func genC03SCION(c *lib.Ctx) {
	scionExchanges(c, "c03scion", c.Scale(200, 4000), 12)
	c.NotExecuted("SCION client with a DRKey key available on the live socket (needs a daemon connector; modelled with the MAC verdict as input)")
}

func genC05SCION(c *lib.Ctx) {
	scionExchanges(c, "c05scion", c.Scale(250, 5000), 85)
	if sandbox != "" {
		return
	}
	// F13 for the SCION client
	c.Comment("F13: SCION local address without a valid IP")
	for _, ip := range []net.IP{nil, {1, 2, 3}} {
		lc := &scionLive{c: &client.SCIONClient{Log: logger}}
		ctx, cancel := context.WithTimeout(context.Background(), 20*time.Millisecond)
		clk.reset()
		la := udp.UDPAddr{IA: localIA, Host: &net.UDPAddr{IP: ip}}
		var path snet.Path = spath.Path{Src: localIA, Dst: remoteIA, DataplanePath: spath.Empty{},
			NextHop: net.UDPAddrFromAddrPort(thePeer.addr)}
		ts, off, err := client.VerifC03MeasureSCION(ctx, lc.c, la, scionRemote(), path)
		cancel()
		op := fmt.Sprintf("cli.badlocal tr=scion iplen=%d", len(ip))
		if err == nil {
			c.Emit(op, fmt.Sprintf("ok %d", int64(off)))
			c.Fail("C05:F13:success-without-datagram", "measureClockOffsetSCION with a local address that is no valid IP returns (zero, 0, nil)",
				[]string{op}, map[string]any{"iplen": len(ip), "ts_zero": ts.IsZero()})
		} else {
			c.Emit(op, "err addr")
		}
		c.Count("f13:scion")
	}
	_ = strings.Join
}
