package main

// genReframe: re-framed SCION/UDP datagrams. An on-path attacker (no keys) takes the server's
// authentic response `pre | H | P` (H: UDP header with length field 8+|P|) and sends
//
//	front:  pre' | H | F | H | P     F: |P| bytes beginning with an NTP header of the attacker's making
//	mirror: pre' | H | P | H | F     (the authentic part first)
//
// leaving the UDP length field untouched (pre' = pre with the SCION payload length fixed up; the
// client does not verify the UDP checksum). The bytes the UDP length field delimits from the START of
// the L4 data (what the layer decoder hands out as payload: the NTP header the client evaluates) and
// the LAST length-field-many bytes of the datagram are then different byte strings; an authenticator
// verified over the one says nothing about the other. With NTS and/or the SCION packet authenticator
// (DRKey host-host key available) the client must never take its measurement from F.
//
// Direct oracle (recordIP: `C05:scion:evaluated-header-not-authenticated`): every datagram that
// reproduces the client's result carries, by construction, an attacker-made header. The facts of
// the model (payload, NTS verdicts, MAC verdict) are those of the front window — what the UDP layer
// decodes — computed by the harness on the bytes it sends.

import (
	"encoding/binary"
	"fmt"
	"time"

	"example.com/scion-time/core/client"
	"example.com/scion-time/net/scion"

	"verifharness/lib"
)

// reframe builds the re-framed packet from the well-formed packet g (payload P = g.b): front = F
// in the window the length field delimits from the start, else P there and F behind.
func reframe(g dgram, F []byte, front bool, v scionVariant) dgram {
	P := g.b
	off := len(g.wire) - len(P) - 8
	pre, H := g.wire[:off], g.wire[off:off+8]
	w := append([]byte(nil), pre...)
	if front {
		w = append(append(append(append(w, H...), F...), H...), P...)
	} else {
		w = append(append(append(append(w, H...), P...), H...), F...)
	}
	// SCION common header: payload length at bytes 6..7
	binary.BigEndian.PutUint16(w[6:], uint16(int(binary.BigEndian.Uint16(w[6:]))+8+len(F)))
	d := dgram{src: srcServer, wire: w}
	finishSCION(&d, v)
	d.forgedHdr = front
	return d
}

func genReframe(c *lib.Ctx, tag string, spaoOnly bool) {
	if sandbox != "" {
		return
	}
	p := thePeer
	r := c.Rand.Fork(tag)
	lc := &scionLive{c: &client.SCIONClient{Log: logger}}
	c.Comment("history " + tag)
	type conf struct {
		name      string
		nts, spao bool
	}
	confs := []conf{{"nts", true, false}, {"spao", false, true}, {"nts+spao", true, true}, {"plain", false, false}}
	if spaoOnly {
		confs = []conf{{"spao", false, true}} // the client clause of C13 only
	}
	shapes := []string{"front", "front,genuine", "mirror", "genuine,front", "front,front", "mirror,genuine"}
	rounds := c.Scale(2, 12)
	for round := 0; round < rounds; round++ {
		for _, cf := range confs {
			for _, shape := range shapes {
				cfg := exchCfg{il: r.Chance(70), deadline: 300 * time.Millisecond, nts: cf.nts, spaoKey: cf.spao}
				if shape == "front" || shape == "front,front" {
					cfg.deadline = 40 * time.Millisecond
				}
				if r.Chance(25) {
					cfg.filter = true
				}
				theta := pickTheta(r)
				wantIL := r.Chance(50)
				var names []string
				sc := func(ri *reqInfo) ([]dgram, int64, int64, bool) {
					ri.R = wallNow().UnixNano()
					S := wallNow().UnixNano()
					h, il := p.reply(*ri, theta, S, wantIL)
					gv := genuineVariant()
					if cf.spao {
						gv.auth = &authSpec{spi: scion.PacketAuthSPIServer, alg: scion.PacketAuthAlgorithm, mac: "valid"}
					}
					verdicts := func(d *dgram) {
						if cf.nts && len(d.b) > 0 {
							d.ntsDec, d.ntsUID, d.ntsOpen = ntsVerdicts(d.b, ri.uid)
						}
					}
					mkG := func(k int) dgram {
						pay := tagRx(h, k)
						if cf.nts {
							pay = encodeNTS(pay, ntsS2C, ri.uid, 7)
						}
						d := buildSCION(gv, uint16(p.addr.Port()), lc.srcPort, pay)
						verdicts(&d)
						return d
					}
					// the attacker's header: echoes the request, server stamps 1000 s off, a receive stamp of its own
					forged := func(k int, P []byte) []byte {
						f := tagRx(h, k)
						rx, tx := be64(f[32:]), be64(f[40:])
						rx.Seconds += 1000
						tx.Seconds += 1000
						put64(f[32:], rx)
						put64(f[40:], tx)
						return append(f, P[48:]...) // behind the header: the authentic extension fields, byte for byte
					}
					var out []dgram
					n := 0
					for _, k := range splitComma(shape) {
						n++
						switch k {
						case "genuine":
							g := mkG(0)
							g.genuine = true
							out = append(out, g)
						case "front":
							g := mkG(10 + n)
							d := reframe(g, forged(n, g.b), true, gv)
							verdicts(&d)
							out = append(out, d)
						case "mirror":
							g := mkG(n)
							d := reframe(g, forged(10+n, g.b), false, gv)
							verdicts(&d)
							d.genuine = true // the header the length field delimits is the server's own, authenticated one
							out = append(out, d)
						}
						names = append(names, k)
					}
					return out, theta, S, il
				}
				theDaemon.take()
				res := exchange(c, lc, cfg, sc)
				theDaemon.take()
				if !res.valid {
					c.Count(tag + ":discarded")
					continue
				}
				c.Count(fmt.Sprintf("%s:%s:%s", tag, cf.name, shape))
				idx := recordIP(c, tag, cfg, res)
				if res.err == nil && res.panicked == "" {
					if idx >= 0 && idx < len(names) {
						c.Count(fmt.Sprintf("%s:%s:accepted:%s", tag, cf.name, names[idx]))
					}
				} else {
					c.Count(fmt.Sprintf("%s:%s:error:%s%s", tag, cf.name, errKind(res.err), res.panicked))
				}
			}
		}
	}
}

func splitComma(s string) []string {
	var out []string
	cur := ""
	for _, ch := range s {
		if ch == ',' {
			out = append(out, cur)
			cur = ""
		} else {
			cur += string(ch)
		}
	}
	return append(out, cur)
}
