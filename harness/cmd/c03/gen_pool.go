package main

// -prop c11: the cookie pool of the live NTS clients (property C11, client clauses).
//
// One op = one whole exchange of the real client code (measureClockOffsetIP /
// measureClockOffsetSCION through the verif hooks) against the scripted peer on loopback:
//
//	cl.exch tr=ip|scion pool=[cookies] c2s=K s2c=K hdr=H48 now=NS dl=MS rand=R48 d=[payloads] seal=… open=…
//	    -> ok req=<request payload> res=accept|reject pool=[cookies afterwards]
//
// The fetcher's pool is preloaded through the ntske hook (no key exchange takes place), the
// process clock's first reading (cTxTime0) is scripted to `now` and crypto/rand delivers `rand`
// (32 bytes unique identifier, 16 bytes nonce), so the request on the wire is a function of the op
// and the peer's datagrams `d` (NTP/NTS payloads, delivered in this order after the request was
// seen; SCION: wrapped into SCION/UDP packets from the queried host) can be fixed in advance.
// Unlike the cli.* ops of this harness the op is therefore re-executable: -replay runs the same
// live exchange again. The Lean model (NtsPool.exchange: request, then the receive loop with a
// fresh nts.Packet per datagram) answers the same op; seal=/open= carry the answers of the real
// AEAD library on exactly the inputs at hand, computed by the harness (not through the client).
//
// Within a generated history the client object and its fetcher persist: the pool the hook shows
// after one exchange is the `pool=` of the next op, and exec only (re)loads the fetcher when its
// pool differs from the op's (start of a history, replay).

import (
	"bytes"
	"context"
	"crypto/rand"
	"encoding/binary"
	"encoding/hex"
	"fmt"
	"net"
	"net/netip"
	"strings"
	"time"

	"github.com/miscreant/miscreant.go"

	"example.com/scion-time/core/client"
	"example.com/scion-time/core/timebase"
	"example.com/scion-time/net/ntp"
	"example.com/scion-time/net/nts"
	"example.com/scion-time/net/ntske"

	"verifharness/lib"
)

// ---------------------------------------------------------------- scripted crypto/rand

type scriptRand struct {
	b   []byte
	off int
}

func (s *scriptRand) Read(p []byte) (int, error) {
	for i := range p {
		if s.off < len(s.b) {
			p[i] = s.b[s.off]
		} else {
			p[i] = 0
		}
		s.off++
	}
	return len(p), nil
}

func withRand(b []byte, f func()) {
	saved := rand.Reader
	rand.Reader = &scriptRand{b: b}
	defer func() { rand.Reader = saved }()
	f()
}

// ---------------------------------------------------------------- op syntax

func hexList(l [][]byte) string {
	s := make([]string, len(l))
	for i, b := range l {
		s[i] = lib.Hex(b)
	}
	return "[" + strings.Join(s, ",") + "]"
}

func unhex(s string) []byte {
	if s == "-" {
		return []byte{}
	}
	b, err := hex.DecodeString(s)
	if err != nil {
		panic("bad-op")
	}
	return b
}

func unhexList(s string) [][]byte {
	if len(s) < 2 || s[0] != '[' || s[len(s)-1] != ']' {
		panic("bad-op")
	}
	s = s[1 : len(s)-1]
	if s == "" {
		return nil
	}
	var out [][]byte
	for _, x := range strings.Split(s, ",") {
		out = append(out, unhex(x))
	}
	return out
}

type exchOp struct {
	tr       string
	pool     [][]byte
	c2s, s2c []byte
	hdr      []byte
	now      int64
	dl       int
	rnd      []byte
	d        [][]byte
	zone     string // zone of the client's local address ("lo": no kernel timestamps; "" when absent)
}

func (o exchOp) String() string {
	s := fmt.Sprintf("cl.exch tr=%s pool=%s c2s=%s s2c=%s hdr=%s now=%d dl=%d rand=%s d=%s",
		o.tr, hexList(o.pool), lib.Hex(o.c2s), lib.Hex(o.s2c), lib.Hex(o.hdr), o.now, o.dl, lib.Hex(o.rnd), hexList(o.d))
	if o.zone != "" {
		s += " zone=" + o.zone
	}
	return s
}

func parseExchOp(t []string) (o exchOp, ok bool) {
	seen := map[string]bool{}
	for _, x := range t[1:] {
		k, v, found := strings.Cut(x, "=")
		if !found {
			return o, false
		}
		switch k {
		case "tr":
			o.tr = v
		case "pool":
			o.pool = unhexList(v)
		case "c2s":
			o.c2s = unhex(v)
		case "s2c":
			o.s2c = unhex(v)
		case "hdr":
			o.hdr = unhex(v)
		case "now":
			o.now = i64(v)
		case "dl":
			o.dl = int(i64(v))
		case "rand":
			o.rnd = unhex(v)
		case "d":
			o.d = unhexList(v)
		case "zone":
			if v != "lo" {
				return o, false
			}
			o.zone = v
			continue
		case "seal", "open":
			continue
		default:
			return o, false
		}
		seen[k] = true
	}
	for _, k := range []string{"tr", "pool", "c2s", "s2c", "hdr", "now", "dl", "rand", "d"} {
		if !seen[k] {
			return o, false
		}
	}
	return o, (o.tr == "ip" || o.tr == "scion") && o.dl > 0 && o.dl <= 60000
}

// ---------------------------------------------------------------- the live exchange

var (
	poolIP    *client.IPClient
	poolSCION *scionLive
)

// ensurePeer: -replay does not go through gen/setup.
func ensurePeer() bool {
	if thePeer != nil {
		return true
	}
	if sandbox != "" {
		return false
	}
	timebase.RegisterClock(clk)
	p := &peer{theta: map[ntp.Time64]int64{}, store: map[ntp.Time64]int64{}}
	for i, a := range []string{"127.0.0.1:0", "127.0.0.1:0", "127.0.0.2:0"} {
		pc, err := net.ListenUDP("udp4", net.UDPAddrFromAddrPort(netip.MustParseAddrPort(a)))
		if err != nil {
			sandbox = "loopback UDP sockets unavailable: " + err.Error()
			return false
		}
		p.conns[i] = pc
	}
	p.addr = p.conns[0].LocalAddr().(*net.UDPAddr).AddrPort()
	thePeer = p
	return true
}

func sameList(a, b [][]byte) bool {
	if len(a) != len(b) {
		return false
	}
	for i := range a {
		if !bytes.Equal(a[i], b[i]) {
			return false
		}
	}
	return true
}

func copyList(l [][]byte) [][]byte {
	out := make([][]byte, len(l))
	for i, b := range l {
		out[i] = append([]byte(nil), b...)
	}
	return out
}

func poolFetcher(tr string) *ntske.Fetcher {
	if tr == "scion" {
		if poolSCION == nil {
			poolSCION = &scionLive{c: &client.SCIONClient{Log: logger}}
		}
		poolSCION.c.InterleavedMode = false
		poolSCION.c.Auth.NTSEnabled = true
		poolSCION.c.Auth.Enabled = false
		poolSCION.c.Filter = nil
		return &poolSCION.c.Auth.NTSKEFetcher
	}
	if poolIP == nil {
		poolIP = &client.IPClient{Log: logger}
	}
	poolIP.InterleavedMode = false
	poolIP.Auth.Enabled = true
	poolIP.Filter = nil
	return &poolIP.Auth.NTSKEFetcher
}

// aeadEntry asks the real library (directly, not through the code under test).
func aeadSeal(key, nonce, pt, ad []byte) string {
	a, err := miscreant.NewAEAD("AES-CMAC-SIV", key, 16)
	if err != nil || len(nonce) != 16 {
		return ""
	}
	ct := a.Seal(nil, nonce, pt, ad)
	return fmt.Sprintf("seal=%s/%s/%s/%s/%s", lib.Hex(key), lib.Hex(nonce), lib.Hex(pt), lib.Hex(ad), lib.Hex(ct))
}

func aeadOpen(key, nonce, ct, ad []byte) string {
	a, err := miscreant.NewAEAD("AES-CMAC-SIV", key, 16)
	if err != nil || len(nonce) != 16 {
		return ""
	}
	res := "fail"
	if pt, err := a.Open(nil, nonce, ct, ad); err == nil {
		res = lib.Hex(pt)
	}
	return fmt.Sprintf("open=%s/%s/%s/%s/%s", lib.Hex(key), lib.Hex(nonce), lib.Hex(ct), lib.Hex(ad), res)
}

// decodeFresh: nts.DecodePacket into a packet of its own.
func decodeFresh(b []byte) (pkt nts.Packet, ok bool) {
	if len(b) < 48 {
		return
	}
	func() {
		defer func() { recover() }()
		ok = nts.DecodePacket(&pkt, b) == nil
	}()
	return
}

type exchRun struct {
	ans     string
	entries []string
	req     []byte
	accept  bool
	errKind string
	pool    [][]byte
	ran     bool // the exchange took place (a request was seen and the client returned)
	elapsed time.Duration
}

// runExch executes one cl.exch op against the real client.
func runExch(o exchOp) (res exchRun) {
	if len(o.pool) == 0 {
		res.ans = "err no-cookies" // the real client would run a key exchange here (C20)
		return
	}
	if !ensurePeer() {
		res.ans = "live-unavailable"
		return
	}
	p := thePeer
	f := poolFetcher(o.tr)
	cur := f.VerifC20Data()
	if !sameList(cur.Cookie, o.pool) || !bytes.Equal(cur.C2sKey, o.c2s) || !bytes.Equal(cur.S2cKey, o.s2c) {
		f.VerifC11SetData(ntske.Data{C2sKey: append([]byte(nil), o.c2s...), S2cKey: append([]byte(nil), o.s2c...),
			Server: "127.0.0.1", Port: p.addr.Port(), Algo: ntske.AES_SIV_CMAC_256, Cookie: copyList(o.pool)})
	}
	// drain stale requests
	p.conns[0].SetReadDeadline(time.Now().Add(time.Millisecond))
	for {
		if _, _, err := p.conns[0].ReadFromUDPAddrPort(make([]byte, 2048)); err != nil {
			break
		}
	}
	clk.reset(time.Unix(0, o.now).UTC())
	saved := rand.Reader
	rand.Reader = &scriptRand{b: o.rnd}
	defer func() { rand.Reader = saved }()

	t0 := time.Now()
	ctx, cancel := context.WithDeadline(context.Background(), t0.Add(time.Duration(o.dl)*time.Millisecond))
	defer cancel()
	liveZone = o.zone
	defer func() { liveZone = "" }()
	var done chan callRes
	if o.tr == "scion" {
		done = callClient(func() (time.Time, time.Duration, error) { return poolSCION.measure(ctx) })
	} else {
		done = callClient(func() (time.Time, time.Duration, error) { return ipLive{poolIP}.measure(ctx) })
	}
	buf := make([]byte, 2048)
	p.conns[0].SetReadDeadline(time.Now().Add(2*time.Second + time.Duration(o.dl)*time.Millisecond))
	n, from, err := p.conns[0].ReadFromUDPAddrPort(buf)
	if err != nil {
		r := <-done
		res.ans = "no-request " + errKind(r.err) + r.panic
		return
	}
	var ri reqInfo
	if o.tr == "scion" {
		ri = poolSCION.parse(buf[:n])
	} else {
		ri = parseReq(buf[:n])
	}
	res.req = ri.raw
	for _, d := range o.d {
		if o.tr == "scion" {
			w := buildSCION(genuineVariant(), uint16(p.addr.Port()), poolSCION.srcPort, d)
			p.conns[0].WriteToUDPAddrPort(w.wire, from)
		} else {
			p.conns[0].WriteToUDPAddrPort(d, from)
		}
	}
	var r callRes
	select {
	case r = <-done:
	case <-time.After(10*time.Second + time.Duration(o.dl)*time.Millisecond):
		res.ans = "blocked"
		return
	}
	res.elapsed = time.Since(t0)
	res.ran = true
	res.pool = copyList(f.VerifC11Cookies())
	res.accept = r.err == nil && r.panic == ""
	res.errKind = errKind(r.err)
	// AEAD answers for the model: the request's tag, and Open on every datagram that decodes
	if pkt, ok := decodeFresh(res.req); ok {
		if e := aeadSeal(o.c2s, pkt.Auth.Nonce, []byte{}, res.req[:pkt.Auth.VerifC10Pos()]); e != "" {
			res.entries = append(res.entries, e)
		}
	}
	for _, d := range o.d {
		if pkt, ok := decodeFresh(d); ok && pkt.Auth.VerifC10Pos() <= len(d) {
			if e := aeadOpen(o.s2c, pkt.Auth.Nonce, pkt.Auth.CipherText, d[:pkt.Auth.VerifC10Pos()]); e != "" {
				res.entries = append(res.entries, e)
			}
		}
	}
	switch {
	case r.panic != "":
		res.ans = "panic " + r.panic
	case res.accept:
		res.ans = fmt.Sprintf("ok req=%s res=accept pool=%s", lib.Hex(res.req), hexList(res.pool))
	default:
		res.ans = fmt.Sprintf("ok req=%s res=reject pool=%s", lib.Hex(res.req), hexList(res.pool))
	}
	return
}

func execExch(t []string) string {
	o, ok := parseExchOp(t)
	if !ok {
		return "bad-op"
	}
	return runExch(o).ans
}

// ---------------------------------------------------------------- the peer's own encoder
// (nothing of net/nts: extension fields written by hand, AEAD by the library)

const (
	xUID    = 0x0104
	xCookie = 0x0204
	xPH     = 0x0304
	xAuth   = 0x0404
)

func pad4(n int) int { return (n + 3) &^ 3 }

func rawField(typ int, value []byte) []byte {
	b := make([]byte, 4+pad4(len(value)))
	binary.BigEndian.PutUint16(b, uint16(typ))
	binary.BigEndian.PutUint16(b[2:], uint16(len(b)))
	copy(b[4:], value)
	return b
}

func authField(key, nonce, pt, ad []byte) []byte {
	a, err := miscreant.NewAEAD("AES-CMAC-SIV", key, 16)
	if err != nil {
		panic(err)
	}
	ct := a.Seal(nil, nonce, pt, ad)
	v := make([]byte, 4, 4+len(nonce)+pad4(len(ct)))
	binary.BigEndian.PutUint16(v, uint16(len(nonce)))
	binary.BigEndian.PutUint16(v[2:], uint16(len(ct)))
	v = append(v, nonce...)
	v = append(v, ct...)
	return rawField(xAuth, v)
}

func cookieFields(cs [][]byte) []byte {
	var b []byte
	for _, c := range cs {
		b = append(b, rawField(xCookie, c)...)
	}
	return b
}

// serverHdr: a conformant server header answering a basic request transmitted at `now`.
func serverHdr(now, theta int64) []byte {
	b := make([]byte, 48)
	b[0] = 0<<6 | 4<<3 | 4
	b[1] = 1
	b[2] = 6
	b[3] = 0xe7
	copy(b[12:16], "VRFY")
	put64(b[16:], enc64(now+theta-1000000))
	put64(b[24:], enc64(now))
	put64(b[32:], enc64(now+theta+20000))
	put64(b[40:], enc64(now+theta+50000))
	return b
}

// clientHdr: the header of a basic (non-interleaved) request with cTxTime0 = now.
func clientHdr(now int64) []byte {
	b := make([]byte, 48)
	b[0] = 0<<6 | 4<<3 | 3
	put64(b[40:], enc64(now))
	return b
}

// genuineReply: what an honest server sends: unique identifier echoed, the cookies inside the
// authenticator's ciphertext (clear: cookie fields in front of the authenticator, covered by the
// tag as associated data — still authenticated).
func genuineReply(hdr, uid, s2c, nonce []byte, encrypted, clear [][]byte) []byte {
	b := append([]byte(nil), hdr...)
	b = append(b, rawField(xUID, uid)...)
	b = append(b, cookieFields(clear)...)
	return append(b, authField(s2c, nonce, cookieFields(encrypted), b)...)
}

// ---------------------------------------------------------------- generator

type junkKind struct {
	name  string
	build func(r *lib.Rand, x *junkCtx, cs [][]byte) []byte
}

type junkCtx struct {
	hdr      []byte // a server header echoing the request (the junk passes the NTP stage's size check; origin is right)
	uid      []byte
	c2s, s2c []byte
	req      []byte // the request as the client will send it (predicted with the peer's own encoder)
	stale    []byte // the genuine reply of an earlier exchange (nil: none)
}

func junkKinds() []junkKind {
	return []junkKind{
		{"cookies-only", func(r *lib.Rand, x *junkCtx, cs [][]byte) []byte {
			return append(append([]byte(nil), x.hdr...), cookieFields(cs)...)
		}},
		{"truncated-after-cookies", func(r *lib.Rand, x *junkCtx, cs [][]byte) []byte {
			b := append(append([]byte(nil), x.hdr...), rawField(xUID, x.uid)...)
			return append(b, cookieFields(cs)...)
		}},
		{"cookies-then-uid", func(r *lib.Rand, x *junkCtx, cs [][]byte) []byte {
			b := append(append([]byte(nil), x.hdr...), cookieFields(cs)...)
			return append(b, rawField(xUID, x.uid)...)
		}},
		{"other-uid", func(r *lib.Rand, x *junkCtx, cs [][]byte) []byte {
			u := r.Bytes(32)
			if r.Bool() {
				u = flip(x.uid, r.Intn(32))
			}
			b := append(append([]byte(nil), x.hdr...), rawField(xUID, u)...)
			b = append(b, cookieFields(cs)...)
			return append(b, authField(x.s2c, r.Bytes(16), cookieFields([][]byte{r.Bytes(124)}), b)...)
		}},
		{"wrong-key", func(r *lib.Rand, x *junkCtx, cs [][]byte) []byte {
			key := r.Bytes(32)
			if r.Bool() {
				key = x.c2s
			}
			b := append(append([]byte(nil), x.hdr...), rawField(xUID, x.uid)...)
			b = append(b, cookieFields(cs)...)
			return append(b, authField(key, r.Bytes(16), cookieFields([][]byte{r.Bytes(124)}), b)...)
		}},
		{"bad-tag", func(r *lib.Rand, x *junkCtx, cs [][]byte) []byte {
			b := append(append([]byte(nil), x.hdr...), rawField(xUID, x.uid)...)
			b = append(b, cookieFields(cs)...)
			b = append(b, authField(x.s2c, r.Bytes(16), cookieFields([][]byte{r.Bytes(124)}), b)...)
			return flip(b, len(b)-1-r.Intn(16+128))
		}},
		{"tampered-clear-cookie", func(r *lib.Rand, x *junkCtx, cs [][]byte) []byte {
			// authentic when sent; one byte of a cleartext cookie changed on the way
			b := append(append([]byte(nil), x.hdr...), rawField(xUID, x.uid)...)
			at := len(b) + 4
			b = append(b, cookieFields(cs)...)
			b = append(b, authField(x.s2c, r.Bytes(16), nil, b)...)
			return flip(b, at+r.Intn(len(cs[0])))
		}},
		{"bad-ext-length", func(r *lib.Rand, x *junkCtx, cs [][]byte) []byte {
			b := append(append([]byte(nil), x.hdr...), rawField(xUID, x.uid)...)
			b = append(b, cookieFields(cs)...)
			f := rawField(0x0999, r.Bytes(40))
			binary.BigEndian.PutUint16(f[2:], uint16([]int{0, 3, 48, 2000}[r.Intn(4)]))
			return append(b, f...)
		}},
		{"request-echo", func(r *lib.Rand, x *junkCtx, cs [][]byte) []byte {
			return append([]byte(nil), x.req...) // carries the cookie just sent, in the clear
		}},
		{"request-fields-under-s2c-other-uid", func(r *lib.Rand, x *junkCtx, cs [][]byte) []byte {
			b := append(append([]byte(nil), x.hdr...), rawField(xUID, r.Bytes(32))...)
			b = append(b, cookieFields(cs)...)
			b = append(b, rawField(xPH, make([]byte, len(cs[0])))...)
			return append(b, authField(x.s2c, r.Bytes(16), nil, b)...)
		}},
		{"stale-reply", func(r *lib.Rand, x *junkCtx, cs [][]byte) []byte {
			if x.stale == nil {
				return append(append([]byte(nil), x.hdr...), cookieFields(cs)...)
			}
			return append([]byte(nil), x.stale...)
		}},
	}
}

// clearCookies: the values of the cookie extension fields a payload carries in the clear, by the
// harness's own walk over the extension fields (stops at the first field that does not fit).
func clearCookies(b []byte) (cs [][]byte) {
	for pos := 48; pos+4 <= len(b); {
		typ := int(binary.BigEndian.Uint16(b[pos:]))
		l := int(binary.BigEndian.Uint16(b[pos+2:]))
		if l < 4 || pos+l > len(b) {
			break
		}
		if typ == xCookie {
			cs = append(cs, append([]byte(nil), b[pos+4:pos+l]...))
		}
		if typ == xAuth {
			break
		}
		pos += l
	}
	return
}

func fitFields(uidLen, cookieLen int) int {
	n := 1024 - 48 - (4 + pad4(uidLen)) - 40
	if n < 0 {
		return 0
	}
	return n / (4 + pad4(cookieLen))
}

type poolHist struct {
	tag      string
	tr       string
	c2s, s2c []byte
	pool     [][]byte          // what the hook showed after the last exchange
	issued   map[string]string // cookie bytes -> where they were issued under authentication
	sent     map[string]int    // cookie bytes -> exchange number of the request that carried them
	bogus    map[string]string // cookie bytes the peer put into datagrams that do not authenticate
	stale    []byte
	nEx      int
	zone     string // zone of the client's local address for the exchanges of this history
}

func (h *poolHist) init(c *lib.Ctx, r *lib.Rand, level, cookieLen int) {
	h.c2s, h.s2c = r.Bytes(32), r.Bytes(32)
	h.pool = nil
	h.issued, h.sent, h.bogus = map[string]string{}, map[string]int{}, map[string]string{}
	h.stale = nil
	h.nEx = 0
	for i := 0; i < level; i++ {
		ck := r.Bytes(cookieLen)
		h.pool = append(h.pool, ck)
		h.issued[string(ck)] = "key exchange"
	}
	c.Comment(fmt.Sprintf("history %s level=%d cookie=%d", h.tag, level, cookieLen))
	c.Count(h.tag + ":history")
}

// poolScript: one exchange. kinds: indices into junkKinds (-1: the genuine reply) in delivery order.
type poolScript struct {
	kinds   []int
	k       int  // cookie fields per junk datagram
	content int  // 0 random bogus, 1 one bogus cookie repeated, 2 copies of pool entries, 3 the cookie being sent, 4 mixed
	clear   bool // genuine reply also carries a cleartext cookie field (authenticated as associated data)
	fewer   int  // genuine reply carries this many cookies fewer than asked for, at least one
}

// built: one scripted exchange, with what the property expects of it (harness's own reckoning).
type built struct {
	op          exchOp
	names       []string
	acceptAt    int               // index of the datagram the exchange must be completed with (-1: none)
	authCookies [][]byte          // cookies of the genuine reply, in the order they are stored
	junkCookies map[string]string // cookie bytes in datagrams that do not authenticate -> kind
	wantReq     []byte
	genuine     []byte
}

func (h *poolHist) build(c *lib.Ctx, r *lib.Rand, s poolScript) (b built, ok bool) {
	kinds := junkKinds()
	level := len(h.pool)
	head := h.pool[0]
	cookieLen := len(head)
	now := wallNow().UnixNano()
	rnd := r.Bytes(48)
	uid, reqNonce := rnd[:32], rnd[32:48]
	// the request as the property describes it: the pool's first cookie, one placeholder per
	// missing cookie as far as request and response fit (own arithmetic, own encoder)
	fit := fitFields(32, cookieLen)
	nph := 8 - level
	if nph > fit-1 {
		nph = fit - 1
	}
	if nph < 0 {
		nph = 0
	}
	hdr := clientHdr(now)
	wantReq := append(append([]byte(nil), hdr...), rawField(xUID, uid)...)
	wantReq = append(wantReq, rawField(xCookie, head)...)
	for i := 0; i < nph; i++ {
		wantReq = append(wantReq, rawField(xPH, make([]byte, cookieLen))...)
	}
	wantReq = append(wantReq, authField(h.c2s, reqNonce, nil, wantReq)...)
	b.wantReq = wantReq

	x := &junkCtx{hdr: serverHdr(now, pickTheta(r)), uid: uid, c2s: h.c2s, s2c: h.s2c, req: wantReq, stale: h.stale}
	// the genuine reply: one fresh cookie per cookie/placeholder of the request
	nfresh := 1 + nph - s.fewer
	if nfresh < 1 {
		nfresh = 1
	}
	var fresh, clear [][]byte
	for i := 0; i < nfresh; i++ {
		fresh = append(fresh, r.Bytes(cookieLen))
	}
	if s.clear && nfresh >= 2 {
		clear, fresh = fresh[:1], fresh[1:]
	}
	b.genuine = genuineReply(serverHdr(now, pickTheta(r)), uid, h.s2c, r.Bytes(16), fresh, clear)
	b.authCookies = append(append([][]byte(nil), clear...), fresh...) // order in which ProcessResponse stores them

	var d [][]byte
	b.acceptAt = -1
	b.junkCookies = map[string]string{}
	for i, ki := range s.kinds {
		if ki < 0 {
			d = append(d, b.genuine)
			b.names = append(b.names, "genuine")
			if b.acceptAt < 0 && i <= 1 { // maxNumRetries = 1: the loop looks at two datagrams at most
				b.acceptAt = i
			}
			continue
		}
		var cs [][]byte
		one := r.Bytes(cookieLen)
		for j := 0; j < s.k; j++ {
			switch ct := s.content; {
			case ct == 1:
				cs = append(cs, one)
			case ct == 2 || ct == 4 && j%3 == 1:
				cs = append(cs, h.pool[r.Intn(len(h.pool))])
			case ct == 3 || ct == 4 && j%3 == 2:
				cs = append(cs, head)
			default:
				cs = append(cs, r.Bytes(cookieLen))
			}
		}
		pay := kinds[ki].build(r, x, cs)
		for len(pay) > 1024 && len(cs) > 1 { // keep inside the client's buffer (no MSG_TRUNC path here)
			cs = cs[:len(cs)-1]
			pay = kinds[ki].build(r, x, cs)
		}
		if len(pay) > 1024 {
			return b, false
		}
		for _, ck := range clearCookies(pay) {
			b.junkCookies[string(ck)] = kinds[ki].name
		}
		d = append(d, pay)
		b.names = append(b.names, fmt.Sprintf("%s/%d", kinds[ki].name, len(cs)))
	}
	// scaffolding self-check with the real libraries: only the genuine reply authenticates
	for i, pay := range d {
		dec, u, op := verdictsUnder(pay, uid, h.s2c)
		if (dec && u && op) != (s.kinds[i] < 0) {
			c.Count(h.tag + ":harness-script-verdict-unexpected:" + b.names[i])
			return b, false // not an observation about the client: skip this script
		}
	}
	dl := 25
	if b.acceptAt >= 0 {
		dl = 4000 // the call returns as soon as the reply is accepted; generous for a loaded machine
	}
	b.op = exchOp{tr: h.tr, pool: h.pool, c2s: h.c2s, s2c: h.s2c, hdr: hdr, now: now, dl: dl, rnd: rnd, d: d, zone: h.zone}
	return b, true
}

// exchange runs one scripted exchange and judges it. false: the history cannot go on.
func (h *poolHist) exchange(c *lib.Ctx, r *lib.Rand, s poolScript) bool {
	if len(h.pool) == 0 {
		return false
	}
	for attempt := 0; ; attempt++ {
		b, ok := h.build(c, r, s)
		if !ok {
			return true
		}
		res := runExch(b.op)
		if !res.ran {
			c.Count(h.tag + ":discarded:" + strings.Fields(res.ans)[0])
			return false
		}
		if attempt == 0 && b.acceptAt >= 0 && !res.accept && res.errKind == "read" {
			// the deadline passed before the client got to the reply (machine under load): the same
			// script once more, in isolation (the op reloads the pool)
			c.Count(h.tag + ":retried:timing")
			time.Sleep(100 * time.Millisecond)
			continue
		}
		h.judge(c, b, res)
		return true
	}
}

func verdictsUnder(b, reqUID, s2c []byte) (dec, uid, open bool) {
	pkt, ok := decodeFresh(b)
	if !ok {
		return
	}
	dec = true
	uid = bytes.Equal(pkt.UniqueID.ID, reqUID)
	a, err := miscreant.NewAEAD("AES-CMAC-SIV", s2c, 16)
	if err != nil || len(pkt.Auth.Nonce) != 16 || pkt.Auth.VerifC10Pos() > len(b) {
		return
	}
	_, err = a.Open(nil, pkt.Auth.Nonce, pkt.Auth.CipherText, b[:pkt.Auth.VerifC10Pos()])
	open = err == nil
	return
}

func short(b []byte) string {
	if len(b) > 8 {
		return lib.Hex(b[:8]) + "…"
	}
	return lib.Hex(b)
}

// judge: the direct oracle — the client clauses of C11 on what the real client sent and on the
// pool the hook shows afterwards, against the harness's own bookkeeping of what was issued under
// authentication. Independent of the model.
func (h *poolHist) judge(c *lib.Ctx, b built, res exchRun) {
	h.nEx++
	line := b.op.String()
	if len(res.entries) > 0 {
		line += " " + strings.Join(res.entries, " ")
	}
	c.Emit(line, res.ans)
	ops := []string{line}
	head := h.pool[0]
	detail := func(m map[string]any) map[string]any {
		m["exchange"] = h.nEx
		m["transport"] = h.tr
		m["delivered"] = b.names
		m["level_before"] = len(h.pool)
		m["level_after"] = len(res.pool)
		return m
	}
	for _, n := range b.names {
		c.Count(h.tag + ":dgram:" + strings.Split(n, "/")[0])
	}
	c.Count(fmt.Sprintf("%s:level-before:%d", h.tag, len(h.pool)))

	// --- the request
	if !bytes.Equal(res.req, b.wantReq) {
		what := "the request on the wire is not: header, unique identifier, the pool's first cookie, one zero placeholder of its length per missing cookie (as far as request and reply fit 1024 bytes), authenticator under C2S"
		var got [][]byte
		nph := -1
		if pkt, ok := decodeFresh(res.req); ok {
			for _, ck := range pkt.Cookies {
				got = append(got, ck.Cookie)
			}
			nph = len(pkt.CookiePlaceholders)
		}
		sig := "C11:request:shape"
		d := detail(map[string]any{"len": len(res.req), "want_len": len(b.wantReq), "placeholders": nph, "cookies": len(got), "pool_head": short(head)})
		if len(got) >= 1 && !bytes.Equal(got[0], head) {
			sig = "C11:request:not-the-pools-first-cookie"
			d["cookie"] = short(got[0])
			if k, ok := h.bogus[string(got[0])]; ok {
				sig = "C11:request:cookie-from-unauthenticated-datagram"
				d["from"] = k
			}
		}
		c.Fail(sig, what, ops, d)
	}
	if pkt, ok := decodeFresh(res.req); ok {
		for _, ck := range pkt.Cookies {
			if n, dup := h.sent[string(ck.Cookie)]; dup {
				c.Fail("C11:single-use:cookie-sent-twice", "the request carries a cookie an earlier request of this history already carried",
					ops, detail(map[string]any{"cookie": short(ck.Cookie), "first_sent_in_exchange": n}))
			}
			if _, ok := h.issued[string(ck.Cookie)]; !ok {
				c.Fail("C11:request:cookie-never-issued", "the request carries a cookie that neither the key exchange nor an authenticated reply supplied",
					ops, detail(map[string]any{"cookie": short(ck.Cookie), "seen_in_unauthenticated": h.bogus[string(ck.Cookie)]}))
			}
			h.sent[string(ck.Cookie)] = h.nEx
		}
	}
	h.sent[string(head)] = h.nEx

	// --- the outcome
	if res.accept != (b.acceptAt >= 0) {
		if res.accept {
			c.Fail("C11:exchange:completed-without-authenticated-reply", "the NTS client completed the exchange although no delivered datagram carries the request's unique identifier and opens under S2C",
				ops, detail(map[string]any{}))
		} else {
			c.Fail("C11:exchange:authenticated-reply-refused", "the genuine reply was among the datagrams the receive loop looks at, yet the exchange failed",
				ops, detail(map[string]any{"error": res.errKind, "elapsed_ms": res.elapsed.Milliseconds()}))
		}
	}

	// --- the pool afterwards
	exp := append([][]byte(nil), h.pool[1:]...)
	if b.acceptAt >= 0 {
		exp = append(exp, b.authCookies...)
		for _, ck := range b.authCookies {
			h.issued[string(ck)] = fmt.Sprintf("reply of exchange %d", h.nEx)
		}
	}
	for k, v := range b.junkCookies {
		if _, ok := h.issued[k]; !ok {
			h.bogus[k] = v
		}
	}
	// judged on what this exchange did to the pool: the cookies carried over must be untouched and
	// in place, what was appended must be exactly the cookies of the authenticated reply
	carried := h.pool[1:]
	var want [][]byte
	if b.acceptAt >= 0 {
		want = b.authCookies
	}
	failed := false
	fail := func(sig, what string, d map[string]any) {
		if !failed {
			d["expected_level"] = len(exp)
			c.Fail(sig, what, ops, detail(d))
		}
		failed = true
	}
	origin := func(ck []byte) string {
		if k, ok := b.junkCookies[string(ck)]; ok {
			return "datagram of this exchange that does not authenticate: " + k
		}
		if k, ok := h.bogus[string(ck)]; ok {
			return "datagram of an earlier exchange that did not authenticate: " + k
		}
		if k, ok := h.issued[string(ck)]; ok {
			return k
		}
		return "unknown"
	}
	if len(res.pool) < len(carried) || !sameList(res.pool[:len(carried)], carried) {
		fail("C11:pool:after-exchange", "the cookies that were in the pool behind the one sent are not all still there, in order", map[string]any{})
	} else {
		added := res.pool[len(carried):]
		wantSet := map[string]bool{}
		for _, ck := range want {
			wantSet[string(ck)] = true
		}
		inCarried := map[string]bool{}
		for _, ck := range carried {
			inCarried[string(ck)] = true
		}
		seen := map[string]bool{}
		for i, ck := range added {
			k := string(ck)
			_, wasSent := h.sent[k]
			_, isIssued := h.issued[k]
			switch {
			case wasSent:
				fail("C11:single-use:sent-cookie-back-in-pool", "the exchange put a cookie into the pool that a request already carried",
					map[string]any{"index": len(carried) + i, "cookie": short(ck), "sent_in_exchange": h.sent[k], "came_from": origin(ck)})
			case !isIssued:
				fail("C11:pool:unauthenticated-cookie", "the exchange put a cookie into the pool that no authenticated reply (and not the key exchange) supplied",
					map[string]any{"index": len(carried) + i, "cookie": short(ck), "came_from": origin(ck)})
			case inCarried[k] || seen[k]:
				fail("C11:pool:duplicate", "the exchange put a cookie into the pool that the pool already holds",
					map[string]any{"index": len(carried) + i, "cookie": short(ck), "came_from": origin(ck)})
			case !wantSet[k]:
				fail("C11:pool:after-exchange", "the exchange put a cookie into the pool that is not one of the authenticated reply's",
					map[string]any{"index": len(carried) + i, "cookie": short(ck), "came_from": origin(ck)})
			}
			seen[k] = true
		}
		if len(res.pool) > 8 && len(h.pool) <= 8 {
			fail("C11:pool:exceeds-eight", "the exchange took the pool beyond eight cookies", map[string]any{"stored": len(added), "reply_cookies": len(want)})
		}
		if !sameList(added, want) {
			fail("C11:pool:after-exchange", "the pool after the exchange is not: the previous pool without its first cookie, followed by the cookies of the one authenticated reply in order (nothing when none was accepted)",
				map[string]any{"stored": len(added), "reply_cookies": len(want)})
		}
	}
	if res.accept {
		c.Count(h.tag + ":exch:accept")
		h.stale = b.genuine
	} else {
		c.Count(h.tag + ":exch:reject")
	}
	c.Count(h.tag + ":oracle:pool")
	h.pool = res.pool // what the client really holds goes into the next exchange
}

func pickScript(r *lib.Rand, level int) poolScript {
	nk := len(junkKinds())
	j := func() int { return r.Intn(nk) }
	var s poolScript
	switch x := r.Intn(100); {
	case x < 50:
		s.kinds = []int{j(), -1}
	case x < 62:
		s.kinds = []int{-1}
	case x < 70:
		s.kinds = []int{j()}
	case x < 75:
		s.kinds = nil // reply lost
	case x < 82:
		s.kinds = []int{j(), j(), -1} // retries used up before the reply
	case x < 88:
		s.kinds = []int{-1, j()}
	case x < 94:
		s.kinds = []int{j(), -1, -1}
	default:
		s.kinds = []int{j(), j()}
	}
	if level <= 1 { // never drain to zero: an empty pool means a key exchange (C20), not scripted here
		s.kinds = [][]int{{j(), -1}, {-1}}[r.Intn(2)]
	}
	s.k = []int{1, 1, 2, 2, 3, 7, 1 + r.Intn(7)}[r.Intn(7)]
	s.content = r.Intn(5)
	s.clear = r.Chance(10)
	if r.Chance(12) {
		s.fewer = 1 + r.Intn(3)
	}
	return s
}

func genPool(c *lib.Ctx, tag string, scionTr bool) {
	if sandbox != "" {
		return
	}
	r := c.Rand.Fork(tag)
	h := &poolHist{tag: tag, tr: "ip"}
	if scionTr {
		h.tr = "scion"
	}
	nk := len(junkKinds())
	clean := poolScript{kinds: []int{-1}}
	// every kind of junk in front of the genuine reply, on a full pool, then long enough without
	// disturbance for anything that entered the pool to reach its head
	for ki := 0; ki < nk; ki++ {
		h.init(c, r, 8, 124)
		ok := h.exchange(c, r, clean)
		ok = ok && h.exchange(c, r, poolScript{kinds: []int{ki, -1}, k: 2, content: 1})
		for i := 0; ok && i < 10; i++ {
			ok = h.exchange(c, r, clean)
		}
	}
	// every pool level x number of cookie fields in the junk
	for level := 1; level <= 8; level++ {
		for _, k := range []int{1, 2, 7} {
			h.init(c, r, level, 124)
			ok := h.exchange(c, r, poolScript{kinds: []int{r.Intn(nk), -1}, k: k, content: r.Intn(5)})
			for i := 0; ok && i < 2; i++ {
				ok = h.exchange(c, r, clean)
			}
		}
	}
	// the regime without kernel timestamps (zone "lo": the tx timestamp read fails for every request, the
	// receive time is a clock reading): at least twelve consecutive calls on one client with lost
	// exchanges (nothing comes back before the deadline) and refused datagrams in between — a cookie
	// that left the host with a request must never reach the wire again, however the exchange ended
	lossy := [][]int{{0, 1}, {1}, {1, 2, 5}, {0, 3, 4, 9}, {2, 3}}
	for hi := 0; hi < c.Scale(3, 12); hi++ {
		h.init(c, r, 8, 124)
		h.zone = "lo"
		lost := map[int]bool{}
		for _, k := range lossy[(hi+r.Intn(len(lossy)))%len(lossy)] {
			lost[k] = true
		}
		ok := true
		for i := 0; ok && i < 14 && len(h.pool) > 1; i++ {
			switch {
			case lost[i] && r.Chance(70):
				ok = h.exchange(c, r, poolScript{kinds: nil}) // reply lost
				c.Count(tag + ":nostamp:lost")
			case lost[i]:
				ok = h.exchange(c, r, poolScript{kinds: []int{r.Intn(nk)}, k: 1 + r.Intn(2), content: r.Intn(5)}) // junk only, then the deadline
				c.Count(tag + ":nostamp:junk-then-timeout")
			case r.Chance(25):
				ok = h.exchange(c, r, poolScript{kinds: []int{r.Intn(nk), -1}, k: 1 + r.Intn(2), content: r.Intn(5)})
			default:
				ok = h.exchange(c, r, clean)
			}
		}
		h.zone = ""
	}
	// random histories
	nh := c.Scale(8, 120)
	for i := 0; i < nh; i++ {
		level := []int{8, 8, 8, 7, 5, 3, 2, 1}[r.Intn(8)]
		cl := []int{124, 124, 124, 124, 100, 156, 188, 64}[r.Intn(8)]
		h.init(c, r, level, cl)
		if r.Chance(30) {
			h.zone = "lo"
		}
		n := 10 + r.Intn(16)
		for k := 0; k < n; k++ {
			if !h.exchange(c, r, pickScript(r, len(h.pool))) {
				break
			}
		}
		h.zone = ""
	}
}
