package main

import (
	"fmt"
	"time"

	"example.com/scion-time/core/client"
	"example.com/scion-time/net/nts"

	"verifharness/lib"
)

// NTS clause of C05: the client runs with NTS enabled (key exchange data preloaded through the
// ntske hook, so no key exchange takes place); the peer answers with responses built by the
// real nts.NewResponsePacket / nts.EncodePacket and with unauthenticated / tampered /
// wrongly keyed variants. The three NTS verdicts of the model are computed by the harness
// with the real libraries on the bytes it sends (ntsVerdicts), independently of the client.

func encodeNTS(hdr48 []byte, key []byte, uid []byte, seed byte) []byte {
	cookie := make([]byte, 100)
	for k := range cookie {
		cookie[k] = seed + byte(k)
	}
	resp := nts.NewResponsePacket([][]byte{cookie}, key, uid)
	buf := append([]byte(nil), hdr48...)
	nts.EncodePacket(&buf, &resp)
	return append([]byte(nil), buf...)
}

type ntsCase struct {
	name  string
	build func(r *lib.Rand, h []byte, ri reqInfo) []byte
}

// rawExt: an extension field as any peer could write it (type, length, value padded to 4 bytes).
func rawExt(typ int, v []byte) []byte {
	n := (len(v) + 3) &^ 3
	f := make([]byte, 4+n)
	f[0], f[1] = byte(typ>>8), byte(typ)
	f[2], f[3] = byte((4+n)>>8), byte(4+n)
	copy(f[4:], v)
	return f
}

func flip(b []byte, k int) []byte {
	b = append([]byte(nil), b...)
	if k < 0 {
		k += len(b)
	}
	if k >= 0 && k < len(b) {
		b[k] ^= 0x01
	}
	return b
}

func ntsCases() []ntsCase {
	gen := func(h []byte, ri reqInfo) []byte { return encodeNTS(h, ntsS2C, ri.uid, 7) }
	return []ntsCase{
		{"plain48", func(r *lib.Rand, h []byte, ri reqInfo) []byte { return append([]byte(nil), h...) }},
		{"plain48+junk", func(r *lib.Rand, h []byte, ri reqInfo) []byte { return append(append([]byte(nil), h...), r.Bytes(40)...) }},
		{"flip:ntp-header-poll", func(r *lib.Rand, h []byte, ri reqInfo) []byte { return flip(gen(h, ri), 2) }},
		{"flip:ntp-header-tx", func(r *lib.Rand, h []byte, ri reqInfo) []byte { return flip(gen(h, ri), 47) }},
		{"flip:uid-field", func(r *lib.Rand, h []byte, ri reqInfo) []byte { return flip(gen(h, ri), 48+4+r.Intn(32)) }},
		{"flip:ciphertext-last", func(r *lib.Rand, h []byte, ri reqInfo) []byte { return flip(gen(h, ri), -1) }},
		{"flip:ciphertext-any", func(r *lib.Rand, h []byte, ri reqInfo) []byte {
			g := gen(h, ri)
			return flip(g, len(g)-1-r.Intn(100))
		}},
		{"flip:nonce", func(r *lib.Rand, h []byte, ri reqInfo) []byte { return flip(gen(h, ri), 48+4+32+8+r.Intn(16)) }},
		{"other-uid", func(r *lib.Rand, h []byte, ri reqInfo) []byte {
			return encodeNTS(h, ntsS2C, flip(ri.uid, r.Intn(32)), 9)
		}},
		{"other-uid:random", func(r *lib.Rand, h []byte, ri reqInfo) []byte { return encodeNTS(h, ntsS2C, r.Bytes(32), 9) }},
		{"c2s-key", func(r *lib.Rand, h []byte, ri reqInfo) []byte { return encodeNTS(h, ntsC2S, ri.uid, 11) }},
		{"random-key", func(r *lib.Rand, h []byte, ri reqInfo) []byte { return encodeNTS(h, r.Bytes(32), ri.uid, 11) }},
		{"truncated:-8", func(r *lib.Rand, h []byte, ri reqInfo) []byte { g := gen(h, ri); return g[:len(g)-8] }},
		{"truncated:uid-only", func(r *lib.Rand, h []byte, ri reqInfo) []byte { return gen(h, ri)[:48+36] }},
		{"request-echo", func(r *lib.Rand, h []byte, ri reqInfo) []byte { return append([]byte(nil), ri.raw...) }},
		{"authentic:origin+1", func(r *lib.Rand, h []byte, ri reqInfo) []byte { return gen(flip(h, 31), ri) }},
		{"authentic:stratum0", func(r *lib.Rand, h []byte, ri reqInfo) []byte {
			h = append([]byte(nil), h...)
			h[1] = 0
			return gen(h, ri)
		}},
		{"authentic:second-genuine", func(r *lib.Rand, h []byte, ri reqInfo) []byte { return gen(h, ri) }},
		// a genuine response to another request of the association (same S2C key, other identifier)
		// with unauthenticated fields appended behind its authenticator: the outstanding request's
		// identifier (it travels in clear), alone, repeated, behind other fields
		{"other-uid+trailing-uid", func(r *lib.Rand, h []byte, ri reqInfo) []byte {
			return append(encodeNTS(h, ntsS2C, r.Bytes(32), 9), rawExt(0x104, ri.uid)...)
		}},
		{"other-uid+trailing-unknown-uid", func(r *lib.Rand, h []byte, ri reqInfo) []byte {
			return append(append(encodeNTS(h, ntsS2C, r.Bytes(32), 9), rawExt(0x4204, r.Bytes(32))...), rawExt(0x104, ri.uid)...)
		}},
		{"other-uid+trailing-cookie-uid-uid", func(r *lib.Rand, h []byte, ri reqInfo) []byte {
			return append(append(append(encodeNTS(h, ntsS2C, r.Bytes(32), 9), rawExt(0x204, r.Bytes(100))...), rawExt(0x104, ri.uid)...), rawExt(0x104, ri.uid)...)
		}},
		{"other-uid+trailing-uid-zeros", func(r *lib.Rand, h []byte, ri reqInfo) []byte {
			return append(append(encodeNTS(h, ntsS2C, r.Bytes(32), 9), rawExt(0x104, ri.uid)...), make([]byte, 4*r.Intn(10))...)
		}},
		{"genuine+trailing-other-uid", func(r *lib.Rand, h []byte, ri reqInfo) []byte {
			return append(gen(h, ri), rawExt(0x104, r.Bytes(32))...)
		}},
		{"genuine+trailing-cookie", func(r *lib.Rand, h []byte, ri reqInfo) []byte {
			return append(gen(h, ri), rawExt(0x204, r.Bytes(100))...)
		}},
	}
}

func genNTS(c *lib.Ctx, tag string, scionTr bool) {
	if sandbox != "" {
		return
	}
	p := thePeer
	r := c.Rand.Fork(tag)
	var lc liveClient
	var sl *scionLive
	if scionTr {
		sl = &scionLive{c: &client.SCIONClient{Log: logger}}
		lc = sl
	} else {
		lc = ipLive{&client.IPClient{Log: logger}}
	}
	c.Comment("history " + tag)
	cases := ntsCases()
	rounds := c.Scale(2, 20)
	for round := 0; round < rounds; round++ {
		for ci := -1; ci < len(cases); ci++ {
			for shape := 0; shape < 2; shape++ { // 0: [case, genuine]   1: [case]
				if ci < 0 && shape == 1 {
					continue
				}
				cfg := exchCfg{il: !r.Chance(15), deadline: 300 * time.Millisecond, nts: true}
				if scionTr {
					cfg.spao = r.Chance(40)
				}
				if shape == 1 {
					cfg.deadline = 15 * time.Millisecond
				}
				theta := pickTheta(r)
				wantIL := r.Chance(60)
				var names []string
				sc := func(ri *reqInfo) ([]dgram, int64, int64, bool) {
					ri.R = wallNow().UnixNano()
					S := wallNow().UnixNano()
					h, il := p.reply(*ri, theta, S, wantIL)
					mk := func(pay []byte, genuine bool) dgram {
						var d dgram
						if scionTr {
							d = buildSCION(genuineVariant(), uint16(p.addr.Port()), sl.srcPort, pay)
						} else {
							d = dgram{src: srcServer, b: pay}
						}
						d.genuine = genuine
						d.ntsDec, d.ntsUID, d.ntsOpen = ntsVerdicts(pay, ri.uid)
						return d
					}
					g := mk(encodeNTS(h, ntsS2C, ri.uid, 7), true)
					if !(g.ntsDec && g.ntsUID && g.ntsOpen) {
						c.Count(tag + ":harness-genuine-not-verifying") // scaffolding self-check
					}
					if ci < 0 {
						names = []string{"genuine"}
						return []dgram{g}, theta, S, il
					}
					m := mk(cases[ci].build(r, tagRx(h, 1), *ri), false)
					if shape == 0 {
						names = []string{cases[ci].name, "genuine"}
						return []dgram{m, g}, theta, S, il
					}
					names = []string{cases[ci].name}
					return []dgram{m}, theta, S, il
				}
				res := exchange(c, lc, cfg, sc)
				if !res.valid {
					continue
				}
				if res.ri.uid == nil {
					c.Count(tag + ":request-without-uid")
				}
				idx := recordIP(c, tag, cfg, res)
				if res.err == nil && res.panicked == "" {
					if idx >= 0 && idx < len(names) {
						c.Count(tag + ":accepted:" + names[idx])
					}
				} else if len(names) > 0 {
					c.Count(fmt.Sprintf("%s:rejected-first:%s:%s%s", tag, names[0], errKind(res.err), res.panicked))
				}
			}
		}
	}
}
