package main

import (
	"bytes"
	"context"
	"fmt"
	"net"
	"net/netip"
	"strings"
	"time"

	"golang.org/x/sys/unix"

	"github.com/scionproto/scion/pkg/addr"
	"github.com/scionproto/scion/pkg/snet"
	spath "github.com/scionproto/scion/pkg/snet/path"

	"example.com/scion-time/core/client"
	"example.com/scion-time/net/ntske"
	"example.com/scion-time/net/udp"

	"verifharness/lib"
)

// Client clause of C20, executed live: "NTP requests go to the server and port named in the
// exchange". The clients run with NTS enabled and key exchange data preloaded through the ntske
// hook (so no key exchange takes place), whose Server / Port are what an NTS-KE server may
// name: IP literals (IPv4, IPv6, IPv4-mapped), host names, zoned literals, the empty string,
// garbage — times ports. UDP sinks listen on every candidate destination on loopback: the
// configured server address, two other ports on it, the same ports on a second address. After
// the call every sink is drained; a datagram "carries the cookie" if it contains one of the
// preloaded cookies verbatim (they travel in the clear in an NTS request).
//
// Oracle (C20:client:nts-request-destination): a datagram carrying a cookie leaves only towards
// exactly (net.ParseIP(Server), Port) — for the SCION client: with that host and port as SCION
// destination host and UDP destination port, and on the underlay to that address when the
// server is in the client's own AS; if Server is not an IP literal nothing is sent and the call
// fails. The caller's address object is long-lived and updated in place (timeservice.go), so the
// cases run as a history on one address object: "the previously named address" is a candidate.

type udpSink struct {
	conn *net.UDPConn
	ap   netip.AddrPort
}

type sinkSet struct {
	sinks []udpSink
}

func newSinkSet(c *lib.Ctx) *sinkSet {
	s := &sinkSet{}
	listen := func(a string) (netip.AddrPort, bool) {
		pc, err := net.ListenUDP("udp4", net.UDPAddrFromAddrPort(netip.MustParseAddrPort(a)))
		if err != nil {
			return netip.AddrPort{}, false
		}
		ap := pc.LocalAddr().(*net.UDPAddr).AddrPort()
		ap = netip.AddrPortFrom(ap.Addr().Unmap(), ap.Port())
		s.sinks = append(s.sinks, udpSink{pc, ap})
		return ap, true
	}
	for i := 0; i < 2; i++ {
		a, ok := listen("127.0.0.1:0")
		if !ok {
			return nil
		}
		// the same port on the second address ("previously named address, newly named port")
		if _, ok := listen(fmt.Sprintf("127.0.0.2:%d", a.Port())); !ok {
			c.Count("ntsdest:sink-same-port-on-second-address-unavailable")
		}
	}
	if _, ok := listen("127.0.0.2:0"); !ok {
		return nil
	}
	// the scripted peer's sockets are candidates as well (conns[0] is the configured server)
	for _, pc := range thePeer.conns {
		ap := pc.LocalAddr().(*net.UDPAddr).AddrPort()
		s.sinks = append(s.sinks, udpSink{pc, netip.AddrPortFrom(ap.Addr().Unmap(), ap.Port())})
		if _, ok := listen(fmt.Sprintf("127.0.0.2:%d", ap.Port())); !ok && ap.Addr().Unmap() == netip.MustParseAddr("127.0.0.1") {
			c.Count("ntsdest:sink-same-port-on-second-address-unavailable")
		}
	}
	return s
}

func (s *sinkSet) close() {
	for _, k := range s.sinks {
		own := true
		for _, pc := range thePeer.conns {
			if pc == k.conn {
				own = false
			}
		}
		if own {
			k.conn.Close()
		}
	}
}

type seenDgram struct {
	at netip.AddrPort
	b  []byte
}

// drain reads whatever is queued on the sinks without waiting: on loopback a datagram is in
// the receiver's queue when the sender's write returns. (A read deadline is no substitute: under
// load the deadline can expire before the read is attempted, and the read then fails although
// data is queued.)
func (s *sinkSet) drain() (out []seenDgram) {
	buf := make([]byte, 4096)
	for _, k := range s.sinks {
		rc, err := k.conn.SyscallConn()
		if err != nil {
			continue
		}
		k.conn.SetReadDeadline(time.Time{}) // an expired deadline of an earlier stream would keep RawConn.Read from running the function at all
		for {
			n := -1
			rc.Read(func(fd uintptr) bool {
				var e error
				n, _, e = unix.Recvfrom(int(fd), buf, unix.MSG_DONTWAIT)
				if e != nil {
					n = -1
				}
				return true // never wait
			})
			if n < 0 {
				break
			}
			out = append(out, seenDgram{k.ap, append([]byte(nil), buf[:n]...)})
		}
	}
	return
}

func (s *sinkSet) has(ap netip.AddrPort) bool {
	for _, k := range s.sinks {
		if k.ap == ap {
			return true
		}
	}
	return false
}

func carriesCookie(b []byte, d ntske.Data) bool {
	for _, ck := range d.Cookie {
		if bytes.Contains(b, ck) {
			return true
		}
	}
	return false
}

type ntsName struct {
	name   string
	server string
}

func ntsServerNames(s *sinkSet) []ntsName {
	return []ntsName{
		{"v4:configured", "127.0.0.1"},
		{"v4:second", "127.0.0.2"},
		{"v6:mapped-configured", "::ffff:127.0.0.1"},
		{"v6:mapped-second", "::ffff:127.0.0.2"},
		{"v6:mapped-hex", "::ffff:7f00:2"},
		{"v6:loopback", "::1"},
		{"v6:doc", "2001:db8::7f00:1"},
		{"host:localhost", "localhost"},
		{"host:fqdn", "ntp.example.invalid"},
		{"host:trailing-dot", "127.0.0.1."},
		{"zoned:v4", "127.0.0.1%lo"},
		{"zoned:v6", "fe80::1%lo"},
		{"empty", ""},
		{"garbage", "\x00\xff!!"},
		{"v4:with-port", "127.0.0.1:123"},
		{"v6:bracketed", "[::1]"},
		{"v4:leading-space", " 127.0.0.1"},
		{"v4:short", "127.1"},
		{"v4:decimal", "2130706433"},
		{"v4:leading-zero", "127.0.0.01"},
		{"v4:five-parts", "127.0.0.1.1"},
	}
}

const (
	ntsTrIP         = "ip"
	ntsTrSCION      = "scion"       // server in another AS: the underlay next hop is the path's
	ntsTrSCIONLocal = "scion-local" // server in the client's AS: the underlay next hop is the named server
)

func genNTSDest(c *lib.Ctx, tag string) {
	if sandbox != "" {
		return
	}
	p := thePeer
	sinks := newSinkSet(c)
	if sinks == nil {
		c.NotExecuted("NTS request destination: UDP sinks on 127.0.0.1 / 127.0.0.2 unavailable")
		return
	}
	defer sinks.close()
	sinks.drain()
	r := c.Rand.Fork(tag)
	c.Comment("history " + tag)
	configured := netip.AddrPortFrom(p.addr.Addr().Unmap(), p.addr.Port())
	ports := []uint16{configured.Port()}
	for _, k := range sinks.sinks {
		if k.ap.Addr() == configured.Addr() && len(ports) < 3 && k.ap.Port() != configured.Port() {
			ports = append(ports, k.ap.Port())
		}
	}
	names := ntsServerNames(sinks)
	rounds := c.Scale(1, 4)
	for _, tr := range []string{ntsTrIP, ntsTrSCION, ntsTrSCIONLocal} {
		// the caller's long-lived address objects, updated in place by the client
		ipRemote := net.UDPAddrFromAddrPort(configured)
		scRemote := udp.UDPAddr{IA: remoteIA, Host: net.UDPAddrFromAddrPort(configured)}
		if tr == ntsTrSCIONLocal {
			scRemote.IA = localIA
		}
		ipc := &client.IPClient{Log: logger, InterleavedMode: true}
		ipc.Auth.Enabled = true
		scc := &client.SCIONClient{Log: logger, InterleavedMode: true}
		scc.Auth.NTSEnabled = true
		for round := 0; round < rounds; round++ {
			// every unparsable name directly after a parsable one naming ANOTHER address and port
			// (so the in-place state differs from both the configured and the named values)
			order := make([]int, 0, 2*len(names))
			for i := range names {
				if net.ParseIP(names[i].server) == nil {
					order = append(order, []int{1, 3, 4}[r.Intn(3)]) // "127.0.0.2" or a mapped form of it first
				}
				order = append(order, i)
			}
			// re-keying on ONE client object: consecutive key exchanges that name the same server with another
			// port, another server with the same port, a server / no literal / the server again — the k-th
			// request must go to what the k-th exchange named, whatever earlier exchanges named
			// (indices into names: 0 127.0.0.1, 1 127.0.0.2, 2 ::ffff:127.0.0.1, 7 localhost, 12 empty)
			type rk struct{ ni, pi int }
			rekey := []rk{{0, 0}, {0, 1}, {0, 2}, {0, 1}, {1, 1}, {1, 0}, {2, 0}, {0, 0}, {7, 1}, {0, 1}, {0, 2}, {12, 0}, {0, 0}, {0, 1}, {1, 1}, {1, 2}}
			nRekey := len(rekey)
			if round > 0 {
				// later rounds: a random walk over the same servers and ports
				for i := range rekey {
					rekey[i] = rk{[]int{0, 0, 0, 1, 1, 2, 7, 12}[r.Intn(8)], r.Intn(len(ports))}
				}
			}
			full := make([]int, 0, nRekey+len(order))
			for _, x := range rekey {
				full = append(full, x.ni)
			}
			full = append(full, order...)
			var histToks []string
			for k, ni := range full {
				nm := names[ni]
				hist := k < nRekey
				var port uint16
				if hist {
					port = ports[rekey[k].pi%len(ports)]
				} else {
					ko := k - nRekey
					port = ports[(ko+round)%len(ports)]
					if net.ParseIP(nm.server) != nil && ko+1 < len(order) && net.ParseIP(names[order[ko+1]].server) == nil {
						port = ports[(ko+round+1)%len(ports)] // differs from the port of the following case
					}
				}
				if !hist && r.Chance(10) {
					ipRemote = net.UDPAddrFromAddrPort(configured)
					scRemote.Host = net.UDPAddrFromAddrPort(configured)
				}
				data := ntsData()
				data.Server, data.Port = nm.server, port
				// one call of the real client with the data preloaded; what the sinks saw
				attempt := func(d time.Duration) (res callRes, seen []seenDgram, blocked bool) {
					sinks.drain()
					ctx, cancel := context.WithTimeout(context.Background(), d)
					defer cancel()
					clk.reset()
					var done chan callRes
					switch tr {
					case ntsTrIP:
						ipc.Auth.NTSKEFetcher.VerifC11SetData(data)
						la := &net.UDPAddr{IP: net.IPv4(127, 0, 0, 1).To4()}
						done = callClient(func() (time.Time, time.Duration, error) { return client.VerifC03MeasureIP(ctx, ipc, la, ipRemote) })
					default:
						scc.Auth.NTSKEFetcher.VerifC11SetData(data)
						la := udp.UDPAddr{IA: localIA, Host: &net.UDPAddr{IP: net.IPv4(127, 0, 0, 1).To4()}}
						var path snet.Path = spath.Path{Src: localIA, Dst: scRemote.IA, DataplanePath: spath.Empty{},
							NextHop: net.UDPAddrFromAddrPort(p.addr)}
						done = callClient(func() (time.Time, time.Duration, error) {
							return client.VerifC03MeasureSCION(ctx, scc, la, scRemote, path)
						})
					}
					select {
					case res = <-done:
					case <-time.After(3 * time.Second):
						cancel()
						<-done
						return res, nil, true
					}
					return res, sinks.drain(), false
				}
				res, seen, blocked := attempt(12 * time.Millisecond)
				if blocked {
					c.Count(tag + ":discarded:blocked")
					continue
				}
				// --- what the exchange named, by the harness's own reading (the real net.ParseIP)
				var want netip.AddrPort
				parsedTok := "-"
				if ip := net.ParseIP(nm.server); ip != nil {
					a, _ := netip.AddrFromSlice(ip)
					want = netip.AddrPortFrom(a.Unmap(), port)
					parsedTok = "x" + lib.Hex(ip)
				}
				// reach: a datagram to the named address can leave the client's socket (bound to
				// 127.0.0.1) and be seen — IPv4 loopback with a sink on it; over SCION to another AS
				// the underlay destination is the path's next hop whatever is named
				reach := want.IsValid() && (tr == ntsTrSCION || want.Addr().Is4() && want.Addr().IsLoopback() && sinks.has(want))
				anyCookie := func(ds []seenDgram) bool {
					for _, d := range ds {
						if carriesCookie(d.b, data) {
							return true
						}
					}
					return false
				}
				if reach && !anyCookie(seen) && res.panic == "" {
					// nothing seen where something is expected: under machine load the 12 ms of the
					// call can pass before the client gets to send — once more with a long deadline
					// before judging (a client that sends elsewhere or not at all does so again)
					c.Count(tag + ":retry-with-long-deadline")
					res, seen, blocked = attempt(200 * time.Millisecond)
					if blocked {
						c.Count(tag + ":discarded:blocked")
						continue
					}
				}
				var sent []string
				bad := ""
				for _, d := range seen {
					if !carriesCookie(d.b, data) {
						c.Count(tag + ":" + tr + ":datagram-without-cookie")
						continue
					}
					to := d.at
					underlayWant := want
					if tr == ntsTrSCION {
						underlayWant = configured // the path's next hop
					}
					var hdr netip.AddrPort
					if tr != ntsTrIP {
						ps := parseSCION(d.b)
						ok := ps.ok && len(ps.decoded) >= 2
						var h addr.Host
						var err error
						if ok {
							h, err = ps.scn.DstAddr()
						}
						if !ok || err != nil || h.Type() != addr.HostTypeIP {
							bad = fmt.Sprintf("a datagram carrying the cookie went to %s and is no SCION/UDP packet to an IP host", to)
							continue
						}
						hdr = netip.AddrPortFrom(h.IP().Unmap(), ps.udp.DstPort)
						sent = append(sent, "x"+lib.Hex(hdr.Addr().AsSlice())+fmt.Sprintf(":%d", hdr.Port()))
						if !want.IsValid() || hdr != want {
							bad = fmt.Sprintf("a SCION request carrying the cookie is addressed to %s", hdr)
						}
					} else {
						sent = append(sent, "x"+lib.Hex(to.Addr().AsSlice())+fmt.Sprintf(":%d", to.Port()))
					}
					if !want.IsValid() || to != underlayWant {
						bad = fmt.Sprintf("a datagram carrying the cookie went to %s", to)
					}
				}
				sentTok := "-"
				if len(sent) > 0 {
					sentTok = sent[0]
					for _, s := range sent[1:] {
						sentTok += "," + s
					}
				}
				resTok := "fail"
				switch {
				case res.panic != "":
					resTok = "panic"
				case res.err == nil:
					resTok = "ok"
				}
				op := fmt.Sprintf("cli.ntsdest tr=%s parsed=%s port=%d reach=%s", tr, parsedTok, port, lib.Bool(reach))
				if hist {
					// the whole history of key exchange data this client object has seen since the start of the
					// sub-history; the answer is the destination of the LAST call
					histToks = append(histToks, fmt.Sprintf("%s:%d", parsedTok, port))
					op = fmt.Sprintf("cli.ntsdesth tr=%s hist=%s reach=%s", tr, strings.Join(histToks, ";"), lib.Bool(reach))
					c.Count(fmt.Sprintf("%s:%s:rekey-history:call-%02d", tag, tr, len(histToks)))
				}
				c.Emit(op, fmt.Sprintf("ok sent=%s res=%s", sentTok, resTok))
				replay := []string{fmt.Sprintf("# %s tr=%s ntske.Data{Server: %q, Port: %d} preloaded; configured server %s; address object before the call as left by the previous case",
					tag, tr, nm.server, port, configured), op}
				detail := map[string]any{"server": nm.server, "port": port, "named": want.String(), "sent": sentTok,
					"configured": configured.String(), "result": resTok, "error": fmt.Sprint(res.err)}
				switch {
				case bad != "":
					c.Fail("C20:client:nts-request-destination",
						"the NTS-protected request (with its cookie) did not go to exactly the server and port named in the key exchange: "+bad,
						replay, detail)
				case !want.IsValid() && resTok == "ok":
					c.Fail("C20:client:nts-request-destination", "the key exchange named no IP literal, yet the measurement call succeeded", replay, detail)
				case reach && len(sent) == 0:
					c.Fail("C20:client:nts-request-not-sent", "the key exchange named a reachable server and port, but no request arrived there", replay, detail)
				}
				if res.panic != "" {
					c.Fail("C08:client:panic-on-key-exchange-data",
						"the server / port records of a key exchange make the client panic: "+res.panic, replay, detail)
				}
				kind := "literal"
				if !want.IsValid() {
					kind = "no-literal"
				}
				c.Count(fmt.Sprintf("%s:%s:%s:sent=%v:res=%s", tag, tr, kind, len(sent) > 0, resTok))
				c.Count(tag + ":" + tr + ":name:" + nm.name)
			}
		}
	}
}
