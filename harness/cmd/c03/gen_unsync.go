package main

import (
	"fmt"
	"time"

	"example.com/scion-time/core/client"

	"verifharness/lib"
)

// A conformant server that is not always in a state to serve time. Its clock differs from the
// client's by a fixed theta for the whole history; from time to time it answers a request with a
// packet that says "do not use this": leap indicator 3 (unsynchronised), stratum 0 (Kiss-o'-Death /
// unspecified) or 16 and above, or it is rebooting and its transmit time lies before its receive
// time. Such packets echo the request correctly (they are the server's answer to it) and their
// time fields are not significant (RFC 5905 7.3/7.4: zero, or the readings of a clock that has
// not been set). Like a real server the peer remembers every reply it has sent, so a client that
// asks in interleaved mode for the exchange it last saw gets that exchange's transmit time.
//
// History per client: [served] ([refusable]+ [served]+)* — every exchange is recorded through
// recordIP (model correspondence, C05's oracles incl. C05:offset-from-refused-datagram), and one
// oracle of this stream, from the script's own knowledge only:
//
//	unsync:offset-not-server-offset   an offset is reported that differs from theta by more than
//	                                  half of the longest exchange the history allows (deadline/2)

type unsyncVariant struct {
	name string
	mk   func(r *lib.Rand, h []byte) []byte // h: the reply header as the server would send it when serving
}

func withLVM(h []byte, li, vn, mode int) []byte {
	h = append([]byte(nil), h...)
	h[0] = byte(li<<6 | vn<<3 | mode)
	return h
}

func withStratum(h []byte, s int) []byte {
	h = append([]byte(nil), h...)
	h[1] = byte(s)
	return h
}

func zeroStamps(h []byte) []byte {
	h = append([]byte(nil), h...)
	for i := 16; i < 24; i++ { // reference
		h[i] = 0
	}
	for i := 32; i < 48; i++ { // receive, transmit
		h[i] = 0
	}
	return h
}

func unsyncVariants() []unsyncVariant {
	return []unsyncVariant{
		{"li3-stratum0", func(r *lib.Rand, h []byte) []byte { return withStratum(withLVM(h, 3, 4, 4), 0) }},
		{"li3-stratum16", func(r *lib.Rand, h []byte) []byte { return withStratum(withLVM(h, 3, 4, 4), 16) }},
		{"li3", func(r *lib.Rand, h []byte) []byte { return withLVM(h, 3, 4, 4) }},
		{"kod-stratum0", func(r *lib.Rand, h []byte) []byte {
			h = withStratum(withLVM(h, 0, 4, 4), 0)
			copy(h[12:16], []string{"RATE", "DENY", "RSTR", "INIT"}[r.Intn(4)])
			return h
		}},
		{"kod-stratum0-zero-stamps", func(r *lib.Rand, h []byte) []byte {
			h = zeroStamps(withStratum(withLVM(h, 0, 4, 4), 0))
			copy(h[12:16], []string{"RATE", "DENY", "RSTR"}[r.Intn(3)])
			return h
		}},
		{"li3-stratum0-zero-stamps", func(r *lib.Rand, h []byte) []byte { return zeroStamps(withStratum(withLVM(h, 3, 4, 4), 0)) }},
		{"stratum16", func(r *lib.Rand, h []byte) []byte { return withStratum(h, 16) }},
		{"stratum255", func(r *lib.Rand, h []byte) []byte { return withStratum(h, 255) }},
		{"tx-before-rx", func(r *lib.Rand, h []byte) []byte {
			h = append([]byte(nil), h...)
			rx := be64(h[32:])
			rx.Seconds -= uint32(1 + r.Intn(5))
			put64(h[40:], rx)
			return h
		}},
	}
}

func genUnsync(c *lib.Ctx, tag string, scionTr bool) {
	if sandbox != "" {
		return
	}
	p := thePeer
	r := c.Rand.Fork(tag)
	vs := unsyncVariants()
	c.Comment("history " + tag)
	const deadline = 300 * time.Millisecond
	rounds := c.Scale(4, 30)
	for round := 0; round < rounds; round++ {
		var lc liveClient
		var sl *scionLive
		if scionTr {
			sl = &scionLive{c: &client.SCIONClient{Log: logger}}
			lc = sl
		} else {
			lc = ipLive{&client.IPClient{Log: logger}}
		}
		theta := pickTheta(r) // the server's clock, for the whole history
		// what an unset clock reads: far from theta
		bad := theta + []int64{-1000, 3600, -86400 * 365, 17}[r.Intn(4)]*nsps + r.Range(-nsps, nsps)
		il := !r.Chance(20)
		// phases: 1 = served, 0 = refusable
		var phases []int
		phases = append(phases, 1)
		for k := 0; k < 1+r.Intn(2); k++ {
			for j := 0; j < 1+r.Intn(2); j++ {
				phases = append(phases, 0)
			}
			for j := 0; j < 1+r.Intn(2); j++ {
				phases = append(phases, 1)
			}
		}
		if r.Chance(25) {
			phases = phases[1:] // the very first answer the client ever sees is a refusable one
		}
		var hist []string
		for step, ph := range phases {
			cfg := exchCfg{il: il, deadline: deadline}
			v := vs[(round+step)%len(vs)]
			if r.Chance(30) {
				v = vs[r.Intn(len(vs))]
			}
			wantIL := r.Chance(70)
			name := "served"
			sc := func(ri *reqInfo) ([]dgram, int64, int64, bool) {
				ri.R = wallNow().UnixNano()
				S := wallNow().UnixNano()
				th := theta
				if ph == 0 {
					th = bad
				}
				// an answer that is not to be used is a basic one (its transmit field is this exchange's, so
				// "transmit before receive" speaks about this datagram's own two fields)
				h, gil := p.reply(*ri, th, S, wantIL && ph == 1)
				pay := h
				if ph == 0 {
					pay = v.mk(r, h)
					name = v.name
				}
				var d dgram
				if scionTr {
					d = buildSCION(genuineVariant(), uint16(p.addr.Port()), sl.srcPort, pay)
				} else {
					d = dgram{src: srcServer, b: pay}
				}
				d.genuine = ph == 1
				return []dgram{d}, th, S, gil
			}
			res := exchange(c, lc, cfg, sc)
			if !res.valid {
				break // the history's state is no longer what the script assumes
			}
			recordIP(c, tag, cfg, res)
			hist = append(hist, lastExchOps...)
			if res.err == nil && res.panicked == "" {
				c.Count(fmt.Sprintf("%s:offset-reported-after:%s", tag, name))
				e := int64(res.off) - theta
				if e < 0 {
					e = -e
				}
				if e > int64(deadline)/2+3 {
					c.Fail("unsync:offset-not-server-offset",
						"against a server whose clock differs by theta throughout, and which marks some answers as not to be used (leap 3, stratum 0 / >15, transmit before receive), the client reports an offset farther from theta than half of the longest possible exchange",
						hist, map[string]any{"offset": int64(res.off), "theta": theta, "unset_clock": bad, "step": step, "answer": name, "phases": fmt.Sprint(phases)})
				}
			} else {
				c.Count(fmt.Sprintf("%s:no-offset-after:%s:%s%s", tag, name, errKind(res.err), res.panicked))
			}
		}
	}
}

// genSlowPath: exchanges whose forward, processing or return delay is a large part of the time the
// client is willing to wait (more than half of it, less than all of it) — slow, not lost. The
// server answers each request it receives exactly once; nothing is mutated. recordIP's oracles
// apply (transmit time inside the exchange, one-exchange tuple, half round trip with the script's
// own theta): a client that does anything else than wait while the answer is under way (e.g.
// sends the request again and pairs the answer with the later transmission) shows here.
func genSlowPath(c *lib.Ctx, tag string, scionTr bool) {
	if sandbox != "" {
		return
	}
	p := thePeer
	r := c.Rand.Fork(tag)
	c.Comment("history " + tag)
	var lc liveClient
	var sl *scionLive
	if scionTr {
		sl = &scionLive{c: &client.SCIONClient{Log: logger}}
		lc = sl
	} else {
		lc = ipLive{&client.IPClient{Log: logger}}
	}
	n := c.Scale(14, 120)
	for i := 0; i < n; i++ {
		dl := time.Duration(100+r.Intn(80)) * time.Millisecond
		cfg := exchCfg{il: !r.Chance(35), deadline: dl}
		if !cfg.il && r.Chance(40) {
			cfg.filter = true
		}
		total := int64(dl/time.Microsecond) * int64(55+r.Intn(30)) / 100 // 55..84 % of the deadline
		var fwd, proc, back int64
		switch r.Intn(4) {
		case 0:
			back = total
		case 1:
			fwd = total
		case 2:
			proc = total
		default:
			fwd = total * int64(r.Intn(100)) / 100
			back = total - fwd
		}
		theta := pickTheta(r)
		wantIL := r.Chance(65)
		sc := func(ri *reqInfo) ([]dgram, int64, int64, bool) {
			usleep(fwd)
			ri.R = wallNow().UnixNano()
			usleep(proc)
			S := wallNow().UnixNano()
			g, il := p.reply(*ri, theta, S, wantIL)
			var d dgram
			if scionTr {
				d = buildSCION(genuineVariant(), uint16(p.addr.Port()), sl.srcPort, g)
			} else {
				d = dgram{src: srcServer, b: g}
			}
			d.genuine = true
			usleep(back)
			return []dgram{d}, theta, S, il
		}
		res := exchange(c, lc, cfg, sc)
		if !res.valid {
			continue
		}
		recordIP(c, tag, cfg, res)
		if res.err == nil && res.panicked == "" {
			c.Count(tag + ":slow-answer-accepted")
		} else {
			c.Count(tag + ":slow-answer:" + errKind(res.err) + res.panicked)
		}
	}
}
