package main

import (
	"context"
	"fmt"
	"net"
	"strings"
	"time"

	"example.com/scion-time/core/client"
	"example.com/scion-time/net/ntp"

	"verifharness/lib"
)

func usleep(us int64) {
	if us > 0 {
		time.Sleep(time.Duration(us) * time.Microsecond)
	}
}

func pickTheta(r *lib.Rand) int64 {
	switch r.Intn(10) {
	case 0:
		return 0
	case 1:
		return r.Range(-1500000000, 1500000000) * nsps // far: tens of years
	case 2:
		return r.Range(-3, 3)
	case 3:
		return r.Range(-1000000, 1000000)
	default:
		return r.Range(-10*nsps, 10*nsps)
	}
}

// genC03IP: a long history on one interleaved-mode client plus short ones with other settings.
func genC03IP(c *lib.Ctx) {
	if sandbox != "" {
		return
	}
	p := thePeer
	r := c.Rand.Fork("c03ip")
	ipc := &client.IPClient{Log: logger}
	n := c.Scale(300, 5000)
	c.Comment("history C03 IP")
	var lastGenuine []byte
	for i := 0; i < n; i++ {
		cfg := exchCfg{il: true, deadline: 400 * time.Millisecond}
		shape := r.Intn(100)
		switch {
		case shape < 8:
			cfg.il = false
		case shape < 14:
			cfg.filter = true
		case shape < 17:
			cfg.deadline = 0
		}
		if r.Chance(4) {
			ipc.ResetInterleavedMode()
			c.Count("c03ip:reset")
		}
		if r.Chance(3) {
			pv := client.VerifC03PrevIP(ipc)
			pv.Reference = "192.0.2.1:123"
			cfg.setPrev = &pv
			c.Count("c03ip:other-reference")
		}
		// window boundary: prev.cTx about 3 s old, the clock's first reading placed exactly
		if r.Chance(8) && cfg.il {
			pv := client.VerifC03PrevIP(ipc)
			if pv.Reference == "" {
				pv = client.VerifC03Prev{Reference: p.addr.String(), Interleaved: true,
					CRxTime: enc64(time.Now().UnixNano() - 3*nsps + 50000), SRxTime: enc64(time.Now().UnixNano() - 3*nsps + 30000)}
			}
			pv.Reference = p.addr.String()
			pv.CTxTime = enc64(time.Now().UnixNano() - 3*nsps)
			if dec64(pv.CRxTime, time.Now().UnixNano()) < dec64(pv.CTxTime, time.Now().UnixNano()) {
				pv.CRxTime = enc64(time.Now().UnixNano() - 3*nsps + 50000)
			}
			cfg.setPrev = &pv
			dlt := r.Pick64([]int64{-2, -1, 0, 1, 2, -1000000, 1000000})
			cfg.setNow = func(prev client.VerifC03Prev) []time.Time {
				x := dec64(prev.CTxTime, time.Now().UnixNano())
				return []time.Time{time.Unix(0, x+3*nsps+dlt).UTC()}
			}
			c.Count(fmt.Sprintf("c03ip:window-boundary:%+d", dlt))
		}
		kind := r.Intn(100)
		drop := kind < 7
		if drop {
			cfg.deadline = 25 * time.Millisecond
		}
		fwd, proc, back := r.Range(0, 300)*int64(r.Intn(2)), r.Range(0, 300)*int64(r.Intn(2)), r.Range(0, 400)*int64(r.Intn(2))
		theta := pickTheta(r)
		wantIL := r.Chance(65)
		stale := lastGenuine
		var thisGenuine []byte
		sc := func(ri *reqInfo) ([]dgram, int64, int64, bool) {
			usleep(fwd)
			ri.R = wallNow().UnixNano()
			usleep(proc)
			S := wallNow().UnixNano()
			g, il := p.reply(*ri, theta, S, wantIL)
			thisGenuine = g
			var out []dgram
			switch {
			case drop:
				c.Count("c03ip:script:drop")
				return nil, theta, 0, false
			case kind < 17 && stale != nil:
				c.Count("c03ip:script:stale-then-genuine")
				out = []dgram{{src: srcServer, b: stale}, {src: srcServer, b: g, genuine: true}}
			case kind < 22 && stale != nil:
				c.Count("c03ip:script:two-stale")
				out = []dgram{{src: srcServer, b: stale}, {src: srcServer, b: stale}, {src: srcServer, b: g, genuine: true}}
			case kind < 32:
				c.Count("c03ip:script:duplicate")
				out = []dgram{{src: srcServer, b: g, genuine: true}, {src: srcServer, b: g, genuine: true}}
			default:
				c.Count("c03ip:script:genuine")
				out = []dgram{{src: srcServer, b: g, genuine: true}}
			}
			usleep(back)
			return out, theta, S, il
		}
		res := ipExchange(c, ipc, cfg, sc)
		if !res.valid {
			continue
		}
		if res.err == nil && res.panicked == "" {
			lastGenuine = thisGenuine
		}
		recordIP(c, "c03ip", cfg, res)
	}
	// ValidateResponseTimestamps panics when t3 is before t0; for an interleaved response these are
	// prev.cRxTime / prev.cTxTime. Provoked through the prev hook only.
	for k := 0; k < 3; k++ {
		cfg := exchCfg{il: true, deadline: 300 * time.Millisecond}
		res := ipExchange(c, ipc, cfg, func(ri *reqInfo) ([]dgram, int64, int64, bool) {
			S := wallNow().UnixNano()
			g, il := p.reply(*ri, 0, S, true)
			return []dgram{{src: srcServer, b: g, genuine: true}}, 0, S, il
		})
		if !res.valid || res.err != nil {
			continue
		}
		recordIP(c, "c03ip", cfg, res)
		pv := client.VerifC03PrevIP(ipc)
		now := time.Now().UnixNano()
		pv.CRxTime = enc64(dec64(pv.CTxTime, now) - int64(k+1)*1000)
		cfg.setPrev = &pv
		res = ipExchange(c, ipc, cfg, func(ri *reqInfo) ([]dgram, int64, int64, bool) {
			S := wallNow().UnixNano()
			g, il := p.reply(*ri, 0, S, true)
			return []dgram{{src: srcServer, b: g}}, 0, S, il
		})
		if res.valid {
			recordIP(c, "c03ip:prev-rx-before-tx", cfg, res)
		}
		ipc.ResetInterleavedMode()
	}
}

// ---------------------------------------------------------------- wrapper MeasureClockOffsetIP

// genWrapIP drives the exported MeasureClockOffsetIP (up to three exchanges per call) and
// compares which attempt's result is returned with the model of the loop.
func genWrapIP(c *lib.Ctx) {
	if sandbox != "" {
		return
	}
	p := thePeer
	r := c.Rand.Fork("wrapip")
	n := c.Scale(40, 600)
	c.Comment("MeasureClockOffsetIP wrapper")
	for i := 0; i < n; i++ {
		il := r.Chance(80)
		if i < 6 {
			il = true
		}
		ipc := &client.IPClient{Log: logger, InterleavedMode: il}
		// per attempt: 0 garbage x2 (error unexpected... size), 1 basic reply, 2 interleaved-if-possible, 3 silence
		var plan [3]int
		for k := range plan {
			plan[k] = r.Intn(4)
			if r.Chance(50) {
				plan[k] = 1 + r.Intn(2)
			}
		}
		// fixed plans first: a completed first exchange followed by lost / failed later attempts
		// (the result of the completed exchange must survive), failures before a success
		if i < 6 {
			plan = [][3]int{{1, 3, 0}, {1, 0, 3}, {1, 1, 3}, {0, 1, 3}, {1, 2, 0}, {0, 0, 1}}[i]
		}
		ctx, cancel := context.WithTimeout(context.Background(), 300*time.Millisecond)
		clk.reset()
		resetHeartbeat()
		start := time.Now()
		la := &net.UDPAddr{IP: net.IPv4(127, 0, 0, 1).To4()}
		ra := net.UDPAddrFromAddrPort(p.addr)
		done := callClient(func() (time.Time, time.Duration, error) {
			return client.MeasureClockOffsetIP(ctx, logger, ipc, la, ra)
		})
		var att []string
		made := 0
		silent := false
		lastTag := 0
		buf := make([]byte, 2048)
		var r0 callRes
		finished := false
		timingBad := false
		for !finished {
			p.conns[0].SetReadDeadline(time.Now().Add(5 * time.Millisecond))
			nb, from, err := p.conns[0].ReadFromUDPAddrPort(buf)
			if err != nil {
				select {
				case r0 = <-done:
					finished = true
				default:
				}
				continue
			}
			if made >= 3 {
				timingBad = true
				continue
			}
			if time.Since(start) > 80*time.Millisecond {
				timingBad = true // the peer was stalled: the context deadline may interfere with the plan
			}
			ri := parseReq(buf[:nb])
			ri.R = wallNow().UnixNano()
			theta := int64(made+1) * 1000 * nsps
			S := wallNow().UnixNano()
			switch plan[made] {
			case 0:
				p.conns[0].WriteToUDPAddrPort(make([]byte, 20), from)
				p.conns[0].WriteToUDPAddrPort(make([]byte, 20), from)
				att = append(att, "err:size")
			case 3:
				att = append(att, "err:read")
				silent = true
			default:
				g, gil := p.reply(ri, theta, S, plan[made] == 2)
				p.conns[0].WriteToUDPAddrPort(g, from)
				p.remember(ri, theta, S)
				tag := made + 1
				if gil {
					tag = lastTag
				}
				lastTag = made + 1
				att = append(att, fmt.Sprintf("ok:%d:%s", tag, lib.Bool(il && gil)))
			}
			made++
		}
		cancel()
		if timingBad || r0.panic != "" || starved(40*time.Millisecond) {
			c.Count("wrapip:discarded")
			continue
		}
		if made == 0 {
			// under machine load the 80 ms of the call can pass before the client's first request
			// reaches the peer: nothing of the plan was executed, there is nothing to record
			c.Count("wrapip:discarded:no-request-within-the-deadline")
			continue
		}
		if silent {
			// the context deadline has passed: the remaining attempts fail before sending anything
			for k := made; k < 3; k++ {
				att = append(att, "err:read")
			}
		}
		op := fmt.Sprintf("cli.wrap il=%s att=%s", lib.Bool(il), strings.Join(att, ","))
		var ans string
		if r0.err != nil {
			ans = fmt.Sprintf("err %s", errKind(r0.err))
			c.Count("wrapip:err")
			if r0.off != 0 || !r0.ts.IsZero() {
				c.Fail("C05:offset-with-error", "MeasureClockOffsetIP returned an error together with a timestamp/offset", []string{op}, nil)
			}
		} else {
			which := (int64(r0.off) + 500*nsps) / (1000 * nsps)
			ans = fmt.Sprintf("ok %d", which)
			c.Count(fmt.Sprintf("wrapip:ok:attempt%d", which))
			// direct oracle: success only if some attempt was answered genuinely
			if !strings.Contains(op, "ok:") {
				c.Fail("C05:wrapper-success-without-accept", "MeasureClockOffsetIP succeeded although no attempt accepted a response", []string{op}, nil)
			}
			// direct oracle (C05_wrapper_ip_sound on the real code): a nil error comes with the
			// (timestamp, offset) of a successful attempt of this call: the offset is within 1 s of
			// the offset one of the answered attempts was stamped with (they are 1000 s apart) and
			// the timestamp is a receive time inside this call
			fromOK := strings.Contains(op, fmt.Sprintf("ok:%d:", which))
			dev := int64(r0.off) - which*1000*nsps
			if dev < 0 {
				dev = -dev
			}
			if !fromOK || dev > nsps || r0.ts.Before(start.Add(-time.Second)) || r0.ts.After(time.Now().Add(time.Second)) {
				c.Fail("C05:wrapper-result-not-from-successful-attempt",
					"MeasureClockOffsetIP returned a nil error with a (timestamp, offset) that is not the result of any successful attempt of the call",
					[]string{op}, map[string]any{"offset": int64(r0.off), "ts_zero": r0.ts.IsZero(), "ts": r0.ts.UnixNano()})
			}
		}
		c.Emit(op, ans)
	}
}

// ---------------------------------------------------------------- C05: acceptance

type mutant struct {
	name string
	src  int
	b    []byte
}

// mutants of the genuine reply g for request ri: every header field, the listed boundary
// values, other sources, lengths, random bytes.
func mutants(r *lib.Rand, g []byte, ri reqInfo, stale []byte) []mutant {
	var ms []mutant
	add := func(name string, src int, f func(b []byte) []byte) {
		b := append([]byte(nil), g...)
		ms = append(ms, mutant{name, src, f(b)})
	}
	setLVM := func(li, vn, mode byte) func(b []byte) []byte {
		return func(b []byte) []byte { b[0] = li<<6 | vn<<3 | mode; return b }
	}
	for li := byte(0); li < 4; li++ {
		add(fmt.Sprintf("li=%d", li), srcServer, setLVM(li, 4, 4))
	}
	for vn := byte(0); vn < 8; vn++ {
		add(fmt.Sprintf("version=%d", vn), srcServer, setLVM(0, vn, 4))
	}
	for mode := byte(0); mode < 8; mode++ {
		add(fmt.Sprintf("mode=%d", mode), srcServer, setLVM(0, 4, mode))
	}
	for _, st := range []byte{0, 1, 2, 15, 16, 17, 255} {
		add(fmt.Sprintf("stratum=%d", st), srcServer, func(b []byte) []byte { b[1] = st; return b })
	}
	// every byte of the header outside origin: one random change (unchecked fields stay acceptable)
	for _, f := range []struct {
		name   string
		lo, hi int
	}{{"poll", 2, 3}, {"precision", 3, 4}, {"rootdelay", 4, 8}, {"rootdisp", 8, 12}, {"refid", 12, 16}, {"reftime", 16, 24}} {
		add("field:"+f.name, srcServer, func(b []byte) []byte {
			k := f.lo + r.Intn(f.hi-f.lo)
			b[k] ^= byte(1 + r.Intn(255))
			return b
		})
	}
	org := be64(g[24:])
	for _, d := range []struct {
		name string
		v    ntp.Time64
	}{
		{"origin:frac+1", ntp.Time64{Seconds: org.Seconds, Fraction: org.Fraction + 1}},
		{"origin:frac-1", ntp.Time64{Seconds: org.Seconds, Fraction: org.Fraction - 1}},
		{"origin:sec+1", ntp.Time64{Seconds: org.Seconds + 1, Fraction: org.Fraction}},
		{"origin:sec-1", ntp.Time64{Seconds: org.Seconds - 1, Fraction: org.Fraction}},
		{"origin:zero", ntp.Time64{}},
		{"origin:req.origin", ri.org},
		{"origin:req.rx", ri.rx},
		{"origin:req.tx", ri.tx},
		{"origin:swapped-halves", ntp.Time64{Seconds: org.Fraction, Fraction: org.Seconds}},
	} {
		add(d.name, srcServer, func(b []byte) []byte { put64(b[24:], d.v); return b })
	}
	for k := 24; k < 32; k++ {
		add(fmt.Sprintf("origin:byte%d", k), srcServer, func(b []byte) []byte { b[k] ^= byte(1 << r.Intn(8)); return b })
	}
	rx := be64(g[32:])
	add("tx=rx", srcServer, func(b []byte) []byte { put64(b[40:], rx); return b })
	add("tx=rx-1frac", srcServer, func(b []byte) []byte {
		v := rx
		if v.Fraction == 0 {
			v.Seconds--
		}
		v.Fraction--
		put64(b[40:], v)
		return b
	})
	add("tx=rx-1s", srcServer, func(b []byte) []byte { put64(b[40:], ntp.Time64{Seconds: rx.Seconds - 1, Fraction: rx.Fraction}); return b })
	add("tx=rx+1frac", srcServer, func(b []byte) []byte { put64(b[40:], ntp.Time64{Seconds: rx.Seconds, Fraction: rx.Fraction + 1}); return b })
	add("rx:byte", srcServer, func(b []byte) []byte { b[32+r.Intn(8)] ^= byte(1 << r.Intn(8)); return b })
	add("tx:byte", srcServer, func(b []byte) []byte { b[40+r.Intn(8)] ^= byte(1 << r.Intn(8)); return b })
	add("src:other-addr", srcOtherAddr, func(b []byte) []byte { return b })
	add("src:other-port", srcOtherPort, func(b []byte) []byte { return b })
	add("len:47", srcServer, func(b []byte) []byte { return b[:47] })
	add("len:0", srcServer, func(b []byte) []byte { return b[:0] })
	add("len:1", srcServer, func(b []byte) []byte { return b[:1] })
	add("len:49", srcServer, func(b []byte) []byte { return append(b, 0) })
	add("len:68", srcServer, func(b []byte) []byte { return append(b, make([]byte, 20)...) })
	add("random:48", srcServer, func(b []byte) []byte { return r.Bytes(48) })
	add("random:48:origin-ok", srcServer, func(b []byte) []byte { x := r.Bytes(48); copy(x[24:32], g[24:32]); return x })
	add("random:len", srcServer, func(b []byte) []byte { return r.Bytes(r.Intn(48)) })
	add("random:other-addr", srcOtherAddr, func(b []byte) []byte { return r.Bytes(48) })
	add("request-echo", srcServer, func(b []byte) []byte { return append([]byte(nil), ri.raw...) })
	if stale != nil {
		add("stale-reply", srcServer, func(b []byte) []byte { return append([]byte(nil), stale...) })
	}
	return ms
}

// tagRx perturbs the receive stamp by 4*k ns worth of fraction so that each datagram of a
// sequence is identifiable in prev / in the offset (the stamp is the script's to choose).
func tagRx(b []byte, k int) []byte {
	if len(b) < 48 || k == 0 {
		return b
	}
	b = append([]byte(nil), b...)
	rx, tx := be64(b[32:]), be64(b[40:])
	if rx == tx {
		return b
	}
	v := uint64(rx.Seconds)<<32 | uint64(rx.Fraction)
	v -= uint64(k) * 17
	put64(b[32:], ntp.Time64{Seconds: uint32(v >> 32), Fraction: uint32(v)})
	return b
}

func genC05IP(c *lib.Ctx) {
	if sandbox != "" {
		return
	}
	p := thePeer
	r := c.Rand.Fork("c05ip")
	ipc := &client.IPClient{Log: logger}
	c.Comment("history C05 IP")
	var lastGenuine []byte
	// number of mutants is learnt from a dry construction
	probe := mutants(r, make([]byte, 48), reqInfo{raw: make([]byte, 48)}, make([]byte, 48))
	rounds := c.Scale(3, 30)
	total := 0
	for round := 0; round < rounds; round++ {
		for mi := 0; mi < len(probe); mi++ {
			for _, shape := range []int{0, 1, 2} {
				// shape 0: [mutant, genuine]; 1: [mutant]; 2: random: [m, m', genuine] / [genuine, m] / no deadline
				if shape == 2 && !r.Chance(35) {
					continue
				}
				cfg := exchCfg{il: !r.Chance(12), deadline: 300 * time.Millisecond}
				if !cfg.il && r.Chance(50) {
					cfg.filter = true
				}
				if shape == 1 {
					cfg.deadline = 12 * time.Millisecond
				}
				noDeadline := shape == 2 && r.Chance(25)
				if noDeadline {
					cfg.deadline = 0
				}
				if r.Chance(3) {
					ipc.ResetInterleavedMode()
				}
				theta := pickTheta(r)
				wantIL := r.Chance(60)
				stale := lastGenuine
				var thisGenuine []byte
				var names []string
				sc := func(ri *reqInfo) ([]dgram, int64, int64, bool) {
					ri.R = wallNow().UnixNano()
					S := wallNow().UnixNano()
					g, il := p.reply(*ri, theta, S, wantIL)
					thisGenuine = g
					ms := mutants(r, g, *ri, stale)
					m := ms[mi%len(ms)]
					var out []dgram
					switch {
					case shape == 0:
						out = []dgram{{src: m.src, b: m.b}, {src: srcServer, b: g, genuine: true}}
						names = []string{m.name, "genuine"}
					case shape == 1:
						out = []dgram{{src: m.src, b: m.b}}
						names = []string{m.name}
					case noDeadline:
						out = []dgram{{src: m.src, b: m.b}, {src: srcServer, b: g, genuine: true}}
						names = []string{m.name, "genuine"}
					default:
						m2 := ms[r.Intn(len(ms))]
						if r.Bool() {
							out = []dgram{{src: m.src, b: m.b}, {src: m2.src, b: m2.b}, {src: srcServer, b: g, genuine: true}}
							names = []string{m.name, m2.name, "genuine"}
						} else {
							out = []dgram{{src: srcServer, b: g, genuine: true}, {src: m.src, b: m.b}}
							names = []string{"genuine", m.name}
						}
					}
					for k := range out {
						if !out[k].genuine && !strings.HasPrefix(names[k], "tx=") {
							out[k].b = tagRx(out[k].b, k+1)
						}
					}
					return out, theta, S, il
				}
				res := ipExchange(c, ipc, cfg, sc)
				if !res.valid {
					continue
				}
				total++
				idx := recordIP(c, "c05ip", cfg, res)
				if res.err == nil && res.panicked == "" {
					lastGenuine = thisGenuine
					if idx >= 0 && idx < len(names) {
						c.Count("c05ip:accepted:" + names[idx])
					}
				} else if len(names) > 0 {
					c.Count("c05ip:rejected-first:" + names[0] + ":" + errKind(res.err))
				}
			}
		}
	}
	c.Count(fmt.Sprintf("c05ip:sequences:%d", total))
}

// genF13: finding F13 — a local address that is not a valid IP slice.
func genF13(c *lib.Ctx) {
	if sandbox != "" {
		return
	}
	p := thePeer
	c.Comment("F13: local address without a valid IP")
	for _, ip := range []net.IP{nil, {}, {127, 0, 1}, {1, 2, 3, 4, 5}} {
		ipc := &client.IPClient{Log: logger}
		ctx, cancel := context.WithTimeout(context.Background(), 20*time.Millisecond)
		clk.reset()
		ra := net.UDPAddrFromAddrPort(p.addr)
		ts, off, err := client.MeasureClockOffsetIP(ctx, logger, ipc, &net.UDPAddr{IP: ip}, ra)
		cancel()
		op := fmt.Sprintf("cli.badlocal tr=ip iplen=%d", len(ip))
		if err == nil {
			c.Emit(op, fmt.Sprintf("ok %d", int64(off)))
			c.Fail("C05:F13:success-without-datagram", "MeasureClockOffsetIP with a local address that is no valid IP returns (zero, 0, nil): success without any datagram",
				[]string{op}, map[string]any{"iplen": len(ip), "ts_zero": ts.IsZero()})
		} else {
			c.Emit(op, "err addr")
		}
		c.Count("f13:ip")
	}
}

// genA4Scenario plays, against the real client, the scenario of the Lean `example` that shows
// hypothesis A4 is needed (Props/C03.lean, "the mixed tuple"): a scripted peer — unlike a real
// network — can deliver the late reply to a timed-out request on the *next* exchange's port.
// The exchanges are outside the property's quantifier (A4 is violated on purpose), so only
// the correspondence with the model is checked, and it is counted whether the half-RTT bound
// fails as the model predicts.
func genA4Scenario(c *lib.Ctx) {
	if sandbox != "" {
		return
	}
	p := thePeer
	c.Comment("history A4 violated on purpose (model faithfulness only)")
	for rep := 0; rep < c.Scale(3, 20); rep++ {
		ipc := &client.IPClient{Log: logger}
		cfg := exchCfg{il: true, deadline: 300 * time.Millisecond}
		var late []byte
		var tx2 int64
		step := func(name string, cfg exchCfg, sc script) exchResult {
			res := ipExchange(c, ipc, cfg, sc)
			if res.valid {
				recordIP(c, "a4:"+name, cfg, res)
			}
			return res
		}
		// 1: regular
		r1 := step("ex1", cfg, func(ri *reqInfo) ([]dgram, int64, int64, bool) {
			S := wallNow().UnixNano()
			g, il := p.reply(*ri, 0, S, true)
			return []dgram{{src: srcServer, b: g, genuine: true}}, 0, S, il
		})
		if !r1.valid || r1.err != nil {
			continue
		}
		// 2: the reply is delayed beyond the deadline
		short := cfg
		short.deadline = 20 * time.Millisecond
		r2 := step("ex2", short, func(ri *reqInfo) ([]dgram, int64, int64, bool) {
			S := wallNow().UnixNano()
			late, _ = p.reply(*ri, 0, S, true)
			tx2 = S
			return nil, 0, S, false
		})
		if !r2.valid || late == nil {
			continue
		}
		time.Sleep(time.Second) // client and server stamps of exchanges 2 and 3 a second apart
		// 3: same request fields; the socket is handed the late reply to request 2
		r3 := step("ex3", cfg, func(ri *reqInfo) ([]dgram, int64, int64, bool) {
			return []dgram{{src: srcServer, b: late}}, 0, 0, false
		})
		if !r3.valid || r3.err != nil {
			c.Count("a4:late-reply-not-accepted")
			continue
		}
		// 4: regular interleaved reply from the store entry of exchange 2
		r4 := step("ex4", cfg, func(ri *reqInfo) ([]dgram, int64, int64, bool) {
			b := make([]byte, 48)
			copy(b, late)
			put64(b[24:], ri.rx)
			put64(b[32:], enc64(wallNow().UnixNano()))
			put64(b[40:], enc64(tx2))
			return []dgram{{src: srcServer, b: b}}, 0, 0, false
		})
		if r4.valid && r4.err == nil {
			e := int64(r4.off)
			if e < 0 {
				e = -e
			}
			if e > 400000000 {
				c.Count("a4:mixed-tuple-offset-off-by-about-half-a-second-at-true-offset-0")
			} else {
				c.Count("a4:mixed-tuple-not-reproduced")
			}
		}
	}
}
