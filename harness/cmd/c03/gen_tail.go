package main

// Streams over what the per-exchange functions do AROUND the per-datagram decision
// (Model/ClientTail.lean, Props/C05Tail.lean):
//
//	genHistPure   cli.hist: hdrhistogram.RecordValue(rtd.Microseconds()) == nil on the real library for the
//	              histogram of the benchmark tools and three others, at / around the limit the model takes as the
//	              histogram's only parameter (measured here on the real library), and around zero
//	genHist       cli.hexch: histories of one live client (IP, SCION) with InterleavedMode, a recording filter and
//	              a Histogram: genuine replies, replies whose server claims a processing time longer than the
//	              exchange took (negative round-trip delay: passes ValidateResponseTimestamps), delayed replies —
//	              the call returns the histogram's error AFTER c.prev and the filter were updated
//	genHistWrap   cli.wrapx: MeasureClockOffsetIP / MeasureClockOffsetSCION on such a client: attempt 1 ends in the
//	              histogram error, attempt 2 is an interleaved exchange built on the state attempt 1 left behind
//	genHdr        cli.hdr: the SCION request header the peer parses (traffic class, ISD-ASes, host address types
//	              and bytes, UDP ports, next header) and the hosts the client names in its DRKey request, for 4-byte
//	              and IPv4-mapped 16-byte local / remote addresses, DSCP values, with and without the packet
//	              authenticator; a remote address that is no IP address (explicit panic), a local one (error)
//
// Direct oracles (independent of the model): `C05:error-with-state-change` (an error other than the histogram's
// came with a changed prev or a filter call), `C05:hist-verdict` (the histogram error iff the round-trip delay of
// the tuple handed to the filter lies outside the histogram's range; the histogram's count moves iff no error),
// `C03:tuple-after-hist-error` (the interleaved tuple evaluated after a call that ended in the histogram error is
// made of that call's three stamps), `C03:half-rtt` on it with the script's own offset of THAT exchange,
// `C05:offset-with-error`; `C13:client:header-host` (the header's hosts are the hosts of the DRKey request),
// `C03:header:src-port` (UDP source port = port of the exchange's socket).

import (
	"context"
	"fmt"
	"net"
	"net/netip"
	"strings"
	"time"

	"github.com/HdrHistogram/hdrhistogram-go"
	"github.com/scionproto/scion/pkg/slayers"
	"github.com/scionproto/scion/pkg/snet"
	spath "github.com/scionproto/scion/pkg/snet/path"

	"example.com/scion-time/core/client"
	"example.com/scion-time/net/ntp"
	"example.com/scion-time/net/udp"

	"verifharness/lib"
)

type histParams struct {
	lo, hi int64
	sig    int
}

func (h histParams) String() string { return fmt.Sprintf("%d,%d,%d", h.lo, h.hi, h.sig) }
func (h histParams) make() *hdrhistogram.Histogram {
	return hdrhistogram.New(h.lo, h.hi, h.sig)
}

var histKinds = []histParams{{1, 50000, 5}, {1, 100, 1}, {1, 1000, 3}, {1, 3600000000, 3}}

// histLimit: the first non-negative value the real histogram refuses (RecordValue is monotone in
// its refusal: the counts index grows with the value).
func histLimit(hp histParams) int64 {
	ok := func(v int64) bool { return hp.make().RecordValue(v) == nil }
	if !ok(0) {
		return 0
	}
	hi := int64(1)
	for ok(hi) {
		hi *= 2
	}
	lo := hi / 2 // ok(lo), !ok(hi)
	for hi-lo > 1 {
		m := lo + (hi-lo)/2
		if ok(m) {
			lo = m
		} else {
			hi = m
		}
	}
	return hi
}

func parseHistParams(s string) (hp histParams, ok bool) {
	var a, b int64
	var g int
	if n, err := fmt.Sscanf(s, "%d,%d,%d", &a, &b, &g); n != 3 || err != nil || a < 1 || b < 2*a || g < 1 || g > 5 {
		return
	}
	return histParams{a, b, g}, true
}

// execHist: cli.hist new=<lo>,<hi>,<sig> limit=<µs> rtd=<ns> on the real library (replayable).
func execHist(t []string) string {
	if len(t) != 4 || !strings.HasPrefix(t[1], "new=") || !strings.HasPrefix(t[2], "limit=") || !strings.HasPrefix(t[3], "rtd=") {
		return "bad-op"
	}
	hp, ok := parseHistParams(t[1][4:])
	if !ok {
		return "bad-op"
	}
	if fmt.Sprint(histLimit(hp)) != t[2][6:] {
		return "bad-op" // the limit is a function of the parameters
	}
	rtd := time.Duration(i64(t[3][4:]))
	return "ok " + lib.Bool(hp.make().RecordValue(rtd.Microseconds()) == nil)
}

func genHistPure(c *lib.Ctx) {
	r := c.Rand.Fork("histpure")
	c.Comment("cli.hist: hdrhistogram.RecordValue(rtd.Microseconds()) at the limit and around zero")
	for _, hp := range histKinds {
		L := histLimit(hp)
		if hp.make().RecordValue(-1) == nil || hp.make().RecordValue(L-1) != nil || hp.make().RecordValue(L) == nil {
			c.Fail("C05:hist-limit", "hdrhistogram's RecordValue does not refuse exactly the values outside [0, limit)", nil,
				map[string]any{"params": hp.String(), "limit": L})
		}
		us := []int64{-3, -2, -1, 0, 1, 2, L - 2, L - 1, L, L + 1, 2 * L, 1 << 40, -(1 << 40)}
		for i := 0; i < c.Scale(20, 200); i++ {
			us = append(us, r.Range(-2*L, 3*L))
		}
		for _, u := range us {
			for _, ns := range []int64{0, 1, 999, -1, -999, r.Range(-999, 999)} {
				c.Dof("cli.hist new=%s limit=%d rtd=%d", hp, L, u*1000+ns)
				c.Count("histpure:probe")
			}
		}
	}
	for _, v := range []int64{-1 << 63, 1<<63 - 1, -1 << 62} {
		c.Dof("cli.hist new=1,50000,5 limit=%d rtd=%d", histLimit(histKinds[0]), v)
	}
}

// setHist configures the live client's histogram (nil: none).
func setHist(lc liveClient, h *hdrhistogram.Histogram) {
	switch l := lc.(type) {
	case ipLive:
		l.c.Histogram = h
	case *scionLive:
		l.c.Histogram = h
	}
}

func isHistErr(err error) bool {
	return err != nil && strings.Contains(err.Error(), "too large to be recorded")
}

// lastFailed: what the previous call of a history left behind when it ended in the histogram error.
type lastFailed struct {
	set   bool
	t     [4]int64 // tuple the filter absorbed
	own   [2]int64 // the call's own transmit and receive time (basic: t[0], t[3] of the tuple)
	rx    ntp.Time64
	theta int64
	il    bool
}

func genHist(c *lib.Ctx, tag string, scionTr bool) {
	if sandbox != "" {
		return
	}
	p := thePeer
	r := c.Rand.Fork(tag)
	hists := c.Scale(6, 40)
	for hi := 0; hi < hists; hi++ {
		var lc liveClient
		var sl *scionLive
		if scionTr {
			sl = &scionLive{c: &client.SCIONClient{Log: logger}}
			lc = sl
		} else {
			lc = ipLive{&client.IPClient{Log: logger}}
		}
		hp := histKinds[r.Intn(2)] // the benchmark histogram, or one whose limit (128 µs) loopback exchanges straddle
		if hi%5 == 4 {
			hp = histParams{}
		}
		var hist *hdrhistogram.Histogram
		limit := int64(-1)
		if hp.sig != 0 {
			hist = hp.make()
			limit = histLimit(hp)
		}
		c.Comment(fmt.Sprintf("history %s hist=%s", tag, hp))
		var failed lastFailed
		for x := 0; x < 6; x++ {
			cfg := exchCfg{il: true, deadline: 2 * time.Second, filter: true}
			kind := r.Intn(4) // 0,1: genuine  2: server claims 1 ms more processing than real  3: reply delayed
			delta := int64(0)
			if kind == 2 {
				delta = 200000 + r.Range(0, 2000000)
			}
			sc := func(ri *reqInfo) ([]dgram, int64, int64, bool) {
				theta := r.Range(-5*nsps, 5*nsps)
				if kind == 3 {
					time.Sleep(time.Duration(100+r.Intn(400)) * time.Microsecond)
				}
				S := wallNow().UnixNano()
				g, gil := p.reply(*ri, theta, S, true)
				if delta != 0 {
					put64(g[40:], enc64(dec64(be64(g[40:]), S)+delta))
				}
				var d dgram
				if scionTr {
					d = buildSCION(genuineVariant(), uint16(p.addr.Port()), sl.srcPort, g)
				} else {
					d = dgram{src: srcServer, b: g}
				}
				d.genuine = delta == 0
				return []dgram{d}, theta, S, gil
			}
			// configure goes through exchange(); the histogram is set on the client object directly
			setHist(lc, hist)
			before := int64(0)
			if hist != nil {
				before = hist.TotalCount()
			}
			res := exchange(c, lc, cfg, sc)
			if !res.valid || len(res.sent) != 1 {
				c.Count(tag + ":discarded")
				failed = lastFailed{}
				if hist != nil {
					lc.setPrev(client.VerifC03Prev{})
				}
				continue
			}
			after := int64(0)
			if hist != nil {
				after = hist.TotalCount()
			}
			failed = recordHist(c, tag, cfg, res, limit, after-before, failed)
		}
	}
}

// recordHist emits the cli.hexch op of one exchange (one delivered datagram) and evaluates the oracles.
func recordHist(c *lib.Ctx, tag string, cfg exchCfg, res exchResult, limit int64, counted int64, failed lastFailed) (next lastFailed) {
	p := thePeer
	reference := p.addr.String()
	if res.tr == "scion" {
		reference = scionReference()
	}
	histErr := isHistErr(res.err)
	okRes := res.err == nil && res.panicked == ""
	f := res.filter
	op0 := fmt.Sprintf("cli.req tr=%s il=true ref=same prev=%s now=%d", res.tr, prevStr(res.prev0, reference), res.now0)
	// --- direct oracles on the implementation's own outputs
	if !okRes && (res.off != 0 || !res.ts.IsZero()) {
		c.Fail("C05:offset-with-error", "an error was returned together with a timestamp/offset", []string{op0}, nil)
	}
	if !okRes && !histErr && (res.prev1 != res.prev0 || f.got) {
		c.Fail("C05:error-with-state-change",
			"a call that reported an error other than the histogram's changed the client's state of the previous exchange or handed a sample to the filter",
			[]string{op0}, map[string]any{"err": fmt.Sprint(res.err), "filter_called": f.got})
	}
	if histErr && limit < 0 {
		c.Fail("C05:hist-verdict", "the histogram's error without a histogram", []string{op0}, nil)
	}
	if !okRes && !histErr {
		// a refusal: nothing of the tail was reached; recorded through the ordinary stream's op
		c.Count(tag + ":exch:err:" + errKind(res.err))
		return lastFailed{}
	}
	if !f.got && histErr && res.prev1 == res.prev0 {
		// the histogram was asked before anything was committed (not the code as modelled: the model's answer
		// differs; no clause of a property is concerned)
		c.Count(tag + ":exch:hist-error-before-commit")
		c.Emit(fmt.Sprintf("cli.hexch tr=%s il=true nts=false dl=true filt=424242 %s ref=same prev=%s now=%d ctx1=%d ev=%s hist=%d",
			res.tr, res.hdr, prevStr(res.prev0, reference), res.now0, res.now0, evIP(p, res.sent, res.recvAt, true, 48, "1"), limit),
			"err hist prev="+prevStr(res.prev1, reference))
		return lastFailed{}
	}
	if !f.got {
		c.Fail("C03:filter-tuple", "a filter is configured but was not called for an evaluated response", []string{op0}, nil)
		return lastFailed{}
	}
	var t [4]int64
	for k := range t {
		t[k] = f.t[k].UnixNano()
	}
	_, rtd := goClockOffset(t[0], t[1], t[2], t[3])
	us := time.Duration(rtd).Microseconds()
	if limit >= 0 {
		inRange := us >= 0 && us < limit
		if inRange == histErr || (counted == 1) != inRange || counted != 0 && counted != 1 {
			c.Fail("C05:hist-verdict",
				"the histogram's error does not coincide with a round-trip delay (of the tuple handed to the filter) outside the histogram's range, or the histogram's count did not move with it",
				[]string{op0}, map[string]any{"rtd_us": us, "limit": limit, "hist_error": histErr, "counted": counted})
		}
	}
	il := res.prev1.Interleaved
	d := res.sent[0]
	rx, tx := be64(d.b[32:]), be64(d.b[40:])
	// the state the call left behind is that of an accepted exchange — also when it reported the histogram's error
	if res.prev1.Reference != reference || res.prev1.SRxTime != rx {
		c.Fail("C05:accepted-other-datagram", "prev after the call does not stem from the evaluated datagram", []string{op0},
			map[string]any{"prev1": prevStr(res.prev1, reference), "hist_error": histErr})
	}
	// cTxTime1 and cRxTime of this call
	var ctx1, cRx int64
	if il {
		x := dec64(res.prev1.CTxTime, res.now0)
		if enc64(x) != res.prev1.CTxTime {
			x++
		}
		ctx1 = x
		y := dec64(res.prev1.CRxTime, res.now0)
		if enc64(y) != res.prev1.CRxTime {
			y++
		}
		cRx = y
		if okRes {
			cRx = res.ts.UnixNano()
		}
		want := [4]int64{dec64(res.prev0.CTxTime, res.now0), dec64(res.prev0.SRxTime, res.now0), dec64(tx, res.now0), dec64(res.prev0.CRxTime, res.now0)}
		if t != want {
			c.Fail("C03:filter-tuple", "the tuple handed to the filter is not the one-exchange tuple", []string{op0},
				map[string]any{"got": t, "want": want})
		}
		if failed.set {
			// the previous call ended in the histogram's error: this interleaved tuple is made of ITS stamps
			w := [3]int64{dec64(enc64(failed.own[0]), res.now0), dec64(failed.rx, res.now0), dec64(enc64(failed.own[1]), res.now0)}
			if t[0] != w[0] || t[1] != w[1] || t[3] != w[2] {
				c.Fail("C03:tuple-after-hist-error",
					"the interleaved tuple evaluated after a call that ended in the histogram's error does not consist of that call's transmit, server-receive and receive stamps",
					[]string{op0}, map[string]any{"tuple": t, "failed_tuple": failed.t, "failed_own": failed.own, "failed_il": failed.il})
			}
			if d.genuine {
				off, rtd2 := goClockOffset(t[0], t[1], t[2], t[3])
				e := abs64(off - failed.theta)
				if 2*e > rtd2+3 {
					c.Fail("C03:half-rtt", "|offset - theta| exceeds half the round-trip delay + 1.5 ns (exchange whose own call ended in the histogram's error)",
						[]string{op0}, map[string]any{"t": t, "off": off, "theta": failed.theta, "rtd": rtd2})
				}
				c.Count(tag + ":oracle:half-rtt-after-hist-error")
			}
			c.Count(tag + ":oracle:tuple-after-hist-error")
		}
	} else {
		ctx1, cRx = t[0], t[3]
		if okRes && cRx != res.ts.UnixNano() {
			c.Fail("C03:filter-tuple", "t3 of a basic tuple is not the returned timestamp", []string{op0}, nil)
		}
		if t[1] != dec64(rx, res.now0) || t[2] != dec64(tx, res.now0) {
			c.Fail("C03:filter-tuple", "the tuple handed to the filter is not the one-exchange tuple", []string{op0}, nil)
		}
		if d.genuine {
			off, rtd2 := goClockOffset(t[0], t[1], t[2], t[3])
			if e := abs64(off - res.theta); 2*e > rtd2+3 {
				c.Fail("C03:half-rtt", "|offset - theta| exceeds half the round-trip delay + 1.5 ns", []string{op0},
					map[string]any{"t": t, "off": off, "theta": res.theta, "rtd": rtd2})
			}
		}
	}
	hs := "-"
	if limit >= 0 {
		hs = fmt.Sprint(limit)
	}
	op := fmt.Sprintf("cli.hexch tr=%s il=true nts=false dl=true filt=424242 %s ref=same prev=%s now=%d ctx1=%d ev=%s hist=%s",
		res.tr, res.hdr, prevStr(res.prev0, reference), res.now0, ctx1, evIP(p, res.sent, cRx, true, 48, "1"), hs)
	tuple := fmt.Sprintf(" tuple=%d,%d,%d,%d", t[0], t[1], t[2], t[3])
	var ans string
	if histErr {
		ans = "err hist" + tuple + " prev=" + prevStr(res.prev1, reference)
		c.Count(fmt.Sprintf("%s:exch:hist-error:il=%v", tag, il))
		if res.prev1 != res.prev0 {
			c.Count(tag + ":observed:error-after-state-commit")
		}
		next = lastFailed{set: true, t: t, own: [2]int64{ctx1, cRx}, rx: rx, theta: res.theta, il: il}
	} else {
		ans = fmt.Sprintf("ok accept off=%d ts=%d%s prev=%s", int64(res.off), res.ts.UnixNano(), tuple, prevStr(res.prev1, reference))
		c.Count(fmt.Sprintf("%s:exch:ok:il=%v:hist=%v", tag, il, limit >= 0))
	}
	c.Emit(op, ans)
	return
}

// genHistWrap: the exported wrappers on a client with a histogram. Attempt 1 is answered with a reply whose
// server claims 2 s more processing time than the exchange took (the histogram refuses the negative round-trip
// delay: an error AFTER the state commit), attempt 2 is therefore an interleaved request and is answered
// interleaved: the wrapper leaves its loop (break) and reports attempt 2's measurement — which is about the
// exchange of attempt 1.
func genHistWrap(c *lib.Ctx, tag string, scionTr bool) {
	if sandbox != "" {
		return
	}
	p := thePeer
	r := c.Rand.Fork(tag)
	tr := "ip"
	if scionTr {
		tr = "scion"
	}
	for round := 0; round < c.Scale(3, 20); round++ {
		hist := histKinds[0].make()
		ctx, cancel := context.WithTimeout(context.Background(), 3*time.Second)
		p.conns[0].SetReadDeadline(time.Now().Add(time.Millisecond))
		for {
			if _, _, err := p.conns[0].ReadFromUDPAddrPort(make([]byte, 2048)); err != nil {
				break
			}
		}
		clk.reset()
		resetHeartbeat()
		var done chan callRes
		var sl *scionLive
		if scionTr {
			sl = &scionLive{c: &client.SCIONClient{Log: logger, InterleavedMode: true, Histogram: hist}}
			la := udp.UDPAddr{IA: localIA, Host: &net.UDPAddr{IP: scionLocalIP()}}
			ra := scionRemote()
			var path snet.Path = spath.Path{Src: localIA, Dst: remoteIA, DataplanePath: spath.Empty{}, NextHop: net.UDPAddrFromAddrPort(p.addr)}
			done = callClient(func() (time.Time, time.Duration, error) {
				return client.MeasureClockOffsetSCION(ctx, logger, []*client.SCIONClient{sl.c}, la, ra, []snet.Path{path})
			})
		} else {
			ipc := &client.IPClient{Log: logger, InterleavedMode: true, Histogram: hist}
			la := &net.UDPAddr{IP: net.IPv4(127, 0, 0, 1).To4()}
			ra := net.UDPAddrFromAddrPort(p.addr)
			done = callClient(func() (time.Time, time.Duration, error) { return client.MeasureClockOffsetIP(ctx, logger, ipc, la, ra) })
		}
		lie := r.Intn(3) // which attempts get the lying reply: 0: the first, 1: the first two, 2: none
		made := 0
		var kinds []string
		var ils []bool
		buf := make([]byte, 2048)
		var r0 callRes
		bad := false
		idle := 0
	loop:
		for {
			p.conns[0].SetReadDeadline(time.Now().Add(5 * time.Millisecond))
			nb, from, err := p.conns[0].ReadFromUDPAddrPort(buf)
			if err != nil {
				select {
				case r0 = <-done:
					break loop
				default:
					if idle++; idle > 2000 {
						bad = true
						break loop
					}
				}
				continue
			}
			var ri reqInfo
			if scionTr {
				ri = sl.parse(buf[:nb])
			} else {
				ri = parseReq(buf[:nb])
			}
			if !ri.ok || made >= 3 {
				bad = true
				continue
			}
			ri.R = wallNow().UnixNano()
			theta := int64(made+1) * 1000 * nsps
			S := wallNow().UnixNano()
			g, gil := p.reply(ri, theta, S, true)
			lying := lie == 0 && made == 0 || lie == 1 && made < 2
			if lying {
				put64(g[40:], enc64(dec64(be64(g[40:]), S+theta)+2*nsps))
			}
			if scionTr {
				p.conns[0].WriteToUDPAddrPort(buildSCION(genuineVariant(), uint16(p.addr.Port()), sl.srcPort, g).wire, from)
			} else {
				p.conns[0].WriteToUDPAddrPort(g, from)
			}
			p.remember(ri, theta, S)
			if lying {
				kinds = append(kinds, "lie")
			} else {
				kinds = append(kinds, "ok")
			}
			ils = append(ils, gil)
			made++
		}
		cancel()
		if bad || r0.panic != "" || starved(100*time.Millisecond) {
			c.Count(tag + ":discarded")
			continue
		}
		// the attempts as the model's wrapper sees them: a lying reply is the histogram's error (kind other);
		// a success reports the exchange the evaluated tuple belongs to (interleaved: the previous attempt's)
		var att []string
		for k := 0; k < 3; k++ {
			switch {
			case k >= made:
				att = append(att, "l/-")
			case kinds[k] == "lie":
				att = append(att, "l/err:other")
			default:
				t := k + 1
				if ils[k] {
					t = k
				}
				att = append(att, fmt.Sprintf("l/ok:%d:%s", t, lib.Bool(ils[k])))
			}
		}
		op := fmt.Sprintf("cli.wrapx tr=%s il=true att=%s", tr, strings.Join(att, ","))
		var ans string
		if r0.err != nil {
			k := "other"
			if !isHistErr(r0.err) {
				k = wrapErrKind(r0.err)
			}
			ans = fmt.Sprintf("err %s reqs=%d", k, made)
			if r0.off != 0 || !r0.ts.IsZero() {
				c.Fail("C05:offset-with-error", "the wrapper returned an error together with a timestamp/offset", []string{op}, nil)
			}
		} else {
			which := (int64(r0.off) + 500*nsps) / (1000 * nsps)
			ans = fmt.Sprintf("ok %d reqs=%d", which, made)
		}
		// direct oracle: an attempt that ended in the histogram's error left its state behind — the next request is
		// interleaved and the server could answer it interleaved (observed, counted)
		if made >= 2 && kinds[0] == "lie" && ils[1] {
			c.Count(tag + ":observed:interleaved-exchange-on-the-state-of-a-failed-call")
		}
		c.Count(fmt.Sprintf("%s:lie=%d:made=%d", tag, lie, made))
		c.Emit(op, ans)
	}
}

// ---------------------------------------------------------------- request header

func hostTokOf(t slayers.AddrType, raw []byte) string { return hostTok(t, raw) }

func genHdr(c *lib.Ctx, tag string) {
	if sandbox != "" {
		return
	}
	p := thePeer
	r := c.Rand.Fork(tag)
	c.Comment("SCION request header: " + tag)
	defer func() { scionLocal16, scionRemoteIP = false, netip.Addr{} }()
	// every combination of local address form x remote address form x authenticator, systematically
	n := c.Scale(32, 256)
	for i := 0; i < n; i++ {
		scionLocal16 = i&1 != 0
		scionRemoteIP = netip.Addr{}
		switch i >> 1 & 3 {
		case 0:
			scionRemoteIP = netip.AddrFrom16(netip.MustParseAddr("127.0.0.1").As16()) // IPv4-mapped form of the peer's address
		case 1:
			scionRemoteIP = netip.MustParseAddr("fd00::" + fmt.Sprintf("%x", 1+r.Intn(65000))) // a real IPv6 host (datagrams still go to the peer)
		}
		auth := i>>3&1 != 0
		dscp := uint8(r.Pick64([]int64{0, 1, 46, 62, 63, int64(r.Intn(64)), int64(r.Intn(64))}))
		if r.Chance(10) {
			dscp = uint8(r.Pick64([]int64{64, 255, int64(64 + r.Intn(192))})) // refused by udp.SetDSCP: panic before the request
		}
		sl := &scionLive{c: &client.SCIONClient{Log: logger, DSCP: dscp}}
		cfg := exchCfg{il: false, deadline: 300 * time.Millisecond, spaoKey: auth}
		theDaemon.take()
		var under netip.AddrPort
		var hdr parsed
		sc := func(ri *reqInfo) ([]dgram, int64, int64, bool) {
			under = ri.from
			S := wallNow().UnixNano()
			g, _ := p.reply(*ri, 0, S, false)
			d := buildSCION(genuineVariant(), uint16(p.addr.Port()), sl.srcPort, g)
			d.genuine = true
			return []dgram{d}, 0, S, false
		}
		// the peer's own parse of the request bytes
		res := exchangeHdr(c, sl, cfg, sc, &hdr)
		if !res.valid && res.panicked != "" && !res.ri.ok {
			// no request left the host: the call panicked before (udp.SetDSCP refuses a DSCP above 63: configuration)
			c.Count(fmt.Sprintf("%s:panic-before-request:dscp>63=%v", tag, dscp > 63))
			c.Emit(fmt.Sprintf("cli.hdr dscp=%d lia=%d lip=x%s ria=%d rip=x%s lport=0 rport=%d path=true auth=%s",
				dscp, uint64(localIA), lib.Hex(scionLocalIP()), uint64(remoteIA), lib.Hex(scionRemote().Host.IP), p.addr.Port(), lib.Bool(auth)),
				"panic "+res.panicked)
			continue
		}
		if !res.valid || !hdr.ok {
			c.Count(tag + ":discarded")
			continue
		}
		asked := theDaemon.take()
		lip, rip := scionLocalIP(), scionRemote().Host.IP
		op := fmt.Sprintf("cli.hdr dscp=%d lia=%d lip=x%s ria=%d rip=x%s lport=%d rport=%d path=true auth=%s",
			dscp, uint64(localIA), lib.Hex(lip), uint64(remoteIA), lib.Hex(rip), under.Port(), p.addr.Port(), lib.Bool(auth))
		kl, kr := "-", "-"
		if auth && len(asked) == 1 {
			// the hosts the client named, as canonical bytes of the address the string denotes
			if a, err := netip.ParseAddr(asked[0].DstHost); err == nil {
				kl = "x" + lib.Hex(a.AsSlice())
			}
			if a, err := netip.ParseAddr(asked[0].SrcHost); err == nil {
				kr = "x" + lib.Hex(a.AsSlice())
			}
		}
		s := hdr.scn
		ans := fmt.Sprintf("ok tc=%d sia=%d dia=%d src=%s dst=%s sp=%d dp=%d nh=%d", s.TrafficClass, uint64(s.SrcIA), uint64(s.DstIA),
			hostTokOf(s.SrcAddrType, s.RawSrcAddr), hostTokOf(s.DstAddrType, s.RawDstAddr), hdr.udp.SrcPort, hdr.udp.DstPort, uint8(s.NextHdr))
		if auth {
			ans += fmt.Sprintf(" kl=%s kr=%s", kl, kr)
			// direct oracle: the hosts of the key request are the hosts of the header, read as the listener reads them
			if kl != "x"+lib.Hex(s.RawSrcAddr) || kr != "x"+lib.Hex(s.RawDstAddr) {
				c.Fail("C13:client:header-host",
					"the hosts the client names in its DRKey request are not the hosts it writes into the SCION header of the request (as the listener reads them): the two sides derive different keys",
					[]string{op}, map[string]any{"asked": fmt.Sprint(asked), "src": lib.Hex(s.RawSrcAddr), "dst": lib.Hex(s.RawDstAddr)})
			}
		} else {
			// without the authenticator no key is asked for; the model's kl/kr are not observable
			ans += " " + modelKeyHosts(lip, rip)
		}
		if hdr.udp.SrcPort != under.Port() {
			c.Fail("C03:header:src-port", "the UDP source port of the SCION request is not the port of the exchange's socket", []string{op},
				map[string]any{"udp": hdr.udp.SrcPort, "underlay": under.Port()})
		}
		if s.TrafficClass != dscp<<2 || s.SrcIA != localIA || s.DstIA != remoteIA {
			c.Fail("C03:header:fields", "traffic class / ISD-AS fields of the request are not DSCP<<2 / the local / the remote ISD-AS", []string{op}, nil)
		}
		c.Count(fmt.Sprintf("%s:exch:auth=%v:l16=%v", tag, auth, scionLocal16))
		c.Emit(op, ans)
	}
	// addresses that are no IP addresses: local -> error before anything is built; remote -> the explicit panic
	for _, bad := range [][]byte{{}, {1, 2, 3}, {1, 2, 3, 4, 5}, make([]byte, 15), make([]byte, 17)} {
		sl := &scionLive{c: &client.SCIONClient{Log: logger}}
		for _, local := range []bool{true, false} {
			la := udp.UDPAddr{IA: localIA, Host: &net.UDPAddr{IP: net.IPv4(127, 0, 0, 1).To4()}}
			ra := udp.UDPAddr{IA: remoteIA, Host: net.UDPAddrFromAddrPort(p.addr)}
			if local {
				la.Host.IP = bad
			} else {
				ra.Host.IP = bad
			}
			var path snet.Path = spath.Path{Src: localIA, Dst: remoteIA, DataplanePath: spath.Empty{}, NextHop: net.UDPAddrFromAddrPort(p.addr)}
			ctx, cancel := context.WithTimeout(context.Background(), 100*time.Millisecond)
			rr := <-callClient(func() (time.Time, time.Duration, error) { return client.VerifC03MeasureSCION(ctx, sl.c, la, ra, path) })
			cancel()
			op := fmt.Sprintf("cli.hdr dscp=0 lia=%d lip=x%s ria=%d rip=x%s lport=0 rport=%d path=true auth=false",
				uint64(localIA), lib.Hex(la.Host.IP), uint64(remoteIA), lib.Hex(ra.Host.IP), p.addr.Port())
			var ans string
			switch {
			case rr.panic != "":
				ans = "panic " + rr.panic
			case rr.err != nil && strings.Contains(rr.err.Error(), "unexpected address type"):
				ans = "err addr"
			default:
				ans = "other " + fmt.Sprint(rr.err)
			}
			c.Count(fmt.Sprintf("%s:non-ip:local=%v", tag, local))
			c.Emit(op, ans)
		}
	}
}

// modelKeyHosts: kl= kr= as the model prints them (canonical bytes of the unmapped addresses) — computed here
// with netip, independently of the model, for exchanges in which no key request is observable.
func modelKeyHosts(lip, rip net.IP) string {
	f := func(b net.IP) string {
		a, ok := netip.AddrFromSlice(b)
		if !ok {
			return "-"
		}
		return "x" + lib.Hex(a.Unmap().AsSlice())
	}
	return "kl=" + f(lip) + " kr=" + f(rip)
}

// hdrLive wraps a scionLive: its parse also keeps the peer's full parse of the request.
type hdrLive struct {
	*scionLive
	out *parsed
}

func (h hdrLive) parse(b []byte) reqInfo {
	*h.out = parseSCION(b)
	return h.scionLive.parse(b)
}

func exchangeHdr(c *lib.Ctx, sl *scionLive, cfg exchCfg, sc script, out *parsed) exchResult {
	return exchange(c, hdrLive{sl, out}, cfg, sc)
}

// ---------------------------------------------------------------- cookie pool and the origin `continue`

// genPoolOrigin: one live NTS exchange per op (runExch of gen_pool.go: real client, scripted clock reading and
// crypto/rand, the fetcher's pool preloaded) in which the peer sends datagrams that AUTHENTICATE under the
// server-to-client key and the request's unique identifier but do not all echo the request's transmit
// timestamp: nts.ProcessResponse has stored their cookies before the origin check refuses them, and while a
// retry is left the loop goes on to the next datagram — a second StoreCookie round in ONE exchange
// (Model/ClientTail.lean poolLoop; op cli.pool over ghost tags: pool entry i = i+1, cookies of datagram j = 100(j+1)+k).
// Direct oracles on the pool the hook shows afterwards: `C11:pool-exceeds-eight` (the pool holds more than eight
// cookies although every authenticated datagram echoed the request — a conformant server), `C11:pool-shrunk`
// (a completed exchange left fewer cookies than before), `C11:unauthenticated-cookie-stored`.
func genPoolOrigin(c *lib.Ctx, tag string, scionTr bool) {
	if sandbox != "" {
		return
	}
	r := c.Rand.Fork(tag)
	tr := "ip"
	if scionTr {
		tr = "scion"
	}
	c.Comment("pool under authenticated datagrams with a stale origin: " + tag)
	type shape struct {
		name string
		seq  []int // 0: authenticated, stale origin; 1: authenticated, echoes the request; 2: junk (does not authenticate)
	}
	shapes := []shape{{"stale,genuine", []int{0, 1}}, {"genuine", []int{1}}, {"stale", []int{0}}, {"stale,stale", []int{0, 0}},
		{"junk,stale,genuine", []int{2, 0, 1}}, {"junk,genuine", []int{2, 1}}, {"genuine,stale", []int{1, 0}}, {"stale,junk,genuine", []int{0, 2, 1}}}
	const cookieLen = 100
	for rep := 0; rep < c.Scale(1, 4); rep++ {
		for level := 1; level <= 8; level++ {
			for _, sh := range shapes {
				c2s, s2c := r.Bytes(32), r.Bytes(32)
				var pool [][]byte
				tagOf := map[string]int{}
				for i := 0; i < level; i++ {
					ck := r.Bytes(cookieLen)
					pool = append(pool, ck)
					tagOf[string(ck)] = i + 1
				}
				now := wallNow().UnixNano()
				rnd := r.Bytes(48)
				uid := rnd[:32]
				nph := 8 - level
				if f := fitFields(32, cookieLen); nph > f-1 {
					nph = f - 1
				}
				var d [][]byte
				var ds []string
				conformant, willAccept := true, false
				rounds := 0
				for j, k := range sh.seq {
					var fresh [][]byte
					var tags []string
					for x := 0; x < 1+nph; x++ {
						ck := r.Bytes(cookieLen)
						fresh = append(fresh, ck)
						tagOf[string(ck)] = 100*(j+1) + x
						tags = append(tags, fmt.Sprint(100*(j+1)+x))
					}
					hdr := serverHdr(now, pickTheta(r))
					switch k {
					case 0:
						put64(hdr[24:], enc64(now-nsps-int64(r.Intn(1000)))) // an origin the request did not carry
						d = append(d, genuineReply(hdr, uid, s2c, r.Bytes(16), fresh, nil))
						ds = append(ds, "true:false:["+strings.Join(tags, ",")+"]")
						conformant = false
					case 1:
						d = append(d, genuineReply(hdr, uid, s2c, r.Bytes(16), fresh, nil))
						ds = append(ds, "true:true:["+strings.Join(tags, ",")+"]")
					default:
						d = append(d, genuineReply(hdr, uid, r.Bytes(32), r.Bytes(16), fresh, nil)) // sealed under another key
						ds = append(ds, "false:true:["+strings.Join(tags, ",")+"]")
					}
					_ = rounds
				}
				// the loop looks at two datagrams at most; it ends at the first that authenticates and echoes
				for j, k := range sh.seq {
					if j > 1 {
						break
					}
					if k == 1 {
						willAccept = true
						break
					}
				}
				// an exchange that is not completed ends at the second refusal or — one datagram only — at the
				// deadline; the deadline is far enough for the retry decision to see it ahead (op: retry=true)
				dl := 250
				if willAccept {
					dl = 4000
				}
				op := exchOp{tr: tr, pool: pool, c2s: c2s, s2c: s2c, hdr: clientHdr(now), now: now, dl: dl, rnd: rnd, d: d}
				resetHeartbeat()
				res := runExch(op)
				if !res.ran || starved(100*time.Millisecond) || res.accept != willAccept && time.Duration(dl)*time.Millisecond < res.elapsed+5*time.Millisecond {
					c.Count(tag + ":discarded")
					continue
				}
				var after []string
				unknown := false
				for _, ck := range res.pool {
					t, ok := tagOf[string(ck)]
					if !ok {
						unknown = true
					}
					after = append(after, fmt.Sprint(t))
				}
				var before []string
				for i := range pool {
					before = append(before, fmt.Sprint(i+1))
				}
				line := fmt.Sprintf("cli.pool retry=true pool=[%s] ds=%s", strings.Join(before, ","), strings.Join(ds, ";"))
				ans := fmt.Sprintf("ok pool=[%s] past=%s", strings.Join(after, ","), lib.Bool(res.accept))
				if unknown {
					c.Fail("C11:unauthenticated-cookie-stored", "the pool holds a cookie the peer never issued", []string{line}, nil)
				}
				for _, ck := range res.pool {
					if t := tagOf[string(ck)]; t >= 100 && sh.seq[t/100-1] == 2 {
						c.Fail("C11:unauthenticated-cookie-stored", "the pool holds a cookie of a datagram that does not authenticate", []string{line}, map[string]any{"tag": t})
					}
				}
				if len(res.pool) > 8 {
					if conformant {
						c.Fail("C11:pool-exceeds-eight", "the pool holds more than eight cookies after an exchange in which every authenticated datagram echoed the request",
							[]string{line}, map[string]any{"pool": len(res.pool), "level": level})
					} else {
						c.Count(tag + ":observed:pool-above-eight-after-two-store-rounds")
					}
				}
				if res.accept && len(res.pool) < level {
					c.Fail("C11:pool-shrunk", "a completed exchange left fewer cookies in the pool than it found", []string{line}, nil)
				}
				c.Count(fmt.Sprintf("%s:%s:accept=%v", tag, sh.name, res.accept))
				c.Emit(line, ans)
			}
		}
	}
}
