package main

// Streams over the control flow AROUND the per-datagram decision (Model/ClientFlow.lean):
//
//	genNoStamp   the regime without kernel timestamps (local address zone "lo": hardware timestamping
//	             requested on loopback, the kernel delivers neither transmit nor receive timestamps): every
//	             timestamp of the exchange is a reading of the process clock, which the harness records —
//	             so the exchange is an exact function of the recorded readings (op cli.xchg, no derived
//	             inputs). Basic, interleaved after basic, interleaved after interleaved; a duplicate of the
//	             previous exchange's response before / after / instead of the genuine one; loss.
//	genWrapCtx   the exported wrappers MeasureClockOffsetIP / MeasureClockOffsetSCION (one client, one
//	             path) under contexts that are live, expired on entry, cancelled on entry, expiring or
//	             cancelled between attempts (op cli.wrapx).
//
// Direct oracles are stated on what the peer did by construction: a datagram is "genuine" iff the peer
// built it as the answer to the request at hand; a duplicate of an earlier answer is not.

import (
	"context"
	"fmt"
	"net"
	"strings"
	"time"

	"github.com/scionproto/scion/pkg/snet"
	spath "github.com/scionproto/scion/pkg/snet/path"

	"example.com/scion-time/core/client"
	"example.com/scion-time/net/ntp"
	"example.com/scion-time/net/nts"
	"example.com/scion-time/net/udp"

	"verifharness/lib"
)

// evX renders the delivered datagrams for op cli.xchg: as evIP, but with the kernel receive timestamp
// (`-`: none, the client reads the clock) in place of a receive time and without the deadline verdicts
// (the model evaluates the deadline test on the clock readings).
func evX(p *peer, sent []dgram, deadlineSet bool, bufCap int) string {
	var ev []string
	for _, d := range sent {
		v := fmt.Sprintf(":%s:%s:%s", lib.Bool(d.ntsDec), lib.Bool(d.ntsUID), lib.Bool(d.ntsOpen))
		var lvm, st uint8
		var org, rx, tx ntp.Time64
		if len(d.b) >= 48 {
			lvm, st = d.b[0], d.b[1]
			org, rx, tx = be64(d.b[24:]), be64(d.b[32:]), be64(d.b[40:])
		}
		if d.wire != nil && len(d.wire) > scionBufLen {
			ev = append(ev, "f")
			continue
		}
		if d.wire != nil {
			ev = append(ev, fmt.Sprintf("s:%s:%d:%d:%d:%s:%s:%s:-", d.facts, len(d.b), lvm, st, f64(org), f64(rx), f64(tx))+v)
			continue
		}
		if len(d.b) > bufCap {
			ev = append(ev, "f")
			continue
		}
		ev = append(ev, fmt.Sprintf("d:%d:%d:%d:%d:%s:%s:%s:-", p.srcNum(d.src), len(d.b), lvm, st, f64(org), f64(rx), f64(tx))+v)
	}
	if deadlineSet {
		ev = append(ev, "e")
	}
	if len(ev) == 0 {
		return "-"
	}
	return strings.Join(ev, ";")
}

func abs64(x int64) int64 {
	if x < 0 {
		return -x
	}
	return x
}

// recordX: the two op lines of an exchange in the regime without kernel timestamps, and the direct
// oracles. Everything the client branched on is observable here: the clock readings are recorded.
func recordX(c *lib.Ctx, tag string, cfg exchCfg, res exchResult) {
	p := thePeer
	reference := p.addr.String()
	if res.tr == "scion" {
		reference = scionReference()
	}
	ilS := lib.Bool(cfg.il)
	opReq := fmt.Sprintf("cli.req tr=%s il=%s ref=same prev=%s now=%d", res.tr, ilS, prevStr(res.prev0, reference), res.now0)
	kind := "basic"
	if res.ri.interleavedRq {
		kind = "il"
	}
	c.Emit(opReq, fmt.Sprintf("ok %s %d %s %s %s", kind, res.ri.lvm, f64(res.ri.org), f64(res.ri.rx), f64(res.ri.tx)))
	c.Count(tag + ":req:" + kind)

	dl, filt := "-", "-"
	if cfg.deadline != 0 {
		dl = fmt.Sprint(res.deadlineAt.UnixNano())
	}
	if cfg.filter {
		filt = "424242"
	}
	bufCap := 48
	if cfg.nts {
		bufCap = nts.MaxPacketLen
	}
	op := fmt.Sprintf("cli.xchg tr=%s il=%s nts=%s dl=%s filt=%s %s ref=same prev=%s rd=%s tx=none ev=%s",
		res.tr, ilS, lib.Bool(cfg.nts), dl, filt, res.hdr, prevStr(res.prev0, reference), lib.IntList(res.rd),
		evX(p, res.sent, cfg.deadline != 0, bufCap))
	accepted := res.err == nil && res.panicked == ""
	// readings the peer can vouch for as taken before the request was handed to the kernel: those not
	// after its own reading at receipt (same clock)
	pre := 0
	for _, x := range res.rd {
		if x <= res.recvAt {
			pre++
		}
	}
	var ans string
	switch {
	case res.panicked != "":
		ans = "panic " + res.panicked
		c.Count(tag + ":exch:panic")
	case !accepted:
		k := errKind(res.err)
		if k == "other" && res.tr == "scion" {
			k = "layers"
		}
		ans = fmt.Sprintf("err %s prev=%s rd=%d pre=%d", k, prevStr(res.prev1, reference), len(res.rd), pre)
		c.Count(tag + ":exch:err:" + k)
	default:
		acceptedIL := cfg.il && res.prev1.Interleaved
		ans = fmt.Sprintf("ok accept il=%s off=%d ts=%d", lib.Bool(acceptedIL), int64(res.off), res.ts.UnixNano())
		if cfg.filter {
			ans += fmt.Sprintf(" tuple=%d,%d,%d,%d", res.filter.t[0].UnixNano(), res.filter.t[1].UnixNano(), res.filter.t[2].UnixNano(), res.filter.t[3].UnixNano())
		}
		ans += fmt.Sprintf(" prev=%s rd=%d pre=%d", prevStr(res.prev1, reference), len(res.rd), pre)
		c.Count(tag + ":exch:accept:il=" + lib.Bool(acceptedIL))
	}
	c.Emit(op, ans)
	ops := []string{opReq, op}

	if res.panicked != "" {
		c.Fail("C08:client:panic-on-datagram", "a datagram sent in response to the client's request makes the client panic: "+res.panicked, ops, nil)
		return
	}
	if !accepted {
		if res.off != 0 || !res.ts.IsZero() {
			c.Fail("C05:offset-with-error", "an error was returned together with a timestamp/offset", ops, nil)
		}
		return
	}
	// --- which datagram does the result stem from? by the receive stamp that went into prev (interleaved
	// mode on: every datagram of a sequence carries its own receive stamp) or by the filter tuple's t2
	used := -1
	for i, d := range res.sent {
		if len(d.b) < 48 {
			continue
		}
		switch {
		case cfg.il:
			if be64(d.b[32:]) == res.prev1.SRxTime {
				used = i
			}
		case cfg.filter && res.filter.got:
			if dec64(be64(d.b[40:]), res.now0) == res.filter.t[2].UnixNano() {
				used = i
			}
		}
		if used >= 0 {
			break
		}
	}
	anyGenuine := false
	for _, d := range res.sent {
		anyGenuine = anyGenuine || d.genuine
	}
	if !anyGenuine {
		c.Fail("C05:accepted-without-acceptable-datagram", "the client reported a measurement although the peer delivered no answer to the outstanding request in this exchange",
			ops, map[string]any{"sent": len(res.sent), "offset": int64(res.off)})
		return
	}
	if used < 0 {
		c.Fail("C05:accepted-without-acceptable-datagram", "the client reported a measurement that stems from none of the delivered datagrams",
			ops, map[string]any{"sent": len(res.sent), "offset": int64(res.off), "prev1": prevStr(res.prev1, reference)})
		return
	}
	d := res.sent[used]
	if !d.genuine {
		c.Fail("C03:response-of-another-exchange-evaluated",
			"the client took its measurement from a datagram that is by construction not the server's answer to the outstanding request: a duplicate of the answer to the previous request (its timestamps belong to another exchange)",
			ops, map[string]any{"used": used, "offset": int64(res.off), "theta": res.theta, "request_interleaved": res.ri.interleavedRq,
				"request_tx": f64(res.ri.tx), "datagram_origin": f64(be64(d.b[24:]))})
		return
	}
	c.Count(tag + ":oracle:used-datagram-genuine")
	// --- the tuple, by the harness's own reading
	acceptedIL := cfg.il && res.prev1.Interleaved
	var t [4]int64
	theta, thetaOK := res.theta, true
	if acceptedIL {
		t = [4]int64{dec64(res.prev0.CTxTime, res.now0), dec64(res.prev0.SRxTime, res.now0), dec64(be64(d.b[40:]), res.now0), dec64(res.prev0.CRxTime, res.now0)}
		theta, thetaOK = p.theta[res.prev0.SRxTime]
	} else {
		t[1], t[2], t[3] = dec64(be64(d.b[32:]), res.now0), dec64(be64(d.b[40:]), res.now0), res.ts.UnixNano()
		t0ok := false
		switch {
		case cfg.filter && res.filter.got:
			t[0], t0ok = res.filter.t[0].UnixNano(), true
		case cfg.il:
			for _, x := range res.rd {
				if enc64(x) == res.prev1.CTxTime {
					t[0], t0ok = x, true
					break
				}
			}
		}
		if !t0ok {
			c.Fail("C03:t0-outside-exchange", "the transmit time the client stored is none of the clock readings it took during the call (no kernel timestamps in this regime)",
				ops, map[string]any{"prev1": prevStr(res.prev1, reference), "readings": res.rd})
			return
		}
		// the client's transmit time must not be after the request reached the peer (same clock), nor
		// before the reading the request was built from
		if t[0] < res.now0 || t[0] > res.ri.R {
			c.Fail("C03:t0-outside-exchange",
				"the transmit time the client combines with the server's stamps does not lie between the clock reading before the request was built and the request's arrival at the peer: it was taken after the request had been received",
				ops, map[string]any{"t0": t[0], "now0": res.now0, "peer_receipt": res.ri.R, "late_by_ns": t[0] - res.ri.R, "offset": int64(res.off), "theta": theta})
		}
	}
	off, rtd := goClockOffset(t[0], t[1], t[2], t[3])
	if !cfg.filter && off != int64(res.off) {
		c.Fail("C03:offset-not-one-exchange", "returned offset is not the formula on the four timestamps of one exchange",
			ops, map[string]any{"t": t, "off": int64(res.off), "want": off, "il": acceptedIL})
	}
	if thetaOK {
		if e := abs64(off - theta); 2*e > rtd+3 {
			c.Fail("C03:half-rtt", "|offset - theta| exceeds half the round-trip delay + 1.5 ns",
				ops, map[string]any{"t": t, "off": off, "theta": theta, "rtd": rtd, "il": acceptedIL, "error_ns": e})
		}
		c.Count(tag + ":oracle:half-rtt")
	}
}

// genNoStamp: histories of one client without kernel timestamps.
func genNoStamp(c *lib.Ctx, tag string, scionTr bool) {
	if sandbox != "" {
		return
	}
	p := thePeer
	r := c.Rand.Fork(tag)
	shapes := []string{"dup,genuine", "genuine", "loss", "dup", "dup,dup,genuine", "genuine,dup", "dup,genuine:basic-reply", "basic-client"}
	rounds := c.Scale(2, 24)
	c.Comment("history " + tag)
	for round := 0; round < rounds; round++ {
		for _, shape := range shapes {
			var lc liveClient
			var sl *scionLive
			if scionTr {
				sl = &scionLive{c: &client.SCIONClient{Log: logger}}
				lc = sl
			} else {
				lc = ipLive{&client.IPClient{Log: logger}}
			}
			il := shape != "basic-client"
			var lastReply []byte // payload of the genuine reply of the previous accepted exchange
			mk := func(pay []byte, genuine bool) dgram {
				var d dgram
				if scionTr {
					d = buildSCION(genuineVariant(), uint16(p.addr.Port()), sl.srcPort, pay)
				} else {
					d = dgram{src: srcServer, b: pay}
				}
				d.genuine = genuine
				return d
			}
			step := func(name string, order string, wantIL bool) (ok bool) {
				cfg := exchCfg{il: il, deadline: 400 * time.Millisecond, zone: "lo"}
				cfg.filter = !il || r.Chance(35)
				if !strings.Contains(order, "genuine") {
					cfg.deadline = 25 * time.Millisecond
				}
				theta := pickTheta(r)
				fwd, proc, back := r.Range(0, 200)*int64(r.Intn(2)), r.Range(0, 200)*int64(r.Intn(2)), r.Range(0, 200)*int64(r.Intn(2))
				dup := lastReply
				var this []byte
				sc := func(ri *reqInfo) ([]dgram, int64, int64, bool) {
					usleep(fwd)
					ri.R = wallNow().UnixNano()
					usleep(proc)
					S := wallNow().UnixNano()
					g, gil := p.reply(*ri, theta, S, wantIL)
					this = g
					var out []dgram
					hasGenuine := false
					for _, k := range strings.Split(order, ",") {
						switch {
						case k == "genuine":
							out = append(out, mk(g, true))
							hasGenuine = true
						case k == "dup" && dup != nil:
							out = append(out, mk(dup, false))
						}
					}
					usleep(back)
					if !hasGenuine {
						return out, theta, 0, false
					}
					return out, theta, S, gil
				}
				res := exchange(c, lc, cfg, sc)
				if !res.valid {
					c.Count(tag + ":discarded")
					return false
				}
				recordX(c, tag+":"+name, cfg, res)
				if res.err == nil && res.panicked == "" {
					lastReply = this
					return true
				}
				return false
			}
			c.Count(tag + ":scenario:" + shape)
			if !step("ex1", "genuine", false) {
				continue
			}
			order, wantIL := shape, true
			switch shape {
			case "loss":
				order = ""
			case "dup,genuine:basic-reply":
				order, wantIL = "dup,genuine", false
			case "basic-client":
				order = "dup,genuine"
			}
			step("ex2:"+shape, order, wantIL)
			// one more exchange with the duplicate of whatever was accepted last in front
			step("ex3", "dup,genuine", r.Bool())
			if r.Chance(50) {
				step("ex4", "genuine,dup", true)
			}
		}
	}
}

// ---------------------------------------------------------------- wrappers x context

// wrapErrKind: error classes of the wrappers.
func wrapErrKind(err error) string {
	s := err.Error()
	switch {
	case strings.Contains(s, "no successful measurement"):
		return "nomeas"
	case strings.Contains(s, "write") && strings.Contains(s, "i/o timeout"):
		return "other" // the request could not be written: the deadline had passed
	}
	return errKind(err)
}

// genWrapCtx drives the exported wrappers under every context regime. Per attempt the plan says what
// the peer does: 1 basic reply, 2 interleaved reply if possible, 0 two runts (error), 3 silence.
func genWrapCtx(c *lib.Ctx, tag string, scionTr bool) {
	if sandbox != "" {
		return
	}
	p := thePeer
	r := c.Rand.Fork(tag)
	type regime struct {
		name string
		plan [3]int
	}
	regimes := []regime{
		{"expired-on-entry", [3]int{1, 1, 1}},
		{"cancelled-on-entry", [3]int{1, 1, 1}},
		{"cancelled-on-entry", [3]int{1, 2, 2}},
		{"cancelled-on-entry", [3]int{0, 1, 1}},
		{"live", [3]int{1, 1, 1}},
		{"live", [3]int{1, 2, 1}},
		{"live", [3]int{0, 0, 1}},
		{"live", [3]int{0, 0, 0}},
		{"expires-in-attempt-1", [3]int{3, 1, 1}},
		{"expires-in-attempt-2", [3]int{1, 3, 1}},
		{"expires-in-attempt-3", [3]int{1, 1, 3}},
		{"expires-in-attempt-2", [3]int{0, 3, 1}},
		{"cancelled-after-attempt-1", [3]int{1, 1, 1}},
		{"cancelled-after-attempt-1", [3]int{1, 0, 0}},
		{"cancelled-after-attempt-2", [3]int{0, 1, 1}},
	}
	tr := "ip"
	if scionTr {
		tr = "scion"
	}
	c.Comment("wrappers under context regimes: " + tag)
	rounds := c.Scale(1, 8)
	for round := 0; round < rounds; round++ {
		for _, rg := range regimes {
			for _, il := range []bool{false, true} {
				reps := 1
				if scionTr && (rg.name == "expired-on-entry" || strings.HasPrefix(rg.name, "cancelled")) {
					reps = 4 // the SCION wrapper's collection step races against ctx.Done(): several tries
				}
				for rep := 0; rep < reps; rep++ {
					wrapCtxOnce(c, r, p, tag, tr, rg.name, rg.plan, il)
				}
			}
		}
	}
}

func wrapCtxOnce(c *lib.Ctx, r *lib.Rand, p *peer, tag, tr, regime string, plan [3]int, il bool) {
	scionTr := tr == "scion"
	n := 1
	if il {
		n = 3
	}
	var ctx context.Context
	var cancel context.CancelFunc
	switch {
	case regime == "expired-on-entry":
		ctx, cancel = context.WithDeadline(context.Background(), time.Now().Add(-time.Duration(1+r.Intn(50))*time.Millisecond))
	case strings.HasPrefix(regime, "expires-in-attempt"):
		ctx, cancel = context.WithTimeout(context.Background(), 400*time.Millisecond)
	default:
		ctx, cancel = context.WithTimeout(context.Background(), 3*time.Second)
	}
	defer cancel()
	if regime == "cancelled-on-entry" {
		cancel()
	}
	cancelAfter := 0
	fmt.Sscanf(regime, "cancelled-after-attempt-%d", &cancelAfter)

	// drain stale requests
	p.conns[0].SetReadDeadline(time.Now().Add(time.Millisecond))
	for {
		if _, _, err := p.conns[0].ReadFromUDPAddrPort(make([]byte, 2048)); err != nil {
			break
		}
	}
	clk.reset()
	resetHeartbeat()
	start := time.Now()
	var done chan callRes
	var sl *scionLive
	if scionTr {
		sl = &scionLive{c: &client.SCIONClient{Log: logger, InterleavedMode: il}}
		la := udp.UDPAddr{IA: localIA, Host: &net.UDPAddr{IP: scionLocalIP()}}
		ra := scionRemote()
		var path snet.Path = spath.Path{Src: localIA, Dst: remoteIA, DataplanePath: spath.Empty{}, NextHop: net.UDPAddrFromAddrPort(p.addr)}
		done = callClient(func() (time.Time, time.Duration, error) {
			return client.MeasureClockOffsetSCION(ctx, logger, []*client.SCIONClient{sl.c}, la, ra, []snet.Path{path})
		})
	} else {
		ipc := &client.IPClient{Log: logger, InterleavedMode: il}
		la := &net.UDPAddr{IP: net.IPv4(127, 0, 0, 1).To4()}
		ra := net.UDPAddrFromAddrPort(p.addr)
		done = callClient(func() (time.Time, time.Duration, error) { return client.MeasureClockOffsetIP(ctx, logger, ipc, la, ra) })
	}
	// per attempt: context state on entry as the harness arranged it, and what the peer did
	var att []string
	made, lastTag := 0, 0
	answered := 0 // genuine replies delivered during this call
	silentAt := -1
	buf := make([]byte, 2048)
	var r0 callRes
	finished, timingBad, returned, ctxDoneAtReturn := false, false, false, false
	idle := 0
	for !finished {
		p.conns[0].SetReadDeadline(time.Now().Add(5 * time.Millisecond))
		nb, from, err := p.conns[0].ReadFromUDPAddrPort(buf)
		if err != nil {
			if returned {
				// MeasureClockOffsetSCION may return while its per-path goroutine is still at work (collection
				// step left through ctx.Done()): keep serving that goroutine, by the plan, until it is quiet —
				// its further exchanges are part of what the loop does, and nothing of this call may reach the next
				if idle++; idle >= 8 {
					finished = true
				}
				continue
			}
			select {
			case r0 = <-done:
				ctxDoneAtReturn = ctx.Err() != nil
				if scionTr {
					returned = true
				} else {
					finished = true
				}
			default:
				if time.Since(start) > 20*time.Second {
					timingBad, finished = true, true
				}
			}
			continue
		}
		idle = 0
		if made >= n {
			timingBad = true
			continue
		}
		var ri reqInfo
		if scionTr {
			ri = sl.parse(buf[:nb])
		} else {
			ri = parseReq(buf[:nb])
		}
		if !ri.ok {
			timingBad = true
			continue
		}
		if strings.HasPrefix(regime, "expires-in-attempt") && time.Since(start) > 100*time.Millisecond {
			timingBad = true // the peer was stalled: the deadline (400 ms) may cut into an attempt that was to be answered
		}
		ri.R = wallNow().UnixNano()
		theta := int64(made+1) * 1000 * nsps
		S := wallNow().UnixNano()
		state := "l"
		if regime == "cancelled-on-entry" || cancelAfter != 0 && made >= cancelAfter {
			state = "c"
		}
		send := func(pay []byte) {
			if scionTr {
				p.conns[0].WriteToUDPAddrPort(buildSCION(genuineVariant(), uint16(p.addr.Port()), sl.srcPort, pay).wire, from)
			} else {
				p.conns[0].WriteToUDPAddrPort(pay, from)
			}
		}
		switch plan[made] {
		case 0:
			send(make([]byte, 20))
			send(make([]byte, 20))
			att = append(att, state+"/err:size")
		case 3:
			att = append(att, state+"/err:read")
			silentAt = made
		default:
			g, gil := p.reply(ri, theta, S, plan[made] == 2)
			send(g)
			p.remember(ri, theta, S)
			answered++
			t := made + 1
			if gil {
				t = lastTag
			}
			lastTag = made + 1
			att = append(att, fmt.Sprintf("%s/ok:%d:%s", state, t, lib.Bool(il && gil)))
		}
		made++
		if cancelAfter != 0 && made == cancelAfter {
			cancel()
		}
	}
	if timingBad || r0.panic != "" || strings.HasPrefix(regime, "expires-in-attempt") && starved(50*time.Millisecond) {
		c.Count(tag + ":discarded:" + regime)
		return
	}
	switch {
	case regime == "expired-on-entry":
		if made != 0 {
			c.Count(tag + ":discarded:" + regime)
			return
		}
	case strings.HasPrefix(regime, "expires-in-attempt"):
		if silentAt < 0 {
			c.Count(tag + ":discarded:" + regime) // the silent attempt was not reached (loop ended before)
			if made < n && !strings.Contains(strings.Join(att, ","), ":true") {
				return
			}
		}
	}
	// attempts the peer saw nothing of: never entered (the loop ended in interleaved mode — the model stops
	// there as well), or entered with the deadline passed (nothing is sent), or — in a regime whose context
	// never expires during the call — not made although the loop should have made them: those are put down as
	// lost exchanges, which the model counts as requests sent
	brokeAfterIL := len(att) > 0 && strings.HasSuffix(att[len(att)-1], ":true")
	expiring := regime == "expired-on-entry" || strings.HasPrefix(regime, "expires-in-attempt")
	for k := made; k < n; k++ {
		switch {
		case brokeAfterIL:
			att = append(att, "l/-")
		case expiring:
			att = append(att, "x/-")
		default:
			st := "l"
			if regime == "cancelled-on-entry" || cancelAfter != 0 && k >= cancelAfter {
				st = "c"
			}
			att = append(att, st+"/err:read")
			c.Count(tag + ":attempt-not-seen-by-the-peer")
		}
	}
	op := fmt.Sprintf("cli.wrapx tr=%s il=%s att=%s", tr, lib.Bool(il), strings.Join(att, ","))
	c.Count(fmt.Sprintf("%s:%s:il=%s", tag, regime, lib.Bool(il)))
	var ans string
	if r0.err != nil {
		ans = fmt.Sprintf("err %s reqs=%d", wrapErrKind(r0.err), made)
		if scionTr && answered > 0 && wrapErrKind(r0.err) == "nomeas" && strings.Contains(strings.Join(att, ","), "/ok:") {
			// a per-path measurement succeeded but the collection step took ctx.Done() instead: admissible
			// only when the context was done by then
			op += " coll=false"
			c.Count(tag + ":scion:measurement-not-collected")
			if !ctxDoneAtReturn {
				c.Count(tag + ":scion:measurement-not-collected-with-live-context")
			}
		}
		if r0.off != 0 || !r0.ts.IsZero() {
			c.Fail("C05:offset-with-error", "the wrapper returned an error together with a timestamp/offset", []string{op}, nil)
		}
	} else {
		which := (int64(r0.off) + 500*nsps) / (1000 * nsps)
		ans = fmt.Sprintf("ok %d reqs=%d", which, made)
		// direct oracles, on what the peer did: nothing delivered => no success
		if answered == 0 {
			c.Fail("C05:wrapper:success-without-datagram",
				"the wrapper reported a successful measurement although the peer delivered no answer during the call (requests seen: "+fmt.Sprint(made)+"): (timestamp, offset, nil) based on no datagram",
				[]string{op}, map[string]any{"regime": regime, "offset": int64(r0.off), "ts_zero": r0.ts.IsZero(), "requests_seen": made, "transport": tr})
		} else {
			fromOK := strings.Contains(op, fmt.Sprintf("/ok:%d:", which))
			dev := abs64(int64(r0.off) - which*1000*nsps)
			if !fromOK || dev > nsps || r0.ts.Before(start.Add(-time.Second)) || r0.ts.After(time.Now().Add(time.Second)) {
				c.Fail("C05:wrapper-result-not-from-successful-attempt",
					"the wrapper returned a nil error with a (timestamp, offset) that is not the result of any successful attempt of the call",
					[]string{op}, map[string]any{"regime": regime, "offset": int64(r0.off), "ts_zero": r0.ts.IsZero(), "ts": r0.ts.UnixNano()})
			}
		}
	}
	c.Emit(op, ans)
}
