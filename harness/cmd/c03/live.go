package main

import (
	"bytes"
	"context"
	"encoding/binary"
	"fmt"
	"io"
	"log/slog"
	"net"
	"net/netip"
	"strings"
	"sync"
	"time"

	"example.com/scion-time/core/client"
	"example.com/scion-time/core/timebase"
	"example.com/scion-time/net/ntp"
	"example.com/scion-time/net/nts"
	"example.com/scion-time/net/ntske"

	"github.com/miscreant/miscreant.go"

	"verifharness/lib"
)

// ---------------------------------------------------------------- recording clock

// recClock is registered as the process clock (timebase.RegisterClock): it returns the real
// wall clock (without monotonic reading, like driver/clocks on Linux), or a scripted value,
// and logs every reading so the harness knows cTxTime0 exactly.
type recClock struct {
	mu       sync.Mutex
	log      []time.Time
	override []time.Time
}

func wallNow() time.Time { return time.Unix(0, time.Now().UnixNano()).UTC() }

func (c *recClock) Now() time.Time {
	c.mu.Lock()
	defer c.mu.Unlock()
	var t time.Time
	if len(c.override) > 0 {
		t = c.override[0]
		c.override = c.override[1:]
	} else {
		t = wallNow()
	}
	c.log = append(c.log, t)
	return t
}
func (c *recClock) reset(override ...time.Time) {
	c.mu.Lock()
	c.log = nil
	c.override = override
	c.mu.Unlock()
}
func (c *recClock) readings() []time.Time {
	c.mu.Lock()
	defer c.mu.Unlock()
	return append([]time.Time(nil), c.log...)
}
func (c *recClock) Epoch() uint64                                      { return 0 }
func (c *recClock) Drift(time.Duration) time.Duration                  { return 0 }
func (c *recClock) Step(time.Duration)                                 {}
func (c *recClock) Adjust(time.Duration, time.Duration, float64)       {}
func (c *recClock) Sleep(d time.Duration)                              { time.Sleep(d) }

var clk = &recClock{}

// ---------------------------------------------------------------- starvation witness

// A heartbeat goroutine notes the largest gap between two of its 500 µs ticks since the last reset. The
// clients run inside this process: when the machine is so loaded that the process does not get to run for
// tens of milliseconds, a client can miss its (real-time) deadline between two statements — e.g. decide to
// retry and then find the socket deadline passed although the next datagram is already queued. Such an
// exchange says nothing about the code; it is discarded (and counted), never reported. A defect of the
// code does not make the heartbeat miss its ticks.
var beat struct {
	mu     sync.Mutex
	last   time.Time
	maxGap time.Duration
	on     bool
}

func startHeartbeat() {
	beat.mu.Lock()
	if beat.on {
		beat.mu.Unlock()
		return
	}
	beat.on, beat.last = true, time.Now()
	beat.mu.Unlock()
	go func() {
		for {
			time.Sleep(500 * time.Microsecond)
			now := time.Now()
			beat.mu.Lock()
			if g := now.Sub(beat.last); g > beat.maxGap {
				beat.maxGap = g
			}
			beat.last = now
			beat.mu.Unlock()
		}
	}()
}

func resetHeartbeat() {
	startHeartbeat()
	beat.mu.Lock()
	beat.last, beat.maxGap = time.Now(), 0
	beat.mu.Unlock()
}

// starved: the process was not scheduled for more than limit at some point since resetHeartbeat.
func starved(limit time.Duration) bool {
	now := time.Now()
	beat.mu.Lock()
	defer beat.mu.Unlock()
	g := beat.maxGap
	if d := now.Sub(beat.last); d > g {
		g = d
	}
	return g > limit
}

// ---------------------------------------------------------------- recording filter

type recFilter struct {
	got   bool
	t     [4]time.Time
	value time.Duration
}

func (f *recFilter) Do(t0, t1, t2, t3 time.Time) time.Duration {
	f.got = true
	f.t = [4]time.Time{t0, t1, t2, t3}
	return f.value
}
func (f *recFilter) Reset() {}

// ---------------------------------------------------------------- own Time64 arithmetic
// (independent of net/ntp: used for the direct oracles)

const (
	ntpEpochOff = int64(2208988800)
	eraSec      = int64(1) << 32
	nsps        = int64(1000000000)
)

func enc64(ns int64) ntp.Time64 {
	sec := ns / nsps
	n := ns % nsps
	if n < 0 {
		n += nsps
		sec--
	}
	return ntp.Time64{Seconds: uint32(sec + ntpEpochOff), Fraction: uint32(n << 32 / nsps)}
}

// dec64 decodes relative to ref (ns): the value within [-2^31 s, 2^31 s) of ref's second.
func dec64(x ntp.Time64, ref int64) int64 {
	rs := ref / nsps
	sec := int64(x.Seconds) - ntpEpochOff
	k := (rs - sec + eraSec/2) / eraSec
	if rs-sec+eraSec/2 < 0 {
		k--
	}
	sec += k * eraSec
	for sec < rs-eraSec/2 {
		sec += eraSec
	}
	for sec >= rs+eraSec/2 {
		sec -= eraSec
	}
	return sec*nsps + int64(uint64(x.Fraction)*uint64(nsps)>>32)
}

func f64(x ntp.Time64) string { return fmt.Sprintf("%d.%d", x.Seconds, x.Fraction) }

func be64(b []byte) ntp.Time64 {
	return ntp.Time64{Seconds: binary.BigEndian.Uint32(b), Fraction: binary.BigEndian.Uint32(b[4:])}
}
func put64(b []byte, x ntp.Time64) {
	binary.BigEndian.PutUint32(b, x.Seconds)
	binary.BigEndian.PutUint32(b[4:], x.Fraction)
}

// ---------------------------------------------------------------- peer

const (
	srcServer    = 0 // the queried address and port
	srcOtherPort = 1 // same address, another port
	srcOtherAddr = 2 // 127.0.0.2
)

// dgram: b = the NTP payload (what the client's NTP stage sees); IP: sent as is from conns[src].
// SCION: wire = the SCION/UDP packet actually sent, facts = the parsed-packet facts for the
// model, pathOK = passes every check before the NTP stage (by the harness's own reading).
type dgram struct {
	src     int
	b       []byte
	genuine bool
	wire    []byte
	facts   string
	pathOK  bool
	tsOpt   int64 // SCION: receive time supplied in an E2E timestamp option (0: none)
	tsUse   bool  // ... and it lies inside the exchange, so the client is expected to use it
	tsAuto  bool  // ... the expectation is derived after the exchange from the kernel transmit time (recordIP)
	// SCION: structOK = SCION/UDP with a consistent UDP length; addrOK = from the queried ISD-AS
	// and host (as an IP address) and addressed to the client; pathOK = both
	structOK, addrOK bool
	// NTS verdicts for b, computed by the harness with the real libraries, independently of the
	// client: nts.DecodePacket ok / unique id equals the request's / AEAD opens under the S2C key
	ntsDec, ntsUID, ntsOpen bool
	// SCION packet authenticator (SPAO), by the harness's own reading of the bytes it sends and
	// its own MAC computation under the key the fake daemon hands out: an authenticator option
	// with the time-service server SPI and algorithm is present and its MAC does not verify /
	// verifies; authMalformed: the option's data length is not 28
	authInvalid, authValid, authMalformed bool
	// SCION, re-framed packets (gen_reframe.go): the NTP header the UDP length field delimits from the
	// start of the L4 data was written by the harness acting as an on-path attacker without keys
	forgedHdr bool
	// built by the peer as the answer to an EARLIER exchange's request (held back and delivered to the
	// address that request came from while the next request is outstanding)
	answersOther bool
}

type peer struct {
	conns [3]*net.UDPConn
	addr  netip.AddrPort // of conns[0]
	// server-side store for interleaved replies: receive stamp of the last reply -> (transmit stamp, theta)
	lastRx  ntp.Time64
	lastTx  int64
	hasLast bool
	theta   map[ntp.Time64]int64 // receive stamp of a genuine reply -> offset it was stamped with
	store   map[ntp.Time64]int64 // receive stamp -> transmit stamp of every exchange served (the server's timestamp store)
}

var (
	thePeer *peer
	logger  = slog.New(slog.NewTextHandler(io.Discard, nil))
	sandbox string // non-empty: live part cannot run
)

func setup(c *lib.Ctx) {
	timebase.RegisterClock(clk)
	p := &peer{theta: map[ntp.Time64]int64{}, store: map[ntp.Time64]int64{}}
	for i, a := range []string{"127.0.0.1:0", "127.0.0.1:0", "127.0.0.2:0"} {
		pc, err := net.ListenUDP("udp4", net.UDPAddrFromAddrPort(netip.MustParseAddrPort(a)))
		if err != nil {
			sandbox = "loopback UDP sockets unavailable: " + err.Error()
			c.NotExecuted(sandbox)
			return
		}
		p.conns[i] = pc
	}
	p.addr = p.conns[0].LocalAddr().(*net.UDPAddr).AddrPort()
	thePeer = p
}

func addrNum(a netip.Addr) uint64 {
	a = a.Unmap()
	if a.Is4() {
		b := a.As4()
		return uint64(binary.BigEndian.Uint32(b[:]))
	}
	b := a.As16()
	return binary.BigEndian.Uint64(b[8:]) ^ binary.BigEndian.Uint64(b[:8])<<1 | 1<<63
}

func (p *peer) srcNum(kind int) uint64 {
	return addrNum(p.conns[kind].LocalAddr().(*net.UDPAddr).AddrPort().Addr())
}

// reqInfo: what the peer saw of the request.
type reqInfo struct {
	ok            bool
	from          netip.AddrPort
	raw           []byte // NTP payload
	lvm           uint8
	org, rx, tx   ntp.Time64
	R             int64 // peer's reading at receipt (client clock = same clock)
	interleavedRq bool  // rx field non-zero
	uid           []byte // NTS unique identifier of the request (nil: none)
}

func parseReq(b []byte) (ri reqInfo) {
	if len(b) < 48 {
		return
	}
	ri.ok = true
	ri.raw = append([]byte(nil), b...)
	ri.lvm = b[0]
	ri.org, ri.rx, ri.tx = be64(b[24:]), be64(b[32:]), be64(b[40:])
	ri.interleavedRq = ri.rx != ntp.Time64{}
	if len(b) > 48 {
		var pkt nts.Packet
		func() {
			defer func() { recover() }()
			if nts.DecodePacket(&pkt, b) == nil {
				ri.uid = pkt.UniqueID.ID
			}
		}()
	}
	return
}

// reply builds the conformant server reply (C06's contract) for ri with stamps chosen as
// reading + theta. wantIL: answer interleaved when the request's origin matches the store.
func (p *peer) reply(ri reqInfo, theta int64, S int64, wantIL bool) (b []byte, il bool) {
	b = make([]byte, 48)
	b[0] = 0<<6 | 4<<3 | 4
	b[1] = 1
	b[2] = 6
	b[3] = 0xe7
	copy(b[12:16], "VRFY")
	put64(b[16:], enc64(ri.R+theta-1000000))
	rx := enc64(ri.R + theta)
	put64(b[32:], rx)
	if tx, ok := p.store[ri.org]; ok && wantIL && ri.interleavedRq && ri.rx != ri.tx {
		il = true
		put64(b[24:], ri.rx)
		put64(b[40:], enc64(tx))
	} else {
		put64(b[24:], ri.tx)
		put64(b[40:], enc64(S+theta))
	}
	return
}

// remember records the reply as the latest exchange served (what the real server does in
// its per-client store after transmitting).
func (p *peer) remember(ri reqInfo, theta, S int64) {
	p.lastRx = enc64(ri.R + theta)
	p.lastTx = S + theta
	p.hasLast = true
	p.theta[p.lastRx] = theta
	p.store[p.lastRx] = p.lastTx
}

// ---------------------------------------------------------------- one live IP exchange

type exchCfg struct {
	il       bool
	deadline time.Duration // 0: no deadline
	filter   bool
	setPrev  *client.VerifC03Prev
	setNow   func(prev client.VerifC03Prev) []time.Time // scripted clock readings (optional)
	nts      bool // client with NTS enabled (key exchange data preloaded through the ntske hook)
	spao     bool // SCION: Auth.Enabled with a DRKey fetcher that has no daemon (no key becomes available)
	spaoKey  bool // SCION: Auth.Enabled with a DRKey fetcher on a fake daemon connector: the host-host key is available
	port     int    // port of the client's local address as configured (0: none)
	zone     string // zone of the client's local address ("lo": hardware timestamping requested on loopback, so
	// the kernel delivers neither transmit nor receive timestamps and the client falls back to clock readings)
	nowAll   bool // setNow's values script ALL clock readings of the exchange in order (else the first only)
}

// liveZone: zone of the local address the live clients are called with (set per exchange).
var liveZone string

// livePort: port of the local address the live clients are called with (0: none configured).
var livePort int

// script decides, after seeing the request, which datagrams go back in which order.
type script func(ri *reqInfo) (out []dgram, theta int64, S int64, genuineIL bool)

type exchResult struct {
	valid      bool // false: discarded for timing reasons / sandbox
	prev0      client.VerifC03Prev
	prev1      client.VerifC03Prev
	ri         reqInfo
	sent       []dgram
	ts         time.Time
	off        time.Duration
	err        error
	panicked   string
	now0       int64
	filter     *recFilter
	theta      int64
	genuineIL  bool
	deadlineAt time.Time
	tr         string // "ip" | "scion"
	hdr        string // transport-specific key=value tokens of the cli.exch op
	rd         []int64 // every reading of the process clock during the call, in order
	recvAt     int64   // the peer's clock reading right after it received the request
}

type callRes struct {
	ts    time.Time
	off   time.Duration
	err   error
	panic string
}

func callClient(f func() (time.Time, time.Duration, error)) chan callRes {
	ch := make(chan callRes, 1)
	go func() {
		var r callRes
		defer func() {
			if x := recover(); x != nil {
				r.panic = lib.PanicClass(x)
			}
			ch <- r
		}()
		r.ts, r.off, r.err = f()
	}()
	return ch
}

func errKind(err error) string {
	if err == nil {
		return "nil"
	}
	s := err.Error()
	switch {
	case strings.Contains(s, "i/o timeout"):
		return "read"
	case strings.Contains(s, "unexpected flags"):
		return "flags"
	case strings.Contains(s, "unexpected source"):
		return "source"
	case strings.Contains(s, "unexpected type or structure"):
		return "unexpected"
	case strings.Contains(s, "unexpected packet size"):
		return "size"
	case strings.Contains(s, "unexpected response structure"):
		return "response"
	case strings.Contains(s, "unexpected response ID") || strings.Contains(s, "unexpected nonce length") || strings.Contains(s, "authentication failed"):
		return "ntsProcess" // nts.ProcessResponse: other unique identifier / the authenticator does not verify
	case strings.Contains(s, "packet does not contain") || strings.Contains(s, "invalid extension field length") || strings.Contains(s, "unexpected extension header type"):
		return "ntsDecode" // nts.DecodePacket
	case strings.Contains(s, "invalid packet authenticator") || strings.Contains(s, "authenticator"):
		return "auth"
	}
	return "other"
}

// liveClient abstracts the two transports for one scripted exchange.
type liveClient interface {
	configure(cfg exchCfg, f *recFilter)
	getPrev() client.VerifC03Prev
	setPrev(client.VerifC03Prev)
	measure(ctx context.Context) (time.Time, time.Duration, error)
	parse(b []byte) reqInfo
	transport() (tr, hdr string)
}

type ipLive struct{ c *client.IPClient }

func (l ipLive) configure(cfg exchCfg, f *recFilter) {
	l.c.InterleavedMode = cfg.il
	l.c.Auth.Enabled = cfg.nts
	if cfg.nts {
		l.c.Auth.NTSKEFetcher.VerifC11SetData(ntsData())
	}
	l.c.Filter = nil
	if f != nil {
		l.c.Filter = f
	}
}
func (l ipLive) getPrev() client.VerifC03Prev  { return client.VerifC03PrevIP(l.c) }
func (l ipLive) setPrev(p client.VerifC03Prev) { client.VerifC03SetPrevIP(l.c, p) }
func (l ipLive) measure(ctx context.Context) (time.Time, time.Duration, error) {
	la := &net.UDPAddr{IP: net.IPv4(127, 0, 0, 1).To4(), Zone: liveZone, Port: livePort}
	ra := net.UDPAddrFromAddrPort(thePeer.addr)
	return client.VerifC03MeasureIP(ctx, l.c, la, ra)
}
func (l ipLive) parse(b []byte) reqInfo { return parseReq(b) }

// NTS key exchange data preloaded into the client's fetcher (no key exchange takes place).
var (
	ntsC2S = []byte("c2s-key-c2s-key-c2s-key-c2s-key!")
	ntsS2C = []byte("s2c-key-s2c-key-s2c-key-s2c-key!")
)

func ntsData() ntske.Data {
	d := ntske.Data{C2sKey: ntsC2S, S2cKey: ntsS2C, Server: "127.0.0.1", Port: thePeer.addr.Port()}
	for i := 0; i < 8; i++ {
		ck := make([]byte, 100)
		for k := range ck {
			ck[k] = byte(i*31 + k)
		}
		d.Cookie = append(d.Cookie, ck)
	}
	return d
}

// ntsVerdicts computes the three oracle inputs of the model for payload b with the real
// libraries (decoder of net/nts, miscreant AEAD), not through the client.
func ntsVerdicts(b []byte, reqUID []byte) (dec, uid, open bool) {
	if len(b) < 48 {
		return
	}
	var pkt nts.Packet
	func() {
		defer func() { recover() }()
		dec = nts.DecodePacket(&pkt, b) == nil
	}()
	if !dec {
		return
	}
	// Which identifier, nonce, ciphertext and associated data count is read with the harness's own
	// field walk (RFC 8915 5.7: what precedes the first authenticator), not with the decoder under
	// test: a decoder that lets bytes behind the authenticator take effect must not shape the oracle.
	authUID, pos, nonce, ct, ok := ntsOwnParse(b)
	if !ok {
		return
	}
	uid = bytes.Equal(authUID, reqUID)
	aead, err := miscreant.NewAEAD("AES-CMAC-SIV", ntsS2C, 16)
	if err != nil || len(nonce) != aead.NonceSize() {
		return
	}
	_, err = aead.Open(nil, nonce, ct, b[:pos])
	open = err == nil
	return
}

// ntsOwnParse: the extension fields of b up to and including the first authenticator (a field is
// looked at only while at least 28 bytes remain): the last unique identifier in front of the
// authenticator, the authenticator's offset, nonce and ciphertext.
func ntsOwnParse(b []byte) (uid []byte, pos int, nonce, ct []byte, ok bool) {
	pos = 48
	for len(b)-pos >= 28 {
		typ := int(b[pos])<<8 | int(b[pos+1])
		l := int(b[pos+2])<<8 | int(b[pos+3])
		if l < 4 || l > len(b)-pos {
			return nil, 0, nil, nil, false
		}
		switch typ {
		case 0x104:
			uid = b[pos+4 : pos+l]
		case 0x404:
			f := b[pos : pos+l]
			if len(f) < 8 {
				return nil, 0, nil, nil, false
			}
			nl := int(f[4])<<8 | int(f[5])
			cl := int(f[6])<<8 | int(f[7])
			np := (nl + 3) &^ 3
			if 8+np+cl > len(f) || nl > np {
				return nil, 0, nil, nil, false
			}
			return uid, pos, f[8 : 8+nl], f[8+np : 8+np+cl], uid != nil
		}
		pos += l
	}
	return nil, 0, nil, nil, false
}
func (l ipLive) transport() (string, string) {
	return "ip", fmt.Sprintf("server=%d", thePeer.srcNum(srcServer))
}

func ipExchange(c *lib.Ctx, ipc *client.IPClient, cfg exchCfg, sc script) exchResult {
	return exchange(c, ipLive{ipc}, cfg, sc)
}

func exchange(c *lib.Ctx, lc liveClient, cfg exchCfg, sc script) (res exchResult) {
	p := thePeer
	if cfg.filter {
		res.filter = &recFilter{value: 424242}
		lc.configure(cfg, res.filter)
	} else {
		lc.configure(cfg, nil)
	}
	res.tr, res.hdr = lc.transport()
	if cfg.setPrev != nil {
		lc.setPrev(*cfg.setPrev)
	}
	res.prev0 = lc.getPrev()
	var ov []time.Time
	if cfg.setNow != nil {
		ov = cfg.setNow(res.prev0)
	}
	// drain stale requests
	p.conns[0].SetReadDeadline(time.Now().Add(time.Millisecond))
	for {
		if _, _, err := p.conns[0].ReadFromUDPAddrPort(make([]byte, 2048)); err != nil {
			break
		}
	}
	clk.reset(ov...)
	resetHeartbeat()
	liveZone, livePort = cfg.zone, cfg.port
	defer func() { liveZone, livePort = "", 0 }()
	ctx := context.Background()
	cancel := func() {}
	if cfg.deadline != 0 {
		res.deadlineAt = time.Now().Add(cfg.deadline)
		ctx, cancel = context.WithDeadline(ctx, res.deadlineAt)
	}
	defer cancel()
	done := callClient(func() (time.Time, time.Duration, error) { return lc.measure(ctx) })
	buf := make([]byte, 2048)
	p.conns[0].SetReadDeadline(time.Now().Add(2 * time.Second))
	n, from, err := p.conns[0].ReadFromUDPAddrPort(buf)
	if err != nil {
		r := <-done
		res.err, res.panicked = r.err, r.panic
		c.Count("discarded:no-request")
		return
	}
	R := wallNow().UnixNano()
	res.recvAt = R
	res.ri = lc.parse(buf[:n])
	res.ri.from = from
	res.ri.R = R
	out, theta, S, gil := sc(&res.ri)
	res.theta, res.genuineIL = theta, gil
	for _, d := range out {
		if d.wire != nil {
			p.conns[d.src].WriteToUDPAddrPort(d.wire, from)
		} else {
			p.conns[d.src].WriteToUDPAddrPort(d.b, from)
		}
	}
	res.sent = out
	sentAt := time.Now()
	var r callRes
	select {
	case r = <-done:
	case <-time.After(5 * time.Second):
		// no deadline and nothing terminal was sent: unblock the client with a terminal datagram
		c.Count("discarded:blocked")
		p.conns[srcOtherAddr].WriteToUDPAddrPort(make([]byte, 48), from)
		p.conns[srcOtherAddr].WriteToUDPAddrPort(make([]byte, 48), from)
		<-done
		return
	}
	res.ts, res.off, res.err, res.panicked = r.ts, r.off, r.err, r.panic
	res.prev1 = lc.getPrev()
	rd := clk.readings()
	if len(rd) == 0 {
		c.Count("discarded:no-clock-reading")
		return
	}
	res.now0 = rd[0].UnixNano()
	for _, t := range rd {
		res.rd = append(res.rd, t.UnixNano())
	}
	if cfg.deadline != 0 && !sentAt.Before(res.deadlineAt.Add(-3*time.Millisecond)) {
		// the peer was too slow for this deadline: the client may have timed out before the
		// datagrams arrived; the recorded order would not be what the socket delivered
		c.Count("discarded:timing")
		return
	}
	if S != 0 {
		p.remember(res.ri, theta, S)
	}
	limit := cfg.deadline / 8
	if limit < 10*time.Millisecond {
		limit = 10 * time.Millisecond // short deadlines come with a single datagram: only the recorded deadline verdict matters there
	}
	if cfg.deadline != 0 && starved(limit) {
		// the process stalled for a noticeable part of the exchange's real-time deadline: what the client
		// found on its socket when is not what the recorded order says
		c.Count("discarded:process-starved")
		return
	}
	res.valid = true
	return
}

// ---------------------------------------------------------------- op lines

// scionBufLen: the SCION client's receive buffer (`buf := make([]byte, scion.MTU)`).
const scionBufLen = 9216 - 20 - 8

func prevStr(p client.VerifC03Prev, reference string) string {
	ref := "other"
	switch p.Reference {
	case "":
		ref = "none"
	case reference:
		ref = "same"
	}
	return fmt.Sprintf("%s,%s,%s,%s,%s", ref, lib.Bool(p.Interleaved), f64(p.CTxTime), f64(p.CRxTime), f64(p.SRxTime))
}

// evIP renders the datagram facts for the model: d:<src>:<len>:<lvm>:<stratum>:<org>:<rx>:<tx>:<cRx>:<before>
// or f:<before> (MSG_TRUNC: longer than the client's 48-byte buffer), then e:0 (deadline) if set.
func evIP(p *peer, sent []dgram, cRx int64, deadlineSet bool, bufCap int, before string) string {
	var ev []string
	for _, d := range sent {
		v := fmt.Sprintf(":%s:%s:%s", lib.Bool(d.ntsDec), lib.Bool(d.ntsUID), lib.Bool(d.ntsOpen))
		if d.wire != nil && len(d.wire) > scionBufLen {
			ev = append(ev, "f:"+before) // longer than the SCION client's receive buffer: MSG_TRUNC
			continue
		}
		if d.wire != nil {
			var lvm, st uint8
			var org, rx, tx ntp.Time64
			if len(d.b) >= 48 {
				lvm, st = d.b[0], d.b[1]
				org, rx, tx = be64(d.b[24:]), be64(d.b[32:]), be64(d.b[40:])
			}
			ev = append(ev, fmt.Sprintf("s:%s:%d:%d:%d:%s:%s:%s:%d:%s", d.facts, len(d.b), lvm, st, f64(org), f64(rx), f64(tx), cRx, before)+v)
			continue
		}
		if len(d.b) > bufCap {
			ev = append(ev, "f:"+before)
			continue
		}
		var lvm, st uint8
		var org, rx, tx ntp.Time64
		if len(d.b) >= 48 {
			lvm, st = d.b[0], d.b[1]
			org, rx, tx = be64(d.b[24:]), be64(d.b[32:]), be64(d.b[40:])
		}
		ev = append(ev, fmt.Sprintf("d:%d:%d:%d:%d:%s:%s:%s:%d:%s", p.srcNum(d.src), len(d.b), lvm, st, f64(org), f64(rx), f64(tx), cRx, before)+v)
	}
	if deadlineSet {
		ev = append(ev, "e:0")
	}
	if len(ev) == 0 {
		return "-"
	}
	return strings.Join(ev, ";")
}

func goClockOffset(t0, t1, t2, t3 int64) (int64, int64) {
	u := func(x int64) time.Time { return time.Unix(0, x) }
	return int64(ntp.ClockOffset(u(t0), u(t1), u(t2), u(t3))), int64(ntp.RoundTripDelay(u(t0), u(t1), u(t2), u(t3)))
}

// receive timestamps of the datagrams sent so far: refused (with the ops of that exchange) / acceptable
// in the exchange they were sent in; the ops of the exchange recorded last
var (
	rxRefused    = map[ntp.Time64][]string{}
	rxAcceptable = map[ntp.Time64]bool{}
	lastExchOps  []string
)

// acceptable: the conditions of property C05 evaluated on the bytes the peer crafted.
func acceptable(p *peer, d dgram, ri reqInfo, prevSRx ntp.Time64, ref int64, cfg exchCfg) bool {
	if cfg.nts && !(d.ntsDec && d.ntsUID && d.ntsOpen) {
		return false
	}
	return acceptableButNTS(p, d, ri, prevSRx, ref, cfg)
}

// reachesNTP: the datagram passes every check in front of the NTP stage (source address and
// buffer size for IP; SCION/UDP structure and addresses for SCION) — by the harness's own
// reading of what it sent. The SCION packet authenticator is not part of this.
func reachesNTP(p *peer, d dgram, ntsOn bool) bool {
	if d.wire == nil {
		return p.srcNum(d.src) == p.srcNum(srcServer) && len(d.b) >= 48 && (ntsOn || len(d.b) == 48) &&
			len(d.b) <= nts.MaxPacketLen
	}
	return d.pathOK && len(d.b) >= 48 && len(d.wire) <= scionBufLen
}

// echoes: C05's origin clause — the datagram echoes the outstanding request's transmit
// timestamp or, only when the request was an interleaved one, its receive timestamp.
func echoes(d dgram, ri reqInfo) (basic, interleaved bool) {
	if len(d.b) < 48 {
		return false, false
	}
	org := be64(d.b[24:])
	return org == ri.tx, ri.interleavedRq && org == ri.rx
}

// acceptableButNTS: every condition of the property except the NTS clause.
func acceptableButNTS(p *peer, d dgram, ri reqInfo, prevSRx ntp.Time64, ref int64, cfg exchCfg) bool {
	if !reachesNTP(p, d, cfg.nts) {
		return false
	}
	if cfg.spaoKey && (d.authInvalid || d.authMalformed) {
		// C13, client side: with a key available a time-service authenticator that does not
		// verify disqualifies the datagram (a malformed one is C08's business: never accepted either)
		return false
	}
	org, rx, tx := be64(d.b[24:]), be64(d.b[32:]), be64(d.b[40:])
	if !(org == ri.tx || ri.interleavedRq && org == ri.rx) {
		return false
	}
	if ri.interleavedRq && org == ri.rx {
		// interleaved response: t1 is the previous exchange's server receive time (prev.sRxTime)
		rx = prevSRx
	}
	li, vn, mode, st := d.b[0]>>6, d.b[0]>>3&7, d.b[0]&7, d.b[1]
	if mode != 4 || vn != 3 && vn != 4 || li == 3 || st < 1 || st > 15 {
		return false
	}
	return dec64(tx, ref) >= dec64(rx, ref)
}

// usedCand: datagram idx of the delivered sequence explains the client's result when read as
// a basic (il=false) or as an interleaved (il=true) response.
type usedCand struct {
	idx int
	il  bool
}

// explain lists every (datagram, reading) that reproduces what the client returned — the
// receive stamp that went into prev (interleaved mode on; the peer tags each datagram's
// stamp), the tuple handed to the filter, or the returned offset — from the bytes the peer
// sent and the client state before the exchange only. It does not look at origin timestamps
// or authenticators: those are what the oracles then judge.
func explain(p *peer, cfg exchCfg, res exchResult) (cands []usedCand) {
	ref := res.now0
	cRx := res.ts.UnixNano()
	for i, d := range res.sent {
		if d.wire != nil {
			// SCION: whatever has the structure of a SCION/UDP packet with a whole NTP header,
			// wherever it claims to come from — the address clause is judged by the oracle
			if !(d.structOK && len(d.b) >= 48 && len(d.wire) <= scionBufLen) {
				continue
			}
		} else if !reachesNTP(p, d, cfg.nts) {
			continue
		}
		rx, tx := be64(d.b[32:]), be64(d.b[40:])
		if cfg.il && res.prev1.SRxTime != rx {
			continue
		}
		for _, il := range []bool{false, true} {
			if cfg.il && res.prev1.Interleaved != il {
				continue
			}
			var t [4]int64
			if il {
				t = [4]int64{dec64(res.prev0.CTxTime, ref), dec64(res.prev0.SRxTime, ref), dec64(tx, ref), dec64(res.prev0.CRxTime, ref)}
			} else {
				t = [4]int64{0, dec64(rx, ref), dec64(tx, ref), cRx}
			}
			ok := false
			switch {
			case cfg.filter && res.filter != nil && res.filter.got:
				ok = true
				for k := 0; k < 4; k++ {
					if (k > 0 || il) && res.filter.t[k].UnixNano() != t[k] {
						ok = false
					}
				}
			case il:
				o, _ := goClockOffset(t[0], t[1], t[2], t[3])
				ok = o == int64(res.off)
			default:
				// offset = ((t1-t0)+(t2-t3))/2 for a transmit time t0 inside the exchange
				lo, hi := res.now0-1, res.ri.R
				if cfg.setNow != nil {
					lo, hi = res.ri.R-10*nsps, res.ri.R
				}
				base := t[1] + t[2] - t[3] - 2*int64(res.off)
				for _, dlt := range []int64{0, -1, 1} {
					if o, _ := goClockOffset(base+dlt, t[1], t[2], t[3]); o == int64(res.off) && base+dlt >= lo && base+dlt <= hi {
						ok = true
					}
				}
			}
			if ok {
				cands = append(cands, usedCand{i, il})
			}
		}
	}
	return
}

// record emits the two op lines of an exchange and evaluates the direct oracles.
// Returns the index of the accepted datagram (-1 if none).
func recordIP(c *lib.Ctx, tag string, cfg exchCfg, res exchResult) int {
	p := thePeer
	reference := p.addr.String()
	if res.tr == "scion" {
		reference = scionReference()
	}
	ilS, dlS := lib.Bool(cfg.il), lib.Bool(cfg.deadline != 0)
	// --- request op
	opReq := fmt.Sprintf("cli.req tr=%s il=%s ref=same prev=%s now=%d", res.tr, ilS, prevStr(res.prev0, reference), res.now0)
	var ansReq string
	if res.ri.interleavedRq {
		ansReq = fmt.Sprintf("ok il %d %s %s %s", res.ri.lvm, f64(res.ri.org), f64(res.ri.rx), f64(res.ri.tx))
		c.Count(tag + ":req:interleaved")
	} else {
		ansReq = fmt.Sprintf("ok basic %d %s %s %s", res.ri.lvm, f64(res.ri.org), f64(res.ri.rx), f64(res.ri.tx))
		c.Count(tag + ":req:basic")
	}
	c.Emit(opReq, ansReq)

	// --- exchange op
	accepted := res.err == nil && res.panicked == ""
	acceptedIL := false
	var t [4]int64
	ctx1 := int64(0)
	idx := -1
	if accepted {
		cRx := res.ts.UnixNano()
		// which datagram? the one whose receive field went into prev (il on) / the filter tuple / the first acceptable
		for i, d := range res.sent {
			if acceptable(p, d, res.ri, res.prev0.SRxTime, res.now0, cfg) {
				idx = i
				break
			}
		}
		if idx < 0 && cfg.nts {
			for _, d := range res.sent {
				if acceptableButNTS(p, d, res.ri, res.prev0.SRxTime, res.now0, cfg) {
					c.Fail("C05:nts:offset-from-unauthenticated-datagram",
						"an NTS-enabled client reported a measurement although no datagram carried the request's unique identifier and verified under the S2C key",
						[]string{opReq}, map[string]any{"sent": len(res.sent), "offset": int64(res.off),
							"first": map[string]any{"len": len(d.b), "decode": d.ntsDec, "uid": d.ntsUID, "open": d.ntsOpen}})
					return -1
				}
			}
		}
		if idx < 0 {
			c.Fail("C05:accepted-without-acceptable-datagram", "the client reported a measurement although no datagram met the acceptance conditions",
				[]string{opReq}, map[string]any{"sent": len(res.sent), "offset": int64(res.off)})
			return -1
		}
		d := res.sent[idx]
		org, rx, tx := be64(d.b[24:]), be64(d.b[32:]), be64(d.b[40:])
		acceptedIL = res.ri.interleavedRq && org == res.ri.rx
		if cfg.il {
			if cfg.nts && res.prev1.SRxTime != rx {
				for _, o := range res.sent {
					if len(o.b) >= 48 && be64(o.b[32:]) == res.prev1.SRxTime && !(o.ntsDec && o.ntsUID && o.ntsOpen) {
						c.Fail("C05:nts:offset-from-unauthenticated-datagram",
							"an NTS-enabled client took its measurement from a datagram that does not carry the request's unique identifier or does not verify under the S2C key",
							[]string{opReq}, map[string]any{"len": len(o.b), "decode": o.ntsDec, "uid": o.ntsUID, "open": o.ntsOpen})
					}
				}
			}
			if res.prev1.SRxTime != rx || res.prev1.Interleaved != acceptedIL {
				c.Fail("C05:accepted-other-datagram", "prev after the exchange does not stem from the first acceptable datagram",
					[]string{opReq}, map[string]any{"idx": idx, "prev1": prevStr(res.prev1, reference)})
			}
		}
		if acceptedIL {
			t[0] = dec64(res.prev0.CTxTime, res.now0)
			t[1] = dec64(res.prev0.SRxTime, res.now0)
			t[2] = dec64(tx, res.now0)
			t[3] = dec64(res.prev0.CRxTime, res.now0)
		} else {
			t[1], t[2], t[3] = dec64(rx, res.now0), dec64(tx, res.now0), cRx
			if d.tsOpt != 0 && !d.tsAuto && (cRx == d.tsOpt) != d.tsUse {
				c.Fail("C08:client-scion:tsopt-use", "the packet's timestamp option is used although its time lies outside the exchange, or not used although it lies inside",
					[]string{opReq}, map[string]any{"tsopt": d.tsOpt, "returned": cRx, "expect_used": d.tsUse})
			}
		}
		// cTxTime1: exact from the filter; from prev (1 ns ambiguity) with interleaved mode; else solved within its bracket
		switch {
		case cfg.filter && res.filter.got:
			ctx1 = res.filter.t[0].UnixNano()
			if acceptedIL {
				ctx1 = 0
				if cfg.il {
					x := dec64(res.prev1.CTxTime, res.now0)
					ctx1 = x
					if enc64(x) != res.prev1.CTxTime {
						ctx1 = x + 1
					}
				}
			}
			for k := 0; k < 4; k++ {
				want := t[k]
				if k == 0 && !acceptedIL {
					want = ctx1
				}
				if res.filter.t[k].UnixNano() != want {
					c.Fail("C03:filter-tuple", "the tuple handed to the filter is not the one-exchange tuple",
						[]string{opReq}, map[string]any{"k": k, "got": res.filter.t[k].UnixNano(), "want": want})
				}
			}
		case cfg.il:
			x := dec64(res.prev1.CTxTime, res.now0)
			ctx1 = x
			if !acceptedIL {
				if o, _ := goClockOffset(x, t[1], t[2], t[3]); o != int64(res.off) || enc64(x) != res.prev1.CTxTime {
					ctx1 = x + 1
				}
			} else if enc64(x) != res.prev1.CTxTime {
				ctx1 = x + 1
			}
		default:
			// offset = ((t1-t0)+(t2-t3))/2  =>  t0 = t1+t2-t3-2*off (-1,0,+1)
			base := t[1] + t[2] - t[3] - 2*int64(res.off)
			found := false
			for _, dlt := range []int64{0, -1, 1} {
				if o, _ := goClockOffset(base+dlt, t[1], t[2], t[3]); o == int64(res.off) && base+dlt >= res.now0 && base+dlt <= res.ri.R {
					ctx1, found = base+dlt, true
					break
				}
			}
			if !found {
				ctx1 = base
			}
		}
		if !acceptedIL {
			t[0] = ctx1
		}
		if d := res.sent[idx]; !acceptedIL && d.tsOpt != 0 && d.tsAuto {
			// option time placed near the request's transmit time: it may be used only if it is not
			// before the kernel transmit time (exact from the filter tuple, else +-2 ns) and not
			// after the kernel receive time (= the returned time when the option was not used)
			used := res.ts.UnixNano() == d.tsOpt
			slack := int64(2)
			if cfg.filter && res.filter.got {
				slack = 0
			}
			switch {
			case used && d.tsOpt < ctx1-slack:
				c.Fail("C08:client-scion:tsopt-use", "the packet's timestamp option is used although its time lies before the transmission of the request",
					[]string{opReq}, map[string]any{"tsopt": d.tsOpt, "ctx1": ctx1, "now0": res.now0})
			case !used && d.tsOpt >= ctx1+slack && d.tsOpt <= res.ts.UnixNano():
				c.Fail("C08:client-scion:tsopt-use", "the packet's timestamp option is not used although its time lies inside the exchange",
					[]string{opReq}, map[string]any{"tsopt": d.tsOpt, "ctx1": ctx1, "returned": res.ts.UnixNano()})
			}
			if used {
				c.Count(tag + ":oracle:tsopt-auto:used")
			} else {
				c.Count(tag + ":oracle:tsopt-auto:ignored")
			}
		}
		// direct oracle 1: the transmit timestamp lies between the clock reading before the send and the peer's receipt
		if !acceptedIL && (ctx1 < res.now0-1 || ctx1 > res.ri.R) && cfg.setNow == nil {
			c.Fail("C03:t0-outside-exchange", "no transmit time between cTxTime0 and the peer's receipt explains the returned offset",
				[]string{opReq}, map[string]any{"ctx1": ctx1, "now0": res.now0, "R": res.ri.R, "off": int64(res.off)})
		}
		// direct oracle 2: returned offset = formula on this one tuple
		off, rtd := goClockOffset(t[0], t[1], t[2], t[3])
		if !cfg.filter && off != int64(res.off) {
			c.Fail("C03:offset-not-one-exchange", "returned offset is not the formula on the four timestamps of one exchange",
				[]string{opReq}, map[string]any{"t": t, "off": int64(res.off), "want": off, "il": acceptedIL})
		}
		// direct oracle 3: half round-trip bound with the script's own theta
		if d.genuine && !cfg.filter {
			theta, ok := res.theta, true
			if acceptedIL {
				theta, ok = p.theta[res.prev0.SRxTime]
			}
			if ok {
				e := int64(res.off) - theta
				if e < 0 {
					e = -e
				}
				if 2*e > rtd+3 {
					c.Fail("C03:half-rtt", "|offset - theta| exceeds half the round-trip delay + 1.5 ns",
						[]string{opReq}, map[string]any{"t": t, "off": int64(res.off), "theta": theta, "rtd": rtd, "il": acceptedIL})
				}
				c.Count(tag + ":oracle:half-rtt")
			}
		}
	}
	if !accepted {
		ctx1 = res.now0 // the kernel transmit time is not observable then; it is not before cTxTime0
	}
	filt := "-"
	if cfg.filter {
		filt = "424242"
	}
	cRxAll := int64(0)
	if accepted {
		cRxAll = res.ts.UnixNano()
	}
	if accepted && idx >= 0 && res.sent[idx].tsOpt != 0 && res.ts.UnixNano() == res.sent[idx].tsOpt {
		// the kernel receive time is unobservable when the option overrides it; it is not
		// before the option's time then, and any such value gives the same answer
		cRxAll = res.sent[idx].tsOpt + 1000
	}
	if !accepted {
		cRxAll = wallNow().UnixNano() // kernel receive times of unaccepted datagrams: some time inside the call
	}
	bufCap := 48
	if cfg.nts {
		bufCap = nts.MaxPacketLen
	}
	// the deadline test of the (at most one) retry decision: with kernel timestamps the client reads the
	// clock for cTxTime0, for the tx-timestamp fallback, and then only in that test — the third
	// recorded reading is the one it compared with the deadline (under machine load the deadline may
	// have passed by the time the first refused datagram is looked at)
	before := "1"
	if cfg.deadline != 0 && cfg.zone == "" {
		for _, x := range res.rd {
			if x > res.recvAt { // the first reading taken after the request had reached the peer
				if x >= res.deadlineAt.UnixNano() && len(res.sent) > 0 {
					before = "0"
					c.Count(tag + ":deadline-passed-at-first-refusal")
				}
				break
			}
		}
	}
	op := fmt.Sprintf("cli.exch tr=%s il=%s nts=%s dl=%s filt=%s %s ref=same prev=%s now=%d ctx1=%d ev=%s",
		res.tr, ilS, lib.Bool(cfg.nts), dlS, filt, res.hdr, prevStr(res.prev0, reference), res.now0, ctx1,
		evIP(p, res.sent, cRxAll, cfg.deadline != 0, bufCap, before))
	var ans string
	switch {
	case res.panicked != "":
		ans = "panic " + res.panicked
		c.Count(tag + ":exch:panic")
	case !accepted:
		k := errKind(res.err)
		if k == "other" && res.tr == "scion" {
			k = "layers" // gopacket's decode errors have no fixed text
		}
		ans = "err " + k + " prev=" + prevStr(res.prev1, reference)
		c.Count(tag + ":exch:err:" + k)
	default:
		ans = fmt.Sprintf("ok accept il=%s off=%d ts=%d", lib.Bool(acceptedIL), int64(res.off), res.ts.UnixNano())
		if cfg.filter {
			ans += fmt.Sprintf(" tuple=%d,%d,%d,%d", res.filter.t[0].UnixNano(), res.filter.t[1].UnixNano(), res.filter.t[2].UnixNano(), res.filter.t[3].UnixNano())
		}
		ans += " prev=" + prevStr(res.prev1, reference)
		if acceptedIL {
			c.Count(tag + ":exch:accept:interleaved")
		} else {
			c.Count(tag + ":exch:accept:basic")
		}
	}
	c.Emit(op, ans)
	lastExchOps = []string{opReq, op}
	// direct oracle across exchanges (C05: "every other datagram is skipped or yields an error, never an
	// offset"): a response evaluated as interleaved takes t1 from the client's state; that receive
	// timestamp must not be the one of a datagram which, by the harness's own reading of the bytes
	// it sent, did not meet the acceptance conditions in the exchange it was sent in.
	if accepted && acceptedIL && cfg.setPrev == nil {
		if ops, bad := rxRefused[res.prev0.SRxTime]; bad && !rxAcceptable[res.prev0.SRxTime] {
			c.Fail("C05:offset-from-refused-datagram",
				"the reported offset is computed from the receive timestamp of a datagram of an earlier exchange that did not meet the acceptance conditions (it was refused there, yet its timestamps stayed in the client's interleaved-mode state)",
				append(append([]string(nil), ops...), opReq, op), map[string]any{"t1": f64(res.prev0.SRxTime), "offset": int64(res.off)})
		}
	}
	for _, d := range res.sent {
		if len(d.b) < 48 {
			continue
		}
		rx := be64(d.b[32:])
		if rx == (ntp.Time64{}) {
			continue
		}
		if acceptable(p, d, res.ri, res.prev0.SRxTime, res.now0, cfg) {
			rxAcceptable[rx] = true
		} else if _, ok := rxRefused[rx]; !ok {
			rxRefused[rx] = []string{opReq, op}
		}
	}
	// direct oracles on the datagram the result stems from (C05 origin clause, C13 client clause):
	// every (datagram, reading) of the delivered sequence that reproduces the returned result is
	// judged by the property's own predicate on the bytes the peer sent
	if accepted {
		if cands := explain(p, cfg, res); len(cands) > 0 {
			echoOK, authOK, addrOK, hdrOK, ownOK := false, false, false, false, false
			var descr []string
			for _, u := range cands {
				d := res.sent[u.idx]
				b, il := echoes(d, res.ri)
				if !u.il && b || u.il && il {
					echoOK = true
				}
				if !(cfg.spaoKey && d.authInvalid) {
					authOK = true
				}
				if d.wire == nil || d.addrOK {
					addrOK = true
				}
				if !(d.forgedHdr && (cfg.nts || cfg.spaoKey)) {
					hdrOK = true
				}
				if !d.answersOther {
					ownOK = true
				}
				descr = append(descr, fmt.Sprintf("datagram %d read as interleaved=%v: origin=%s auth-invalid=%v from-queried-host-to-client=%v", u.idx, u.il, f64(be64(d.b[24:])), d.authInvalid, d.wire == nil || d.addrOK))
			}
			detail := map[string]any{"used": descr, "request_interleaved": res.ri.interleavedRq, "request_tx": f64(res.ri.tx),
				"request_rx": f64(res.ri.rx), "offset": int64(res.off), "key_available": cfg.spaoKey}
			if !echoOK {
				c.Fail("C05:accepted-response-does-not-echo-request",
					"the client took its measurement from a datagram whose origin timestamp is neither the outstanding request's transmit timestamp nor (request interleaved, response evaluated as interleaved) its receive timestamp",
					[]string{opReq, op}, detail)
			}
			if !addrOK {
				c.Fail("C05:scion:accepted-response-from-other-host",
					"the SCION client took its measurement from a datagram whose source is not the queried ISD-AS and host (as an IP address, an IPv4 address and its IPv4-mapped form being the same) or which is not addressed to the client",
					[]string{opReq, op}, detail)
			}
			if !ownOK {
				c.Fail("C03:response-of-another-exchange-evaluated",
					"the client took its measurement from a datagram the server sent in answer to an EARLIER exchange's request, to the address that request came from: it reached the socket of this exchange",
					[]string{opReq, op}, detail)
			}
			if !hdrOK {
				c.Fail("C05:scion:evaluated-header-not-authenticated",
					"a SCION client with NTS and/or the packet authenticator key took its measurement from an NTP header written by an on-path attacker without keys: the authenticator was verified over other bytes of the datagram than the header that was evaluated (UDP length field smaller than the L4 data)",
					[]string{opReq, op}, detail)
			}
			if !authOK {
				c.Fail("C13:client:accepted-response-with-invalid-authenticator",
					"a client with DRKey authentication enabled and the host-host key available took its measurement from a response whose time-service packet authenticator (server SPI, AES-CMAC) does not verify",
					[]string{opReq, op}, detail)
			}
			c.Count(tag + ":oracle:used-datagram-identified")
		} else {
			c.Count(tag + ":oracle:used-datagram-not-identified")
		}
	}
	// direct oracle (C08): no datagram may terminate the client (panics provoked through the
	// prev hook are not network input)
	if res.panicked != "" && cfg.setPrev == nil {
		sig := "C08:client:panic-on-datagram"
		for _, d := range res.sent {
			if d.tsOpt != 0 {
				sig = "C08:client-scion:tsopt-early-time"
			}
		}
		c.Fail(sig, "a datagram sent in response to the client's request makes the client panic: "+res.panicked, []string{opReq, op}, nil)
	}
	// direct oracle (C05): an error or panic never comes with an offset
	if !accepted && (res.off != 0 || !res.ts.IsZero()) {
		c.Fail("C05:offset-with-error", "an error was returned together with a timestamp/offset", []string{op}, nil)
	}
	return idx
}
