// c08csptp: the CSPTP listener (core/server/server_csptp_ip.go) and the CSPTP client's receive
// loop (core/client/client_csptp_ip.go) as state machines — real code against the compiled Lean
// models Model/CsptpSrv.lean and Model/CsptpCliLoop.lean (driver drv_c08csptp), property C08.
//
// Listener: the real StartCSPTPServerIP runs in a CHILD process (16 SO_REUSEPORT sockets on
// 127.0.0.1:319/320) with a log handler that prints every record.  Each loop iteration of
// runCSPTPServerIP logs exactly one record naming the branch it took (and, for an accepted
// request, the decoded header and TLV), so the record IS the iteration's observable decision;
// the op's answer is that record, the model's answer is the record of its verdict.  Replies are
// collected on the sending sockets (the model: the listener never sends anything at this commit).
//
// Client: the real (*CSPTPClientIP).MeasureClockOffset runs in a second CHILD process against a
// scripted server in the parent (127.0.0.2:319/320 plus foreign sources) that sends exactly the
// datagrams of the op, in order, and then stays silent; the answer is the client's decision
// trace (the Info records of the failure paths), the error it returned or the three structures
// it evaluated.
//
// Isolation as in c08net: the command re-executes itself in a private network namespace.
package main

import (
	"bufio"
	"context"
	"encoding/binary"
	"errors"
	"fmt"
	"io"
	"log/slog"
	"math/big"
	"net"
	"net/netip"
	"os"
	"os/exec"
	"sort"
	"strconv"
	"strings"
	"sync"
	"syscall"
	"time"

	"golang.org/x/sys/unix"

	"example.com/scion-time/core/client"
	"example.com/scion-time/core/server"
	"example.com/scion-time/core/timebase"
	"example.com/scion-time/driver/clocks"
	"example.com/scion-time/net/csptp"

	"verifharness/lib"
)

const (
	lsnIP = "127.0.0.1" // the real listener
	scrIP = "127.0.0.2" // the scripted server the real client talks to
	othIP = "127.0.0.3" // a foreign host
)

var discard = slog.New(slog.DiscardHandler)

func us(s string) string { return strings.ReplaceAll(s, " ", "_") }

// ---------------------------------------------------------------- child: real listener

type lineHandler struct {
	mu sync.Mutex
	w  *bufio.Writer
}

func (h *lineHandler) Enabled(context.Context, slog.Level) bool { return true }
func (h *lineHandler) WithAttrs([]slog.Attr) slog.Handler       { return h }
func (h *lineHandler) WithGroup(string) slog.Handler            { return h }
func (h *lineHandler) Handle(_ context.Context, r slog.Record) error {
	var sb strings.Builder
	sb.WriteString("LOG " + r.Level.String() + " " + us(r.Message))
	r.Attrs(func(a slog.Attr) bool {
		switch v := a.Value.Any().(type) {
		case *csptp.Message:
			b := make([]byte, csptp.MinMessageLength)
			csptp.EncodeMessage(b, v)
			sb.WriteString(" m=" + lib.Hex(b))
		case *csptp.RequestTLV:
			b := make([]byte, 14)
			binary.BigEndian.PutUint16(b[0:], v.Type)
			binary.BigEndian.PutUint16(b[2:], v.Length)
			copy(b[4:7], v.OrganizationID[:])
			copy(b[7:10], v.OrganizationSubType[:])
			binary.BigEndian.PutUint32(b[10:], v.FlagField)
			sb.WriteString(" t=" + lib.Hex(b))
		case error:
			sb.WriteString(" " + a.Key + "=" + us(v.Error()))
		case time.Time:
			sb.WriteString(" " + a.Key + "=" + strconv.FormatInt(v.UnixNano(), 10))
		case string:
			sb.WriteString(" " + a.Key + "=" + us(v))
		case int64:
			sb.WriteString(" " + a.Key + "=" + strconv.FormatInt(v, 10))
		case uint64:
			sb.WriteString(" " + a.Key + "=" + strconv.FormatUint(v, 10))
		default:
			sb.WriteString(" " + a.Key + "=?")
		}
		return true
	})
	h.mu.Lock()
	h.w.WriteString(sb.String())
	h.w.WriteByte('\n')
	h.w.Flush()
	h.mu.Unlock()
	return nil
}

func childListener() {
	ctx := context.Background()
	timebase.RegisterClock(clocks.NewSystemClock(discard, clocks.UnknownDrift))
	h := &lineHandler{w: bufio.NewWriter(os.Stdout)}
	server.StartCSPTPServerIP(ctx, slog.New(h), &net.UDPAddr{IP: net.ParseIP(lsnIP), Port: 0}, 0)
	h.mu.Lock()
	h.w.WriteString("READY\n")
	h.w.Flush()
	h.mu.Unlock()
	select {}
}

// ---------------------------------------------------------------- child: real client

type cliHandler struct {
	mu       sync.Mutex
	trace    []byte
	m0, m1   string
	tlv      string
	durs     map[string]int64
	nResp    int
	nEval    int
	tsErrors int
}

func (h *cliHandler) Enabled(context.Context, slog.Level) bool { return true }
func (h *cliHandler) WithAttrs([]slog.Attr) slog.Handler       { return h }
func (h *cliHandler) WithGroup(string) slog.Handler            { return h }
func (h *cliHandler) Handle(_ context.Context, r slog.Record) error {
	h.mu.Lock()
	defer h.mu.Unlock()
	switch r.Level {
	case slog.LevelInfo:
		switch r.Message {
		case "failed to read packet":
			h.trace = append(h.trace, 'r')
		case "failed to decode packet payload: unexpected structure":
			h.trace = append(h.trace, 's')
		case "failed to decode packet payload":
			h.trace = append(h.trace, 'd')
		case "received unexpected message":
			h.trace = append(h.trace, 'u')
		case "failed to read packet: unexpected source":
			h.trace = append(h.trace, 'o')
		case "failed to set DSCP":
		default:
			h.trace = append(h.trace, '?')
		}
	case slog.LevelError:
		h.tsErrors++
	case slog.LevelDebug:
		switch r.Message {
		case "received response":
			h.nResp++
			r.Attrs(func(a slog.Attr) bool {
				switch v := a.Value.Any().(type) {
				case *csptp.Message:
					b := make([]byte, csptp.MinMessageLength)
					csptp.EncodeMessage(b, v)
					if a.Key == "respmsg0" {
						h.m0 = lib.Hex(b)
					} else {
						h.m1 = lib.Hex(b)
					}
				case *csptp.ResponseTLV:
					b := make([]byte, csptp.EncodedResponseTLVLength(v))
					csptp.EncodeResponseTLV(b, v)
					h.tlv = lib.Hex(b)
				}
				return true
			})
		case "evaluated response":
			h.nEval++
			h.durs = map[string]int64{}
			r.Attrs(func(a slog.Attr) bool {
				if a.Value.Kind() == slog.KindDuration {
					h.durs[a.Key] = int64(a.Value.Duration())
				}
				return true
			})
		}
	}
	return nil
}

func errClass(err error) string {
	var ne net.Error
	switch {
	case err.Error() == "failed to read packet: unexpected flags":
		return "flags"
	case err.Error() == "failed to read packet: unexpected source":
		return "source"
	case err.Error() == "failed to read packet: unexpected type or structure":
		return "packet"
	case err.Error() == "unexpected response TLV size":
		return "tlv-size"
	case err.Error() == "unexpected message size":
		return "size"
	case errors.Is(err, os.ErrDeadlineExceeded), errors.As(err, &ne):
		return "read"
	}
	return "other:" + us(err.Error())
}

// childClient: one measurement per input line "go <seq> <deadline ms> <remote ip>".
func childClient() {
	ctx := context.Background()
	timebase.RegisterClock(clocks.NewSystemClock(discard, clocks.UnknownDrift))
	out := bufio.NewWriter(os.Stdout)
	fmt.Fprintln(out, "READY")
	out.Flush()
	in := bufio.NewScanner(os.Stdin)
	for in.Scan() {
		f := strings.Fields(in.Text())
		if len(f) != 4 {
			continue
		}
		seq, _ := strconv.Atoi(f[1])
		dl, _ := strconv.Atoi(f[2])
		h := &cliHandler{}
		c := &client.CSPTPClientIP{Log: slog.New(h)}
		c.VerifSetSequenceID(uint16(seq))
		// starvation detector: the largest gap between two ticks of a 2 ms ticker
		stop := make(chan struct{})
		gapc := make(chan time.Duration, 1)
		go func() {
			var worst time.Duration
			last := time.Now()
			for {
				select {
				case <-stop:
					gapc <- worst
					return
				case <-time.After(2 * time.Millisecond):
					now := time.Now()
					if d := now.Sub(last); d > worst {
						worst = d
					}
					last = now
				}
			}
		}()
		t0 := time.Now()
		cctx, cancel := context.WithTimeout(ctx, time.Duration(dl)*time.Millisecond)
		ts, off, err := c.MeasureClockOffset(cctx, netip.MustParseAddr(lsnIP), netip.MustParseAddr(f[3]))
		cancel()
		el := time.Since(t0)
		close(stop)
		gap := <-gapc
		h.mu.Lock()
		tr := string(h.trace)
		if tr == "" {
			tr = "-"
		}
		tail := fmt.Sprintf("trace=%s el=%d gap=%d seqafter=%d tserr=%d", tr, el.Milliseconds(), gap.Milliseconds(), c.VerifSequenceID(), h.tsErrors)
		if err != nil {
			fmt.Fprintf(out, "DONE err class=%s %s\n", errClass(err), tail)
		} else {
			get := func(k string) string {
				if x, ok := h.durs[k]; ok {
					return strconv.FormatInt(x, 10)
				}
				return "?"
			}
			fmt.Fprintf(out, "DONE ok ts=%d off=%d m0=%s m1=%s tlv=%s c2s=%s s2c=%s loff=%s mpd=%s recs=%d/%d %s\n", ts.UnixNano(), int64(off),
				h.m0, h.m1, h.tlv, get("C2S delay"), get("S2C delay"), get("clock offset"), get("mean path delay"), h.nResp, h.nEval, tail)
		}
		h.mu.Unlock()
		out.Flush()
	}
}

// ---------------------------------------------------------------- parent: children

type child struct {
	cmd   *exec.Cmd
	in    io.WriteCloser
	lines chan string
	dead  chan struct{}
}

func startChild(role string) (*child, error) {
	self, _ := os.Executable()
	sh := fmt.Sprintf("ulimit -v 12000000; exec %q", self)
	cmd := exec.Command("/bin/sh", "-c", sh)
	cmd.Env = append(os.Environ(), "C08CSPTP_ROLE="+role, "GOMEMLIMIT=2GiB")
	stdout, _ := cmd.StdoutPipe()
	stdin, _ := cmd.StdinPipe()
	var errb strings.Builder
	cmd.Stderr = &limitedWriter{sb: &errb}
	if err := cmd.Start(); err != nil {
		return nil, err
	}
	c := &child{cmd: cmd, in: stdin, lines: make(chan string, 1<<16), dead: make(chan struct{})}
	go func() {
		rd := bufio.NewReaderSize(stdout, 1<<16)
		for {
			l, err := rd.ReadString('\n')
			if err != nil {
				break
			}
			c.lines <- strings.TrimSpace(l)
		}
		cmd.Wait()
		lastStderr = errb.String()
		close(c.dead)
	}()
	deadline := time.After(30 * time.Second)
	for {
		select {
		case l := <-c.lines:
			if l == "READY" {
				return c, nil
			}
		case <-c.dead:
			return nil, fmt.Errorf("child died during start-up")
		case <-deadline:
			cmd.Process.Kill()
			return nil, fmt.Errorf("child start-up timeout")
		}
	}
}

var lastStderr string

type limitedWriter struct {
	mu sync.Mutex
	sb *strings.Builder
}

func (w *limitedWriter) Write(p []byte) (int, error) {
	w.mu.Lock()
	defer w.mu.Unlock()
	if w.sb.Len() < 8192 {
		w.sb.Write(p)
	}
	return len(p), nil
}

func (c *child) alive() bool {
	if c == nil {
		return false
	}
	select {
	case <-c.dead:
		return false
	default:
		return true
	}
}

func (c *child) kill() {
	if c != nil && c.cmd.Process != nil {
		c.cmd.Process.Kill()
		<-c.dead
	}
}

// ---------------------------------------------------------------- parent: listener side

const nClients = 12
const probeClient = 99

var (
	lsn      *child
	cliSocks = map[int]*net.UDPConn{}
	fromIdx  = map[string]int{}
	atBad    []string // rx timestamps outside the send/receive window (direct oracle, read by gen)
	rxTsMiss int
)

func ensureListener() error {
	if lsn.alive() {
		return nil
	}
	if lsn != nil {
		lsn.kill()
	}
	var err error
	lsn, err = startChild("listener")
	return err
}

func clientSock(i int) *net.UDPConn {
	if s, ok := cliSocks[i]; ok {
		return s
	}
	ip := net.IPv4(127, 0, 1, byte(10+i%200))
	s, err := net.ListenUDP("udp4", &net.UDPAddr{IP: ip})
	if err != nil {
		panic("bad-op")
	}
	cliSocks[i] = s
	fromIdx[s.LocalAddr().String()] = i
	return s
}

func renewClientSock(i int) {
	if s, ok := cliSocks[i]; ok {
		delete(fromIdx, s.LocalAddr().String())
		s.Close()
		delete(cliSocks, i)
	}
	clientSock(i)
}

func isVerdict(rec string) bool {
	f := strings.Fields(rec)
	if len(f) < 3 || f[0] != "LOG" {
		return false
	}
	switch {
	case f[2] == "failed_to_read_packet", f[2] == "received_request",
		strings.HasPrefix(f[2], "failed_to_decode_packet_payload"), strings.HasPrefix(f[2], "failed_to_validate_packet_payload"):
		return true
	}
	return false
}

// canonical form of a verdict record: "at" is checked against [lo, hi] and dropped, "from" is
// mapped to the client index.
func canonRecord(rec string, lo, hi time.Time) string {
	f := strings.Fields(rec)
	out := f[1:3]
	for _, kv := range f[3:] {
		k, v, _ := strings.Cut(kv, "=")
		switch k {
		case "at":
			ns, _ := strconv.ParseInt(v, 10, 64)
			if ns < lo.Add(-50*time.Millisecond).UnixNano() || ns > hi.Add(50*time.Millisecond).UnixNano() {
				atBad = append(atBad, fmt.Sprintf("at=%d window=[%d,%d]", ns, lo.UnixNano(), hi.UnixNano()))
			}
		case "from":
			if i, ok := fromIdx[v]; ok {
				out = append(out, "from=c"+strconv.Itoa(i))
			} else {
				out = append(out, "from=?"+v)
			}
		default:
			out = append(out, kv)
		}
	}
	return strings.Join(out, " ")
}

// nextVerdicts waits for n verdict records of the listener.
func nextVerdicts(n int, lo time.Time) ([]string, string) {
	var recs []string
	deadline := time.After(4 * time.Second)
	for len(recs) < n {
		select {
		case l := <-lsn.lines:
			if isVerdict(l) {
				recs = append(recs, canonRecord(l, lo, time.Now()))
			} else if strings.Contains(l, "failed_to_read_packet_rx_timestamp") {
				rxTsMiss++
			}
		case <-lsn.dead:
			return recs, "dead"
		case <-deadline:
			return recs, "stalled"
		}
	}
	return recs, ""
}

func sendTo(i, port int, b []byte) {
	s := clientSock(i)
	s.WriteToUDP(b, &net.UDPAddr{IP: net.ParseIP(lsnIP), Port: port})
}

// drainReplies counts (and returns) the datagrams waiting on the client sockets.
func drainReplies() (n int, what []string) {
	buf := make([]byte, 4096)
	keys := make([]int, 0, len(cliSocks))
	for i := range cliSocks {
		keys = append(keys, i)
	}
	sort.Ints(keys)
	for _, i := range keys {
		s := cliSocks[i]
		for {
			s.SetReadDeadline(time.Now().Add(200 * time.Microsecond))
			k, from, err := s.ReadFromUDP(buf)
			if err != nil {
				break
			}
			n++
			if len(what) < 8 {
				what = append(what, fmt.Sprintf("c%d<-%s:%s", i, from, lib.Hex(buf[:k])))
			}
		}
	}
	return
}

var lastReplies []string

func unhex(s string) []byte {
	if s == "-" {
		return nil
	}
	if len(s)%2 != 0 {
		panic("bad-op")
	}
	b := make([]byte, len(s)/2)
	for i := range b {
		v, err := strconv.ParseUint(s[2*i:2*i+2], 16, 8)
		if err != nil {
			panic("bad-op")
		}
		b[i] = byte(v)
	}
	return b
}

func kvOf(t []string, key string) string {
	for _, s := range t {
		if k, v, ok := strings.Cut(s, "="); ok && k == key {
			return v
		}
	}
	panic("bad-op")
}

func atoi(s string) int {
	v, err := strconv.Atoi(s)
	if err != nil || v < 0 {
		panic("bad-op")
	}
	return v
}

// ---------------------------------------------------------------- parent: client side

var (
	cli                       *child
	srvEv, srvGen             *net.UDPConn // scripted server 127.0.0.2:319 / :320
	srcX, srcY, srcZ          *net.UDPConn // 127.0.0.2:321, 127.0.0.3:319, 127.0.0.3:320
	lastRun                   map[string]string
	lastReqSync, lastReqFU    []byte
	lastScriptSent            time.Duration
	lastSrvRecs               []string
	lastClientStatus, lastRaw string
)

func bind(ip string, port int) *net.UDPConn {
	for try := 0; try < 20; try++ {
		s, err := net.ListenUDP("udp4", &net.UDPAddr{IP: net.ParseIP(ip), Port: port})
		if err == nil {
			return s
		}
		time.Sleep(50 * time.Millisecond)
	}
	return nil
}

func ensureScripted() bool {
	if srvEv == nil {
		srvEv = bind(scrIP, 319)
	}
	if srvGen == nil {
		srvGen = bind(scrIP, 320)
	}
	if srcX == nil {
		srcX = bind(scrIP, 321)
	}
	if srcY == nil {
		srcY = bind(othIP, 319)
	}
	if srcZ == nil {
		srcZ = bind(othIP, 320)
	}
	return srvEv != nil && srvGen != nil && srcX != nil && srcY != nil && srcZ != nil
}

func ensureClient() error {
	if cli.alive() {
		return nil
	}
	if cli != nil {
		cli.kill()
	}
	var err error
	cli, err = startChild("client")
	return err
}

type scriptItem struct {
	src string
	b   []byte
}

func parseScript(s string) []scriptItem {
	if s == "-" {
		return nil
	}
	var out []scriptItem
	for _, it := range strings.Split(s, ",") {
		src, h, ok := strings.Cut(it, "/")
		if !ok || !strings.Contains("egxyz", src) || len(src) != 1 {
			panic("bad-op")
		}
		out = append(out, scriptItem{src, unhex(h)})
	}
	return out
}

func parseDone(line string) (status string, kv map[string]string) {
	f := strings.Fields(line)
	kv = map[string]string{}
	if len(f) < 2 || f[0] != "DONE" {
		return "garbled", kv
	}
	for _, s := range f[2:] {
		if k, v, ok := strings.Cut(s, "="); ok {
			kv[k] = v
		}
	}
	return f[1], kv
}

// clientExchange runs one measurement of the real client against remote; script: what the
// scripted server sends once both requests have arrived (only for remote == scrIP).
// status: "" | "dead" | "stalled" | "skip …" | "norequest".
func clientExchange(seq, dl int, remote string, script []scriptItem) (st string, kv map[string]string, status string) {
	if !ensureScripted() {
		return "", nil, "skip scripted-server-ports-unavailable"
	}
	if err := ensureClient(); err != nil {
		return "", nil, "skip " + us(err.Error())
	}
	buf := make([]byte, 2048)
	for _, s := range []*net.UDPConn{srvEv, srvGen} {
		for {
			s.SetReadDeadline(time.Now().Add(200 * time.Microsecond))
			if _, err := s.Read(buf); err != nil {
				break
			}
		}
	}
	for len(cli.lines) > 0 {
		<-cli.lines
	}
	fmt.Fprintf(cli.in, "go %d %d %s\n", seq, dl, remote)
	t0 := time.Now()
	lastReqSync, lastReqFU = nil, nil
	if remote == scrIP {
		srvEv.SetReadDeadline(time.Now().Add(2 * time.Second))
		n, caddr, err := srvEv.ReadFromUDP(buf)
		if err == nil {
			lastReqSync = append([]byte(nil), buf[:n]...)
			srvGen.SetReadDeadline(time.Now().Add(2 * time.Second))
			n, caddr2, err2 := srvGen.ReadFromUDP(buf)
			if err2 == nil {
				lastReqFU = append([]byte(nil), buf[:n]...)
				if caddr2.String() != caddr.String() {
					lastReqFU = nil // the two requests must come from one socket
				}
				for _, it := range script {
					var s *net.UDPConn
					switch it.src {
					case "e":
						s = srvEv
					case "g":
						s = srvGen
					case "x":
						s = srcX
					case "y":
						s = srcY
					case "z":
						s = srcZ
					}
					s.WriteToUDP(it.b, caddr)
				}
			}
		}
		lastScriptSent = time.Since(t0)
	}
	select {
	case line := <-cli.lines:
		lastRaw = line
		st, kv = parseDone(line)
		if remote == scrIP && (lastReqSync == nil || lastReqFU == nil) {
			return st, kv, "norequest"
		}
		return st, kv, ""
	case <-cli.dead:
		return "", nil, "dead"
	case <-time.After(time.Duration(dl)*time.Millisecond + 5*time.Second):
		cli.kill()
		return "", nil, "stalled"
	}
}

func clientAnswer(st string, kv map[string]string) string {
	switch st {
	case "ok":
		return fmt.Sprintf("ok m0=%s m1=%s tlv=%s trace=%s", kv["m0"], kv["m1"], kv["tlv"], kv["trace"])
	case "err":
		return fmt.Sprintf("err %s trace=%s", kv["class"], kv["trace"])
	}
	return "garbled"
}

// late: the outcome may have been shaped by the deadline rather than by the datagrams (load).
func late(st string, kv map[string]string, dl int, nScript int) bool {
	el, _ := strconv.Atoi(kv["el"])
	gap, _ := strconv.Atoi(kv["gap"])
	// an outcome reached before the deadline was decided by the datagrams alone; a time-out may
	// hide datagrams the starved client never got to read
	timedOut := st == "err" && kv["class"] == "read" && nScript > 0
	switch {
	case timedOut && gap > dl/4:
		lateWhy["gap"]++
	case timedOut && lastScriptSent > time.Duration(dl/4)*time.Millisecond:
		lateWhy["script-sent-late"]++
	case st == "err" && kv["class"] != "read" && el >= dl-20:
		lateWhy["error-near-deadline"]++
	case st == "ok" && el >= dl-20:
		lateWhy["ok-near-deadline"]++
	default:
		return false
	}
	return true
}

// ---------------------------------------------------------------- exec

func exec1(t []string) string {
	switch t[0] {
	case "srv.dgram":
		if len(t) != 4 {
			return "bad-op"
		}
		port, ci, b := atoi(kvOf(t[1:2], "p")), atoi(kvOf(t[2:3], "c")), unhex(kvOf(t[3:4], "b"))
		if port != 319 && port != 320 {
			return "bad-op"
		}
		if err := ensureListener(); err != nil {
			return "skip " + us(err.Error())
		}
		lo := time.Now()
		sendTo(ci, port, b)
		recs, st := nextVerdicts(1, lo)
		if st != "" {
			if st == "stalled" {
				lsn.kill()
			}
			return st
		}
		return "ok " + recs[0]
	case "srv.burst":
		if len(t) != 3 {
			return "bad-op"
		}
		port := atoi(kvOf(t[1:2], "p"))
		if port != 319 && port != 320 {
			return "bad-op"
		}
		type item struct {
			c int
			b []byte
		}
		var items []item
		for _, it := range strings.Split(kvOf(t[2:3], "items"), ",") {
			cs, h, ok := strings.Cut(it, ":")
			if !ok {
				return "bad-op"
			}
			items = append(items, item{atoi(cs), unhex(h)})
		}
		if err := ensureListener(); err != nil {
			return "skip " + us(err.Error())
		}
		for _, it := range items {
			clientSock(it.c)
		}
		lo := time.Now()
		for _, it := range items {
			sendTo(it.c, port, it.b)
		}
		recs, st := nextVerdicts(len(items), lo)
		if st != "" {
			if st == "stalled" {
				lsn.kill()
			}
			return st
		}
		sort.Strings(recs)
		return "ok " + strings.Join(recs, "|")
	case "srv.drain":
		if len(t) != 1 {
			return "bad-op"
		}
		if err := ensureListener(); err != nil {
			return "skip " + us(err.Error())
		}
		time.Sleep(15 * time.Millisecond)
		n, what := drainReplies()
		lastReplies = what
		if !lsn.alive() {
			return "dead"
		}
		return fmt.Sprintf("ok replies=%d", n)
	case "cl.req":
		if len(t) != 2 {
			return "bad-op"
		}
		seq := atoi(kvOf(t[1:2], "seq"))
		if seq > 65535 {
			return "bad-op"
		}
		_, _, status := clientExchange(seq, 60, scrIP, nil)
		if status != "" {
			return status
		}
		return fmt.Sprintf("ok sync=%s fu=%s", lib.Hex(lastReqSync), lib.Hex(lastReqFU))
	case "cl.run":
		if len(t) != 4 {
			return "bad-op"
		}
		seq, dl, script := atoi(kvOf(t[1:2], "seq")), atoi(kvOf(t[2:3], "dl")), parseScript(kvOf(t[3:4], "ev"))
		if seq > 65535 || dl < 20 || dl > 5000 {
			return "bad-op"
		}
		var ans string
		for try := 0; ; try++ {
			st, kv, status := clientExchange(seq, dl, scrIP, script)
			lastClientStatus = status
			if status != "" {
				if (status == "norequest" || strings.HasPrefix(status, "skip")) && try < 2 {
					continue
				}
				return status
			}
			lastRun = kv
			lastRun["status"] = st
			ans = clientAnswer(st, kv)
			if late(st, kv, dl, len(script)) && try < 3 {
				lateRetries++
				continue
			}
			break
		}
		return ans
	case "cl.eval":
		return "live-only"
	case "e2e.run":
		if len(t) != 3 {
			return "bad-op"
		}
		seq, dl := atoi(kvOf(t[1:2], "seq")), atoi(kvOf(t[2:3], "dl"))
		if seq > 65535 || dl < 20 || dl > 5000 {
			return "bad-op"
		}
		if err := ensureListener(); err != nil {
			return "skip " + us(err.Error())
		}
		for len(lsn.lines) > 0 {
			<-lsn.lines
		}
		lo := time.Now()
		st, kv, status := clientExchange(seq, dl, lsnIP, nil)
		if status != "" {
			return status
		}
		recs, lst := nextVerdicts(2, lo)
		if lst != "" {
			return "listener-" + lst
		}
		// both requests come from the client's one socket
		from := ""
		for i, r := range recs {
			f := strings.Fields(r)
			for j, kvs := range f {
				if strings.HasPrefix(kvs, "from=?") {
					a := strings.TrimPrefix(kvs, "from=?")
					if i == 0 {
						from = a
					}
					if a == from && strings.HasPrefix(a, lsnIP+":") {
						f[j] = "from=cl"
					}
				}
			}
			recs[i] = strings.Join(f, " ")
		}
		// event-port record first
		sort.SliceStable(recs, func(i, j int) bool { return !strings.Contains(recs[i], " t=") && strings.Contains(recs[j], " t=") })
		time.Sleep(10 * time.Millisecond)
		n, _ := drainReplies()
		lastSrvRecs = recs
		return fmt.Sprintf("%s srv=%s replies=%d", clientAnswer(st, kv), strings.Join(recs, "|"), n)
	}
	return "bad-op"
}

var lateRetries int
var lateWhy = map[string]int{}

// ---------------------------------------------------------------- message builders (generator side)

func syncMsg(seq uint16) csptp.Message {
	return csptp.Message{
		SdoIDMessageType: csptp.MessageTypeSync, PTPVersion: csptp.PTPVersion, MessageLength: csptp.MinMessageLength,
		DomainNumber: csptp.DomainNumber, MinorSdoID: csptp.MinorSdoID, FlagField: csptp.FlagTwoStep | csptp.FlagUnicast,
		SourcePortIdentity: csptp.PortID{ClockID: 0, Port: 1}, SequenceID: seq, ControlField: csptp.ControlSync,
	}
}

func encMsg(m *csptp.Message, extra int) []byte {
	b := make([]byte, csptp.MinMessageLength+extra)
	csptp.EncodeMessage(b[:csptp.MinMessageLength], m)
	return b
}

func reqTLV(flag uint32) csptp.RequestTLV {
	t := csptp.RequestTLV{
		Type:                csptp.TLVTypeOrganizationExtension,
		OrganizationID:      [3]uint8{csptp.OrganizationIDMeinberg0, csptp.OrganizationIDMeinberg1, csptp.OrganizationIDMeinberg2},
		OrganizationSubType: [3]uint8{csptp.OrganizationSubTypeRequest0, csptp.OrganizationSubTypeRequest1, csptp.OrganizationSubTypeRequest2},
		FlagField:           flag,
	}
	t.Length = uint16(csptp.EncodedRequestTLVLength(&t))
	return t
}

// reqSync / reqFollowUp: a well-formed request pair as a client sends it.
func reqSync(seq uint16) []byte {
	m := syncMsg(seq)
	return encMsg(&m, 0)
}

func reqFollowUp(seq uint16, flag uint32) []byte {
	t := reqTLV(flag)
	n := csptp.EncodedRequestTLVLength(&t)
	m := syncMsg(seq)
	m.SdoIDMessageType, m.FlagField, m.ControlField = csptp.MessageTypeFollowUp, csptp.FlagUnicast, csptp.ControlFollowUp
	m.MessageLength = uint16(csptp.MinMessageLength + n)
	b := encMsg(&m, n)
	csptp.EncodeRequestTLV(b[csptp.MinMessageLength:], &t)
	return b
}

// respSync / respFollowUp: a well-formed response pair as a server would send it.
func respSync(seq uint16, corr int64) []byte {
	m := syncMsg(seq)
	m.SourcePortIdentity = csptp.PortID{ClockID: 1, Port: 1}
	m.CorrectionField, m.LogMessageInterval = corr, csptp.LogMessageInterval
	return encMsg(&m, 0)
}

func respTLV(flag uint32, t1 time.Time, t1c int64, utc int16) csptp.ResponseTLV {
	t := csptp.ResponseTLV{
		Type:                    csptp.TLVTypeOrganizationExtension,
		OrganizationID:          [3]uint8{csptp.OrganizationIDMeinberg0, csptp.OrganizationIDMeinberg1, csptp.OrganizationIDMeinberg2},
		OrganizationSubType:     [3]uint8{csptp.OrganizationSubTypeResponse0, csptp.OrganizationSubTypeResponse1, csptp.OrganizationSubTypeResponse2},
		FlagField:               flag,
		RequestIngressTimestamp: csptp.TimestampFromTime(t1),
		RequestCorrectionField:  t1c,
		UTCOffset:               utc,
		ServerStateDS:           csptp.ServerStateDS{GMPriority1: 128, GMClockClass: 6, GMClockID: 0x1122334455667788, TimeSource: 0x20},
	}
	t.Length = uint16(csptp.EncodedResponseTLVLength(&t))
	return t
}

func respFollowUp(seq uint16, fl uint16, corr int64, t2 time.Time, tlv csptp.ResponseTLV) []byte {
	n := csptp.EncodedResponseTLVLength(&tlv)
	m := syncMsg(seq)
	m.SourcePortIdentity = csptp.PortID{ClockID: 1, Port: 1}
	m.SdoIDMessageType, m.FlagField, m.ControlField = csptp.MessageTypeFollowUp, fl, csptp.ControlFollowUp
	m.CorrectionField, m.LogMessageInterval = corr, csptp.LogMessageInterval
	m.MessageLength = uint16(csptp.MinMessageLength + n)
	m.Timestamp = csptp.TimestampFromTime(t2)
	b := encMsg(&m, n)
	csptp.EncodeResponseTLV(b[csptp.MinMessageLength:], &tlv)
	return b
}

// header field table: offset, width
var hdrFields = [][2]int{{0, 1}, {1, 1}, {2, 2}, {4, 1}, {5, 1}, {6, 2}, {8, 8}, {16, 4}, {20, 8}, {28, 2}, {30, 2}, {32, 1}, {33, 1}, {34, 6}, {40, 4}}
var tlvFields = [][2]int{{44, 2}, {46, 2}, {48, 3}, {51, 3}, {54, 4}}

func setField(b []byte, off, w int, v uint64) []byte {
	out := append([]byte(nil), b...)
	for i := 0; i < w; i++ {
		if off+i < len(out) {
			out[off+i] = byte(v >> (8 * uint(w-1-i)))
		}
	}
	return out
}

// ---------------------------------------------------------------- generator

func gen(c *lib.Ctx) {
	defer func() {
		lsn.kill()
		cli.kill()
	}()
	genListener(c)
	genClient(c)
	genE2E(c)
	c.Counters["late-retries"] = lateRetries
	for k, v := range lateWhy {
		c.Counters["late:"+k] = v
	}
	c.Counters["rx-timestamp-missing"] = rxTsMiss
}

func main() {
	switch role := os.Getenv("C08CSPTP_ROLE"); role {
	case "listener":
		childListener()
	case "client":
		childClient()
	case "inner":
		if os.Getenv("C08CSPTP_NETNS") == "1" {
			if err := loopbackUp(); err != nil {
				fmt.Fprintln(os.Stderr, "loopback up:", err)
			}
		}
		lib.Main(exec1, gen)
	default:
		self, _ := os.Executable()
		cmd := exec.Command(self, os.Args[1:]...)
		cmd.Stdout, cmd.Stderr, cmd.Stdin = os.Stdout, os.Stderr, os.Stdin
		cmd.Env = append(os.Environ(), "C08CSPTP_ROLE=inner", "C08CSPTP_NETNS=1")
		cmd.SysProcAttr = &syscall.SysProcAttr{Unshareflags: syscall.CLONE_NEWNET}
		err := cmd.Run()
		if err != nil {
			if _, isExit := err.(*exec.ExitError); !isExit {
				// no namespace: host loopback, serialised with c08net (same ports) by its lock file
				lock, lerr := os.OpenFile("/tmp/verif-c08net.lock", os.O_CREATE|os.O_RDWR, 0o644)
				if lerr == nil {
					syscall.Flock(int(lock.Fd()), syscall.LOCK_EX)
					defer lock.Close()
				}
				cmd = exec.Command(self, os.Args[1:]...)
				cmd.Stdout, cmd.Stderr, cmd.Stdin = os.Stdout, os.Stderr, os.Stdin
				cmd.Env = append(os.Environ(), "C08CSPTP_ROLE=inner", "C08CSPTP_NETNS=0")
				err = cmd.Run()
			}
		}
		if ee, ok := err.(*exec.ExitError); ok {
			os.Exit(ee.ExitCode())
		} else if err != nil {
			fmt.Fprintln(os.Stderr, err)
			os.Exit(2)
		}
	}
}

func loopbackUp() error {
	fd, err := unix.Socket(unix.AF_INET, unix.SOCK_DGRAM, 0)
	if err != nil {
		return err
	}
	defer unix.Close(fd)
	ifr, err := unix.NewIfreq("lo")
	if err != nil {
		return err
	}
	if err := unix.IoctlIfreq(fd, unix.SIOCGIFFLAGS, ifr); err != nil {
		return err
	}
	ifr.SetUint16(ifr.Uint16() | unix.IFF_UP)
	return unix.IoctlIfreq(fd, unix.SIOCSIFFLAGS, ifr)
}

var _ = big.NewInt
