package main

import (
	"encoding/binary"
	"fmt"
	"math/big"
	"strconv"
	"strings"
	"time"

	"example.com/scion-time/net/csptp"

	"verifharness/lib"
)

// runner wraps exec1 with skip handling, emission and the dead/stalled confirmation.
type runner struct {
	c       *lib.Ctx
	skipped map[string]bool
	hist    []string // listener ops since the last history marker (a stall may need the whole history)
}

// history starts a new history (comment line in both streams).
func (r *runner) history(name string) {
	r.c.Comment("history " + name)
	r.hist = nil
}

func (r *runner) run(op string) string {
	ans := lib.Try(func() string { return exec1(strings.Fields(op)) })
	if strings.HasPrefix(ans, "skip") {
		if !r.skipped[ans] {
			r.skipped[ans] = true
			r.c.NotExecuted("socket-level sub-run skipped: " + ans)
		}
		r.c.Count("skipped")
		return ans
	}
	r.c.Emit(op, ans)
	return ans
}

// do: one op; a dead or stalled child is confirmed by an isolated re-run (fresh child, this op
// alone) before it is reported.
func (r *runner) do(sig, op string) string {
	bad := func(a string) bool { return a == "dead" || a == "stalled" || strings.HasPrefix(a, "listener-") }
	isSrv := strings.HasPrefix(op, "srv.")
	ans := r.run(op)
	if isSrv {
		r.hist = append(r.hist, op)
	}
	if !bad(ans) {
		return ans
	}
	// 1. the op alone against a fresh child
	ans2 := r.run(op)
	if bad(ans2) {
		r.c.Fail("C08:csptp:"+sig+":"+ans2, "a single crafted input terminates or stalls the process that received it",
			[]string{op}, map[string]any{"first": ans, "isolated_rerun": ans2, "stderr": lastStderr})
		return ans2
	}
	// 2. the history since the last marker against a fresh child (the damage may have been done by an earlier datagram)
	if isSrv && len(r.hist) > 1 {
		lsn.kill()
		last := ""
		for _, h := range r.hist {
			last = lib.Try(func() string { return exec1(strings.Fields(h)) })
			if bad(last) {
				break
			}
		}
		if bad(last) {
			r.c.Fail("C08:csptp:"+sig+":"+last+"-after-history", "after this history of datagrams the process that received them is dead or no longer takes up datagrams",
				append([]string(nil), r.hist...), map[string]any{"first": ans, "op_alone": ans2, "history_rerun": last, "stderr": lastStderr})
			lsn.kill()
			r.hist = nil
			return last
		}
	}
	r.c.Count("flaky-not-reproduced")
	return ans2
}

func dgramOp(port, cidx int, b []byte) string {
	return fmt.Sprintf("srv.dgram p=%d c=%d b=%s", port, cidx, lib.Hex(b))
}

// ---------------------------------------------------------------- listener

type step struct {
	port int
	b    []byte
}

func genListener(c *lib.Ctx) {
	r := c.Rand.Fork("listener")
	rn := &runner{c: c, skipped: map[string]bool{}}
	if err := ensureListener(); err != nil {
		c.NotExecuted("CSPTP listener did not start: " + err.Error())
		return
	}
	for i := 0; i < nClients; i++ {
		clientSock(i)
	}
	countVerdict := func(ans string) {
		f := strings.Fields(ans)
		if len(f) >= 3 && f[0] == "ok" {
			c.Count("srv:" + f[2])
		} else if len(f) > 0 {
			c.Count("srv-answer:" + f[0])
		}
	}

	// probe: a well-formed request pair from a FRESH socket. Direct oracle, independent of the
	// model: both halves are processed (the listener's record names this sender and carries the
	// header / TLV that was sent), and the number of replies equals base (what a fresh listener
	// did at the start of the run; -1: this call establishes it).
	probe := func(base int, history []string) int {
		renewClientSock(probeClient)
		seq := uint16(r.U64())
		flag := uint32(r.Intn(2))
		sy, fu := reqSync(seq), reqFollowUp(seq, flag)
		ops := []string{dgramOp(319, probeClient, sy), dgramOp(320, probeClient, fu)}
		a1 := rn.do("listener", ops[0])
		a2 := rn.do("listener", ops[1])
		want1 := "ok DEBUG received_request from=c" + strconv.Itoa(probeClient) + " m=" + lib.Hex(sy)
		want2 := "ok DEBUG received_request from=c" + strconv.Itoa(probeClient) + " m=" + lib.Hex(fu[:44]) + " t=" + lib.Hex(fu[44:58])
		if strings.HasPrefix(a1, "skip") || strings.HasPrefix(a2, "skip") {
			return base
		}
		if a1 != want1 || a2 != want2 {
			c.Fail("C08:csptpsrv:request-not-processed", "after this history a well-formed request pair from a fresh client is no longer taken up by the CSPTP listener (expected one 'received request' record per half, naming the sender and carrying the header / TLV sent)",
				append(append([]string(nil), history...), ops...), map[string]any{"sync": a1, "follow_up": a2, "want_sync": want1, "want_follow_up": want2})
		}
		if base > 0 {
			// a listener that answers: give it time
			deadline := time.Now().Add(1500 * time.Millisecond)
			for time.Now().Before(deadline) {
				s := cliSocks[probeClient]
				s.SetReadDeadline(time.Now().Add(20 * time.Millisecond))
				var one [1]byte
				if _, _, err := s.ReadFromUDP(one[:]); err == nil {
					break
				}
			}
		} else {
			time.Sleep(20 * time.Millisecond)
		}
		a3 := rn.do("listener", "srv.drain")
		n := -1
		fmt.Sscanf(a3, "ok replies=%d", &n)
		if base >= 0 && n >= 0 && n != base {
			c.Fail("C08:csptpsrv:answer-behaviour-changed", fmt.Sprintf("a fresh CSPTP listener answered a well-formed request pair with %d datagram(s); after this history the same kind of pair is answered with %d", base, n),
				append(append([]string(nil), history...), append(ops, "srv.drain")...), map[string]any{"replies": lastReplies})
		}
		return n
	}

	rn.history("baseline: what a fresh listener does with a well-formed request pair")
	base := probe(-1, nil)
	if base < 0 {
		c.NotExecuted("CSPTP listener: baseline probe did not complete")
		return
	}
	c.Counters["baseline:replies-to-well-formed-pair"] = base
	if base == 0 {
		c.NotExecuted("the CSPTP listener answers no request at this commit (sequenceComplete is never set): 'the next well-formed request is still answered' is checked as 'still processed (received-request record) and answered exactly like a fresh listener answers'")
	}

	// ---- corpus: lengths, truncation, oversize, every header / TLV field, every byte
	rn.history("corpus: lengths")
	sy, fu1, fu0 := reqSync(7), reqFollowUp(7, 1), reqFollowUp(7, 0)
	for _, port := range []int{319, 320} {
		for _, tmpl := range [][]byte{sy, fu1} {
			for l := 0; l <= 100; l += 1 + l/c.Scale(6, 200) {
				b := make([]byte, l)
				copy(b, tmpl)
				countVerdict(rn.do("listener", dgramOp(port, 0, b))) // length field as in the template
				if l >= 4 {
					binary.BigEndian.PutUint16(b[2:], uint16(l))
					countVerdict(rn.do("listener", dgramOp(port, 1, b))) // length field = datagram length
				}
			}
			for _, l := range []int{98, 99, 100, 128, 1472, 4000} {
				b := make([]byte, l)
				copy(b, tmpl)
				binary.BigEndian.PutUint16(b[2:], uint16(l))
				countVerdict(rn.do("listener", dgramOp(port, 2, b)))
			}
		}
	}
	rn.history("corpus: header and TLV fields")
	vals := func(w int) []uint64 {
		max := uint64(1)<<(8*uint(w)) - 1
		if w == 8 {
			max = ^uint64(0)
		}
		return []uint64{0, 1, max, max >> 1, r.U64() & max}
	}
	for _, tc := range []struct {
		port int
		b    []byte
	}{{319, sy}, {320, fu1}, {320, fu0}, {320, sy}, {319, fu1}} {
		for _, f := range hdrFields {
			for _, v := range vals(f[1]) {
				countVerdict(rn.do("listener", dgramOp(tc.port, 3, setField(tc.b, f[0], f[1], v))))
			}
		}
		if len(tc.b) > 44 {
			for _, f := range tlvFields {
				for _, v := range vals(f[1]) {
					countVerdict(rn.do("listener", dgramOp(tc.port, 4, setField(tc.b, f[0], f[1], v))))
				}
			}
			// the request sub-type versus the response sub-type, and the other kinds of TLV
			countVerdict(rn.do("listener", dgramOp(tc.port, 4, setField(tc.b, 51, 3, 0x526573))))
		}
		for off := 0; off < len(tc.b); off += c.Scale(3, 1) {
			b := append([]byte(nil), tc.b...)
			b[off] ^= byte(1 + r.Intn(255))
			countVerdict(rn.do("listener", dgramOp(tc.port, 5, b)))
		}
	}
	rn.do("listener", "srv.drain")

	// ---- 8-bit header fields exhaustively (the first byte drives the branching)
	rn.history("corpus: 8-bit header fields, all values")
	offs := []int{0}
	if c.Thorough() {
		offs = []int{0, 1, 4, 5, 32, 33}
	}
	for _, tc := range []struct {
		port int
		b    []byte
	}{{319, sy}, {320, fu1}, {319, fu0}, {320, sy}} {
		for _, off := range offs {
			for v := 0; v < 256; v++ {
				countVerdict(rn.do("listener", dgramOp(tc.port, 7+v%4, setField(tc.b, off, 1, uint64(v)))))
			}
		}
	}
	rn.do("listener", "srv.drain")

	// ---- a response pair fed to the listener (no reflection)
	rn.history("responses fed to the listener")
	now := time.Now()
	for _, flag := range []uint32{0, 1} {
		rs := respSync(9, 0)
		rf := respFollowUp(9, csptp.FlagUnicast, 0, now, respTLV(flag, now, 0, 0))
		for _, port := range []int{319, 320} {
			countVerdict(rn.do("listener", dgramOp(port, 6, rs)))
			countVerdict(rn.do("listener", dgramOp(port, 6, rf)))
		}
	}
	if a := rn.do("listener", "srv.drain"); a != "ok replies=0" && strings.HasPrefix(a, "ok") {
		c.Fail("C08:csptpsrv:reply-to-response", "the CSPTP listener sent a datagram although it was fed response messages only (a response must never be answered: two servers would bounce messages forever)",
			[]string{"srv.drain"}, map[string]any{"answer": a, "replies": lastReplies})
	}

	// ---- histories: several clients interleaved
	nh := c.Scale(14, 300)
	for h := 0; h < nh; h++ {
		rn.history(strconv.Itoa(h))
		var hist []string
		k := 2 + r.Intn(4)
		queues := make([][]step, k)
		complete := false
		for ci := 0; ci < k; ci++ {
			for e := 0; e < 2+r.Intn(5); e++ {
				seq := uint16(r.U64())
				if r.Chance(30) {
					seq = uint16(e)
				}
				flag := uint32(r.Intn(2))
				sy, fu := reqSync(seq), reqFollowUp(seq, flag)
				q := &queues[ci]
				switch x := r.Intn(100); {
				case x < 45:
					*q = append(*q, step{319, sy}, step{320, fu})
					complete = true
					c.Count("gen:pair")
				case x < 53:
					*q = append(*q, step{320, fu}, step{319, sy})
					complete = true
					c.Count("gen:follow-up-first")
				case x < 59:
					*q = append(*q, step{319, sy})
					c.Count("gen:sync-only")
				case x < 65:
					*q = append(*q, step{320, fu})
					c.Count("gen:follow-up-only")
				case x < 70:
					*q = append(*q, step{319, sy}, step{319, sy}, step{320, fu}, step{320, fu})
					complete = true
					c.Count("gen:duplicated")
				case x < 76:
					*q = append(*q, step{319, sy}, step{320, reqFollowUp(seq+1+uint16(r.Intn(3)), flag)})
					c.Count("gen:wrong-sequence-id")
				case x < 80:
					b := setField(fu, 20, 8, r.U64()) // clock identity
					b = setField(b, 28, 2, uint64(r.Intn(1<<16)))
					*q = append(*q, step{319, sy}, step{320, b})
					c.Count("gen:wrong-port-identity")
				case x < 85:
					*q = append(*q, step{320, sy}, step{319, fu})
					c.Count("gen:wrong-port")
				case x < 88:
					*q = append(*q, step{319, sy[:r.Intn(44)]}, step{320, fu[:r.Intn(len(fu))]})
					c.Count("gen:truncated")
				case x < 90:
					big := make([]byte, 99+r.Intn(1400))
					copy(big, fu)
					binary.BigEndian.PutUint16(big[2:], uint16(len(big)))
					*q = append(*q, step{319 + r.Intn(2), big})
					c.Count("gen:oversized")
				case x < 96:
					f := hdrFields[r.Intn(len(hdrFields))]
					*q = append(*q, step{319, setField(sy, f[0], f[1], r.U64())})
					f = append(hdrFields, tlvFields...)[r.Intn(len(hdrFields)+len(tlvFields))]
					*q = append(*q, step{320, setField(fu, f[0], f[1], r.U64())})
					c.Count("gen:field-mutant")
				default:
					*q = append(*q, step{319 + r.Intn(2), r.Bytes(r.Intn(110))})
					c.Count("gen:random")
				}
			}
		}
		// random interleaving that keeps each client's order
		for {
			var live []int
			for ci := range queues {
				if len(queues[ci]) > 0 {
					live = append(live, ci)
				}
			}
			if len(live) == 0 {
				break
			}
			ci := live[r.Intn(len(live))]
			s := queues[ci][0]
			queues[ci] = queues[ci][1:]
			op := dgramOp(s.port, ci, s.b)
			hist = append(hist, op)
			countVerdict(rn.do("listener", op))
		}
		a := rn.do("listener", "srv.drain")
		hist = append(hist, "srv.drain")
		var n int
		if _, err := fmt.Sscanf(a, "ok replies=%d", &n); err == nil && n > 0 && !complete {
			c.Fail("C08:csptpsrv:reply-without-request-pair", "the CSPTP listener sent a datagram although no client had sent a complete well-formed Sync/Follow_Up pair",
				hist, map[string]any{"answer": a, "replies": lastReplies})
		}
		if h%c.Scale(4, 2) == 0 || h == nh-1 {
			probe(base, hist)
		}
	}

	// ---- bursts: the sixteen loops working at the same time
	rn.history("bursts")
	for i := 0; i < c.Scale(6, 150); i++ {
		port := 319 + r.Intn(2)
		var items []string
		for j := 0; j < 16; j++ {
			seq := uint16(r.U64())
			var b []byte
			switch r.Intn(5) {
			case 0:
				b = reqSync(seq)
			case 1:
				b = reqFollowUp(seq, uint32(r.Intn(2)))
			case 2:
				b = reqFollowUp(seq, 1)[:r.Intn(98)]
			case 3:
				f := tlvFields[r.Intn(len(tlvFields))]
				b = setField(reqFollowUp(seq, 1), f[0], f[1], r.U64())
			default:
				b = r.Bytes(44 + r.Intn(60))
				b[0] = []byte{0, 8}[r.Intn(2)]
				binary.BigEndian.PutUint16(b[2:], uint16(len(b)))
			}
			items = append(items, fmt.Sprintf("%d:%s", r.Intn(nClients), lib.Hex(b)))
		}
		a := rn.do("listener", fmt.Sprintf("srv.burst p=%d items=%s", port, strings.Join(items, ",")))
		if strings.HasPrefix(a, "ok") {
			c.Count("srv:burst")
		}
	}
	rn.do("listener", "srv.drain")
	probe(base, []string{"# after the whole run"})
	c.Counters["at-outside-window"] = len(atBad)
}

// ---------------------------------------------------------------- client

type elem struct {
	src string
	b   []byte
}

func evString(s []elem) string {
	if len(s) == 0 {
		return "-"
	}
	var parts []string
	for _, e := range s {
		parts = append(parts, e.src+"/"+lib.Hex(e.b))
	}
	return strings.Join(parts, ",")
}

func genClient(c *lib.Ctx) {
	r := c.Rand.Fork("client")
	rn := &runner{c: c, skipped: map[string]bool{}}
	if !ensureScripted() {
		c.NotExecuted("CSPTP client run: scripted-server sockets unavailable")
		return
	}
	dl := 250

	c.Comment("CSPTP client: the request pair")
	for _, seq := range []int{0, 1, 255, 256, 65535, r.Intn(65536)} {
		rn.do("client", fmt.Sprintf("cl.req seq=%d", seq))
	}

	now := func() time.Time { return time.Now() }
	// a well-formed response pair with recognisable content
	k := 0
	mkSync := func(seq uint16) elem {
		k++
		return elem{"e", respSync(seq, int64(k)<<20)}
	}
	mkFU := func(seq uint16) elem {
		k++
		t := now().Add(time.Duration(k) * time.Millisecond)
		fl := uint16(csptp.FlagUnicast)
		if r.Bool() {
			fl |= csptp.FlagCurrentUTCOffsetValid
		}
		return elem{"g", respFollowUp(seq, fl, int64(r.Range(-1<<24, 1<<24)), t, respTLV(uint32(r.Intn(2)), t, int64(r.Range(-1<<24, 1<<24)), int16(r.Range(-40, 40))))}
	}
	junk := func(seq uint16) elem {
		sy, fu := mkSync(seq), mkFU(seq)
		switch r.Intn(16) {
		case 0:
			return elem{"e", sy.b[:r.Intn(44)]}
		case 1:
			return elem{"g", fu.b[:r.Intn(44)]}
		case 2:
			return elem{"e", setField(sy.b, 2, 2, uint64(45+r.Intn(50)))}
		case 3:
			return elem{"e", setField(sy.b, 30, 2, uint64(seq-1-uint16(r.Intn(3))))} // an older sequence id
		case 4:
			return elem{"g", setField(fu.b, 30, 2, uint64(seq+1+uint16(r.Intn(3))))}
		case 5:
			return elem{[]string{"g", "x", "y", "z"}[r.Intn(4)], sy.b}
		case 6:
			return elem{[]string{"e", "x", "y", "z"}[r.Intn(4)], fu.b}
		case 7:
			b := append(append([]byte(nil), sy.b...), r.Bytes(1+r.Intn(20))...)
			return elem{"e", setField(b, 2, 2, uint64(len(b)))}
		case 8:
			return elem{"g", setField(fu.b[:44+r.Intn(14)], 2, 2, 0)} // TLV shorter than its head; length field patched below
		case 9:
			f := tlvFields[[]int{0, 2, 3}[r.Intn(3)]]
			return elem{"g", setField(fu.b, f[0], f[1], r.U64())}
		case 10:
			return elem{"g", setField(fu.b, 51, 3, 0x526571)} // a request TLV
		case 11:
			return elem{"g", setField(fu.b, 54, 4, uint64(binary.BigEndian.Uint32(fu.b[54:58])^1))} // flag says the other length
		case 12:
			return elem{[]string{"e", "g"}[r.Intn(2)], setField(sy.b, 0, 1, uint64([]byte{1, 9, 0x10, 0x80, 0xff}[r.Intn(5)]))}
		case 13:
			b := make([]byte, 99+r.Intn(300))
			copy(b, fu.b)
			return elem{"g", setField(b, 2, 2, uint64(len(b)))}
		case 14:
			return elem{[]string{"e", "g", "x"}[r.Intn(3)], r.Bytes(r.Intn(99))}
		default:
			f := hdrFields[r.Intn(len(hdrFields))]
			return elem{"e", setField(sy.b, f[0], f[1], r.U64())}
		}
	}
	fixLen := func(e elem) elem { // make the header's length field agree with the datagram (so that later checks are reached)
		if len(e.b) >= 4 && len(e.b) <= 98 && r.Chance(70) {
			e.b = setField(e.b, 2, 2, uint64(len(e.b)))
		}
		return e
	}

	type script struct {
		seq          uint16
		ev           []elem
		mustComplete bool // at most three malformed datagrams, then a genuine pair: the measurement must succeed
		note         string
	}
	var scripts []script
	add := func(note string, seq uint16, must bool, ev ...elem) {
		scripts = append(scripts, script{seq, ev, must, note})
	}
	for _, seq := range []uint16{0, 1, 65535, uint16(r.U64())} {
		s, f := mkSync(seq), mkFU(seq)
		add("pair", seq, true, s, f)
		add("pair-swapped", seq, true, f, s)
	}
	{
		seq := uint16(1000 + r.Intn(1000))
		s, s2, f, f2 := mkSync(seq), mkSync(seq), mkFU(seq), mkFU(seq)
		add("duplicate-sync", seq, true, s, s2, f)
		add("duplicate-follow-up", seq, true, f, f2, s)
		add("older-sequence-first", seq, true, mkSync(seq-1), mkFU(seq-1), s, f)
		add("mismatched-halves", seq, false, s, mkFU(seq+1))
		add("mismatched-halves-then-genuine", seq, true, s, mkFU(seq+1), f)
		add("sync-from-general-port", seq, false, elem{"g", s.b})
		add("follow-up-from-event-port", seq, false, elem{"e", f.b})
		add("sync-foreign-host", seq, false, elem{"y", s.b}, f)
		add("sync-reset-by-foreign-copy", seq, false, s, elem{"x", s.b}, f)
		add("sync-reset-then-genuine", seq, true, s, elem{"x", s.b}, f, s2)
		add("three-malformed-then-pair", seq, true, elem{"e", s.b[:10]}, elem{"g", f.b[:43]}, elem{"x", s.b}, s, f)
		add("four-malformed", seq, false, elem{"e", s.b[:10]}, elem{"g", f.b[:43]}, elem{"x", s.b}, elem{"e", setField(s.b, 30, 2, uint64(seq+9))}, s, f)
		add("fourth-is-wrong-source", seq, false, s, s, s, elem{"z", f.b}, f)
		add("fourth-is-short-tlv", seq, false, s, s, s, elem{"g", setField(f.b[:50], 2, 2, 50)}, f)
		add("fourth-is-oversized", seq, false, s, s, s, elem{"g", make([]byte, 150)}, f)
		add("fourth-accepted-then-many-malformed", seq, true, s, s, s, s, elem{"e", s.b[:3]}, elem{"g", f.b[:20]}, elem{"x", f.b}, elem{"e", setField(s.b, 0, 1, 5)}, elem{"g", make([]byte, 200)}, s, f)
		add("f17-shape", seq, true, elem{"g", []byte{8, 0, 0, 10, 0, 0, 0, 0, 0, 0}}, s, f)
		add("empty-datagram", seq, true, elem{"e", nil}, elem{"g", nil}, s, f)
		add("nothing", seq, false)
		add("sync-only", seq, false, s)
		add("follow-up-only", seq, false, f)
		add("tlv-partial-overwrite", seq, false, f, elem{"g", setField(setField(f.b[:80], 2, 2, 80), 54, 4, 1)}, s)
		add("tlv-partial-overwrite-then-genuine", seq, true, f, elem{"g", setField(setField(f.b[:80], 2, 2, 80), 54, 4, 1)}, s, f2)
		add("request-tlv-as-response", seq, false, s, elem{"g", setField(f.b, 51, 3, 0x526571)})
		add("sync-with-trailing-bytes", seq, false, elem{"e", setField(append(append([]byte(nil), s.b...), 1, 2, 3), 2, 2, 47)}, f)
		add("unknown-type", seq, true, elem{"e", setField(s.b, 0, 1, 1)}, elem{"g", setField(f.b, 0, 1, 9)}, s, f)
		add("own-request-echoed", seq, false, elem{"e", reqSync(seq)}, elem{"g", reqFollowUp(seq, 1)})
	}
	for i := 0; i < c.Scale(36, 1500); i++ {
		seq := uint16(r.U64())
		var ev []elem
		must := false
		switch r.Intn(4) {
		case 0, 1: // up to three malformed datagrams, then the genuine pair (either order, perhaps duplicated)
			for j := r.Intn(4); j > 0; j-- {
				ev = append(ev, fixLen(junk(seq)))
			}
			s, f := mkSync(seq), mkFU(seq)
			switch r.Intn(4) {
			case 0:
				ev = append(ev, f, s)
			case 1:
				ev = append(ev, s, mkSync(seq), f)
			default:
				ev = append(ev, s, f)
			}
			must = true
		case 2: // the fourth datagram decides
			for j := 0; j < 3; j++ {
				if r.Bool() {
					ev = append(ev, mkSync(seq))
				} else {
					ev = append(ev, fixLen(junk(seq)))
				}
			}
			ev = append(ev, fixLen(junk(seq)), mkSync(seq), mkFU(seq))
		default: // four accepted datagrams, then malformed ones are ignored until the pair completes
			for j := 0; j < 4; j++ {
				ev = append(ev, mkSync(seq))
			}
			for j := r.Intn(5); j > 0; j-- {
				ev = append(ev, fixLen(junk(seq)))
			}
			ev = append(ev, mkFU(seq))
			if r.Bool() {
				ev = append(ev, mkSync(seq))
			}
		}
		scripts = append(scripts, script{seq, ev, must, "random"})
	}

	c.Comment("CSPTP client: response histories from a scripted server")
	for _, s := range scripts {
		op := fmt.Sprintf("cl.run seq=%d dl=%d ev=%s", s.seq, dl, evString(s.ev))
		ans := rn.do("client", op)
		f := strings.Fields(ans)
		if len(f) == 0 || (f[0] != "ok" && f[0] != "err") {
			c.Count("cl:" + ans)
			continue
		}
		c.Count("cl:" + s.note + ":" + f[0])
		if f[0] == "err" && len(f) > 1 {
			c.Count("cl-err:" + f[1])
		}
		kv := lastRun
		if f[0] == "ok" {
			// direct oracle 1: what the client evaluated is a datagram the queried server's event port sent
			// and a datagram its general port sent, both carrying the outstanding sequence id
			okSync, okFU := false, false
			for _, e := range s.ev {
				if len(e.b) < 44 || binary.BigEndian.Uint16(e.b[30:32]) != s.seq {
					continue
				}
				if e.src == "e" && lib.Hex(e.b) == kv["m0"] {
					okSync = true
				}
				if e.src == "g" && lib.Hex(e.b) == kv["m1"]+strings.TrimPrefix(kv["tlv"], "-") {
					okFU = true
				}
			}
			if !okSync || !okFU {
				c.Fail("C08:csptpcli:offset-from-foreign-or-stale-datagram", "the CSPTP client reported an offset although the messages it evaluated are not a Sync from the queried server's port 319 and a Follow_Up from its port 320 with the outstanding sequence id",
					[]string{op}, map[string]any{"answer": ans, "sync_found": okSync, "follow_up_found": okFU, "client": lastRaw})
			}
			if kv["recs"] != "1/1" || kv["off"] != kv["loff"] {
				c.Fail("C08:csptpcli:returned-offset-not-the-evaluated-one", "the offset the CSPTP client returns is not the clock offset it logged for the evaluated pair", []string{op}, map[string]any{"client": lastRaw})
			}
			if want := strconv.Itoa(int(s.seq + 1)); kv["seqafter"] != want {
				c.Count("cl:sequence-id-not-advanced")
			}
			emitEval(c, kv)
		} else {
			if kv["seqafter"] != strconv.Itoa(int(s.seq)) {
				c.Count("cl:sequence-id-advanced-on-error")
			}
			if s.mustComplete {
				// alone once more: a verdict only if it repeats
				ans2 := rn.run(op)
				if strings.HasPrefix(ans2, "err") {
					c.Fail("C08:csptpcli:genuine-pair-not-accepted", "after at most three malformed or foreign datagrams the genuine response pair (right server ports, outstanding sequence id) was not accepted: the client returned an error",
						[]string{op}, map[string]any{"first": ans, "again": ans2, "client": lastRaw})
				}
			}
		}
	}
}

// emitEval: the values the client returned / logged for the pair it evaluated, to be recomputed by
// the model (`cl.eval`). t0 (the client's TX timestamp) is recovered from the logged C2S delay.
func emitEval(c *lib.Ctx, kv map[string]string) {
	m1, tlv := unhex(kv["m1"]), unhex(kv["tlv"])
	if len(m1) != 44 || len(tlv) < 36 {
		return
	}
	var t csptp.ResponseTLV
	var m csptp.Message
	if csptp.DecodeResponseTLV(&t, tlv) != nil || csptp.DecodeMessage(&m, m1) != nil {
		return
	}
	t1 := csptp.TimeFromTimestamp(t.RequestIngressTimestamp)
	if d := time.Since(t1); d > 24*time.Hour || d < -24*time.Hour {
		return // far-away timestamps: time.Time.Sub saturates, t0 cannot be recovered
	}
	c2s, err1 := strconv.ParseInt(kv["c2s"], 10, 64)
	ts, err2 := strconv.ParseInt(kv["ts"], 10, 64)
	if err1 != nil || err2 != nil {
		return
	}
	utc := big.NewInt(0)
	if m.FlagField&csptp.FlagCurrentUTCOffsetValid == csptp.FlagCurrentUTCOffsetValid {
		utc.Mul(big.NewInt(int64(t.UTCOffset)), big.NewInt(1e9))
	}
	t0 := big.NewInt(t1.UnixNano())
	t0.Sub(t0, big.NewInt(t.RequestCorrectionField>>16))
	t0.Sub(t0, utc)
	t0.Sub(t0, big.NewInt(c2s))
	c.Emit(fmt.Sprintf("cl.eval t0=%s t3=%d m0=%s m1=%s tlv=%s", t0.String(), ts, kv["m0"], kv["m1"], kv["tlv"]),
		fmt.Sprintf("ok off=%s c2s=%s s2c=%s mpd=%s", kv["off"], kv["c2s"], kv["s2c"], kv["mpd"]))
	c.Count("cl:eval")
}

// ---------------------------------------------------------------- real client against real listener

func genE2E(c *lib.Ctx) {
	r := c.Rand.Fork("e2e")
	rn := &runner{c: c, skipped: map[string]bool{}}
	c.Comment("the real CSPTP client against the real CSPTP listener")
	for i := 0; i < c.Scale(2, 12); i++ {
		a := rn.do("e2e", fmt.Sprintf("e2e.run seq=%d dl=%d", r.Intn(65536), 120))
		c.Count("e2e:" + strings.Fields(a)[0])
	}
}
