// c19: correspondence + direct oracle for the PLL clock discipline
// (core/sync/adjustments/pll.go). The real Pll runs in-process against a scripted
// timebase.SystemClock that records every Step/Adjust call; histories of (offset, weight)
// updates at scripted clock readings and epochs are executed by the real code and by the
// Lean model (Model/Pll.lean via drv_c19). math.Pow's result is an input of the model: the
// generator passes Go's own math.Pow(0.999, dt) in the op line (pow=<bits>).
package main

import (
	"fmt"
	"log/slog"
	"math"
	"math/big"
	"strconv"
	"strings"
	"time"

	"example.com/scion-time/base/timebase"
	"example.com/scion-time/core/sync/adjustments"

	"verifharness/lib"
)

// ---------------------------------------------------------------- scripted clock

type call struct {
	step      bool
	offset    time.Duration
	duration  time.Duration
	frequency float64
}

type fakeClock struct {
	bump  bool // Step moves the epoch on, as driver/clocks.SystemClock.Step does
	epoch uint64
	now   time.Time
	calls []call
}

var _ timebase.SystemClock = (*fakeClock)(nil)

func (c *fakeClock) Epoch() uint64                     { return c.epoch }
func (c *fakeClock) Now() time.Time                    { return c.now }
func (c *fakeClock) Drift(time.Duration) time.Duration { panic("fakeClock: Drift called") }
func (c *fakeClock) Sleep(time.Duration)               { panic("fakeClock: Sleep called") }
func (c *fakeClock) Step(offset time.Duration) {
	c.calls = append(c.calls, call{step: true, offset: offset})
	if c.bump {
		c.epoch++
	}
}
func (c *fakeClock) Adjust(offset, duration time.Duration, frequency float64) {
	c.calls = append(c.calls, call{offset: offset, duration: duration, frequency: frequency})
}

var (
	clk = &fakeClock{}
	pll = adjustments.NewPLL(slog.New(slog.DiscardHandler), clk)
)

func bits(f float64) string {
	if f != f {
		return "7ff8000000000001"
	}
	return fmt.Sprintf("%016x", math.Float64bits(f))
}

func pf(s string) float64 {
	u, err := strconv.ParseUint(s, 16, 64)
	if err != nil || len(s) != 16 {
		panic("bad-op")
	}
	return math.Float64frombits(u)
}

func pi(s string) int64 {
	v, err := strconv.ParseInt(s, 10, 64)
	if err != nil {
		panic("bad-op")
	}
	return v
}

const secLimit = int64(1) << 40

func fmtTime(t time.Time) string { return fmt.Sprintf("%d:%d", t.Unix(), t.Nanosecond()) }

func stateString() string {
	e, m, t0, t, a, b, i := pll.VerifState()
	return fmt.Sprintf("e=%d m=%d t0=%s t=%s a=%s b=%s i=%s", e, m, fmtTime(t0), fmtTime(t), bits(a), bits(b), bits(i))
}

func exec(t []string) string {
	switch {
	case t[0] == "pll.new" && len(t) == 1:
		clk = &fakeClock{}
		pll = adjustments.NewPLL(slog.New(slog.DiscardHandler), clk)
		return "ok"
	case t[0] == "pll.do" && (len(t) == 7 || len(t) == 8 && t[7] == "rc"):
		e, err := strconv.ParseUint(t[1], 10, 64)
		if err != nil || !strings.HasPrefix(t[6], "pow=") {
			return "bad-op"
		}
		sec, ns, off := pi(t[2]), pi(t[3]), pi(t[4])
		w := pf(t[5])
		pf(t[6][4:]) // must parse; the implementation computes math.Pow itself
		if ns < 0 || ns >= 1e9 || sec < -secLimit || sec > secLimit {
			return "bad-op"
		}
		clk.epoch = e
		clk.bump = len(t) == 8
		clk.now = time.Unix(sec, ns)
		clk.calls = clk.calls[:0]
		pll.Do(time.Duration(off), w)
		var sb strings.Builder
		sb.WriteString("ok ")
		sb.WriteString(stateString())
		for _, c := range clk.calls {
			if c.step {
				fmt.Fprintf(&sb, " step:%d", int64(c.offset))
			} else {
				fmt.Fprintf(&sb, " adj:%d:%d:%s", int64(c.offset), int64(c.duration), bits(c.frequency))
			}
		}
		return sb.String()
	}
	return "bad-op"
}

// ---------------------------------------------------------------- generator + direct oracle

// hist is the oracle's own view of one history, kept from the property text (not from the
// model): where the current epoch segment started, whether a Step was already made in it.
type hist struct {
	c         *lib.Ctx
	ops       []string
	started   bool // at least one update done
	epoch     uint64
	segStart  *big.Int // reading of the first update of the current epoch segment (ns)
	prev      *big.Int // reading of the previous update (ns)
	stepped   bool     // a Step was made in this segment
	monotone  bool     // readings never decreased within the current segment
	sec, ns   int64    // current clock reading
	clkEpoch  uint64
	rc        bool
	maxModeIn uint64
}

func nsOf(sec, ns int64) *big.Int {
	x := new(big.Int).Mul(big.NewInt(sec), big.NewInt(1e9))
	return x.Add(x, big.NewInt(ns))
}

var (
	bigSec    = big.NewInt(1e9)
	maxI64Big = big.NewInt(math.MaxInt64)
	minI64Big = big.NewInt(math.MinInt64)
)

// empirically exhaustive (all d in [1, 9223372037]): int64(d*500e-6*1e9) <= 500000*d holds
// up to here and fails first at 9007199268 (the product reaches 2^52, spacing 1).
const slewCheckedMaxD = 9007199267

func newHist(c *lib.Ctx, sec, ns int64, epoch uint64) *hist {
	h := &hist{c: c, sec: sec, ns: ns, clkEpoch: epoch, monotone: true}
	op := "pll.new"
	c.Comment("history")
	c.Do(op)
	h.ops = append(h.ops, op)
	return h
}

func (h *hist) advance(gap int64) {
	// gap in ns (may be negative), split to avoid overflow
	s := h.sec + gap/1e9
	n := h.ns + gap%1e9
	if n >= 1e9 {
		s, n = s+1, n-1e9
	}
	if n < 0 {
		s, n = s-1, n+1e9
	}
	h.sec, h.ns = s, n
}

func (h *hist) fits() bool { return h.sec > -secLimit+1 && h.sec < secLimit-1 }

// update performs one Do(offset, weight) at the current scripted reading and checks the
// clauses of the property on what the implementation did.
func (h *hist) update(off int64, w float64) {
	c := h.c
	_, modeBefore, _, tPrev, aBefore, _, _ := pll.VerifState()
	now := time.Unix(h.sec, h.ns)
	pow := math.Pow(0.999, now.Sub(tPrev).Seconds())
	op := fmt.Sprintf("pll.do %d %d %d %d %s pow=%s", h.clkEpoch, h.sec, h.ns, off, bits(w), bits(pow))
	if h.rc {
		op += " rc" // the clock's Step moves its epoch on during the call (real clock behaviour)
	}
	ans := c.Do(op)
	h.ops = append(h.ops, op)
	cur := nsOf(h.sec, h.ns)
	// the recorded assumption about math.Pow (an input of the model): 0 <= pow <= 1 whenever
	// the reading is not before the previous one
	if tp := nsOf(tPrev.Unix(), int64(tPrev.Nanosecond())); cur.Cmp(tp) >= 0 {
		if !(pow >= 0 && pow <= 1) {
			c.Fail("C19:assumption-pow", "math.Pow(0.999, dt) outside [0,1] for dt >= 0", []string{op}, map[string]any{"pow": bits(pow)})
		}
		if pow == 0 {
			c.Count("pow:underflow-to-0")
		} else if pow == 1 {
			c.Count("pow:1")
		} else {
			c.Count("pow:in(0,1)")
		}
	}

	newSeg := !h.started && h.clkEpoch != 0 || h.started && h.clkEpoch != h.epoch
	first := !h.started || newSeg
	if first {
		h.segStart, h.stepped, h.monotone = cur, false, true
		if newSeg {
			c.Count("epoch:change-in-mode-" + strconv.FormatUint(modeBefore, 10))
		}
	} else if cur.Cmp(h.prev) < 0 {
		h.monotone = false
		c.Count("clock:reading-decreased")
	} else if cur.Cmp(h.prev) == 0 {
		c.Count("clock:reading-equal")
	}
	fail := func(sig, what string, detail map[string]any) {
		ops := h.ops
		if len(ops) > 400 {
			ops = append([]string{"pll.new"}, ops[len(ops)-399:]...) // not minimal; the full history is in ops.txt
		}
		c.Fail(sig, what, append([]string(nil), ops...), detail)
	}
	f := strings.Fields(ans)
	if len(f) > 0 && f[0] == "panic" {
		c.Count("answer:" + ans)
		if h.monotone {
			fail("C19:panic-with-monotone-clock", "Do panicked although the clock readings never decreased", map[string]any{"answer": ans})
		}
		// the receiver is unchanged by a panic; the reading is not recorded as previous
		h.started, h.epoch = true, h.clkEpoch
		if first {
			h.prev = cur
		}
		return
	}
	if len(f) == 0 || f[0] != "ok" {
		fail("C19:bad-answer", "unexpected answer", map[string]any{"answer": ans})
		return
	}
	_, modeAfter, _, _, aAfter, _, _ := pll.VerifState()
	if first {
		modeBefore = 0 // the epoch test restarts the sequence before the switch
	}
	if modeBefore == 3 {
		switch {
		case w < 50:
			c.Count("gain:weight<50")
		case w < 150:
			c.Count("gain:weight<150")
		case aAfter != aBefore:
			c.Count("gain:stiffening")
			if pow == 0 {
				c.Count("gain:stiffening-pow-underflow-to-0")
			}
		case aBefore > 0.03:
			c.Count("gain:capture-time-not-reached")
		default:
			c.Count("gain:at-pLimit")
		}
	}
	c.Count(fmt.Sprintf("mode:%d->%d", modeBefore, modeAfter))
	if first && modeAfter != 1 {
		fail("C19:epoch-restart", "first update of an epoch did not restart the start-up sequence", map[string]any{"mode_after": modeAfter})
	}
	if modeAfter > 3 || (!first && modeAfter < modeBefore) || modeAfter > modeBefore+1 {
		fail("C19:mode-machine", "mode left 0..3 or moved other than +0/+1 within an epoch", map[string]any{"before": modeBefore, "after": modeAfter})
	}
	nSteps, nAdj := 0, 0
	for _, a := range f[1:] {
		switch {
		case strings.HasPrefix(a, "step:"):
			nSteps++
			v := pi(a[5:])
			since := new(big.Int).Sub(cur, h.segStart)
			absOff := new(big.Int).Abs(big.NewInt(off))
			want := off
			if off == math.MinInt64 {
				want = math.MinInt64 + 1 // Inv(Inv(MinInt64))
				c.Count("step:offset-minint64")
			}
			ok := !first && !h.stepped && modeBefore == 1 &&
				since.Cmp(big.NewInt(2e9)) > 0 && w > 3 && absOff.Cmp(big.NewInt(1e6)) > 0 && v == want
			c.Count("step:made")
			if !ok {
				fail("C19:step", "Step outside the awaiting-step phase (>2 s after epoch start, weight>3, |offset|>1 ms, once per epoch) or not by the measured offset",
					map[string]any{"step": v, "offset": off, "weight": bits(w), "since_epoch_start_ns": since.String(), "mode_before": modeBefore, "already_stepped": h.stepped})
			}
			h.stepped = true
		case strings.HasPrefix(a, "adj:"):
			nAdj++
			p := strings.Split(a[4:], ":")
			o, d, fr := pi(p[0]), pi(p[1]), pf(p[2])
			prev := h.prev
			if prev == nil { // an Adjust on the very first update: judged as a zero gap
				prev = cur
			}
			gap := new(big.Int).Sub(cur, prev)
			if gap.Cmp(maxI64Big) > 0 {
				gap = maxI64Big // Time.Sub saturates
				c.Count("adjust:gap-saturated")
			}
			D := new(big.Int).Add(gap, big.NewInt(1e9-1))
			D.Div(D, bigSec) // ceil for gap >= 0
			c.Count("adjust:made")
			if modeBefore != 3 || first {
				fail("C19:adjust-outside-tracking", "Adjust while not tracking", map[string]any{"mode_before": modeBefore})
			}
			if math.IsNaN(fr) || math.IsInf(fr, 0) {
				fail("C19:adjust-frequency", "Adjust with a non-finite frequency", map[string]any{"frequency": bits(fr)})
			}
			gapOK := gap.Sign() >= 0 // this reading is not before the previous one
			if !gapOK {
				c.Count("adjust:reading-decreased")
			}
			if !gapOK {
			} else if D.Cmp(big.NewInt(9223372036)) <= 0 {
				if d <= 0 {
					fail("C19:adjust-duration", "Adjust with a duration <= 0", map[string]any{"duration": d, "ceil_dt": D.String()})
				}
				// d = ceil of the float64 dt, which is floor(gap) or ceil(gap) whole seconds
				// (dt = float64(sec) + float64(nsec)/1e9 may round down to sec for gaps > 2^24 s)
				// and it can round down only from 2^23 s on: below, nsec/1e9 >= 1e-9 exceeds half an ulp)
				hi := new(big.Int).Mul(D, bigSec)
				lo := new(big.Int).Set(hi)
				if q := new(big.Int).Div(gap, bigSec); q.Cmp(big.NewInt(1<<23)) >= 0 {
					lo.Mul(q, bigSec)
				}
				db := big.NewInt(d)
				if new(big.Int).Sub(db, lo).Cmp(big.NewInt(-1024)) < 0 || new(big.Int).Sub(db, hi).Cmp(big.NewInt(1024)) > 0 {
					fail("C19:adjust-duration-value", "Adjust duration is not ceil(dt) seconds", map[string]any{"duration": d, "ceil_dt": D.String()})
				}
				if lo.Cmp(hi) < 0 && new(big.Int).Sub(db, lo).CmpAbs(big.NewInt(1024)) <= 0 {
					c.Count("adjust:float-ceil-below-true-ceil")
				}
			} else {
				c.Count("adjust:duration-outside-assumed-range")
				if d <= 0 {
					// recorded finding (known_findings.json): Time.Sub saturated (gap >= 2^63 ns, ~292 years
					// between two updates of one epoch) => ceil(dt)*1e9 overflows => non-positive duration
					fail("C19:known:adjust-duration-nonpositive:gap-saturated", "Adjust with a duration <= 0 when the gap between two updates of one epoch saturates Time.Sub (>= 2^63 ns)",
						map[string]any{"duration": d, "ceil_dt": D.String()})
				}
			}
			if !gapOK {
			} else if D.Cmp(big.NewInt(slewCheckedMaxD)) <= 0 {
				lim := new(big.Int).Mul(D, big.NewInt(500000))
				if new(big.Int).Abs(big.NewInt(o)).Cmp(lim) > 0 {
					fail("C19:slew", "|slew| > 500 ppm x ceil(dt)", map[string]any{"slew_ns": o, "ceil_dt": D.String()})
				}
				if new(big.Int).Abs(big.NewInt(o)).Cmp(lim) == 0 {
					c.Count("adjust:clamped")
				}
			} else {
				c.Count("adjust:slew-outside-assumed-range")
				lim := new(big.Int).Mul(D, big.NewInt(500000))
				if new(big.Int).Abs(big.NewInt(o)).Cmp(lim) > 0 && d > 0 {
					// recorded finding: from d = 9 007 199 268 s (~285 years) on the clamp d*500e-6, converted to
					// nanoseconds, can exceed 500000*d by 1 ns (float rounding)
					fail("C19:known:slew-exceeds-500ppm:d>=9007199268", "|slew| exceeds 500 ppm x ceil(dt) by float rounding for gaps of 285 years and more",
						map[string]any{"slew_ns": o, "ceil_dt": D.String()})
				}
			}
		case strings.Contains(a, "="): // state fields (compared with the model, not part of the oracle)
		default:
			fail("C19:bad-answer", "unexpected token", map[string]any{"answer": ans})
		}
	}
	if nSteps > 1 || nAdj > 1 || (nSteps == 1 && nAdj == 1) {
		fail("C19:calls", "more than one clock actuation in one update", map[string]any{"answer": ans})
	}
	if modeBefore == 3 && !first && nSteps > 0 {
		fail("C19:step-while-tracking", "Step while tracking", nil)
	}
	h.started, h.epoch, h.prev = true, h.clkEpoch, cur
}

func ulpUp(f float64) float64   { return math.Nextafter(f, math.Inf(1)) }
func ulpDown(f float64) float64 { return math.Nextafter(f, math.Inf(-1)) }

var weightEdges = []float64{3, 50, 150}

func genWeight(r *lib.Rand) float64 {
	switch r.Intn(12) {
	case 0, 1:
		e := weightEdges[r.Intn(3)]
		switch r.Intn(3) {
		case 0:
			return ulpDown(e)
		case 1:
			return e
		}
		return ulpUp(e)
	case 2:
		return []float64{math.NaN(), math.Inf(1), math.Inf(-1), 0, math.Copysign(0, -1), -5, math.MaxFloat64, 5e-324}[r.Intn(8)]
	case 3:
		return math.Float64frombits(r.U64())
	case 4, 5:
		return float64(r.Range(0, 60))
	case 6, 7:
		return float64(r.Range(40, 160)) + float64(r.Range(0, 99))/100
	default:
		return float64(r.Range(150, 100000))
	}
}

func genOffset(r *lib.Rand) int64 {
	switch r.Intn(12) {
	case 0, 1:
		return r.Pick64([]int64{1e6, -1e6}) + r.Range(-2, 2)
	case 2:
		return r.Pick64([]int64{math.MinInt64, math.MaxInt64, math.MinInt64 + 1, math.MaxInt64 - 1, 0, 1, -1})
	case 3:
		return r.I64()
	case 4:
		return r.Range(-5e9, 5e9)
	case 5, 6:
		return r.Range(-2e6, 2e6)
	default:
		return r.Range(-300000, 300000)
	}
}

var gapEdges = []int64{0, 1, 2e9, 6e9, 300e9, 1e9, 3e9, 100e9}

func genGap(r *lib.Rand, style int) int64 {
	k := r.Intn(100)
	switch {
	case k < 6:
		return 0
	case k < 16: // comparison edges and whole seconds, +-1..2 ns
		return r.Pick64(gapEdges) + r.Range(-2, 2)
	case k < 26: // around integer seconds
		return r.Range(0, 70)*1e9 + r.Range(-2, 2)
	case k < 30:
		return r.Range(1, 999999999)
	case k < 31 && style == 2: // months..centuries plus a few ns: float64 dt rounds down to whole seconds
		return r.Range(1<<24, 7900000000)*1e9 + r.Range(0, 3)
	case k < 33: // long gaps: hours .. days (math.Pow underflows to 0 from ~8.6 days on)
		return r.Range(3600, 30*86400) * 1e9
	case k < 34 && style == 2: // years
		return r.Range(1, 250) * 31556952 * 1e9
	case k < 35 && style == 2: // beyond the ranges the theorems certify: 285 y .. saturation of Time.Sub
		return r.Pick64([]int64{9007199267e9, 9007199268e9, 9223372036e9, 9223372036e9 + 1, math.MaxInt64, math.MaxInt64 - 1, 8e18, 8000000001e9}) - r.Range(0, 1)
	}
	switch style {
	case 0:
		return r.Range(1e9, 20e9)
	case 1:
		return r.Range(100e6, 4e9)
	default:
		return r.Range(1e9, 70e9)
	}
}

func history(c *lib.Ctx, r *lib.Rand, n int, backwards bool) {
	style := r.Intn(3)
	var sec int64
	switch r.Intn(4) {
	case 0:
		sec = r.Range(-1e9, 1e9)
	case 1:
		sec = r.Range(-secLimit/2, secLimit/4)
	default:
		sec = r.Range(1.6e9, 1.9e9)
	}
	epoch := uint64(0)
	switch r.Intn(4) {
	case 0:
		epoch = r.U64()
	case 1:
		epoch = uint64(r.Range(0, 3))
	case 2:
		epoch = math.MaxUint64 - uint64(r.Range(0, 2))
	}
	h := newHist(c, sec, r.Range(0, 999999999), epoch)
	realClock := r.Chance(60) // epoch moves after a Step, as driver/clocks does
	h.rc = realClock
	wFixed := -1.0
	if r.Chance(50) {
		wFixed = []float64{1000, 200, 150, 100, 20, 4}[r.Intn(6)]
	}
	for i := 0; i < n; i++ {
		if i > 0 {
			g := genGap(r, style)
			if backwards && r.Chance(4) {
				g = -r.Pick64([]int64{1, 2, 1e9, 7e9, 400e9, r.Range(1, 1e12)})
			}
			h.advance(g)
			if !h.fits() {
				return
			}
		}
		if r.Chance(2) { // externally caused epoch change at any point
			if r.Bool() {
				h.clkEpoch++
			} else {
				h.clkEpoch = r.U64()
			}
		}
		w := wFixed
		if w < 0 || r.Chance(15) {
			w = genWeight(r)
		}
		h.update(genOffset(r), w)
		if realClock && len(clk.calls) > 0 && clk.calls[0].step {
			h.clkEpoch++
		}
	}
}

func gen(c *lib.Ctx) {
	r := c.Rand

	// corpus: one plain start-up sequence with a step, then tracking with clamped slew
	{
		h := newHist(c, 1700000000, 0, 7)
		h.update(5e6, 1000)
		h.advance(2e9)
		h.update(5e6, 1000) // exactly 2 s: no step yet
		h.advance(1)
		h.update(5e6, 1000) // step
		h.advance(6e9 + 1)
		h.update(100, 1000) // -> tracking
		for i := 0; i < 40; i++ {
			h.advance(16e9)
			h.update(int64(i-20)*40000, 1000)
		}
		h.clkEpoch++
		h.update(1, 1) // restart
	}
	// corpus: the same with MinInt64 as the offset of the step
	{
		h := newHist(c, 1700000000, 999999999, 0)
		h.update(math.MinInt64, 4)
		h.advance(2e9 + 1)
		h.update(math.MinInt64, 4)
		h.advance(7e9)
		h.update(math.MinInt64, 4)
		h.advance(1e9 + 1)
		h.update(math.MinInt64, 4)
		h.advance(1e9)
		h.update(math.MaxInt64, 200)
	}
	// corpus: gaps outside the certified ranges (first d with clamp > 500000*d; saturated Sub)
	for _, g := range []int64{9007199267e9, 9007199268e9, 9223372036e9, 9223372036e9 + 1, math.MaxInt64} {
		h := newHist(c, -4e9, 0, 0)
		h.update(0, 10)
		h.advance(3e9)
		h.update(0, 10)
		h.advance(7e9)
		h.update(0, 10)
		h.advance(g)
		h.update(math.MinInt64, 10)
	}

	// boundary stream: every comparison of Pll.Do at / just below / just above its threshold
	w3 := []float64{ulpDown(3), 3, ulpUp(3), 1000}
	offs := []int64{1e6 - 1, 1e6, 1e6 + 1, -1e6 + 1, -1e6, -1e6 - 1, math.MinInt64, math.MaxInt64}
	for _, d2 := range []int64{-1, 0, 1} {
		for _, w := range w3 {
			for _, off := range offs {
				c.Count("boundary:step-phase")
				h := newHist(c, 1700000000, 999999999, 3)
				h.update(off, w)
				h.advance(2e9 + d2)
				h.update(off, w)
				h.advance(1)
				h.update(off, w)
				h.advance(1)
				h.update(off, 4)
			}
		}
	}
	for _, d6 := range []int64{-1, 0, 1} {
		for _, d300 := range []int64{-1, 0, 1} {
			for _, w := range []float64{ulpDown(50), 50, ulpUp(50), ulpDown(150), 150, ulpUp(150), 1000, math.NaN(), math.Inf(1)} {
				c.Count("boundary:pll-wait,capture-time,weights")
				h := newHist(c, -5, 0, 0)
				h.update(0, 10)
				h.advance(2e9 + 1)
				h.update(7e6, 10) // step
				h.advance(6e9 + d6)
				h.update(0, 10)
				h.advance(1)
				h.update(0, 10) // tracking from here (or from the previous update)
				_, _, t0, _, _, _, _ := pll.VerifState()
				target := nsOf(t0.Unix(), int64(t0.Nanosecond()))
				target.Add(target, big.NewInt(300e9+d300))
				h.advance(new(big.Int).Sub(target, nsOf(h.sec, h.ns)).Int64())
				h.update(-2e6, w) // mdt = captureTime + d300
				h.advance(1e9 - 1)
				h.update(2e6, w)
				h.advance(1e9)
				h.update(2e6, w)
				h.advance(1e9 + 1)
				h.update(-3e9, w)
				h.advance(0)
				h.update(5, w) // equal reading: d = 0, no Adjust
			}
		}
	}

	n := c.Scale(260, 4000)
	c.Comment("random histories")
	for k := 0; k < n; k++ {
		ln := 12 + r.Intn(60)
		if r.Chance(12) {
			ln = 300 + r.Intn(500) // long enough for l.a to decay to pLimit
		}
		history(c, r, ln, r.Chance(8))
	}
}

func main() { lib.Main(exec, gen) }
