// c08quic: correspondence + direct oracles for the packet connections of net/scion/quic.go
// (property C08; the file is a C08 anchor), i.e. what stands between the network and quic-go
// in the NTS-KE-over-QUIC server (core/server/ntske_scion.go) and client (net/ntske).
//
//	quic.read side=srv|cli wire=<hex> <facts…>   one crafted datagram is sent over loopback to the
//	        real serverConn / clientConn (child process, reached through the verif hook
//	        net/scion/verif_c08.go), followed by a well-formed sentinel; the answer is what
//	        ReadFrom did with it: ignored / delivered (payload, address, reply path) / returned
//	        an error / killed the process. The facts after wire= are what gopacket/slayers make
//	        of the bytes (same decoder set as readPkt) plus the reply pather's verdict on the
//	        path (third-party code: inputs of the Lean model, Model/ScionQuic.lean).
//	quic.live wire=<hex>   the datagram is sent to the real NTS-KE-over-QUIC server; afterwards
//	        a complete key exchange of the real ntske.Fetcher must still succeed.
package main

import (
	"context"
	"crypto/tls"
	"encoding/binary"
	"encoding/hex"
	"errors"
	"fmt"
	"net"
	"os"
	"strings"
	"time"

	"github.com/google/gopacket"

	"github.com/scionproto/scion/pkg/addr"
	"github.com/scionproto/scion/pkg/slayers"
	"github.com/scionproto/scion/pkg/slayers/path"
	"github.com/scionproto/scion/pkg/slayers/path/empty"
	"github.com/scionproto/scion/pkg/slayers/path/onehop"
	spscion "github.com/scionproto/scion/pkg/slayers/path/scion"
	"github.com/scionproto/scion/pkg/snet"

	"example.com/scion-time/net/ntske"
	"example.com/scion-time/net/udp"

	"verifharness/lib"
)

// ---------------------------------------------------------------- crafted packets

// rawPath carries path bytes verbatim under any path type number.
type rawPath struct {
	b []byte
	t path.Type
}

func (p *rawPath) SerializeTo(b []byte) error     { copy(b, p.b); return nil }
func (p *rawPath) DecodeFromBytes(b []byte) error { p.b = b; return nil }
func (p *rawPath) Reverse() (path.Path, error)    { return nil, errors.New("not supported") }
func (p *rawPath) Len() int                       { return len(p.b) }
func (p *rawPath) Type() path.Type                { return p.t }

type qpkt struct {
	sia, dia addr.IA
	st, dt   uint8 // address type/length fields
	sa, da   []byte
	pt       uint8
	path     []byte
	hbh, e2e bool
	l4       string // udp | scmp | other
	sp, dp   uint16
	pld      []byte
	udpLen   int // added to the UDP length field
	truncate int
	garbage  []byte
}

func (q qpkt) wire() []byte {
	if q.garbage != nil {
		return q.garbage
	}
	var scn slayers.SCION
	scn.SrcIA, scn.DstIA = q.sia, q.dia
	scn.SrcAddrType, scn.RawSrcAddr = slayers.AddrType(q.st), q.sa
	scn.DstAddrType, scn.RawDstAddr = slayers.AddrType(q.dt), q.da
	scn.Path, scn.PathType = &rawPath{q.path, path.Type(q.pt)}, path.Type(q.pt)
	buffer := gopacket.NewSerializeBuffer()
	options := gopacket.SerializeOptions{ComputeChecksums: true, FixLengths: true}
	must := func(err error) {
		if err != nil {
			panic(err)
		}
	}
	must(gopacket.Payload(q.pld).SerializeTo(buffer, options))
	l4 := slayers.L4UDP
	switch q.l4 {
	case "scmp":
		var scmp slayers.SCMP
		scmp.TypeCode = slayers.CreateSCMPTypeCode(slayers.SCMPTypeEchoRequest, 0)
		scmp.SetNetworkLayerForChecksum(&scn)
		must(scmp.SerializeTo(buffer, options))
		l4 = slayers.L4SCMP
	case "other":
		l4 = slayers.L4TCP
	default:
		var u slayers.UDP
		u.SrcPort, u.DstPort = q.sp, q.dp
		u.SetNetworkLayerForChecksum(&scn)
		must(u.SerializeTo(buffer, options))
	}
	scn.NextHdr = l4
	if q.e2e {
		var e2e slayers.EndToEndExtn
		e2e.NextHdr = scn.NextHdr
		e2e.Options = []*slayers.EndToEndOption{{OptType: slayers.OptTypePadN, OptData: make([]byte, 2)}}
		must(e2e.SerializeTo(buffer, options))
		scn.NextHdr = slayers.End2EndClass
	}
	if q.hbh {
		var hbh slayers.HopByHopExtn
		hbh.NextHdr = scn.NextHdr
		hbh.Options = []*slayers.HopByHopOption{{OptType: slayers.OptTypePadN, OptData: make([]byte, 2)}}
		must(hbh.SerializeTo(buffer, options))
		scn.NextHdr = slayers.HopByHopClass
	}
	must(scn.SerializeTo(buffer, options))
	w := append([]byte(nil), buffer.Bytes()...)
	if q.udpLen != 0 && q.l4 == "udp" {
		off := len(w) - len(q.pld) - 8 + 4
		binary.BigEndian.PutUint16(w[off:], uint16(int(binary.BigEndian.Uint16(w[off:]))+q.udpLen))
	}
	if q.truncate > 0 && q.truncate < len(w) {
		w = w[:len(w)-q.truncate]
	}
	return w
}

// facts: what gopacket/slayers make of the bytes, with readPkt's decoder set and options.
type qfacts struct {
	dec    bool
	layers string
	sia    uint64
	st     uint8
	sa     []byte
	sp     uint16
	pt     uint8
	path   []byte
	pld    []byte
	rev    string // reply pather: "<type>:<hex>" | "err"
}

func factsOf(wire []byte) (f qfacts) {
	var (
		scn slayers.SCION
		hbh slayers.HopByHopExtnSkipper
		e2e slayers.EndToEndExtnSkipper
		u   slayers.UDP
	)
	scn.RecyclePaths()
	u.SetNetworkLayerForChecksum(&scn)
	parser := gopacket.NewDecodingLayerParser(slayers.LayerTypeSCION, &scn, &hbh, &e2e, &u)
	parser.IgnoreUnsupported = true
	decoded := make([]gopacket.LayerType, 4)
	func() {
		defer func() {
			if recover() != nil {
				f.dec = false
			}
		}()
		f.dec = parser.DecodeLayers(append([]byte(nil), wire...), &decoded) == nil
	}()
	f.rev = "err"
	if !f.dec {
		f.layers = "-"
		return
	}
	for _, lt := range decoded {
		switch lt {
		case slayers.LayerTypeSCION:
			f.layers += "s"
		case slayers.LayerTypeHopByHopExtn:
			f.layers += "h"
		case slayers.LayerTypeEndToEndExtn:
			f.layers += "e"
		case slayers.LayerTypeSCIONUDP:
			f.layers += "u"
		}
	}
	if f.layers == "" {
		f.layers = "-"
	}
	f.sia = uint64(scn.SrcIA)
	f.st, f.sa = uint8(scn.SrcAddrType), append([]byte(nil), scn.RawSrcAddr...)
	if strings.HasSuffix(f.layers, "u") {
		f.sp = u.SrcPort
		f.pld = append([]byte(nil), u.Payload...)
	}
	if scn.Path != nil {
		f.pt = uint8(scn.Path.Type())
		f.path = make([]byte, scn.Path.Len())
		if err := scn.Path.SerializeTo(f.path); err != nil {
			f.path = nil
		}
		// the reply pather's verdict (third-party code; input of the model)
		func() {
			defer func() { recover() }()
			rp, err := snet.DefaultReplyPather{}.ReplyPath(snet.RawPath{PathType: scn.Path.Type(), Raw: append([]byte(nil), f.path...)})
			if err != nil {
				return
			}
			if rrp, ok := rp.(snet.RawReplyPath); ok && rrp.Path != nil {
				b := make([]byte, rrp.Path.Len())
				if rrp.Path.SerializeTo(b) == nil {
					f.rev = fmt.Sprintf("%d:%s", rrp.Path.Type(), lib.Hex(b))
				}
			}
		}()
	}
	return
}

func opOf(side string, wire []byte) string {
	f := factsOf(wire)
	op := fmt.Sprintf("quic.read side=%s wire=%s dec=%s layers=%s sia=%d st=%d sa=%s sp=%d pt=%d path=%s pld=%s rev=%s buf=%d",
		side, lib.Hex(wire), lib.Bool(f.dec), f.layers, f.sia, f.st, lib.Hex(f.sa), f.sp, f.pt, lib.Hex(f.path), lib.Hex(f.pld), f.rev, readBuf)
	if side == "cli" {
		op += fmt.Sprintf(" xia=%d xhost=%s xport=%d", uint64(xIA), lib.Hex(xHost), xPort)
	}
	return op
}

// ---------------------------------------------------------------- exec

var sentinelCtr int

func sentinelFor(side string) (wire []byte, pldHex string) {
	sentinelCtr++
	pld := []byte(fmt.Sprintf("SENTINEL-%s-%d-%d", side, os.Getpid(), sentinelCtr))
	q := qpkt{sia: srvIA, dia: cliIA, st: 0, sa: []byte{127, 0, 0, 2}, dt: 0, da: []byte{127, 0, 0, 1}, l4: "udp", sp: 5000, dp: 6000, pld: pld}
	if side == "cli" {
		q.sia, q.sa, q.sp = xIA, xHost, uint16(xPort)
	}
	return q.wire(), lib.Hex(pld)
}

func unhex(s string) ([]byte, bool) {
	if s == "-" {
		return []byte{}, true
	}
	if s != strings.ToLower(s) {
		return nil, false
	}
	b, err := hex.DecodeString(s)
	return b, err == nil
}

func kv(t []string, key string) (string, bool) {
	for _, x := range t {
		if strings.HasPrefix(x, key+"=") {
			return x[len(key)+1:], true
		}
	}
	return "", false
}

// lastHopSeen: the underlay next hop the server side reported for the last delivered datagram
// ("" if none) — for the direct oracle, not part of the answer (ephemeral port).
var lastHopSeen string

func execRead(side string, wire []byte) string {
	ch, err := getChild()
	if err != nil {
		return "sandbox " + strings.ReplaceAll(err.Error(), " ", "_")
	}
	// drain lines of earlier ops
	for len(ch.lines) > 0 {
		<-ch.lines
	}
	dst := &net.UDPAddr{IP: net.IPv4(127, 0, 0, 1), Port: ch.ports[side]}
	lastHopSeen = ""
	psock.WriteToUDP(wire, dst)
	swire, spld := sentinelFor(side)
	psock.WriteToUDP(swire, dst)
	var got []string
	deadline := time.After(5 * time.Second)
	for {
		select {
		case l := <-ch.lines:
			if !strings.HasPrefix(l, side+" ") {
				continue
			}
			if strings.HasPrefix(l, side+" ok pld="+spld+" ") {
				return summarise(side, got)
			}
			got = append(got, l)
		case <-ch.done:
			return "panic " + panicClassOf(ch.stderr.String())
		case <-deadline:
			ch.kill()
			if len(got) > 0 {
				return summarise(side, got) + " then-sentinel-lost"
			}
			return "hang"
		}
	}
}

// summarise: the answer for the crafted datagram from the lines ReadFrom's loop reported before
// the sentinel came through.
func summarise(side string, got []string) string {
	if len(got) == 0 {
		return "ok ignore"
	}
	if len(got) > 1 {
		return "err multiple-returns"
	}
	l := strings.TrimPrefix(got[0], side+" ")
	if strings.HasPrefix(l, "err ") {
		return l
	}
	// "ok pld=… ia=… host=… port=… [path=… hop=…]"
	f := strings.Fields(l)
	out := []string{"ok", "deliver"}
	for _, x := range f[1:] {
		if strings.HasPrefix(x, "hop=") {
			lastHopSeen = x[4:]
			continue
		}
		out = append(out, x)
	}
	return strings.Join(out, " ")
}

var fetchErrText string

// execLive: the datagram, then a key exchange with the real server. A key exchange that fails
// while the server process is alive is tried once more on its own (a transport that the
// datagram made quic-go close stays closed; a handshake lost to machine load does not repeat).
func execLive(wire []byte) string {
	ch, err := getChild()
	if err != nil {
		return "sandbox " + strings.ReplaceAll(err.Error(), " ", "_")
	}
	psock.WriteToUDP(wire, &net.UDPAddr{IP: net.IPv4(127, 0, 0, 1), Port: ch.ports["quic"]})
	time.Sleep(2 * time.Millisecond)
	ans := keyExchange(ch, 4*time.Second)
	if strings.HasPrefix(ans, "err") && !ch.dead() {
		ans = keyExchange(ch, 8*time.Second)
	}
	if ans != "ok alive" && !ch.dead() {
		ch.kill() // the listener no longer answers (quic-go closed the transport): fresh child for the next op
	}
	return ans
}

func keyExchange(ch *child, wait time.Duration) string {
	type res struct {
		d   ntske.Data
		err error
	}
	done := make(chan res, 1)
	go func() {
		f := &ntske.Fetcher{}
		f.Log = nolog
		f.TLSConfig = tls.Config{InsecureSkipVerify: true, ServerName: "127.0.0.1", MinVersion: tls.VersionTLS13}
		f.QUIC.Enabled = true
		f.QUIC.LocalAddr = udp.UDPAddr{IA: srvIA, Host: &net.UDPAddr{IP: net.IPv4(127, 0, 0, 1).To4()}}
		f.QUIC.RemoteAddr = udp.UDPAddr{IA: srvIA, Host: &net.UDPAddr{IP: net.IPv4(127, 0, 0, 1).To4(), Port: ch.ports["quic"]}}
		d, err := f.FetchData(context.Background())
		done <- res{d, err}
	}()
	select {
	case r := <-done:
		if ch.dead() {
			return "panic " + panicClassOf(ch.stderr.String())
		}
		if r.err != nil {
			fetchErrText = r.err.Error()
			return "err key-exchange-failed"
		}
		if len(r.d.Cookie) == 0 || len(r.d.C2sKey) == 0 {
			return "err key-exchange-empty"
		}
		return "ok alive"
	case <-ch.done:
		return "panic " + panicClassOf(ch.stderr.String())
	case <-time.After(wait):
		if ch.dead() {
			return "panic " + panicClassOf(ch.stderr.String())
		}
		return "err no-answer"
	}
}

func exec(t []string) string {
	switch t[0] {
	case "quic.read":
		side, ok1 := kv(t, "side")
		w, ok2 := kv(t, "wire")
		wire, ok3 := unhex(w)
		if !ok1 || !ok2 || !ok3 || side != "srv" && side != "cli" {
			return "bad-op"
		}
		// the facts are functions of the bytes: an op whose facts are not is malformed
		if strings.Join(t, " ") != opOf(side, wire) {
			return "bad-op"
		}
		return execRead(side, wire)
	case "quic.live":
		w, ok := kv(t, "wire")
		wire, ok2 := unhex(w)
		if !ok || !ok2 || len(t) != 2 {
			return "bad-op"
		}
		return execLive(wire)
	}
	return "bad-op"
}

// ---------------------------------------------------------------- paths

func scionPath(segLens []uint8, currINF, currHF uint8, consDir []bool) []byte {
	n := 0
	for _, l := range segLens {
		n += int(l)
	}
	d := spscion.Decoded{}
	for i, l := range segLens {
		d.PathMeta.SegLen[i] = l
	}
	d.PathMeta.CurrINF, d.PathMeta.CurrHF = currINF, currHF
	d.NumINF, d.NumHops = len(segLens), n
	for i := range segLens {
		d.InfoFields = append(d.InfoFields, path.InfoField{ConsDir: consDir[i%len(consDir)], SegID: uint16(0x1000 + i), Timestamp: 1700000000})
	}
	for i := 0; i < n; i++ {
		d.HopFields = append(d.HopFields, path.HopField{ExpTime: 63, ConsIngress: uint16(2*i + 1), ConsEgress: uint16(2*i + 2), Mac: [6]byte{1, 2, 3, 4, 5, byte(i)}})
	}
	b := make([]byte, d.Len())
	if err := d.SerializeTo(b); err != nil {
		panic(err)
	}
	return b
}

func oneHopPath(second bool) []byte {
	p := onehop.Path{Info: path.InfoField{ConsDir: true, SegID: 7, Timestamp: 1700000000},
		FirstHop: path.HopField{ExpTime: 63, ConsIngress: 0, ConsEgress: 11, Mac: [6]byte{1, 2, 3, 4, 5, 6}}}
	if second {
		p.SecondHop = path.HopField{ExpTime: 63, ConsIngress: 12, ConsEgress: 0, Mac: [6]byte{6, 5, 4, 3, 2, 1}}
	}
	b := make([]byte, p.Len())
	if err := p.SerializeTo(b); err != nil {
		panic(err)
	}
	return b
}

// ---------------------------------------------------------------- gen

type qcase struct {
	name string
	q    qpkt
}

func base(side string) qpkt {
	q := qpkt{sia: addr.MustParseIA("1-ff00:0:120"), dia: srvIA, st: 0, sa: []byte{10, 1, 2, 3}, dt: 0, da: []byte{127, 0, 0, 1},
		pt: uint8(empty.PathType), l4: "udp", sp: 40001, dp: 10124, pld: []byte("hello quic")}
	if side == "cli" {
		q.sia, q.sa, q.sp, q.dia = xIA, xHost, uint16(xPort), cliIA
	}
	return q
}

var mappedPrefix = []byte{0, 0, 0, 0, 0, 0, 0, 0, 0, 0, 0xff, 0xff}

func cat(bs ...[]byte) []byte {
	var o []byte
	for _, b := range bs {
		o = append(o, b...)
	}
	return o
}

func cases(r *lib.Rand, side string) []qcase {
	var cs []qcase
	g := base(side)
	add := func(name string, f func(q *qpkt)) {
		q := g
		f(&q)
		cs = append(cs, qcase{name, q})
	}
	z := func(n int) []byte { return make([]byte, n) }
	add("valid", func(q *qpkt) {})
	add("valid:empty-payload", func(q *qpkt) { q.pld = nil })
	add("valid:payload-1200", func(q *qpkt) { q.pld = r.Bytes(1200) })
	add("valid:payload-over-buffer", func(q *qpkt) { q.pld = r.Bytes(readBuf + 300) })
	add("valid:hbh", func(q *qpkt) { q.hbh = true })
	add("valid:e2e", func(q *qpkt) { q.e2e = true })
	add("valid:hbh+e2e", func(q *qpkt) { q.hbh, q.e2e = true, true })
	// source address types and lengths (network input)
	add("src:t16ip", func(q *qpkt) { q.st, q.sa = 3, cat([]byte{0x20, 0x01, 0x0d, 0xb8}, z(11), []byte{1}) })
	add("src:t16ip:v4mapped", func(q *qpkt) { q.st, q.sa = 3, cat(mappedPrefix, g.sa) })
	add("src:svc", func(q *qpkt) { q.st, q.sa = 4, []byte{0, 2, 0, 0} })
	add("src:svc:ip-bytes", func(q *qpkt) { q.st, q.sa = 4, g.sa })
	add("src:svc:wildcard", func(q *qpkt) { q.st, q.sa = 4, []byte{0xff, 0xff, 0, 0} })
	for _, t := range []uint8{1, 2, 5, 6, 7, 8, 9, 10, 11, 12, 13, 14, 15} {
		t := t
		add(fmt.Sprintf("src:type%d", t), func(q *qpkt) {
			q.st = t
			q.sa = cat(g.sa, z(4*int(t&3)))
			if t&3 == 3 {
				q.sa = cat(mappedPrefix, g.sa)
			}
		})
	}
	add("src:other-ia", func(q *qpkt) { q.sia = addr.MustParseIA("2-ff00:0:222") })
	add("src:other-host", func(q *qpkt) { q.sa = []byte{10, 9, 9, 9} })
	add("src:other-port", func(q *qpkt) { q.sp++ })
	add("dst:svc", func(q *qpkt) { q.dt, q.da = 4, []byte{0, 2, 0, 0} })
	add("dst:type6", func(q *qpkt) { q.dt, q.da = 6, z(12) })
	// paths: reversible, irreversible, of unregistered types
	add("path:scion:1seg", func(q *qpkt) { q.pt, q.path = 1, scionPath([]uint8{2}, 0, 1, []bool{true}) })
	add("path:scion:2seg", func(q *qpkt) { q.pt, q.path = 1, scionPath([]uint8{2, 3}, 1, 4, []bool{false, true}) })
	add("path:scion:3seg", func(q *qpkt) { q.pt, q.path = 1, scionPath([]uint8{2, 2, 2}, 2, 5, []bool{false, true}) })
	add("path:scion:meta-only-zero", func(q *qpkt) { q.pt, q.path = 1, z(4) })
	add("path:scion:meta-lies", func(q *qpkt) {
		q.pt, q.path = 1, scionPath([]uint8{2, 3}, 1, 4, []bool{true})
		q.path[3] = 0x3f // SegLen[2] = 63 without the bytes
	})
	add("path:scion:truncated-hop", func(q *qpkt) {
		p := scionPath([]uint8{3}, 0, 0, []bool{true})
		q.pt, q.path = 1, p[:len(p)-12]
	})
	add("path:scion:currhf-out-of-range", func(q *qpkt) {
		q.pt, q.path = 1, scionPath([]uint8{2}, 0, 1, []bool{true})
		q.path[0] = 0x3f // CurrINF 0, CurrHF 63
	})
	add("path:scion:random-bytes", func(q *qpkt) { q.pt, q.path = 1, r.Bytes(4 + 8 + 24) })
	add("path:onehop:complete", func(q *qpkt) { q.pt, q.path = 2, oneHopPath(true) })
	add("path:onehop:second-hop-empty", func(q *qpkt) { q.pt, q.path = 2, oneHopPath(false) })
	add("path:onehop:short", func(q *qpkt) { q.pt, q.path = 2, oneHopPath(true)[:20] })
	add("path:epic:short", func(q *qpkt) { q.pt, q.path = 3, z(8) })
	add("path:epic:over-scion", func(q *qpkt) { q.pt, q.path = 3, cat(z(16), scionPath([]uint8{2}, 0, 1, []bool{true})) })
	add("path:type4:empty", func(q *qpkt) { q.pt, q.path = 4, nil })
	add("path:type4:bytes", func(q *qpkt) { q.pt, q.path = 4, r.Bytes(16) })
	add("path:type200:empty", func(q *qpkt) { q.pt, q.path = 200, nil })
	add("path:type255:bytes", func(q *qpkt) { q.pt, q.path = 255, r.Bytes(40) })
	add("path:empty:with-bytes", func(q *qpkt) { q.pt, q.path = 0, z(4) })
	// upper layers / structure
	add("l4:scmp", func(q *qpkt) { q.l4 = "scmp" })
	add("l4:other", func(q *qpkt) { q.l4 = "other" })
	add("l4:scmp:svc-source", func(q *qpkt) { q.l4, q.st, q.sa = "scmp", 4, []byte{0, 2, 0, 0} })
	add("udp:length+1", func(q *qpkt) { q.udpLen = 1 })
	add("udp:length+2000", func(q *qpkt) { q.udpLen = 2000 })
	add("udp:length-9", func(q *qpkt) { q.udpLen = -9 })
	for _, k := range []int{1, 7, 8, 9, 17, 18, 30, 40, 46} {
		k := k
		add(fmt.Sprintf("truncate:%d", k), func(q *qpkt) { q.truncate = k })
	}
	add("garbage:empty", func(q *qpkt) { q.garbage = []byte{} })
	add("garbage:1", func(q *qpkt) { q.garbage = []byte{0} })
	add("garbage:random", func(q *qpkt) { q.garbage = r.Bytes(12 + r.Intn(200)) })
	add("garbage:quic-like", func(q *qpkt) { q.garbage = cat([]byte{0xc0, 0, 0, 0, 1, 8}, r.Bytes(60)) })
	// combinations
	add("svc-source:irreversible-path", func(q *qpkt) { q.st, q.sa, q.pt, q.path = 4, []byte{0, 2, 0, 0}, 1, z(4) })
	add("t16ip:scion-path", func(q *qpkt) {
		q.st, q.sa = 3, cat([]byte{0xfd}, z(14), []byte{9})
		q.pt, q.path = 1, scionPath([]uint8{3}, 0, 2, []bool{true})
	})
	return cs
}

// mutate: byte-level mutations of a valid packet's header.
func mutate(r *lib.Rand, w []byte) []byte {
	w = append([]byte(nil), w...)
	n := 1 + r.Intn(3)
	for i := 0; i < n; i++ {
		k := r.Intn(len(w))
		if r.Chance(70) && len(w) > 48 {
			k = r.Intn(48) // common + address header
		}
		switch r.Intn(3) {
		case 0:
			w[k] ^= 1 << uint(r.Intn(8))
		case 1:
			w[k] = byte(r.Intn(256))
		default:
			w[k] = []byte{0, 0xff, 0x40, 0x0f, 0xf0}[r.Intn(5)]
		}
	}
	return w
}

func gen(c *lib.Ctx) {
	if err := parentSocket(); err != nil {
		c.NotExecuted("loopback UDP sockets unavailable: " + err.Error())
		return
	}
	if _, err := getChild(); err != nil {
		c.NotExecuted("child process with the packet connections of net/scion/quic.go could not be started: " + err.Error())
		return
	}
	defer func() {
		if theChild != nil {
			theChild.kill()
		}
	}()
	r := c.Rand.Fork("c08quic")
	run := func(side, name string, wire []byte, q *qpkt) {
		op := opOf(side, wire)
		ans := c.Do(op)
		f := factsOf(wire)
		key := side + ":" + strings.SplitN(ans, " pld=", 2)[0]
		c.Count("quic.read:" + strings.ReplaceAll(key, " ", "-"))
		c.Count("quic.read:case:" + side + ":" + name + ":" + strings.ReplaceAll(strings.SplitN(ans, " pld=", 2)[0], " ", "-"))
		if strings.HasPrefix(ans, "sandbox") {
			return
		}
		// direct oracles (C08): one datagram must neither end the process nor make ReadFrom
		// return an error (quic-go closes the transport on any non-temporary error), and the
		// loop must go on to the next datagram (the sentinel came through)
		switch {
		case strings.HasPrefix(ans, "panic"):
			c.Fail("C08:quic:panic-on-datagram", "one SCION datagram kills the process that reads from the packet connection of net/scion/quic.go ("+side+" side): "+ans,
				[]string{op}, map[string]any{"case": name, "source_type": f.st, "source_addr": lib.Hex(f.sa)})
		case strings.HasPrefix(ans, "err"):
			c.Fail("C08:quic:readfrom-error-on-datagram", "ReadFrom of the packet connection ("+side+" side) returns an error for one datagram; quic-go closes the transport on it, the listener stops accepting: "+ans,
				[]string{op}, map[string]any{"case": name, "path_type": f.pt, "path": lib.Hex(f.path)})
		case strings.HasPrefix(ans, "hang") || strings.Contains(ans, "sentinel-lost"):
			c.Fail("C08:quic:no-progress", "after one datagram the read loop no longer delivers a well-formed packet: "+ans, []string{op}, map[string]any{"case": name})
		}
		// direct oracle: what is delivered is the datagram's own payload, source and (server side)
		// a path the reply pather produced; it comes from an IP host
		if strings.HasPrefix(ans, "ok deliver") {
			wantPld := f.pld
			if len(wantPld) > readBuf {
				wantPld = wantPld[:readBuf]
			}
			okAddr := (f.st == 0 || f.st == 3) && f.dec && strings.HasSuffix(f.layers, "u")
			want := fmt.Sprintf("ok deliver pld=%s ia=%d host=%s port=%d", lib.Hex(wantPld), f.sia, lib.Hex(f.sa), f.sp)
			if side == "srv" {
				want += " path=" + f.rev
			}
			if !okAddr || ans != want || side == "srv" && (f.rev == "err" || lastHopSeen != psock.LocalAddr().String()) {
				c.Fail("C08:quic:delivered-not-the-datagram", "what ReadFrom handed to quic-go is not the datagram's payload / IP source / reply path, or the next hop is not the previous hop",
					[]string{op}, map[string]any{"case": name, "answer": ans, "want": want, "hop": lastHopSeen})
			}
			if side == "cli" && !(f.sia == uint64(xIA) && f.sp == uint16(xPort)) {
				c.Fail("C08:quic:client-delivered-foreign-source", "the client-side connection delivered a packet that does not come from the dialled remote address",
					[]string{op}, map[string]any{"case": name, "answer": ans})
			}
		}
		_ = q
	}
	c.Comment("history c08quic: structured cases")
	rounds := c.Scale(1, 4)
	for round := 0; round < rounds; round++ {
		for _, side := range []string{"srv", "cli"} {
			for _, cs := range cases(r, side) {
				q := cs.q
				run(side, cs.name, q.wire(), &q)
			}
		}
	}
	c.Comment("history c08quic: byte mutations of valid packets")
	n := c.Scale(600, 30000)
	for i := 0; i < n; i++ {
		side := []string{"srv", "cli"}[i%2]
		q := base(side)
		switch r.Intn(4) {
		case 0:
			q.pt, q.path = 1, scionPath([]uint8{2, 2}, 1, 2, []bool{true, false})
		case 1:
			q.st, q.sa = 3, cat(mappedPrefix, q.sa)
		case 2:
			q.hbh = true
		}
		run(side, "mutant", mutate(r, q.wire()), nil)
	}
	// the real NTS-KE-over-QUIC server behind the same connection type
	c.Comment("history c08quic: key exchange with the real server after a crafted datagram")
	live := []string{"valid", "src:svc", "src:type5", "path:scion:meta-only-zero", "path:type200:empty", "path:onehop:second-hop-empty",
		"garbage:random", "garbage:quic-like", "l4:scmp", "svc-source:irreversible-path"}
	all := cases(r, "srv")
	for _, name := range live {
		for _, cs := range all {
			if cs.name != name {
				continue
			}
			q := cs.q
			op := "quic.live wire=" + lib.Hex(q.wire())
			ans := c.Do(op)
			c.Count("quic.live:" + strings.ReplaceAll(ans, " ", "-"))
			if strings.HasPrefix(ans, "sandbox") {
				continue
			}
			if ans != "ok alive" {
				sig := "C08:quic:server-dead-after-datagram"
				c.Fail(sig, "after one SCION datagram ("+name+") the NTS-KE-over-QUIC server no longer completes a key exchange: "+ans+" "+fetchErrText,
					[]string{op}, map[string]any{"case": name})
			}
		}
	}
	if c.Thorough() {
		for i := 0; i < 40; i++ {
			q := base("srv")
			op := "quic.live wire=" + lib.Hex(mutate(r, q.wire()))
			if ans := c.Do(op); ans != "ok alive" && !strings.HasPrefix(ans, "sandbox") {
				c.Fail("C08:quic:server-dead-after-datagram", "after one mutated SCION datagram the NTS-KE-over-QUIC server no longer completes a key exchange: "+ans, []string{op}, nil)
			}
		}
	}
}

func main() {
	if os.Getenv("C08Q_CHILD") == "1" {
		childMain()
		return
	}
	lib.Main(exec, gen)
}
