// child.go: the code under test runs in a child process (a panic inside ReadFrom kills the
// whole process, as it does under quic-go): the two packet connections of net/scion/quic.go
// (server side = listenUDP, client side = dialUDP, through the verif hook) each with a loop
// that calls ReadFrom and reports every return on stdout, and the real NTS-KE-over-QUIC
// server (scion.ListenQUIC + the accept loop of core/server/ntske_scion.go).
package main

import (
	"bufio"
	"bytes"
	"context"
	"crypto/ecdsa"
	"crypto/elliptic"
	"crypto/rand"
	"crypto/tls"
	"crypto/x509"
	"crypto/x509/pkix"
	"fmt"
	"io"
	"log/slog"
	"math/big"
	"net"
	"os"
	osexec "os/exec"
	"strings"
	"sync"
	"time"

	"github.com/scionproto/scion/pkg/addr"
	"github.com/scionproto/scion/pkg/snet"
	spath "github.com/scionproto/scion/pkg/snet/path"

	"example.com/scion-time/core/server"
	"example.com/scion-time/core/timebase"
	"example.com/scion-time/driver/clocks"
	"example.com/scion-time/net/ntske"
	"example.com/scion-time/net/scion"
	"example.com/scion-time/net/udp"

	"verifharness/lib"
)

var (
	srvIA = addr.MustParseIA("1-ff00:0:110") // the listener's AS (and the NTS-KE server's)
	cliIA = addr.MustParseIA("1-ff00:0:111") // the dialling side's AS
	// the remote address the client-side connection was dialled to
	xIA   = addr.MustParseIA("1-ff00:0:112")
	xHost = net.IPv4(127, 0, 0, 77).To4()
	xPort = 4433
)

const readBuf = 2048

var nolog = slog.New(slog.NewTextHandler(io.Discard, nil))

func selfSigned() tls.Certificate {
	key, err := ecdsa.GenerateKey(elliptic.P256(), rand.Reader)
	if err != nil {
		panic(err)
	}
	tmpl := x509.Certificate{SerialNumber: big.NewInt(1), Subject: pkix.Name{CommonName: "c08quic"},
		NotBefore: time.Now().Add(-time.Hour), NotAfter: time.Now().Add(24 * time.Hour),
		KeyUsage: x509.KeyUsageDigitalSignature, ExtKeyUsage: []x509.ExtKeyUsage{x509.ExtKeyUsageServerAuth},
		IPAddresses: []net.IP{net.IPv4(127, 0, 0, 1)}, DNSNames: []string{"localhost"}}
	der, err := x509.CreateCertificate(rand.Reader, &tmpl, &tmpl, &key.PublicKey, key)
	if err != nil {
		panic(err)
	}
	return tls.Certificate{Certificate: [][]byte{der}, PrivateKey: key}
}

// ---------------------------------------------------------------- child side

func childMain() {
	log := slog.New(slog.NewTextHandler(io.Discard, &slog.HandlerOptions{Level: slog.LevelError + 8}))
	ctx := context.Background()
	timebase.RegisterClock(clocks.NewSystemClock(log, clocks.UnknownDrift))
	hop := os.Getenv("C08Q_HOP") // the parent's socket: underlay next hop of the dialled path
	hopAddr, err := net.ResolveUDPAddr("udp4", hop)
	if err != nil {
		os.Exit(3)
	}
	srv, err := scion.VerifC08ListenUDP(ctx, udp.UDPAddr{IA: srvIA, Host: &net.UDPAddr{IP: net.IPv4(127, 0, 0, 1).To4()}})
	if err != nil {
		fmt.Println("fail listen", err)
		os.Exit(3)
	}
	var path snet.Path = spath.Path{Src: cliIA, Dst: xIA, DataplanePath: spath.Empty{}, NextHop: hopAddr}
	cli, err := scion.VerifC08DialUDP(ctx, udp.UDPAddr{IA: cliIA, Host: &net.UDPAddr{IP: net.IPv4(127, 0, 0, 1).To4()}},
		udp.UDPAddr{IA: xIA, Host: &net.UDPAddr{IP: xHost, Port: xPort}}, path)
	if err != nil {
		fmt.Println("fail dial", err)
		os.Exit(3)
	}
	ln, err := scion.ListenQUIC(ctx, udp.UDPAddr{IA: srvIA, Host: &net.UDPAddr{IP: net.IPv4(127, 0, 0, 1).To4()}},
		&tls.Config{Certificates: []tls.Certificate{selfSigned()}, MinVersion: tls.VersionTLS13, NextProtos: []string{"ntske/1"}}, nil)
	if err != nil {
		fmt.Println("fail listenquic", err)
		os.Exit(3)
	}
	go server.VerifC20RunNTSKEServerQUIC(ctx, log, ln, 10123, ntske.NewProvider())

	var mu sync.Mutex
	out := bufio.NewWriter(os.Stdout)
	say := func(s string) {
		mu.Lock()
		out.WriteString(s + "\n")
		out.Flush()
		mu.Unlock()
	}
	loop := func(side string, pc net.PacketConn) {
		b := make([]byte, readBuf)
		for {
			n, a, err := pc.ReadFrom(b)
			if err != nil {
				s := err.Error()
				switch {
				case strings.Contains(s, "use of closed"):
					return
				case strings.Contains(s, "reverse path"):
					say(side + " err path-reversal")
				case strings.Contains(s, "unexpected path type"):
					say(side + " err path-type")
				default:
					say(side + " err other:" + strings.ReplaceAll(s, " ", "_"))
				}
				continue
			}
			line := side + " ok pld=" + lib.Hex(b[:n])
			switch side {
			case "srv":
				ra, rp, nh, ok := scion.VerifC08AddrPath(a)
				if !ok {
					say(side + " err addr-type")
					continue
				}
				line += fmt.Sprintf(" ia=%d host=%s port=%d", uint64(ra.IA), lib.Hex(ra.Host.IP), ra.Host.Port)
				if rrp, ok := rp.(snet.RawReplyPath); ok && rrp.Path != nil {
					pb := make([]byte, rrp.Path.Len())
					if err := rrp.Path.SerializeTo(pb); err != nil {
						line += " path=unserialisable"
					} else {
						line += fmt.Sprintf(" path=%d:%s", rrp.Path.Type(), lib.Hex(pb))
					}
				} else {
					line += " path=?"
				}
				line += " hop=" + nh.String()
			default:
				ra, ok := a.(udp.UDPAddr)
				if !ok {
					say(side + " err addr-type")
					continue
				}
				line += fmt.Sprintf(" ia=%d host=%s port=%d", uint64(ra.IA), lib.Hex(ra.Host.IP), ra.Host.Port)
			}
			say(line)
		}
	}
	go loop("srv", srv)
	go loop("cli", cli)
	say(fmt.Sprintf("ready %d %d %d", srv.LocalAddr().(udp.UDPAddr).Host.Port, cli.LocalAddr().(udp.UDPAddr).Host.Port,
		ln.Addr().(udp.UDPAddr).Host.Port))
	// exit with the parent
	io.Copy(io.Discard, os.Stdin)
	os.Exit(0)
}

// ---------------------------------------------------------------- parent side

type syncBuf struct {
	mu sync.Mutex
	b  bytes.Buffer
}

func (s *syncBuf) Write(p []byte) (int, error) {
	s.mu.Lock()
	defer s.mu.Unlock()
	if s.b.Len() < 1<<20 {
		s.b.Write(p)
	}
	return len(p), nil
}
func (s *syncBuf) String() string { s.mu.Lock(); defer s.mu.Unlock(); return s.b.String() }

type child struct {
	cmd    *osexec.Cmd
	stdin  io.WriteCloser
	stderr *syncBuf
	lines  chan string
	done   chan struct{}
	ports  map[string]int // srv, cli, quic
}

var (
	theChild *child
	psock    *net.UDPConn // the parent's socket: source of every crafted datagram (= lastHop)
	sandbox  string
)

func parentSocket() error {
	if psock != nil {
		return nil
	}
	pc, err := net.ListenUDP("udp4", &net.UDPAddr{IP: net.IPv4(127, 0, 0, 1)})
	if err != nil {
		return err
	}
	psock = pc
	return nil
}

func startChild() (*child, error) {
	if err := parentSocket(); err != nil {
		return nil, err
	}
	exe, err := os.Executable()
	if err != nil {
		return nil, err
	}
	cmd := osexec.Command(exe)
	cmd.Env = append(os.Environ(), "C08Q_CHILD=1", "C08Q_HOP="+psock.LocalAddr().String())
	ch := &child{cmd: cmd, stderr: &syncBuf{}, lines: make(chan string, 1024), done: make(chan struct{}), ports: map[string]int{}}
	cmd.Stderr = ch.stderr
	ch.stdin, _ = cmd.StdinPipe()
	out, _ := cmd.StdoutPipe()
	if err := cmd.Start(); err != nil {
		return nil, err
	}
	go func() {
		sc := bufio.NewScanner(out)
		sc.Buffer(make([]byte, 1<<16), 1<<20)
		for sc.Scan() {
			ch.lines <- sc.Text()
		}
		cmd.Wait()
		close(ch.done)
	}()
	select {
	case l := <-ch.lines:
		var a, b, c int
		if n, _ := fmt.Sscanf(l, "ready %d %d %d", &a, &b, &c); n != 3 {
			ch.kill()
			return nil, fmt.Errorf("child: %s %s", l, ch.stderr.String())
		}
		ch.ports["srv"], ch.ports["cli"], ch.ports["quic"] = a, b, c
	case <-ch.done:
		return nil, fmt.Errorf("child exited at start: %s", ch.stderr.String())
	case <-time.After(20 * time.Second):
		ch.kill()
		return nil, fmt.Errorf("child start timeout")
	}
	return ch, nil
}

func (ch *child) kill() {
	ch.stdin.Close()
	ch.cmd.Process.Kill()
	select {
	case <-ch.done:
	case <-time.After(2 * time.Second):
	}
}

func (ch *child) dead() bool {
	select {
	case <-ch.done:
		return true
	default:
		return false
	}
}

func getChild() (*child, error) {
	if theChild != nil && !theChild.dead() {
		return theChild, nil
	}
	var last error
	for i := 0; i < 3; i++ {
		ch, err := startChild()
		if err == nil {
			theChild = ch
			return ch, nil
		}
		last = err
	}
	return nil, last
}

// panicClassOf: the class of the panic a dead child left on stderr.
func panicClassOf(stderr string) string {
	for _, l := range strings.Split(stderr, "\n") {
		if strings.HasPrefix(l, "panic: ") {
			m := strings.TrimPrefix(l, "panic: ")
			if i := strings.Index(m, " [recovered]"); i >= 0 {
				m = m[:i]
			}
			if strings.HasPrefix(m, "runtime error: index out of range") {
				return "index"
			}
			if strings.HasPrefix(m, "runtime error: slice bounds out of range") {
				return "slice"
			}
			if strings.HasPrefix(m, "runtime error: invalid memory address") {
				return "nil"
			}
			return "explicit:" + strings.ReplaceAll(strings.TrimSpace(m), " ", "_")
		}
	}
	if strings.Contains(stderr, "fatal error:") {
		return "fatal"
	}
	return "exit"
}
