// c20: correspondence + direct oracles for the NTS key exchange (net/ntske, core/server).
package main

import (
	"verifharness/cmd/c20/h"
	"verifharness/lib"
)

func main() {
	lib.Main(h.Exec, func(c *lib.Ctx) {
		root := c.Rand
		h.GenFetcher(c)
		c.Rand = root
		h.GenServerMsg(c)
		c.Rand = root
		h.GenCodec(c)
	})
}
