// c20: correspondence + direct oracles for the NTS key exchange (net/ntske, core/server).
package main

import (
	"verifharness/cmd/c20/h"
	"verifharness/lib"
)

func main() {
	lib.Main(h.Exec, func(c *lib.Ctx) {
		root := c.Rand
		h.GenFetcher(c)
		if h.PeerSawOtherSource > 0 {
			c.Count("observed:key-exchange-host-differs-from-client-source-address")
		} else {
			c.NotExecuted("no exchange in which the key-exchange host differed from the client's source address (loopback aliases unavailable?)")
		}
		c.Rand = root
		h.GenServerMsg(c)
		c.Rand = root
		h.GenCodec(c)
	})
}
