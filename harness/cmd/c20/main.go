// c20: correspondence + direct oracles for the NTS key exchange (net/ntske, core/server).
//
// C20_PART=timed restricts the run to the timed-delivery stream (h.GenPaused: the production
// client against scripted TLS / QUIC peers that pause inside the response); that is how C14
// lists this harness. Without it everything runs.
package main

import (
	"os"

	"verifharness/cmd/c20/h"
	"verifharness/lib"
)

func main() {
	lib.Main(h.Exec, func(c *lib.Ctx) {
		root := c.Rand
		if os.Getenv("C20_PART") == "timed" {
			h.GenPaused(c)
			return
		}
		h.GenFetcher(c)
		if h.PeerSawOtherSource > 0 {
			c.Count("observed:key-exchange-host-differs-from-client-source-address")
		} else {
			c.NotExecuted("no exchange in which the key-exchange host differed from the client's source address (loopback aliases unavailable?)")
		}
		c.Rand = root
		h.GenPaused(c)
		c.Rand = root
		h.GenServerMsg(c)
		c.Rand = root
		h.GenCodec(c)
	})
}
