package h

// Timed delivery of the key exchange response: the scripted peer writes the response in
// segments and stays silent for a given time before each segment. The record codec has no
// notion of time (the model's transport is a list of chunks), so a response must decode to
// the same data whatever the pauses are; the only other admissible outcome is that the
// exchange is given up (a read deadline of the client). What runs here is the production
// path Fetcher.FetchData -> exchangeKeys -> dialTLS/dialQUIC -> exchangeDataTLS/QUIC (the
// glue around ReadData), over real TLS on loopback TCP and real QUIC over SCION loopback.
//
// Op (self-contained: own fetcher, own listener, so that many can run at the same time):
//
//	x.fetch tr=tls|quic host=<hex of dotted loopback address> stream=[c0,c1,..] gaps=[g0,g1,..]
//	   the peer completes the handshake, reads the request, then for every i sleeps g_i ms
//	   and writes c_i (one write = one TLS record / one QUIC stream write), then closes
//	   gracefully.
//	-> ok srv=.. port=.. algo=.. ck=[..] keys=agree|differ   |   err <class>
//	   (class "timeout": the client's transport reported a read timeout)

import (
	"context"
	"crypto/tls"
	"errors"
	"fmt"
	"go/ast"
	"go/constant"
	"go/parser"
	"go/token"
	"io"
	"net"
	"os"
	"path/filepath"
	"reflect"
	"runtime"
	"sort"
	"strconv"
	"strings"
	"sync"
	"time"

	"github.com/scionproto/scion/pkg/addr"

	"example.com/scion-time/net/ntske"
	"example.com/scion-time/net/scion"
	"example.com/scion-time/net/udp"

	"verifharness/lib"
)

// generous watchdogs: other checks run on this machine at the same time
const (
	xStepTimeout = 45 * time.Second // handshake, request, one write
	xMaxGapMs    = 60000
)

var (
	xCertOnce sync.Once
	xCert     tls.Certificate
)

func xCertificate() tls.Certificate {
	xCertOnce.Do(func() { xCert = selfSigned() })
	return xCert
}

type xObserved struct {
	broken     string // non-empty: the harness' own assumptions failed (environment), not the code
	gotRequest bool   // handshake completed and the client's 16-byte request arrived
	c2s, s2c   []byte
}

// sleepOrDone: false if the client finished first.
func sleepOrDone(ms int, done <-chan struct{}) bool {
	if ms <= 0 {
		select {
		case <-done:
			return false
		default:
			return true
		}
	}
	t := time.NewTimer(time.Duration(ms) * time.Millisecond)
	defer t.Stop()
	select {
	case <-done:
		return false
	case <-t.C:
		return true
	}
}

func exportBoth(cs tls.ConnectionState) (c2s, s2c []byte) {
	c2s, _ = cs.ExportKeyingMaterial(rfcExporterLabel, rfcC2S, 32)
	s2c, _ = cs.ExportKeyingMaterial(rfcExporterLabel, rfcS2C, 32)
	return
}

// xServeTLS: one connection on ln, scripted.
func xServeTLS(ln net.Listener, chunks [][]byte, gaps []int, done <-chan struct{}, out chan<- xObserved) {
	var o xObserved
	defer func() { out <- o }()
	if tl, ok := ln.(*net.TCPListener); ok {
		tl.SetDeadline(time.Now().Add(xStepTimeout))
	}
	conn, err := ln.Accept()
	if err != nil {
		o.broken = "accept: " + err.Error()
		return
	}
	defer conn.Close()
	tc := tls.Server(conn, &tls.Config{Certificates: []tls.Certificate{xCertificate()}, MinVersion: tls.VersionTLS13,
		NextProtos: []string{"ntske/1"}})
	tc.SetDeadline(time.Now().Add(xStepTimeout))
	if err := tc.Handshake(); err != nil {
		o.broken = "handshake: " + err.Error()
		return
	}
	o.c2s, o.s2c = exportBoth(tc.ConnectionState())
	req := make([]byte, 16)
	if _, err := io.ReadFull(tc, req); err != nil {
		o.broken = "request: " + err.Error()
		return
	}
	o.gotRequest = true
	tc.SetDeadline(time.Time{})
	for i, ch := range chunks {
		if !sleepOrDone(gaps[i], done) {
			return
		}
		if len(ch) == 0 {
			continue
		}
		tc.SetWriteDeadline(time.Now().Add(xStepTimeout))
		if _, err := tc.Write(ch); err != nil {
			return // the client went away
		}
	}
	tc.SetDeadline(time.Now().Add(xStepTimeout))
	tc.Close()
}

// xServeQUIC: one connection on ln, scripted.
func xServeQUIC(ln *scion.QUICListener, chunks [][]byte, gaps []int, done <-chan struct{}, out chan<- xObserved) {
	var o xObserved
	defer func() { out <- o }()
	ctx, cancel := context.WithTimeout(context.Background(), xStepTimeout)
	defer cancel()
	go func() { // a client that gave up before the exchange: do not wait for it
		select {
		case <-done:
			cancel()
		case <-ctx.Done():
		}
	}()
	conn, err := ln.Accept(ctx)
	if err != nil {
		o.broken = "accept: " + err.Error()
		return
	}
	o.c2s, o.s2c = exportBoth(conn.ConnectionState().TLS)
	stream, err := conn.AcceptStream(ctx)
	if err != nil {
		o.broken = "stream: " + err.Error()
		conn.CloseWithError(1, "no stream")
		return
	}
	req := make([]byte, 16)
	stream.SetReadDeadline(time.Now().Add(xStepTimeout))
	if _, err := io.ReadFull(stream, req); err != nil {
		o.broken = "request: " + err.Error()
		conn.CloseWithError(1, "no request")
		return
	}
	o.gotRequest = true
	aborted := false
	for i, ch := range chunks {
		if !sleepOrDone(gaps[i], done) {
			aborted = true
			break
		}
		if len(ch) == 0 {
			continue
		}
		stream.SetWriteDeadline(time.Now().Add(xStepTimeout))
		if _, err := stream.Write(ch); err != nil {
			aborted = true
			break
		}
	}
	if !aborted {
		stream.Close()
	}
	// the client closes the connection when it is done
	select {
	case <-conn.Context().Done():
	case <-time.After(xStepTimeout):
		conn.CloseWithError(2, "client did not close")
	}
}

func xErrClass(err error, overQUIC bool) string {
	var ne net.Error
	if errors.As(err, &ne) && ne.Timeout() {
		return "timeout"
	}
	if errors.Is(err, os.ErrDeadlineExceeded) || errors.Is(err, context.DeadlineExceeded) {
		return "timeout"
	}
	s := err.Error()
	switch s {
	case "server does not support ntske/1":
		return "no-ntske"
	case "unexpected NTS-KE meta data: no cookies":
		return "no-cookies"
	case "unexpected NTS-KE meta data: unknown algorithm":
		return "unknown-algo"
	}
	c := readErrClass(err)
	if c == "eof" || c == "unexpected-eof" || (strings.HasPrefix(c, "other:read_tcp") && strings.Contains(c, "connection_reset")) ||
		(overQUIC && isQUICIOErr(s)) {
		return "read-io"
	}
	return c
}

func parseGaps(s string) []int {
	if !strings.HasPrefix(s, "[") || !strings.HasSuffix(s, "]") {
		panic("bad-op")
	}
	s = s[1 : len(s)-1]
	if s == "" {
		return nil
	}
	var out []int
	for _, p := range strings.Split(s, ",") {
		v := atoi(p)
		if v > xMaxGapMs {
			panic("bad-op")
		}
		out = append(out, v)
	}
	return out
}

// xFetch: one key exchange of a fresh production Fetcher against a scripted peer with timed
// delivery. Uses no package state, so calls may run concurrently.
func xFetch(t []string) string {
	tr, ok1 := kv(t, "tr")
	hostHex, ok2 := kv(t, "host")
	st, ok3 := kv(t, "stream")
	gp, ok4 := kv(t, "gaps")
	if len(t) != 4 || !ok1 || !ok2 || !ok3 || !ok4 || (tr != "tls" && tr != "quic") {
		panic("bad-op")
	}
	host := loopbackHost(string(parseHex(hostHex)))
	chunks := parseHexList(st)
	gaps := parseGaps(gp)
	if len(gaps) != len(chunks) {
		panic("bad-op")
	}
	overQUIC := tr == "quic"
	total := 0
	for _, g := range gaps {
		total += g
	}

	done := make(chan struct{})
	obs := make(chan xObserved, 1)
	var stopListening func()
	f := &ntske.Fetcher{}
	f.Log = nolog
	f.TLSConfig = tls.Config{InsecureSkipVerify: true, ServerName: host, MinVersion: tls.VersionTLS13}
	if overQUIC {
		ia, err := addr.ParseIA("1-ff00:0:110")
		if err != nil {
			panic(err)
		}
		cfg := &tls.Config{Certificates: []tls.Certificate{xCertificate()}, MinVersion: tls.VersionTLS13, NextProtos: []string{"ntske/1"}}
		local := udp.UDPAddr{IA: ia, Host: &net.UDPAddr{IP: net.ParseIP(host).To4(), Port: 0}}
		ln, err := scion.ListenQUIC(context.Background(), local, cfg, nil)
		if err != nil {
			return "harness-assumption-broken listen-quic:" + strings.ReplaceAll(err.Error(), " ", "_")
		}
		defer ln.Close()
		stopListening = func() {} // Accept is cancelled through done
		go xServeQUIC(ln, chunks, gaps, done, obs)
		f.QUIC.Enabled = true
		f.QUIC.DaemonAddr = ""
		f.QUIC.LocalAddr = udp.UDPAddr{IA: ia, Host: &net.UDPAddr{IP: net.ParseIP("127.0.0.1").To4()}}
		f.QUIC.RemoteAddr = udp.UDPAddr{IA: ia, Host: &net.UDPAddr{IP: net.ParseIP(host).To4(), Port: ln.Addr().(udp.UDPAddr).Host.Port}}
	} else {
		ln, err := net.Listen("tcp", net.JoinHostPort(host, "0"))
		if err != nil {
			return "harness-assumption-broken listen:" + strings.ReplaceAll(err.Error(), " ", "_")
		}
		defer ln.Close()
		stopListening = func() { ln.Close() }
		go xServeTLS(ln, chunks, gaps, done, obs)
		_, f.Port, _ = net.SplitHostPort(ln.Addr().String())
	}

	type fres struct {
		d   ntske.Data
		err error
	}
	resc := make(chan fres, 1)
	go func() {
		ctx, cancel := context.WithTimeout(context.Background(), time.Duration(total)*time.Millisecond+2*xStepTimeout)
		defer cancel()
		d, err := f.FetchData(ctx)
		resc <- fres{d, err}
	}()
	var res fres
	select {
	case res = <-resc:
	case <-time.After(time.Duration(total)*time.Millisecond + 3*xStepTimeout):
		close(done)
		return "harness-assumption-broken fetch-stuck"
	}
	close(done)
	stopListening()
	var o xObserved
	select {
	case o = <-obs:
	case <-time.After(2 * xStepTimeout):
		return "harness-assumption-broken peer-stuck"
	}
	if !o.gotRequest {
		// no exchange took place (connection / handshake did not complete in time on a loaded
		// machine, ...): nothing about the response path was observed, whatever the client says
		why := o.broken
		if res.err != nil {
			why += " client: " + res.err.Error()
		}
		return "harness-assumption-broken no-exchange: " + strings.ReplaceAll(why, " ", "_")
	}
	if res.err != nil {
		return "err " + xErrClass(res.err, overQUIC)
	}
	keys := "keys=differ"
	if len(res.d.C2sKey) == 32 && string(res.d.C2sKey) == string(o.c2s) && string(res.d.S2cKey) == string(o.s2c) {
		keys = "keys=agree"
	}
	return "ok " + fmtData(res.d) + " " + keys
}

// ---------------------------------------------------------------- deadlines the code sets

// scanReadDeadlines looks, in the sources of the package under test (located through the
// file name recorded for ntske.ReadData in the binary), for read deadlines / timeouts the
// client code sets: X in SetReadDeadline(time.Now().Add(X)), SetDeadline(time.Now().Add(X)),
// context.WithTimeout(_, X). Nothing here is needed for the oracle; it only places the
// pauses of the generated streams around the thresholds that exist. Returns the distinct
// values found and the number of such calls whose argument could not be evaluated.
func scanReadDeadlines() (found []time.Duration, unevaluable int, src string) {
	pc := reflect.ValueOf(ntske.ReadData).Pointer()
	fn := runtime.FuncForPC(pc)
	if fn == nil {
		return nil, 0, ""
	}
	file, _ := fn.FileLine(pc)
	dir := filepath.Dir(file)
	ents, err := os.ReadDir(dir)
	if err != nil {
		return nil, 0, ""
	}
	fset := token.NewFileSet()
	var files []*ast.File
	for _, e := range ents {
		n := e.Name()
		if e.IsDir() || !strings.HasSuffix(n, ".go") || strings.HasSuffix(n, "_test.go") || strings.HasPrefix(n, "verif_") {
			continue
		}
		f, err := parser.ParseFile(fset, filepath.Join(dir, n), nil, 0)
		if err != nil {
			continue
		}
		files = append(files, f)
	}
	if len(files) == 0 {
		return nil, 0, ""
	}
	decls := map[string]ast.Expr{}
	for _, f := range files {
		ast.Inspect(f, func(n ast.Node) bool {
			switch v := n.(type) {
			case *ast.ValueSpec: // package-level and local const / var
				for i, nm := range v.Names {
					if i < len(v.Values) {
						if _, dup := decls[nm.Name]; !dup {
							decls[nm.Name] = v.Values[i]
						}
					}
				}
			}
			return true
		})
	}
	var eval func(x ast.Expr, depth int) constant.Value
	eval = func(x ast.Expr, depth int) constant.Value {
		if depth > 20 {
			return constant.MakeUnknown()
		}
		switch v := x.(type) {
		case *ast.BasicLit:
			if v.Kind == token.INT || v.Kind == token.FLOAT {
				return constant.MakeFromLiteral(v.Value, v.Kind, 0)
			}
		case *ast.ParenExpr:
			return eval(v.X, depth+1)
		case *ast.Ident:
			if d, ok := decls[v.Name]; ok {
				return eval(d, depth+1)
			}
		case *ast.SelectorExpr:
			if id, ok := v.X.(*ast.Ident); ok && id.Name == "time" {
				if n, ok := map[string]int64{"Nanosecond": 1, "Microsecond": 1e3, "Millisecond": 1e6, "Second": 1e9,
					"Minute": 60e9, "Hour": 3600e9}[v.Sel.Name]; ok {
					return constant.MakeInt64(n)
				}
			}
		case *ast.BinaryExpr:
			a, b := eval(v.X, depth+1), eval(v.Y, depth+1)
			if a.Kind() == constant.Unknown || b.Kind() == constant.Unknown {
				return constant.MakeUnknown()
			}
			res := constant.MakeUnknown()
			func() {
				defer func() { recover() }()
				switch v.Op {
				case token.ADD, token.SUB, token.MUL:
					res = constant.BinaryOp(a, v.Op, b)
				case token.QUO:
					if a.Kind() == constant.Int && b.Kind() == constant.Int {
						res = constant.BinaryOp(a, token.QUO_ASSIGN, b)
					} else {
						res = constant.BinaryOp(a, token.QUO, b)
					}
				}
			}()
			return res
		case *ast.CallExpr: // conversion time.Duration(x)
			if len(v.Args) == 1 {
				if s, ok := v.Fun.(*ast.SelectorExpr); ok && s.Sel.Name == "Duration" {
					return eval(v.Args[0], depth+1)
				}
			}
		}
		return constant.MakeUnknown()
	}
	isTimeNow := func(x ast.Expr) bool {
		c, ok := x.(*ast.CallExpr)
		if !ok {
			return false
		}
		s, ok := c.Fun.(*ast.SelectorExpr)
		if !ok || s.Sel.Name != "Now" {
			return false
		}
		id, ok := s.X.(*ast.Ident)
		return ok && id.Name == "time"
	}
	seen := map[time.Duration]bool{}
	note := func(x ast.Expr) {
		v := eval(x, 0)
		if v.Kind() == constant.Float {
			v = constant.ToInt(v)
		}
		if n, ok := constant.Int64Val(v); v.Kind() == constant.Int && ok && n > 0 {
			if !seen[time.Duration(n)] {
				seen[time.Duration(n)] = true
				found = append(found, time.Duration(n))
			}
			return
		}
		unevaluable++
	}
	for _, f := range files {
		ast.Inspect(f, func(n ast.Node) bool {
			call, ok := n.(*ast.CallExpr)
			if !ok {
				return true
			}
			sel, ok := call.Fun.(*ast.SelectorExpr)
			if !ok {
				return true
			}
			switch {
			case (sel.Sel.Name == "SetReadDeadline" || sel.Sel.Name == "SetDeadline") && len(call.Args) == 1:
				// SetDeadline(time.Time{}) clears a deadline: not a threshold
				if cl, ok := call.Args[0].(*ast.CompositeLit); ok && len(cl.Elts) == 0 {
					return true
				}
				add, ok := call.Args[0].(*ast.CallExpr)
				if ok {
					if as, ok := add.Fun.(*ast.SelectorExpr); ok && as.Sel.Name == "Add" && len(add.Args) == 1 && isTimeNow(as.X) {
						note(add.Args[0])
						return true
					}
				}
				unevaluable++
			case sel.Sel.Name == "WithTimeout" && len(call.Args) == 2:
				if id, ok := sel.X.(*ast.Ident); ok && id.Name == "context" {
					note(call.Args[1])
				}
			}
			return true
		})
	}
	sort.Slice(found, func(i, j int) bool { return found[i] < found[j] })
	return found, unevaluable, dir
}

// ---------------------------------------------------------------- generator

type xmark struct {
	off  int
	kind string
}

// marks: every offset of the flat stream with the kind of position it is.
func marks(rs []wrec, embedded map[int]bool) []xmark {
	var out []xmark
	off := 0
	for i, r := range rs {
		switch {
		case i == 0:
			// offset 0 is "before the first byte", handled apart
		case r.raw&^0x8000 == 0:
			out = append(out, xmark{off, "record-boundary:before-end-of-message"})
		default:
			out = append(out, xmark{off, "record-boundary"})
		}
		for k := 1; k <= 3; k++ {
			out = append(out, xmark{off + k, "in-header:" + r.kind})
		}
		if len(r.body) > 0 {
			out = append(out, xmark{off + 4, "header-body-boundary:" + r.kind})
			for k := 1; k < len(r.body); k++ {
				kind := "in-body:" + r.kind
				if embedded[off+4+k] {
					kind = "in-body:before-embedded-records"
				}
				out = append(out, xmark{off + 4 + k, kind})
			}
		}
		off += 4 + len(r.body)
	}
	return out
}

// embeddedMsg: a well-formed server message whose cookies (opaque byte strings) contain,
// as the tail of their body, byte sequences that are themselves well-formed records. A
// reader that loses its place inside such a body and resynchronises at the wrong offset
// does not fail, it decodes something else. Returns the records and the offsets at which an
// embedded record sequence starts.
func embeddedMsg(r *lib.Rand, variant int) ([]wrec, map[int]bool) {
	rs := []wrec{mk("np", 0x8001, u16b(0)), mk("al", 0x8004, u16b(15))}
	if r.Chance(50) {
		rs = append(rs, mk("sv", 6, []byte(fmt.Sprintf("10.%d.%d.%d", r.Intn(256), r.Intn(256), r.Intn(256)))))
	}
	if r.Chance(50) {
		rs = append(rs, mk("pt", 7, u16b(uint16(r.Range(1024, 65535)))))
	}
	rs = append(rs, mk("ck", 5, r.Bytes(int(r.Range(8, 24)))))
	var inner []byte
	switch variant % 6 {
	case 0: // end of message
		inner = mk("eom", 0x8000, nil).bytes()
	case 1: // a (different) cookie, then end of message
		inner = append(mk("ck", 5, r.Bytes(6)).bytes(), mk("eom", 0x8000, nil).bytes()...)
	case 2: // a port record; the reader is back in step at the next real record
		inner = mk("pt", 0x8007, u16b(uint16(r.Range(1, 1023)))).bytes()
	case 3: // a server record
		inner = mk("sv", 0x8006, []byte("192.0.2.66")).bytes()
	case 4: // another algorithm
		inner = mk("al", 0x8004, u16b(uint16(r.Pick64([]int64{16, 17, 30})))).bytes()
	case 5: // an error record
		inner = mk("err", 0x8002, u16b(uint16(r.Intn(3)))).bytes()
	}
	pre := r.Bytes(int(r.Range(3, 12)))
	emb := map[int]bool{}
	emb[len(flat(rs))+4+len(pre)] = true
	rs = append(rs, mk("ck", 5, append(append([]byte{}, pre...), inner...)))
	rs = append(rs, mk("ck", 5, r.Bytes(int(r.Range(8, 24)))))
	rs = append(rs, mk("eom", 0x8000, nil))
	return rs, emb
}

type xcase struct {
	op, ref string
	want    string
	label   string
}

// GenPaused: timed delivery of well-formed responses to the production client.
func GenPaused(c *lib.Ctx) {
	r := c.Rand.Fork("paused")
	dls, uneval, src := scanReadDeadlines()
	if src == "" {
		c.Count("paused:deadline-scan:source-unavailable")
	} else {
		c.Count("paused:deadline-scan:done")
	}
	if uneval > 0 {
		c.Count("paused:deadline-scan:unevaluable-deadline-argument")
	}
	// pause lengths (ms). "long" pauses exceed a threshold by a wide margin (the machine is
	// shared), "short" ones stay far below the smallest.
	margin := func(d time.Duration) int {
		m := int(d / time.Millisecond / 5)
		if m < 400 {
			m = 400
		}
		return int(d/time.Millisecond) + m
	}
	var long, short []int
	budget := time.Duration(c.Scale(3000, 8000)) * time.Millisecond
	for _, d := range dls {
		if d > budget {
			c.Count("paused:deadline-above-tier-budget")
			continue
		}
		c.Count("paused:deadline-found")
		long = append(long, margin(d))
		if c.Thorough() && 2*d <= budget {
			long = append(long, margin(2*d)) // silence spanning more than one expiry
		}
	}
	if len(long) == 0 {
		// no threshold known: a pause of a few seconds is what a loaded server or a
		// retransmission produces
		c.Count("paused:no-deadline-in-source")
		long = []int{2400}
		if c.Thorough() {
			long = []int{1100, 2400, 3200}
		}
	}
	short = []int{120}
	if len(dls) > 0 && int(dls[0]/time.Millisecond/4) < 120 {
		short = []int{int(dls[0] / time.Millisecond / 4)}
	}
	if c.Thorough() {
		short = append(short, 0)
	}

	var cases []xcase
	add := func(tr, host string, b []byte, cuts []int, gaps []int, want, label string) {
		chunks := split(b, cuts...)
		if len(cuts) == 0 {
			chunks = [][]byte{b}
		}
		gs := make([]string, len(gaps))
		for i, g := range gaps {
			gs[i] = strconv.Itoa(g)
		}
		op := fmt.Sprintf("x.fetch tr=%s host=%s stream=%s gaps=[%s]", tr, hexOf(host), hexList(chunks), strings.Join(gs, ","))
		ref := fmt.Sprintf("x.fetch tr=%s host=%s stream=%s gaps=[0]", tr, hexOf(host), hexList([][]byte{b}))
		cases = append(cases, xcase{op: op, ref: ref, want: want, label: label})
	}
	wantOf := func(rs []wrec, host string, defPort uint16) string {
		ok, cls, srv, prt, algo, cks := expectRead(rs, host, defPort)
		switch {
		case !ok && cls == "eof":
			return "err read-io"
		case !ok:
			return "err " + cls
		case len(cks) == 0:
			return "err no-cookies"
		case algo != 15:
			return "err unknown-algo"
		}
		return "ok " + fmtData(ntske.Data{Server: srv, Port: prt, Algo: algo, Cookie: cks}) + " keys=agree"
	}
	pickKinds := func(ms []xmark) map[string][]xmark {
		by := map[string][]xmark{}
		for _, m := range ms {
			by[m.kind] = append(by[m.kind], m)
		}
		return by
	}
	hosts := []string{"127.0.0.2", "127.1.2.3", "127.0.0.1"}

	nmsg := c.Scale(1, 6)
	for mi := 0; mi < nmsg; mi++ {
		variant := mi
		if !c.Thorough() {
			variant = int(c.Seed % 6) // quick: one message; the variant moves with the seed
		}
		rs, emb := embeddedMsg(r, variant)
		b := flat(rs)
		host := hosts[mi%len(hosts)]
		want := wantOf(rs, host, 123)
		wantQ := wantOf(rs, host, 10123)
		ms := marks(rs, emb)
		by := pickKinds(ms)
		var kinds []string
		for k := range by {
			kinds = append(kinds, k)
		}
		sort.Strings(kinds)
		var embOff int
		for o := range emb {
			embOff = o
		}
		// --- TLS: one position of every kind (thorough, first message: every offset), long pause
		for _, p := range long {
			add("tls", host, b, nil, []int{p}, want, "before-first-byte")
			if c.Thorough() && mi == 0 {
				for _, m := range ms {
					add("tls", host, b, []int{m.off}, []int{0, p}, want, m.kind)
				}
			} else {
				for _, k := range kinds {
					m := by[k][r.Intn(len(by[k]))]
					add("tls", host, b, []int{m.off}, []int{0, p}, want, m.kind)
				}
			}
			// silence before the first byte and again inside a record
			add("tls", host, b, []int{embOff}, []int{c.Scale(300, p/2), p}, want, "two-pauses:start+in-body:before-embedded-records")
			if c.Thorough() {
				// two long pauses, both inside records
				a := ms[r.Intn(len(ms))].off
				if a != embOff {
					lo, hi := a, embOff
					if lo > hi {
						lo, hi = hi, lo
					}
					add("tls", host, b, []int{lo, hi}, []int{0, p, p}, want, "two-pauses:in-records")
				}
			}
		}
		// --- TLS: short pauses (far below any threshold)
		for _, p := range short {
			for k := c.Scale(2, 8); k > 0; k-- {
				m := ms[r.Intn(len(ms))]
				add("tls", host, b, []int{m.off}, []int{0, p}, want, "short-pause:"+m.kind)
			}
			add("tls", host, b, []int{embOff}, []int{0, p}, want, "short-pause:in-body:before-embedded-records")
		}
		// --- QUIC over SCION: the embedded position, a header, a record boundary
		p := long[len(long)-1]
		qk := []string{"in-body:before-embedded-records", "in-header:ck", "record-boundary", "in-header:np"}
		if c.Thorough() {
			qk = kinds
		}
		for _, k := range qk {
			if len(by[k]) == 0 {
				continue
			}
			m := by[k][r.Intn(len(by[k]))]
			add("quic", host, b, []int{m.off}, []int{0, p}, wantQ, m.kind)
		}
		add("quic", host, b, []int{embOff}, []int{0, short[0]}, wantQ, "short-pause:in-body:before-embedded-records")
	}
	// --- ordinary messages (random cookies), random positions
	for mi := c.Scale(1, 6); mi > 0; mi-- {
		rs := baseMsg(r, 1+r.Intn(4), true)
		b := flat(rs)
		host := hosts[mi%len(hosts)]
		want := wantOf(rs, host, 123)
		for k := c.Scale(2, 10); k > 0; k-- {
			add("tls", host, b, []int{1 + r.Intn(len(b)-1)}, []int{0, long[r.Intn(len(long))]}, want, "ordinary-message:random-offset")
		}
	}

	// --- messages that are refused or differ in structure (error record, unknown critical
	// record, reordered, record dropped, tail after the end): the verdict must not depend on
	// the timing either
	for mi := c.Scale(2, 12); mi > 0; mi-- {
		rs := mutate(r, baseMsg(r, 1+r.Intn(4), true), c)
		b := flat(rs)
		if len(b) < 2 {
			continue
		}
		host := hosts[mi%len(hosts)]
		tr, defPort := "tls", uint16(123)
		if mi%4 == 0 {
			tr, defPort = "quic", 10123
		}
		want := wantOf(rs, host, defPort)
		for k := c.Scale(1, 4); k > 0; k-- {
			add(tr, host, b, []int{1 + r.Intn(len(b)-1)}, []int{0, long[r.Intn(len(long))]}, want, "other-verdicts:random-offset")
		}
	}

	// --- run: every distinct op once, all at the same time (each has its own listener)
	var order []string
	seen := map[string]bool{}
	for _, cs := range cases {
		for _, op := range []string{cs.ref, cs.op} {
			if !seen[op] {
				seen[op] = true
				order = append(order, op)
			}
		}
	}
	ans := make([]string, len(order))
	sem := make(chan struct{}, 64)
	var wg sync.WaitGroup
	for i := range order {
		wg.Add(1)
		go func(i int) {
			defer wg.Done()
			sem <- struct{}{}
			defer func() { <-sem }()
			ans[i] = lib.Try(func() string { return Exec(strings.Fields(order[i])) })
		}(i)
	}
	wg.Wait()
	answer := map[string]string{}
	for i, op := range order {
		if ans[i] == "err timeout" {
			// a timeout may be the environment's (a machine so loaded that the QUIC idle
			// timeout or a handshake timer fires): once more, alone; a deadline of the code
			// under test fires again
			c.Count("paused:timeout-retried-in-isolation")
			ans[i] = lib.Try(func() string { return Exec(strings.Fields(op)) })
		}
		if strings.HasPrefix(ans[i], "harness-assumption-broken") {
			// environment (ports, load): once more, alone
			c.Count("paused:retried-in-isolation")
			ans[i] = lib.Try(func() string { return Exec(strings.Fields(op)) })
		}
		if strings.HasPrefix(ans[i], "harness-assumption-broken") {
			c.NotExecuted("timed delivery, scripted peer: " + ans[i])
			continue
		}
		answer[op] = ans[i]
		c.Comment(fmt.Sprintf("history timed-delivery %d", i)) // every op is a history of its own
		c.Emit(op, ans[i])
	}
	// --- oracle
	type xfail struct {
		ops    []string
		what   string
		detail map[string]any
	}
	var wrongData, wrongVerdict []xfail
	for _, cs := range cases {
		tr := "tls"
		if strings.Contains(cs.op, " tr=quic ") {
			tr = "quic"
		}
		got, ok := answer[cs.op]
		if !ok {
			continue
		}
		c.Count("paused:" + tr + ":" + cs.label)
		if ref, ok := answer[cs.ref]; ok && ref != cs.want {
			c.Count("paused:one-shot-differs-from-contract")
			c.Fail("c20:fetch-contract", "key exchange with the response delivered in one piece: verdict / data differ from the contract evaluated on the records sent",
				[]string{cs.ref}, map[string]any{"got": ref, "want": cs.want})
			continue
		}
		switch {
		case got == cs.want:
			c.Count("paused:same-as-one-shot")
		case got == "err timeout":
			// the client gave up: admissible for the codec clause (the model, which has no
			// deadline, will disagree in the correspondence)
			c.Count("paused:client-gave-up")
		default:
			f := xfail{[]string{cs.ref, cs.op},
				"the NTS-KE response decodes differently when the transport delivers it in segments with a pause in between (" + cs.label +
					"): neither the data of the one-shot delivery nor a timeout",
				map[string]any{"one_shot": cs.want, "timed": got, "position": cs.label, "transport": tr}}
			if strings.HasPrefix(got, "ok ") {
				c.Count("paused:VIOLATION:different-data-accepted")
				wrongData = append(wrongData, f)
			} else {
				c.Count("paused:VIOLATION:different-verdict")
				wrongVerdict = append(wrongVerdict, f)
			}
		}
	}
	for _, f := range wrongData {
		c.Fail("c14ntske:timed-delivery:different-data", f.what, f.ops, f.detail)
	}
	for _, f := range wrongVerdict {
		c.Fail("c14ntske:timed-delivery:different-verdict", f.what, f.ops, f.detail)
	}
}
