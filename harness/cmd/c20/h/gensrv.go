package h

// Generator + direct oracles for the server side of the NTS key exchange (ops ks.req / ks.held,
// executed by the real accept loops and handlers, see srv.go).
//
// Oracle (independent of the Lean model and of the code under test): the contract
// `refValid` below, evaluated on the *bytes* of the request stream — the server's answer is a
// complete well-formed NTS-KE response (next protocol NTPv4, AES-SIV-CMAC-256, its address, the
// configured NTP port, eight cookies that open under the provider's current key to this
// session's exporter values, end of message, nothing after it) iff the stream is valid, and
// the bad-request error record otherwise — whatever the segmentation; and all deliveries of one
// byte string get the same answer.

import (
	"fmt"
	"strings"
	"sync"
	"time"

	"verifharness/lib"
)

// refValid: the request contract on bytes. A stream is valid iff it is a sequence of records
// the reader goes past (next protocol / algorithm / port with two body bytes; cookie / server
// with the announced body; unrecognised types without the critical bit with the announced
// body), followed by an end-of-message header. An error record, an unrecognised critical
// record or running out of bytes makes it invalid.
func refValid(b []byte) bool {
	for {
		if len(b) < 4 {
			return false
		}
		crit := b[0]&0x80 != 0
		typ := (int(b[0])<<8 | int(b[1])) & 0x7fff
		blen := int(b[2])<<8 | int(b[3])
		b = b[4:]
		need := blen
		switch typ {
		case 0:
			return true
		case 2:
			return false
		case 1, 4, 7:
			need = 2
		case 5, 6:
		default:
			if crit {
				return false
			}
		}
		if len(b) < need {
			return false
		}
		b = b[need:]
	}
}

type ksCase struct {
	op    string
	tr    string
	flat  []byte // the byte string delivered (ks.req)
	label string
	ans   string
}

// ksExpect: the answer the contract demands for a delivery of `flat` to the server at ip.
func ksExpect(flat []byte, ip string) string {
	if !refValid(flat) {
		return "ok error=800200020001"
	}
	rs := []wrec{mk("np", 0x8001, u16b(0)), mk("al", 0x8004, u16b(15)), mk("sv", 6, []byte(ip)), mk("pt", 7, u16b(KsNTPPort))}
	return "ok resp=" + lib.Hex(flatten(rs)) + strings.Repeat("(ck124)", 8) + "80000000 keys=agree"
}

func flatten(rs []wrec) []byte { return flat(rs) }

func GenServer(c *lib.Ctx) {
	r := c.Rand.Fork("ksrv")
	req := flat([]wrec{mk("np", 0x8001, u16b(0)), mk("al", 0x8004, u16b(15)), mk("end", 0x8000, nil)})
	var cases []ksCase
	tlsHosts := []string{"127.0.0.1", "127.0.0.2", "127.1.2.3"}
	hostOf := func(tr string) string {
		if tr == "quic" {
			return ksQHost
		}
		return tlsHosts[r.Intn(len(tlsHosts))]
	}
	add := func(tr string, b []byte, segs [][]byte, gap int, label string) {
		ip := hostOf(tr)
		op := fmt.Sprintf("ks.req tr=%s ip=%s port=%d clen=124 segs=%s gap=%d", tr, hexOf(ip), KsNTPPort, hexList(segs), gap)
		cases = append(cases, ksCase{op: op, tr: tr, flat: b, label: label})
	}
	cutsOf := func(b []byte, cuts ...int) [][]byte {
		if len(cuts) == 0 {
			return [][]byte{b}
		}
		return split(b, cuts...)
	}
	gapOf := func(tr string) int {
		if tr == "quic" {
			return 2 + r.Intn(4) // separate stream frames / reads
		}
		return r.Intn(3) // TLS keeps record boundaries whatever the timing
	}
	// deliveries of one byte string: whole, every 1-split (sampled when long), record-wise,
	// sampled 2-splits, random segmentations, byte-wise for short ones
	deliveries := func(tr string, b []byte, bounds []int, all1 bool, n2, nr int, label string) {
		add(tr, b, cutsOf(b), 0, label+":whole")
		if len(b) > 1 {
			if all1 || len(b) <= 24 {
				for k := 1; k < len(b); k++ {
					add(tr, b, cutsOf(b, k), gapOf(tr), label+":1-split")
				}
			} else {
				seen := map[int]bool{}
				for i := 0; i < 6; i++ {
					k := 1 + r.Intn(len(b)-1)
					if !seen[k] {
						seen[k] = true
						add(tr, b, cutsOf(b, k), gapOf(tr), label+":1-split")
					}
				}
			}
		}
		if len(bounds) > 0 {
			add(tr, b, cutsOf(b, bounds...), gapOf(tr), label+":record-wise")
		}
		for i := 0; i < n2 && len(b) > 2; i++ {
			k1 := 1 + r.Intn(len(b)-2)
			k2 := k1 + 1 + r.Intn(len(b)-k1-1)
			add(tr, b, cutsOf(b, k1, k2), gapOf(tr), label+":2-split")
		}
		for i := 0; i < nr; i++ {
			add(tr, b, randomSeg(r, b), gapOf(tr), label+":random-seg")
		}
		if len(b) <= 20 && len(b) > 1 {
			cuts := make([]int, 0, len(b))
			for k := 1; k < len(b); k++ {
				cuts = append(cuts, k)
			}
			add(tr, b, cutsOf(b, cuts...), 1, label+":byte-wise")
		}
	}
	boundsOf := func(rs []wrec) []int {
		var bs []int
		pos := 0
		for i, x := range rs {
			pos += len(x.bytes())
			if i < len(rs)-1 {
				bs = append(bs, pos)
			}
		}
		return bs
	}
	for _, tr := range []string{"tls", "quic"} {
		// A. the production client's request: every split point 1..15, record-wise, header/body, byte-wise
		deliveries(tr, req, []int{6, 12}, true, c.Scale(6, 105), c.Scale(3, 20), "client-request")
		add(tr, req, cutsOf(req, 4, 6, 10, 12), gapOf(tr), "client-request:header-body-split")
		add(tr, req, cutsOf(req, 12), 30, "client-request:end-of-message-alone")
		// B. extra records the reader must ignore (unrecognised, no critical bit; a warning record
		// without the critical bit), in front, in the middle, before the end; cut inside their
		// header and body
		nExtra := c.Scale(3, 12)
		for i := 0; i < nExtra; i++ {
			body := r.Bytes(r.Intn(9))
			typ := uint16(8 + r.Intn(200))
			if r.Chance(25) {
				typ = 3
			}
			ex := mk("unk", typ, body)
			rs := []wrec{mk("np", 0x8001, u16b(0)), mk("al", 0x8004, u16b(15)), mk("end", 0x8000, nil)}
			pos := r.Intn(3)
			rs = append(rs[:pos], append([]wrec{ex}, rs[pos:]...)...)
			if r.Chance(30) {
				rs = append(rs[:len(rs)-1], mk("unk", uint16(8+r.Intn(200)), r.Bytes(r.Intn(5))), rs[len(rs)-1])
			}
			b := flat(rs)
			deliveries(tr, b, boundsOf(rs), c.Thorough(), c.Scale(2, 8), c.Scale(2, 6), "extra-noncritical")
			// cuts inside the extra record: after 1..3 header bytes, inside the body
			off := 0
			for j := 0; j < pos; j++ {
				off += len(rs[j].bytes())
			}
			add(tr, b, cutsOf(b, off+1+r.Intn(3)), gapOf(tr), "extra-noncritical:cut-in-header")
			if len(body) > 1 {
				add(tr, b, cutsOf(b, off+4+1+r.Intn(len(body)-1)), gapOf(tr), "extra-noncritical:cut-in-body")
			}
		}
		// C. valid streams with other content (the handler does not look at it)
		others := [][]wrec{
			{mk("end", 0x8000, nil)},
			{mk("end", 0x0000, nil)},
			{mk("np", 0x8001, u16b(1)), mk("al", 0x8004, u16b(30)), mk("end", 0x8000, nil)},
			{mk("al", 0x8004, u16b(15)), mk("np", 0x8001, u16b(0)), mk("end", 0x8000, nil)},
			{mk("np", 0x8001, u16b(0)), mk("al", 0x8004, u16b(15)), mk("sv", 6, []byte("198.51.100.7")), mk("pt", 7, u16b(999)), mk("ck", 5, r.Bytes(40)), mk("end", 0x8000, nil)},
			{mk("np", 0x0001, u16b(0)), mk("al", 0x0004, u16b(15)), mk("end", 0x8000, nil)},
		}
		for _, rs := range others {
			b := flat(rs)
			deliveries(tr, b, boundsOf(rs), false, c.Scale(1, 6), c.Scale(1, 4), "valid-other-content")
		}
		// bytes after the end of message, in the same segment as its last byte (a later segment
		// would be unread data at close: a TCP reset may then overtake the response)
		{
			tail := r.Bytes(1 + r.Intn(12))
			b := append(append([]byte{}, req...), tail...)
			add(tr, b, cutsOf(b), 0, "valid-with-tail:whole")
			add(tr, b, cutsOf(b, 5), gapOf(tr), "valid-with-tail:1-split")
			add(tr, b, cutsOf(b, 6, 12, 15), gapOf(tr), "valid-with-tail:record-wise")
		}
		// a large record across bufio's 4096-byte buffer and several TLS records / stream frames
		{
			big := r.Bytes(c.Scale(5000, 40000))
			rs := []wrec{mk("np", 0x8001, u16b(0)), mk("unk", 77, big), mk("al", 0x8004, u16b(15)), mk("end", 0x8000, nil)}
			b := flat(rs)
			add(tr, b, cutsOf(b), 0, "large-record:whole")
			add(tr, b, cutsOf(b, 7, 4096, 4103), gapOf(tr), "large-record:cut")
			add(tr, b, cutsOf(b, len(b)-17, len(b)-3), gapOf(tr), "large-record:cut-late")
			// ... and truncated inside the large body
			t := b[:6+4+4200]
			add(tr, t, cutsOf(t), 0, "large-record-truncated:whole")
			add(tr, t, cutsOf(t, 4100), gapOf(tr), "large-record-truncated:cut")
		}
		// D. malformed streams: the request truncated at every byte; error / unknown critical
		// records; lying length fields; garbage; nothing at all
		for n := 0; n < len(req); n++ {
			t := req[:n]
			add(tr, t, cutsOf(t), 0, "truncated:whole")
			if n > 1 {
				add(tr, t, cutsOf(t, 1+r.Intn(n-1)), gapOf(tr), "truncated:1-split")
			}
		}
		bad := [][]wrec{
			{mk("er", 0x8002, u16b(1)), mk("end", 0x8000, nil)},
			{mk("np", 0x8001, u16b(0)), mk("er", 0x0002, u16b(0)), mk("end", 0x8000, nil)},
			{mk("np", 0x8001, u16b(0)), mk("unk", 0x8000|uint16(8+r.Intn(100)), r.Bytes(3)), mk("al", 0x8004, u16b(15)), mk("end", 0x8000, nil)},
			{mk("wn", 0x8003, u16b(7)), mk("end", 0x8000, nil)},
			{mk("np", 0x8001, u16b(0)), mk("al", 0x8004, u16b(15))},                            // no end of message
			{mk("np", 0x8001, u16b(0)), mk("al", 0x8004, append(u16b(15), u16b(30)...)), mk("end", 0x8000, nil)}, // two algorithms: the reader desynchronises
			{mk("ck", 5, r.Bytes(10))},
		}
		for _, rs := range bad {
			b := flat(rs)
			deliveries(tr, b, boundsOf(rs), false, c.Scale(1, 5), c.Scale(1, 4), "malformed-records")
		}
		for i := 0; i < c.Scale(3, 20); i++ {
			rs := lying(r, []wrec{mk("np", 0x8001, u16b(0)), mk("al", 0x8004, u16b(15)), mk("sv", 6, []byte("x")), mk("end", 0x8000, nil)})
			b := flat(rs)
			deliveries(tr, b, nil, false, 1, 1, "lying-length")
		}
		for i := 0; i < c.Scale(6, 60); i++ {
			b := r.Bytes(1 + r.Intn(40))
			deliveries(tr, b, nil, false, 1, 1, "garbage")
		}
	}

	// run: the ops are independent (one connection each); a few at a time, emitted in order
	var wg sync.WaitGroup
	sem := make(chan struct{}, 6)
	for i := range cases {
		wg.Add(1)
		sem <- struct{}{}
		go func(i int) {
			defer wg.Done()
			defer func() { <-sem }()
			cases[i].ans = lib.Try(func() string { return ExecSrv(strings.Fields(cases[i].op)) })
		}(i)
	}
	wg.Wait()
	// sandbox trouble (dial failures, watchdog): once more, alone
	for i := range cases {
		if strings.HasPrefix(cases[i].ans, "err ") {
			c.Count("ksrv:retried-alone")
			cases[i].ans = lib.Try(func() string { return ExecSrv(strings.Fields(cases[i].op)) })
		}
	}
	byFlat := map[string]int{} // tr|bytes -> index of the first delivery
	for i := range cases {
		k := &cases[i]
		if strings.HasPrefix(k.ans, "err harness-assumption-broken") {
			c.NotExecuted("ksrv: " + k.label + ": " + k.ans)
			continue
		}
		c.Comment("history ksrv " + k.label)
		c.Emit(k.op, k.ans)
		c.Count("ksrv:" + k.tr + ":" + strings.SplitN(k.label, ":", 2)[0])
		if p := strings.SplitN(k.label, ":", 2); len(p) == 2 {
			c.Count("ksrv:delivery:" + p[1])
		}
		ip, _ := kv(strings.Fields(k.op), "ip")
		want := ksExpect(k.flat, string(parseHex(ip)))
		valid := refValid(k.flat)
		if valid {
			c.Count("ksrv:stream-valid")
		} else {
			c.Count("ksrv:stream-invalid")
		}
		switch {
		case k.ans == "err no-answer":
			c.Fail("c20srv:no-answer", "the NTS-KE server neither answered nor closed a finite, closed request stream", []string{k.op},
				map[string]any{"label": k.label})
		case strings.HasPrefix(k.ans, "panic"):
			c.Fail("c20srv:panic", "panic while serving a key exchange", []string{k.op}, map[string]any{"answer": k.ans})
		case k.ans != want && valid:
			c.Fail("c20srv:valid-request-not-served", "a valid request stream did not get the complete well-formed response (8 cookies opening to the session keys under the current key)",
				[]string{k.op}, map[string]any{"label": k.label, "got": k.ans, "want": want})
		case k.ans != want:
			c.Fail("c20srv:invalid-request-answer", "an invalid request stream was not answered with the bad-request error record", []string{k.op},
				map[string]any{"label": k.label, "got": k.ans, "want": want})
		}
		key := k.tr + "|" + string(k.flat)
		if j, ok := byFlat[key]; !ok {
			byFlat[key] = i
		} else if ansClass(cases[j].ans) != ansClass(k.ans) {
			c.Fail("c20srv:segmentation", "the server's answer to one request byte stream depends on how the transport segments it",
				[]string{cases[j].op, k.op}, map[string]any{"first": cases[j].ans, "second": k.ans, "label": k.label})
		}
	}

	// the accept loop is not held up by a connection that stays open and silent
	for _, tr := range []string{"tls", "quic"} {
		for i := 0; i < c.Scale(2, 8); i++ {
			n := r.Intn(len(req)) // a proper prefix (possibly nothing)
			ip := hostOf(tr)
			op := fmt.Sprintf("ks.held tr=%s ip=%s port=%d clen=124 segs=%s other=%s", tr, hexOf(ip), KsNTPPort,
				hexList([][]byte{req[:n]}), hexList([][]byte{req[:7], req[7:]}))
			c.Comment("history ksrv held")
			ans := lib.Try(func() string { return ExecSrv(strings.Fields(op)) })
			if strings.HasPrefix(ans, "err harness-assumption-broken") {
				c.NotExecuted("ksrv: held: " + ans)
				continue
			}
			c.Emit(op, ans)
			c.Count("ksrv:" + tr + ":held-connection")
			want := "ok other=" + ksExpect(req, ip)[3:] + " held=" + ksExpect(req[:n], ip)[3:]
			if ans != want {
				c.Fail("c20srv:held-connection", "while one connection stayed open and silent in mid-request, another key exchange was not served (or the held one not refused when it ended)",
					[]string{op}, map[string]any{"got": ans, "want": want})
			}
		}
	}
	genStorm(c, r, req)
}

// genStorm: C08 for the accept loops — bursts of connections that never become a key exchange
// (aborted, silent and still open, garbage, failed handshakes; raw datagrams and failed handshakes
// over QUIC), then a genuine exchange on the same listener. Direct oracle: the genuine exchange
// gets the complete well-formed response (the byte contract of ksExpect) and gets it within
// stormBound; a late one is repeated once alone before it is reported.
const stormBound = 8 * time.Second

func genStorm(c *lib.Ctx, r *lib.Rand, req []byte) {
	type sc struct {
		tr    string
		kinds []string
		n     int
		hold  int
	}
	tlsKinds := []string{"rst", "silent", "garbage", "badalpn", "tls12", "hsabort"}
	quicKinds := []string{"udpgarbage", "badalpn", "hsabort"}
	var cases []sc
	for _, k := range tlsKinds {
		cases = append(cases, sc{"tls", []string{k}, 24, 8})
	}
	cases = append(cases, sc{"tls", tlsKinds, c.Scale(300, 2000), 64}, sc{"tls", []string{"rst", "hsabort"}, c.Scale(400, 3000), 0},
		sc{"tls", []string{"silent"}, c.Scale(200, 900), c.Scale(200, 900)}, sc{"tls", nil, 0, 0})
	for _, k := range quicKinds {
		cases = append(cases, sc{"quic", []string{k}, 12, 0})
	}
	cases = append(cases, sc{"quic", []string{"udpgarbage", "udpgarbage", "udpgarbage", "hsabort", "badalpn"}, c.Scale(60, 400), 0}, sc{"quic", nil, 0, 0})
	for _, s := range cases {
		ip := ksQHost
		if s.tr == "tls" {
			ip = []string{"127.0.0.1", "127.0.0.2"}[r.Intn(2)]
		}
		var ks []string
		for i := 0; i < s.n; i++ {
			ks = append(ks, s.kinds[r.Intn(len(s.kinds))])
		}
		st := "-"
		if len(ks) > 0 {
			st = strings.Join(ks, ".")
		}
		op := fmt.Sprintf("ks.storm tr=%s ip=%s port=%d clen=124 segs=%s storm=%s hold=%d", s.tr, hexOf(ip), KsNTPPort,
			hexList([][]byte{req[:7], req[7:]}), st, s.hold)
		c.Comment("history ksrv storm")
		ans := lib.Try(func() string { return ExecSrv(strings.Fields(op)) })
		took := LastStormGenuine
		if strings.HasPrefix(ans, "err harness-assumption-broken") || (strings.HasPrefix(ans, "ok ") && took > stormBound) || ans == "err no-answer" {
			c.Count("ksrv:storm:retried-alone")
			time.Sleep(500 * time.Millisecond)
			ans = lib.Try(func() string { return ExecSrv(strings.Fields(op)) })
			took = LastStormGenuine
		}
		if strings.HasPrefix(ans, "err harness-assumption-broken") {
			c.NotExecuted("ksrv: storm: " + ans)
			continue
		}
		c.Emit(op, ans)
		c.Count("ksrv:" + s.tr + ":storm")
		for _, k := range s.kinds {
			c.Count("ksrv:storm:" + s.tr + ":" + k)
		}
		switch {
		case took < 100*time.Millisecond:
			c.Count("ksrv:storm:genuine-served-in<100ms")
		case took < time.Second:
			c.Count("ksrv:storm:genuine-served-in<1s")
		default:
			c.Count("ksrv:storm:genuine-served-in>=1s")
		}
		want := fmt.Sprintf("ok storm=%d %s", len(ks), ksExpect(req, ip)[3:])
		switch {
		case strings.HasPrefix(ans, "panic"):
			c.Fail("c20srv:panic", "panic while serving a key exchange after a burst of aborted connections", []string{op}, map[string]any{"answer": ans})
		case ans != want:
			c.Fail("c20srv:genuine-exchange-not-served-after-storm", "after a burst of connections that never became a key exchange (aborted / silent / garbage / failed handshakes) a genuine exchange on the same listener did not get the complete response",
				[]string{op}, map[string]any{"got": ans, "want": want})
		case took > stormBound:
			c.Fail("c20srv:genuine-exchange-late-after-storm", fmt.Sprintf("after a burst of connections that never became a key exchange the genuine exchange took %v (bound %v, confirmed by a second run)", took, stormBound),
				[]string{op}, map[string]any{"took_ms": took.Milliseconds()})
		}
	}
}

// ansClass: the answer without the address-dependent part (deliveries of one byte string may go
// to different loopback addresses of the same server).
func ansClass(a string) string {
	switch {
	case strings.HasPrefix(a, "ok resp="):
		if strings.HasSuffix(a, " keys=agree") {
			return "resp"
		}
		return a
	}
	return a
}
