package h

// Server side of the NTS key exchange: the real accept loops (runNTSKEServerTLS on a loopback
// TLS listener, runNTSKEServerQUIC on a SCION/QUIC listener) with the real handlers
// (handleKeyExchangeTLS / handleKeyExchangeQUIC -> ntske.ReadData -> ExportKeys -> newNTSKEMsg),
// driven by a scripted *client* that delivers the request in exactly the segments the op names:
// one tls.Conn.Write (= one TLS record = at most one server Read) or one QUIC stream write per
// segment, `gap` ms apart, then closes its sending side. Ops `ks.req`, `ks.held`
// (see lean/Driver/C20Srv.lean).

import (
	"bytes"
	"context"
	"crypto/tls"
	"errors"
	"fmt"
	"io"
	"net"
	"os"
	"strconv"
	"strings"
	"sync"
	"time"

	"github.com/scionproto/scion/pkg/addr"
	"github.com/scionproto/scion/pkg/snet/path"

	"example.com/scion-time/core/server"
	"example.com/scion-time/net/ntske"
	"example.com/scion-time/net/scion"
	"example.com/scion-time/net/udp"

	"verifharness/lib"
)

const KsNTPPort = 4123 // the NTP port the key exchange servers under test are configured with

var (
	ksTLSOnce  sync.Once
	ksTLSPort  string
	ksTLSProv  *ntske.Provider
	ksQOnce    sync.Once
	ksQPort    int
	ksQProv    *ntske.Provider
	ksQIA      addr.IA
	ksQHost    = "127.0.0.1"
	ksStepSecs = 20 // watchdog per connection (seconds); generous, the machine is shared
)

func ksStartTLS() {
	ksTLSOnce.Do(func() {
		ln, err := tls.Listen("tcp", "0.0.0.0:0", &tls.Config{
			Certificates: []tls.Certificate{selfSigned()}, MinVersion: tls.VersionTLS13, NextProtos: []string{"ntske/1"}})
		if err != nil {
			panic("ks listen: " + err.Error())
		}
		_, ksTLSPort, _ = net.SplitHostPort(ln.Addr().String())
		ksTLSProv = ntske.NewProvider()
		go server.VerifC20RunNTSKEServerTLS(context.Background(), nolog, ln, KsNTPPort, ksTLSProv)
	})
}

func ksStartQUIC() {
	ksQOnce.Do(func() {
		ia, err := addr.ParseIA("1-ff00:0:112")
		if err != nil {
			panic(err)
		}
		ksQIA = ia
		local := udp.UDPAddr{IA: ia, Host: &net.UDPAddr{IP: net.ParseIP(ksQHost).To4(), Port: 0}}
		ln, err := scion.ListenQUIC(context.Background(), local, &tls.Config{
			Certificates: []tls.Certificate{selfSigned()}, MinVersion: tls.VersionTLS13, NextProtos: []string{"ntske/1"}}, nil)
		if err != nil {
			panic("ks listen quic: " + err.Error())
		}
		ksQPort = ln.Addr().(udp.UDPAddr).Host.Port
		ksQProv = ntske.NewProvider()
		go server.VerifC20RunNTSKEServerQUIC(context.Background(), nolog, ln, KsNTPPort, ksQProv)
	})
}

// ksConn is one scripted client connection to a server under test.
type ksConn struct {
	write    func([]byte) error
	closeTx  func() error // close the sending side only (TLS close_notify / QUIC FIN)
	shutdown func()
	c2s, s2c []byte
	got      chan ksGot // what the server wrote until it closed
	prov     *ntske.Provider
}

type ksGot struct {
	b   []byte
	err error // nil: clean end of stream
}

var errKsEnv = errors.New("harness-assumption-broken")

func ksDialTLS(host string) (*ksConn, error) {
	ksStartTLS()
	d := &net.Dialer{Timeout: time.Duration(ksStepSecs) * time.Second}
	conn, err := tls.DialWithDialer(d, "tcp", net.JoinHostPort(host, ksTLSPort),
		&tls.Config{InsecureSkipVerify: true, ServerName: host, MinVersion: tls.VersionTLS13, NextProtos: []string{"ntske/1"}})
	if err != nil {
		return nil, fmt.Errorf("%w: dial tls: %v", errKsEnv, err)
	}
	conn.SetDeadline(time.Now().Add(time.Duration(ksStepSecs) * time.Second))
	k := &ksConn{got: make(chan ksGot, 1), prov: ksTLSProv}
	k.c2s, k.s2c = exportBoth(conn.ConnectionState())
	k.write = func(b []byte) error { _, err := conn.Write(b); return err }
	k.closeTx = conn.CloseWrite
	k.shutdown = func() { conn.Close() }
	go func() {
		b, err := io.ReadAll(conn)
		k.got <- ksGot{b, err}
	}()
	return k, nil
}

func ksDialQUIC() (*ksConn, error) {
	ksStartQUIC()
	ctx, cancel := context.WithTimeout(context.Background(), time.Duration(ksStepSecs)*time.Second)
	defer cancel()
	local := udp.UDPAddr{IA: ksQIA, Host: &net.UDPAddr{IP: net.ParseIP("127.0.0.1").To4()}}
	remote := udp.UDPAddr{IA: ksQIA, Host: &net.UDPAddr{IP: net.ParseIP(ksQHost).To4(), Port: ksQPort}}
	p := path.Path{Src: ksQIA, Dst: ksQIA, DataplanePath: path.Empty{}, NextHop: remote.Host}
	conn, err := scion.DialQUIC(ctx, local, remote, p, "",
		&tls.Config{InsecureSkipVerify: true, ServerName: ksQHost, MinVersion: tls.VersionTLS13, NextProtos: []string{"ntske/1"}}, nil)
	if err != nil {
		return nil, fmt.Errorf("%w: dial quic: %v", errKsEnv, err)
	}
	stream, err := conn.OpenStream()
	if err != nil {
		conn.CloseWithError(0, "")
		return nil, fmt.Errorf("%w: open stream: %v", errKsEnv, err)
	}
	stream.SetDeadline(time.Now().Add(time.Duration(ksStepSecs) * time.Second))
	k := &ksConn{got: make(chan ksGot, 1), prov: ksQProv}
	k.c2s, k.s2c = exportBoth(conn.ConnectionState().TLS)
	k.write = func(b []byte) error { _, err := stream.Write(b); return err }
	k.closeTx = stream.Close
	k.shutdown = func() { conn.CloseWithError(0, "") }
	go func() {
		b, err := io.ReadAll(stream)
		k.got <- ksGot{b, err}
	}()
	return k, nil
}

// deliver writes the segments (empty ones are no writes at all: neither a TLS record nor a
// stream frame carries them), `gap` ms apart. It stops early when the server has already
// answered and closed (then further writes could only fail); write errors after that point
// are of no interest.
func (k *ksConn) deliver(segs [][]byte, gap int) {
	for i, s := range segs {
		if i > 0 && gap > 0 {
			time.Sleep(time.Duration(gap) * time.Millisecond)
		}
		if len(s) == 0 {
			continue
		}
		if err := k.write(s); err != nil {
			return
		}
	}
}

// result: close the sending side, wait for the server's answer, classify it.
func (k *ksConn) result(ip string, clen int) string {
	_ = k.closeTx()
	var g ksGot
	select {
	case g = <-k.got:
	case <-time.After(time.Duration(ksStepSecs+5) * time.Second):
		k.shutdown()
		return "err no-answer"
	}
	k.shutdown()
	if g.err != nil {
		var ne net.Error
		if errors.As(g.err, &ne) && ne.Timeout() {
			// the server neither answered completely nor closed within the watchdog
			return "err no-answer"
		}
		if len(g.b) == 0 {
			return "err harness-assumption-broken:" + strings.ReplaceAll(g.err.Error(), " ", "_")
		}
		// bytes followed by a reset: classify what arrived
	}
	return "ok " + ksClassify(g.b, k, clen)
}

// ksClassify: canonical text of what the server wrote. A response message is shown with the
// cookie bodies zeroed (they are random) after each cookie has been opened with the
// provider's key and compared with this client's own exporter values.
func ksClassify(b []byte, k *ksConn, clen int) string {
	if len(b) == 0 {
		return "silent"
	}
	if len(b) == 6 && b[0] == 0x80 && b[1] == 0x02 && b[2] == 0 && b[3] == 2 {
		return "error=" + lib.Hex(b)
	}
	// strict parse: records until a header 0x8000 0x0000 that ends the buffer exactly
	var z strings.Builder
	keys := "keys=agree"
	nck := 0
	pos := 0
	for {
		if pos+4 > len(b) {
			return "raw=" + lib.Hex(b)
		}
		typ := int(b[pos])<<8 | int(b[pos+1])
		blen := int(b[pos+2])<<8 | int(b[pos+3])
		pos += 4
		if typ == 0x8000 && blen == 0 {
			z.WriteString(lib.Hex(b[pos-4 : pos]))
			break
		}
		if pos+blen > len(b) {
			return "raw=" + lib.Hex(b)
		}
		if typ&0x7fff == 5 {
			nck++
			ck := b[pos : pos+blen]
			if v := ksOpenCookie(ck, k); v != "" && keys == "keys=agree" {
				keys = v
			}
			if blen != clen {
				keys += fmt.Sprintf(" cookie-length=%d", blen)
			}
			if typ != 5 {
				return "raw=" + lib.Hex(b) // cookie records are never critical
			}
			fmt.Fprintf(&z, "(ck%d)", blen)
		} else {
			z.WriteString(lib.Hex(b[pos-4 : pos+blen]))
		}
		pos += blen
	}
	if pos != len(b) {
		return "raw=" + lib.Hex(b)
	}
	return "resp=" + z.String() + " " + keys
}

func ksOpenCookie(ck []byte, k *ksConn) string {
	var ec ntske.EncryptedServerCookie
	if err := ec.Decode(ck); err != nil {
		return "keys=cookie-undecodable"
	}
	key, ok := k.prov.Get(int(ec.ID))
	if !ok {
		return "keys=cookie-key-unknown"
	}
	cur := k.prov.Current()
	if cur.ID != key.ID {
		return "keys=cookie-not-under-current-key"
	}
	sc, err := ec.Decrypt(key.Value)
	if err != nil {
		return "keys=cookie-unopenable"
	}
	if len(k.c2s) != 32 || !bytes.Equal(sc.C2S, k.c2s) || !bytes.Equal(sc.S2C, k.s2c) || sc.Algo != 15 {
		return "keys=differ"
	}
	return ""
}

type ksArgs struct {
	tr    string
	ip    string
	port  int
	clen  int
	segs  [][]byte
	gap   int
	other [][]byte
}

func ksParse(t []string, held bool) ksArgs {
	var a ksArgs
	if len(t) != 6 {
		panic("bad-op")
	}
	get := func(k string) string {
		v, ok := kv(t, k)
		if !ok {
			panic("bad-op")
		}
		return v
	}
	a.tr = get("tr")
	if a.tr != "tls" && a.tr != "quic" {
		panic("bad-op")
	}
	a.ip = string(parseHex(get("ip")))
	a.port = atoi(get("port"))
	a.clen = atoi(get("clen"))
	a.segs = parseHexList(get("segs"))
	if held {
		a.other = parseHexList(get("other"))
	} else {
		a.gap = atoi(get("gap"))
		if a.gap > 60000 {
			panic("bad-op")
		}
	}
	if a.port != KsNTPPort || net.ParseIP(a.ip) == nil || a.port > 65535 || a.clen > 65535 {
		panic("bad-op")
	}
	if a.tr == "quic" && a.ip != ksQHost {
		panic("bad-op")
	}
	return a
}

func ksDial(a ksArgs) (*ksConn, error) {
	if a.tr == "quic" {
		return ksDialQUIC()
	}
	return ksDialTLS(a.ip)
}

func ksReq(t []string) string {
	a := ksParse(t, false)
	k, err := ksDial(a)
	if err != nil {
		return "err harness-assumption-broken:" + strings.ReplaceAll(err.Error(), " ", "_")
	}
	k.deliver(a.segs, a.gap)
	return k.result(a.ip, a.clen)
}

func ksHeld(t []string) string {
	a := ksParse(t, true)
	ka, err := ksDial(a)
	if err != nil {
		return "err harness-assumption-broken:" + strings.ReplaceAll(err.Error(), " ", "_")
	}
	ka.deliver(a.segs, 0)
	time.Sleep(20 * time.Millisecond) // A's handler is now blocked in ReadData (or has answered)
	kb, err := ksDial(a)
	if err != nil {
		ka.shutdown()
		return "err harness-assumption-broken:" + strings.ReplaceAll(err.Error(), " ", "_")
	}
	kb.deliver(a.other, 0)
	rb := kb.result(a.ip, a.clen)
	ra := ka.result(a.ip, a.clen)
	if !strings.HasPrefix(rb, "ok ") {
		return rb
	}
	if !strings.HasPrefix(ra, "ok ") {
		return ra
	}
	return "ok other=" + rb[3:] + " held=" + ra[3:]
}

// ExecSrv interprets the ks.* ops; everything else goes to Exec.
func ExecSrv(t []string) (res string) {
	defer func() {
		if r := recover(); r != nil {
			if s, ok := r.(string); ok && s == "bad-op" {
				res = "bad-op"
				return
			}
			panic(r)
		}
	}()
	switch t[0] {
	case "ks.req":
		return ksReq(t[1:])
	case "ks.held":
		return ksHeld(t[1:])
	case "ks.storm":
		return ksStorm(t[1:])
	}
	return Exec(t)
}

func init() {
	if v := os.Getenv("C20SRV_STEP_SECS"); v != "" {
		if n, err := strconv.Atoi(v); err == nil && n > 0 {
			ksStepSecs = n
		}
	}
}
