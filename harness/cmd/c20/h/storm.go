package h

// ks.storm: a burst of connections that never become a key exchange, delivered to the real accept
// loops (runNTSKEServerTLS / runNTSKEServerQUIC), some of them still held open, and then a genuine
// exchange on the same listener. C08 for the NTS-KE server: nothing a peer sends can stop the
// receiving loop from making progress — the genuine exchange is served, completely, within a bound.
//
//   ks.storm tr=tls|quic ip=<hex> port=<ntp port> clen=<n> segs=<chunks> storm=<kind.kind...> hold=<h>
//     -> ok storm=<number of storm connections> <answer of the genuine ks.req>
//
// kinds over TLS (each one is a TCP connection the loop accepts; the TLS handshake only runs inside
// the handler's first Read): rst (connect, reset), silent (connect, say nothing; the first `hold`
// of them stay open until the genuine exchange is over), garbage (non-TLS bytes, close),
// badalpn (ClientHello offering only "h2"), tls12 (ClientHello capped at TLS 1.2), hsabort (the
// first bytes of a TLS record, then reset).
// kinds over QUIC (none of them reaches Accept: quic-go hands out completed handshakes only):
// udpgarbage (a raw datagram on the listener's UDP port), badalpn (handshake offering "h2"),
// hsabort (a dial abandoned after a millisecond).

import (
	"context"
	"crypto/tls"
	"fmt"
	"net"
	"strings"
	"time"

	"github.com/scionproto/scion/pkg/snet/path"

	"example.com/scion-time/net/scion"
	"example.com/scion-time/net/udp"
)

// LastStormGenuine: how long the genuine exchange of the last ks.storm took.
var LastStormGenuine time.Duration

var stormKindsTLS = map[string]bool{"rst": true, "silent": true, "garbage": true, "badalpn": true, "tls12": true, "hsabort": true}
var stormKindsQUIC = map[string]bool{"udpgarbage": true, "badalpn": true, "hsabort": true}

func ksStorm(t []string) string {
	if len(t) != 7 {
		panic("bad-op")
	}
	stormTok, ok1 := kv(t, "storm")
	holdTok, ok2 := kv(t, "hold")
	if !ok1 || !ok2 {
		panic("bad-op")
	}
	var rest []string
	for _, x := range t {
		if !strings.HasPrefix(x, "storm=") && !strings.HasPrefix(x, "hold=") {
			rest = append(rest, x)
		}
	}
	rest = append(rest, "gap=0")
	a := ksParse(rest, false)
	hold := atoi(holdTok)
	var kinds []string
	if stormTok != "-" {
		kinds = strings.Split(stormTok, ".")
	}
	if len(kinds) > 5000 || hold > len(kinds) {
		panic("bad-op")
	}
	for _, k := range kinds {
		if (a.tr == "tls" && !stormKindsTLS[k]) || (a.tr == "quic" && !stormKindsQUIC[k]) {
			panic("bad-op")
		}
	}
	var held []net.Conn
	defer func() {
		for _, c := range held {
			c.Close()
		}
	}()
	if a.tr == "tls" {
		ksStartTLS()
		target := net.JoinHostPort(a.ip, ksTLSPort)
		dial := func() (net.Conn, error) {
			return (&net.Dialer{Timeout: time.Duration(ksStepSecs) * time.Second}).Dial("tcp", target)
		}
		for _, k := range kinds {
			c, err := dial()
			if err != nil {
				return "err harness-assumption-broken:storm-dial:" + strings.ReplaceAll(err.Error(), " ", "_")
			}
			switch k {
			case "rst":
				c.(*net.TCPConn).SetLinger(0)
				c.Close()
			case "silent":
				if len(held) < hold {
					held = append(held, c)
				} else {
					c.Close()
				}
			case "garbage":
				c.Write([]byte("GET / HTTP/1.1\r\nHost: ntske\r\n\r\n\x00\xff\x16\x03"))
				c.Close()
			case "badalpn", "tls12":
				cfg := &tls.Config{InsecureSkipVerify: true, ServerName: a.ip, NextProtos: []string{"h2"}, MinVersion: tls.VersionTLS13}
				if k == "tls12" {
					cfg = &tls.Config{InsecureSkipVerify: true, ServerName: a.ip, NextProtos: []string{"ntske/1"}, MaxVersion: tls.VersionTLS12}
				}
				c.SetDeadline(time.Now().Add(time.Duration(ksStepSecs) * time.Second))
				tc := tls.Client(c, cfg)
				if err := tc.Handshake(); err == nil {
					tc.Close()
					return "err harness-assumption-broken:storm-handshake-succeeded:" + k
				}
				c.Close()
			case "hsabort":
				c.Write([]byte{0x16, 0x03, 0x01, 0x02, 0x00, 0x01, 0x00, 0x01, 0xfc, 0x03, 0x03})
				c.(*net.TCPConn).SetLinger(0)
				c.Close()
			}
		}
	} else {
		ksStartQUIC()
		local := udp.UDPAddr{IA: ksQIA, Host: &net.UDPAddr{IP: net.ParseIP("127.0.0.1").To4()}}
		remote := udp.UDPAddr{IA: ksQIA, Host: &net.UDPAddr{IP: net.ParseIP(ksQHost).To4(), Port: ksQPort}}
		p := path.Path{Src: ksQIA, Dst: ksQIA, DataplanePath: path.Empty{}, NextHop: remote.Host}
		for i, k := range kinds {
			switch k {
			case "udpgarbage":
				c, err := net.DialUDP("udp", nil, remote.Host)
				if err != nil {
					return "err harness-assumption-broken:storm-udp:" + strings.ReplaceAll(err.Error(), " ", "_")
				}
				b := make([]byte, 40+i%200)
				for j := range b {
					b[j] = byte(j*7 + i)
				}
				c.Write(b)
				c.Close()
			case "badalpn", "hsabort":
				d := 2 * time.Second
				protos := []string{"h2"}
				if k == "hsabort" {
					d, protos = time.Millisecond, []string{"ntske/1"}
				}
				ctx, cancel := context.WithTimeout(context.Background(), d)
				conn, err := scion.DialQUIC(ctx, local, remote, p, "",
					&tls.Config{InsecureSkipVerify: true, ServerName: ksQHost, MinVersion: tls.VersionTLS13, NextProtos: protos}, nil)
				cancel()
				if err == nil {
					conn.CloseWithError(0, "")
					if k == "badalpn" {
						return "err harness-assumption-broken:storm-handshake-succeeded:" + k
					}
				}
			}
		}
	}
	t0 := time.Now()
	k, err := ksDial(a)
	if err != nil {
		return "err harness-assumption-broken:" + strings.ReplaceAll(err.Error(), " ", "_")
	}
	k.deliver(a.segs, 0)
	res := k.result(a.ip, a.clen)
	LastStormGenuine = time.Since(t0)
	if !strings.HasPrefix(res, "ok ") {
		return res
	}
	return fmt.Sprintf("ok storm=%d %s", len(kinds), res[3:])
}
