// Package h: correspondence harness for C20 (NTS key exchange) and the NTS-KE fragments of
// C14 / C08. Exec interprets one op line against the real code.
package h

import (
	"bufio"
	"bytes"
	"context"
	"encoding/hex"
	"errors"
	"fmt"
	"io"
	"log/slog"
	"net"
	"strconv"
	"strings"

	"example.com/scion-time/core/server"
	"example.com/scion-time/net/ntske"

	"verifharness/lib"
)

var nolog = slog.New(slog.NewTextHandler(io.Discard, nil))

// ---------------------------------------------------------------- canonical text

func hexList(l [][]byte) string {
	var sb strings.Builder
	sb.WriteByte('[')
	for i, b := range l {
		if i > 0 {
			sb.WriteByte(',')
		}
		sb.WriteString(lib.Hex(b))
	}
	sb.WriteByte(']')
	return sb.String()
}

func parseHex(s string) []byte {
	if s == "-" {
		return []byte{}
	}
	b, err := hex.DecodeString(s)
	if err != nil || strings.ToLower(s) != s {
		panic("bad-op")
	}
	return b
}

func parseHexList(s string) [][]byte {
	if !strings.HasPrefix(s, "[") || !strings.HasSuffix(s, "]") {
		panic("bad-op")
	}
	s = s[1 : len(s)-1]
	if s == "" {
		return nil
	}
	var out [][]byte
	for _, p := range strings.Split(s, ",") {
		out = append(out, parseHex(p))
	}
	return out
}

func fmtData(d ntske.Data) string {
	return fmt.Sprintf("srv=%s port=%d algo=%d ck=%s", lib.Hex([]byte(d.Server)), d.Port, d.Algo, hexList(d.Cookie))
}

// readErrClass maps an error of ntske.ReadData to the model's enum.
func readErrClass(err error) string {
	switch {
	case errors.Is(err, io.ErrUnexpectedEOF):
		return "unexpected-eof"
	case errors.Is(err, io.EOF):
		return "eof"
	}
	s := err.Error()
	switch {
	case s == "ntske received unrecognized critical error message":
		return "unrec-critical"
	case s == "ntske received bad request error message":
		return "bad-request"
	case s == "ntske received internal server error message":
		return "internal"
	case s == "ntske received unknown error message":
		return "unknown-error"
	case strings.HasPrefix(s, "unknown record type ") && strings.HasSuffix(s, " with critical bit set"):
		return "critical:" + strings.TrimSuffix(strings.TrimPrefix(s, "unknown record type "), " with critical bit set")
	}
	return "other:" + strings.ReplaceAll(s, " ", "_")
}

// ---------------------------------------------------------------- chunked reader

// chunkReader delivers exactly one chunk (or the part of it that fits) per Read; an empty
// chunk is a Read returning (0, nil); the end of the list is (0, io.EOF).
type chunkReader struct {
	chunks [][]byte
}

func (r *chunkReader) Read(p []byte) (int, error) {
	if len(r.chunks) == 0 {
		return 0, io.EOF
	}
	n := copy(p, r.chunks[0])
	r.chunks[0] = r.chunks[0][n:]
	if len(r.chunks[0]) == 0 {
		r.chunks = r.chunks[1:]
	}
	return n, nil
}

func readChunks(chunks [][]byte) string {
	cs := make([][]byte, len(chunks))
	for i := range chunks {
		cs[i] = append([]byte{}, chunks[i]...)
	}
	var d ntske.Data
	err := ntske.ReadData(context.Background(), nolog, bufio.NewReader(&chunkReader{chunks: cs}), &d)
	if err != nil {
		return "err " + readErrClass(err) + " " + fmtData(d)
	}
	return "ok " + fmtData(d)
}

// ---------------------------------------------------------------- records

func atoi(s string) int {
	v, err := strconv.Atoi(s)
	if err != nil || v < 0 {
		panic("bad-op")
	}
	return v
}

func parseBool(s string) bool {
	switch s {
	case "1", "true":
		return true
	case "0", "false":
		return false
	}
	panic("bad-op")
}

func u16tok(s string) uint16 {
	v := atoi(s)
	if v > 65535 {
		panic("bad-op")
	}
	return uint16(v)
}

func parseRec(t string) ntske.Record {
	p := strings.Split(t, ":")
	switch {
	case len(p) == 1 && p[0] == "end":
		return ntske.End{}
	case len(p) == 2 && p[0] == "np":
		return ntske.NextProto{NextProto: u16tok(p[1])}
	case len(p) == 2 && p[0] == "al":
		a := []uint16{}
		if p[1] != "-" {
			for _, x := range strings.Split(p[1], ",") {
				a = append(a, u16tok(x))
			}
		}
		return ntske.Algorithm{Algo: a}
	case len(p) == 3 && p[0] == "sv":
		return ntske.Server{Addr: parseHex(p[1]), Critical: parseBool(p[2])}
	case len(p) == 3 && p[0] == "pt":
		return ntske.Port{Port: u16tok(p[1]), Critical: parseBool(p[2])}
	case len(p) == 2 && p[0] == "ck":
		return ntske.Cookie{Cookie: parseHex(p[1])}
	case len(p) == 2 && p[0] == "wn":
		return ntske.Warning{Code: u16tok(p[1])}
	case len(p) == 2 && p[0] == "er":
		return ntske.Error{Code: u16tok(p[1])}
	}
	panic("bad-op")
}

// ---------------------------------------------------------------- server message

var provider *ntske.Provider

func srvMsg(ipHex string, port, n, clen int) string {
	ipStr := string(parseHex(ipHex))
	ip := net.ParseIP(ipStr)
	if ip == nil || ip.String() != ipStr {
		panic("bad-op")
	}
	if provider == nil {
		provider = ntske.NewProvider()
	}
	data := &ntske.Data{C2sKey: bytes.Repeat([]byte{0xc2}, 32), S2cKey: bytes.Repeat([]byte{0x52}, 32)}
	msg, err := server.VerifC20NewNTSKEMsg(context.Background(), nolog, ip, port, data, provider)
	if err != nil {
		return "err no-cookie"
	}
	var z ntske.ExchangeMsg
	got := 0
	for _, r := range msg.Record {
		if c, ok := r.(ntske.Cookie); ok {
			got++
			if len(c.Cookie) != clen {
				return fmt.Sprintf("ok-shape cookie-length=%d", len(c.Cookie))
			}
			z.AddRecord(ntske.Cookie{Cookie: make([]byte, len(c.Cookie))})
		} else {
			z.AddRecord(r)
		}
	}
	if got != n {
		return fmt.Sprintf("ok-shape cookies=%d", got)
	}
	buf, err := z.Pack()
	if err != nil {
		return "err pack"
	}
	return "ok " + lib.Hex(buf.Bytes())
}

// ---------------------------------------------------------------- Exec

func kv(t []string, key string) (string, bool) {
	for _, x := range t {
		if strings.HasPrefix(x, key+"=") {
			return x[len(key)+1:], true
		}
	}
	return "", false
}

func Exec(t []string) (res string) {
	defer func() {
		if r := recover(); r != nil {
			if s, ok := r.(string); ok && s == "bad-op" {
				res = "bad-op"
				return
			}
			panic(r)
		}
	}()
	return exec(t)
}

func exec(t []string) string {
	switch {
	case t[0] == "rd.read" && len(t) == 2:
		return readChunks(parseHexList(t[1]))
	case t[0] == "rec.pack":
		var m ntske.ExchangeMsg
		for _, x := range t[1:] {
			m.AddRecord(parseRec(x))
		}
		buf, err := m.Pack()
		if err != nil {
			return "err pack"
		}
		return "ok " + lib.Hex(buf.Bytes())
	case t[0] == "srv.msg" && len(t) == 5:
		return srvMsg(t[1], atoi(t[2]), atoi(t[3]), atoi(t[4]))
	case t[0] == "f.new" && len(t) <= 3:
		// f.new [quic] [host=<dotted loopback address the scripted peer listens on>]
		host, overQUIC := "127.0.0.1", false
		for _, x := range t[1:] {
			switch {
			case x == "quic":
				overQUIC = true
			case strings.HasPrefix(x, "host="):
				host = x[5:]
			default:
				panic("bad-op")
			}
		}
		if overQUIC {
			return fNewQUIC(host)
		}
		return fNew(host)
	case t[0] == "f.fetch":
		return fFetch(t[1:])
	case t[0] == "f.store" && len(t) == 2:
		return fStore(parseHex(t[1]))
	case t[0] == "f.state" && len(t) == 1:
		return fState()
	case t[0] == "x.fetch":
		return xFetch(t[1:])
	case t[0] == "e2e.fetch" && len(t) == 3:
		return e2eFetch(atoi(t[1]), atoi(t[2]), false)
	case t[0] == "e2e.fetchq" && len(t) == 3:
		return e2eFetch(atoi(t[1]), atoi(t[2]), true)
	}
	return "bad-op"
}
