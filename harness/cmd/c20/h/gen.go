package h

import (
	"bytes"
	"context"
	"fmt"
	"net"
	"strings"

	"example.com/scion-time/core/server"
	"example.com/scion-time/net/ntske"

	"verifharness/lib"
)

// ---------------------------------------------------------------- wire records (built
// here byte by byte, independently of ntske's pack functions)

type wrec struct {
	kind string // np al sv pt ck eom err warn unk
	raw  uint16 // type field including the critical bit
	blen uint16 // length field
	body []byte // bytes that follow (may disagree with blen in the "lying" class)
}

func (r wrec) bytes() []byte {
	b := []byte{byte(r.raw >> 8), byte(r.raw), byte(r.blen >> 8), byte(r.blen)}
	return append(b, r.body...)
}

func mk(kind string, raw uint16, body []byte) wrec {
	return wrec{kind: kind, raw: raw, blen: uint16(len(body)), body: body}
}

func flat(rs []wrec) []byte {
	var b []byte
	for _, r := range rs {
		b = append(b, r.bytes()...)
	}
	return b
}

func u16b(v uint16) []byte { return []byte{byte(v >> 8), byte(v)} }

func critBit(r *lib.Rand, t uint16, pCrit int) uint16 {
	if r.Chance(pCrit) {
		return t | 0x8000
	}
	return t
}

func cookieBody(r *lib.Rand) []byte {
	switch r.Intn(12) {
	case 0:
		return []byte{}
	case 1:
		return r.Bytes(1)
	case 2:
		return r.Bytes(int(r.Range(4090, 4300))) // around bufio's buffer size
	case 3:
		return r.Bytes(int(r.Range(200, 600)))
	}
	return r.Bytes(int(r.Range(2, 40)))
}

// baseMsg: what a well-behaved server sends.
func baseMsg(r *lib.Rand, nck int, small bool) []wrec {
	rs := []wrec{mk("np", 0x8001, u16b(0)), mk("al", 0x8004, u16b(15))}
	if r.Chance(60) {
		rs = append(rs, mk("sv", critBit(r, 6, 30), []byte(fmt.Sprintf("10.%d.%d.%d", r.Intn(256), r.Intn(256), r.Intn(256)))))
	}
	if r.Chance(60) {
		rs = append(rs, mk("pt", critBit(r, 7, 30), u16b(uint16(r.Range(1, 65535)))))
	}
	for i := 0; i < nck; i++ {
		b := cookieBody(r)
		if small && len(b) > 40 {
			b = b[:int(r.Range(2, 40))]
		}
		rs = append(rs, mk("ck", critBit(r, 5, 10), b))
	}
	rs = append(rs, mk("eom", critBit(r, 0, 80), nil))
	return rs
}

func extraRec(r *lib.Rand) wrec {
	switch r.Intn(7) {
	case 0:
		return mk("err", critBit(r, 2, 80), u16b(uint16(r.Pick64([]int64{0, 1, 2, 3, 0xffff, 256}))))
	case 1:
		return mk("warn", 0x8003, u16b(uint16(r.Intn(4)))) // as Warning.pack sends it: critical
	case 2:
		return mk("warn", 0x0003, u16b(uint16(r.Intn(4))))
	case 3:
		return mk("unk", uint16(r.Range(8, 0x7fff))|0x8000, r.Bytes(r.Intn(6)))
	case 4:
		return mk("al", 0x8004, u16b(uint16(r.Pick64([]int64{15, 15, 16, 17, 0, 30}))))
	}
	return mk("unk", uint16(r.Pick64([]int64{8, 9, 0x4000, 0x7fff, 100, 1024})), r.Bytes(r.Intn(20)))
}

// mutate returns a structurally changed but well-formed record list (every length field
// truthful).
func mutate(r *lib.Rand, rs []wrec, c *lib.Ctx) []wrec {
	out := append([]wrec{}, rs...)
	switch r.Intn(8) {
	case 0, 1:
		c.Count("stream:as-sent")
	case 2:
		c.Count("stream:reordered")
		body := out[:len(out)-1]
		for i := len(body) - 1; i > 0; i-- {
			j := r.Intn(i + 1)
			body[i], body[j] = body[j], body[i]
		}
	case 3, 4:
		c.Count("stream:extra-records")
		for k := 1 + r.Intn(2); k > 0; k-- {
			pos := r.Intn(len(out) + 1)
			out = append(out[:pos], append([]wrec{extraRec(r)}, out[pos:]...)...)
		}
	case 5:
		c.Count("stream:record-dropped")
		pos := r.Intn(len(out))
		out = append(out[:pos], out[pos+1:]...)
	case 6:
		c.Count("stream:fully-shuffled")
		for i := len(out) - 1; i > 0; i-- {
			j := r.Intn(i + 1)
			out[i], out[j] = out[j], out[i]
		}
	case 7:
		c.Count("stream:tail-after-eom")
		out = append(out, extraRec(r), mk("ck", 5, r.Bytes(3)))
	}
	return out
}

// lying: a record whose length field disagrees with what follows, or with the fixed size
// of its kind.
func lying(r *lib.Rand, rs []wrec) []wrec {
	out := append([]wrec{}, rs...)
	i := r.Intn(len(out))
	switch r.Intn(3) {
	case 0:
		out[i].blen = uint16(r.Pick64([]int64{0, 1, 3, 4, 0xffff, int64(len(out[i].body)) + 1}))
	case 1:
		out[i].body = append(out[i].body, r.Bytes(1+r.Intn(3))...)
	case 2:
		out[i] = wrec{kind: "al", raw: 0x8004, blen: 4, body: []byte{0, 15, 0, 30}} // two algorithms
	}
	return out
}

// ---------------------------------------------------------------- segmentations

func split(b []byte, cuts ...int) [][]byte {
	var out [][]byte
	prev := 0
	for _, c := range cuts {
		out = append(out, b[prev:c])
		prev = c
	}
	return append(out, b[prev:])
}

func randomSeg(r *lib.Rand, b []byte) [][]byte {
	var out [][]byte
	maxc := int(r.Pick64([]int64{1, 2, 3, 5, 16, 64, 5000}))
	if len(b) > 2000 && maxc < 64 {
		maxc = 64 * maxc // keep the number of chunks of large streams moderate
	}
	for i := 0; i < len(b); {
		if r.Chance(5) {
			out = append(out, []byte{})
			continue
		}
		n := 1 + r.Intn(maxc)
		if i+n > len(b) {
			n = len(b) - i
		}
		out = append(out, b[i:i+n])
		i += n
	}
	return out
}

func answerOf(ans string) string { return ans }

// segCheck runs the stream under several segmentations; all must decode to the same
// (data, error class). F7 is exactly a failure of this oracle.
func segCheck(c *lib.Ctx, b []byte, oneSplits, twoSplits, randoms int, label string) string {
	whole := fmt.Sprintf("rd.read %s", hexList([][]byte{b}))
	ref := c.Do(whole)
	if strings.HasPrefix(ref, "panic") {
		c.Fail("c08ntske:panic", "ReadData panicked", []string{whole}, map[string]any{"answer": ref})
	}
	if strings.HasPrefix(ref, "ok") {
		c.Count("read:ok")
	} else {
		f := strings.Fields(ref)
		if len(f) > 1 {
			cl := f[1]
			if strings.HasPrefix(cl, "critical:") {
				cl = "critical"
			}
			c.Count("read:err-" + cl)
		}
	}
	try := func(chunks [][]byte, how string) {
		op := fmt.Sprintf("rd.read %s", hexList(chunks))
		got := c.Do(op)
		c.Count("seg:" + how)
		if got != ref {
			c.Fail("c14ntske:segmentation", "ReadData result depends on how the byte stream is segmented into reads ("+label+")",
				[]string{whole, op}, map[string]any{"unsegmented": ref, "segmented": got, "how": how})
		}
	}
	n := len(b)
	if n >= 2 {
		if n-1 <= oneSplits {
			for i := 1; i < n; i++ {
				try(split(b, i), "1-split")
			}
		} else {
			for k := 0; k < oneSplits; k++ {
				try(split(b, 1+c.Rand.Intn(n-1)), "1-split")
			}
		}
	}
	if n >= 3 {
		for k := 0; k < twoSplits; k++ {
			i := 1 + c.Rand.Intn(n-2)
			j := i + 1 + c.Rand.Intn(n-i-1)
			try(split(b, i, j), "2-split")
		}
	}
	for k := 0; k < randoms; k++ {
		try(randomSeg(c.Rand, b), "random")
	}
	return ref
}

// expectRead evaluates the reader's contract on a truthful record list, independently of
// the model: which records are accepted, where it stops, what the data is.
func expectRead(rs []wrec, host string, port uint16) (ok bool, cls string, srv string, prt uint16, algo uint16, cookies [][]byte) {
	srv, prt = host, port
	for _, r := range rs {
		t := r.raw &^ 0x8000
		crit := r.raw&0x8000 != 0
		switch {
		case t == 0:
			return true, "", srv, prt, algo, cookies
		case t == 1:
		case t == 4:
			algo = uint16(r.body[0])<<8 | uint16(r.body[1])
		case t == 5:
			cookies = append(cookies, r.body)
		case t == 6:
			srv = string(r.body)
		case t == 7:
			prt = uint16(r.body[0])<<8 | uint16(r.body[1])
		case t == 2:
			code := uint16(r.body[0])<<8 | uint16(r.body[1])
			cl := "unknown-error"
			switch code {
			case 0:
				cl = "unrec-critical"
			case 1:
				cl = "bad-request"
			case 2:
				cl = "internal"
			}
			return false, cl, srv, prt, algo, cookies
		default:
			if crit {
				return false, fmt.Sprintf("critical:%d", t), srv, prt, algo, cookies
			}
		}
	}
	return false, "eof", srv, prt, algo, cookies
}

// GenCodec: ReadData over chunked readers, record packing (C14 NTS-KE clauses, C08 totality).
func GenCodec(c *lib.Ctx) {
	r := c.Rand.Fork("codec")
	c.Rand = r
	// ---- record packing: byte-exact against the model
	for i := c.Scale(300, 3000); i > 0; i-- {
		var toks []string
		for k := 1 + r.Intn(5); k > 0; k-- {
			switch r.Intn(8) {
			case 0:
				toks = append(toks, fmt.Sprintf("np:%d", r.Pick64([]int64{0, 1, 255, 256, 65535})))
			case 1:
				n := r.Intn(4)
				if n == 0 {
					toks = append(toks, "al:-")
				} else {
					var a []string
					for ; n > 0; n-- {
						a = append(a, fmt.Sprint(r.Pick64([]int64{15, 16, 0, 65535, 30})))
					}
					toks = append(toks, "al:"+strings.Join(a, ","))
				}
			case 2:
				toks = append(toks, fmt.Sprintf("sv:%s:%d", lib.Hex(r.Bytes(r.Intn(20))), r.Intn(2)))
			case 3:
				toks = append(toks, fmt.Sprintf("pt:%d:%d", r.Pick64([]int64{0, 123, 255, 256, 65535, int64(r.Intn(65536))}), r.Intn(2)))
			case 4:
				toks = append(toks, "ck:"+lib.Hex(cookieBody(r)))
			case 5:
				toks = append(toks, fmt.Sprintf("wn:%d", r.Intn(4)))
			case 6:
				toks = append(toks, fmt.Sprintf("er:%d", r.Pick64([]int64{0, 1, 2, 3, 65535})))
			case 7:
				toks = append(toks, "end")
			}
		}
		c.Count("pack:msg")
		c.Do("rec.pack " + strings.Join(toks, " "))
	}
	// ---- round trip through the real encoder and the real reader (direct oracle)
	for i := c.Scale(60, 600); i > 0; i-- {
		nck := 1 + r.Intn(8)
		var m ntske.ExchangeMsg
		m.AddRecord(ntske.NextProto{NextProto: 0})
		algo := uint16(r.Pick64([]int64{15, 15, 16, 65535}))
		m.AddRecord(ntske.Algorithm{Algo: []uint16{algo}})
		addr := []byte(fmt.Sprintf("192.0.2.%d", r.Intn(256)))
		m.AddRecord(ntske.Server{Addr: addr, Critical: r.Bool()})
		port := uint16(r.Intn(65536))
		m.AddRecord(ntske.Port{Port: port, Critical: r.Bool()})
		var cks [][]byte
		for k := 0; k < nck; k++ {
			ck := cookieBody(r)
			cks = append(cks, ck)
			m.AddRecord(ntske.Cookie{Cookie: ck})
		}
		m.AddRecord(ntske.End{})
		buf, err := m.Pack()
		if err != nil {
			c.Fail("c14ntske:pack-error", "Pack failed on a valid message", nil, map[string]any{"err": err.Error()})
			continue
		}
		want := "ok " + fmtData(ntske.Data{Server: string(addr), Port: port, Algo: algo, Cookie: cks})
		got := segCheck(c, buf.Bytes(), 12, 6, 4, "packed message")
		c.Count("roundtrip:msg")
		if got != want {
			c.Fail("c14ntske:roundtrip", "decoding an encoded NTS-KE message does not return its fields",
				[]string{"rd.read " + hexList([][]byte{buf.Bytes()})}, map[string]any{"want": want, "got": got})
		}
	}
	// ---- mostly valid streams, every 1-split, sampled 2-splits, random segmentations
	for i := c.Scale(120, 1200); i > 0; i-- {
		rs := mutate(r, baseMsg(r, r.Intn(9), r.Chance(85)), c)
		b := flat(rs)
		got := segCheck(c, b, c.Scale(150, 400), c.Scale(20, 120), c.Scale(8, 30), "well-formed records")
		ok, cls, srv, prt, algo, cks := expectRead(rs, "", 0)
		want := "ok " + fmtData(ntske.Data{Server: srv, Port: prt, Algo: algo, Cookie: cks})
		if !ok {
			want = "err " + cls + " " + fmtData(ntske.Data{Server: srv, Port: prt, Algo: algo, Cookie: cks})
		}
		if got != want {
			c.Fail("c20:reader-contract", "ReadData on well-formed records: accepted/refused records or resulting data differ from the contract",
				[]string{"rd.read " + hexList([][]byte{b})}, map[string]any{"want": want, "got": got})
		}
	}
	// ---- truncated at every byte
	for i := c.Scale(12, 80); i > 0; i-- {
		rs := mutate(r, baseMsg(r, 1+r.Intn(4), true), c)
		b := flat(rs)
		for cut := 0; cut < len(b); cut++ {
			c.Count("stream:truncated")
			segCheck(c, b[:cut], 2, 1, 1, "truncated stream")
		}
	}
	// ---- lying length fields and raw garbage (malformed class)
	for i := c.Scale(150, 1500); i > 0; i-- {
		var b []byte
		if r.Chance(60) {
			c.Count("stream:lying-length")
			b = flat(lying(r, baseMsg(r, r.Intn(4), true)))
		} else {
			c.Count("stream:garbage")
			b = r.Bytes(r.Intn(60))
			if r.Chance(50) && len(b) > 4 {
				b[0] &= 0x80
				b[1] &= 7
				b[2] = 0
			}
		}
		segCheck(c, b, 6, 3, 3, "malformed stream")
	}
	// ---- boundary: every record type 0..9 and the extremes, with and without the critical
	// bit, with length fields 0..3 and a truthful body, alone and after a cookie; every
	// error code around the mapped ones
	for _, typ := range []uint16{0, 1, 2, 3, 4, 5, 6, 7, 8, 9, 0x7ffe, 0x7fff} {
		for _, crit := range []uint16{0, 0x8000} {
			for blen := 0; blen <= 3; blen++ {
				c.Count("boundary:type-x-critical-x-length")
				rec := mk("x", typ|crit, r.Bytes(blen))
				segCheck(c, flat([]wrec{rec, mk("eom", 0x8000, nil)}), 8, 2, 1, "boundary")
				segCheck(c, flat([]wrec{mk("ck", 5, r.Bytes(2)), rec, mk("ck", 5, r.Bytes(1)), mk("eom", 0, nil)}), 4, 1, 1, "boundary")
			}
		}
	}
	for _, code := range []uint16{0, 1, 2, 3, 4, 255, 256, 257, 512, 0xffff} {
		for _, crit := range []uint16{0, 0x8000} {
			c.Count("boundary:error-code")
			rs := []wrec{mk("np", 0x8001, u16b(0)), mk("ck", 5, r.Bytes(3)), mk("err", 2|crit, u16b(code)), mk("eom", 0x8000, nil)}
			got := segCheck(c, flat(rs), 30, 3, 2, "error record")
			_, cls, _, _, _, _ := expectRead(rs, "", 0)
			if !strings.HasPrefix(got, "err "+cls+" ") {
				c.Fail("c20:reader-contract", "error record code is mapped to the wrong error", []string{"rd.read " + hexList([][]byte{flat(rs)})},
					map[string]any{"want": cls, "got": got})
			}
		}
	}
	// ---- boundary: body lengths around bufio's 4096-byte buffer and the 16-bit maximum
	for _, n := range []int{4091, 4092, 4093, 4095, 4096, 4097, 8192, 65535} {
		for _, typ := range []uint16{5, 6, 9} {
			c.Count("stream:large-body")
			rs := []wrec{mk("x", typ, r.Bytes(n)), mk("ck", 5, r.Bytes(3)), mk("eom", 0x8000, nil)}
			segCheck(c, flat(rs), 3, 2, 2, "large body")
		}
	}
}

// ---------------------------------------------------------------- server message

func GenServerMsg(c *lib.Ctx) {
	r := c.Rand.Fork("srvmsg")
	// discover the cookie shape from the real code (an oracle input of the op line)
	prov := ntske.NewProvider()
	d := &ntske.Data{C2sKey: bytes.Repeat([]byte{1}, 32), S2cKey: bytes.Repeat([]byte{2}, 32)}
	msg, err := server.VerifC20NewNTSKEMsg(context.Background(), nolog, net.ParseIP("127.0.0.1"), 123, d, prov)
	if err != nil {
		c.Fail("c20:server-msg", "newNTSKEMsg failed", nil, map[string]any{"err": err.Error()})
		return
	}
	n, clen := 0, 0
	for _, rec := range msg.Record {
		if ck, ok := rec.(ntske.Cookie); ok {
			n++
			clen = len(ck.Cookie)
			// the cookie must open under the provider's key to the keys of the exchange
			var ec ntske.EncryptedServerCookie
			if err := ec.Decode(ck.Cookie); err == nil {
				if k, ok := prov.Get(int(ec.ID)); ok {
					if sc, err := ec.Decrypt(k.Value); err != nil || !bytes.Equal(sc.C2S, d.C2sKey) || !bytes.Equal(sc.S2C, d.S2cKey) {
						c.Fail("c20:server-cookie-keys", "a cookie of the server message does not carry the keys of the exchange", nil, nil)
					}
				}
			}
		}
	}
	if n != 8 {
		c.Fail("c20:server-msg", "server message does not carry 8 cookies", nil, map[string]any{"cookies": n})
	}
	ips := []string{"127.0.0.1", "10.1.2.3", "192.0.2.255", "::1", "2001:db8::1", "0.0.0.0"}
	for i := c.Scale(40, 300); i > 0; i-- {
		ip := ips[r.Intn(len(ips))]
		port := r.Pick64([]int64{0, 1, 123, 10123, 65535, 65536, 70000, int64(r.Intn(65536))})
		c.Count("srvmsg")
		c.Dof("srv.msg %s %d %d %d", hexOf(ip), port, n, clen)
	}
	for i := c.Scale(10, 60); i > 0; i-- {
		op := "e2e.fetch"
		if i%2 == 0 {
			op = "e2e.fetchq"
		}
		c.Count("e2e:real-server-real-fetcher:" + op)
		ans := c.Dof("%s %d %d", op, e2eNTPPort, clen)
		if !strings.Contains(ans, "keys=agree") || !strings.HasPrefix(ans, "ok ") {
			c.Fail("c20:key-agreement-real-server", "real fetcher against the real NTS-KE server: keys differ or exchange failed",
				[]string{fmt.Sprintf("%s %d %d", op, e2eNTPPort, clen)}, map[string]any{"answer": ans})
		}
	}
}
