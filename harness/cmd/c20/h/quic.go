package h

import (
	"context"
	"crypto/tls"
	"io"
	"net"
	"strings"
	"sync"
	"sync/atomic"
	"time"

	"github.com/scionproto/scion/pkg/addr"

	"example.com/scion-time/core/server"
	"example.com/scion-time/net/ntske"
	"example.com/scion-time/net/scion"
	"example.com/scion-time/net/udp"
)

// Scripted NTS-KE peer over QUIC on SCION (same AS, empty path, loopback).

type qpeer struct {
	ln      *scion.QUICListener
	ia      addr.IA
	port    int
	cert    tls.Certificate
	accepts atomic.Int64
	mu      sync.Mutex
	next    *script
	obs     chan observed
}

func newQPeer(host string) *qpeer {
	ia, err := addr.ParseIA("1-ff00:0:110")
	if err != nil {
		panic(err)
	}
	p := &qpeer{ia: ia, cert: selfSigned(), obs: make(chan observed, 16)}
	cfg := &tls.Config{
		MinVersion: tls.VersionTLS13,
		GetConfigForClient: func(*tls.ClientHelloInfo) (*tls.Config, error) {
			p.mu.Lock()
			sc := p.next
			p.mu.Unlock()
			var protos []string
			if sc != nil {
				protos = sc.alpn
			}
			return &tls.Config{Certificates: []tls.Certificate{p.cert}, MinVersion: tls.VersionTLS13, NextProtos: protos}, nil
		},
	}
	local := udp.UDPAddr{IA: ia, Host: &net.UDPAddr{IP: net.ParseIP(host).To4(), Port: 0}}
	ln, err := scion.ListenQUIC(context.Background(), local, cfg, nil)
	if err != nil {
		panic("listen quic: " + err.Error())
	}
	p.ln = ln
	p.port = ln.Addr().(udp.UDPAddr).Host.Port
	go p.loop()
	return p
}

func (p *qpeer) loop() {
	for {
		conn, err := p.ln.Accept(context.Background())
		if err != nil {
			return
		}
		p.accepts.Add(1)
		p.mu.Lock()
		sc := p.next
		p.next = nil
		p.mu.Unlock()
		var o observed
		func() {
			defer func() { p.obs <- o }()
			if sc == nil {
				conn.CloseWithError(1, "no script")
				return
			}
			o.handshake = true
			if a, ok := conn.RemoteAddr().(udp.UDPAddr); ok && a.Host != nil {
				o.client = a.Host.IP.String()
			}
			cs := conn.ConnectionState().TLS
			o.proto = cs.NegotiatedProtocol
			o.c2s, _ = cs.ExportKeyingMaterial(rfcExporterLabel, rfcC2S, 32)
			o.s2c, _ = cs.ExportKeyingMaterial(rfcExporterLabel, rfcS2C, 32)
			ctx, cancel := context.WithTimeout(context.Background(), 5*time.Second)
			defer cancel()
			stream, err := conn.AcceptStream(ctx)
			if err != nil {
				return
			}
			req := make([]byte, 16)
			stream.SetReadDeadline(time.Now().Add(5 * time.Second))
			n, _ := io.ReadFull(stream, req)
			o.req = req[:n]
			if n == 16 {
				for _, c := range sc.chunks {
					if len(c) == 0 {
						continue
					}
					if _, err := stream.Write(c); err != nil {
						break
					}
				}
			}
			if sc.abrupt {
				stream.CancelWrite(7)
			} else {
				stream.Close()
			}
			// the client closes the connection when it is done
			select {
			case <-conn.Context().Done():
			case <-time.After(5 * time.Second):
				conn.CloseWithError(2, "client did not close")
			}
		}()
	}
}

var theQPeers = map[string]*qpeer{}
var quicMode bool

func fNewQUIC(host string) string {
	curHost = loopbackHost(host)
	p := theQPeers[host]
	if p == nil {
		p = newQPeer(host)
		theQPeers[host] = p
	}
	fetcher = &ntske.Fetcher{}
	fetcher.Log = nolog
	fetcher.TLSConfig = tls.Config{InsecureSkipVerify: true, ServerName: host, MinVersion: tls.VersionTLS13}
	fetcher.QUIC.Enabled = true
	fetcher.QUIC.DaemonAddr = ""
	fetcher.QUIC.LocalAddr = udp.UDPAddr{IA: p.ia, Host: &net.UDPAddr{IP: net.ParseIP("127.0.0.1").To4()}}
	fetcher.QUIC.RemoteAddr = udp.UDPAddr{IA: p.ia, Host: &net.UDPAddr{IP: net.ParseIP(host).To4(), Port: p.port}}
	opIndex = 0
	exKeys = map[int][2][]byte{}
	quicMode = true
	cur = peerCtl{
		setNext: func(sc *script) { p.mu.Lock(); p.next = sc; p.mu.Unlock() },
		accepts: p.accepts.Load,
		obs:     p.obs,
	}
	return "ok"
}

func isQUICIOErr(s string) bool {
	return strings.Contains(s, "stream") && strings.Contains(s, "canceled") || strings.Contains(s, "timeout: no recent network activity") ||
		strings.Contains(s, "Application error")
}

// ---------------------------------------------------------------- real QUIC server

var (
	e2eQOnce     sync.Once
	e2eQPort     int
	e2eQProvider *ntske.Provider
	e2eQIA       addr.IA
)

func e2eFetcherQUIC() *ntske.Fetcher {
	e2eQOnce.Do(func() {
		ia, err := addr.ParseIA("1-ff00:0:111")
		if err != nil {
			panic(err)
		}
		e2eQIA = ia
		cert := selfSigned()
		local := udp.UDPAddr{IA: ia, Host: &net.UDPAddr{IP: net.ParseIP("127.0.0.1").To4(), Port: 0}}
		ln, err := scion.ListenQUIC(context.Background(), local, &tls.Config{
			Certificates: []tls.Certificate{cert}, MinVersion: tls.VersionTLS13, NextProtos: []string{"ntske/1"}}, nil)
		if err != nil {
			panic("listen quic: " + err.Error())
		}
		e2eQPort = ln.Addr().(udp.UDPAddr).Host.Port
		e2eQProvider = ntske.NewProvider()
		go server.VerifC20RunNTSKEServerQUIC(context.Background(), nolog, ln, e2eNTPPort, e2eQProvider)
	})
	f := &ntske.Fetcher{}
	f.Log = nolog
	f.TLSConfig = tls.Config{InsecureSkipVerify: true, ServerName: "127.0.0.1", MinVersion: tls.VersionTLS13}
	f.QUIC.Enabled = true
	f.QUIC.LocalAddr = udp.UDPAddr{IA: e2eQIA, Host: &net.UDPAddr{IP: net.ParseIP("127.0.0.1").To4()}}
	f.QUIC.RemoteAddr = udp.UDPAddr{IA: e2eQIA, Host: &net.UDPAddr{IP: net.ParseIP("127.0.0.1").To4(), Port: e2eQPort}}
	return f
}
