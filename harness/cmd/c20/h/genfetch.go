package h

import (
	"fmt"
	"net"
	"strings"
	"time"

	"example.com/scion-time/net/ntske"

	"verifharness/lib"
)

// stopOffset: number of bytes of flat(rs) the reader consumes before it returns (truthful
// records only), or -1 if it runs off the end.
func stopOffset(rs []wrec) int {
	off := 0
	for _, r := range rs {
		t := r.raw &^ 0x8000
		switch {
		case t == 0:
			return off + 4
		case t == 2:
			return off + 6
		case t != 1 && t != 4 && t != 5 && t != 6 && t != 7 && r.raw&0x8000 != 0:
			return off + 4
		}
		off += 4 + len(r.body)
	}
	return -1
}

// serverNames: server records that are no IP literal (host names, the empty name, zoned and
// bracketed literals, address with port, near-misses of dotted quads).
var serverNames = []string{
	"time.example.net", "localhost", "ntp1", "", "fe80::1%eth0", "127.0.0.1%lo", "127.0.0.1:123", "[::1]",
	" 10.0.0.1", "10.0.0.256", "10.0.0.1.", "10.0.1", "2130706433", "ntp.example.invalid.", "xn--nxasmq6b.example",
}

func poolTok(ans string) string {
	for _, f := range strings.Fields(ans) {
		if strings.HasPrefix(f, "pool=") {
			return f[5:]
		}
	}
	return ""
}

type fexp struct {
	pool   [][]byte
	srv    string
	port   uint16
	algo   uint16
	keyIdx int
}

// GenFetcher: the real Fetcher against the scripted TLS 1.3 peer; histories of failed and
// successful exchanges on one fetcher.
func GenFetcher(c *lib.Ctx) {
	// observation (not part of C20's statement; reported as candidate finding F19): a peer that
	// completes the handshake, sends part of its answer and then stays silent
	for i := 0; i < 2; i++ {
		c.Comment(fmt.Sprintf("history stalled-peer %d", i))
		c.Do("f.new host=127.0.0.2")
		b := flat(baseMsg(c.Rand.Fork("stall"), 2, true))
		c.Dof("f.fetch dial=1 alpn=%s host=%s stream=%s srvalpn=ntske/1 close=graceful drop=no hold=1500 ctxms=300",
			lib.Hex([]byte("ntske/1")), hexOf("127.0.0.2"), hexList([][]byte{b[:len(b)-5]}))
		if LastFetchElapsed > 1000*time.Millisecond {
			c.Count("observed:stalled-peer-blocks-FetchData-past-context-deadline")
		} else {
			c.Count("observed:stalled-peer-FetchData-returned-by-deadline")
		}
	}
	genSlow(c, c.Scale(8, 40))
	genFetcher(c, false, c.Scale(60, 500))
	genFetcher(c, true, c.Scale(25, 200))
}

func genFetcher(c *lib.Ctx, overQUIC bool, nh int) {
	r := c.Rand.Fork(fmt.Sprintf("fetcher-quic=%v", overQUIC))
	defPort := uint16(123)
	newOp, quicTok, tag := "f.new", "", "tls"
	if overQUIC {
		defPort = 10123
		newOp, quicTok, tag = "f.new quic", " quic=1", "quic"
	}
	for hi := 0; hi < nh; hi++ {
		// the key-exchange host: mostly an address other than the client's own source
		// address (127.0.0.1), so that "default server = key-exchange host" cannot be met by
		// the local end of the connection; some histories stay on 127.0.0.1
		host := []string{"127.0.0.2", "127.1.2.3", "127.0.0.2", "127.0.0.1"}[hi%4]
		c.Count("ke-host:" + host)
		c.Comment(fmt.Sprintf("history %s %d", tag, hi))
		var hist []string
		do := func(op string) string {
			hist = append(hist, op)
			return c.Do(op)
		}
		do(newOp + " host=" + host)
		var st fexp
		prevFailed := false
		idx := 0
		steps := 3 + r.Intn(8)
		// the pool as the implementation itself reported it last (f.new: empty)
		lastPool := "[]"
		forceFetch := 0
		for s := 0; s < steps; s++ {
			if forceFetch > 0 {
				forceFetch--
			} else if len(st.pool) > 0 && r.Chance(12) || r.Chance(3) {
				ck := r.Bytes(1 + r.Intn(20))
				c.Count("op:store")
				got := do("f.store " + lib.Hex(ck))
				st.pool = append(append([][]byte{}, st.pool...), ck)
				prevFailed = false
				if f := strings.Fields(got); len(f) == 2 && strings.HasPrefix(f[1], "pool=") {
					lastPool = f[1][5:]
				}
				if want := "ok pool=" + hexList(st.pool); got != want {
					c.Fail("c20:store-contract", "StoreCookie does not append to the pool", hist, map[string]any{"want": want, "got": got})
				}
				continue
			}
			idx++
			// ---- script for this call
			nck := 1 + r.Intn(8)
			rs := baseMsg(r, nck, true)
			// the NTP server the exchange names is network input of any shape (RFC 8915 allows a
			// host name): names that are no IP literal, with several cookies, followed by further
			// calls on the same fetcher. The fetcher hands the name on as it is; what a FetchData
			// does with it must not depend on whether an exchange took place in that very call.
			namedNonIP := false
			if len(st.pool) == 0 && r.Chance(40) {
				namedNonIP = true
				name := serverNames[r.Intn(len(serverNames))]
				if nck < 2 {
					nck = 2 + r.Intn(5)
					rs = baseMsg(r, nck, true)
				}
				replaced := false
				for i := range rs {
					if rs[i].kind == "sv" {
						rs[i] = mk("sv", rs[i].raw, []byte(name))
						replaced = true
					}
				}
				if !replaced {
					x := mk("sv", critBit(r, 6, 30), []byte(name))
					rs = append(rs[:2], append([]wrec{x}, rs[2:]...)...)
				}
				c.Count("script:server-name-not-an-ip-literal")
				if net.ParseIP(name) != nil {
					panic("serverNames: " + name + " is an IP literal")
				}
				// at least two further FetchData calls follow (no StoreCookie in between)
				forceFetch = 2
				if steps < s+3 {
					steps = s + 3
				}
			}
			alpn := "ntske/1"
			closeMode := "graceful"
			drop := "no"
			cut := -1
			kind := r.Intn(20)
			if overQUIC && kind >= 16 && kind <= 18 {
				kind = 8 + r.Intn(8) // dial failures are not scripted over QUIC
			}
			if len(st.pool) == 0 && prevFailed && r.Chance(50) {
				kind = 0 // retry that should succeed
			}
			if namedNonIP && r.Chance(70) {
				kind = 0
			}
			cookiesThenInsert := func(x wrec) {
				// after at least one cookie, before the end
				pos := len(rs) - 1
				first := -1
				for i, q := range rs {
					if q.kind == "ck" {
						first = i
						break
					}
				}
				if first >= 0 {
					pos = first + 1 + r.Intn(len(rs)-1-first)
				}
				rs = append(rs[:pos], append([]wrec{x}, rs[pos:]...)...)
			}
			switch kind {
			default:
				c.Count("script:good")
				if r.Chance(40) {
					pos := r.Intn(len(rs))
					x := mk("unk", uint16(r.Pick64([]int64{3, 8, 9, 0x4000, 0x7fff})), r.Bytes(r.Intn(12)))
					rs = append(rs[:pos], append([]wrec{x}, rs[pos:]...)...)
					c.Count("script:good+noncritical-unknown")
				}
				if r.Chance(25) {
					body := rs[:len(rs)-1]
					for i := len(body) - 1; i > 0; i-- {
						j := r.Intn(i + 1)
						body[i], body[j] = body[j], body[i]
					}
					c.Count("script:good+reordered")
				}
			case 8:
				c.Count("script:error-record-after-cookies")
				cookiesThenInsert(mk("err", 0x8002, u16b(uint16(r.Intn(4)))))
			case 9:
				c.Count("script:unknown-critical-after-cookies")
				cookiesThenInsert(mk("unk", uint16(r.Pick64([]int64{3, 8, 100, 0x7fff}))|0x8000, r.Bytes(r.Intn(5))))
			case 10:
				c.Count("script:truncated")
				b := flat(rs)
				cut = r.Intn(len(b))
				if r.Bool() {
					closeMode = "abrupt"
				}
			case 11:
				c.Count("script:truncated-after-cookie")
				b := flat(rs)
				cut = len(b) - 1 - r.Intn(4)
				if r.Bool() {
					closeMode = "abrupt"
				}
			case 12:
				c.Count("script:wrong-algorithm")
				for i := range rs {
					if rs[i].kind == "al" {
						rs[i].body = u16b(uint16(r.Pick64([]int64{0, 14, 16, 30, 0x0f00})))
					}
				}
			case 13:
				c.Count("script:no-algorithm")
				rs = append(rs[:1], rs[2:]...)
			case 14:
				c.Count("script:no-cookies")
				var q []wrec
				for _, x := range rs {
					if x.kind != "ck" {
						q = append(q, x)
					}
				}
				rs = q
			case 15:
				c.Count("script:no-end-of-message")
				rs = rs[:len(rs)-1]
			case 16:
				c.Count("script:no-alpn")
				alpn = "-"
			case 17:
				c.Count("script:other-alpn")
				alpn = []string{"h2", "h2,http/1.1", "ntske/2", "NTSKE/1"}[r.Intn(4)]
			case 18:
				c.Count("script:drop-before-handshake")
				drop = "pre"
			case 19:
				c.Count("script:alpn-list-with-ntske")
				alpn = "h2,ntske/1"
			}
			b := flat(rs)
			if cut >= 0 {
				b = b[:cut]
			}
			chunks := randomSeg(r, b)
			if r.Chance(25) {
				chunks = [][]byte{b}
			}
			var nz [][]byte
			for _, ch := range chunks {
				if len(ch) > 0 {
					nz = append(nz, ch)
				}
			}
			var srvalpn []string
			if alpn != "-" {
				srvalpn = strings.Split(alpn, ",")
			}
			dial, proto := expectTLS(srvalpn)
			if drop == "pre" {
				dial = false
			}
			dialTok, alpnTok := "0", "-"
			if dial {
				dialTok = "1"
				alpnTok = lib.Hex([]byte(proto))
			}
			op := fmt.Sprintf("f.fetch dial=%s alpn=%s host=%s stream=%s srvalpn=%s close=%s drop=%s%s",
				dialTok, alpnTok, hexOf(host), hexList(nz), alpn, closeMode, drop, quicTok)
			c.Count("transport:" + tag)
			// ---- the contract, evaluated from the script
			var want string
			wasEmpty := len(st.pool) == 0
			if !wasEmpty {
				c.Count("fetch:from-pool")
				d := ntske.Data{Server: st.srv, Port: st.port, Algo: st.algo, Cookie: st.pool}
				st.pool = st.pool[1:]
				keys := fmt.Sprintf("keys=ex%d", st.keyIdx)
				if st.keyIdx == 0 {
					keys = "keys=none" // cookie stored into a fetcher that never exchanged keys (not reachable from the clients)
					c.Count("fetch:stored-cookie-without-exchange")
				}
				want = fmt.Sprintf("ok exch=false %s %s pool=%s", fmtData(d), keys, hexList(st.pool))
			} else {
				ok, cls, srv, prt, algo, cks := expectRead(rs, host, defPort)
				if so := stopOffset(rs); cut >= 0 && (so < 0 || cut < so) {
					ok, cls = false, "read-io"
				}
				if cls == "eof" {
					cls = "read-io"
				}
				switch {
				case !dial:
					want = "err dial exch=true pool=[]"
				case proto != "ntske/1":
					want = "err no-ntske exch=true pool=[]"
				case !ok:
					want = "err " + cls + " exch=true pool=[]"
				case len(cks) == 0:
					want = "err no-cookies exch=true pool=[]"
				case algo != 15:
					want = "err unknown-algo exch=true pool=[]"
				default:
					st = fexp{pool: cks[1:], srv: srv, port: prt, algo: algo, keyIdx: idx}
					want = fmt.Sprintf("ok exch=true %s keys=ex%d pool=%s",
						fmtData(ntske.Data{Server: srv, Port: prt, Algo: algo, Cookie: cks}), idx, hexList(st.pool))
				}
			}
			got := do(op)
			if strings.HasPrefix(got, "harness-assumption-broken") {
				c.NotExecuted("scripted TLS peer: " + got)
				break
			}
			if strings.HasPrefix(got, "ok") {
				c.Count("fetch:ok")
			} else {
				cl := strings.Fields(got)[1]
				if strings.HasPrefix(cl, "critical:") {
					cl = "critical"
				}
				c.Count("fetch:err-" + cl)
			}
			if wasEmpty && strings.HasPrefix(got, "ok ") && strings.HasPrefix(want, "ok ") &&
				strings.Join(strings.Fields(got)[2:4], " ") != strings.Join(strings.Fields(want)[2:4], " ") {
				c.Fail("c20:ntp-server-chosen", "after a successful exchange NTP requests would not go to the server named in the exchange / by default the key-exchange host",
					hist, map[string]any{"got": strings.Join(strings.Fields(got)[2:4], " "), "want": strings.Join(strings.Fields(want)[2:4], " "), "key_exchange_host": host})
			} else if prevFailed && !strings.Contains(got, "exch=true") {
				// whatever made the previous FetchData fail (the exchange itself or anything
				// FetchData does around it): the attempt that follows opens a new connection
				c.Count("oracle:no-new-exchange-after-failure")
				c.Fail("c20:failed-exchange-leaves-state",
					"after a failed key exchange the next FetchData opened no new connection and handed out leftover data",
					hist, map[string]any{"got": got, "want": want})
			} else if got != want {
				c.Fail("c20:fetch-contract", "FetchData verdict / data / pool differ from the contract evaluated on the script",
					hist, map[string]any{"got": got, "want": want})
			}
			// a failed FetchData leaves the pool as it was (read off the implementation's own
			// answers; independent of the contract above and of the cause of the failure)
			if gp := poolTok(got); gp != "" {
				if strings.HasPrefix(got, "err") && gp != lastPool {
					c.Count("oracle:failed-fetch-changed-pool")
					c.Fail("c20:failed-fetch-leaves-state",
						"a FetchData that reported failure changed the cookie pool: something of the failed attempt is kept and would be used by a later request",
						hist, map[string]any{"got": got, "pool_before": lastPool, "pool_after": gp})
				}
				lastPool = gp
			}
			if prevFailed {
				c.Count("fetch:after-failed-fetch")
			}
			prevFailed = strings.HasPrefix(got, "err")
			if strings.HasPrefix(got, "panic") {
				break
			}
		}
	}
}

// genSlow: a slow key-exchange server and a caller with a deadline. The scripted TLS peer
// completes the handshake, reads the request and answers a complete, valid message only after
// `pre` ms; FetchData runs under a context that expires after `ctxms` ms - before the answer
// (the measurement's budget is shorter than the server's latency) or, as control, after it.
// Further calls against a prompt server follow once the late answer has been delivered.
// Oracles (on the implementation's own answers, whatever the verdict of the slow call is):
// a call that reported failure leaves the pool as it was; the call after a failed one on an
// empty pool performs a new exchange and hands out the keys and cookies of that exchange.
func genSlow(c *lib.Ctx, nh int) {
	r := c.Rand.Fork("fetcher-slow-server")
	for hi := 0; hi < nh; hi++ {
		host := []string{"127.0.0.2", "127.1.2.3", "127.0.0.1"}[hi%3]
		c.Comment(fmt.Sprintf("history slow-server %d", hi))
		var hist []string
		do := func(op string) string { hist = append(hist, op); return c.Do(op) }
		do("f.new host=" + host)
		lastPool := "[]"
		prevFailed := false
		steps := 3 + r.Intn(2)
		slowAt := r.Intn(2)
		for idx := 1; idx <= steps; idx++ {
			nck := 1 + r.Intn(4)
			if idx-1 < slowAt {
				nck = 1 // the pool is empty again when the slow server is asked
			}
			rs := baseMsg(r, nck, true)
			timing := ""
			if idx-1 == slowAt {
				ctx := int(r.Range(25, 60))
				pre := ctx + int(r.Range(80, 160))
				if hi%4 == 3 { // control: the answer arrives within the deadline
					pre, ctx = int(r.Range(5, 30)), 2000
					c.Count("slow-server:answer-within-deadline")
				} else {
					c.Count("slow-server:answer-after-deadline")
				}
				timing = fmt.Sprintf(" pre=%d ctxms=%d", pre, ctx)
			}
			wasEmpty := lastPool == "[]"
			op := fmt.Sprintf("f.fetch dial=1 alpn=%s host=%s stream=%s srvalpn=ntske/1 close=graceful drop=no%s",
				lib.Hex([]byte("ntske/1")), hexOf(host), hexList([][]byte{flat(rs)}), timing)
			got := do(op)
			if strings.HasPrefix(got, "harness-assumption-broken") {
				c.NotExecuted("scripted TLS peer: " + got)
				break
			}
			gp := poolTok(got)
			switch {
			case strings.HasPrefix(got, "err"):
				c.Count("slow-server:fetch-err")
				if gp != lastPool {
					c.Count("oracle:failed-fetch-changed-pool")
					c.Fail("c20:failed-fetch-leaves-state",
						"a FetchData that reported failure changed the cookie pool: something of the failed attempt is kept and would be used by a later request",
						hist, map[string]any{"got": got, "pool_before": lastPool, "pool_after": gp})
				}
			case strings.HasPrefix(got, "ok"):
				c.Count("slow-server:fetch-ok")
				if wasEmpty {
					// an empty pool: the data handed out is that of an exchange made in this call
					ok, _, srv, prt, algo, cks := expectRead(rs, host, 123)
					want := ""
					if ok && len(cks) > 0 {
						want = fmt.Sprintf("ok exch=true %s keys=ex%d pool=%s",
							fmtData(ntske.Data{Server: srv, Port: prt, Algo: algo, Cookie: cks}), idx, hexList(cks[1:]))
					}
					c.Count("oracle:empty-pool-fetch-is-a-new-exchange")
					if got != want {
						sig, what := "c20:fetch-contract", "FetchData on an empty pool did not hand out the keys and cookies of an exchange made in this call"
						if prevFailed {
							sig, what = "c20:failed-exchange-leaves-state", "after a FetchData that reported failure the next one did not perform a complete new exchange: it handed out data left behind by the failed attempt"
						}
						c.Fail(sig, what, hist, map[string]any{"got": got, "want": want})
					}
				}
			default:
				c.Fail("c20:fetch-contract", "FetchData neither returned data nor an error", hist, map[string]any{"got": got})
				return
			}
			if gp != "" {
				lastPool = gp
			}
			prevFailed = strings.HasPrefix(got, "err")
		}
	}
}
