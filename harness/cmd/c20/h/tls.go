package h

import (
	"bytes"
	"context"
	"crypto/ecdsa"
	"crypto/elliptic"
	"crypto/rand"
	"crypto/tls"
	"crypto/x509"
	"crypto/x509/pkix"
	"fmt"
	"io"
	"math/big"
	"net"
	"strconv"
	"strings"
	"sync"
	"sync/atomic"
	"time"

	"example.com/scion-time/core/server"
	"example.com/scion-time/net/ntske"
)

// RFC 8915 section 4.2 / 5.1, written here independently of the code under test.
const rfcExporterLabel = "EXPORTER-network-time-security"

var (
	rfcC2S = []byte{0x00, 0x00, 0x00, 0x0f, 0x00}
	rfcS2C = []byte{0x00, 0x00, 0x00, 0x0f, 0x01}
)

func selfSigned() tls.Certificate {
	key, err := ecdsa.GenerateKey(elliptic.P256(), rand.Reader)
	if err != nil {
		panic(err)
	}
	tmpl := &x509.Certificate{
		SerialNumber: big.NewInt(1),
		Subject:      pkix.Name{CommonName: "c20-scripted-peer"},
		NotBefore:    time.Now().Add(-time.Hour),
		NotAfter:     time.Now().Add(24 * time.Hour),
		KeyUsage:     x509.KeyUsageDigitalSignature,
		ExtKeyUsage:  []x509.ExtKeyUsage{x509.ExtKeyUsageServerAuth},
		IPAddresses:  []net.IP{net.ParseIP("127.0.0.1")},
	}
	der, err := x509.CreateCertificate(rand.Reader, tmpl, tmpl, &key.PublicKey, key)
	if err != nil {
		panic(err)
	}
	return tls.Certificate{Certificate: [][]byte{der}, PrivateKey: key}
}

// script: what the scripted peer does on its next connection.
type script struct {
	alpn    []string // protocols the server supports (nil: no ALPN extension in its reply)
	chunks  [][]byte // one conn.Write (= one TLS record = one client Read) each
	holdMs  int      // keep the connection open and silent this long after the last write
	preMs   int      // a slow server: wait this long after the request before the first write
	abrupt  bool     // close the TCP connection without close_notify
	dropPre bool     // close right after accept, before the handshake
}

type observed struct {
	handshake bool
	client    string // source address of the client's connection as the peer sees it
	proto     string
	c2s, s2c  []byte
	req       []byte
}

type peer struct {
	ln      net.Listener
	port    string
	cert    tls.Certificate
	accepts atomic.Int64
	mu      sync.Mutex
	next    *script
	obs     chan observed
}

func newPeer(host string) *peer {
	ln, err := net.Listen("tcp", net.JoinHostPort(host, "0"))
	if err != nil {
		panic("listen: " + err.Error())
	}
	_, port, _ := net.SplitHostPort(ln.Addr().String())
	p := &peer{ln: ln, port: port, cert: selfSigned(), obs: make(chan observed, 16)}
	go p.loop()
	return p
}

func (p *peer) loop() {
	for {
		conn, err := p.ln.Accept()
		if err != nil {
			return
		}
		p.accepts.Add(1)
		p.mu.Lock()
		sc := p.next
		p.next = nil
		p.mu.Unlock()
		p.handle(conn, sc)
	}
}

func (p *peer) handle(conn net.Conn, sc *script) {
	var o observed
	o.client, _, _ = net.SplitHostPort(conn.RemoteAddr().String())
	defer func() { p.obs <- o }()
	if sc == nil || sc.dropPre {
		conn.Close()
		return
	}
	cfg := &tls.Config{Certificates: []tls.Certificate{p.cert}, MinVersion: tls.VersionTLS13, NextProtos: sc.alpn}
	tc := tls.Server(conn, cfg)
	tc.SetDeadline(time.Now().Add(5 * time.Second))
	if err := tc.Handshake(); err != nil {
		conn.Close()
		return
	}
	o.handshake = true
	cs := tc.ConnectionState()
	o.proto = cs.NegotiatedProtocol
	o.c2s, _ = cs.ExportKeyingMaterial(rfcExporterLabel, rfcC2S, 32)
	o.s2c, _ = cs.ExportKeyingMaterial(rfcExporterLabel, rfcS2C, 32)
	// the client's request is 16 bytes (next protocol, AEAD, end); a client that gave up
	// after the handshake closes instead
	req := make([]byte, 16)
	n, _ := io.ReadFull(tc, req)
	o.req = req[:n]
	if n == 16 {
		if sc.preMs > 0 {
			time.Sleep(time.Duration(sc.preMs) * time.Millisecond)
		}
		for _, c := range sc.chunks {
			if len(c) == 0 {
				continue
			}
			if _, err := tc.Write(c); err != nil {
				break
			}
		}
	}
	if sc.holdMs > 0 {
		time.Sleep(time.Duration(sc.holdMs) * time.Millisecond)
	}
	if sc.abrupt {
		conn.Close()
	} else {
		tc.Close()
	}
}

// ---------------------------------------------------------------- fetcher ops

// peerCtl: what fFetch needs from the scripted peer (TLS or QUIC).
type peerCtl struct {
	setNext func(*script)
	accepts func() int64
	obs     chan observed
}

var cur peerCtl

// LastFetchElapsed: wall time of the last FetchData call (observation only, never part of an answer).
var LastFetchElapsed time.Duration

var (
	thePeers = map[string]*peer{} // scripted TLS peers by listening address
	curHost  = "127.0.0.1"        // key-exchange host of the current fetcher
	// PeerSawOtherSource counts exchanges in which the client's source address differed
	// from the key-exchange host (so that "default server = key-exchange host" is not
	// satisfied by the local address of the connection).
	PeerSawOtherSource int
	fetcher            *ntske.Fetcher
	opIndex            int
	exKeys             map[int][2][]byte // f.fetch ordinal -> keys exported by the peer in that exchange
	lastObs            observed
	lastExch           bool
)

// loopbackHost: the scripted peers listen on addresses of 127.0.0.0/8 (all local on Linux);
// a client connecting to one other than 127.0.0.1 still has source address 127.0.0.1.
func loopbackHost(host string) string {
	ip := net.ParseIP(host).To4()
	if ip == nil || ip[0] != 127 || ip.String() != host {
		panic("bad-op")
	}
	return host
}

func fNew(host string) string {
	curHost = loopbackHost(host)
	thePeer := thePeers[host]
	if thePeer == nil {
		thePeer = newPeer(host)
		thePeers[host] = thePeer
	}
	fetcher = &ntske.Fetcher{}
	fetcher.Log = nolog
	fetcher.TLSConfig = tls.Config{InsecureSkipVerify: true, ServerName: host, MinVersion: tls.VersionTLS13}
	fetcher.Port = thePeer.port
	opIndex = 0
	exKeys = map[int][2][]byte{}
	quicMode = false
	p := thePeer
	cur = peerCtl{
		setNext: func(sc *script) { p.mu.Lock(); p.next = sc; p.mu.Unlock() },
		accepts: p.accepts.Load,
		obs:     p.obs,
	}
	return "ok"
}

func keysTag(d ntske.Data) string {
	if len(d.C2sKey) == 0 && len(d.S2cKey) == 0 {
		return "keys=none"
	}
	best := -1
	for k, v := range exKeys {
		if len(v[0]) == 32 && bytes.Equal(v[0], d.C2sKey) && bytes.Equal(v[1], d.S2cKey) && k > best {
			best = k
		}
	}
	if best >= 0 {
		return "keys=ex" + strconv.Itoa(best)
	}
	return "keys=other"
}

// expectTLS: what the TLS layer yields for a server supporting the given protocols when the
// client offers only ntske/1 (crypto/tls: no server list -> no protocol; no overlap -> fatal
// alert no_application_protocol).
func expectTLS(alpn []string) (dial bool, proto string) {
	if len(alpn) == 0 {
		return true, ""
	}
	for _, a := range alpn {
		if a == "ntske/1" {
			return true, a
		}
	}
	return false, ""
}

func fetchErrClass(err error) string {
	s := err.Error()
	switch {
	case s == "server does not support ntske/1":
		return "no-ntske"
	case s == "unexpected NTS-KE meta data: no cookies":
		return "no-cookies"
	case s == "unexpected NTS-KE meta data: unknown algorithm":
		return "unknown-algo"
	case strings.Contains(s, "no application protocol"), strings.Contains(s, "connection refused"),
		strings.Contains(s, "dial tcp"):
		return "dial"
	}
	c := readErrClass(err)
	if c == "eof" || c == "unexpected-eof" || strings.Contains(s, "i/o timeout") || (strings.HasPrefix(c, "other:read_tcp") && strings.Contains(c, "connection_reset")) ||
		(quicMode && isQUICIOErr(s)) {
		return "read-io"
	}
	return c
}

func fFetch(t []string) string {
	if fetcher == nil {
		fNew("127.0.0.1")
	}
	opIndex++
	sc := &script{}
	if v, ok := kv(t, "srvalpn"); ok && v != "-" {
		sc.alpn = strings.Split(v, ",")
	}
	if v, ok := kv(t, "stream"); ok {
		sc.chunks = parseHexList(v)
	} else {
		panic("bad-op")
	}
	if v, ok := kv(t, "close"); ok {
		sc.abrupt = v == "abrupt"
	}
	if v, ok := kv(t, "drop"); ok {
		sc.dropPre = v == "pre"
	}
	ctxMs := 10000
	if v, ok := kv(t, "hold"); ok {
		sc.holdMs = atoi(v)
	}
	if v, ok := kv(t, "ctxms"); ok {
		ctxMs = atoi(v)
	}
	if v, ok := kv(t, "pre"); ok {
		if quicMode {
			panic("bad-op") // slow servers are scripted over TLS only
		}
		sc.preMs = atoi(v)
	}
	// the TLS-level inputs of the model are derived from the script; check them
	wantDial, wantProto := expectTLS(sc.alpn)
	if sc.dropPre {
		wantDial = false
	}
	if q, _ := kv(t, "quic"); (q == "1") != quicMode || (quicMode && (!wantDial || wantProto == "" || sc.dropPre)) {
		panic("bad-op") // dial failures are not scripted over QUIC
	}
	dialTok, _ := kv(t, "dial")
	alpnTok, _ := kv(t, "alpn")
	hostTok, _ := kv(t, "host")
	if dialTok == "" || alpnTok == "" || parseBool(dialTok) != wantDial || hostTok != hexOf(curHost) ||
		(wantDial && string(parseHex(alpnTok)) != wantProto) {
		panic("bad-op")
	}

	p := cur
	p.setNext(sc)
	before := p.accepts()
	ctx, cancel := context.WithTimeout(context.Background(), time.Duration(ctxMs)*time.Millisecond)
	t0 := time.Now()
	data, err := fetcher.FetchData(ctx)
	LastFetchElapsed = time.Since(t0)
	cancel()
	exch := false
	// a connection attempt that reached the listener is accepted at the latest now
	deadline := time.Now().Add(200 * time.Millisecond)
	for p.accepts() == before && err != nil && time.Now().Before(deadline) {
		time.Sleep(time.Millisecond)
	}
	if p.accepts() != before {
		exch = true
		select {
		case o := <-p.obs:
			lastObs = o
			if o.client != "" && o.client != curHost {
				PeerSawOtherSource++
			}
			if o.handshake {
				exKeys[opIndex] = [2][]byte{o.c2s, o.s2c}
				if o.proto != wantProto {
					return "harness-assumption-broken negotiated=" + o.proto
				}
			} else if wantDial {
				return "harness-assumption-broken handshake-failed"
			}
		case <-time.After(10 * time.Second):
			return "harness-assumption-broken peer-stuck"
		}
	} else {
		p.setNext(nil)
	}
	lastExch = exch
	if err != nil && exch && sc.preMs > 0 {
		// the call gave up on a slow server whose complete answer has been written by now:
		// let the late answer arrive before the state is read
		time.Sleep(40 * time.Millisecond)
	}
	pool := hexList(fetcher.VerifC20Data().Cookie)
	if err != nil {
		cls := fetchErrClass(err)
		if exch && !lastObs.handshake {
			// the peer never completed the handshake: whatever the text, the dial failed
			cls = "dial"
		}
		return fmt.Sprintf("err %s exch=%v pool=%s", cls, exch, pool)
	}
	return fmt.Sprintf("ok exch=%v %s %s pool=%s", exch, fmtData(data), keysTag(data), pool)
}

func hexOf(s string) string { return fmt.Sprintf("%x", s) }

func fStore(c []byte) string {
	if fetcher == nil {
		fNew("127.0.0.1")
	}
	fetcher.StoreCookie(c)
	return "ok pool=" + hexList(fetcher.VerifC20Data().Cookie)
}

func fState() string {
	if fetcher == nil {
		fNew("127.0.0.1")
	}
	d := fetcher.VerifC20Data()
	return "ok " + fmtData(d) + " " + keysTag(d)
}

// ---------------------------------------------------------------- real server, real fetcher

var (
	e2eOnce     sync.Once
	e2ePort     string
	e2eProvider *ntske.Provider
)

const e2eNTPPort = 45123

// e2eFetch runs the real Fetcher against the real NTS-KE server (TLS accept loop,
// handleKeyExchangeTLS, newNTSKEMsg) on loopback; the cookies are opened with the
// server's key to observe the keys the server holds.
func e2eFetch(ntpPort, clen int, overQUIC bool) string {
	if ntpPort != e2eNTPPort {
		panic("bad-op")
	}
	if overQUIC {
		return e2eCheck(e2eFetcherQUIC(), e2eQProvider, clen)
	}
	e2eOnce.Do(func() {
		cert := selfSigned()
		ln, err := tls.Listen("tcp", "127.0.0.1:0", &tls.Config{
			Certificates: []tls.Certificate{cert}, MinVersion: tls.VersionTLS13, NextProtos: []string{"ntske/1"}})
		if err != nil {
			panic("listen: " + err.Error())
		}
		_, e2ePort, _ = net.SplitHostPort(ln.Addr().String())
		e2eProvider = ntske.NewProvider()
		go server.VerifC20RunNTSKEServerTLS(context.Background(), nolog, ln, e2eNTPPort, e2eProvider)
	})
	f := &ntske.Fetcher{}
	f.Log = nolog
	f.TLSConfig = tls.Config{InsecureSkipVerify: true, ServerName: "127.0.0.1", MinVersion: tls.VersionTLS13}
	f.Port = e2ePort
	return e2eCheck(f, e2eProvider, clen)
}

func e2eCheck(f *ntske.Fetcher, prov *ntske.Provider, clen int) string {
	ctx, cancel := context.WithTimeout(context.Background(), 10*time.Second)
	defer cancel()
	d, err := f.FetchData(ctx)
	if err != nil {
		return "err " + fetchErrClass(err)
	}
	agree := "keys=agree"
	for _, c := range d.Cookie {
		if len(c) != clen {
			return fmt.Sprintf("ok-shape cookie-length=%d", len(c))
		}
		var ec ntske.EncryptedServerCookie
		if err := ec.Decode(c); err != nil {
			agree = "keys=cookie-undecodable"
			break
		}
		k, ok := prov.Get(int(ec.ID))
		if !ok {
			agree = "keys=cookie-key-unknown"
			break
		}
		sc, err := ec.Decrypt(k.Value)
		if err != nil {
			agree = "keys=cookie-unopenable"
			break
		}
		if len(d.C2sKey) != 32 || !bytes.Equal(sc.C2S, d.C2sKey) || !bytes.Equal(sc.S2C, d.S2cKey) || sc.Algo != 15 {
			agree = "keys=differ"
			break
		}
	}
	return fmt.Sprintf("ok srv=%s port=%d algo=%d nck=%d %s pool=%d", hexOf(d.Server), d.Port, d.Algo, len(d.Cookie), agree,
		len(f.VerifC20Data().Cookie))
}
