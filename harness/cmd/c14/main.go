// c14: correspondence + direct oracle for the fixed-layout wire codecs: the NTP header
// (net/ntp: EncodePacket, DecodePacket, LVM accessors and setters, ValidateResponseMetadata)
// and CSPTP (net/csptp: message header, request and response TLVs at both declared lengths).
// Encodings are compared byte for byte with the Lean model's (not only round trips), so a
// consistent change of encoder and decoder is seen.  The NTS extension-field, cookie and
// NTS-KE codecs are commands c14nts / c14ntske.
package main

import (
	"encoding/hex"
	"fmt"
	"strconv"
	"strings"

	"example.com/scion-time/net/csptp"
	"example.com/scion-time/net/ntp"

	"verifharness/lib"
)

// ---------------------------------------------------------------- field descriptions

type fld struct {
	bits   int
	signed bool
}

func u(b int) fld { return fld{b, false} }
func s(b int) fld { return fld{b, true} }

var (
	ntpF  = []fld{u(8), u(8), s(8), s(8), u(16), u(16), u(16), u(16), u(32), u(32), u(32), u(32), u(32), u(32), u(32), u(32), u(32)}
	msgF  = []fld{u(8), u(8), u(16), u(8), u(8), u(16), s(64), u(32), u(64), u(16), u(16), u(8), s(8), u(48), u(32)}
	reqF  = []fld{u(16), u(16), u(24), u(24), u(32)}
	respF = []fld{u(16), u(16), u(24), u(24), u(32), u(16), u(48), u(32), s(64), s(16), u(8), u(8), u(8), u(16), u(8), u(64), u(16), u(8), u(8)}
)

func mask(bits int) uint64 {
	if bits == 64 {
		return ^uint64(0)
	}
	return 1<<bits - 1
}

// raw values are the unsigned bit patterns; signed fields print sign-extended
func (f fld) format(raw uint64) string {
	raw &= mask(f.bits)
	if f.signed {
		v := int64(raw<<(64-f.bits)) >> (64 - f.bits)
		return strconv.FormatInt(v, 10)
	}
	return strconv.FormatUint(raw, 10)
}

func (f fld) parse(tok string) uint64 {
	if f.signed {
		v, err := strconv.ParseInt(tok, 10, 64)
		if err != nil {
			panic("bad-op")
		}
		lo, hi := -(int64(1) << (f.bits - 1)), int64(1)<<(f.bits-1)-1
		if f.bits < 64 && (v < lo || v > hi) {
			panic("bad-op")
		}
		return uint64(v) & mask(f.bits)
	}
	v, err := strconv.ParseUint(tok, 10, 64)
	if err != nil || v > mask(f.bits) {
		panic("bad-op")
	}
	return v
}

func formatAll(fs []fld, raw []uint64) string {
	var sb strings.Builder
	for i, f := range fs {
		if i > 0 {
			sb.WriteByte(' ')
		}
		sb.WriteString(f.format(raw[i]))
	}
	return sb.String()
}

func parseAll(fs []fld, toks []string) []uint64 {
	if len(toks) != len(fs) {
		panic("bad-op")
	}
	out := make([]uint64, len(fs))
	for i, f := range fs {
		out[i] = f.parse(toks[i])
	}
	return out
}

// ---------------------------------------------------------------- Go values <-> raw vectors

func ntpOf(v []uint64) ntp.Packet {
	return ntp.Packet{
		LVM: uint8(v[0]), Stratum: uint8(v[1]), Poll: int8(v[2]), Precision: int8(v[3]),
		RootDelay:      ntp.Time32{Seconds: uint16(v[4]), Fraction: uint16(v[5])},
		RootDispersion: ntp.Time32{Seconds: uint16(v[6]), Fraction: uint16(v[7])},
		ReferenceID:    uint32(v[8]),
		ReferenceTime:  ntp.Time64{Seconds: uint32(v[9]), Fraction: uint32(v[10])},
		OriginTime:     ntp.Time64{Seconds: uint32(v[11]), Fraction: uint32(v[12])},
		ReceiveTime:    ntp.Time64{Seconds: uint32(v[13]), Fraction: uint32(v[14])},
		TransmitTime:   ntp.Time64{Seconds: uint32(v[15]), Fraction: uint32(v[16])},
	}
}

func ntpTo(p *ntp.Packet) []uint64 {
	return []uint64{uint64(p.LVM), uint64(p.Stratum), uint64(uint8(p.Poll)), uint64(uint8(p.Precision)),
		uint64(p.RootDelay.Seconds), uint64(p.RootDelay.Fraction), uint64(p.RootDispersion.Seconds), uint64(p.RootDispersion.Fraction),
		uint64(p.ReferenceID), uint64(p.ReferenceTime.Seconds), uint64(p.ReferenceTime.Fraction),
		uint64(p.OriginTime.Seconds), uint64(p.OriginTime.Fraction), uint64(p.ReceiveTime.Seconds), uint64(p.ReceiveTime.Fraction),
		uint64(p.TransmitTime.Seconds), uint64(p.TransmitTime.Fraction)}
}

func sec6(v uint64) [6]uint8 {
	return [6]uint8{uint8(v >> 40), uint8(v >> 32), uint8(v >> 24), uint8(v >> 16), uint8(v >> 8), uint8(v)}
}
func unsec6(a [6]uint8) uint64 {
	return uint64(a[0])<<40 | uint64(a[1])<<32 | uint64(a[2])<<24 | uint64(a[3])<<16 | uint64(a[4])<<8 | uint64(a[5])
}
func b3(v uint64) [3]uint8   { return [3]uint8{uint8(v >> 16), uint8(v >> 8), uint8(v)} }
func unb3(a [3]uint8) uint64 { return uint64(a[0])<<16 | uint64(a[1])<<8 | uint64(a[2]) }

func msgOf(v []uint64) csptp.Message {
	return csptp.Message{
		SdoIDMessageType: uint8(v[0]), PTPVersion: uint8(v[1]), MessageLength: uint16(v[2]), DomainNumber: uint8(v[3]),
		MinorSdoID: uint8(v[4]), FlagField: uint16(v[5]), CorrectionField: int64(v[6]), MessageTypeSpecific: uint32(v[7]),
		SourcePortIdentity: csptp.PortID{ClockID: v[8], Port: uint16(v[9])}, SequenceID: uint16(v[10]),
		ControlField: uint8(v[11]), LogMessageInterval: int8(v[12]),
		Timestamp: csptp.Timestamp{Seconds: sec6(v[13]), Nanoseconds: uint32(v[14])},
	}
}

func msgTo(m *csptp.Message) []uint64 {
	return []uint64{uint64(m.SdoIDMessageType), uint64(m.PTPVersion), uint64(m.MessageLength), uint64(m.DomainNumber),
		uint64(m.MinorSdoID), uint64(m.FlagField), uint64(m.CorrectionField), uint64(m.MessageTypeSpecific),
		m.SourcePortIdentity.ClockID, uint64(m.SourcePortIdentity.Port), uint64(m.SequenceID), uint64(m.ControlField),
		uint64(uint8(m.LogMessageInterval)), unsec6(m.Timestamp.Seconds), uint64(m.Timestamp.Nanoseconds)}
}

func reqOf(v []uint64) csptp.RequestTLV {
	return csptp.RequestTLV{Type: uint16(v[0]), Length: uint16(v[1]), OrganizationID: b3(v[2]),
		OrganizationSubType: b3(v[3]), FlagField: uint32(v[4])}
}

func reqTo(t *csptp.RequestTLV) []uint64 {
	return []uint64{uint64(t.Type), uint64(t.Length), unb3(t.OrganizationID), unb3(t.OrganizationSubType), uint64(t.FlagField)}
}

func respOf(v []uint64) csptp.ResponseTLV {
	return csptp.ResponseTLV{Type: uint16(v[0]), Length: uint16(v[1]), OrganizationID: b3(v[2]),
		OrganizationSubType: b3(v[3]), FlagField: uint32(v[4]), Error: uint16(v[5]),
		RequestIngressTimestamp: csptp.Timestamp{Seconds: sec6(v[6]), Nanoseconds: uint32(v[7])},
		RequestCorrectionField:  int64(v[8]), UTCOffset: int16(v[9]),
		ServerStateDS: csptp.ServerStateDS{GMPriority1: uint8(v[10]), GMClockClass: uint8(v[11]), GMClockAccuracy: uint8(v[12]),
			GMClockVariance: uint16(v[13]), GMPriority2: uint8(v[14]), GMClockID: v[15], StepsRemoved: uint16(v[16]),
			TimeSource: uint8(v[17]), Reserved: uint8(v[18])},
	}
}

func respTo(t *csptp.ResponseTLV) []uint64 {
	d := t.ServerStateDS
	return []uint64{uint64(t.Type), uint64(t.Length), unb3(t.OrganizationID), unb3(t.OrganizationSubType), uint64(t.FlagField),
		uint64(t.Error), unsec6(t.RequestIngressTimestamp.Seconds), uint64(t.RequestIngressTimestamp.Nanoseconds),
		uint64(t.RequestCorrectionField), uint64(uint16(t.UTCOffset)),
		uint64(d.GMPriority1), uint64(d.GMClockClass), uint64(d.GMClockAccuracy), uint64(d.GMClockVariance), uint64(d.GMPriority2),
		d.GMClockID, uint64(d.StepsRemoved), uint64(d.TimeSource), uint64(d.Reserved)}
}

// ---------------------------------------------------------------- exec

func unhex(t string) []byte {
	if t == "-" {
		return []byte{}
	}
	b, err := hex.DecodeString(t)
	if err != nil {
		panic("bad-op")
	}
	return b
}

func u8(t string) uint8 {
	v, err := strconv.ParseUint(t, 10, 8)
	if err != nil {
		panic("bad-op")
	}
	return uint8(v)
}

func exec(t []string) string {
	switch t[0] {
	case "ntp.enc":
		p := ntpOf(parseAll(ntpF, t[1:]))
		// the result must not depend on the buffer handed in: nil, too small, exact, large dirty
		var b0 []byte
		ntp.EncodePacket(&b0, &p)
		for _, b := range [][]byte{make([]byte, 0, 10), make([]byte, 7, 48), filled(2048, 0xaa)[:100], filled(48, 0x55)[:0]} {
			ntp.EncodePacket(&b, &p)
			if hex.EncodeToString(b) != hex.EncodeToString(b0) {
				return "err buffer-dependent"
			}
		}
		return "ok " + lib.Hex(b0)
	case "ntp.dec":
		if len(t) != 2 {
			return "bad-op"
		}
		var p ntp.Packet
		if err := ntp.DecodePacket(&p, unhex(t[1])); err != nil {
			return "err size"
		}
		return "ok " + formatAll(ntpF, ntpTo(&p))
	case "ntp.get":
		if len(t) != 2 {
			return "bad-op"
		}
		p := ntp.Packet{LVM: u8(t[1])}
		return fmt.Sprintf("ok %d %d %d", p.LeapIndicator(), p.Version(), p.Mode())
	case "ntp.setli", "ntp.setvn", "ntp.setmode":
		if len(t) != 3 {
			return "bad-op"
		}
		p := ntp.Packet{LVM: u8(t[1]), Stratum: 7}
		a := u8(t[2])
		switch t[0] {
		case "ntp.setli":
			p.SetLeapIndicator(a)
		case "ntp.setvn":
			p.SetVersion(a)
		default:
			p.SetMode(a)
		}
		if p.Stratum != 7 {
			return "err other-field-changed"
		}
		return fmt.Sprintf("ok %d", p.LVM)
	case "ntp.vresp":
		if len(t) != 3 {
			return "bad-op"
		}
		p := ntp.Packet{LVM: u8(t[1]), Stratum: u8(t[2])}
		return "ok " + lib.Bool(ntp.ValidateResponseMetadata(&p) == nil)
	case "msg.enc":
		if len(t) < 2 {
			return "bad-op"
		}
		b := unhex(t[1])
		m := msgOf(parseAll(msgF, t[2:]))
		csptp.EncodeMessage(b, &m)
		return "ok " + lib.Hex(b)
	case "msg.dec":
		if len(t) != 2 {
			return "bad-op"
		}
		var m csptp.Message
		if err := csptp.DecodeMessage(&m, unhex(t[1])); err != nil {
			return "err size"
		}
		return "ok " + formatAll(msgF, msgTo(&m))
	case "req.len":
		if len(t) != 2 {
			return "bad-op"
		}
		return fmt.Sprintf("ok %d", csptp.EncodedRequestTLVLength(&csptp.RequestTLV{FlagField: uint32(u(32).parse(t[1]))}))
	case "resp.len":
		if len(t) != 2 {
			return "bad-op"
		}
		return fmt.Sprintf("ok %d", csptp.EncodedResponseTLVLength(&csptp.ResponseTLV{FlagField: uint32(u(32).parse(t[1]))}))
	case "req.enc":
		if len(t) < 2 {
			return "bad-op"
		}
		b := unhex(t[1])
		x := reqOf(parseAll(reqF, t[2:]))
		csptp.EncodeRequestTLV(b, &x)
		return "ok " + lib.Hex(b)
	case "req.dec":
		if len(t) != 2 {
			return "bad-op"
		}
		// decode into a dirty value: every field the decoder reports must come from the bytes
		x := reqOf([]uint64{0xdead, 0xbeef, 0xabcdef, 0x123456, 0xfefefefe})
		if err := csptp.DecodeRequestTLV(&x, unhex(t[1])); err != nil {
			return "err size"
		}
		return "ok " + formatAll(reqF, reqTo(&x))
	case "resp.enc":
		if len(t) < 2 {
			return "bad-op"
		}
		b := unhex(t[1])
		x := respOf(parseAll(respF, t[2:]))
		csptp.EncodeResponseTLV(b, &x)
		return "ok " + lib.Hex(b)
	case "resp.dec":
		if len(t) != 2 {
			return "bad-op"
		}
		dirty := make([]uint64, len(respF))
		for i := range dirty {
			dirty[i] = 0x5a5a5a5a5a5a5a5a & mask(respF[i].bits)
		}
		x := respOf(dirty)
		if err := csptp.DecodeResponseTLV(&x, unhex(t[1])); err != nil {
			return "err size"
		}
		return "ok " + formatAll(respF, respTo(&x))
	}
	return "bad-op"
}

func filled(n int, v byte) []byte {
	b := make([]byte, n)
	for i := range b {
		b[i] = v
	}
	return b
}

// ---------------------------------------------------------------- value generators

func interesting(bits int) []uint64 {
	m := mask(bits)
	out := []uint64{0, 1, 2, m, m - 1, m >> 1, m>>1 + 1, 0x0102030405060708 & m, 0xf1e2d3c4b5a69788 & m, 0x8000000000000001 & m}
	for k := 8; k < bits; k += 8 {
		p := uint64(1) << k
		out = append(out, p-1, p, p+1, 0xff<<(k-8), 0xff<<k&m)
	}
	return out
}

func randVal(r *lib.Rand, f fld) uint64 {
	switch r.Intn(10) {
	case 0, 1:
		xs := interesting(f.bits)
		return xs[r.Intn(len(xs))]
	case 2:
		return r.U64() & mask(f.bits) & 0xff // small
	}
	return r.U64() & mask(f.bits)
}

func randVec(r *lib.Rand, fs []fld) []uint64 {
	v := make([]uint64, len(fs))
	for i, f := range fs {
		v[i] = randVal(r, f)
	}
	return v
}

// fieldSweep calls f with vectors in which one field takes every value of a complete (8-bit)
// or dense (16-bit) or boundary (wider) set while the others are random.
func fieldSweep(c *lib.Ctx, name string, fs []fld, each func(v []uint64)) {
	r := c.Rand
	for i, f := range fs {
		var vals []uint64
		switch {
		case f.bits == 8:
			for x := 0; x < 256; x++ {
				vals = append(vals, uint64(x))
			}
			c.Count(name + ":sweep8-exhaustive")
		case f.bits == 16 && c.Thorough():
			for x := 0; x < 65536; x++ {
				vals = append(vals, uint64(x))
			}
			c.Count(name + ":sweep16-exhaustive")
		case f.bits == 16:
			for x := 0; x < 65536; x += 61 {
				vals = append(vals, uint64(x))
			}
			vals = append(vals, interesting(16)...)
			c.Count(name + ":sweep16-dense")
		default:
			vals = interesting(f.bits)
			for k := 0; k < c.Scale(40, 2000); k++ {
				vals = append(vals, r.U64()&mask(f.bits))
			}
			c.Count(name + ":sweep-wide")
		}
		for _, x := range vals {
			v := randVec(r, fs)
			v[i] = x
			each(v)
		}
	}
}

// ---------------------------------------------------------------- direct oracles

func fail(c *lib.Ctx, sig, what string, ops []string, detail map[string]any) {
	c.Fail("C14:"+sig, what, ops, detail)
}

// ntpRoundTrip: encode, decode, compare; first byte against the accessors.
func ntpRoundTrip(c *lib.Ctx, v []uint64) {
	op1 := "ntp.enc " + formatAll(ntpF, v)
	a1 := c.Do(op1)
	if !strings.HasPrefix(a1, "ok ") {
		fail(c, "ntp:encode", "EncodePacket did not produce bytes", []string{op1}, map[string]any{"got": a1})
		return
	}
	hx := a1[3:]
	op2 := "ntp.dec " + hx
	a2 := c.Do(op2)
	if a2 != "ok "+formatAll(ntpF, v) {
		fail(c, "ntp:roundtrip", "DecodePacket(EncodePacket(p)) != p", []string{op1, op2}, map[string]any{"got": a2})
	}
	if len(hx) != 96 {
		fail(c, "ntp:length", "EncodePacket did not produce 48 bytes", []string{op1}, map[string]any{"len": len(hx) / 2})
		return
	}
	b0, _ := strconv.ParseUint(hx[:2], 16, 8)
	op3 := fmt.Sprintf("ntp.get %d", v[0])
	xs, _ := lib.Ints(c.Do(op3))
	if len(xs) != 3 || uint64(xs[0])*64+uint64(xs[1])*8+uint64(xs[2]) != b0 || b0 != v[0] {
		fail(c, "ntp:accessors", "leap/version/mode accessors do not agree with the first encoded byte", []string{op1, op3}, map[string]any{"first_byte": b0})
	}
}

func csptpEnc(c *lib.Ctx, kind string, fs []fld, v []uint64, need int) {
	r := c.Rand
	buf := r.Bytes(need + r.Intn(4)*r.Intn(12))
	op1 := fmt.Sprintf("%s.enc %s %s", kind, lib.Hex(buf), formatAll(fs, v))
	a1 := c.Do(op1)
	if !strings.HasPrefix(a1, "ok ") {
		fail(c, kind+":encode", "encoder failed on a buffer of the declared length", []string{op1}, map[string]any{"got": a1})
		return
	}
	out := unhex(a1[3:])
	if len(out) != len(buf) || hex.EncodeToString(out[need:]) != hex.EncodeToString(buf[need:]) {
		fail(c, kind+":encode:tail", "encoder changed bytes beyond the declared length", []string{op1}, nil)
	}
	op2 := fmt.Sprintf("%s.dec %s", kind, lib.Hex(out))
	a2 := c.Do(op2)
	want := append([]uint64{}, v...)
	if kind == "resp" && v[4]&1 == 0 {
		for i := 10; i < len(want); i++ {
			want[i] = 0 // ServerStateDS is not transmitted without the flag
		}
		c.Count("resp:roundtrip:ds-dropped")
	}
	if a2 != "ok "+formatAll(fs, want) {
		fail(c, kind+":roundtrip", "decode(encode(x)) != x", []string{op1, op2}, map[string]any{"got": a2, "want": formatAll(fs, want)})
	}
	c.Count(fmt.Sprintf("%s:roundtrip:len%d", kind, need))
	// exact length (no slack) as well, now and then
	if r.Chance(20) {
		c.Do(fmt.Sprintf("%s.enc %s %s", kind, lib.Hex(buf[:need]), formatAll(fs, v)))
	}
}

func tlvLen(flags uint64) int {
	if flags&1 == 1 {
		return 54
	}
	return 36
}

// reencode: decode arbitrary bytes, encode the result over the same bytes.
func reencode(c *lib.Ctx, kind string, b []byte) {
	op1 := fmt.Sprintf("%s.dec %s", kind, lib.Hex(b))
	a1 := c.Do(op1)
	if !strings.HasPrefix(a1, "ok ") {
		c.Count(kind + ":reencode:" + a1)
		return
	}
	vals := a1[3:]
	switch kind {
	case "ntp":
		op2 := "ntp.enc " + vals
		a2 := c.Do(op2)
		if len(b) < 48 || a2 != "ok "+lib.Hex(b[:48]) {
			fail(c, "ntp:reencode", "EncodePacket(DecodePacket(b)) != b[:48]", []string{op1, op2}, map[string]any{"got": a2})
		}
	default:
		op2 := fmt.Sprintf("%s.enc %s %s", kind, lib.Hex(b), vals)
		a2 := c.Do(op2)
		want := append([]byte{}, b...)
		if kind == "req" {
			f := strings.Fields(vals)
			fl, _ := strconv.ParseUint(f[4], 10, 64)
			for i := 14; i < tlvLen(fl) && i < len(want); i++ {
				want[i] = 0 // the padding is not decoded; the encoder writes zeros
			}
		}
		if a2 != "ok "+lib.Hex(want) {
			fail(c, kind+":reencode", "re-encoding a decoded value does not reproduce the bytes", []string{op1, op2}, map[string]any{"got": a2, "want": lib.Hex(want)})
		}
	}
	c.Count(kind + ":reencode:ok")
}

// ---------------------------------------------------------------- generator

func gen(c *lib.Ctx) {
	r := c.Rand

	// ===== NTP header
	c.Comment("ntp: accessors, all 256 first bytes")
	for x := 0; x < 256; x++ {
		a := c.Dof("ntp.get %d", x)
		if a != fmt.Sprintf("ok %d %d %d", x/64, x/8%8, x%8) {
			fail(c, fmt.Sprintf("ntp:accessor:%d", x), "accessor is not the bit field of the first byte", []string{fmt.Sprintf("ntp.get %d", x)}, map[string]any{"got": a})
		}
	}
	c.Comment("ntp: setters, guards and effects")
	args := []int{0, 1, 2, 3, 4, 5, 6, 7, 8, 9, 15, 16, 31, 32, 63, 64, 65, 127, 128, 129, 192, 254, 255}
	if c.Thorough() {
		args = args[:0]
		for a := 0; a < 256; a++ {
			args = append(args, a)
		}
	}
	for x := 0; x < 256; x++ {
		for _, a := range args {
			for _, op := range []string{"ntp.setli", "ntp.setvn", "ntp.setmode"} {
				line := fmt.Sprintf("%s %d %d", op, x, a)
				ans := c.Do(line)
				lim, shift, width := 7, 0, 8
				switch op {
				case "ntp.setli":
					lim, shift, width = 3, 6, 4
				case "ntp.setvn":
					shift = 3
				}
				if a > lim {
					c.Count(op + ":guard-panics")
					if !strings.HasPrefix(ans, "panic explicit:unexpected_NTP_") {
						fail(c, op+":guard", "setter accepted an argument that does not fit the field", []string{line}, map[string]any{"got": ans})
					}
					continue
				}
				c.Count(op + ":within-guard")
				want := x&^((width-1)<<shift) | a<<shift
				if ans != fmt.Sprintf("ok %d", want) {
					fail(c, op+":effect", "setter changed other bits or stored a different value", []string{line}, map[string]any{"got": ans, "want": want})
				}
			}
		}
	}
	c.Comment("ntp: ValidateResponseMetadata")
	for x := 0; x < 256; x++ {
		for _, st := range []int{0, 1, 2, 15, 16, 17, 255} {
			c.Dof("ntp.vresp %d %d", x, st)
		}
	}

	c.Comment("ntp: field sweeps (8-bit exhaustive, 16-bit dense, 32-bit boundary+random)")
	fieldSweep(c, "ntp", ntpF, func(v []uint64) { ntpRoundTrip(c, v) })
	c.Comment("ntp: random packets")
	for i := 0; i < c.Scale(3000, 200000); i++ {
		ntpRoundTrip(c, randVec(r, ntpF))
		c.Count("ntp:random")
	}
	c.Comment("ntp: decode at every length, re-encode")
	for ln := 0; ln <= 100; ln++ {
		for k := 0; k < 3; k++ {
			reencode(c, "ntp", r.Bytes(ln))
		}
	}
	for _, ln := range []int{1024, 2048, 2049} {
		reencode(c, "ntp", r.Bytes(ln))
	}
	for i := 0; i < c.Scale(2000, 100000); i++ {
		b := r.Bytes(48 + r.Intn(3)*r.Intn(40))
		if r.Chance(20) { // sparse: single non-zero byte, finds position swaps
			for j := range b {
				b[j] = 0
			}
			b[r.Intn(48)] = byte(1 + r.Intn(255))
		}
		reencode(c, "ntp", b)
	}

	// ===== CSPTP message
	c.Comment("csptp message: field sweeps")
	fieldSweep(c, "msg", msgF, func(v []uint64) { csptpEnc(c, "msg", msgF, v, 44) })
	for i := 0; i < c.Scale(2000, 100000); i++ {
		csptpEnc(c, "msg", msgF, randVec(r, msgF), 44)
	}
	c.Comment("csptp message: every buffer length (encoder) and input length (decoder)")
	for ln := 0; ln <= 100; ln++ {
		c.Dof("msg.enc %s %s", lib.Hex(r.Bytes(ln)), formatAll(msgF, randVec(r, msgF)))
		reencode(c, "msg", r.Bytes(ln))
		reencode(c, "msg", r.Bytes(ln))
		if ln < 44 {
			c.Count("msg:short-buffer")
		}
	}
	for i := 0; i < c.Scale(1500, 60000); i++ {
		b := r.Bytes(44 + r.Intn(3)*r.Intn(60))
		if r.Chance(20) {
			for j := range b {
				b[j] = 0
			}
			b[r.Intn(44)] = byte(1 + r.Intn(255))
		}
		reencode(c, "msg", b)
	}

	// ===== TLVs
	for _, k := range []struct {
		kind string
		fs   []fld
	}{{"req", reqF}, {"resp", respF}} {
		kind, fs := k.kind, k.fs
		c.Comment("csptp " + kind + " TLV: declared lengths")
		for _, fl := range append(interesting(32), 3, 4, 5, 0xfffffffe, 0xffffffff) {
			a := c.Dof("%s.len %d", kind, fl)
			if a != fmt.Sprintf("ok %d", tlvLen(fl)) {
				fail(c, kind+":len", "declared TLV length is not 36 / 54 by bit 0 of the flag field", []string{fmt.Sprintf("%s.len %d", kind, fl)}, map[string]any{"got": a})
			}
		}
		c.Comment("csptp " + kind + " TLV: field sweeps at both declared lengths")
		fieldSweep(c, kind, fs, func(v []uint64) {
			csptpEnc(c, kind, fs, v, tlvLen(v[4]))
			// and the same value with the other flag parity
			w := append([]uint64{}, v...)
			w[4] ^= 1
			csptpEnc(c, kind, fs, w, tlvLen(w[4]))
		})
		for i := 0; i < c.Scale(1500, 80000); i++ {
			v := randVec(r, fs)
			csptpEnc(c, kind, fs, v, tlvLen(v[4]))
		}
		c.Comment("csptp " + kind + " TLV: every buffer / input length x flag parity (truncated TLVs, wrong declared lengths)")
		for ln := 0; ln <= 60; ln++ {
			for par := uint64(0); par < 2; par++ {
				v := randVec(r, fs)
				v[4] = v[4]&^1 | par
				c.Dof("%s.enc %s %s", kind, lib.Hex(r.Bytes(ln)), formatAll(fs, v))
				switch {
				case ln < 36:
					c.Count(kind + ":enc:buffer-below-36")
				case ln < 54 && par == 1:
					c.Count(kind + ":enc:buffer-below-54-with-flag")
				default:
					c.Count(kind + ":enc:buffer-sufficient")
				}
				for rep := 0; rep < 3; rep++ {
					b := r.Bytes(ln)
					if ln > 13 {
						b[13] = b[13]&^1 | byte(par) // flag bit 0 lives in byte 13
					}
					if rep == 2 && ln >= 4 { // declared Length field contradicting the actual size
						b[2], b[3] = byte(r.Intn(256)), byte(r.Intn(256))
					}
					reencode(c, kind, b)
				}
			}
		}
		for i := 0; i < c.Scale(1500, 60000); i++ {
			b := r.Bytes(54 + r.Intn(2)*r.Intn(30))
			if r.Chance(50) {
				b = b[:36+r.Intn(19)]
			}
			if r.Chance(20) {
				for j := range b {
					b[j] = 0
				}
				b[r.Intn(len(b))] = byte(1 + r.Intn(255))
			}
			if kind == "req" && r.Chance(50) { // zero padding: re-encoding must be exact
				for j := 14; j < len(b) && j < 54; j++ {
					b[j] = 0
				}
			}
			reencode(c, kind, b)
		}
	}
}

func main() { lib.Main(exec, gen) }
