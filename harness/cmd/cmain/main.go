// cmain: correspondence + direct oracles for the configuration plumbing and constructors of
// /repo/timeservice.go (package main), which no harness can import. The repository's root
// package is built with `-tags verif` (hook verif_main.go: with VERIF_MAIN_HARNESS=1 the binary
// answers a line protocol on stdin/stdout by calling the REAL unexported functions) and driven
// as a child process; this command is the parent: it builds the binary once per run directory,
// forwards op lines, restarts the child after a logbase.Fatal (os.Exit) and evaluates the
// property predicates on the child's answers.
//
//	-part ctor   newNTPReferenceClockSCION/IP, configureIP/SCIONClientNTS, ntskeServerFromRemoteAddr,
//	             tlsConfig                                  (properties C03, C20; driver drv_c03)
//	-part sync   syncConfig, clockDrift, dscp, loadConfig   (property C01; driver drv_c01)
//
// VERIF_REPO (default /repo) names the checkout that is built.
package main

import (
	"bufio"
	"bytes"
	"errors"
	"flag"
	"fmt"
	"io"
	"math"
	"net"
	"os"
	osexec "os/exec"
	"path/filepath"
	"strconv"
	"strings"
	"time"

	"github.com/scionproto/scion/pkg/snet"

	"example.com/scion-time/net/udp"

	"verifharness/lib"
)

var part = flag.String("part", "ctor", "ctor|sync: which generator streams to run")

// ---------------------------------------------------------------- building the binary

func repoDir() string {
	if r := os.Getenv("VERIF_REPO"); r != "" {
		return r
	}
	return "/repo"
}

var (
	binPath  string
	buildErr string
	workDir  string
)

// buildFail reports a binary that cannot be built as a broken tie (never as a crash or as a
// property violation) and ends the run.
func buildFail(msg string) {
	fmt.Println("tie:harness-build cmain: " + msg)
	os.Exit(3)
}

func ensureBinary() {
	if binPath != "" || buildErr != "" {
		return
	}
	repo := repoDir()
	if _, err := os.Stat(filepath.Join(repo, "verif_main.go")); err != nil {
		buildErr = "hook file verif_main.go is missing in " + repo + " (package main cannot be imported: the hook " +
			"hooks-proposed/verif_main.go must be present in the repository root; it is compiled only with -tags verif)"
		return
	}
	if workDir == "" { // -replay: no run directory; one scratch directory per checkout, rebuilt every time
		abs, _ := filepath.Abs(repo)
		workDir = filepath.Join(os.TempDir(), "cmain-replay-"+strings.NewReplacer("/", "_").Replace(abs))
		if err := os.MkdirAll(workDir, 0o755); err != nil {
			buildErr = err.Error()
			return
		}
	}
	if abs, err := filepath.Abs(workDir); err == nil {
		workDir = abs
	}
	bin := filepath.Join(workDir, "timeservice.verif")
	{ // built once per process = once per run directory
		cmd := osexec.Command("go", "build", "-mod=readonly", "-tags", "verif", "-o", bin, ".")
		cmd.Dir = repo
		env := []string{}
		for _, e := range os.Environ() {
			if !strings.HasPrefix(e, "GOFLAGS=") {
				env = append(env, e)
			}
		}
		cmd.Env = append(env, "GOFLAGS=", "GOPROXY=off")
		out, err := cmd.CombinedOutput()
		if err != nil {
			s := string(out)
			if len(s) > 1500 {
				s = s[len(s)-1500:]
			}
			buildErr = "go build -tags verif of the root package of " + repo + " failed: " + err.Error() + ": " + s
			return
		}
	}
	binPath = bin
}

// ---------------------------------------------------------------- the child

type child struct {
	cmd    *osexec.Cmd
	stdin  io.WriteCloser
	out    *bufio.Reader
	stderr *bytes.Buffer
	lines  chan string
}

var (
	cur   *child
	spare chan *child // one child started ahead of time: a logbase.Fatal costs a process start (~0.1 s)
)

func nextChild() *child {
	if spare == nil {
		spare = make(chan *child, 1)
		go func() {
			for {
				spare <- startChild()
			}
		}()
	}
	return <-spare
}

func startChild() *child {
	cmd := osexec.Command(binPath)
	cmd.Env = append(os.Environ(), "VERIF_MAIN_HARNESS=1")
	stdin, err := cmd.StdinPipe()
	if err != nil {
		panic(err)
	}
	stdout, err := cmd.StdoutPipe()
	if err != nil {
		panic(err)
	}
	c := &child{cmd: cmd, stdin: stdin, stderr: &bytes.Buffer{}, lines: make(chan string, 1)}
	cmd.Stderr = c.stderr
	if err := cmd.Start(); err != nil {
		fmt.Println("cmain: cannot start " + binPath + ": " + err.Error())
		os.Exit(4)
	}
	go func() {
		r := bufio.NewReaderSize(stdout, 1<<16)
		for {
			l, err := r.ReadString('\n')
			if err != nil {
				close(c.lines)
				return
			}
			c.lines <- strings.TrimRight(l, "\r\n")
		}
	}()
	return c
}

func (c *child) stop() {
	c.stdin.Close()
	done := make(chan struct{})
	go func() { c.cmd.Wait(); close(done) }()
	select {
	case <-done:
	case <-time.After(2 * time.Second):
		c.cmd.Process.Kill()
		<-done
	}
}

const answerTimeout = 20 * time.Second

// ask sends one op line to the child and returns its answer line.
func ask(line string) string {
	ensureBinary()
	if buildErr != "" {
		buildFail(buildErr)
	}
	for attempt := 0; ; attempt++ {
		if cur == nil {
			cur = nextChild()
		}
		c := cur
		if _, err := io.WriteString(c.stdin, line+"\n"); err != nil {
			// the child was gone before it saw this op: not an answer to it
			c.stop()
			cur = nil
			if attempt < 2 {
				continue
			}
			return "err child-unavailable"
		}
		select {
		case ans, ok := <-c.lines:
			if !ok {
				c.stop()
				cur = nil
				code := c.cmd.ProcessState.ExitCode()
				return fmt.Sprintf("err child-died:exit=%d:%s", code, lib.PanicClass(lastLine(c.stderr.String())))
			}
			if strings.HasPrefix(ans, "err fatal:") {
				// logbase.Fatal: the answer came from the log handler, os.Exit(1) follows
				c.stop()
				cur = nil
			}
			return ans
		case <-time.After(answerTimeout):
			c.cmd.Process.Kill()
			c.stop()
			cur = nil
			return "err child-timeout"
		}
	}
}

func lastLine(s string) string {
	s = strings.TrimSpace(s)
	// a Go crash report starts with "panic: …" / "fatal error: …"
	for _, l := range strings.Split(s, "\n") {
		if strings.HasPrefix(l, "panic: ") || strings.HasPrefix(l, "fatal error: ") {
			return l
		}
	}
	if i := strings.LastIndexByte(s, '\n'); i >= 0 {
		s = s[i+1:]
	}
	if s == "" {
		return "no-output"
	}
	return s
}

// ---------------------------------------------------------------- exec

var cfgSeq int

// tomlOp: `main.synccfg|main.drift|main.dscp  key=<toml text>:<hex64> … [dscp=<n>]` — the parent
// writes the TOML file from the text parts, the child runs loadConfig on it.
func tomlOp(t []string) string {
	var sb strings.Builder
	for _, tok := range t[1:] {
		k, v, ok := strings.Cut(tok, "=")
		if !ok || k == "" || v == "" || strings.Contains(v, "=") {
			return "bad-op"
		}
		if k == "dscp" {
			if _, err := strconv.ParseUint(v, 10, 64); err != nil || strings.HasPrefix(v, "+") {
				return "bad-op"
			}
			fmt.Fprintf(&sb, "%s = %s\n", k, v)
			continue
		}
		parts := strings.Split(v, ":")
		if len(parts) != 2 || len(parts[1]) != 16 {
			return "bad-op"
		}
		bits, err := strconv.ParseUint(parts[1], 16, 64)
		if err != nil {
			return "bad-op"
		}
		// the bit pattern is what the TOML text denotes (strconv = the decoder's own conversion)
		f, err := strconv.ParseFloat(strings.ReplaceAll(parts[0], "_", ""), 64)
		want := math.Float64frombits(bits)
		if err != nil || !(f == want && math.Signbit(f) == math.Signbit(want) || f != f && want != want) {
			return "bad-op"
		}
		fmt.Fprintf(&sb, "%s = %s\n", k, parts[0])
	}
	ensureBinary()
	if buildErr != "" {
		buildFail(buildErr)
	}
	cfgSeq++
	p := filepath.Join(workDir, "cfg.toml")
	if err := os.WriteFile(p, []byte(sb.String()), 0o644); err != nil {
		panic(err)
	}
	return ask(t[0] + ".file file=" + p)
}

func exec(t []string) string {
	if !strings.HasPrefix(t[0], "main.") {
		return "bad-op"
	}
	switch t[0] {
	case "main.synccfg", "main.drift", "main.dscp":
		return tomlOp(t)
	case "main.synccfg.file", "main.drift.file", "main.dscp.file":
		return "bad-op" // internal form (paths are not part of the protocol)
	}
	return ask(strings.Join(t, " "))
}

// ---------------------------------------------------------------- helpers for the oracles

func tok(s string) string {
	if s == "" {
		return "-"
	}
	return s
}

func kvOf(f []string, key string) (string, bool) {
	for _, t := range f {
		if strings.HasPrefix(t, key+"=") {
			return t[len(key)+1:], true
		}
	}
	return "", false
}

func b2s(b bool) string {
	if b {
		return "1"
	}
	return "0"
}

func contains(l []string, s string) bool {
	for _, x := range l {
		if x == s {
			return true
		}
	}
	return false
}

// expectFetcher lists the key=value facts the property requires of a client's NTS
// configuration (C20: "TLS 1.3 minimum, ALPN ntske/1, verification as configured").
func expectFetcher(nts bool, ntske string, insec bool, quic bool, daemon, local, remote string) (map[string]string, bool) {
	if !nts {
		return map[string]string{"sn": "-", "alpn": "[]", "min": "0", "max": "0", "insec": "0", "port": "-", "flog": "0",
			"quic": "0", "qd": "-", "ql": "-", "qr": "-"}, true
	}
	host, port, err := net.SplitHostPort(ntske)
	if err != nil {
		return nil, false
	}
	m := map[string]string{"sn": tok(host), "alpn": "[ntske/1]", "min": "772", "max": "0", "insec": b2s(insec), "port": tok(port),
		"flog": "1", "quic": "0", "qd": "-", "ql": "-", "qr": "-"}
	if quic {
		m["quic"], m["qd"], m["ql"], m["qr"] = "1", tok(daemon), local, remote
	}
	return m, true
}

func sigFor(key string) string {
	switch key {
	case "min", "max":
		return "cmain:tls:min-version"
	case "alpn":
		return "cmain:tls:alpn"
	case "insec":
		return "cmain:tls:insecure-skip-verify"
	case "sn":
		return "cmain:tls:server-name"
	}
	return "cmain:client:config"
}

func checkFacts(c *lib.Ctx, op, ans string, f []string, want map[string]string, what string) {
	for k, v := range want {
		got, ok := kvOf(f, k)
		if !ok || got != v {
			c.Fail(sigFor(k), what+": "+k+" is "+got+", the configuration requires "+v, []string{op},
				map[string]any{"answer": ans, "field": k, "want": v})
		}
	}
}

// ---------------------------------------------------------------- generators: part ctor

var (
	ntskeValid   = []string{"ke.example:4460", "10.0.0.1:10123", "[::1]:4460", "[fe80::1%25eth0]:123", "host:", ":4460", "a:0", "[]:1", "time.example.net:https"}
	ntskeInvalid = []string{"nohost", "a:b:c", "[::1]", "[::1]4460", "[::1]:44:60", "x]:1", "[x:1", "-", "::1:4460", "[a]b:1", "[a]:b]:1", "[[a]:1", "a[b:1", "[a]]:1"}
	authLists    = [][]string{{}, {"nts"}, {"spao"}, {"nts", "spao"}, {"spao", "nts"}, {"NTS"}, {"nts", "nts"}, {""}, {"ntsx"}, {"spao", "", "nts"}}
	daemons      = []string{"", "127.0.0.1:30255", "[::1]:30255", "10.1.1.1:30255"}
	scionAddrs   = []string{"1-ff00:0:111,127.0.0.1:0", "1-ff00:0:112,10.0.0.1:10123", "2-ff00:0:222,[::1]:10123", "1-ff00:0:111,10.0.0.7:123",
		"1-1,192.168.1.1:65535", "65535-ffff:ffff:ffff,[2001:db8::1]:1", "1-ff00:0:112,[fe80::2]:10123"}
	ipAddrs = []string{"127.0.0.1:0", "10.0.0.2:123", "[::1]:123", "192.168.0.1:65535", "[2001:db8::5]:4123"}
	dscps   = []int{0, 1, 46, 63, 64, 255}
)

func authTok(l []string) string {
	x := make([]string, len(l))
	for i, s := range l {
		x[i] = tok(s)
	}
	return "[" + strings.Join(x, ",") + "]"
}

// canonical: the address texts used as op tokens are exactly what the code prints back
func canonicalAddrs(c *lib.Ctx) (sa, ia []string) {
	for _, s := range scionAddrs {
		a, err := snet.ParseUDPAddr(s)
		if err == nil && udp.UDPAddrFromSnet(a).String() == s {
			sa = append(sa, s)
		} else {
			c.Count("gen:address-not-canonical")
		}
	}
	for _, s := range ipAddrs {
		a, err := net.ResolveUDPAddr("udp", s)
		if err == nil && a.String() == s {
			ia = append(ia, s)
		} else {
			c.Count("gen:address-not-canonical")
		}
	}
	return
}

var seven = "[0,1,2,3,4,5,6]"

func refclkSCION(c *lib.Ctx, dscp int, auth []string, ntske string, insec bool, daemon, local, remote string) {
	op := fmt.Sprintf("main.refclk.scion dscp=%d auth=%s ntske=%s insec=%s daemon=%s local=%s remote=%s", dscp, authTok(auth),
		tok(ntske), b2s(insec), tok(daemon), local, remote)
	ans := c.Do(op)
	f := strings.Fields(ans)
	nts := contains(auth, "nts")
	want, ok := expectFetcher(nts, ntske, insec, true, daemon, local, remote)
	if dscp > 255 {
		c.Count("refclk.scion:bad-op")
		return
	}
	if !ok {
		c.Count("refclk.scion:fatal-expected")
		if ans != "err fatal:failed_to_split_NTS-KE_host_and_port" {
			c.Fail("cmain:refclk:ntske-server-accepted", "a reference clock with NTS was constructed although the NTS-KE server has no host:port form",
				[]string{op}, map[string]any{"answer": ans})
		}
		return
	}
	if f[0] != "ok" {
		c.Count("refclk.scion:" + f[0])
		c.Fail("cmain:refclk:construction-failed", "newNTPReferenceClockSCION did not return a reference clock for a valid configuration",
			[]string{op}, map[string]any{"answer": ans})
		return
	}
	c.Count("refclk.scion:ok")
	if nts {
		c.Count("refclk.scion:nts")
	}
	fail := func(sig, what string) { c.Fail(sig, what, []string{op}, map[string]any{"answer": ans}) }
	// the property's clause: every per-path client is its own object with its own filter and its
	// own state of a previous exchange (per-path goroutines run concurrently, one client each)
	if v, _ := kvOf(f, "n"); v != "7" {
		fail("cmain:refclk:client-count", "the SCION reference clock does not have scionRefClockNumClient = 7 clients")
	}
	if v, _ := kvOf(f, "ids"); v != seven {
		fail("cmain:refclk:clients-shared", "two slots of ntpcs hold the same *SCIONClient: per-path goroutines would share one client's prev state (timestamps of different exchanges get combined)")
	}
	if v, _ := kvOf(f, "fids"); v != seven {
		fail("cmain:refclk:filters-shared", "two clients of one reference clock share a filter object")
	}
	if v, _ := kvOf(f, "tids"); v != seven {
		fail("cmain:refclk:tlsconfig-shared", "two clients of one reference clock share a tls.Config")
	}
	if v, _ := kvOf(f, "prev"); v != seven {
		fail("cmain:refclk:prev-shared", "marking client i's previous exchange with i and reading the marks back does not give 0..6: clients overwrite each other's prev state")
	}
	if v, _ := kvOf(f, "kept"); v != "6" {
		fail("cmain:refclk:prev-shared", "ResetInterleavedMode on client 0 took other clients out of interleaved mode")
	}
	if v, _ := kvOf(f, "uniform"); v != "1" {
		fail("cmain:refclk:config-not-uniform", "the clients of one reference clock are configured differently")
	}
	w := map[string]string{"clog": "1", "local": local, "remote": remote, "pather": "0", "il": "1", "dscp": strconv.Itoa(dscp), "filt": "ntimed",
		"hist": "0", "log": "1", "auth": "0", "nts": b2s(nts), "drkey": "0"}
	for k, v := range want {
		w[k] = v
	}
	checkFacts(c, op, ans, f, w, "SCION reference clock client")
}

func refclkIP(c *lib.Ctx, dscp int, auth []string, ntske string, insec bool, local, remote string) {
	op := fmt.Sprintf("main.refclk.ip dscp=%d auth=%s ntske=%s insec=%s local=%s remote=%s", dscp, authTok(auth), tok(ntske), b2s(insec), local, remote)
	ans := c.Do(op)
	f := strings.Fields(ans)
	nts := contains(auth, "nts")
	want, ok := expectFetcher(nts, ntske, insec, false, "", "", "")
	if !ok {
		c.Count("refclk.ip:fatal-expected")
		if ans != "err fatal:failed_to_split_NTS-KE_host_and_port" {
			c.Fail("cmain:refclk:ntske-server-accepted", "an IP reference clock with NTS was constructed although the NTS-KE server has no host:port form",
				[]string{op}, map[string]any{"answer": ans})
		}
		return
	}
	if f[0] != "ok" {
		c.Fail("cmain:refclk:construction-failed", "newNTPReferenceClockIP did not return a reference clock for a valid configuration",
			[]string{op}, map[string]any{"answer": ans})
		return
	}
	c.Count("refclk.ip:ok")
	w := map[string]string{"clog": "1", "local": local, "remote": remote, "same": "1", "il": "1", "dscp": strconv.Itoa(dscp), "filt": "ntimed",
		"hist": "0", "log": "1", "auth": b2s(nts)}
	for k, v := range want {
		w[k] = v
	}
	checkFacts(c, op, ans, f, w, "IP reference clock client")
}

func cfgNTS(c *lib.Ctx, scion bool, ntske string, insec bool, daemon, local, remote string) {
	var op string
	if scion {
		op = fmt.Sprintf("main.cfg.scionnts ntske=%s insec=%s daemon=%s local=%s remote=%s", tok(ntske), b2s(insec), tok(daemon), local, remote)
	} else {
		op = fmt.Sprintf("main.cfg.ipnts ntske=%s insec=%s", tok(ntske), b2s(insec))
	}
	ans := c.Do(op)
	f := strings.Fields(ans)
	want, ok := expectFetcher(true, ntske, insec, scion, daemon, local, remote)
	if !ok {
		c.Count("cfg.nts:fatal-expected")
		if ans != "err fatal:failed_to_split_NTS-KE_host_and_port" {
			c.Fail("cmain:refclk:ntske-server-accepted", "NTS was configured although the NTS-KE server has no host:port form", []string{op}, map[string]any{"answer": ans})
		}
		return
	}
	if f[0] != "ok" {
		c.Fail("cmain:refclk:construction-failed", "configure…ClientNTS failed for a valid NTS-KE server", []string{op}, map[string]any{"answer": ans})
		return
	}
	c.Count("cfg.nts:ok")
	if scion {
		want["nts"], want["auth"] = "1", "0"
	} else {
		want["auth"] = "1"
	}
	// nothing else of the client is touched
	want["il"], want["dscp"], want["filt"], want["hist"], want["log"] = "0", "0", "nil", "0", "0"
	checkFacts(c, op, ans, f, want, "NTS configuration")
}

func ntskeSrv(c *lib.Ctx, addr string) {
	op := "main.ntskesrv " + tok(addr)
	ans := c.Do(op)
	sp := strings.Split(addr, ",")
	want := "panic explicit:remote_address_has_wrong_format"
	if len(sp) >= 2 {
		want = "ok " + tok(sp[1])
	}
	c.Count("ntskesrv:" + strings.Fields(want)[0])
	if ans != want {
		c.Fail("cmain:ntskesrv", "ntskeServerFromRemoteAddr does not return the host:port part (second comma-separated field) of the remote address",
			[]string{op}, map[string]any{"answer": ans, "want": want})
	}
}

func tlsCfg(c *lib.Ctx, name, cert, key string) {
	op := fmt.Sprintf("main.tlscfg name=%s cert=%s key=%s", tok(name), tok(cert), tok(key))
	ans := c.Do(op)
	f := strings.Fields(ans)
	if name == "" || cert == "" || key == "" {
		c.Count("tlscfg:fatal-expected")
		if ans != "err fatal:missing_parameters_in_configuration_for_NTSKE_server" {
			c.Fail("cmain:tls:server-config-incomplete", "tlsConfig accepted a configuration without server name / certificate / key", []string{op}, map[string]any{"answer": ans})
		}
		return
	}
	c.Count("tlscfg:ok")
	checkFacts(c, op, ans, f, map[string]string{"sn": name, "alpn": "[ntske/1]", "min": "772", "max": "0", "insec": "0", "getcert": "1", "certs": "0"},
		"NTS-KE server TLS configuration")
}

func genCtor(c *lib.Ctx) {
	r := c.Rand
	sa, ia := canonicalAddrs(c)
	if len(sa) < 2 || len(ia) < 2 {
		c.NotExecuted("cmain ctor: address texts do not round-trip")
		return
	}
	pick := func(l []string) string { return l[r.Intn(len(l))] }
	c.Comment("main.ntskesrv")
	for _, a := range append(append([]string{}, sa...), "0-0,10.0.0.1:123", "abc", "", ",", "a,", ",b", "a,b,c", "1-ff00:0:112,[::1]:10123,extra", "a,,c") {
		ntskeSrv(c, a)
	}
	c.Comment("main.cfg.* boundary stream")
	for _, k := range ntskeValid {
		for _, insec := range []bool{false, true} {
			cfgNTS(c, false, k, insec, "", "", "")
			cfgNTS(c, true, k, insec, pick(daemons), sa[0], sa[1])
		}
	}
	for i, k := range ntskeInvalid { // every one of these ends the child process (logbase.Fatal)
		if k == "-" {
			k = ""
		}
		if c.Thorough() || i%2 == 0 {
			cfgNTS(c, false, k, i%4 < 2, "", "", "")
		}
		if c.Thorough() || i%2 == 1 {
			cfgNTS(c, true, k, i%4 >= 2, pick(daemons), sa[0], sa[1])
		}
	}
	c.Comment("main.refclk.* boundary stream")
	for i, auth := range authLists {
		for j, k := range []string{ntskeValid[0], ntskeValid[2], ntskeInvalid[0], ""} {
			if j >= 2 && contains(auth, "nts") && !c.Thorough() && i != 1 && i != 4 {
				continue // fatal outcome: a few of them in the quick tier, all in the thorough tier
			}
			refclkSCION(c, 46, auth, k, false, daemons[1], sa[0], sa[1])
			refclkIP(c, 46, auth, k, true, ia[0], ia[1])
		}
	}
	for _, d := range append(append([]int{}, dscps...), 256) {
		refclkSCION(c, d, authLists[1], ntskeValid[1], true, "", sa[1], sa[0])
		if d <= 255 {
			refclkIP(c, d, nil, "", false, ia[1], ia[0])
		}
	}
	c.Comment("main.tlscfg")
	tlsCfg(c, "ke.example", "/etc/cert.pem", "/etc/key.pem")
	tlsCfg(c, "", "/etc/cert.pem", "/etc/key.pem")
	tlsCfg(c, "ke.example", "", "/etc/key.pem")
	tlsCfg(c, "ke.example", "/etc/cert.pem", "")
	if c.Thorough() {
		tlsCfg(c, "", "", "")
		tlsCfg(c, "", "", "/etc/key.pem")
		tlsCfg(c, "ke.example", "", "")
	}
	c.Comment("main.* random stream")
	for i := 0; i < c.Scale(700, 8000); i++ {
		k := pick(ntskeValid)
		if r.Chance(c.Scale(2, 4)) {
			k = pick(ntskeInvalid)
		}
		if k == "-" {
			k = ""
		}
		auth := authLists[r.Intn(len(authLists))]
		if r.Chance(50) {
			auth = authLists[1+2*r.Intn(2)] // [nts] or [nts,spao]
		}
		d := dscps[r.Intn(len(dscps))]
		switch r.Intn(10) {
		case 0, 1, 2, 3, 4:
			refclkSCION(c, d, auth, k, r.Bool(), pick(daemons), pick(sa), pick(sa))
		case 5, 6:
			refclkIP(c, d, auth, k, r.Bool(), pick(ia), pick(ia))
		case 7:
			cfgNTS(c, r.Bool(), k, r.Bool(), pick(daemons), pick(sa), pick(sa))
		case 8:
			ntskeSrv(c, pick(sa)+strings.Repeat(",x", r.Intn(2)))
		default:
			tlsCfg(c, pick([]string{"ke.example", "a", "time.example.net"}), pick([]string{"c.pem", "/x/y.crt"}), pick([]string{"k.pem", "/x/y.key"}))
		}
	}
}

// ---------------------------------------------------------------- generators: part sync

const (
	defRef      = 1.25
	defPeer     = 2.5
	defCutoff   = int64(50 * time.Microsecond)
	defTimeout  = int64(500 * time.Millisecond)
	defInterval = int64(1000 * time.Millisecond)
)

func hex64(f float64) string {
	if f != f {
		return "7ff8000000000001"
	}
	return fmt.Sprintf("%016x", math.Float64bits(f))
}

// seconds -> time.Duration as timemath.Duration does it (same hardware conversion as the code)
func durOf(s float64) int64 { return int64(time.Duration(s * float64(time.Second))) }

type syncIn struct{ ref, peer, cutoff, timeout, interval float64 }

// checkSync evaluates what the property needs of syncConfig on the child's answer: every
// sync.Config field is the TOML value of ITS key (seconds -> ns), or the default when the
// key is absent / the value is zero; and the all-default configuration passes sync.Run's
// start-up conditions.
func checkSync(c *lib.Ctx, op, ans string, in syncIn, allDefault bool) {
	f := strings.Fields(ans)
	if f[0] != "ok" {
		c.Fail("cmain:synccfg:failed", "syncConfig did not return a configuration", []string{op}, map[string]any{"answer": ans})
		return
	}
	c.Count("synccfg:ok")
	factor := func(v, def float64) string {
		if v == 0 {
			return hex64(def)
		}
		return hex64(v)
	}
	dur := func(v float64, def int64) string {
		if d := durOf(v); d != 0 {
			return strconv.FormatInt(d, 10)
		}
		return strconv.FormatInt(def, 10)
	}
	want := map[string]string{"ref": factor(in.ref, defRef), "peer": factor(in.peer, defPeer), "cutoff": dur(in.cutoff, defCutoff),
		"timeout": dur(in.timeout, defTimeout), "interval": dur(in.interval, defInterval)}
	for k, v := range want {
		if got, _ := kvOf(f, k); got != v {
			c.Fail("cmain:synccfg:wiring:"+k, "sync.Config."+k+" is not the configured value of its own key (seconds converted to ns) resp. its default",
				[]string{op}, map[string]any{"answer": ans, "field": k, "want": v, "got": got})
		}
	}
	if allDefault {
		c.Count("synccfg:all-default")
		g := func(k string) string { v, _ := kvOf(f, k); return v }
		rb, _ := strconv.ParseUint(g("ref"), 16, 64)
		pb, _ := strconv.ParseUint(g("peer"), 16, 64)
		rf, pf := math.Float64frombits(rb), math.Float64frombits(pb)
		cu, _ := strconv.ParseInt(g("cutoff"), 10, 64)
		to, _ := strconv.ParseInt(g("timeout"), 10, 64)
		iv, _ := strconv.ParseInt(g("interval"), 10, 64)
		if !(rf > 1.0) || !(pf > 1.0) || !(pf-1.0 > rf) || iv <= 0 || to < 0 || to > iv/2 || cu < 0 {
			c.Fail("cmain:synccfg:defaults-inadmissible", "the default configuration does not pass sync.Run's start-up conditions (factor > 1, peer factor - 1 > reference factor, interval > 0, 0 <= timeout <= interval/2)",
				[]string{op}, map[string]any{"answer": ans})
		}
	}
}

func syncBits(c *lib.Ctx, in syncIn) {
	op := fmt.Sprintf("main.synccfg.bits ref=%s peer=%s cutoff=%s timeout=%s interval=%s", hex64(in.ref), hex64(in.peer), hex64(in.cutoff),
		hex64(in.timeout), hex64(in.interval))
	checkSync(c, op, c.Do(op), in, in == syncIn{})
}

// tomlText renders a float the way a configuration file would spell it
func tomlText(f float64, style int) string {
	switch {
	case f != f:
		return "nan"
	case math.IsInf(f, 1):
		return []string{"inf", "+inf"}[style%2]
	case math.IsInf(f, -1):
		return "-inf"
	}
	var s string
	switch style % 3 {
	case 0:
		s = strconv.FormatFloat(f, 'g', -1, 64)
	case 1:
		s = strconv.FormatFloat(f, 'f', -1, 64)
	default:
		s = strconv.FormatFloat(f, 'e', -1, 64)
	}
	if !strings.ContainsAny(s, ".e") {
		s += ".0"
	}
	if i := strings.IndexByte(s, 'e'); i >= 0 && !strings.Contains(s[:i], ".") {
		s = s[:i] + ".0" + s[i:] // TOML wants digits on both sides of the point only if there is one; "1e-07" is fine, keep uniform
	}
	return s
}

var syncKeys = []string{"reference_clock_impact", "peer_clock_impact", "peer_clock_cutoff", "sync_timeout", "sync_interval"}

type tomlKV struct {
	key  string
	val  float64
	text string
}

func syncTOML(c *lib.Ctx, fn string, kvs []tomlKV, dscp int, extraBad string) {
	r := c.Rand
	var toks []string
	in := syncIn{}
	drift := 0.0
	seen := map[string]bool{}
	dup := false
	for _, kv := range kvs {
		text := kv.text
		if text == "" {
			text = tomlText(kv.val, r.Intn(6))
		}
		toks = append(toks, kv.key+"="+text+":"+hex64(kv.val))
		if seen[kv.key] {
			dup = true
		}
		seen[kv.key] = true
		switch kv.key {
		case syncKeys[0]:
			in.ref = kv.val
		case syncKeys[1]:
			in.peer = kv.val
		case syncKeys[2]:
			in.cutoff = kv.val
		case syncKeys[3]:
			in.timeout = kv.val
		case syncKeys[4]:
			in.interval = kv.val
		case "clock_drift":
			drift = kv.val
		}
	}
	if dscp >= 0 {
		toks = append(toks, "dscp="+strconv.Itoa(dscp))
	}
	if extraBad != "" {
		toks = append(toks, extraBad)
	}
	if r.Chance(50) { // key order in the file is irrelevant
		for i := len(toks) - 1; i > 0; i-- {
			j := r.Intn(i + 1)
			toks[i], toks[j] = toks[j], toks[i]
		}
	}
	op := strings.TrimSpace(fn + " " + strings.Join(toks, " "))
	ans := c.Do(op)
	if extraBad != "" || dup || dscp > 255 {
		c.Count("toml:decode-error-expected")
		if ans != "err fatal:failed_to_decode_configuration" {
			c.Fail("cmain:loadconfig:accepted", "loadConfig accepted a file with an unknown / repeated key or an out-of-range dscp", []string{op}, map[string]any{"answer": ans})
		}
		return
	}
	switch fn {
	case "main.synccfg":
		checkSync(c, op, ans, in, len(kvs) == 0 || in == syncIn{})
	case "main.drift":
		checkDrift(c, op, ans, drift)
	case "main.dscp":
		d := dscp
		if d < 0 {
			d = 0
		}
		checkDSCP(c, op, ans, d)
	}
}

func checkDrift(c *lib.Ctx, op, ans string, v float64) {
	want := "ok " + strconv.FormatInt(durOf(v), 10)
	if v < 0 {
		want = "err fatal:invalid_clock_drift_value_specified_in_config"
	}
	c.Count("drift:" + strings.Fields(want)[0])
	if ans != want {
		c.Fail("cmain:drift", "clockDrift is not the configured clock_drift (seconds converted to ns), or a negative drift was accepted", []string{op},
			map[string]any{"answer": ans, "want": want})
	}
}

func checkDSCP(c *lib.Ctx, op, ans string, v int) {
	want := "ok " + strconv.Itoa(v)
	if v > 63 {
		want = "err fatal:invalid_differentiated_services_codepoint_value_specified_in_config"
	}
	c.Count("dscp:" + strings.Fields(want)[0])
	if ans != want {
		c.Fail("cmain:dscp", "dscp(cfg) is not the configured value in [0, 63], or a value above 63 was accepted", []string{op}, map[string]any{"answer": ans, "want": want})
	}
}

func genSync(c *lib.Ctx) {
	r := c.Rand
	fb := math.Float64frombits
	special := []float64{0, math.Copysign(0, -1), math.NaN(), math.Inf(1), math.Inf(-1), math.SmallestNonzeroFloat64, -math.SmallestNonzeroFloat64,
		fb(0x000fffffffffffff), fb(0x0010000000000000), math.MaxFloat64, -math.MaxFloat64}
	factors := []float64{1.25, 2.5, 1, math.Nextafter(1, 2), math.Nextafter(1, 0), 2.25, math.Nextafter(2.25, 3), 1.1, 3.5, 1.5, 2.0, 10, -1.25, 0.5, 1e6}
	// seconds: fractional values whose product with 1e9 is not exact, values that convert to
	// 0 ns, +-1 ns, boundaries of int64, the defaults themselves
	seconds := []float64{1, 0.5, 0.25, 0.58, 0.29, 0.001, 0.0007, 1e-9, 0.9e-9, 0.999999999e-9, 1.0000000001e-9, 2e-9, 1e-10, -1e-9, -1e-10, 50e-6, 0.1, 0.3, 0.7,
		1.1, 2.2, 3.3, 4.35, 8.03, 16, 64, 1024, 3600, 86400, 9223372036.854775, 9223372036.854776, 9223372036.854778, 9.3e9, 1e10, 1e300, -0.5, -1, -9223372036.854776,
		-9223372036.854778, 0.000050, 0.00005000000000000001, 123.456789012, 0.499999999999, 0.5000000001}
	one := func(in syncIn) { syncBits(c, in) }
	c.Comment("main.synccfg.bits boundary stream")
	one(syncIn{})
	for _, v := range append(append(append([]float64{}, special...), factors...), seconds...) {
		one(syncIn{ref: v})
		one(syncIn{peer: v})
		one(syncIn{cutoff: v})
		one(syncIn{timeout: v})
		one(syncIn{interval: v})
		one(syncIn{v, v, v, v, v})
	}
	c.Comment("main.drift.bits / main.dscp.val boundary stream")
	for _, v := range append(append([]float64{}, special...), seconds...) {
		op := "main.drift.bits drift=" + hex64(v)
		checkDrift(c, op, c.Do(op), v)
	}
	for d := 0; d <= 255; d++ {
		if d < 70 || d%37 == 0 || d == 255 {
			op := fmt.Sprintf("main.dscp.val dscp=%d", d)
			checkDSCP(c, op, c.Do(op), d)
		}
	}
	c.Dof("main.dscp.val dscp=256") // not a uint8: bad-op on both sides
	c.Comment("main.synccfg / main.drift / main.dscp through loadConfig (TOML), boundary stream")
	syncTOML(c, "main.synccfg", nil, -1, "")
	syncTOML(c, "main.drift", nil, -1, "")
	syncTOML(c, "main.dscp", nil, -1, "")
	for i, k := range syncKeys {
		for _, v := range []float64{0.5, 1.5, 3.25, 0.29, 1e-10, 0, 2.5} {
			syncTOML(c, "main.synccfg", []tomlKV{{k, v, ""}}, -1, "")
		}
		// every other key must NOT reach this field: all keys set to distinct values
		var all []tomlKV
		for j, k2 := range syncKeys {
			all = append(all, tomlKV{k2, float64(j+2) + 0.5*float64(i), ""})
		}
		all = append(all, tomlKV{"clock_drift", 0.000123, ""})
		syncTOML(c, "main.synccfg", all, 17, "")
		syncTOML(c, "main.drift", all, 17, "")
		syncTOML(c, "main.dscp", all, 17, "")
		syncTOML(c, "main.synccfg", []tomlKV{{k, 1.5, ""}, {k, 2.5, ""}}, -1, "") // repeated key
	}
	for _, bad := range []string{"sync_intervall=1.0:3ff0000000000000", "reference_clock=1.5:3ff8000000000000", "SyncInterval=1.0:3ff0000000000000", "drift=1.0:3ff0000000000000"} {
		syncTOML(c, "main.synccfg", []tomlKV{{syncKeys[4], 2, ""}}, -1, bad)
	}
	for _, t := range []tomlKV{{"sync_interval", 1.5, "1.5"}, {"sync_interval", 1.5, "+1.5"}, {"sync_interval", 1500, "1_500.0"}, {"sync_interval", 0.5, "5e-1"}, {"sync_interval", 0.5, "5E-1"},
		{"sync_timeout", math.Inf(1), "inf"}, {"sync_timeout", math.NaN(), "nan"}, {"peer_clock_impact", math.Inf(-1), "-inf"}, {"sync_interval", math.Copysign(0, -1), "-0.0"}} {
		syncTOML(c, "main.synccfg", []tomlKV{t}, -1, "")
	}
	for _, d := range []int{0, 1, 46, 63, 64, 255, 256, 1000} {
		syncTOML(c, "main.dscp", nil, d, "")
	}
	for _, v := range []float64{0, 1e-6, 0.000123, 1, -1e-6, math.Copysign(0, -1), 1e-10, 1e300, math.NaN(), math.Inf(1), math.Inf(-1)} {
		syncTOML(c, "main.drift", []tomlKV{{"clock_drift", v, ""}}, -1, "")
	}
	c.Comment("main.* sync random stream")
	rf := func(list []float64) float64 {
		switch r.Intn(10) {
		case 0:
			return special[r.Intn(len(special))]
		case 1, 2:
			return 0 // absent
		case 3, 4, 5:
			return list[r.Intn(len(list))]
		case 6:
			return fb(r.U64())
		default:
			return float64(r.Range(1, 5000000)) / float64([]int64{1, 10, 1000, 1000000, 1000000000}[r.Intn(5)])
		}
	}
	for i := 0; i < c.Scale(2500, 30000); i++ {
		switch r.Intn(8) {
		case 0, 1, 2:
			one(syncIn{rf(factors), rf(factors), rf(seconds), rf(seconds), rf(seconds)})
		case 3:
			v := rf(seconds)
			op := "main.drift.bits drift=" + hex64(v)
			checkDrift(c, op, c.Do(op), v)
		default:
			var kvs []tomlKV
			for j, k := range syncKeys {
				if r.Chance(55) {
					l := seconds
					if j < 2 {
						l = factors
					}
					v := rf(l)
					for v != v || math.IsInf(v, 0) { // keep the TOML stream on numbers (inf/nan are in the boundary stream)
						v = rf(l)
					}
					kvs = append(kvs, tomlKV{k, v, ""})
				}
			}
			if r.Chance(30) {
				kvs = append(kvs, tomlKV{"clock_drift", float64(r.Range(-2, 500)) / 1e6, ""})
			}
			d := -1
			if r.Chance(30) {
				d = int(r.Range(0, 70))
			}
			bad := ""
			if r.Chance(3) {
				bad = "sync_intervals=1.0:3ff0000000000000"
			}
			syncTOML(c, []string{"main.synccfg", "main.synccfg", "main.drift", "main.dscp"}[r.Intn(4)], kvs, d, bad)
		}
	}
}

func gen(c *lib.Ctx) {
	workDir = c.Out // the binary and the TOML scratch file live in the run's output directory
	ensureBinary()
	if buildErr != "" {
		c.Close()
		buildFail(buildErr)
	}
	defer func() {
		if cur != nil {
			cur.stop()
		}
	}()
	switch *part {
	case "ctor":
		genCtor(c)
	case "sync":
		genSync(c)
	default:
		panic(errors.New("unknown -part"))
	}
}

func main() { lib.Main(exec, gen) }
