// ident.go: client-identity histories against the real SCION listener (property C06, clause
// "timestamps recorded for one client are never served to another"; the store itself is
// checked by harness c06 with the identity string as an input — here the listener's own
// construction of that string from the packet is exercised).
//
//	id.text <sia>       -> ok <addr.IA(sia).String()>
//	srv.ident sock= hopa= hopb= asia= ast= asa= bsia= bst= bsa= aia= ahost= bia= bhost=
//	    -> ok a=<m> b=<m> a2=<m>      m = basic | inter | none | other
//
// srv.ident is one whole history, executed live by exec (so it replays as a single op):
//
//	1. client A = (asia, asa) sends a basic request; the reply carries the receive timestamp X
//	2. client B = (bsia, bsa) sends an interleaved-looking request (rx != tx) with origin X
//	3. client A sends an interleaved-looking request with origin X
//
// a, b, a2 tell how each was answered: basic (origin = the request's transmit timestamp and
// transmit not before receive), inter (origin = the request's receive timestamp). aia/ahost/
// bia/bhost are the textual forms (addr.IA.String, netip.Addr.String) as oracle inputs of
// the model, which decides "same client" by comparing clientIdScion ia host.
package main

import (
	"bytes"
	"fmt"
	"net/netip"
	"strconv"
	"strings"

	"github.com/scionproto/scion/pkg/addr"

	"example.com/scion-time/net/ntp"

	"verifharness/lib"
)

type identCli struct {
	sia uint64
	st  int
	sa  []byte
}

func (c identCli) iaText() string { return addr.IA(c.sia).String() }
func (c identCli) hostText() string {
	a, ok := netip.AddrFromSlice(c.sa)
	if !ok {
		return "?"
	}
	return a.String()
}
func (c identCli) same(d identCli) bool {
	return c.sia == d.sia && c.st == d.st && bytes.Equal(c.sa, d.sa)
}

var identKeys = []string{"sock", "hopa", "hopb", "asia", "ast", "asa", "bsia", "bst", "bsa", "aia", "ahost", "bia", "bhost"}

func identOp(sock string, hopa, hopb int, a, b identCli) string {
	return fmt.Sprintf("srv.ident sock=%s hopa=%d hopb=%d asia=%d ast=%d asa=%s bsia=%d bst=%d bsa=%s aia=%s ahost=%s bia=%s bhost=%s",
		sock, hopa, hopb, a.sia, a.st, lib.Hex(a.sa), b.sia, b.st, lib.Hex(b.sa), a.iaText(), a.hostText(), b.iaText(), b.hostText())
}

func ntpReq(org, rx, tx ntp.Time64) []byte {
	b := make([]byte, ntp.PacketLen)
	p := ntp.Packet{OriginTime: org, ReceiveTime: rx, TransmitTime: tx}
	p.SetVersion(4)
	p.SetMode(ntp.ModeClient)
	ntp.EncodePacket(&b, &p)
	return b
}

func identPkt(sock string, hop int, cl identCli, sp int, pld []byte) *pkt {
	return &pkt{
		mode: "srv", mock: 1, sock: sock, svc: svcPort, dscp: childDSCP, hop: hop,
		sia: cl.sia, dia: 0x0002ff0000000222, st: cl.st, dt: 0,
		sa: cl.sa, da: []byte{127, 0, 13, 1}, pt: 0, path: nil, rev: "0:-",
		l4: "udp", sp: sp, dp: svcPort, ulen: "ok", pld: pld, mac: "-", ntp: "ok",
	}
}

// identStep sends one request and classifies the answer; resp is the decoded reply (if any).
func identStep(p *pkt, req ntp.Packet) (class string, resp ntp.Packet, sandboxed string) {
	ans := handle(p)
	if strings.HasPrefix(ans, "sandbox") {
		return "", resp, ans
	}
	if last.kind != "reply" || last.reply == nil || last.reply.l4 != "udp" || len(last.reply.udp.Payload) != ntp.PacketLen {
		return "none", resp, ""
	}
	if err := ntp.DecodePacket(&resp, last.reply.udp.Payload); err != nil {
		return "none", resp, ""
	}
	later := resp.TransmitTime.After(resp.ReceiveTime)
	switch {
	case resp.OriginTime == req.TransmitTime && later:
		return "basic", resp, ""
	case resp.OriginTime == req.ReceiveTime && !later:
		// the transmit time of an earlier exchange: before this request's receive time
		return "inter", resp, ""
	}
	return "other", resp, ""
}

var (
	identTxA1 = ntp.Time64{Seconds: 0xa1000001, Fraction: 0x11111111}
	identRxB  = ntp.Time64{Seconds: 0xb2000002, Fraction: 0x22222222}
	identTxB  = ntp.Time64{Seconds: 0xb3000003, Fraction: 0x33333333}
	identRxA2 = ntp.Time64{Seconds: 0xa4000004, Fraction: 0x44444444}
	identTxA2 = ntp.Time64{Seconds: 0xa5000005, Fraction: 0x55555555}
)

// identLast: details of the last srv.ident for the oracle's report (never compared).
var identLast struct{ x, bTx, bRx ntp.Time64 }

func identExec(toks []string) string {
	if len(toks) != len(identKeys) {
		return "bad-op"
	}
	kv := map[string]string{}
	for i, t := range toks {
		k, v, ok := strings.Cut(t, "=")
		if !ok || k != identKeys[i] || v == "" {
			return "bad-op"
		}
		kv[k] = v
	}
	ok := true
	num := func(k string, hi uint64) uint64 {
		s := kv[k]
		if canon(s) {
			ok = false
			return 0
		}
		v, err := strconv.ParseUint(s, 10, 64)
		if err != nil || v > hi {
			ok = false
			return 0
		}
		return v
	}
	cli := func(pfx string) identCli {
		c := identCli{sia: num(pfx+"sia", ^uint64(0)), st: int(num(pfx+"st", 3))}
		b, okh := unhex(kv[pfx+"sa"])
		if !okh || (c.st != 0 && c.st != 3) || len(b) != 4*(1+c.st) {
			ok = false
		}
		c.sa = b
		return c
	}
	sock := kv["sock"]
	hopa, hopb := int(num("hopa", 1)), int(num("hopb", 1))
	a, b := cli("a"), cli("b")
	if !ok || (sock != "svc" && sock != "eh") {
		return "bad-op"
	}
	// the IA texts are checked on both sides (the model against its own iaText); the host
	// texts are oracle inputs
	if kv["aia"] != a.iaText() || kv["bia"] != b.iaText() {
		return "bad-op"
	}
	// 1. A, basic
	r1 := ntp.Packet{TransmitTime: identTxA1}
	c1, resp1, sb := identStep(identPkt(sock, hopa, a, 41001, ntpReq(r1.OriginTime, r1.ReceiveTime, r1.TransmitTime)), r1)
	if sb != "" {
		return sb
	}
	x := resp1.ReceiveTime
	// 2. B quotes X
	r2 := ntp.Packet{OriginTime: x, ReceiveTime: identRxB, TransmitTime: identTxB}
	c2, resp2, sb := identStep(identPkt(sock, hopb, b, 41002, ntpReq(r2.OriginTime, r2.ReceiveTime, r2.TransmitTime)), r2)
	if sb != "" {
		return sb
	}
	identLast.x, identLast.bTx, identLast.bRx = x, resp2.TransmitTime, resp2.ReceiveTime
	// 3. A quotes X
	r3 := ntp.Packet{OriginTime: x, ReceiveTime: identRxA2, TransmitTime: identTxA2}
	c3, _, sb := identStep(identPkt(sock, hopa, a, 41001, ntpReq(r3.OriginTime, r3.ReceiveTime, r3.TransmitTime)), r3)
	if sb != "" {
		return sb
	}
	return fmt.Sprintf("ok a=%s b=%s a2=%s", c1, c2, c3)
}

func idTextExec(toks []string) string {
	if len(toks) != 1 || canon(toks[0]) {
		return "bad-op"
	}
	v, err := strconv.ParseUint(toks[0], 10, 64)
	if err != nil {
		return "bad-op"
	}
	return "ok " + addr.IA(v).String()
}

// ---------------------------------------------------------------- generator + direct oracle

func randIdentHost(r *lib.Rand) (int, []byte) {
	switch r.Intn(6) {
	case 0:
		return 0, []byte{10, byte(r.U64()), byte(r.U64()), byte(1 + r.Intn(250))}
	case 1: // two/three-digit first octet
		return 0, []byte{byte(10 + r.Intn(240)), byte(r.U64()), byte(r.U64()), byte(r.U64())}
	case 2: // short first group, long zero run: "d::t"
		b := make([]byte, 16)
		b[0], b[1] = byte(r.Intn(16)), byte(r.U64())
		b[15] = byte(1 + r.Intn(255))
		if r.Bool() {
			b[13] = byte(r.U64())
		}
		return 3, b
	case 3: // "::t"
		b := make([]byte, 16)
		b[15] = byte(1 + r.Intn(255))
		if r.Bool() {
			b[13] = byte(r.U64())
		}
		return 3, b
	case 4: // IPv4-mapped
		return 3, append([]byte{0, 0, 0, 0, 0, 0, 0, 0, 0, 0, 0xff, 0xff}, 10, byte(r.U64()), byte(r.U64()), byte(1+r.Intn(250)))
	}
	return 3, append([]byte{0xfd, byte(r.U64())}, r.Bytes(14)...)
}

func randIdentIA(r *lib.Rand) uint64 {
	isd := uint64(1 + r.Intn(65535))
	if r.Chance(30) {
		isd = uint64(1 + r.Intn(9))
	}
	var as uint64
	switch r.Intn(5) {
	case 0: // BGP-style (decimal)
		as = r.U64() & 0xffffffff
	case 1:
		as = uint64(r.Intn(100000))
	case 2: // the documentation range ff00:0:x with a short last group
		as = 0xff00<<32 | uint64(r.Intn(0x1000))
	case 3:
		as = uint64(1+r.Intn(0xffff))<<32 | uint64(r.Intn(0x10000))<<16 | uint64(r.Intn(0x100))
	default:
		as = r.U64() & 0xffffffffffff
	}
	return isd<<48 | as
}

// collider looks for a client whose un-separated "IA text + host text" equals that of cl:
// k leading characters of the host text move to the end of the IA text; both parts must be
// canonical texts again.
func collider(cl identCli) (identCli, bool) {
	i1, h1 := cl.iaText(), cl.hostText()
	for k := 1; k <= 4 && k < len(h1); k++ {
		i2, h2 := i1+h1[:k], h1[k:]
		ia, err := addr.ParseIA(i2)
		if err != nil || ia.String() != i2 {
			continue
		}
		ha, err := netip.ParseAddr(h2)
		if err != nil || ha.String() != h2 || ha.Zone() != "" {
			continue
		}
		d := identCli{sia: uint64(ia)}
		if ha.Is4() {
			d.st, d.sa = 0, ha.AsSlice()
		} else {
			d.st, d.sa = 3, ha.AsSlice()
		}
		if d.iaText()+d.hostText() == i1+h1 && !d.same(cl) {
			return d, true
		}
	}
	return identCli{}, false
}

func genIdent(g *runner, r *lib.Rand, n int) {
	c := g.c
	c.Comment("reset client identity")
	// the IA text of the library vs the model's, and: it never contains the separator
	ias := []uint64{0, 1, 0xffffffff, 0x100000000, 0xffffffffffff, 1 << 48, 0xffff << 48, ^uint64(0), 0x0001ff0000000110, 0x0001ff0000000001,
		0x0001000000010000, 0x00010000ffffffff, 0x0001000100000000}
	for i := 0; i < c.Scale(150, 1500); i++ {
		ias = append(ias, randIdentIA(r))
	}
	for _, ia := range ias {
		op := fmt.Sprintf("id.text %d", ia)
		ans, ok := g.do(op)
		c.Count("ident:ia-text")
		if ok && strings.Contains(ans, ",") {
			c.Fail("C06:ia-text-contains-separator", "addr.IA.String() contains the separator of the client identity", []string{op}, map[string]any{"answer": ans})
		}
	}
	for i := 0; i < n; i++ {
		var a, b identCli
		a.sia = randIdentIA(r)
		a.st, a.sa = randIdentHost(r)
		tag := ""
		switch k := r.Intn(100); {
		case k < 40:
			found := false
			for try := 0; try < 200 && !found; try++ {
				a.sia = randIdentIA(r)
				a.st, a.sa = randIdentHost(r)
				b, found = collider(a)
			}
			if !found {
				c.Count("ident:no-collider-found")
				continue
			}
			if r.Bool() {
				a, b = b, a
			}
			tag = "naive-concatenation-collides"
		case k < 55:
			b = a
			b.sia = a.sia ^ 1<<uint(r.Intn(64))
			if b.sia>>48 == 0 {
				b.sia |= 1 << 48
			}
			tag = "same-host-other-ia"
		case k < 62: // AS in decimal vs the same digits as a hex group
			a.sia = uint64(1+r.Intn(9))<<48 | uint64(r.Intn(9999))
			b = a
			b.sia = a.sia&^0xffffffffffff | 0xff00<<32 | a.sia&0xffff
			tag = "same-host-other-ia"
		case k < 75:
			b = a
			b.sa = append([]byte(nil), a.sa...)
			b.sa[len(b.sa)-1-r.Intn(2)] ^= byte(1 << r.Intn(8))
			tag = "same-ia-other-host"
		case k < 82: // IPv4 host vs the IPv4-mapped IPv6 host of the same digits
			a.st, a.sa = 0, []byte{10, byte(r.U64()), byte(r.U64()), byte(1 + r.Intn(250))}
			b = a
			b.st, b.sa = 3, append([]byte{0, 0, 0, 0, 0, 0, 0, 0, 0, 0, 0xff, 0xff}, a.sa...)
			tag = "same-ia-other-host"
		default:
			b = a
			tag = "same-client"
		}
		if a.same(identCli{0x0001ff0000000111, 0, []byte{127, 0, 13, 2}}) || b.same(identCli{0x0001ff0000000111, 0, []byte{127, 0, 13, 2}}) {
			continue // the sentinel's identity
		}
		sock := []string{"svc", "eh"}[r.Intn(2)]
		hopa := r.Intn(2)
		hopb := hopa
		if r.Chance(40) {
			hopb = 1 - hopa
		}
		op := identOp(sock, hopa, hopb, a, b)
		ans, ok := g.do(op)
		if !ok {
			continue
		}
		c.Count("ident:" + tag)
		c.Count("ident-outcome:" + strings.TrimPrefix(ans, "ok "))
		detail := map[string]any{"answer": ans, "class": tag, "client_a": a.iaText() + " " + a.hostText(), "client_b": b.iaText() + " " + b.hostText(),
			"x": fmt.Sprintf("%d.%d", identLast.x.Seconds, identLast.x.Fraction),
			"b_reply_rx": fmt.Sprintf("%d.%d", identLast.bRx.Seconds, identLast.bRx.Fraction), "b_reply_tx": fmt.Sprintf("%d.%d", identLast.bTx.Seconds, identLast.bTx.Fraction)}
		want := "ok a=basic b=basic a2=inter"
		if a.same(b) {
			want = "ok a=basic b=inter a2=basic"
		}
		switch {
		case ans == want:
		case !a.same(b) && strings.Contains(ans, " b=inter"):
			c.Fail("C06:foreign-record-served", "a client that never received timestamp X was answered in interleaved mode with the transmit time recorded for another client's exchange",
				[]string{op}, detail)
		case !a.same(b) && strings.HasPrefix(ans, "ok a=basic b=basic") && !strings.HasSuffix(ans, "a2=inter"):
			c.Fail("C06:own-record-lost", "a request of another client removed (or hid) the record of this client's exchange: its interleaved request quoting X was not served from the record",
				[]string{op}, detail)
		default:
			c.Fail("C06:identity-history", "client identity history not answered as the reply contract demands (want "+want+")", []string{op}, detail)
		}
	}
	// malformed ops: both sides must refuse them
	a := identCli{0x0001ff0000000110, 0, []byte{10, 1, 2, 3}}
	good := identOp("svc", 0, 0, a, a)
	for _, op := range []string{
		strings.Replace(good, "aia=1-ff00:0:110", "aia=1-ff00:0:11", 1), // IA text is not the text of asia
		strings.Replace(good, "ast=0", "ast=1", 1),
		strings.Replace(good, "asa=0a010203", "asa=0a0102", 1),
		strings.Replace(good, "sock=svc", "sock=x", 1),
		strings.Replace(good, "hopa=0", "hopa=2", 1),
		strings.Replace(good, " bhost=10.1.2.3", "", 1),
		strings.Replace(good, "ahost=10.1.2.3", "ahost=", 1),
		"id.text 18446744073709551616", "id.text 01", "id.text", "id.text x",
	} {
		if ans, ok := g.do(op); ok && ans != "bad-op" {
			c.Fail("C06:harness-bad-op", "malformed identity op accepted", []string{op}, map[string]any{"answer": ans})
		}
		c.Count("ident:malformed")
	}
	c.Comment("reset")
}
