// child.go: the real SCION listener runs in a child process (a panic kills the whole
// process); the parent talks to it over loopback UDP and restarts it when it dies.
package main

import (
	"bufio"
	"bytes"
	"context"
	"fmt"
	"io"
	"log/slog"
	"net"
	"os"
	osexec "os/exec"
	"strconv"
	"strings"
	"sync"
	"time"

	"example.com/scion-time/core/server"
	"example.com/scion-time/core/timebase"
	"example.com/scion-time/driver/clocks"
	"example.com/scion-time/net/ntske"
	"example.com/scion-time/net/scion"
)

// ---------------------------------------------------------------- child side

func childMain() {
	ip := net.ParseIP(os.Getenv("C13_IP"))
	port, _ := strconv.Atoi(os.Getenv("C13_PORT"))
	dscp, _ := strconv.Atoi(os.Getenv("C13_DSCP"))
	mode := os.Getenv("C13_MODE")
	zone := os.Getenv("C13_ZONE") // "lo": hardware timestamping on an interface that has none, i.e. no kernel timestamps
	log := slog.New(slog.NewTextHandler(io.Discard, &slog.HandlerOptions{Level: slog.LevelError + 8}))
	ctx := context.Background()
	timebase.RegisterClock(clocks.NewSystemClock(log, clocks.UnknownDrift))
	switch mode {
	case "srv":
		server.StartSCIONServer(ctx, log, "" /* daemonAddr */, &net.UDPAddr{IP: ip, Port: port, Zone: zone}, uint8(dscp), ntske.NewProvider())
	case "srvkeys":
		// real-derivation keys: fetchers on a fake daemon whose host-AS keys depend on
		// (protocol, fast-side IA and host, slow-side IA) as real DRKeys do
		server.VerifC13StartSCIONServer(ctx, log, fakeDaemon{}, &net.UDPAddr{IP: ip, Port: port}, uint8(dscp), ntske.NewProvider())
	case "srvgrpc":
		// the production connector (scion.NewDaemonConnector) on a stand-in gRPC daemon whose keys
		// rotate with the wall clock (keys.go)
		daddr, err := startGRPCFake()
		if err != nil {
			os.Exit(4)
		}
		dc := scion.NewDaemonConnector(ctx, daddr)
		if dc == nil {
			os.Exit(5)
		}
		server.VerifC13StartSCIONServer(ctx, log, dc, &net.UDPAddr{IP: ip, Port: port}, uint8(dscp), ntske.NewProvider())
	case "disp":
		server.StartSCIONDispatcher(ctx, log, &net.UDPAddr{IP: ip, Port: port, Zone: zone})
	default:
		os.Exit(3)
	}
	// the listener goroutines enable timestamping on their sockets first thing
	time.Sleep(100 * time.Millisecond)
	fmt.Println("ready")
	// exit with the parent
	io.Copy(io.Discard, os.Stdin)
	os.Exit(0)
}

// ---------------------------------------------------------------- parent side

type childCfg struct {
	mode string
	mock int
	lo   bool // listener sockets with zone "lo": no kernel rx / tx timestamps (modes srv with mock keys, disp)
}

func (c childCfg) ip() string {
	switch {
	case c.lo && c.mode == "disp":
		return "127.0.13.15"
	case c.lo:
		return "127.0.13.14"
	case c.mode == "srvkeys":
		return "127.0.13.11"
	case c.mode == "srvgrpc":
		return "127.0.13.12"
	case c.mode == "disp":
		return "127.0.13.5"
	case c.mock == 1:
		return "127.0.13.1"
	default:
		return "127.0.13.4"
	}
}

const (
	svcPort    = 10123
	childDSCP  = 46
	srcIP      = "127.0.13.2"
	fwdIP      = "127.0.13.3"
	endhost    = 30041
	sentinelSP = 64999
)

type child struct {
	cfg    childCfg
	cmd    *osexec.Cmd
	stdin  io.WriteCloser
	stderr *syncBuf
	done   chan struct{}
}

type syncBuf struct {
	mu sync.Mutex
	b  bytes.Buffer
}

func (s *syncBuf) Write(p []byte) (int, error) {
	s.mu.Lock()
	defer s.mu.Unlock()
	if s.b.Len() < 1<<20 {
		s.b.Write(p)
	}
	return len(p), nil
}
func (s *syncBuf) String() string { s.mu.Lock(); defer s.mu.Unlock(); return s.b.String() }

var children = map[childCfg]*child{}

var errSandbox = fmt.Errorf("sandbox")

func startChild(cfg childCfg) (*child, error) {
	exe, err := os.Executable()
	if err != nil {
		return nil, err
	}
	var last error
	for attempt := 0; attempt < 5; attempt++ {
		cmd := osexec.Command(exe)
		env := []string{}
		for _, e := range os.Environ() {
			if !strings.HasPrefix(e, "USE_MOCK_KEYS=") && !strings.HasPrefix(e, "C13_") {
				env = append(env, e)
			}
		}
		env = append(env, "C13_CHILD=1", "C13_IP="+cfg.ip(), "C13_PORT="+strconv.Itoa(svcPort),
			"C13_DSCP="+strconv.Itoa(childDSCP), "C13_MODE="+cfg.mode)
		if cfg.mock == 1 {
			env = append(env, "USE_MOCK_KEYS=true")
		}
		if cfg.lo {
			env = append(env, "C13_ZONE=lo")
		}
		cmd.Env = env
		ch := &child{cfg: cfg, cmd: cmd, stderr: &syncBuf{}, done: make(chan struct{})}
		cmd.Stderr = ch.stderr
		ch.stdin, _ = cmd.StdinPipe()
		out, _ := cmd.StdoutPipe()
		if err := cmd.Start(); err != nil {
			return nil, err
		}
		ready := make(chan bool, 1)
		go func() {
			sc := bufio.NewScanner(out)
			ok := false
			for sc.Scan() {
				if sc.Text() == "ready" {
					ok = true
					break
				}
			}
			ready <- ok
			io.Copy(io.Discard, out)
		}()
		go func() { cmd.Wait(); close(ch.done) }()
		select {
		case ok := <-ready:
			if ok {
				return ch, nil
			}
			last = fmt.Errorf("child did not get ready: %s", tail(ch.stderr.String()))
		case <-time.After(10 * time.Second):
			last = fmt.Errorf("child start timed out")
		}
		ch.kill()
		time.Sleep(200 * time.Millisecond)
	}
	return nil, last
}

func tail(s string) string {
	if len(s) > 400 {
		return s[len(s)-400:]
	}
	return s
}

func (c *child) alive() bool {
	select {
	case <-c.done:
		return false
	default:
		return true
	}
}

func (c *child) kill() {
	if c.stdin != nil {
		c.stdin.Close()
	}
	if c.cmd.Process != nil {
		c.cmd.Process.Kill()
	}
	select {
	case <-c.done:
	case <-time.After(3 * time.Second):
	}
}

func getChild(cfg childCfg) (*child, error) {
	if c := children[cfg]; c != nil {
		if c.alive() {
			return c, nil
		}
		delete(children, cfg)
	}
	c, err := startChild(cfg)
	if err != nil {
		return nil, err
	}
	children[cfg] = c
	return c, nil
}

func killChildren() {
	for k, c := range children {
		c.kill()
		delete(children, k)
	}
}

// panicLine extracts the panic message of a dead child.
func (c *child) panicLine() string {
	for _, l := range strings.Split(c.stderr.String(), "\n") {
		if strings.HasPrefix(l, "panic: ") {
			return strings.TrimPrefix(l, "panic: ")
		}
	}
	return "child exited: " + tail(c.stderr.String())
}
