// fwdext.go: op srv.fwd — the forwarding branch of runSCIONServer (end-host dispatcher) on packets
// with hop-by-hop / end-to-end extension headers, with and without kernel receive timestamps.
//
// The op line is that of srv.handle plus
//
//	zone=sw|none  the listener it is sent to gets kernel rx timestamps (sw) or none (zone "lo")
//	tso=0|1|2     the sender put an option of the dispatcher's timestamp type first / last into the E2E extension
//	post=0|1      a further E2E option (type 202) follows the authenticator
//
// and the answer of a forward describes the datagram that arrived at the destination socket,
// re-parsed with the SCION layers:
//
//	ok forward to=<addr>:<port> same=… chain=<hbh+e2e+udp|…> hbh=<opts> e2e=<opts> amac=<none|ok|bad>
//	ok forward to=<addr>:<port> garbled       (something arrived that does not parse as SCION/UDP)
//
// <opts>: the non-padding options in order, "<type>:<hex>" separated by commas ("-": none, "none": no such
// extension header); the option the dispatcher adds from its own receive timestamp is printed "253:ts".
// amac: the forwarded packet's authenticator verified over the forwarded packet under the key of the op line.
package main

import (
	"bytes"
	"fmt"
	"strings"

	"github.com/google/gopacket"
	"github.com/scionproto/scion/pkg/slayers"
	"github.com/scionproto/scion/pkg/spao"

	"example.com/scion-time/net/scion"

	"verifharness/lib"
)

func fwdWellFormed(p *pkt) bool {
	if p.e2e == 0 && (p.tso != 0 || p.post != 0) {
		return false
	}
	if p.zone == "none" && !(p.mode == "disp" || p.mode == "srv" && p.mock == 1) {
		return false // only these listeners exist in the no-timestamp regime
	}
	if p.mode != "disp" && p.mode != "srv" {
		return false
	}
	return len(p.tail) == 0
}

// fwdView is the forwarded datagram as an end host parses it.
type fwdView struct {
	chain   string
	hasHBH  bool
	hasE2E  bool
	hbhOpts []string
	e2eOpts []string // own timestamp option: "253:ts"
	amac    string
	err     error
}

func optText(t slayers.OptionType, d []byte) string {
	return fmt.Sprintf("%d:%s", t, lib.Hex(d))
}

func viewForwarded(p *pkt, raw []byte) *fwdView {
	v := &fwdView{amac: "none"}
	var (
		scn slayers.SCION
		hbh slayers.HopByHopExtn
		e2e slayers.EndToEndExtn
		udp slayers.UDP
		scm slayers.SCMP
	)
	scn.RecyclePaths()
	parser := gopacket.NewDecodingLayerParser(slayers.LayerTypeSCION, &scn, &hbh, &e2e, &udp, &scm)
	parser.IgnoreUnsupported = true
	decoded := make([]gopacket.LayerType, 0, 5)
	b := append([]byte(nil), raw...)
	if err := parser.DecodeLayers(b, &decoded); err != nil {
		v.err = err
		return v
	}
	names := []string{}
	for _, d := range decoded[1:] {
		switch d {
		case slayers.LayerTypeHopByHopExtn:
			v.hasHBH = true
			names = append(names, "hbh")
		case slayers.LayerTypeEndToEndExtn:
			v.hasE2E = true
			names = append(names, "e2e")
		case slayers.LayerTypeSCIONUDP:
			names = append(names, "udp")
		default:
			names = append(names, "other")
		}
	}
	v.chain = strings.Join(names, "+")
	if v.hasHBH {
		for _, o := range hbh.Options {
			if o.OptType != slayers.OptTypePad1 && o.OptType != slayers.OptTypePadN {
				v.hbhOpts = append(v.hbhOpts, optText(o.OptType, o.OptData))
			}
		}
	}
	if v.hasE2E {
		var au *slayers.EndToEndOption
		for _, o := range e2e.Options {
			switch {
			case o.OptType == slayers.OptTypePad1 || o.OptType == slayers.OptTypePadN:
			case o.OptType == scion.OptTypeTimestamp && !bytes.Equal(o.OptData, senderTsData):
				v.e2eOpts = append(v.e2eOpts, fmt.Sprintf("%d:ts", o.OptType))
			default:
				v.e2eOpts = append(v.e2eOpts, optText(o.OptType, o.OptData))
				if o.OptType == slayers.OptTypeAuthenticator && au == nil {
					au = o
				}
			}
		}
		if au != nil && len(au.OptData) == scion.PacketAuthOptDataLen && len(decoded) > 0 &&
			decoded[len(decoded)-1] == slayers.LayerTypeSCIONUDP {
			if key, err := p.key(); err == nil {
				out := make([]byte, 16)
				l4 := udp.Contents[:len(udp.Contents)+len(udp.Payload)]
				_, err := spao.ComputeAuthCMAC(spao.MACInput{
					Key: key, Header: slayers.PacketAuthOption{EndToEndOption: au}, ScionLayer: &scn,
					PldType: slayers.L4UDP, Pld: l4,
				}, make([]byte, spao.MACBufferSize), out)
				if err == nil {
					v.amac = "bad"
					if bytes.Equal(out, au.OptData[scion.PacketAuthMetadataLen:]) {
						v.amac = "ok"
					}
				}
			}
		}
	}
	return v
}

func optList(present bool, opts []string) string {
	if !present {
		return "none"
	}
	if len(opts) == 0 {
		return "-"
	}
	return strings.Join(opts, ",")
}

func fmtFwdExt(p *pkt, raw []byte) string {
	v := viewForwarded(p, raw)
	if v.err != nil {
		return "garbled"
	}
	return fmt.Sprintf("chain=%s hbh=%s e2e=%s amac=%s", v.chain, optList(v.hasHBH, v.hbhOpts), optList(v.hasE2E, v.e2eOpts), v.amac)
}

// sentOpts: what the sender put into the extension headers (the generator's own knowledge).
func (p *pkt) sentE2E() []string {
	var o []string
	if p.e2e == 0 {
		return nil
	}
	if p.tso == 1 {
		o = append(o, optText(scion.OptTypeTimestamp, senderTsData))
	}
	if p.pre == 1 {
		o = append(o, optText(preOptType, []byte{1, 2, 3, 4}))
	}
	if p.hasAu {
		o = append(o, optText(slayers.OptTypeAuthenticator, p.auth))
	}
	if p.post == 1 {
		o = append(o, optText(postOptType, []byte{7, 7, 7, 7, 7}))
	}
	if p.tso == 2 {
		o = append(o, optText(scion.OptTypeTimestamp, senderTsData))
	}
	return o
}

// fwdExtOracle: the property on the forwarded datagram itself (independent of the model): it parses,
// the hop-by-hop options and every end-to-end option of the sender other than one of the dispatcher's
// timestamp type arrive, in order, and an authenticator that verified on the received packet verifies
// on the forwarded one.
func fwdExtOracle(p *pkt, o *obs) []string {
	if o.fwd == nil {
		return []string{"unparseable"}
	}
	v := viewForwarded(p, o.fwdRaw)
	if v.err != nil {
		return []string{"unparseable"}
	}
	bad := []string{}
	if p.hbh >= 1 && (!v.hasHBH || len(v.hbhOpts) != 1 || v.hbhOpts[0] != optText(hbhOptType, hbhOptData(p.hbh))) {
		bad = append(bad, "hbh-dropped")
	}
	if p.hbh == 0 && v.hasHBH {
		bad = append(bad, "hbh-added")
	}
	tsT := fmt.Sprintf("%d:", scion.OptTypeTimestamp)
	i := 0
	for _, s := range p.sentE2E() {
		if strings.HasPrefix(s, tsT) {
			continue
		}
		for i < len(v.e2eOpts) && v.e2eOpts[i] != s {
			i++
		}
		if i == len(v.e2eOpts) {
			bad = append(bad, "e2e-option-dropped")
			break
		}
		i++
	}
	if p.hasAu && len(p.auth) == 28 && p.mac != "-" && p.mac != "err" && lib.Hex(p.auth[12:]) == p.mac && v.amac != "ok" {
		bad = append(bad, "authenticator-lost")
	}
	return bad
}

// genFwdExt: forwards (and the neighbouring non-forwards) of packets with extension headers, on the
// dispatcher and on the end-host-port sockets of the server, with and without kernel rx timestamps.
func genFwdExt(g *runner, r *lib.Rand, n int) {
	for i := 0; i < n; i++ {
		p := basePkt(r)
		p.fwdOp = true
		if r.Bool() {
			p.mode, p.mock, p.sock = "disp", 0, "eh"
		} else {
			p.mode, p.mock, p.sock = "srv", 1, "eh"
			if r.Chance(10) {
				p.sock = "svc"
			}
		}
		p.zone = []string{"sw", "none"}[r.Intn(2)]
		pickPath(r, p, []int{0, 0, 1, 1, 2}[r.Intn(5)])
		p.dp = []int{40000, 40001, 123, 1, 65535, svcPort + 1, endhost - 1, endhost + 1}[r.Intn(8)]
		if r.Chance(12) {
			p.dp = []int{svcPort, endhost}[r.Intn(2)]
		}
		p.dt, p.da = 0, []byte{127, 0, 13, 3}
		if r.Chance(10) {
			p.dt, p.da = 0, []byte{127, 0, 13, byte(7 + r.Intn(3))}
		}
		p.hbh = r.Intn(2)
		if p.hbh == 1 && r.Chance(50) {
			p.hbh = []int{2, 3, 4, 5, 6, 7, 12, 39, 40}[r.Intn(9)] // option sizes around the 4-byte line padding
		}
		if i < 8 { // every (hbh, e2e) shape in both regimes first
			p.hbh = i & 1
			p.zone = []string{"sw", "none"}[i>>1&1]
		}
		authKind := "none"
		if r.Chance(65) || (i < 8 && i&4 != 0) {
			p.e2e = 1
			p.pre = r.Intn(2)
			p.post = r.Intn(2)
			if r.Chance(25) {
				p.tso = 1 + r.Intn(2)
			}
			switch r.Intn(4) {
			case 0, 1:
				withAuth(p, []uint32{spiClient, spiServer}[r.Intn(2)], 0)
				authKind = "valid"
			case 2:
				withAuth(p, []uint32{spiClient, spiServer}[r.Intn(2)], 0)
				p.auth[12+r.Intn(16)] ^= 1 << uint(r.Intn(8))
				authKind = "altered"
			}
		}
		if r.Chance(40) {
			p.pld = r.Bytes(r.Intn(300))
		}
		finish(p)
		if authKind == "valid" {
			// the MAC of withAuth was computed before the other options were decided; it does not cover them
			if m, err := p.serverMAC(); err == nil {
				copy(p.auth[12:], m)
				p.mac = lib.Hex(m)
			}
		}
		badmac := p.dp == svcPort && p.mode == "srv" && p.hasAu && beU32(p.auth) == spiClient && p.mac != "-" && p.mac != "err" && lib.Hex(p.auth[12:]) != p.mac
		g.run(p, fmt.Sprintf("fwdext:%s:zone=%s:hbh=%d:e2e=%d:auth=%s:dp=%s", p.mode, p.zone, min(p.hbh, 2), p.e2e, authKind, portClass(p.dp)), badmac)
	}
}
