// c13, ntsreq.go: NTP requests carrying NTS extension fields (payload variant of the streams).
package main

import (
	"bytes"
	"encoding/binary"

	"verifharness/lib"
)

// ntsRequest returns a syntactically valid NTPv4 client request with NTS extension fields: a
// unique identifier, one or more cookies (key id / nonce / ciphertext triple) and an authenticator.
// No key material is involved: to every listener it is at best a request whose cookie names an
// unknown key. wellFormed=false damages the extension fields (lengths, order, truncation).
func ntsRequest(r *lib.Rand, fill byte, wellFormed bool) []byte {
	var b bytes.Buffer
	b.Write(ntpRequest(fill))
	ext := func(typ uint16, body []byte) {
		var h [4]byte
		binary.BigEndian.PutUint16(h[0:], typ)
		binary.BigEndian.PutUint16(h[2:], uint16(4+len(body)))
		b.Write(h[:])
		b.Write(body)
	}
	tlv := func(w *bytes.Buffer, typ uint16, v []byte) {
		var h [4]byte
		binary.BigEndian.PutUint16(h[0:], typ)
		binary.BigEndian.PutUint16(h[2:], uint16(len(v)))
		w.Write(h[:])
		w.Write(v)
	}
	ext(0x0104, r.Bytes(32)) // unique identifier
	for n := 1 + r.Intn(2); n > 0; n-- {
		var cookie bytes.Buffer
		tlv(&cookie, 0x0401, []byte{byte(r.Intn(2)), byte(r.Intn(4))}) // key id
		tlv(&cookie, 0x0501, r.Bytes(16))                               // nonce
		tlv(&cookie, 0x0601, r.Bytes(18+4*r.Intn(8)))                   // ciphertext
		for cookie.Len()%4 != 0 {
			cookie.WriteByte(0)
		}
		ext(0x0204, cookie.Bytes())
	}
	var auth bytes.Buffer
	auth.Write([]byte{0x00, 0x10, 0x00, 0x10}) // nonce length, ciphertext length
	auth.Write(r.Bytes(32))
	ext(0x0404, auth.Bytes())
	out := b.Bytes()
	if !wellFormed {
		switch r.Intn(3) {
		case 0:
			out = out[:48+r.Intn(len(out)-48)]
		case 1:
			out[50+r.Intn(2)] ^= byte(1 + r.Intn(255)) // first extension field's length
		default:
			out[48+r.Intn(len(out)-48)] ^= byte(1 + r.Intn(255))
		}
	}
	return out
}
