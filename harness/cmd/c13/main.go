// c13: correspondence + direct oracle for the SCION listener's decision logic
// (core/server/server_scion.go runSCIONServer) and net/scion/auth.go.
//
// The listener runs in a child process (re-exec of this binary with C13_CHILD=1) because the
// defects of F4 kill the process; the parent crafts SCION datagrams, sends them over
// loopback, and observes reply / forwarded datagram / silence / death.
package main

import (
	"bytes"
	"fmt"
	"net"
	"net/netip"
	"os"
	"strconv"
	"strings"
	"time"

	"github.com/scionproto/scion/pkg/slayers"

	"example.com/scion-time/net/ntp"
	"example.com/scion-time/net/scion"

	"verifharness/lib"
)

// ---------------------------------------------------------------- sockets of the parent

var (
	srcSocks [2]*net.UDPConn
	fwdSocks = map[string]*net.UDPConn{}
	sandbox  string // non-empty: loopback unusable, reason
)

func srcSock(i int) (*net.UDPConn, error) {
	if srcSocks[i] != nil {
		return srcSocks[i], nil
	}
	c, err := net.ListenUDP("udp4", &net.UDPAddr{IP: net.ParseIP(srcIP), Port: 0})
	if err != nil {
		return nil, err
	}
	srcSocks[i] = c
	return c, nil
}

// fwdSock binds the destination of a possible forward (only addresses in 127.0.13.0/24
// other than the children's own).
func fwdSock(da []byte, dp int) *net.UDPConn {
	if len(da) != 4 || da[0] != 127 || da[1] != 0 || da[2] != 13 || da[3] == 1 || da[3] == 4 || da[3] == 5 || da[3] == 11 || da[3] == 14 || da[3] == 15 || dp == 0 {
		return nil
	}
	key := fmt.Sprintf("%d.%d.%d.%d:%d", da[0], da[1], da[2], da[3], dp)
	if c, ok := fwdSocks[key]; ok {
		return c
	}
	if len(fwdSocks) > 200 {
		for k, c := range fwdSocks {
			c.Close()
			delete(fwdSocks, k)
		}
	}
	c, err := net.ListenUDP("udp4", &net.UDPAddr{IP: net.IP(da), Port: dp})
	if err != nil {
		fwdSocks[key] = nil
		return nil
	}
	fwdSocks[key] = c
	return c
}

// ---------------------------------------------------------------- one op against the real listener

// obs is what the last srv.handle observed (for the direct oracle in gen).
type obs struct {
	kind      string // reply | drop | forward | panic | sandbox
	reply     *parsed
	replyMAC  string // none | ok | bad
	replyMeta string // "<spi>:<alg>" of the reply's authenticator
	fwd       *parsed
	fwdRaw    []byte // the forwarded datagram as received (also when it does not parse)
	fwdErr    string // why it does not parse
	fwdFrom   netip.AddrPort
	wrongSock bool
	extra     int
	panicMsg  string
}

var last obs

func sentinel(p *pkt) *pkt {
	return &pkt{
		mode: p.mode, mock: p.mock, sock: p.sock, svc: svcPort, dscp: childDSCP, hop: p.hop, zone: p.zone,
		sia: 0x0001ff0000000111, dia: 0x0001ff0000000112, st: 0, dt: 0,
		sa: []byte{127, 0, 13, 2}, da: []byte{127, 0, 13, 1}, pt: 0, path: nil, rev: "0:-",
		l4: "udp", sp: sentinelSP, dp: svcPort, ulen: "ok", pld: ntpRequest(0x5e), mac: "-", ntp: "ok",
	}
}

func ntpRequest(fill byte) []byte {
	b := make([]byte, ntp.PacketLen)
	b[0] = 4<<3 | 3 // LI 0, VN 4, mode 3 (client)
	for i := 40; i < 48; i++ {
		b[i] = fill
	}
	return b
}

// isSentinelReply: no crafted packet uses port 64999, so either position identifies the
// sentinel's answer (a listener that forgets to exchange the ports still answers it).
func isSentinelReply(r *parsed) bool {
	return r.l4 == "udp" && (int(r.udp.DstPort) == sentinelSP || int(r.udp.SrcPort) == sentinelSP)
}

// epochMarker: in mode srvgrpc the six timestamp / sequence-number bytes of the authenticator
// (covered by the MAC, otherwise free) say how the request relates to the DRKey epochs, so that
// an op line is self-contained and replays at any later time:
// [6] = 0xE9, [7] bit 0 = wait for the next epoch change before sending, [8] = 128 + k: the MAC
// is computed under the key of epoch (epoch at send time + k). The MAC bytes and the mac= oracle
// of the op line are those of the moment the op was generated (equal iff k = 0 — all the model
// looks at); they are recomputed for the epoch the datagram is actually sent in.
func epochMarker(p *pkt) (wait bool, k int64, ok bool) {
	if p.mode != "srvgrpc" || !p.hasAu || len(p.auth) != 28 || p.auth[6] != 0xE9 {
		return false, 0, false
	}
	return p.auth[7]&1 != 0, int64(p.auth[8]) - 128, true
}

func setEpochMarker(p *pkt, wait bool, k int64) {
	p.auth[6], p.auth[7], p.auth[8] = 0xE9, 0, byte(128+k)
	if wait {
		p.auth[7] = 1
	}
}

// settleInEpoch: sleep until the wall clock is at least 350 ms past an epoch change and at
// least 1.2 s before the next (the machine is shared; the listener stamps the datagram a little
// after we send it).
func settleInEpoch(next bool) {
	for {
		now := time.Now()
		into := time.Duration(now.UnixNano() % int64(epochLen))
		if next {
			time.Sleep(epochLen - into + 400*time.Millisecond)
			next = false
			continue
		}
		if into < 350*time.Millisecond {
			time.Sleep(400*time.Millisecond - into)
			continue
		}
		if epochLen-into < 1200*time.Millisecond {
			time.Sleep(epochLen - into + 400*time.Millisecond)
			continue
		}
		return
	}
}

func handle(p *pkt) string {
	if p.mode != "srvgrpc" {
		ans := handleStable(p)
		if p.fwdOp && p.zone == "sw" && strings.HasPrefix(ans, "ok forward") && !strings.Contains(ans, ":ts") {
			// no timestamp option from a listener that gets kernel rx timestamps: the one innocent cause is a
			// listener goroutine of a fresh child that had not yet enabled timestamping; confirm once
			time.Sleep(80 * time.Millisecond)
			tsConfirmed++
			ans = handleStable(p)
		}
		return ans
	}
	wait, k, marked := epochMarker(p)
	for attempt := 0; attempt < 4; attempt++ {
		settleInEpoch(wait && attempt == 0)
		p.kep = epochOf(time.Now())
		if marked {
			key, err := hostHostKeyEpoch(p.dia, p.sia, p.da, p.sa, p.kep+k)
			if err == nil {
				if m, err := p.macUnder(key); err == nil {
					copy(p.auth[12:], m)
				}
			}
			if m, err := p.serverMAC(); err == nil {
				p.mac = lib.Hex(m)
			}
		}
		ans := handleStable(p)
		if epochOf(time.Now()) == p.kep || strings.HasPrefix(ans, "sandbox") || strings.HasPrefix(ans, "bad-op") {
			return ans
		}
	}
	last.kind = "sandbox"
	return "sandbox epoch-unstable"
}

func handleStable(p *pkt) string {
	last = obs{}
	if sandbox != "" {
		last.kind = "sandbox"
		return "sandbox " + sandbox
	}
	if p.svc != svcPort || p.dscp != childDSCP {
		return "bad-op" // the child's configuration is fixed
	}
	data, err := p.bytes()
	if err != nil {
		return "bad-op"
	}
	cfg := childCfg{mode: p.mode, mock: p.mock, lo: p.zone == "none"}
	for attempt := 0; ; attempt++ {
		ans, retry := handleOnce(p, cfg, data)
		if !retry || attempt >= 2 {
			// (only where an answer is at all plausible: a decodable NTP payload over UDP, or SCMP —
			// garbage that is silently dropped the first time is not worth a second run)
			if ans == "ok drop" && (p.l4 == "scmp" || p.l4 == "udp" && p.ntp == "ok") {
				// Silence is the one outcome a loaded machine can fake (a reply that is still on its
				// way when the sentinel's answer arrives, a listener socket that was not yet in the
				// SO_REUSEPORT group when the datagram was hashed): confirm it once, in isolation,
				// after letting stragglers arrive; a reply or forward seen then is the real outcome.
				time.Sleep(2 * time.Millisecond)
				keep := last
				if ans2, retry2 := handleOnce(p, cfg, data); !retry2 && ans2 != "ok drop" {
					dropsRefuted++
					return ans2
				}
				last = keep
			}
			return ans
		}
	}
}

// dropsRefuted counts silent outcomes that the confirmation run turned into a reply / forward
// (reported in the run's counters: a measure of how loaded the machine was)
var dropsRefuted int

// tsConfirmed counts forwards in the timestamping regime that were re-run because the dispatcher's
// timestamp option was missing
var tsConfirmed int

func handleOnce(p *pkt, cfg childCfg, data []byte) (ans string, retry bool) {
	ch, err := getChild(cfg)
	if err != nil {
		sandbox = "cannot start listener child: " + err.Error()
		last.kind = "sandbox"
		return "sandbox " + sandbox, false
	}
	src, err := srcSock(p.hop)
	other, err2 := srcSock(1 - p.hop)
	if err != nil || err2 != nil {
		sandbox = "cannot bind source sockets"
		last.kind = "sandbox"
		return "sandbox " + sandbox, false
	}
	port := svcPort
	if p.sock == "eh" {
		port = endhost
	}
	dst := &net.UDPAddr{IP: net.ParseIP(cfg.ip()), Port: port}
	fw := fwdSock(p.da, p.dp)
	drain(src)
	drain(other)
	if fw != nil {
		drain(fw)
	}
	last = obs{}
	if _, err := src.WriteToUDP(data, dst); err != nil {
		return "sandbox write: " + err.Error(), true
	}
	// The sentinel goes out from the same source socket: same 4-tuple, same SO_REUSEPORT
	// socket, same goroutine, hence processed after the crafted datagram.
	var sdata []byte
	if p.mode != "disp" {
		sdata, _ = sentinel(p).bytes()
	} else {
		// the dispatcher serves nothing; its sentinel is a forward to a socket of ours
		s := sentinel(p)
		s.da, s.dp = []byte{127, 0, 13, 6}, 40999
		sdata, _ = s.bytes()
	}
	var sfw *net.UDPConn
	if p.mode == "disp" {
		sfw = fwdSock([]byte{127, 0, 13, 6}, 40999)
		if sfw == nil {
			sandbox = "cannot bind dispatcher sentinel socket"
			return "sandbox " + sandbox, false
		}
		drain(sfw)
	}
	buf := make([]byte, 65536)
	alive := false
	for try := 0; try < 4 && !alive; try++ {
		if _, err := src.WriteToUDP(sdata, dst); err != nil {
			return "sandbox write: " + err.Error(), true
		}
		deadline := time.Now().Add(time.Duration(250*(try+1)) * time.Millisecond)
		if sfw != nil {
			sfw.SetReadDeadline(deadline)
			if _, _, err := sfw.ReadFromUDP(buf); err == nil {
				alive = true
			}
		} else {
			for {
				src.SetReadDeadline(deadline)
				n, _, err := src.ReadFromUDP(buf)
				if err != nil {
					break
				}
				r, err := parseDatagram(append([]byte(nil), buf[:n]...))
				if err != nil {
					last.extra++
					continue
				}
				if isSentinelReply(r) {
					alive = true
					break
				}
				if last.reply == nil {
					last.reply = r
				} else {
					last.extra++
				}
			}
		}
		if !alive && !ch.alive() {
			break
		}
	}
	if !alive {
		if !ch.alive() {
			last.kind = "panic"
			last.panicMsg = ch.panicLine()
			delete(children, cfg)
			cls := lib.PanicClass(last.panicMsg)
			return "panic " + cls, false
		}
		// alive but silent: sandbox trouble; restart and retry
		ch.kill()
		delete(children, cfg)
		return "sandbox sentinel-unanswered", true
	}
	// anything on the source socket in dispatcher mode, or late on either socket
	for _, s := range []*net.UDPConn{src, other} {
		for {
			s.SetReadDeadline(time.Now().Add(time.Millisecond))
			n, _, err := s.ReadFromUDP(buf)
			if err != nil {
				break
			}
			r, err := parseDatagram(append([]byte(nil), buf[:n]...))
			if err == nil && isSentinelReply(r) {
				continue
			}
			if s == other {
				last.wrongSock = true
			} else if err == nil && last.reply == nil {
				last.reply = r
			} else {
				last.extra++
			}
		}
	}
	if fw != nil {
		fw.SetReadDeadline(time.Now().Add(15 * time.Millisecond))
		n, from, err := fw.ReadFromUDPAddrPort(buf)
		if err == nil {
			last.fwdRaw = append([]byte(nil), buf[:n]...)
			if r, err := parseDatagram(append([]byte(nil), buf[:n]...)); err == nil {
				last.fwd, last.fwdFrom = r, from
			} else if p.fwdOp {
				// a datagram did arrive at the forwarding destination, but not one an end host can parse
				last.fwdErr, last.fwdFrom = err.Error(), from
			} else {
				last.extra++
			}
			fw.SetReadDeadline(time.Now().Add(time.Millisecond))
			if _, _, err := fw.ReadFromUDPAddrPort(buf); err == nil {
				last.extra++
			}
		}
	}
	switch {
	case last.reply != nil && last.fwd != nil:
		last.kind = "both"
		return "ok reply+forward", false
	case last.reply != nil:
		last.kind = "reply"
		return "ok reply " + fmtReply(p, last.reply), false
	case last.fwd != nil:
		last.kind = "forward"
		if p.fwdOp {
			return "ok forward " + fmtForward(p, last.fwd) + " " + fmtFwdExt(p, last.fwdRaw), false
		}
		return "ok forward " + fmtForward(p, last.fwd), false
	case last.fwdErr != "":
		last.kind = "forward"
		return fmt.Sprintf("ok forward to=%s:%d garbled", lib.Hex(p.da), p.dp), false
	}
	last.kind = "drop"
	return "ok drop", false
}

func drain(c *net.UDPConn) {
	buf := make([]byte, 65536)
	for {
		c.SetReadDeadline(time.Now().Add(200 * time.Microsecond))
		if _, _, err := c.ReadFromUDP(buf); err != nil {
			return
		}
	}
}

func fmtReply(p *pkt, r *parsed) string {
	var sb strings.Builder
	hop := p.hop
	if last.wrongSock {
		hop = 1 - p.hop
	}
	fmt.Fprintf(&sb, "hop=%d tc=%d sia=%d dia=%d st=%d dt=%d sa=%s da=%s pt=%d path=%s",
		hop, r.scn.TrafficClass, uint64(r.scn.SrcIA), uint64(r.scn.DstIA), r.scn.SrcAddrType, r.scn.DstAddrType,
		lib.Hex(r.scn.RawSrcAddr), lib.Hex(r.scn.RawDstAddr), r.scn.PathType, lib.Hex(r.pathRaw))
	last.replyMAC = "none"
	au := "none"
	if r.hasE2E {
		if opt, err := r.e2e.FindOption(slayers.OptTypeAuthenticator); err == nil {
			if len(opt.OptData) == scion.PacketAuthOptDataLen {
				spi, alg := scion.PacketAuthOptMetadata(opt)
				au = fmt.Sprintf("%d:%d", spi, alg)
				last.replyMeta = au
				key, kerr := p.key()
				if r.l4 == "udp" && kerr == nil && replyMACok(r, opt, key) {
					last.replyMAC = "ok"
				} else {
					last.replyMAC = "bad"
				}
			} else {
				au = "malformed"
			}
			if len(r.e2e.Options) != 1 {
				au += "+opts"
			}
		} else {
			au = "e2e-without-auth"
		}
	}
	if r.l4 == "udp" {
		pl := lib.Hex(r.udp.Payload)
		var q ntp.Packet
		if len(r.udp.Payload) == ntp.PacketLen && ntp.DecodePacket(&q, r.udp.Payload) == nil && q.Mode() == ntp.ModeServer {
			pl = "ntp"
		}
		fmt.Fprintf(&sb, " l4=udp sp=%d dp=%d auth=%s pld=%s", r.udp.SrcPort, r.udp.DstPort, au, pl)
	} else {
		fmt.Fprintf(&sb, " l4=scmp:%d:%d auth=%s pld=%s", r.scmp.TypeCode.Type(), r.scmp.TypeCode.Code(), au, lib.Hex(r.scmp.Payload))
	}
	return sb.String()
}

// fmtForward: destination and whether header fields / ports / payload are the request's.
func fmtForward(p *pkt, r *parsed) string {
	diff := []string{}
	chk := func(name string, ok bool) {
		if !ok {
			diff = append(diff, name)
		}
	}
	chk("l4", r.l4 == "udp")
	chk("tc", int(r.scn.TrafficClass) == p.tc)
	chk("sia", uint64(r.scn.SrcIA) == p.sia)
	chk("dia", uint64(r.scn.DstIA) == p.dia)
	chk("st", int(r.scn.SrcAddrType) == p.st)
	chk("dt", int(r.scn.DstAddrType) == p.dt)
	chk("sa", bytes.Equal(r.scn.RawSrcAddr, p.sa))
	chk("da", bytes.Equal(r.scn.RawDstAddr, p.da))
	chk("pt", int(r.scn.PathType) == p.pt)
	chk("path", bytes.Equal(r.pathRaw, p.path))
	if r.l4 == "udp" {
		chk("sp", int(r.udp.SrcPort) == p.sp)
		chk("dp", int(r.udp.DstPort) == p.dp)
		chk("pld", bytes.Equal(r.udp.Payload, p.pld))
	}
	same := "1"
	if len(diff) > 0 {
		same = "0:" + strings.Join(diff, ",")
	}
	// the socket the datagram arrived on is (p.da, p.dp) by construction of fwdSock
	return fmt.Sprintf("to=%s:%d same=%s", lib.Hex(p.da), p.dp, same)
}

// ---------------------------------------------------------------- exec

func exec(toks []string) string {
	if len(toks) == 0 {
		return "bad-op"
	}
	switch toks[0] {
	case "srv.handle":
		p, ok := parseOp(toks[1:], false)
		if !ok {
			return "bad-op"
		}
		return handle(p)
	case "srv.fwd":
		p, ok := parseOp(toks[1:], true)
		if !ok {
			return "bad-op"
		}
		return handle(p)
	case "srv.ident":
		return identExec(toks[1:])
	case "id.text":
		return idTextExec(toks[1:])
	case "auth.meta":
		if len(toks) != 2 {
			return "bad-op"
		}
		b, ok := unhex(toks[1])
		if !ok {
			return "bad-op"
		}
		spi, alg := scion.PacketAuthOptMetadata(&slayers.EndToEndOption{OptData: b})
		return fmt.Sprintf("ok %d %d", spi, alg)
	case "auth.mac":
		if len(toks) != 2 {
			return "bad-op"
		}
		b, ok := unhex(toks[1])
		if !ok {
			return "bad-op"
		}
		return "ok " + lib.Hex(scion.PacketAuthOptMAC(&slayers.EndToEndOption{OptData: b}))
	case "auth.prepare":
		if len(toks) != 4 {
			return "bad-op"
		}
		b, ok := unhex(toks[1])
		spi, err1 := strconv.ParseUint(toks[2], 10, 32)
		alg, err2 := strconv.ParseUint(toks[3], 10, 8)
		if !ok || err1 != nil || err2 != nil || canon(toks[2]) || canon(toks[3]) {
			return "bad-op"
		}
		opt := &slayers.EndToEndOption{OptData: append([]byte(nil), b...)}
		scion.PreparePacketAuthOpt(opt, uint32(spi), uint8(alg))
		return fmt.Sprintf("ok %s %d %d:%d", lib.Hex(opt.OptData), opt.OptType, opt.OptAlign[0], opt.OptAlign[1])
	}
	return "bad-op"
}

// canon reports a non-canonical decimal (leading zero / sign).
func canon(s string) bool {
	return s == "" || (len(s) > 1 && s[0] == '0') || s[0] == '+' || s[0] == '-'
}

func main() {
	if os.Getenv("C13_CHILD") == "1" {
		childMain()
		return
	}
	isolate()
	defer killChildren()
	lib.Main(exec, gen)
}
