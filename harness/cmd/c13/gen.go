// gen.go: case generators and the direct oracle (property predicate on the listener's own
// outputs, independent of the Lean model).
package main

import (
	"bytes"
	"fmt"
	"os"
	"strings"
	"time"

	"github.com/scionproto/scion/pkg/slayers/path"
	pscion "github.com/scionproto/scion/pkg/slayers/path/scion"

	"example.com/scion-time/net/scion"

	"verifharness/lib"
)

const (
	spiClient = scion.PacketAuthSPIClient
	spiServer = scion.PacketAuthSPIServer
)

// ---------------------------------------------------------------- path construction

func scionPath(r *lib.Rand, segs []int) []byte {
	d := &pscion.Decoded{}
	n := 0
	for i, s := range segs {
		d.PathMeta.SegLen[i] = uint8(s)
		n += s
	}
	d.NumINF = len(segs)
	d.NumHops = n
	d.PathMeta.CurrINF = uint8(len(segs) - 1)
	d.PathMeta.CurrHF = uint8(n - 1)
	for range segs {
		d.InfoFields = append(d.InfoFields, path.InfoField{ConsDir: r.Bool(), Peer: false, SegID: uint16(r.U64()), Timestamp: uint32(r.U64())})
	}
	for i := 0; i < n; i++ {
		hf := path.HopField{ExpTime: uint8(r.U64()), ConsIngress: uint16(r.U64()), ConsEgress: uint16(r.U64())}
		copy(hf.Mac[:], r.Bytes(6))
		d.HopFields = append(d.HopFields, hf)
	}
	b := make([]byte, d.Len())
	if err := d.SerializeTo(b); err != nil {
		panic(err)
	}
	return b
}

func oneHopPath(r *lib.Rand, complete bool) []byte {
	b := r.Bytes(32)
	b[0] &= 0x01 // info field flags: keep reserved bits clear
	b[1] = 0
	b[8] &= 0x03
	b[20] &= 0x03
	if complete {
		if b[22] == 0 && b[23] == 0 {
			b[23] = 7
		}
	} else {
		b[22], b[23] = 0, 0 // second hop ConsIngress = 0: not yet filled in
	}
	return b
}

// pickPath sets pt/path/rev.
func pickPath(r *lib.Rand, p *pkt, kind int) string {
	name := ""
	switch kind {
	case 0:
		p.pt, p.path, name = 0, nil, "empty"
	case 1:
		segs := [][]int{{1}, {2}, {3}, {2, 2}, {1, 3}, {2, 1, 2}, {5, 4, 3}, {8}, {20, 20, 20}}[r.Intn(9)]
		p.pt, p.path, name = 1, scionPath(r, segs), fmt.Sprintf("scion%d", len(segs))
	case 2:
		p.pt, p.path, name = 2, oneHopPath(r, true), "onehop"
	case 3:
		p.pt, p.path, name = 2, oneHopPath(r, false), "onehop-incomplete"
	default:
		p.pt, p.path, name = 4+r.Intn(3), r.Bytes(4*r.Intn(6)), "unknown-type"
	}
	p.rev = reverseOracle(p.pt, p.path)
	return name
}

// ---------------------------------------------------------------- base packets

func randAddr(r *lib.Rand, p *pkt) {
	if r.Chance(50) {
		p.st, p.sa = 0, []byte{10, byte(r.U64()), byte(r.U64()), byte(1 + r.Intn(250))}
	} else {
		p.st, p.sa = 3, append([]byte{0xfd, 0x00}, r.Bytes(14)...)
	}
	if r.Chance(50) {
		p.dt, p.da = 0, []byte{127, 0, 13, 1}
	} else {
		p.dt, p.da = 3, append([]byte{0xfd, 0x01}, r.Bytes(14)...)
	}
}

func basePkt(r *lib.Rand) *pkt {
	p := &pkt{mode: "srv", mock: 1, svc: svcPort, dscp: childDSCP}
	p.sock = []string{"svc", "eh"}[r.Intn(2)]
	p.hop = r.Intn(2)
	p.tc = int(r.U64() & 0xff)
	p.sia = 0x0001ff0000000000 | r.U64()&0xffff
	p.dia = 0x0002ff0000000000 | r.U64()&0xffff
	randAddr(r, p)
	p.l4 = "udp"
	p.sp = int(r.Range(1, 64000))
	p.dp = svcPort
	p.ulen = "ok"
	p.pld = ntpRequest(byte(r.U64()))
	p.mac = "-"
	p.hbh = 0
	if r.Chance(15) {
		p.hbh = 1
	}
	return p
}

// finish computes the oracle inputs that depend on the whole packet.
func finish(p *pkt) {
	p.ntp = ntpOracle(p.pld, p.sp)
	p.mac = "-"
	if m, err := p.serverMAC(); err == nil {
		p.mac = lib.Hex(m)
	} else if err.Error() != "n/a" {
		p.mac = "err"
	}
}

// withAuth adds an authenticator with the given metadata and the valid MAC for it.
func withAuth(p *pkt, spi uint32, alg uint8) {
	p.e2e, p.hasAu = 1, true
	p.auth = make([]byte, 28)
	p.auth[0], p.auth[1], p.auth[2], p.auth[3], p.auth[4] = byte(spi>>24), byte(spi>>16), byte(spi>>8), byte(spi), alg
	if m, err := p.serverMAC(); err == nil {
		copy(p.auth[12:], m)
	}
}

// ---------------------------------------------------------------- run one op + direct oracle

type runner struct {
	c        *lib.Ctx
	sandboxN int
	perSig   map[string]int
	hist     []string // ops of the current history so far (nil: stateless op)
	inHist   bool
}

func (g *runner) do(op string) (string, bool) {
	ans := lib.Try(func() string { return exec(strings.Fields(op)) })
	if strings.HasPrefix(ans, "sandbox sentinel-unanswered") && os.Getenv("C13_NETNS") == "1" {
		// private loopback, listener process alive, yet a well-formed request from the same
		// socket stays unanswered after restarts: not a sandbox matter
		g.c.Fail("C13:sentinel-unanswered", "listener alive but a well-formed NTP request sent after this datagram is not answered",
			[]string{op}, map[string]any{"answer": ans})
		sandbox = "listener silent"
	}
	if strings.HasPrefix(ans, "sandbox") {
		g.sandboxN++
		if g.sandboxN == 1 {
			g.c.NotExecuted("srv.handle over loopback: " + ans)
		}
		return ans, false
	}
	g.c.Emit(op, ans)
	return ans, true
}

// run executes p and evaluates the property on the observation. want describes what the
// generator knows independently of any model:
//
//	badmac  – a MAC byte was altered on an expected-SPI/alg authenticator (must not be served)
func (g *runner) run(p *pkt, tag string, badmac bool) string {
	c := g.c
	op := p.op()
	ans, ok := g.do(op)
	if !ok {
		return ans
	}
	replay := append(append([]string{}, g.hist...), op)
	if g.inHist {
		g.hist = replay
	}
	c.Count("case:" + tag)
	o := last
	c.Count("outcome:" + o.kind)
	fail := func(sig, what string, detail map[string]any) {
		// lib caps the failure log at 200 records: keep a few per signature so that no class
		// of failure hides another one
		if g.perSig == nil {
			g.perSig = map[string]int{}
		}
		g.perSig[sig]++
		c.Count("fail:" + sig)
		if g.perSig[sig] <= 8 {
			c.Fail(sig, what, replay, detail)
		}
	}
	if o.extra > 0 {
		fail("C13:extra-datagram", "more than one datagram came back for one request", map[string]any{"answer": ans, "extra": o.extra})
	}
	switch o.kind {
	case "panic":
		fail("C08Scion:listener-died", "one datagram killed the SCION listener process (F4)",
			map[string]any{"panic": o.panicMsg, "answer": ans})
	case "both":
		fail("C13:reply-and-forward", "a datagram was both answered and forwarded", map[string]any{"answer": ans})
	case "reply":
		r := o.reply
		if badmac {
			fail("C13:bad-mac-served", "request with expected SPI/algorithm and a MAC that does not verify was served",
				map[string]any{"answer": ans})
		}
		if o.wrongSock {
			fail("C13:reply-next-hop", "reply did not go to the previous hop (underlay source of the request)", map[string]any{"answer": ans})
		}
		bad := []string{}
		chk := func(n string, ok bool) {
			if !ok {
				bad = append(bad, n)
			}
		}
		chk("src-ia", uint64(r.scn.SrcIA) == p.dia)
		chk("dst-ia", uint64(r.scn.DstIA) == p.sia)
		chk("src-type", int(r.scn.SrcAddrType) == p.dt)
		chk("dst-type", int(r.scn.DstAddrType) == p.st)
		chk("src-addr", bytes.Equal(r.scn.RawSrcAddr, p.da))
		chk("dst-addr", bytes.Equal(r.scn.RawDstAddr, p.sa))
		chk("path-reversed", p.rev != "err" && fmt.Sprintf("%d:%s", r.scn.PathType, lib.Hex(r.pathRaw)) == p.rev)
		if r.l4 == "udp" {
			// the reply's UDP length field says exactly how much L4 data follows: the bytes the reply's
			// authenticator covers (UDP header + payload by the length field) are all the L4 bytes sent
			chk("udp-length", int(r.udp.Length) == r.l4len && len(r.l4raw) == r.l4len)
		}
		if p.l4 == "udp" {
			chk("l4", r.l4 == "udp")
			if r.l4 == "udp" {
				chk("src-port", int(r.udp.SrcPort) == p.dp)
				chk("dst-port", int(r.udp.DstPort) == p.sp)
			}
			chk("served-port", p.dp == svcPort)
		} else {
			chk("l4", r.l4 == "scmp")
			if r.l4 == "scmp" {
				chk("scmp-type", (p.scmpT == 128 && r.scmp.TypeCode.Type() == 129) || (p.scmpT == 130 && r.scmp.TypeCode.Type() == 131))
				chk("scmp-payload", bytes.Equal(r.scmp.Payload, p.pld))
			}
		}
		if len(bad) > 0 {
			fail("C13:reply-addressing:"+bad[0], "reply fields are not the exchange of the request's: "+strings.Join(bad, ","),
				map[string]any{"answer": ans})
		}
		// authenticated reply iff verified request; the client must be able to verify it
		verified := (p.mock == 1 || p.mode == "srvkeys" || p.mode == "srvgrpc") && p.hasAu && len(p.auth) == 28 && p.l4 == "udp" && p.mac != "err" && p.mac != "-" &&
			lib.Hex(p.auth[12:]) == p.mac && beU32(p.auth) == spiClient && p.auth[4] == 0
		switch {
		case verified && o.replyMAC != "ok":
			fail("C13:reply-auth", "reply to a verified request carries no authenticator the client verifies",
				map[string]any{"answer": ans, "reply_mac": o.replyMAC})
		case verified && o.replyMeta != fmt.Sprintf("%d:0", spiServer):
			fail("C13:reply-auth-spi", "reply authenticator does not carry the server SPI / expected algorithm (the client rejects it)",
				map[string]any{"answer": ans, "reply_meta": o.replyMeta})
		case !verified && o.replyMAC != "none":
			fail("C13:reply-auth-unverified", "reply to an unverified request carries an authenticator",
				map[string]any{"answer": ans, "reply_mac": o.replyMAC})
		}
		if verified {
			c.Count("reply:authenticated")
		}
	case "forward":
		bad := []string{}
		if p.sock != "eh" {
			bad = append(bad, "not-received-on-endhost-port")
		}
		if p.dp == endhost {
			bad = append(bad, "forwarded-to-endhost-port")
		}
		if p.mode != "disp" && p.dp == svcPort {
			bad = append(bad, "own-service-port")
		}
		if p.fwdOp {
			// the forwarded datagram re-parsed: extension headers, options, authenticator (fwdext.go)
			if o.fwd != nil && !strings.Contains(ans, " same=1 ") {
				bad = append(bad, "changed")
			}
			bad = append(bad, fwdExtOracle(p, &o)...)
		} else if !strings.HasSuffix(ans, "same=1") {
			bad = append(bad, "changed")
		}
		if len(bad) > 0 {
			fail("C13:forward:"+bad[0], "forwarding rule violated: "+strings.Join(bad, ","), map[string]any{"answer": ans})
		}
	}
	// forwarding, the other direction: the generator built a well-formed UDP packet for another
	// end-host port and sent it to the end-host port of a listener that does not serve that port.
	// (The sentinel is handled after it by the same goroutine, so a forward would have arrived.)
	if p.wantFwd && o.kind != "forward" && o.kind != "both" && o.kind != "panic" {
		fail("C13:forward:not-forwarded", "packet received on the end-host port and addressed to another end-host port was not forwarded ("+o.kind+")",
			map[string]any{"answer": ans, "dst_port": p.dp, "listener": p.mode})
	}
	return ans
}

func beU32(b []byte) uint32 {
	return uint32(b[0])<<24 | uint32(b[1])<<16 | uint32(b[2])<<8 | uint32(b[3])
}

// ---------------------------------------------------------------- generators

func gen(c *lib.Ctx) {
	g := &runner{c: c}
	if os.Getenv("C13_PART") == "ident" {
		// property C06 runs only the client-identity histories of this harness
		genIdent(g, c.Rand.Fork("ident"), c.Scale(150, 1500))
		killChildren()
		return
	}
	if os.Getenv("C13_PART") == "reframe" { // development: the re-framed requests only
		genReframe(g, c.Rand.Fork("reframe"), c.Scale(60, 400))
		killChildren()
		return
	}
	if os.Getenv("C13_PART") == "fwdext" { // development: forwards with extension headers only
		genFwdExt(g, c.Rand.Fork("fwdext"), c.Scale(400, 4000))
		killChildren()
		return
	}
	if os.Getenv("C13_PART") == "epochs" {
		genEpochHistories(g, c.Rand.Fork("epochs"), c.Scale(2, 8))
		killChildren()
		return
	}
	genAuthFuncs(c)
	c.Comment("reset stateless ops")
	genMalformed(g, c.Rand.Fork("malformed"), c.Scale(80, 400))
	genNoMock(g, c.Rand.Fork("nomock"), c.Scale(150, 1500))
	genServe(g, c.Rand.Fork("serve"), c.Scale(1500, 15000))
	genMutations(g, c.Rand.Fork("mut"), c.Scale(15, 150))
	genReframe(g, c.Rand.Fork("reframe"), c.Scale(60, 400))
	genPorts(g, c.Rand.Fork("ports"), c.Scale(800, 7000))
	genSCMP(g, c.Rand.Fork("scmp"), c.Scale(500, 5000))
	genDispatcher(g, c.Rand.Fork("disp"), c.Scale(300, 3000))
	genFwdExt(g, c.Rand.Fork("fwdext"), c.Scale(400, 2500))
	genKeyHistories(g, c.Rand.Fork("keys"), c.Scale(60, 600))
	if os.Getenv("C13_EPOCHS") == "1" {
		// waits for real DRKey epoch changes (a few seconds each): only where property C13 asks for it
		genEpochHistories(g, c.Rand.Fork("epochs"), c.Scale(2, 8))
	}
	genIdent(g, c.Rand.Fork("ident"), c.Scale(60, 600))
	// how often an observation had to be confirmed by a second, isolated run (load of the machine)
	for i := 0; i < dropsRefuted; i++ {
		c.Count("confirm:silence-refuted")
	}
	for i := 0; i < tsConfirmed; i++ {
		c.Count("confirm:forward-without-timestamp-option-rerun")
	}
	killChildren()
}

// genAuthFuncs: net/scion/auth.go on byte strings of every length 0..40 (in-process).
func genAuthFuncs(c *lib.Ctx) {
	r := c.Rand.Fork("authfuncs")
	for n := 0; n <= 40; n++ {
		for k := 0; k < c.Scale(6, 40); k++ {
			b := r.Bytes(n)
			if n >= 5 && r.Chance(40) {
				spi := []uint32{spiClient, spiServer}[r.Intn(2)]
				b[0], b[1], b[2], b[3], b[4] = byte(spi>>24), byte(spi>>16), byte(spi>>8), byte(spi), 0
			}
			c.Dof("auth.meta %s", lib.Hex(b))
			c.Dof("auth.mac %s", lib.Hex(b))
			spi := uint32(r.U64())
			switch r.Intn(4) {
			case 0:
				spi = spiClient
			case 1:
				spi = spiServer
			}
			alg := uint8(r.U64())
			if r.Chance(50) {
				alg = 0
			}
			a := c.Dof("auth.prepare %s %d %d", lib.Hex(b), spi, alg)
			c.Count(fmt.Sprintf("authfuncs:len%s28", map[bool]string{true: "=", false: "!="}[n == 28]))
			// direct oracle: metadata(prepare spi alg) = (spi, alg)
			if f := strings.Fields(a); len(f) >= 2 && f[0] == "ok" {
				m := c.Dof("auth.meta %s", f[1])
				if n == 28 && m != fmt.Sprintf("ok %d %d", spi, alg) {
					c.Fail("C13:meta-prepare", "PacketAuthOptMetadata(PreparePacketAuthOpt(spi, alg)) != (spi, alg)",
						[]string{fmt.Sprintf("auth.prepare %s %d %d", lib.Hex(b), spi, alg), "auth.meta " + f[1]}, map[string]any{"got": m})
				}
			}
		}
	}
}

// genServe: requests to the service port over all address families, path kinds,
// authenticator variants, payload variants.
func genServe(g *runner, r *lib.Rand, n int) {
	for i := 0; i < n; i++ {
		p := basePkt(r)
		pk := []int{0, 0, 1, 1, 1, 2, 0, 1}[r.Intn(8)]
		pname := pickPath(r, p, pk)
		tag := "serve:" + pname
		badmac := false
		switch r.Intn(10) {
		case 0, 1: // no extension
			tag += ":noauth"
		case 2: // extension without authenticator
			p.e2e, p.pre = 1, 1
			tag += ":e2e-noauth"
		case 3, 4, 5: // valid authenticator
			if r.Chance(30) {
				p.pre = 1
			}
			withAuth(p, spiClient, 0)
			tag += ":auth-valid"
		case 6: // altered MAC byte
			withAuth(p, spiClient, 0)
			p.auth[12+r.Intn(16)] ^= byte(1 << r.Intn(8))
			badmac = true
			tag += ":auth-badmac"
		case 7: // other SPI
			spi := []uint32{spiServer, uint32(r.U64()), spiClient ^ 1<<uint(r.Intn(32))}[r.Intn(3)]
			withAuth(p, spi, 0)
			if r.Chance(50) {
				p.auth[12+r.Intn(16)] ^= 0x80
			}
			tag += ":auth-otherspi"
			if spi == spiClient {
				tag = "serve:skip"
			}
		case 8: // other algorithm
			withAuth(p, spiClient, uint8(1+r.Intn(255)))
			if r.Chance(50) {
				p.auth[12+r.Intn(16)] ^= 0x80
			}
			tag += ":auth-otheralg"
		case 9: // payload variants
			switch r.Intn(5) {
			case 0:
				p.pld = p.pld[:r.Intn(48)]
			case 1:
				p.pld[0] = byte(r.U64()) // LI / version / mode
			case 2:
				p.pld[0] = 4<<3 | byte(r.Intn(8))
			case 3:
				p.pld[0] = byte(r.Intn(8))<<3 | 3
			case 4:
				p.pld[0] = byte(r.Intn(4))<<6 | 4<<3 | 3
			}
			if r.Chance(50) {
				withAuth(p, spiClient, 0)
			}
			tag += ":payload"
		}
		if tag == "serve:skip" {
			continue
		}
		finish(p)
		g.run(p, tag, badmac)
	}
}

// genReframe: re-framed authenticated requests. An on-path attacker without the key takes a verified
// request `pre|H|P` (H: UDP header, length field 8+|P|) and sends `pre'|H'|F|H|P` (front: F a request of
// its own making where the length field points, the authentic UDP datagram behind it) or `pre'|H'|P|H''|F`
// (mirror: the authentic part in front, junk behind), the UDP length field as in the original and the
// authenticator option unchanged. The MAC of the option covers H|P. C13's server clause: a request
// whose MAC does not verify over the received packet — over the bytes the listener decodes and answers —
// is never served. `mac=` of the op is the MAC over the UDP header and the payload the length field delimits.
func genReframe(g *runner, r *lib.Rand, n int) {
	for i := 0; i < n; i++ {
		a := basePkt(r)
		pname := pickPath(r, a, []int{0, 0, 1, 2}[r.Intn(4)])
		if r.Chance(30) {
			a.pre = 1
		}
		withAuth(a, spiClient, 0)
		finish(a)
		ab, err := a.bytes()
		if err != nil || a.mac == "-" || a.mac == "err" {
			continue
		}
		authentic := ab[len(ab)-8-len(a.pld):] // H|P as the client sent it
		forged := ntpRequest(byte(r.U64()))
		forged[1] = byte(1 + r.Intn(15))
		for bytes.Equal(forged, a.pld) {
			forged[47] ^= 0xff
		}
		// front: the attacker's request where the length field points
		f := *a
		f.auth = append([]byte(nil), a.auth...)
		f.pld = forged
		f.ulen = "tail" + lib.Hex(authentic)
		f.tail = authentic
		finish(&f)
		g.run(&f, "reframe:front:"+pname, true)
		// mirror: the authentic request in front, the attacker's bytes behind (harmless: served as the
		// authentic request it is, the trailing bytes are not looked at)
		m := *a
		m.auth = append([]byte(nil), a.auth...)
		junk := append(append([]byte(nil), authentic[:8]...), forged...)
		m.ulen = "tail" + lib.Hex(junk)
		m.tail = junk
		finish(&m)
		g.run(&m, "reframe:mirror:"+pname, false)
		// and the original, for reference
		if r.Chance(30) {
			g.run(a, "reframe:original:"+pname, false)
		}
	}
}

// genMutations: a verified request, then every single-byte mutation of MAC (16), metadata
// (12) and of the covered bytes (payload, UDP ports, addresses, ISD-AS, path type bytes).
func genMutations(g *runner, r *lib.Rand, n int) {
	for i := 0; i < n; i++ {
		base := basePkt(r)
		pickPath(r, base, []int{0, 1, 1, 2}[r.Intn(4)])
		if r.Chance(30) {
			base.pre = 1
		}
		withAuth(base, spiClient, 0)
		finish(base)
		g.run(base, "mut:base", false)
		clone := func() *pkt {
			q := *base
			q.auth = append([]byte(nil), base.auth...)
			q.pld = append([]byte(nil), base.pld...)
			q.sa = append([]byte(nil), base.sa...)
			q.da = append([]byte(nil), base.da...)
			q.path = append([]byte(nil), base.path...)
			return &q
		}
		for j := 12; j < 28; j++ { // MAC bytes: certainly wrong, whatever the MAC library says
			q := clone()
			q.auth[j] ^= byte(1 << r.Intn(8))
			finish(q)
			g.run(q, "mut:mac-byte", true)
		}
		for j := 0; j < 12; j++ { // metadata: SPI / algorithm change the branch, the rest is covered
			q := clone()
			q.auth[j] ^= byte(1 << r.Intn(8))
			finish(q)
			// bytes 0..4 (SPI, algorithm) select the branch; of the rest, what the MAC covers is
			// the MAC library's business (byte 5 is reserved and not covered)
			bad := j >= 5 && q.mac != lib.Hex(q.auth[12:])
			g.c.Count(fmt.Sprintf("mut:metadata:byte%d:%s", j, map[bool]string{true: "mac-changes", false: "mac-same-or-other-branch"}[bad]))
			g.run(q, "mut:metadata-byte", bad)
		}
		for j := 0; j < 6; j++ { // covered bytes of the packet
			q := clone()
			what := ""
			switch j {
			case 0:
				q.pld[r.Intn(len(q.pld))] ^= byte(1 << r.Intn(8))
				q.pld[0] = base.pld[0]
				what = "payload"
			case 1:
				q.sp ^= 1 << r.Intn(10)
				if q.sp == 0 || q.sp == sentinelSP {
					q.sp = 7
				}
				what = "udp-src-port"
			case 2:
				q.sa[len(q.sa)-1] ^= byte(1 << r.Intn(8))
				what = "src-host"
			case 3:
				q.da[len(q.da)-1] ^= byte(1 << r.Intn(8))
				what = "dst-host"
			case 4:
				q.sia ^= 1 << r.Intn(16)
				what = "src-ia"
			case 5:
				q.tc ^= 1 << r.Intn(6)
				what = "traffic-class"
			}
			finish(q)
			// whether these are covered is the MAC library's business (oracle); the direct
			// check is: not verified by our independent computation => not served
			bad := q.mac != lib.Hex(q.auth[12:])
			g.c.Count("mut:covered:" + what + map[bool]string{true: ":mac-changes", false: ":mac-same"}[bad])
			g.run(q, "mut:covered-byte", bad)
		}
	}
}

// genPorts: the forward-vs-serve decision at every comparison's boundary.
func genPorts(g *runner, r *lib.Rand, n int) {
	ports := []int{svcPort, svcPort - 1, svcPort + 1, endhost, endhost - 1, endhost + 1, 1, 65535, 40000, 123}
	for i := 0; i < n; i++ {
		p := basePkt(r)
		pickPath(r, p, []int{0, 1, 1, 2, 3, 4}[r.Intn(6)])
		p.dp = ports[r.Intn(len(ports))]
		if r.Chance(20) {
			p.dp = int(r.Range(1, 65535))
		}
		p.dt, p.da = 0, []byte{127, 0, 13, 3}
		if r.Chance(10) {
			p.dt, p.da = 0, []byte{127, 0, 13, byte(7 + r.Intn(3))}
		}
		if r.Chance(25) {
			withAuth(p, spiClient, 0)
			if r.Chance(50) {
				p.auth[12+r.Intn(16)] ^= 1
			}
		}
		if r.Chance(8) {
			p.ulen = "long"
		}
		if r.Chance(15) {
			p.pld = r.Bytes(r.Intn(200))
		}
		finish(p)
		badmac := p.dp == svcPort && p.hasAu && p.mac != "-" && p.mac != "err" && lib.Hex(p.auth[12:]) != p.mac
		g.run(p, fmt.Sprintf("ports:sock=%s:dp=%s", p.sock, portClass(p.dp)), badmac)
	}
}

func portClass(dp int) string {
	switch dp {
	case svcPort:
		return "service"
	case endhost:
		return "endhost"
	}
	return "other"
}

func genSCMP(g *runner, r *lib.Rand, n int) {
	for i := 0; i < n; i++ {
		p := basePkt(r)
		name := pickPath(r, p, []int{0, 1, 1, 2, 0, 1}[r.Intn(6)])
		p.l4 = "scmp"
		p.sp, p.dp = 0, 0
		switch r.Intn(6) {
		case 0, 1:
			p.scmpT = 128
		case 2, 3:
			p.scmpT = 130
		case 4:
			p.scmpT = []int{129, 131, 1, 2, 4, 5, 127, 200}[r.Intn(8)]
		default:
			p.scmpT = int(r.U64() & 0xff)
		}
		if r.Chance(20) {
			p.scmpC = int(r.U64() & 0xff)
		}
		p.pld = r.Bytes(r.Intn(64))
		if r.Chance(20) {
			p.e2e, p.pre = 1, 1
		}
		if r.Chance(10) {
			p.l4 = "other"
		}
		finish(p)
		g.run(p, fmt.Sprintf("scmp:%s:type=%s", name, scmpClass(p)), false)
	}
}

func scmpClass(p *pkt) string {
	if p.l4 == "other" {
		return "not-scmp"
	}
	switch p.scmpT {
	case 128:
		return "echo"
	case 130:
		return "traceroute"
	}
	return "other"
}

// genMalformed: the F4 inputs (each killed the unrepaired listener).
func genMalformed(g *runner, r *lib.Rand, n int) {
	for i := 0; i < n; i++ {
		p := basePkt(r)
		pickPath(r, p, []int{0, 1}[r.Intn(2)])
		tag := ""
		k := r.Intn(8)
		switch k {
		case 0, 1: // host address of length 8 / 12
			t := []int{1, 2, 5, 6, 9, 10, 13, 14}[r.Intn(8)]
			if r.Bool() {
				p.st, p.sa = t, r.Bytes(4*(1+t&3))
				tag = fmt.Sprintf("malformed:src-addr-len%d", len(p.sa))
			} else {
				p.dt, p.da = t, r.Bytes(4*(1+t&3))
				tag = fmt.Sprintf("malformed:dst-addr-len%d", len(p.da))
			}
			if r.Chance(30) {
				p.dp = []int{svcPort + 1, endhost}[r.Intn(2)]
			}
		case 2: // service-type address of length 4 / 16 (AddrFromSlice accepts any 4/16 bytes)
			p.st = []int{4, 8, 12, 7, 11, 15}[r.Intn(6)]
			p.sa = r.Bytes(4 * (1 + p.st&3))
			tag = "malformed:non-ip-addr-type"
		case 3, 4: // authenticator option data length != 28
			ln := []int{0, 1, 4, 5, 12, 16, 27, 29, 32, 40}[r.Intn(10)]
			p.e2e, p.hasAu = 1, true
			p.auth = r.Bytes(ln)
			if ln >= 5 && r.Bool() {
				p.auth[0], p.auth[1], p.auth[2], p.auth[3], p.auth[4] = byte(spiClient>>24), byte(spiClient>>16&0xff), byte(spiClient>>8&0xff), byte(spiClient&0xff), 0
			}
			tag = "malformed:auth-len!=28"
		case 5: // irreversible path: one-hop with the second hop not filled in
			pickPath(r, p, 3)
			if r.Chance(40) {
				p.l4, p.scmpT, p.sp, p.dp, p.pld = "scmp", []int{128, 130}[r.Intn(2)], 0, 0, r.Bytes(12)
			}
			tag = "malformed:irreversible-onehop"
		case 6: // irreversible path: unknown path type
			pickPath(r, p, 4)
			if r.Chance(40) {
				p.l4, p.scmpT, p.sp, p.dp, p.pld = "scmp", []int{128, 130}[r.Intn(2)], 0, 0, r.Bytes(12)
			}
			tag = "malformed:irreversible-unknown-type"
		case 7: // unknown path type + authenticator: the MAC computation itself fails
			pickPath(r, p, 4)
			withAuth(p, spiClient, 0)
			tag = "malformed:mac-error"
		}
		finish(p)
		g.run(p, tag, false)
	}
}

// genNoMock: listener without mock keys and without a daemon (nil DRKey connector).
func genNoMock(g *runner, r *lib.Rand, n int) {
	for i := 0; i < n; i++ {
		p := basePkt(r)
		p.mock = 0
		pickPath(r, p, []int{0, 1, 2}[r.Intn(3)])
		tag := "nomock:noauth"
		switch r.Intn(4) {
		case 0, 1:
			withAuth(p, spiClient, 0)
			if r.Bool() {
				p.auth[12+r.Intn(16)] ^= 4
			}
			tag = "nomock:auth-client-spi"
		case 2:
			withAuth(p, spiServer, 0)
			tag = "nomock:auth-other-spi"
		}
		if r.Chance(20) {
			p.dp = []int{svcPort + 1, endhost}[r.Intn(2)]
			p.dt, p.da = 0, []byte{127, 0, 13, 3}
		}
		finish(p)
		g.run(p, tag, false)
	}
}

// genDispatcher: StartSCIONDispatcher (no fetcher, localHostPort = EndhostPort).
func genDispatcher(g *runner, r *lib.Rand, n int) {
	ports := []int{svcPort, endhost, endhost - 1, endhost + 1, 40000, 1, 65535}
	for i := 0; i < n; i++ {
		p := basePkt(r)
		p.mode, p.mock, p.sock = "disp", 0, "eh"
		pickPath(r, p, []int{0, 1, 1, 2, 3}[r.Intn(5)])
		p.dp = ports[r.Intn(len(ports))]
		p.dt, p.da = 0, []byte{127, 0, 13, 3}
		nts := ""
		if r.Chance(25) {
			// an NTP request with NTS extension fields (the forwarder has neither keys nor a
			// key provider: it must pass it on like any other payload)
			p.pld = ntsRequest(r, byte(r.U64()), r.Chance(75))
			nts = ":nts"
		}
		if r.Chance(30) {
			withAuth(p, spiClient, 0)
			if r.Bool() {
				p.auth[12+r.Intn(16)] ^= byte(1 << r.Intn(8))
			}
		}
		if r.Chance(10) {
			p.l4, p.scmpT, p.sp, p.dp, p.pld = "scmp", []int{128, 130, 5}[r.Intn(3)], 0, 0, r.Bytes(12)
			nts = ""
		}
		finish(p)
		// the dispatcher serves no port: whatever it was started with (the child passes
		// <host>:svcPort), UDP for any port but 30041 is to be forwarded, and a request whose
		// authenticator does not verify is certainly not to be answered by it
		p.wantFwd = p.l4 == "udp" && p.dp != endhost
		badmac := p.l4 == "udp" && p.hasAu && p.mac != "-" && p.mac != "err" && lib.Hex(p.auth[12:]) != p.mac
		g.run(p, fmt.Sprintf("disp:dp=%s%s", portClass(p.dp), nts), badmac)
	}
}

// withAuthKey adds a client-SPI authenticator whose MAC is computed under the given key.
func withAuthKey(p *pkt, key []byte) {
	p.e2e, p.hasAu = 1, true
	p.auth = make([]byte, 28)
	p.auth[0], p.auth[1], p.auth[2], p.auth[3], p.auth[4] = byte(spiClient>>24), byte(spiClient>>16&0xff), byte(spiClient>>8&0xff), byte(spiClient&0xff), 0
	if m, err := p.macUnder(key); err == nil {
		copy(p.auth[12:], m)
	}
}

func randHost(r *lib.Rand, prefix byte) (int, []byte) {
	if r.Bool() {
		return 0, []byte{10, prefix, byte(r.U64()), byte(1 + r.Intn(250))}
	}
	return 3, append([]byte{0xfd, prefix}, r.Bytes(14)...)
}

// genKeyHistories: listener with real-derivation (non-mock) keys, reached under several SCION
// destination host addresses. One history = one client IA, one source socket, one listener
// socket (hence one listener goroutine and one DRKey fetcher): honest request to host A,
// request to host B with a MAC under A's key, honest request to B, then the same from other
// client hosts and back to A. The key the listener verifies under must be the key of the
// *addressed* host, whatever was served before.
func genKeyHistories(g *runner, r *lib.Rand, n int) {
	c := g.c
	failHist := func(sig, what string, detail map[string]any) {
		if g.perSig == nil {
			g.perSig = map[string]int{}
		}
		g.perSig[sig]++
		c.Count("fail:" + sig)
		if g.perSig[sig] <= 8 {
			c.Fail(sig, what, g.hist, detail)
		}
	}
	for i := 0; i < n; i++ {
		c.Comment(fmt.Sprintf("history keys %d", i))
		g.inHist, g.hist = true, nil
		sock := []string{"svc", "eh"}[r.Intn(2)]
		hop := r.Intn(2)
		cliIA := 0x0001ff0000000000 | r.U64()&0xffffff
		srvIA := 0x0002ff0000000000 | r.U64()&0xffff
		var hosts [3]struct {
			t int
			a []byte
		}
		for j := range hosts {
			hosts[j].t, hosts[j].a = randHost(r, byte(2+j))
		}
		ct, ca := randHost(r, 1)
		pathKind := []int{0, 1, 1, 2}[r.Intn(4)]
		mk := func(dst int) *pkt {
			p := basePkt(r)
			p.mode, p.mock, p.sock, p.hop = "srvkeys", 0, sock, hop
			p.sia, p.dia = cliIA, srvIA
			p.st, p.sa = ct, ca
			p.dt, p.da = hosts[dst].t, hosts[dst].a
			pickPath(r, p, pathKind)
			return p
		}
		keyOf := func(p *pkt, dst int) []byte {
			k, err := hostHostKey(p.dia, p.sia, hosts[dst].a, p.sa)
			if err != nil {
				panic(err)
			}
			return k
		}
		honest := func(dst int, tag string) {
			p := mk(dst)
			withAuthKey(p, keyOf(p, dst))
			finish(p)
			g.run(p, "keys:honest:"+tag, false)
			if last.kind == "sandbox" || last.kind == "" {
				return
			}
			if last.kind != "reply" {
				failHist("C13:honest-request-rejected", "request with a MAC under the key of the addressed host was not served",
					map[string]any{"outcome": last.kind, "step": tag})
			} else if last.replyMAC != "ok" {
				failHist("C13:reply-wrong-host-key", "reply authenticator does not verify under the key of the addressed host",
					map[string]any{"reply_mac": last.replyMAC, "step": tag})
			}
		}
		wrong := func(dst, keyDst int, tag string) {
			p := mk(dst)
			withAuthKey(p, keyOf(p, keyDst))
			finish(p)
			g.run(p, "keys:wrong-host-key:"+tag, true)
			if last.kind == "reply" {
				failHist("C13:wrong-host-key-served", "request whose MAC was computed under another host's key was served",
					map[string]any{"step": tag, "reply_mac_under_addressed_host_key": last.replyMAC})
			}
		}
		a, b := 0, 1
		if r.Bool() {
			a, b = 1, 0
		}
		honest(a, "first")
		wrong(b, a, "after-other-host")
		honest(b, "second-host")
		if r.Chance(60) {
			// another client host of the same IA, third server host, and back
			ct, ca = randHost(r, 1)
			wrong(a, b, "other-client-host")
			honest(a, "back-to-first")
			honest(2, "third-host")
			wrong(2, a, "third-host")
		}
		if r.Chance(30) {
			// plain bad MAC and no authenticator under real keys
			p := mk(b)
			withAuthKey(p, keyOf(p, b))
			p.auth[12+r.Intn(16)] ^= byte(1 << r.Intn(8))
			finish(p)
			g.run(p, "keys:badmac", true)
			q := mk(a)
			finish(q)
			g.run(q, "keys:noauth", false)
		}
		g.inHist, g.hist = false, nil
	}
	c.Comment("reset")
}

// genEpochHistories: the listener on the production connector (scion.NewDaemonConnector) with a
// stand-in gRPC daemon whose level-2 keys rotate every epochLen of wall clock time (mode
// srvgrpc). One history = a few client ASes, each with its own source port towards one listener
// socket: in one epoch an honest request from each (served, key cached by that goroutine's
// Fetcher); then — after the epoch has changed — from each a request whose MAC is computed under
// the *expired* key (must not be served), an honest one under the new key (must be served, the
// reply must verify under the new key), and one under the key of the epoch after (not served).
func genEpochHistories(g *runner, r *lib.Rand, n int) {
	c := g.c
	failHist := func(sig, what string, detail map[string]any) {
		if g.perSig == nil {
			g.perSig = map[string]int{}
		}
		g.perSig[sig]++
		c.Count("fail:" + sig)
		if g.perSig[sig] <= 8 {
			c.Fail(sig, what, g.hist, detail)
		}
	}
	for i := 0; i < n; i++ {
		c.Comment(fmt.Sprintf("history epochs %d", i))
		g.inHist, g.hist = true, nil
		sock := []string{"svc", "eh"}[r.Intn(2)]
		hop := r.Intn(2)
		srvIA := 0x0002ff0000000000 | r.U64()&0xffff
		dt, da := randHost(r, 2)
		type cli struct {
			ia uint64
			t  int
			a  []byte
			sp int
			pk int
		}
		var clis []cli
		for j := 0; j < 3+r.Intn(3); j++ {
			ct, ca := randHost(r, 1)
			clis = append(clis, cli{ia: 0x0001ff0000000000 | r.U64()&0xffffff, t: ct, a: ca, sp: 1024 + r.Intn(60000), pk: []int{0, 1, 1, 2}[r.Intn(4)]})
		}
		send := func(cl cli, wait bool, k int64, tag string) {
			p := basePkt(r)
			p.mode, p.mock, p.sock, p.hop = "srvgrpc", 0, sock, hop
			p.sia, p.dia = cl.ia, srvIA
			p.st, p.sa = cl.t, cl.a
			p.dt, p.da = dt, da
			p.sp = cl.sp
			pickPath(r, p, cl.pk)
			p.kep = epochOf(time.Now())
			p.e2e, p.hasAu = 1, true
			p.auth = make([]byte, 28)
			p.auth[0], p.auth[1], p.auth[2], p.auth[3], p.auth[4] = byte(spiClient>>24), byte(spiClient>>16&0xff), byte(spiClient>>8&0xff), byte(spiClient&0xff), 0
			setEpochMarker(p, wait, k)
			if key, err := hostHostKeyEpoch(p.dia, p.sia, p.da, p.sa, p.kep+k); err == nil {
				if m, err := p.macUnder(key); err == nil {
					copy(p.auth[12:], m)
				}
			}
			finish(p)
			g.run(p, "epochs:"+tag, k != 0)
			if last.kind == "sandbox" || last.kind == "" {
				return
			}
			switch {
			case k == 0 && last.kind != "reply":
				failHist("C13:honest-request-rejected", "a request authenticated under the host-to-host key of the current DRKey epoch was not served",
					map[string]any{"outcome": last.kind, "step": tag})
			case k == 0 && last.replyMAC != "ok":
				failHist("C13:reply-wrong-epoch-key", "the reply's authenticator does not verify under the key of the current DRKey epoch",
					map[string]any{"reply_mac": last.replyMAC, "step": tag})
			case k < 0 && last.kind == "reply":
				failHist("C13:expired-key-served", "a request authenticated under the key of an expired DRKey epoch was served",
					map[string]any{"step": tag})
			case k > 0 && last.kind == "reply":
				failHist("C13:future-key-served", "a request authenticated under the key of a later DRKey epoch was served",
					map[string]any{"step": tag})
			}
		}
		for _, cl := range clis {
			send(cl, false, 0, "first-epoch:honest")
		}
		for j, cl := range clis {
			send(cl, j == 0, -1, "after-change:expired-key")
			send(cl, false, 0, "after-change:honest")
			if r.Chance(50) {
				send(cl, false, 1, "after-change:next-epoch-key")
			}
			if r.Chance(30) {
				send(cl, false, -1, "after-change:expired-key-again")
			}
		}
		g.inHist, g.hist = false, nil
	}
}
