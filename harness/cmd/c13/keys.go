// keys.go: DRKeys for the non-mock listener (mode=srvkeys). The child's fake daemon and the
// parent's oracle share only the host-AS key derivation (a deterministic function of the
// request metadata, standing in for the SCION control plane); the host-host step is the
// generic DRKey derivation of scionproto.
package main

import (
	"context"
	"crypto/sha256"
	"errors"
	"fmt"
	"net"
	"net/netip"
	"time"

	"google.golang.org/grpc"
	"google.golang.org/grpc/codes"
	"google.golang.org/grpc/status"
	"google.golang.org/protobuf/types/known/timestamppb"

	sdpb "github.com/scionproto/scion/pkg/proto/daemon"

	"github.com/scionproto/scion/pkg/addr"
	"github.com/scionproto/scion/pkg/daemon"
	"github.com/scionproto/scion/pkg/drkey"
	"github.com/scionproto/scion/pkg/drkey/generic"
	"github.com/scionproto/scion/pkg/scrypto/cppki"

	"example.com/scion-time/net/scion"
)

func hostASKey(meta drkey.HostASMeta) drkey.HostASKey {
	h := sha256.Sum256([]byte(meta.ProtoId.String() + "|" + meta.SrcIA.String() + "|" +
		meta.SrcHost + "|" + meta.DstIA.String()))
	k := drkey.HostASKey{
		ProtoId: meta.ProtoId, SrcIA: meta.SrcIA, DstIA: meta.DstIA, SrcHost: meta.SrcHost,
		Epoch: drkey.Epoch{Validity: cppki.Validity{
			NotBefore: time.Now().Add(-6 * time.Hour),
			NotAfter:  time.Now().Add(6 * time.Hour),
		}},
	}
	copy(k.Key[:], h[:16])
	return k
}

// fakeDaemon answers host-AS key requests; every other method of the embedded nil
// interface would panic (the listener calls none).
type fakeDaemon struct{ daemon.Connector }

func (fakeDaemon) DRKeyGetHostASKey(ctx context.Context, meta drkey.HostASMeta) (drkey.HostASKey, error) {
	return hostASKey(meta), nil
}

// hostHostKey: the key shared by server host (srvIA, srvHost) and client host (cliIA, cliHost).
func hostHostKey(srvIA, cliIA uint64, srvHost, cliHost []byte) ([]byte, error) {
	sh, ok1 := netip.AddrFromSlice(srvHost)
	ch, ok2 := netip.AddrFromSlice(cliHost)
	if !ok1 || !ok2 {
		return nil, errors.New("n/a")
	}
	hak := hostASKey(drkey.HostASMeta{ProtoId: scion.DRKeyProtocolTS, SrcIA: addr.IA(srvIA), DstIA: addr.IA(cliIA), SrcHost: sh.String()})
	k, err := generic.Deriver{Proto: hak.ProtoId}.DeriveHostHost(ch.String(), hak.Key)
	if err != nil {
		return nil, err
	}
	return k[:], nil
}

// ---------------------------------------------------------------- mode=srvgrpc: keys that rotate

// In mode srvgrpc the child runs a stand-in SCION daemon (scionproto's daemon gRPC service,
// DRKeyHostAS only) on loopback TCP and hands the listener the connector that the real
// scion.NewDaemonConnector returns for its address. Level-2 keys rotate every epochLen of wall
// clock time: epoch number = floor(validity / epochLen), key = sha256(identity | epoch number).
// The parent recomputes the keys with the same function (standing in for the control plane) and
// scionproto's host-host derivation.
const epochLen = 3 * time.Second

func epochOf(t time.Time) int64 { return t.UnixNano() / int64(epochLen) }

func hostASKeyEpoch(meta drkey.HostASMeta, e int64) drkey.HostASKey {
	h := sha256.Sum256([]byte(fmt.Sprintf("%s|%s|%s|%s|epoch%d", meta.ProtoId.String(), meta.SrcIA.String(),
		meta.SrcHost, meta.DstIA.String(), e)))
	k := drkey.HostASKey{
		ProtoId: meta.ProtoId, SrcIA: meta.SrcIA, DstIA: meta.DstIA, SrcHost: meta.SrcHost,
		Epoch: drkey.Epoch{Validity: cppki.Validity{
			NotBefore: time.Unix(0, e*int64(epochLen)),
			NotAfter:  time.Unix(0, (e+1)*int64(epochLen)-1),
		}},
	}
	copy(k.Key[:], h[:16])
	return k
}

type grpcFake struct {
	sdpb.UnimplementedDaemonServiceServer
}

func (*grpcFake) DRKeyHostAS(ctx context.Context, req *sdpb.DRKeyHostASRequest) (*sdpb.DRKeyHostASResponse, error) {
	if req.ValTime == nil || req.ValTime.CheckValid() != nil {
		return nil, status.Error(codes.InvalidArgument, "no validity time")
	}
	meta := drkey.HostASMeta{ProtoId: drkey.Protocol(req.ProtocolId), SrcIA: addr.IA(req.SrcIa), DstIA: addr.IA(req.DstIa), SrcHost: req.SrcHost}
	k := hostASKeyEpoch(meta, epochOf(req.ValTime.AsTime()))
	return &sdpb.DRKeyHostASResponse{EpochBegin: timestamppb.New(k.Epoch.NotBefore), EpochEnd: timestamppb.New(k.Epoch.NotAfter), Key: k.Key[:]}, nil
}

func startGRPCFake() (string, error) {
	ln, err := net.Listen("tcp", "127.0.0.1:0")
	if err != nil {
		return "", err
	}
	srv := grpc.NewServer()
	sdpb.RegisterDaemonServiceServer(srv, &grpcFake{})
	go srv.Serve(ln)
	return ln.Addr().String(), nil
}

// hostHostKeyEpoch: the key shared by server host and client host in epoch e.
func hostHostKeyEpoch(srvIA, cliIA uint64, srvHost, cliHost []byte, e int64) ([]byte, error) {
	sh, ok1 := netip.AddrFromSlice(srvHost)
	ch, ok2 := netip.AddrFromSlice(cliHost)
	if !ok1 || !ok2 {
		return nil, errors.New("n/a")
	}
	hak := hostASKeyEpoch(drkey.HostASMeta{ProtoId: scion.DRKeyProtocolTS, SrcIA: addr.IA(srvIA), DstIA: addr.IA(cliIA), SrcHost: sh.String()}, e)
	k, err := generic.Deriver{Proto: hak.ProtoId}.DeriveHostHost(ch.String(), hak.Key)
	if err != nil {
		return nil, err
	}
	return k[:], nil
}
