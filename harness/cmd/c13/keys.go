// keys.go: DRKeys for the non-mock listener (mode=srvkeys). The child's fake daemon and the
// parent's oracle share only the host-AS key derivation (a deterministic function of the
// request metadata, standing in for the SCION control plane); the host-host step is the
// generic DRKey derivation of scionproto.
package main

import (
	"context"
	"crypto/sha256"
	"errors"
	"net/netip"
	"time"

	"github.com/scionproto/scion/pkg/addr"
	"github.com/scionproto/scion/pkg/daemon"
	"github.com/scionproto/scion/pkg/drkey"
	"github.com/scionproto/scion/pkg/drkey/generic"
	"github.com/scionproto/scion/pkg/scrypto/cppki"

	"example.com/scion-time/net/scion"
)

func hostASKey(meta drkey.HostASMeta) drkey.HostASKey {
	h := sha256.Sum256([]byte(meta.ProtoId.String() + "|" + meta.SrcIA.String() + "|" +
		meta.SrcHost + "|" + meta.DstIA.String()))
	k := drkey.HostASKey{
		ProtoId: meta.ProtoId, SrcIA: meta.SrcIA, DstIA: meta.DstIA, SrcHost: meta.SrcHost,
		Epoch: drkey.Epoch{Validity: cppki.Validity{
			NotBefore: time.Now().Add(-6 * time.Hour),
			NotAfter:  time.Now().Add(6 * time.Hour),
		}},
	}
	copy(k.Key[:], h[:16])
	return k
}

// fakeDaemon answers host-AS key requests; every other method of the embedded nil
// interface would panic (the listener calls none).
type fakeDaemon struct{ daemon.Connector }

func (fakeDaemon) DRKeyGetHostASKey(ctx context.Context, meta drkey.HostASMeta) (drkey.HostASKey, error) {
	return hostASKey(meta), nil
}

// hostHostKey: the key shared by server host (srvIA, srvHost) and client host (cliIA, cliHost).
func hostHostKey(srvIA, cliIA uint64, srvHost, cliHost []byte) ([]byte, error) {
	sh, ok1 := netip.AddrFromSlice(srvHost)
	ch, ok2 := netip.AddrFromSlice(cliHost)
	if !ok1 || !ok2 {
		return nil, errors.New("n/a")
	}
	hak := hostASKey(drkey.HostASMeta{ProtoId: scion.DRKeyProtocolTS, SrcIA: addr.IA(srvIA), DstIA: addr.IA(cliIA), SrcHost: sh.String()})
	k, err := generic.Deriver{Proto: hak.ProtoId}.DeriveHostHost(ch.String(), hak.Key)
	if err != nil {
		return nil, err
	}
	return k[:], nil
}
