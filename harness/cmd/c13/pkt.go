// pkt.go: the abstract SCION packet of the op line, its serialisation to a datagram
// (slayers + gopacket; raw patching for malformed cases) and the parsing of replies.
package main

import (
	"bytes"
	"encoding/hex"
	"errors"
	"fmt"
	"strconv"
	"strings"

	"github.com/google/gopacket"

	"github.com/scionproto/scion/pkg/addr"
	"github.com/scionproto/scion/pkg/slayers"
	"github.com/scionproto/scion/pkg/slayers/path"
	"github.com/scionproto/scion/pkg/spao"

	"example.com/scion-time/net/ntp"
	"example.com/scion-time/net/scion"

	"verifharness/lib"
)

// rawPath carries path bytes verbatim under any path type number.
type rawPath struct {
	b []byte
	t path.Type
}

func (p *rawPath) SerializeTo(b []byte) error     { copy(b, p.b); return nil }
func (p *rawPath) DecodeFromBytes(b []byte) error { p.b = b; return nil }
func (p *rawPath) Reverse() (path.Path, error)    { return nil, errors.New("not supported") }
func (p *rawPath) Len() int                       { return len(p.b) }
func (p *rawPath) Type() path.Type                { return p.t }

// pkt is the abstract parsed packet + the oracle inputs of one srv.handle op.
type pkt struct {
	// configuration (which child, which socket)
	mode string // srv | srvkeys | srvgrpc | disp
	kep  int64  // mode srvgrpc: the DRKey epoch the oracle key belongs to (set when the packet is built / sent)
	mock int    // 1: child runs with USE_MOCK_KEYS=true
	sock string // svc | eh
	svc  int    // service port of the child
	dscp int
	hop  int // index of the parent's source socket (= lastHop)
	// SCION header
	tc       int
	sia, dia uint64
	st, dt   int
	sa, da   []byte
	pt       int
	path     []byte
	rev      string // oracle: "<type>:<hex>" of the reversed path | "err"
	// upper layers
	hbh    int
	e2e    int    // 1: end-to-end extension present (directly before L4)
	pre    int    // 1: a non-authenticator option precedes the authenticator
	auth   []byte // nil: no authenticator option; else OptData
	hasAu  bool
	l4     string // udp | scmp | other
	scmpT  int
	scmpC  int
	sp, dp int
	ulen   string // ok | long | tail<hex>: length field as for pld, but <hex> follows behind the bytes it delimits
	tail   []byte // ulen = tail…: the bytes behind the window the UDP length field delimits
	pld    []byte
	mac    string // oracle: hex of the MAC the server computes | "err" | "-" (not applicable)
	ntp    string // oracle: ok | bad
	// op srv.fwd only (forwarding with extension headers, fwdext.go)
	fwdOp bool
	zone  string // sw: the listener gets kernel rx timestamps | none: it does not (zone "lo")
	tso   int    // 1 / 2: the sender put an option of the dispatcher's timestamp type first / last into the E2E extension
	post  int    // 1: a further option follows the authenticator
	// generator's knowledge, not part of the op line: a well-formed UDP packet for another end-host
	// port of an IPv4 host we listen on, received on the end-host port of a listener that does not
	// serve that port itself: the statement wants it forwarded
	wantFwd bool
}

var keyOrder = []string{"mode", "mock", "sock", "svc", "dscp", "hop", "tc", "sia", "dia", "st", "dt", "sa", "da",
	"pt", "path", "rev", "hbh", "e2e", "pre", "auth", "l4", "scmp", "sp", "dp", "ulen", "pld", "mac", "ntp"}

func (p *pkt) op() string {
	au := "none"
	if p.hasAu {
		au = lib.Hex(p.auth)
	}
	name, ext := "srv.handle", ""
	if p.fwdOp {
		name, ext = "srv.fwd", fmt.Sprintf(" zone=%s tso=%d post=%d", p.zone, p.tso, p.post)
	}
	return fmt.Sprintf("%s mode=%s mock=%d sock=%s svc=%d dscp=%d hop=%d tc=%d sia=%d dia=%d st=%d dt=%d sa=%s da=%s "+
		"pt=%d path=%s rev=%s hbh=%d e2e=%d pre=%d auth=%s l4=%s scmp=%d:%d sp=%d dp=%d ulen=%s pld=%s mac=%s ntp=%s%s",
		name, p.mode, p.mock, p.sock, p.svc, p.dscp, p.hop, p.tc, p.sia, p.dia, p.st, p.dt, lib.Hex(p.sa), lib.Hex(p.da),
		p.pt, lib.Hex(p.path), p.rev, p.hbh, p.e2e, p.pre, au, p.l4, p.scmpT, p.scmpC, p.sp, p.dp, p.ulen, lib.Hex(p.pld), p.mac, p.ntp, ext)
}

func unhex(s string) ([]byte, bool) {
	if s == "-" {
		return []byte{}, true
	}
	if s != strings.ToLower(s) {
		return nil, false
	}
	b, err := hex.DecodeString(s)
	return b, err == nil
}

func isHexOr(s string, alts ...string) bool {
	for _, a := range alts {
		if s == a {
			return true
		}
	}
	_, ok := unhex(s)
	return ok
}

// parseOp parses the tokens after "srv.handle"; strict: every key exactly once, in order.
func parseOp(toks []string, fwd bool) (*pkt, bool) {
	keys := keyOrder
	if fwd {
		keys = append(append([]string{}, keyOrder...), "zone", "tso", "post")
	}
	if len(toks) != len(keys) {
		return nil, false
	}
	kv := map[string]string{}
	for i, t := range toks {
		k, v, ok := strings.Cut(t, "=")
		if !ok || k != keys[i] {
			return nil, false
		}
		kv[k] = v
	}
	p := &pkt{fwdOp: fwd}
	okAll := true
	num := func(k string, lo, hi uint64) uint64 {
		s := kv[k]
		if s == "" || (len(s) > 1 && s[0] == '0') || s[0] == '+' || s[0] == '-' {
			okAll = false
			return 0
		}
		v, err := strconv.ParseUint(s, 10, 64)
		if err != nil || v < lo || v > hi {
			okAll = false
			return 0
		}
		return v
	}
	hx := func(k string) []byte {
		b, ok := unhex(kv[k])
		if !ok {
			okAll = false
		}
		return b
	}
	enum := func(k string, vals ...string) string {
		for _, v := range vals {
			if kv[k] == v {
				return v
			}
		}
		okAll = false
		return ""
	}
	p.mode = enum("mode", "srv", "srvkeys", "srvgrpc", "disp")
	p.mock = int(num("mock", 0, 1))
	p.sock = enum("sock", "svc", "eh")
	p.svc = int(num("svc", 1, 65535))
	p.dscp = int(num("dscp", 0, 255))
	p.hop = int(num("hop", 0, 1))
	p.tc = int(num("tc", 0, 255))
	p.sia = num("sia", 0, ^uint64(0))
	p.dia = num("dia", 0, ^uint64(0))
	p.st = int(num("st", 0, 15))
	p.dt = int(num("dt", 0, 15))
	p.sa = hx("sa")
	p.da = hx("da")
	p.pt = int(num("pt", 0, 255))
	p.path = hx("path")
	p.rev = kv["rev"]
	if p.rev != "err" {
		a, b, ok := strings.Cut(p.rev, ":")
		kv["revT"] = a
		num("revT", 0, 255)
		if _, okh := unhex(b); !ok || !okh {
			okAll = false
		}
	}
	if fwd {
		p.hbh = int(num("hbh", 0, 40)) // srv.fwd: hop-by-hop option with hbh+1 data bytes
	} else {
		p.hbh = int(num("hbh", 0, 1))
	}
	p.e2e = int(num("e2e", 0, 1))
	p.pre = int(num("pre", 0, 1))
	if kv["auth"] == "none" {
		p.hasAu = false
	} else {
		p.hasAu = true
		p.auth = hx("auth")
	}
	p.l4 = enum("l4", "udp", "scmp", "other")
	a, b, ok := strings.Cut(kv["scmp"], ":")
	if !ok {
		okAll = false
	} else {
		kv["scmpT"], kv["scmpC"] = a, b
		p.scmpT = int(num("scmpT", 0, 255))
		p.scmpC = int(num("scmpC", 0, 255))
	}
	p.sp = int(num("sp", 0, 65535))
	p.dp = int(num("dp", 0, 65535))
	if v := kv["ulen"]; strings.HasPrefix(v, "tail") && len(v) > 4 {
		t, ok := unhex(v[4:])
		if !ok || len(t) == 0 {
			okAll = false
		}
		p.ulen, p.tail = v, t
	} else {
		p.ulen = enum("ulen", "ok", "long")
	}
	p.pld = hx("pld")
	p.mac = kv["mac"]
	if !isHexOr(p.mac, "err") {
		okAll = false
	}
	p.ntp = enum("ntp", "ok", "bad")
	if fwd {
		p.zone = enum("zone", "sw", "none")
		p.tso = int(num("tso", 0, 2))
		p.post = int(num("post", 0, 1))
	}
	if !okAll {
		return nil, false
	}
	if fwd && !fwdWellFormed(p) {
		return nil, false
	}
	// well-formedness the wire format imposes (the model checks the same; else bad-op)
	if len(p.sa) != 4*(1+p.st&3) || len(p.da) != 4*(1+p.dt&3) {
		return nil, false
	}
	if p.e2e == 0 && (p.hasAu || p.pre == 1) {
		return nil, false
	}
	if p.mode == "disp" && (p.sock != "eh" || p.mock != 0) {
		return nil, false
	}
	if (p.mode == "srvkeys" || p.mode == "srvgrpc") && p.mock != 0 {
		return nil, false
	}
	if p.mac != "err" {
		if m, _ := unhex(p.mac); len(m) != 0 && len(m) != 16 {
			return nil, false
		}
	}
	return p, true
}

const (
	preOptType  = slayers.OptionType(200)
	hbhOptType  = slayers.OptionType(201)
	postOptType = slayers.OptionType(202)
)

// hbhOptData: hbh=k stands for a hop-by-hop extension with the single option (201, k+1 bytes 0x09)
func hbhOptData(k int) []byte { return bytes.Repeat([]byte{9}, k+1) }

var (
	// data of an option of the dispatcher's timestamp type that the *sender* put into the packet
	senderTsData = []byte{0xf0, 0xf1, 0xf2, 0xf3, 0xf4, 0xf5, 0xf6, 0xf7, 0xf8, 0xf9, 0xfa, 0xfb, 0xfc, 0xfd, 0xfe, 0xff}
)

// layers builds the slayers values of the packet.
func (p *pkt) layers() (*slayers.SCION, []gopacket.SerializableLayer, []byte) {
	scn := &slayers.SCION{
		Version:      0,
		TrafficClass: uint8(p.tc),
		FlowID:       0x1234,
		PathType:     path.Type(p.pt),
		DstIA:        addr.IA(p.dia),
		SrcIA:        addr.IA(p.sia),
		DstAddrType:  slayers.AddrType(p.dt),
		SrcAddrType:  slayers.AddrType(p.st),
		RawDstAddr:   p.da,
		RawSrcAddr:   p.sa,
		Path:         &rawPath{b: p.path, t: path.Type(p.pt)},
	}
	var l4t slayers.L4ProtocolType
	var l4 gopacket.SerializableLayer
	var l4bytes []byte // what follows the L4 header
	switch p.l4 {
	case "udp":
		l4t = slayers.L4UDP
		u := &slayers.UDP{SrcPort: uint16(p.sp), DstPort: uint16(p.dp)}
		u.SetNetworkLayerForChecksum(scn)
		l4 = u
	case "scmp":
		l4t = slayers.L4SCMP
		s := &slayers.SCMP{TypeCode: slayers.CreateSCMPTypeCode(slayers.SCMPType(p.scmpT), slayers.SCMPCode(p.scmpC))}
		s.SetNetworkLayerForChecksum(scn)
		l4 = s
	default:
		l4t = slayers.L4ProtocolType(253) // experimental
	}
	l4bytes = p.pld
	ls := []gopacket.SerializableLayer{scn}
	next := l4t
	var e2e *slayers.EndToEndExtn
	if p.e2e == 1 {
		e2e = &slayers.EndToEndExtn{}
		e2e.NextHdr = l4t
		if p.tso == 1 {
			e2e.Options = append(e2e.Options, &slayers.EndToEndOption{OptType: scion.OptTypeTimestamp, OptData: senderTsData})
		}
		if p.pre == 1 {
			e2e.Options = append(e2e.Options, &slayers.EndToEndOption{OptType: preOptType, OptData: []byte{1, 2, 3, 4}})
		}
		if p.hasAu {
			e2e.Options = append(e2e.Options, &slayers.EndToEndOption{
				OptType: slayers.OptTypeAuthenticator, OptData: p.auth, OptAlign: [2]uint8{4, 2}})
		}
		if p.post == 1 {
			e2e.Options = append(e2e.Options, &slayers.EndToEndOption{OptType: postOptType, OptData: []byte{7, 7, 7, 7, 7}})
		}
		if p.tso == 2 {
			e2e.Options = append(e2e.Options, &slayers.EndToEndOption{OptType: scion.OptTypeTimestamp, OptData: senderTsData})
		}
		next = slayers.End2EndClass
	}
	if p.hbh >= 1 {
		h := &slayers.HopByHopExtn{}
		h.NextHdr = next
		h.Options = []*slayers.HopByHopOption{{OptType: hbhOptType, OptData: hbhOptData(p.hbh)}}
		scn.NextHdr = slayers.HopByHopClass
		ls = append(ls, h)
	} else {
		scn.NextHdr = next
	}
	if e2e != nil {
		ls = append(ls, e2e)
	}
	if l4 != nil {
		ls = append(ls, l4)
	}
	ls = append(ls, gopacket.Payload(l4bytes))
	return scn, ls, l4bytes
}

// bytes serialises the datagram.
func (p *pkt) bytes() ([]byte, error) {
	_, ls, _ := p.layers()
	buf := gopacket.NewSerializeBuffer()
	err := gopacket.SerializeLayers(buf, gopacket.SerializeOptions{ComputeChecksums: true, FixLengths: true}, ls...)
	if err != nil {
		return nil, err
	}
	b := append([]byte(nil), buf.Bytes()...)
	if p.l4 == "udp" && len(p.tail) > 0 {
		// re-framed: more L4 data behind the bytes the (untouched) UDP length field delimits; the SCION
		// header's payload length (bytes 6, 7) is fixed up
		b = append(b, p.tail...)
		n := (int(b[6])<<8 | int(b[7])) + len(p.tail)
		b[6], b[7] = byte(n>>8), byte(n)
	}
	if p.l4 == "udp" && p.ulen == "long" {
		// UDP length field one beyond the whole datagram
		off := len(b) - 8 - len(p.pld)
		n := len(b) + 1
		b[off+4], b[off+5] = byte(n>>8), byte(n)
	}
	return b, nil
}

var zeroKey = make([]byte, 16)

// key is the host-host key the listener must verify this packet under: the all-zero mock key,
// or (mode=srvkeys) the key of the *addressed* server host and the client host.
func (p *pkt) key() ([]byte, error) {
	if p.mode == "srvkeys" {
		return hostHostKey(p.dia, p.sia, p.da, p.sa)
	}
	if p.mode == "srvgrpc" {
		return hostHostKeyEpoch(p.dia, p.sia, p.da, p.sa, p.kep)
	}
	return zeroKey, nil
}

// serverMAC is the oracle: the MAC the server computes over the received packet under the
// right key (independent call of spao with our own layer values).
func (p *pkt) serverMAC() ([]byte, error) {
	k, err := p.key()
	if err != nil {
		return nil, errors.New("n/a")
	}
	return p.macUnder(k)
}

// macUnder computes the request MAC over this packet under an arbitrary key.
func (p *pkt) macUnder(key []byte) ([]byte, error) {
	if !p.hasAu || len(p.auth) != scion.PacketAuthOptDataLen || p.l4 != "udp" {
		return nil, errors.New("n/a")
	}
	scn, _, _ := p.layers()
	// the server sees decoded path objects; decode ours the same way for known types
	if pp, err := decodePath(p.pt, p.path); err == nil {
		scn.Path = pp
	} else {
		return nil, err
	}
	// the authenticated upper-layer data: the UDP header and the payload its length field delimits
	// (for a well-formed packet: the last bytes of the datagram)
	udp := make([]byte, 8+len(p.pld))
	b, err := p.bytes()
	if err != nil {
		return nil, err
	}
	copy(udp, b[len(b)-len(p.tail)-len(udp):])
	if p.ulen == "long" {
		return nil, errors.New("n/a")
	}
	opt := &slayers.EndToEndOption{OptType: slayers.OptTypeAuthenticator, OptData: append([]byte(nil), p.auth...)}
	out := make([]byte, 16)
	_, err = spao.ComputeAuthCMAC(spao.MACInput{
		Key: key, Header: slayers.PacketAuthOption{EndToEndOption: opt}, ScionLayer: scn,
		PldType: slayers.L4UDP, Pld: udp,
	}, make([]byte, spao.MACBufferSize), out)
	if err != nil {
		return nil, err
	}
	return out, nil
}

// decodePath decodes raw path bytes the way the listener's SCION layer does
// (RecyclePaths: types 0..3 known, everything else a raw path).
func decodePath(pt int, raw []byte) (path.Path, error) {
	if pt > 3 {
		return &rawPath{b: raw, t: path.Type(pt)}, nil
	}
	pp, err := path.NewPath(path.Type(pt))
	if err != nil {
		return nil, err
	}
	if err := pp.DecodeFromBytes(append([]byte(nil), raw...)); err != nil {
		return nil, err
	}
	return pp, nil
}

// reverseOracle: Path.Reverse() on a private copy, serialised; "err" if it fails.
func reverseOracle(pt int, raw []byte) string {
	pp, err := decodePath(pt, raw)
	if err != nil {
		return "err"
	}
	r, err := pp.Reverse()
	if err != nil {
		return "err"
	}
	b := make([]byte, r.Len())
	if err := r.SerializeTo(b); err != nil {
		return "err"
	}
	return fmt.Sprintf("%d:%s", r.Type(), lib.Hex(b))
}

// ntpOracle: would the NTP layer accept this payload as a request (DecodePacket +
// ValidateRequest; payloads longer than 48 bytes go to NTS which is not ours).
func ntpOracle(pld []byte, srcPort int) string {
	var q ntp.Packet
	if ntp.DecodePacket(&q, pld) != nil {
		return "bad"
	}
	if len(pld) > ntp.PacketLen {
		return "bad"
	}
	if ntp.ValidateRequest(&q, uint16(srcPort)) != nil {
		return "bad"
	}
	return "ok"
}

// parsed is a datagram received from the listener.
type parsed struct {
	scn     slayers.SCION
	hasE2E  bool
	e2e     slayers.EndToEndExtn
	l4      string
	udp     slayers.UDP
	scmp    slayers.SCMP
	pathRaw []byte
	l4raw   []byte // L4 header + payload as on the wire
	l4len   int    // number of bytes from the L4 header to the end of the datagram
}

func parseDatagram(b []byte) (*parsed, error) {
	r := &parsed{}
	r.scn.RecyclePaths()
	var hbh slayers.HopByHopExtnSkipper
	parser := gopacket.NewDecodingLayerParser(slayers.LayerTypeSCION, &r.scn, &hbh, &r.e2e, &r.udp, &r.scmp)
	parser.IgnoreUnsupported = true
	decoded := make([]gopacket.LayerType, 0, 5)
	if err := parser.DecodeLayers(b, &decoded); err != nil {
		return nil, err
	}
	if len(decoded) < 2 {
		return nil, errors.New("short layer list")
	}
	switch decoded[len(decoded)-1] {
	case slayers.LayerTypeSCIONUDP:
		r.l4 = "udp"
		// the UDP header sits where the layer parser found it (Contents is a sub-slice of b)
		r.l4len = len(b) - (cap(b) - cap(r.udp.Contents))
		r.l4raw = b[len(b)-r.l4len:][:8+len(r.udp.Payload)]
	case slayers.LayerTypeSCMP:
		r.l4 = "scmp"
		r.l4raw = b[len(b)-4-len(r.scmp.Payload):]
	default:
		return nil, errors.New("unexpected L4")
	}
	for _, d := range decoded {
		if d == slayers.LayerTypeEndToEndExtn {
			r.hasE2E = true
		}
	}
	off := slayers.CmnHdrLen + r.scn.AddrHdrLen()
	hl := int(r.scn.HdrLen) * slayers.LineLen
	if hl < off || hl > len(b) {
		return nil, errors.New("bad header length")
	}
	r.pathRaw = b[off:hl]
	return r, nil
}

// replyMACok verifies the authenticator of a reply the way the client does.
func replyMACok(r *parsed, opt *slayers.EndToEndOption, key []byte) bool {
	if len(opt.OptData) != scion.PacketAuthOptDataLen {
		return false
	}
	out := make([]byte, 16)
	_, err := spao.ComputeAuthCMAC(spao.MACInput{
		Key: key, Header: slayers.PacketAuthOption{EndToEndOption: opt}, ScionLayer: &r.scn,
		PldType: slayers.L4UDP, Pld: r.l4raw,
	}, make([]byte, spao.MACBufferSize), out)
	return err == nil && bytes.Equal(out, opt.OptData[scion.PacketAuthMetadataLen:])
}
