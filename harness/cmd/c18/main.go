// c18: correspondence + direct oracle (math/big) for the unit conversions of
// base/unixutil (TimevalFromNsec) and net/csptp (timestamps, time intervals, offset and
// delay formulas). The floating-point functions (base/unixutil/freq.go, SystemClock.Drift)
// are not part of the correspondence ops (their model needs Model/F64); ScaledPPMFromFreq /
// FreqFromScaledPPM get a Go-side-only oracle below.
package main

import (
	"encoding/hex"
	"fmt"
	"math"
	"math/big"
	"strconv"
	"time"

	"example.com/scion-time/base/unixutil"
	"example.com/scion-time/net/csptp"

	"verifharness/lib"
)

const (
	minI = int64(math.MinInt64)
	maxI = int64(math.MaxInt64)
	e9   = int64(1000000000)
	s48  = int64(1)<<48 - 1
)

func i64(s string) int64 {
	v, err := strconv.ParseInt(s, 10, 64)
	if err != nil {
		panic("bad-op")
	}
	return v
}

func tm(s, n string) time.Time {
	ns := i64(n)
	if ns < 0 || ns >= e9 {
		panic("bad-op")
	}
	return time.Unix(i64(s), ns)
}

func exec(t []string) string {
	switch {
	case t[0] == "ux.timeval" && len(t) == 2:
		tv := unixutil.TimevalFromNsec(i64(t[1]))
		return fmt.Sprintf("ok %d %d", int64(tv.Sec), int64(tv.Usec))
	case t[0] == "cs.enc" && len(t) == 3:
		ts := csptp.TimestampFromTime(tm(t[1], t[2]))
		return fmt.Sprintf("ok %s %d", hex.EncodeToString(ts.Seconds[:]), ts.Nanoseconds)
	case t[0] == "cs.dec" && len(t) == 3:
		b, err := hex.DecodeString(t[1])
		n, err2 := strconv.ParseUint(t[2], 10, 32)
		if err != nil || err2 != nil || len(b) != 6 {
			panic("bad-op")
		}
		var ts csptp.Timestamp
		copy(ts.Seconds[:], b)
		ts.Nanoseconds = uint32(n)
		r := csptp.TimeFromTimestamp(ts)
		return fmt.Sprintf("ok %d %d", r.Unix(), r.Nanosecond())
	case t[0] == "cs.ival" && len(t) == 2:
		return fmt.Sprintf("ok %d", int64(csptp.DurationFromTimeInterval(i64(t[1]))))
	case (t[0] == "cs.offset" || t[0] == "cs.delay") && len(t) == 11:
		t0, t1, t2, t3 := tm(t[1], t[2]), tm(t[3], t[4]), tm(t[5], t[6]), tm(t[7], t[8])
		c1, c3 := time.Duration(i64(t[9])), time.Duration(i64(t[10]))
		if t[0] == "cs.offset" {
			return fmt.Sprintf("ok %d", int64(csptp.ClockOffset(t0, t1, t2, t3, c1, c3)))
		}
		return fmt.Sprintf("ok %d", int64(csptp.MeanPathDelay(t0, t1, t2, t3, c1, c3)))
	case (t[0] == "cs.c2s" || t[0] == "cs.s2c") && len(t) == 7:
		a, b := tm(t[1], t[2]), tm(t[3], t[4])
		c, u := time.Duration(i64(t[5])), time.Duration(i64(t[6]))
		if t[0] == "cs.c2s" {
			return fmt.Sprintf("ok %d", int64(csptp.C2SDelay(a, b, c, u)))
		}
		return fmt.Sprintf("ok %d", int64(csptp.S2CDelay(a, b, c, u)))
	}
	return "bad-op"
}

// ---------------------------------------------------------------- oracle helpers

var bE9 = big.NewInt(e9)

func bi(v int64) *big.Int { return big.NewInt(v) }

// splitNs turns a big nanosecond count into (unix seconds, ns in [0,1e9)).
func splitNs(t *big.Int) (int64, int64) {
	q, m := new(big.Int), new(big.Int)
	q.DivMod(t, bE9, m)
	return q.Int64(), m.Int64()
}

func timeval(c *lib.Ctx, nsec int64) {
	op := fmt.Sprintf("ux.timeval %d", nsec)
	a, ok := lib.Ints(c.Do(op))
	switch {
	case nsec < 0 && nsec%e9 != 0:
		c.Count("timeval:negative-remainder")
	case nsec < 0:
		c.Count("timeval:negative-exact")
	default:
		c.Count("timeval:non-negative")
	}
	if !ok || len(a) != 2 {
		c.Fail("C18:timeval:not-ok", "TimevalFromNsec did not return", []string{op}, nil)
		return
	}
	sum := new(big.Int).Mul(bi(a[0]), bE9)
	sum.Add(sum, bi(a[1]))
	if a[1] < 0 || a[1] >= e9 || sum.Cmp(bi(nsec)) != 0 {
		c.Fail("C18:timeval:normal", "sub-second part outside [0,10^9) or sec*10^9+usec != nsec", []string{op},
			map[string]any{"sec": a[0], "usec": a[1]})
	}
}

func encDec(c *lib.Ctx, sec, ns int64) {
	op := fmt.Sprintf("cs.enc %d %d", sec, ns)
	ans := c.Do(op)
	inRange := sec >= 0 && sec <= s48
	var hx string
	var n int64
	if _, err := fmt.Sscanf(ans, "ok %s %d", &hx, &n); err != nil {
		if inRange {
			c.Fail("C18:timestamp:panic-in-range", "TimestampFromTime failed on a time within the 48-bit range", []string{op},
				map[string]any{"answer": ans})
		} else {
			c.Count("enc:out-of-range-panic")
		}
		return
	}
	if !inRange {
		c.Fail("C18:timestamp:no-panic-out-of-range", "TimestampFromTime accepted a time outside the 48-bit range", []string{op}, nil)
		return
	}
	c.Count("enc:in-range")
	op2 := fmt.Sprintf("cs.dec %s %d", hx, n)
	b, ok := lib.Ints(c.Do(op2))
	if !ok || len(b) != 2 || b[0] != sec || b[1] != ns {
		c.Fail("C18:timestamp:roundtrip", "time -> timestamp -> time is not the identity", []string{op, op2}, nil)
	}
}

func decEnc(c *lib.Ctx, sec int64, ns uint32) {
	var bs [6]byte
	for i := 0; i < 6; i++ {
		bs[i] = byte(uint64(sec) >> (8 * (5 - i)))
	}
	hx := hex.EncodeToString(bs[:])
	op := fmt.Sprintf("cs.dec %s %d", hx, ns)
	a, ok := lib.Ints(c.Do(op))
	if !ok || len(a) != 2 {
		c.Fail("C18:timestamp:dec-not-ok", "TimeFromTimestamp did not return", []string{op}, nil)
		return
	}
	// arbitrary-precision expectation: sec*1e9 + ns, normalised
	tot := new(big.Int).Mul(bi(sec), bE9)
	tot.Add(tot, bi(int64(ns)))
	ws, wn := splitNs(tot)
	if a[0] != ws || a[1] != wn {
		c.Fail("C18:timestamp:dec-value", "TimeFromTimestamp is not seconds*10^9+nanoseconds", []string{op}, nil)
		return
	}
	if int64(ns) >= e9 {
		c.Count("dec:ns>=10^9(normalised)")
		if ws > s48 {
			c.Count("dec:ns-carry-leaves-48-bit")
		}
		return
	}
	c.Count("dec:ns<10^9")
	op2 := fmt.Sprintf("cs.enc %d %d", a[0], a[1])
	want := fmt.Sprintf("ok %s %d", hx, ns)
	if got := c.Do(op2); got != want {
		c.Fail("C18:timestamp:roundtrip-rev", "timestamp -> time -> timestamp is not the identity", []string{op, op2},
			map[string]any{"want": want, "got": got})
	}
}

func ival(c *lib.Ctx, i int64) {
	op := fmt.Sprintf("cs.ival %d", i)
	a, ok := lib.Ints(c.Do(op))
	want := new(big.Int).Div(bi(i), bi(65536)) // Euclidean = floor for a positive divisor
	switch {
	case i < 0 && i%65536 != 0:
		c.Count("ival:negative-fraction")
	case i < 0:
		c.Count("ival:negative-whole")
	default:
		c.Count("ival:non-negative")
	}
	if !ok || len(a) != 1 || want.Cmp(bi(a[0])) != 0 {
		c.Fail("C18:interval", "DurationFromTimeInterval is not floor(i / 2^16)", []string{op}, map[string]any{"want": want.String()})
	}
}

// formulas: construct t1, t3 from a true offset theta, delays d1/d3 and corrections, and
// compare the implementation's offset / delay with the exact values.
func formulas(c *lib.Ctx, t0, t2 *big.Int, d1, d3, theta, c1, c3, utc int64) {
	t1 := new(big.Int).Add(t0, bi(d1))
	t1.Add(t1, bi(theta)).Add(t1, bi(c1))
	t3 := new(big.Int).Add(t2, bi(d3))
	t3.Sub(t3, bi(theta)).Add(t3, bi(c3))
	t0s, t0n := splitNs(t0)
	t1s, t1n := splitNs(t1)
	t2s, t2n := splitNs(t2)
	t3s, t3n := splitNs(t3)
	args := fmt.Sprintf("%d %d %d %d %d %d %d %d %d %d", t0s, t0n, t1s, t1n, t2s, t2n, t3s, t3n, c1, c3)
	opo, opd := "cs.offset "+args, "cs.delay "+args
	o, ok1 := lib.Ints(c.Do(opo))
	d, ok2 := lib.Ints(c.Do(opd))
	if !ok1 || !ok2 {
		c.Fail("C18:formulas:not-ok", "ClockOffset / MeanPathDelay did not return", []string{opo, opd}, nil)
		return
	}
	// exact expectation: trunc((2 theta + d1 - d3)/2), trunc((d1+d3)/2)
	wo := new(big.Int).Add(bi(theta), bi(theta))
	wo.Add(wo, bi(d1)).Sub(wo, bi(d3))
	wo.Quo(wo, bi(2))
	wd := new(big.Int).Add(bi(d1), bi(d3))
	wd.Quo(wd, bi(2))
	if d1 == d3 {
		c.Count("formulas:symmetric")
	} else {
		c.Count("formulas:asymmetric")
	}
	if wo.Cmp(bi(o[0])) != 0 {
		what := "ClockOffset does not return the true offset"
		if d1 != d3 {
			what = "ClockOffset is not the true offset plus half the asymmetry"
		}
		c.Fail("C18:formulas:offset", what, []string{opo}, map[string]any{"theta": theta, "d1": d1, "d3": d3, "want": wo.String(), "got": o[0]})
	}
	if wd.Cmp(bi(d[0])) != 0 {
		c.Fail("C18:formulas:delay", "MeanPathDelay does not return the (mean) delay", []string{opd},
			map[string]any{"d1": d1, "d3": d3, "want": wd.String(), "got": d[0]})
	}
	// one-way delays
	opa := fmt.Sprintf("cs.c2s %d %d %d %d %d %d", t0s, t0n, t1s, t1n, c1, utc)
	opb := fmt.Sprintf("cs.s2c %d %d %d %d %d %d", t2s, t2n, t3s, t3n, c3, utc)
	a, oka := lib.Ints(c.Do(opa))
	b, okb := lib.Ints(c.Do(opb))
	wa := new(big.Int).Sub(bi(d1+theta), bi(utc))
	wb := new(big.Int).Add(bi(d3-theta), bi(utc))
	if !oka || !okb || wa.Cmp(bi(a[0])) != 0 || wb.Cmp(bi(b[0])) != 0 {
		c.Fail("C18:formulas:oneway", "C2SDelay / S2CDelay are not the exact differences", []string{opa, opb}, nil)
	}
}

// scaled-ppm round trip (floating point; Go-side oracle only, no model correspondence yet)
func ppm(c *lib.Ctx, x int64) {
	f := unixutil.FreqFromScaledPPM(x)
	y := unixutil.ScaledPPMFromFreq(f)
	c.Count("ppm:roundtrip-checked(go-side only)")
	// exact value x / 65536e6 as a rational; the double must be within half an ulp, i.e.
	// relative error <= 2^-53
	exact := new(big.Rat).SetFrac(bi(x), bi(65536000000))
	fr := new(big.Rat)
	fr.SetFloat64(f)
	diff := new(big.Rat).Sub(fr, exact)
	diff.Abs(diff)
	bound := new(big.Rat).Abs(exact)
	bound.Mul(bound, new(big.Rat).SetFrac(bi(1), new(big.Int).Lsh(bi(1), 53)))
	if diff.Cmp(bound) > 0 {
		c.Fail("C18:ppm:freq-rounding", "FreqFromScaledPPM is not the correctly rounded quotient", []string{},
			map[string]any{"scaled_ppm": x, "freq_bits": fmt.Sprintf("%016x", math.Float64bits(f))})
	}
	if y-x > 1 || x-y > 1 {
		c.Fail("C18:ppm:roundtrip", "ScaledPPMFromFreq(FreqFromScaledPPM(x)) differs from x by more than 1", []string{},
			map[string]any{"scaled_ppm": x, "back": y})
	}
	if y != x {
		c.Count("ppm:roundtrip-off-by-one")
	}
}

func gen(c *lib.Ctx) {
	r := c.Rand

	// ---- boundary stream: TimevalFromNsec
	c.Comment("boundary stream: TimevalFromNsec")
	nsecs := []int64{minI, minI + 1, maxI, maxI - 1, -1, 0, 1, -e9 - 1, -e9, -e9 + 1, e9 - 1, e9, e9 + 1, -2*e9 - 1, -2 * e9, -2*e9 + 1,
		-999999999, 999999999, -500000000, 500000000, -1500000000, 1500000000,
		-9223372036 * e9, -9223372036*e9 - 1, -9223372036*e9 + 1, 9223372036 * e9, 9223372036*e9 - 1, 9223372036*e9 + 1,
		-9223372035 * e9, 9223372035 * e9}
	for _, n := range nsecs {
		timeval(c, n)
	}
	for k := int64(-20); k <= 20; k++ {
		for _, d := range []int64{-1, 0, 1} {
			timeval(c, k*e9+d)
		}
	}

	// ---- boundary stream: CSPTP timestamps
	c.Comment("boundary stream: CSPTP timestamps")
	secs := []int64{-2, -1, 0, 1, 255, 256, 65535, 65536, 1<<24 - 1, 1 << 24, 1<<32 - 1, 1 << 32, 1<<40 - 1, 1 << 40, 1790000000,
		s48 - 1, s48, s48 + 1, s48 + 2, 0x0102030405, 0xa1b2c3d4e5f6, 0x800000000000, 0x7fffffffffff}
	nss := []int64{0, 1, 2, 499999999, 500000000, 999999998, 999999999}
	for _, s := range secs {
		for _, n := range nss {
			encDec(c, s, n)
		}
	}
	c.Do("cs.enc -62135596800 0") // year 1
	for _, s := range secs {
		if s < 0 || s > s48 {
			continue
		}
		for _, n := range []uint32{0, 1, 999999999, 1000000000, 1000000001, 1999999999, 2000000000, 3999999999, 4000000000, 4294967295} {
			decEnc(c, s, n)
		}
	}

	// ---- boundary stream: time intervals
	c.Comment("boundary stream: time intervals")
	for _, i := range []int64{minI, minI + 1, minI + 65535, minI + 65536, maxI, maxI - 65535, maxI - 65536, -131073, -131072, -131071, -65537, -65536, -65535, -2, -1, 0, 1, 2,
		65535, 65536, 65537, 131071, 131072, 131073, 0x0000000100000000, -0x0000000100000000, 0x00000000ffff8000} {
		ival(c, i)
	}

	// ---- boundary stream: formulas
	c.Comment("boundary stream: offset / delay formulas")
	now := new(big.Int).Mul(bi(1790000000), bE9)
	now.Add(now, bi(999999999))
	later := new(big.Int).Add(now, bi(2))
	lim := int64(1)<<60 - 1
	for _, th := range []int64{0, 1, -1, 2, -2, 999999999, -999999999, e9, -e9, 37 * e9, -37 * e9, lim, -lim} {
		for _, d := range []int64{0, 1, 2, 250000, e9, lim} {
			for _, cc := range [][2]int64{{0, 0}, {1, 0}, {0, 1}, {-1, 1}, {40, 17}, {lim, -lim}} {
				formulas(c, now, later, d, d, th, cc[0], cc[1], 0)
			}
		}
	}
	// odd sums: truncation toward zero, both signs
	for _, a := range [][3]int64{{3, 0, 0}, {0, 3, 0}, {1, 0, -1}, {0, 1, -1}, {1, 2, 0}, {2, 1, 0}, {0, 1, 0}, {1, 0, 0}, {5, 2, -7},
		{-3, 0, 0}, {0, -3, 0}, {-1, 0, 0}, {0, -1, 0}, {-1, -2, 0}, {-2, 1, 5}, {1, -2, -5}, {-5, -2, 7}, {-1, 0, 1}, {0, -1, 1}} {
		formulas(c, now, later, a[0], a[1], a[2], 0, 0, 37*e9)
	}

	// ---- random streams
	c.Comment("random stream")
	n := c.Scale(8000, 300000)
	for i := 0; i < n; i++ {
		// timeval
		var ns int64
		switch r.Intn(5) {
		case 0:
			ns = r.I64()
		case 1:
			ns = r.Range(-5, 5)*e9 + r.Range(-3, 3)
		case 2:
			ns = r.Range(-9223372036, 9223372036)*e9 + r.Pick64([]int64{-1, 0, 1, 999999999, -999999999})
			// (wraps for the outermost seconds; any int64 is a valid input)
		case 3:
			ns = -r.Range(0, 2000000000) // a negative clock step of up to 2 s
		default:
			ns = r.Range(-500000000, 500000000)
		}
		timeval(c, ns)

		// timestamps
		var s int64
		switch r.Intn(5) {
		case 0:
			s = r.Range(0, s48)
		case 1:
			s = r.Range(1600000000, 2000000000)
		case 2:
			s = r.Pick64(secs) + r.Range(-2, 2)
		case 3:
			s = int64(1)<<uint(r.Range(0, 48)) + r.Range(-1, 1)
		default:
			s = r.Range(-10, s48+10)
		}
		var nn int64
		if r.Chance(30) {
			nn = r.Pick64(nss)
		} else {
			nn = r.Range(0, e9-1)
		}
		encDec(c, s, nn)
		if s >= 0 && s <= s48 {
			var u uint32
			switch r.Intn(3) {
			case 0:
				u = uint32(nn)
			case 1:
				u = uint32(r.U64())
			default:
				u = uint32(r.Pick64([]int64{999999999, 1000000000, 4294967295, 0}))
			}
			decEnc(c, s, u)
		}

		// intervals
		var iv int64
		switch r.Intn(4) {
		case 0:
			iv = r.I64()
		case 1:
			iv = r.Range(-1000, 1000)*65536 + r.Range(-2, 2)
		case 2:
			iv = -r.Range(0, 1<<40)
		default:
			iv = r.Range(0, 1<<40)
		}
		ival(c, iv)

		// formulas
		if i%2 == 0 {
			t0 := new(big.Int).Mul(bi(r.Range(1600000000, 2000000000)), bE9)
			t0.Add(t0, bi(r.Range(0, e9-1)))
			var th int64
			switch r.Intn(4) {
			case 0:
				th = r.Range(-1000000, 1000000)
			case 1:
				th = r.Range(-lim, lim)
			case 2:
				th = r.Range(-40, 40) * e9
			default:
				th = r.Range(-3, 3)
			}
			d1 := r.Range(0, 50000000)
			d3 := d1
			if r.Chance(30) {
				d3 = r.Range(0, 50000000)
			}
			if r.Chance(10) {
				d1 = r.Range(0, lim)
				d3 = d1
			}
			if r.Chance(10) {
				// negative measured delays (corrections larger than the raw difference)
				d1, d3 = r.Range(-1000, 1000), r.Range(-1000, 1000)
				c.Count("formulas:negative-delay")
			}
			c1, c3 := r.Range(0, 100000), r.Range(0, 100000)
			if r.Chance(10) {
				c1, c3 = r.Range(-lim, lim), r.Range(-lim, lim)
			}
			t2 := new(big.Int).Add(t0, bi(r.Range(0, 1000000)))
			formulas(c, t0, t2, d1, d3, th, c1, c3, r.Pick64([]int64{0, 37 * e9, -37 * e9, r.Range(-100, 100) * e9}))
		}
	}

	// ---- scaled ppm (Go-side oracle only)
	for _, x := range []int64{0, 1, -1, 2, -2, 65535, 65536, 65537, -65536, 32768000, -32768000, 32767999, -32767999, 32768001} {
		ppm(c, x)
	}
	for i := 0; i < c.Scale(5000, 200000); i++ {
		ppm(c, r.Range(-32768000, 32768000))
	}
}

func main() { lib.Main(exec, gen) }
