// c18: correspondence + direct oracle (math/big) for the unit conversions of
// base/unixutil (TimevalFromNsec) and net/csptp (timestamps, time intervals, offset and
// delay formulas). The floating-point functions (base/unixutil/freq.go, SystemClock.Drift)
// are executed against Model/FreqDrift.lean (over the shared software double Model/F64.lean),
// doubles crossing the protocol as bit patterns (theorems: Props/C18Float.lean).
package main

import (
	"encoding/hex"
	"fmt"
	"math"
	"math/big"
	"strconv"
	"time"

	"example.com/scion-time/base/timemath"
	"example.com/scion-time/base/unixutil"
	"example.com/scion-time/driver/clocks"
	"example.com/scion-time/net/csptp"

	"verifharness/lib"
)

const (
	minI = int64(math.MinInt64)
	maxI = int64(math.MaxInt64)
	e9   = int64(1000000000)
	s48  = int64(1)<<48 - 1
)

func i64(s string) int64 {
	v, err := strconv.ParseInt(s, 10, 64)
	if err != nil {
		panic("bad-op")
	}
	return v
}

func tm(s, n string) time.Time {
	ns := i64(n)
	if ns < 0 || ns >= e9 {
		panic("bad-op")
	}
	return time.Unix(i64(s), ns)
}

func f64(s string) float64 {
	if len(s) != 16 {
		panic("bad-op")
	}
	b, err := strconv.ParseUint(s, 16, 64)
	if err != nil {
		panic("bad-op")
	}
	return math.Float64frombits(b)
}

// canonNaN: every NaN is printed as 0x7ff8000000000001 (the model's canonical NaN).
func canonNaN(f float64) float64 {
	if f != f {
		return math.Float64frombits(0x7ff8000000000001)
	}
	return f
}

func exec(t []string) string {
	switch {
	case t[0] == "ux.timeval" && len(t) == 2:
		tv := unixutil.TimevalFromNsec(i64(t[1]))
		return fmt.Sprintf("ok %d %d", int64(tv.Sec), int64(tv.Usec))
	case t[0] == "cs.enc" && len(t) == 3:
		ts := csptp.TimestampFromTime(tm(t[1], t[2]))
		return fmt.Sprintf("ok %s %d", hex.EncodeToString(ts.Seconds[:]), ts.Nanoseconds)
	case t[0] == "cs.dec" && len(t) == 3:
		b, err := hex.DecodeString(t[1])
		n, err2 := strconv.ParseUint(t[2], 10, 32)
		if err != nil || err2 != nil || len(b) != 6 {
			panic("bad-op")
		}
		var ts csptp.Timestamp
		copy(ts.Seconds[:], b)
		ts.Nanoseconds = uint32(n)
		r := csptp.TimeFromTimestamp(ts)
		return fmt.Sprintf("ok %d %d", r.Unix(), r.Nanosecond())
	case t[0] == "ux.ppm2freq" && len(t) == 2:
		return fmt.Sprintf("ok %016x", math.Float64bits(canonNaN(unixutil.FreqFromScaledPPM(i64(t[1])))))
	case t[0] == "ux.freq2ppm" && len(t) == 2:
		return fmt.Sprintf("ok %d", unixutil.ScaledPPMFromFreq(f64(t[1])))
	case t[0] == "tm.duration" && len(t) == 2:
		return fmt.Sprintf("ok %d", int64(timemath.Duration(f64(t[1]))))
	case t[0] == "clk.drift" && len(t) == 3:
		clk := clocks.NewSystemClock(nil, time.Duration(i64(t[1])))
		return fmt.Sprintf("ok %d", int64(clk.Drift(time.Duration(i64(t[2])))))
	case t[0] == "cs.ival" && len(t) == 2:
		return fmt.Sprintf("ok %d", int64(csptp.DurationFromTimeInterval(i64(t[1]))))
	case (t[0] == "cs.offset" || t[0] == "cs.delay") && len(t) == 11:
		t0, t1, t2, t3 := tm(t[1], t[2]), tm(t[3], t[4]), tm(t[5], t[6]), tm(t[7], t[8])
		c1, c3 := time.Duration(i64(t[9])), time.Duration(i64(t[10]))
		if t[0] == "cs.offset" {
			return fmt.Sprintf("ok %d", int64(csptp.ClockOffset(t0, t1, t2, t3, c1, c3)))
		}
		return fmt.Sprintf("ok %d", int64(csptp.MeanPathDelay(t0, t1, t2, t3, c1, c3)))
	case (t[0] == "cs.c2s" || t[0] == "cs.s2c") && len(t) == 7:
		a, b := tm(t[1], t[2]), tm(t[3], t[4])
		c, u := time.Duration(i64(t[5])), time.Duration(i64(t[6]))
		if t[0] == "cs.c2s" {
			return fmt.Sprintf("ok %d", int64(csptp.C2SDelay(a, b, c, u)))
		}
		return fmt.Sprintf("ok %d", int64(csptp.S2CDelay(a, b, c, u)))
	}
	return "bad-op"
}

// ---------------------------------------------------------------- oracle helpers

var bE9 = big.NewInt(e9)

func bi(v int64) *big.Int { return big.NewInt(v) }

// splitNs turns a big nanosecond count into (unix seconds, ns in [0,1e9)).
func splitNs(t *big.Int) (int64, int64) {
	q, m := new(big.Int), new(big.Int)
	q.DivMod(t, bE9, m)
	return q.Int64(), m.Int64()
}

func timeval(c *lib.Ctx, nsec int64) {
	op := fmt.Sprintf("ux.timeval %d", nsec)
	a, ok := lib.Ints(c.Do(op))
	switch {
	case nsec < 0 && nsec%e9 != 0:
		c.Count("timeval:negative-remainder")
	case nsec < 0:
		c.Count("timeval:negative-exact")
	default:
		c.Count("timeval:non-negative")
	}
	if !ok || len(a) != 2 {
		c.Fail("C18:timeval:not-ok", "TimevalFromNsec did not return", []string{op}, nil)
		return
	}
	sum := new(big.Int).Mul(bi(a[0]), bE9)
	sum.Add(sum, bi(a[1]))
	if a[1] < 0 || a[1] >= e9 || sum.Cmp(bi(nsec)) != 0 {
		c.Fail("C18:timeval:normal", "sub-second part outside [0,10^9) or sec*10^9+usec != nsec", []string{op},
			map[string]any{"sec": a[0], "usec": a[1]})
	}
}

func encDec(c *lib.Ctx, sec, ns int64) {
	op := fmt.Sprintf("cs.enc %d %d", sec, ns)
	ans := c.Do(op)
	inRange := sec >= 0 && sec <= s48
	var hx string
	var n int64
	if _, err := fmt.Sscanf(ans, "ok %s %d", &hx, &n); err != nil {
		if inRange {
			c.Fail("C18:timestamp:panic-in-range", "TimestampFromTime failed on a time within the 48-bit range", []string{op},
				map[string]any{"answer": ans})
		} else {
			c.Count("enc:out-of-range-panic")
		}
		return
	}
	if !inRange {
		c.Fail("C18:timestamp:no-panic-out-of-range", "TimestampFromTime accepted a time outside the 48-bit range", []string{op}, nil)
		return
	}
	c.Count("enc:in-range")
	op2 := fmt.Sprintf("cs.dec %s %d", hx, n)
	b, ok := lib.Ints(c.Do(op2))
	if !ok || len(b) != 2 || b[0] != sec || b[1] != ns {
		c.Fail("C18:timestamp:roundtrip", "time -> timestamp -> time is not the identity", []string{op, op2}, nil)
	}
}

func decEnc(c *lib.Ctx, sec int64, ns uint32) {
	var bs [6]byte
	for i := 0; i < 6; i++ {
		bs[i] = byte(uint64(sec) >> (8 * (5 - i)))
	}
	hx := hex.EncodeToString(bs[:])
	op := fmt.Sprintf("cs.dec %s %d", hx, ns)
	a, ok := lib.Ints(c.Do(op))
	if !ok || len(a) != 2 {
		c.Fail("C18:timestamp:dec-not-ok", "TimeFromTimestamp did not return", []string{op}, nil)
		return
	}
	// arbitrary-precision expectation: sec*1e9 + ns, normalised
	tot := new(big.Int).Mul(bi(sec), bE9)
	tot.Add(tot, bi(int64(ns)))
	ws, wn := splitNs(tot)
	if a[0] != ws || a[1] != wn {
		c.Fail("C18:timestamp:dec-value", "TimeFromTimestamp is not seconds*10^9+nanoseconds", []string{op}, nil)
		return
	}
	if int64(ns) >= e9 {
		c.Count("dec:ns>=10^9(normalised)")
		if ws > s48 {
			c.Count("dec:ns-carry-leaves-48-bit")
		}
		return
	}
	c.Count("dec:ns<10^9")
	op2 := fmt.Sprintf("cs.enc %d %d", a[0], a[1])
	want := fmt.Sprintf("ok %s %d", hx, ns)
	if got := c.Do(op2); got != want {
		c.Fail("C18:timestamp:roundtrip-rev", "timestamp -> time -> timestamp is not the identity", []string{op, op2},
			map[string]any{"want": want, "got": got})
	}
}

func ival(c *lib.Ctx, i int64) {
	op := fmt.Sprintf("cs.ival %d", i)
	a, ok := lib.Ints(c.Do(op))
	want := new(big.Int).Div(bi(i), bi(65536)) // Euclidean = floor for a positive divisor
	switch {
	case i < 0 && i%65536 != 0:
		c.Count("ival:negative-fraction")
	case i < 0:
		c.Count("ival:negative-whole")
	default:
		c.Count("ival:non-negative")
	}
	if !ok || len(a) != 1 || want.Cmp(bi(a[0])) != 0 {
		c.Fail("C18:interval", "DurationFromTimeInterval is not floor(i / 2^16)", []string{op}, map[string]any{"want": want.String()})
	}
}

// formulas: construct t1, t3 from a true offset theta, delays d1/d3 and corrections, and
// compare the implementation's offset / delay with the exact values.
func formulas(c *lib.Ctx, t0, t2 *big.Int, d1, d3, theta, c1, c3, utc int64) {
	t1 := new(big.Int).Add(t0, bi(d1))
	t1.Add(t1, bi(theta)).Add(t1, bi(c1))
	t3 := new(big.Int).Add(t2, bi(d3))
	t3.Sub(t3, bi(theta)).Add(t3, bi(c3))
	t0s, t0n := splitNs(t0)
	t1s, t1n := splitNs(t1)
	t2s, t2n := splitNs(t2)
	t3s, t3n := splitNs(t3)
	args := fmt.Sprintf("%d %d %d %d %d %d %d %d %d %d", t0s, t0n, t1s, t1n, t2s, t2n, t3s, t3n, c1, c3)
	opo, opd := "cs.offset "+args, "cs.delay "+args
	o, ok1 := lib.Ints(c.Do(opo))
	d, ok2 := lib.Ints(c.Do(opd))
	if !ok1 || !ok2 {
		c.Fail("C18:formulas:not-ok", "ClockOffset / MeanPathDelay did not return", []string{opo, opd}, nil)
		return
	}
	// exact expectation: trunc((2 theta + d1 - d3)/2), trunc((d1+d3)/2)
	wo := new(big.Int).Add(bi(theta), bi(theta))
	wo.Add(wo, bi(d1)).Sub(wo, bi(d3))
	wo.Quo(wo, bi(2))
	wd := new(big.Int).Add(bi(d1), bi(d3))
	wd.Quo(wd, bi(2))
	if d1 == d3 {
		c.Count("formulas:symmetric")
	} else {
		c.Count("formulas:asymmetric")
	}
	if wo.Cmp(bi(o[0])) != 0 {
		what := "ClockOffset does not return the true offset"
		if d1 != d3 {
			what = "ClockOffset is not the true offset plus half the asymmetry"
		}
		c.Fail("C18:formulas:offset", what, []string{opo}, map[string]any{"theta": theta, "d1": d1, "d3": d3, "want": wo.String(), "got": o[0]})
	}
	if wd.Cmp(bi(d[0])) != 0 {
		c.Fail("C18:formulas:delay", "MeanPathDelay does not return the (mean) delay", []string{opd},
			map[string]any{"d1": d1, "d3": d3, "want": wd.String(), "got": d[0]})
	}
	// one-way delays
	opa := fmt.Sprintf("cs.c2s %d %d %d %d %d %d", t0s, t0n, t1s, t1n, c1, utc)
	opb := fmt.Sprintf("cs.s2c %d %d %d %d %d %d", t2s, t2n, t3s, t3n, c3, utc)
	a, oka := lib.Ints(c.Do(opa))
	b, okb := lib.Ints(c.Do(opb))
	wa := new(big.Int).Sub(bi(d1+theta), bi(utc))
	wb := new(big.Int).Add(bi(d3-theta), bi(utc))
	if !oka || !okb || wa.Cmp(bi(a[0])) != 0 || wb.Cmp(bi(b[0])) != 0 {
		c.Fail("C18:formulas:oneway", "C2SDelay / S2CDelay are not the exact differences", []string{opa, opb}, nil)
	}
}

// scaled-ppm round trip: x -> FreqFromScaledPPM -> ScaledPPMFromFreq, judged with math/big.
func ppm(c *lib.Ctx, x int64) {
	op1 := fmt.Sprintf("ux.ppm2freq %d", x)
	a1 := c.Do(op1)
	var bits uint64
	if _, err := fmt.Sscanf(a1, "ok %x", &bits); err != nil {
		c.Fail("C18:ppm:not-ok", "FreqFromScaledPPM did not return", []string{op1}, nil)
		return
	}
	f := math.Float64frombits(bits)
	op2 := fmt.Sprintf("ux.freq2ppm %016x", bits)
	ys, ok := lib.Ints(c.Do(op2))
	if !ok || len(ys) != 1 {
		c.Fail("C18:ppm:not-ok", "ScaledPPMFromFreq did not return", []string{op1, op2}, nil)
		return
	}
	y := ys[0]
	inRange := x >= -32768000 && x <= 32768000
	if !inRange {
		c.Count("ppm:beyond-kernel-range(correspondence only)")
		return
	}
	c.Count("ppm:roundtrip-checked")
	// the double must be within relative 2^-53 of the exact quotient x / 65536e6
	exact := new(big.Rat).SetFrac(bi(x), bi(65536000000))
	fr := new(big.Rat)
	fr.SetFloat64(f)
	diff := new(big.Rat).Sub(fr, exact)
	diff.Abs(diff)
	bound := new(big.Rat).Abs(exact)
	bound.Mul(bound, new(big.Rat).SetFrac(bi(1), new(big.Int).Lsh(bi(1), 53)))
	if diff.Cmp(bound) > 0 {
		c.Fail("C18:ppm:freq-rounding", "FreqFromScaledPPM is not the correctly rounded quotient", []string{op1},
			map[string]any{"scaled_ppm": x})
	}
	if y-x > 1 || x-y > 1 {
		c.Fail("C18:ppm:roundtrip", "ScaledPPMFromFreq(FreqFromScaledPPM(x)) differs from x by more than 1", []string{op1, op2},
			map[string]any{"scaled_ppm": x, "back": y})
	}
	if y != x {
		c.Count("ppm:roundtrip-off-by-one")
	}
}

// freqBack: freq -> ScaledPPMFromFreq -> FreqFromScaledPPM is within one scaled-ppm unit
// (2^-16 ppm = 1/65536e6) below-or-equal in magnitude (truncation) of the original.
func freqBack(c *lib.Ctx, f float64) {
	bits := math.Float64bits(canonNaN(f))
	op1 := fmt.Sprintf("ux.freq2ppm %016x", bits)
	ys, ok := lib.Ints(c.Do(op1))
	if !ok || len(ys) != 1 {
		c.Fail("C18:ppm:not-ok", "ScaledPPMFromFreq did not return", []string{op1}, nil)
		return
	}
	if f != f || math.IsInf(f, 0) || math.Abs(f) > 500e-6 {
		c.Count("freq:beyond-kernel-range(correspondence only)")
		return
	}
	op2 := fmt.Sprintf("ux.ppm2freq %d", ys[0])
	a2 := c.Do(op2)
	var b2 uint64
	if _, err := fmt.Sscanf(a2, "ok %x", &b2); err != nil {
		c.Fail("C18:ppm:not-ok", "FreqFromScaledPPM did not return", []string{op1, op2}, nil)
		return
	}
	c.Count("freq:roundtrip-checked")
	g := math.Float64frombits(b2)
	fr, gr := new(big.Rat), new(big.Rat)
	fr.SetFloat64(f)
	gr.SetFloat64(g)
	d := new(big.Rat).Sub(fr, gr)
	d.Abs(d)
	unit := new(big.Rat).SetFrac(bi(1), bi(65536000000))
	// one unit for the truncation plus rounding slack of 2^-50 relative
	slack := new(big.Rat).Abs(fr)
	slack.Mul(slack, new(big.Rat).SetFrac(bi(1), new(big.Int).Lsh(bi(1), 50)))
	unit.Add(unit, slack)
	if d.Cmp(unit) > 0 {
		c.Fail("C18:ppm:freq-roundtrip", "FreqFromScaledPPM(ScaledPPMFromFreq(f)) differs from f by more than one scaled-ppm unit",
			[]string{op1, op2}, nil)
	}
}

// drift: SystemClock.Drift(duration) against the exact product duration * drift / 1s.
func drift(c *lib.Ctx, dr, d int64) {
	op := fmt.Sprintf("clk.drift %d %d", dr, d)
	a, ok := lib.Ints(c.Do(op))
	if !ok || len(a) != 1 {
		c.Fail("C18:drift:not-ok", "Drift did not return", []string{op}, nil)
		return
	}
	if dr == 0 {
		c.Count("drift:unknown")
		if a[0] != maxI {
			c.Fail("C18:drift:unknown", "Drift with UnknownDrift is not MaxInt64", []string{op}, nil)
		}
		return
	}
	exact := new(big.Rat).SetFrac(new(big.Int).Mul(bi(dr), bi(d)), bE9)
	lim := new(big.Rat).SetInt(new(big.Int).Lsh(bi(1), 62))
	if new(big.Rat).Abs(exact).Cmp(lim) >= 0 {
		c.Count("drift:beyond-int64(correspondence only)")
		return
	}
	c.Count("drift:proportionality-checked")
	diff := new(big.Rat).Sub(new(big.Rat).SetInt(bi(a[0])), exact)
	diff.Abs(diff)
	tol := new(big.Rat).Abs(exact)
	tol.Mul(tol, new(big.Rat).SetFrac(bi(1), new(big.Int).Lsh(bi(1), 51)))
	tol.Add(tol, new(big.Rat).SetInt64(1))
	if diff.Cmp(tol) > 0 {
		c.Fail("C18:drift:proportional", "Drift differs from duration*drift by more than 1 ns + 2^-51 relative", []string{op},
			map[string]any{"exact": exact.FloatString(3), "got": a[0]})
	}
}

func gen(c *lib.Ctx) {
	r := c.Rand

	// ---- boundary stream: TimevalFromNsec
	c.Comment("boundary stream: TimevalFromNsec")
	nsecs := []int64{minI, minI + 1, maxI, maxI - 1, -1, 0, 1, -e9 - 1, -e9, -e9 + 1, e9 - 1, e9, e9 + 1, -2*e9 - 1, -2 * e9, -2*e9 + 1,
		-999999999, 999999999, -500000000, 500000000, -1500000000, 1500000000,
		-9223372036 * e9, -9223372036*e9 - 1, -9223372036*e9 + 1, 9223372036 * e9, 9223372036*e9 - 1, 9223372036*e9 + 1,
		-9223372035 * e9, 9223372035 * e9}
	for _, n := range nsecs {
		timeval(c, n)
	}
	for k := int64(-20); k <= 20; k++ {
		for _, d := range []int64{-1, 0, 1} {
			timeval(c, k*e9+d)
		}
	}

	// ---- boundary stream: CSPTP timestamps
	c.Comment("boundary stream: CSPTP timestamps")
	secs := []int64{-2, -1, 0, 1, 255, 256, 65535, 65536, 1<<24 - 1, 1 << 24, 1<<32 - 1, 1 << 32, 1<<40 - 1, 1 << 40, 1790000000,
		s48 - 1, s48, s48 + 1, s48 + 2, 0x0102030405, 0xa1b2c3d4e5f6, 0x800000000000, 0x7fffffffffff}
	nss := []int64{0, 1, 2, 499999999, 500000000, 999999998, 999999999}
	for _, s := range secs {
		for _, n := range nss {
			encDec(c, s, n)
		}
	}
	c.Do("cs.enc -62135596800 0") // year 1
	for _, s := range secs {
		if s < 0 || s > s48 {
			continue
		}
		for _, n := range []uint32{0, 1, 999999999, 1000000000, 1000000001, 1999999999, 2000000000, 3999999999, 4000000000, 4294967295} {
			decEnc(c, s, n)
		}
	}

	// ---- boundary stream: time intervals
	c.Comment("boundary stream: time intervals")
	for _, i := range []int64{minI, minI + 1, minI + 65535, minI + 65536, maxI, maxI - 65535, maxI - 65536, -131073, -131072, -131071, -65537, -65536, -65535, -2, -1, 0, 1, 2,
		65535, 65536, 65537, 131071, 131072, 131073, 0x0000000100000000, -0x0000000100000000, 0x00000000ffff8000} {
		ival(c, i)
	}

	// ---- boundary stream: formulas
	c.Comment("boundary stream: offset / delay formulas")
	now := new(big.Int).Mul(bi(1790000000), bE9)
	now.Add(now, bi(999999999))
	later := new(big.Int).Add(now, bi(2))
	lim := int64(1)<<60 - 1
	for _, th := range []int64{0, 1, -1, 2, -2, 999999999, -999999999, e9, -e9, 37 * e9, -37 * e9, lim, -lim} {
		for _, d := range []int64{0, 1, 2, 250000, e9, lim} {
			for _, cc := range [][2]int64{{0, 0}, {1, 0}, {0, 1}, {-1, 1}, {40, 17}, {lim, -lim}} {
				formulas(c, now, later, d, d, th, cc[0], cc[1], 0)
			}
		}
	}
	// odd sums: truncation toward zero, both signs
	for _, a := range [][3]int64{{3, 0, 0}, {0, 3, 0}, {1, 0, -1}, {0, 1, -1}, {1, 2, 0}, {2, 1, 0}, {0, 1, 0}, {1, 0, 0}, {5, 2, -7},
		{-3, 0, 0}, {0, -3, 0}, {-1, 0, 0}, {0, -1, 0}, {-1, -2, 0}, {-2, 1, 5}, {1, -2, -5}, {-5, -2, 7}, {-1, 0, 1}, {0, -1, 1}} {
		formulas(c, now, later, a[0], a[1], a[2], 0, 0, 37*e9)
	}

	// ---- random streams
	c.Comment("random stream")
	n := c.Scale(8000, 300000)
	for i := 0; i < n; i++ {
		// timeval
		var ns int64
		switch r.Intn(5) {
		case 0:
			ns = r.I64()
		case 1:
			ns = r.Range(-5, 5)*e9 + r.Range(-3, 3)
		case 2:
			ns = r.Range(-9223372036, 9223372036)*e9 + r.Pick64([]int64{-1, 0, 1, 999999999, -999999999})
			// (wraps for the outermost seconds; any int64 is a valid input)
		case 3:
			ns = -r.Range(0, 2000000000) // a negative clock step of up to 2 s
		default:
			ns = r.Range(-500000000, 500000000)
		}
		timeval(c, ns)

		// timestamps
		var s int64
		switch r.Intn(5) {
		case 0:
			s = r.Range(0, s48)
		case 1:
			s = r.Range(1600000000, 2000000000)
		case 2:
			s = r.Pick64(secs) + r.Range(-2, 2)
		case 3:
			s = int64(1)<<uint(r.Range(0, 48)) + r.Range(-1, 1)
		default:
			s = r.Range(-10, s48+10)
		}
		var nn int64
		if r.Chance(30) {
			nn = r.Pick64(nss)
		} else {
			nn = r.Range(0, e9-1)
		}
		encDec(c, s, nn)
		if s >= 0 && s <= s48 {
			var u uint32
			switch r.Intn(3) {
			case 0:
				u = uint32(nn)
			case 1:
				u = uint32(r.U64())
			default:
				u = uint32(r.Pick64([]int64{999999999, 1000000000, 4294967295, 0}))
			}
			decEnc(c, s, u)
		}

		// intervals
		var iv int64
		switch r.Intn(4) {
		case 0:
			iv = r.I64()
		case 1:
			iv = r.Range(-1000, 1000)*65536 + r.Range(-2, 2)
		case 2:
			iv = -r.Range(0, 1<<40)
		default:
			iv = r.Range(0, 1<<40)
		}
		ival(c, iv)

		// formulas
		if i%2 == 0 {
			t0 := new(big.Int).Mul(bi(r.Range(1600000000, 2000000000)), bE9)
			t0.Add(t0, bi(r.Range(0, e9-1)))
			var th int64
			switch r.Intn(4) {
			case 0:
				th = r.Range(-1000000, 1000000)
			case 1:
				th = r.Range(-lim, lim)
			case 2:
				th = r.Range(-40, 40) * e9
			default:
				th = r.Range(-3, 3)
			}
			d1 := r.Range(0, 50000000)
			d3 := d1
			if r.Chance(30) {
				d3 = r.Range(0, 50000000)
			}
			if r.Chance(10) {
				d1 = r.Range(0, lim)
				d3 = d1
			}
			if r.Chance(10) {
				// negative measured delays (corrections larger than the raw difference)
				d1, d3 = r.Range(-1000, 1000), r.Range(-1000, 1000)
				c.Count("formulas:negative-delay")
			}
			c1, c3 := r.Range(0, 100000), r.Range(0, 100000)
			if r.Chance(10) {
				c1, c3 = r.Range(-lim, lim), r.Range(-lim, lim)
			}
			t2 := new(big.Int).Add(t0, bi(r.Range(0, 1000000)))
			formulas(c, t0, t2, d1, d3, th, c1, c3, r.Pick64([]int64{0, 37 * e9, -37 * e9, r.Range(-100, 100) * e9}))
		}
	}

	// ---- scaled ppm <-> frequency
	c.Comment("scaled ppm / frequency")
	for _, x := range []int64{0, 1, -1, 2, -2, 65535, 65536, 65537, -65536, 32768000, -32768000, 32767999, -32767999, 32768001, -32768001,
		minI, maxI, 1 << 53, 1<<53 + 1, -(1 << 53) - 1, 65536000000, 9007199254740993} {
		ppm(c, x)
	}
	for i := 0; i < c.Scale(4000, 150000); i++ {
		switch r.Intn(8) {
		case 0:
			ppm(c, r.I64())
		default:
			ppm(c, r.Range(-32768000, 32768000))
		}
	}
	for _, f := range []float64{0, math.Copysign(0, -1), 500e-6, -500e-6, 499.99999e-6, 1e-6, -1e-6, 1.0 / 65536e6, 0.9999 / 65536e6, -0.9999 / 65536e6,
		1.5 / 65536e6, math.SmallestNonzeroFloat64, math.MaxFloat64, -math.MaxFloat64, math.Inf(1), math.Inf(-1), math.NaN(), 1e9, 140737488.355327, 140737488.355328, -140737488.355329} {
		freqBack(c, f)
	}
	for i := 0; i < c.Scale(4000, 150000); i++ {
		switch r.Intn(8) {
		case 0:
			freqBack(c, math.Float64frombits(r.U64()))
		case 1:
			freqBack(c, float64(r.Range(-32768000, 32768000))/65536e6)
		default:
			freqBack(c, (float64(r.Range(-1000000000, 1000000000))/1e9)*500e-6)
		}
	}

	// ---- drift allowance
	c.Comment("drift")
	for _, dr := range []int64{0, 1, -1, 10000, 1000000, e9, -e9, 123456789, maxI, minI} {
		for _, d := range []int64{0, 1, -1, 999999999, e9, e9 + 1, 64 * e9, 3600 * e9, maxI, minI} {
			drift(c, dr, d)
		}
	}
	for i := 0; i < c.Scale(4000, 150000); i++ {
		var dr, d int64
		switch r.Intn(4) {
		case 0:
			dr = r.Range(1, 1000000) // up to 1 ms per second
		case 1:
			dr = r.Range(-1000000, 1000000)
		case 2:
			dr = r.Pick64([]int64{0, 10000, 50000, 100000})
		default:
			dr = r.I64()
		}
		switch r.Intn(4) {
		case 0:
			d = r.Range(0, 3600) * e9
		case 1:
			d = r.Range(0, 3600*e9)
		case 2:
			d = r.Range(-e9, 100*e9)
		default:
			d = r.I64()
		}
		drift(c, dr, d)
		if i%4 == 0 {
			c.Dof("tm.duration %016x", math.Float64bits(canonNaN(math.Float64frombits(r.U64()))))
			c.Dof("tm.duration %016x", math.Float64bits(float64(r.Range(-10000000, 10000000))/1000))
		}
	}
}

func main() { lib.Main(exec, gen) }
