package ntsx

import (
	"github.com/miscreant/miscreant.go"

	"encoding/binary"
	"fmt"
	"strings"

	"verifharness/lib"
)

// ---------------------------------------------------------------- answer parsing

// Field returns the value of key=value in an answer.
func Field(ans, key string) string {
	for _, f := range strings.Fields(ans) {
		if strings.HasPrefix(f, key+"=") {
			return f[len(key)+1:]
		}
	}
	return ""
}

func IsOK(ans string) bool    { return strings.HasPrefix(ans, "ok") }
func IsCrash(ans string) bool { return strings.HasPrefix(ans, "panic") || ans == "hang" }

// OkHex returns the bytes of an "ok <hex>" answer.
func OkHex(ans string) ([]byte, bool) {
	f := strings.Fields(ans)
	if len(f) < 2 || f[0] != "ok" {
		return nil, false
	}
	return hexb(f[1]), true
}

func ParseHexList(s string) [][]byte { return hexlist(s) }
func ParseHex(s string) []byte       { return hexb(s) }

// ---------------------------------------------------------------- builders (all through ops)

type Session struct {
	Algo     int
	C2S, S2C []byte
}

func NewSession(r *lib.Rand) Session {
	return Session{Algo: 15, C2S: r.Bytes(32), S2C: r.Bytes(32)}
}

// IssueCookie makes the server-side cookie for s under key (ck.encrypt op).
func IssueCookie(c *lib.Ctx, r *lib.Rand, s Session, key []byte, keyid int) []byte {
	ans := Do(c, fmt.Sprintf("ck.encrypt %d %s %s %s %d rand=%s", s.Algo, lib.Hex(s.S2C), lib.Hex(s.C2S), lib.Hex(key), keyid, lib.Hex(r.Bytes(16))))
	b, _ := OkHex(ans)
	return b
}

func Header(r *lib.Rand) []byte {
	h := r.Bytes(48)
	h[0] = 0x23
	return h
}

// Request builds a client request for the given pool through nts.newreq + nts.enc.
func Request(c *lib.Ctx, r *lib.Rand, pool [][]byte, c2s []byte) (pkt []byte, uid []byte, ans string) {
	a := Do(c, fmt.Sprintf("nts.newreq %s %s rand=%s", HexList(pool), lib.Hex(c2s), lib.Hex(r.Bytes(32))))
	if !IsOK(a) {
		return nil, nil, a
	}
	uid = hexb(Field(a, "uid"))
	ans = Do(c, fmt.Sprintf("nts.enc %s %s %s %s %s - rand=%s", lib.Hex(Header(r)), Field(a, "uid"), Field(a, "cookies"), Field(a, "ph"),
		lib.Hex(c2s), lib.Hex(r.Bytes(16))))
	pkt, _ = OkHex(ans)
	return pkt, uid, ans
}

// Reply runs the server branch on a request.
func Reply(c *lib.Ctx, r *lib.Rand, req []byte, keys map[int][]byte, curID int, nrand int) string {
	var ks []string
	for id := 0; id < 70000; id++ { // sorted, small maps only
		if k, ok := keys[id]; ok {
			ks = append(ks, fmt.Sprintf("%d:%s", id, lib.Hex(k)))
		}
		if len(ks) == len(keys) {
			break
		}
	}
	return Do(c, fmt.Sprintf("srv.reply %s %s keys=[%s] cur=%d:%s rand=%s", lib.Hex(req), lib.Hex(Header(r)), strings.Join(ks, ","), curID,
		lib.Hex(keys[curID]), lib.Hex(r.Bytes(16*nrand))))
}

// ---------------------------------------------------------------- structure of valid packets (for mutation and wire oracles only)

type ExtField struct {
	Off, Type, Len int
}

// Walk lists the extension fields of a well-formed packet the generator built itself.
func Walk(b []byte) []ExtField {
	var fs []ExtField
	pos := 48
	for pos+4 <= len(b) {
		t := int(binary.BigEndian.Uint16(b[pos:]))
		l := int(binary.BigEndian.Uint16(b[pos+2:]))
		if l < 4 || pos+l > len(b) {
			break
		}
		fs = append(fs, ExtField{pos, t, l})
		pos += l
	}
	return fs
}

func put16(b []byte, off, v int) []byte {
	c := append([]byte(nil), b...)
	if off+2 <= len(c) {
		binary.BigEndian.PutUint16(c[off:], uint16(v))
	}
	return c
}

type Mutant struct {
	Kind string
	B    []byte
}

var lenValues = []int{0, 1, 2, 3, 4, 5, 8, 24, 27, 28, 32, 36, 0x7fff, 0xfffc, 0xffff}
var typeValues = []int{0x104, 0x204, 0x304, 0x404, 0, 0x4, 0x8204, 0xffff}

// FieldMutants returns the single-field mutations of a well-formed packet: every type and length
// field (extension headers, nonce and ciphertext lengths) set to boundary values, fields deleted,
// duplicated, swapped, the packet truncated around every field boundary and extended.
func FieldMutants(b []byte, r *lib.Rand) []Mutant {
	var ms []Mutant
	fs := Walk(b)
	for i, f := range fs {
		for _, v := range lenValues {
			ms = append(ms, Mutant{fmt.Sprintf("len%d=%d", i, v), put16(b, f.Off+2, v)})
		}
		for _, d := range []int{-4, -1, 1, 4} {
			ms = append(ms, Mutant{fmt.Sprintf("len%d%+d", i, d), put16(b, f.Off+2, f.Len+d)})
		}
		ms = append(ms, Mutant{fmt.Sprintf("len%d=rest", i), put16(b, f.Off+2, len(b)-f.Off)})
		ms = append(ms, Mutant{fmt.Sprintf("len%d=rest+1", i), put16(b, f.Off+2, len(b)-f.Off+1)})
		for _, v := range typeValues {
			if v != f.Type {
				ms = append(ms, Mutant{fmt.Sprintf("type%d=%#x", i, v), put16(b, f.Off, v)})
			}
		}
		if f.Type == 0x404 {
			for _, v := range []int{0, 1, 15, 17, 20, 32, 0xffff} {
				ms = append(ms, Mutant{fmt.Sprintf("noncelen=%d", v), put16(b, f.Off+4, v)})
			}
			cl := int(binary.BigEndian.Uint16(b[f.Off+6:]))
			for _, v := range []int{0, 15, 16, cl - 1, cl + 1, cl + 4, 0xffff} {
				ms = append(ms, Mutant{fmt.Sprintf("ctlen=%d", v), put16(b, f.Off+6, v)})
			}
		}
		// delete, duplicate
		del := append(append([]byte(nil), b[:f.Off]...), b[f.Off+f.Len:]...)
		ms = append(ms, Mutant{fmt.Sprintf("del%d", i), del})
		dup := append(append(append([]byte(nil), b[:f.Off+f.Len]...), b[f.Off:f.Off+f.Len]...), b[f.Off+f.Len:]...)
		ms = append(ms, Mutant{fmt.Sprintf("dup%d", i), dup})
		if i+1 < len(fs) {
			g := fs[i+1]
			sw := append([]byte(nil), b[:f.Off]...)
			sw = append(sw, b[g.Off:g.Off+g.Len]...)
			sw = append(sw, b[f.Off:f.Off+f.Len]...)
			sw = append(sw, b[g.Off+g.Len:]...)
			ms = append(ms, Mutant{fmt.Sprintf("swap%d", i), sw})
		}
		for _, d := range []int{-1, 0, 1, 4, 27, 28} {
			if n := f.Off + d; n >= 0 && n <= len(b) {
				ms = append(ms, Mutant{fmt.Sprintf("trunc%d%+d", i, d), append([]byte(nil), b[:n]...)})
			}
		}
	}
	ms = append(ms, Mutant{"trunc-1", append([]byte(nil), b[:len(b)-1]...)})
	ms = append(ms, Mutant{"ext+4", append(append([]byte(nil), b...), 0, 0, 0, 0)})
	ms = append(ms, Mutant{"ext+28", append(append([]byte(nil), b...), r.Bytes(28)...)})
	ms = append(ms, Mutant{"ext+zero28", append(append([]byte(nil), b...), make([]byte, 28)...)})
	return ms
}

// BitFlip returns b with bit i flipped.
func BitFlip(b []byte, i int) []byte {
	c := append([]byte(nil), b...)
	c[i/8] ^= 1 << (i % 8)
	return c
}

// TLVMutants returns single-field mutations of a cookie TLV string (three TLVs).
func TLVMutants(b []byte, r *lib.Rand) []Mutant {
	var ms []Mutant
	pos := 0
	i := 0
	for pos+4 <= len(b) {
		l := int(binary.BigEndian.Uint16(b[pos+2:]))
		for _, v := range []int{0, 1, 2, 3, l - 1, l + 1, l + 4, len(b) - pos - 4, len(b) - pos - 3, len(b), 0xffff} {
			if v >= 0 {
				ms = append(ms, Mutant{fmt.Sprintf("tlvlen%d=%d", i, v), put16(b, pos+2, v)})
			}
		}
		for _, v := range []int{0x101, 0x201, 0x301, 0x401, 0x501, 0x601, 0, 0xffff} {
			ms = append(ms, Mutant{fmt.Sprintf("tlvtype%d=%#x", i, v), put16(b, pos, v)})
		}
		for _, d := range []int{0, 1, 2, 3, 4, 5} {
			if pos+d <= len(b) {
				ms = append(ms, Mutant{fmt.Sprintf("tlvtrunc%d+%d", i, d), append([]byte(nil), b[:pos+d]...)})
			}
		}
		if pos+4+l > len(b) {
			break
		}
		del := append(append([]byte(nil), b[:pos]...), b[pos+4+l:]...)
		ms = append(ms, Mutant{fmt.Sprintf("tlvdel%d", i), del})
		pos += 4 + l
		i++
	}
	ms = append(ms, Mutant{"tlv-1", append([]byte(nil), b[:len(b)-1]...)})
	for _, n := range []int{1, 2, 3, 4, 5, 6} {
		ms = append(ms, Mutant{fmt.Sprintf("tlv+%d", n), append(append([]byte(nil), b...), r.Bytes(n)...)})
	}
	return ms
}

// NoCrash is the C08 oracle: the answer of a decoder must be a value or an error.
func NoCrash(c *lib.Ctx, op, ans, what string) {
	if IsCrash(ans) {
		cls := strings.ReplaceAll(ans, " ", ":")
		c.Fail("crash:"+strings.Fields(op)[0]+":"+cls, what+": "+ans, []string{op}, map[string]any{"answer": ans})
	}
}

// ---------------------------------------------------------------- a foreign (possibly hostile) peer's encoder

// RawField is an extension field with the given type, the value padded to 4 bytes.
func RawField(typ int, value []byte) []byte {
	n := pad4(len(value))
	f := make([]byte, 4+n)
	binary.BigEndian.PutUint16(f, uint16(typ))
	binary.BigEndian.PutUint16(f[2:], uint16(4+n))
	copy(f[4:], value)
	return f
}

// ForeignPacket builds an authenticated NTS packet the way another implementation could: header,
// arbitrary raw extension fields, then an authenticator sealing pt under key over all preceding
// bytes (real AEAD library). Nothing of net/nts is used.
func ForeignPacket(hdr []byte, fields [][]byte, key, nonce, pt []byte) []byte {
	b := append([]byte(nil), hdr...)
	for _, f := range fields {
		b = append(b, f...)
	}
	a, err := miscreant.NewAEAD("AES-CMAC-SIV", key, len(nonce))
	if err != nil {
		panic(err)
	}
	ct := a.Seal(nil, nonce, pt, b)
	body := make([]byte, 4)
	binary.BigEndian.PutUint16(body, uint16(len(nonce)))
	binary.BigEndian.PutUint16(body[2:], uint16(len(ct)))
	body = append(body, nonce...)
	body = append(body, make([]byte, pad4(len(nonce))-len(nonce))...)
	body = append(body, ct...)
	return append(b, RawField(0x404, body)...)
}
