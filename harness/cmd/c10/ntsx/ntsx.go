// Package ntsx interprets the op lines of the NTS checks (C10, C11, C14Nts, C08Nts) against the
// real net/nts and net/ntske code. Every op is executed in a guarded child process (the same
// binary started with -worker): a decoder that never returns (finding F2) or allocates without
// bound is killed and reported as `hang` instead of taking the harness down.
//
// AEAD oracle answers: while executing an op the interpreter calls the real AEAD library
// (miscreant) directly — not through the code under test — on the inputs the real decoder
// extracted, and returns them as seal=K/N/P/AD/CT and open=K/N/C/AD/PT tokens that are appended
// to the op line for the Lean model (a table keyed by the complete inputs: the model must ask for
// exactly the same key, nonce, text and associated data to get the answer).
package ntsx

import (
	"bufio"
	"context"
	"crypto/ecdsa"
	"crypto/elliptic"
	"crypto/rand"
	"crypto/tls"
	"crypto/x509"
	"crypto/x509/pkix"
	"encoding/hex"
	"fmt"
	"io"
	"log/slog"
	"math/big"
	"net"
	"os"
	"os/exec"
	"runtime"
	"runtime/debug"
	"strconv"
	"strings"
	"time"

	"github.com/miscreant/miscreant.go"

	"example.com/scion-time/core/server"
	"example.com/scion-time/core/timebase"
	"example.com/scion-time/net/nts"
	"example.com/scion-time/net/ntske"

	"verifharness/lib"
)

// ---------------------------------------------------------------- scripted crypto/rand

type script struct {
	b   []byte
	off int
}

func (s *script) Read(p []byte) (int, error) {
	for i := range p {
		if s.off < len(s.b) {
			p[i] = s.b[s.off]
		} else {
			p[i] = 0
		}
		s.off++
	}
	return len(p), nil
}

// peek returns the next n bytes the scripted reader will deliver.
func (s *script) peek(n int) []byte {
	out := make([]byte, n)
	for i := range out {
		if s.off+i < len(s.b) {
			out[i] = s.b[s.off+i]
		}
	}
	return out
}

var rnd = &script{}

// ---------------------------------------------------------------- helpers

func hexb(s string) []byte {
	if s == "-" {
		return []byte{}
	}
	b, err := hex.DecodeString(s)
	if err != nil {
		panic("bad-op")
	}
	return b
}

func hexlist(s string) [][]byte {
	if !strings.HasPrefix(s, "[") || !strings.HasSuffix(s, "]") {
		panic("bad-op")
	}
	s = s[1 : len(s)-1]
	if s == "" {
		return nil
	}
	var out [][]byte
	for _, p := range strings.Split(s, ",") {
		out = append(out, hexb(p))
	}
	return out
}

func HexList(l [][]byte) string {
	var sb strings.Builder
	sb.WriteByte('[')
	for i, b := range l {
		if i > 0 {
			sb.WriteByte(',')
		}
		sb.WriteString(lib.Hex(b))
	}
	sb.WriteByte(']')
	return sb.String()
}

func atoi(s string) int {
	v, err := strconv.Atoi(s)
	if err != nil {
		panic("bad-op")
	}
	return v
}

// exact returns a copy whose capacity equals its length (as the listeners' make-allocated
// cookie slices have), so that slice-bounds behaviour does not depend on allocator slack.
func exact(b []byte) []byte {
	c := make([]byte, len(b))
	copy(c, b)
	return c
}

// dirty returns a copy of b in a buffer of the listeners' kind: capacity beyond MaxPacketLen and
// stale non-zero bytes behind len(b), as a receive buffer reused across datagrams has them.
// EncodePacket encodes in place into such a buffer; whatever it does not write stays stale.
func dirty(b []byte) []byte {
	c := make([]byte, 2*nts.MaxPacketLen)
	for i := range c {
		c[i] = 0xa5
	}
	copy(c, b)
	return c[:len(b)]
}

func kv(t []string, key string) (string, bool) {
	for _, x := range t {
		if strings.HasPrefix(x, key+"=") {
			return x[len(key)+1:], true
		}
	}
	return "", false
}

func positional(t []string) []string {
	var out []string
	for _, x := range t {
		if strings.HasPrefix(x, "seal=") || strings.HasPrefix(x, "open=") || strings.HasPrefix(x, "rand=") ||
			strings.HasPrefix(x, "keys=") || strings.HasPrefix(x, "cur=") {
			continue
		}
		out = append(out, x)
	}
	return out
}

// ErrName maps the errors of net/nts, net/ntske and miscreant to the model's enum.
func ErrName(err error) string {
	s := err.Error()
	switch {
	case strings.Contains(s, "does not contain an authenticator"):
		return "no-auth"
	case strings.Contains(s, "does not contain cookies"):
		return "no-cookies"
	case strings.Contains(s, "does not contain a unique identifier"):
		return "no-uid"
	case strings.Contains(s, "UniqueIdentifier.ID < 32"):
		return "short-uid"
	case strings.Contains(s, "unexpected extension header type"):
		return "ext-type"
	case strings.Contains(s, "unexpected response ID"):
		return "resp-id"
	case strings.Contains(s, "authentication failed"):
		return "auth"
	case strings.Contains(s, "bad key size"):
		return "keysize"
	case strings.Contains(s, "unexpected cookie data"):
		return "cookie-data"
	case strings.Contains(s, "extension field length"):
		return "ext-len"
	case strings.Contains(s, "nonce length"):
		return "nonce-len"
	case strings.Contains(s, "too large"):
		return "too-large"
	}
	return "other:" + strings.ReplaceAll(s, " ", "_")
}

// ---------------------------------------------------------------- AEAD oracle (real library, called directly)

var entries []string

func adText(ad []byte) string {
	if ad == nil {
		return "nil"
	}
	return lib.Hex(ad)
}

func keyOK(key []byte) bool { return len(key) == 32 || len(key) == 64 }

// oracleOpen records what the real library answers to Open(key, nonce, ct, ad).
func oracleOpen(key, nonce, ct, ad []byte) {
	if !keyOK(key) || len(nonce) != 16 {
		return // the library errors / panics before looking at the data; the model must not ask
	}
	a, err := miscreant.NewAEAD("AES-CMAC-SIV", key, 16)
	if err != nil {
		return
	}
	pt, err := a.Open(nil, nonce, ct, ad)
	res := "fail"
	if err == nil {
		if len(ct) != len(pt)+16 {
			panic("AEAD size law violated")
		}
		res = lib.Hex(pt)
	}
	entries = append(entries, fmt.Sprintf("open=%s/%s/%s/%s/%s", lib.Hex(key), lib.Hex(nonce), lib.Hex(ct), adText(ad), res))
}

// oracleSeal records what the real library answers to Seal(key, nonce, pt, ad).
func oracleSeal(key, nonce, pt, ad []byte) {
	if !keyOK(key) || len(nonce) != 16 {
		return
	}
	a, err := miscreant.NewAEAD("AES-CMAC-SIV", key, 16)
	if err != nil {
		return
	}
	ct := a.Seal(nil, nonce, pt, ad)
	if len(ct) != len(pt)+16 {
		panic("AEAD size law violated")
	}
	entries = append(entries, fmt.Sprintf("seal=%s/%s/%s/%s/%s", lib.Hex(key), lib.Hex(nonce), lib.Hex(pt), adText(ad), lib.Hex(ct)))
}

func pad4(n int) int { return (n + 3) &^ 3 }

// ---------------------------------------------------------------- the interpreter

var (
	fetcher ntske.Fetcher
	clData  ntske.Data
	clReqID []byte
)

func showPacketDecoded(p *nts.Packet) string {
	var cs [][]byte
	for _, c := range p.Cookies {
		cs = append(cs, c.Cookie)
	}
	return fmt.Sprintf("uid=%s cookies=%s nph=%d nonce=%s ct=%s pos=%d", lib.Hex(p.UniqueID.ID), HexList(cs),
		len(p.CookiePlaceholders), lib.Hex(p.Auth.Nonce), lib.Hex(p.Auth.CipherText), p.Auth.VerifC10Pos())
}

func cookiesOf(p *nts.Packet) [][]byte {
	var cs [][]byte
	for _, c := range p.Cookies {
		cs = append(cs, c.Cookie)
	}
	return cs
}

func mkPacket(uid []byte, cs, phs [][]byte, key, pt []byte) nts.Packet {
	var p nts.Packet
	p.UniqueID.ID = uid
	for _, c := range cs {
		p.Cookies = append(p.Cookies, nts.Cookie{Cookie: c})
	}
	for _, c := range phs {
		p.CookiePlaceholders = append(p.CookiePlaceholders, nts.CookiePlaceholder{Cookie: c})
	}
	p.Auth.Key = key
	p.Auth.PlainText = pt
	return p
}

// encode runs EncodePacket on a 48-byte header slice and records the seal answer for the
// associated data the packet really carries in front of its authenticator.
func encode(hdr []byte, p *nts.Packet, adlen int) []byte {
	nonce := rnd.peek(16)
	b := dirty(hdr)
	nts.EncodePacket(&b, p)
	if adlen > len(b) {
		adlen = len(b)
	}
	oracleSeal(p.Auth.Key, nonce, p.Auth.PlainText, b[:adlen])
	return b
}

func fieldsLen(uid []byte, lists ...[][]byte) int {
	n := 48 + 4 + pad4(len(uid))
	for _, l := range lists {
		for _, c := range l {
			n += 4 + pad4(len(c))
		}
	}
	if n > nts.MaxPacketLen {
		n = nts.MaxPacketLen
	}
	return n
}

// Run interprets one op line against the real code.
func Run(t []string) string {
	if r, ok := kv(t, "rand"); ok {
		rnd = &script{b: hexb(r)}
	} else {
		rnd = &script{}
	}
	rand.Reader = rnd
	p := positional(t)
	switch {
	case p[0] == "sc.enc" && len(p) == 4:
		c := ntske.ServerCookie{Algo: uint16(atoi(p[1])), S2C: hexb(p[2]), C2S: hexb(p[3])}
		return "ok " + lib.Hex(c.Encode())
	case p[0] == "sc.dec" && len(p) == 2:
		var c ntske.ServerCookie
		if err := c.Decode(exact(hexb(p[1]))); err != nil {
			return "err " + ErrName(err)
		}
		return fmt.Sprintf("ok %d %s %s", c.Algo, lib.Hex(c.S2C), lib.Hex(c.C2S))
	case p[0] == "ec.enc" && len(p) == 4:
		c := ntske.EncryptedServerCookie{ID: uint16(atoi(p[1])), Nonce: hexb(p[2]), Ciphertext: hexb(p[3])}
		return "ok " + lib.Hex(c.Encode())
	case p[0] == "ec.dec" && len(p) == 2:
		var c ntske.EncryptedServerCookie
		if err := c.Decode(exact(hexb(p[1]))); err != nil {
			return "err " + ErrName(err)
		}
		return fmt.Sprintf("ok %d %s %s", c.ID, lib.Hex(c.Nonce), lib.Hex(c.Ciphertext))
	case p[0] == "ck.encrypt" && len(p) == 6:
		c := ntske.ServerCookie{Algo: uint16(atoi(p[1])), S2C: hexb(p[2]), C2S: hexb(p[3])}
		key := hexb(p[4])
		oracleSeal(key, rnd.peek(16), c.Encode(), nil)
		ec, err := c.EncryptWithNonce(key, atoi(p[5]))
		if err != nil {
			return "err " + ErrName(err)
		}
		return "ok " + lib.Hex(ec.Encode())
	case p[0] == "ck.decrypt" && len(p) == 3:
		var ec ntske.EncryptedServerCookie
		if err := ec.Decode(exact(hexb(p[1]))); err != nil {
			return "err " + ErrName(err)
		}
		key := hexb(p[2])
		oracleOpen(key, ec.Nonce, ec.Ciphertext, nil)
		c, err := ec.Decrypt(key)
		if err != nil {
			return "err " + ErrName(err)
		}
		return fmt.Sprintf("ok %d %s %s", c.Algo, lib.Hex(c.S2C), lib.Hex(c.C2S))
	case p[0] == "nts.enc" && len(p) == 7:
		uid, cs, phs := hexb(p[2]), hexlist(p[3]), hexlist(p[4])
		pkt := mkPacket(uid, cs, phs, hexb(p[5]), hexb(p[6]))
		return "ok " + lib.Hex(encode(hexb(p[1]), &pkt, fieldsLen(uid, cs, phs)))
	case p[0] == "nts.dec" && len(p) == 2:
		var pkt nts.Packet
		if err := nts.DecodePacket(&pkt, hexb(p[1])); err != nil {
			return "err " + ErrName(err)
		}
		return "ok " + showPacketDecoded(&pkt)
	case p[0] == "nts.req" && len(p) == 3:
		var pkt nts.Packet
		b, key := hexb(p[1]), hexb(p[2])
		if err := nts.DecodePacket(&pkt, b); err != nil {
			return "err " + ErrName(err)
		}
		oracleOpen(key, pkt.Auth.Nonce, pkt.Auth.CipherText, b[:pkt.Auth.VerifC10Pos()])
		if err := nts.ProcessRequest(b, key, &pkt); err != nil {
			return "err " + ErrName(err)
		}
		return "ok " + HexList(cookiesOf(&pkt))
	case p[0] == "nts.resp" && len(p) == 4:
		var pkt nts.Packet
		b, key := hexb(p[1]), hexb(p[2])
		if err := nts.DecodePacket(&pkt, b); err != nil {
			return "err " + ErrName(err)
		}
		oracleOpen(key, pkt.Auth.Nonce, pkt.Auth.CipherText, b[:pkt.Auth.VerifC10Pos()])
		var f ntske.Fetcher
		if err := nts.ProcessResponse(b, key, &f, &pkt, hexb(p[3])); err != nil {
			return "err " + ErrName(err)
		}
		return "ok " + HexList(f.VerifC11Cookies())
	case p[0] == "nts.newreq" && len(p) == 3:
		pkt, id := nts.NewRequestPacket(ntske.Data{Cookie: hexlist(p[1]), C2sKey: hexb(p[2])})
		var phs [][]byte
		for _, c := range pkt.CookiePlaceholders {
			phs = append(phs, c.Cookie)
		}
		if string(id) != string(pkt.UniqueID.ID) {
			return "ok inconsistent-id"
		}
		return fmt.Sprintf("ok uid=%s cookies=%s ph=%s", lib.Hex(pkt.UniqueID.ID), HexList(cookiesOf(&pkt)), HexList(phs))
	case p[0] == "nts.newresp" && len(p) == 4:
		pkt := nts.NewResponsePacket(hexlist(p[1]), hexb(p[2]), hexb(p[3]))
		return fmt.Sprintf("ok uid=%s pt=%s", lib.Hex(pkt.UniqueID.ID), lib.Hex(pkt.Auth.PlainText))
	case p[0] == "seq.run" && len(p) >= 2:
		return seqRun(p[1:])
	case p[0] == "srv.reply" && len(p) == 3:
		return srvReply(t, hexb(p[1]), hexb(p[2]))
	case p[0] == "lsn.probe" && len(p) == 1:
		return lsnProbe()
	case p[0] == "lsn.send" && len(p) == 2:
		return lsnSend(t, hexb(p[1]))
	case p[0] == "cl.init" && len(p) == 4:
		clData = ntske.Data{Cookie: hexlist(p[1]), C2sKey: hexb(p[2]), S2cKey: hexb(p[3]), Algo: ntske.AES_SIV_CMAC_256}
		clReqID = nil
		fetcher = ntske.Fetcher{}
		fetcher.VerifC11SetData(clData)
		return fmt.Sprintf("ok level=%d", len(fetcher.VerifC11Cookies()))
	case p[0] == "cl.level" && len(p) == 1:
		return fmt.Sprintf("ok level=%d", len(fetcher.VerifC11Cookies()))
	case p[0] == "cl.request" && len(p) == 2:
		if len(fetcher.VerifC11Cookies()) == 0 {
			return "err no-cookies" // the real client would run a key exchange here (C20)
		}
		data, err := fetcher.FetchData(context.Background())
		if err != nil {
			return "err fetch"
		}
		clData = data
		pkt, id := nts.NewRequestPacket(data)
		clReqID = id
		var phs [][]byte
		for _, c := range pkt.CookiePlaceholders {
			phs = append(phs, c.Cookie)
		}
		b := encode(hexb(p[1]), &pkt, fieldsLen(pkt.UniqueID.ID, cookiesOf(&pkt), phs))
		return fmt.Sprintf("ok %s level=%d", lib.Hex(b), len(fetcher.VerifC11Cookies()))
	case p[0] == "cl.response" && len(p) == 2:
		var pkt nts.Packet
		b := hexb(p[1])
		if err := nts.DecodePacket(&pkt, b); err != nil {
			return "err " + ErrName(err)
		}
		oracleOpen(clData.S2cKey, pkt.Auth.Nonce, pkt.Auth.CipherText, b[:pkt.Auth.VerifC10Pos()])
		if err := nts.ProcessResponse(b, clData.S2cKey, &fetcher, &pkt, clReqID); err != nil {
			return "err " + ErrName(err)
		}
		return fmt.Sprintf("ok level=%d", len(fetcher.VerifC11Cookies()))
	}
	return "bad-op"
}

// ---------------------------------------------------------------- results kept across calls

// kept is what one call returned: `full` renders the Go values the caller still holds (it is
// called once right after the call and once after the last call of the sequence), `show` turns
// a rendering into the answer text.
type kept struct {
	full func() string
	show func(string) string
}

func same(s string) string { return s }

// seqRun makes the calls of a seq.run op one after the other, keeps every returned value as the
// real callers do (ServerCookie by value — its C2S/S2C are sub-slices of whatever buffer Decrypt
// opened the cookie into —, the packet's cookie list, the fetcher's pool, the exported keys), and
// renders all of them only after the last call. A result that reads differently at the end than
// right after its call is reported as `unstable=`.
func seqRun(steps []string) string {
	// Per-P caches (sync.Pool and the like) hand a buffer back to the next caller only when that
	// caller runs on the same P and no garbage collection came in between; on a loaded machine a
	// goroutine migrates. One P and no collection for the duration of a sequence makes "a later call
	// reuses what an earlier call returned" deterministic instead of likely.
	defer runtime.GOMAXPROCS(runtime.GOMAXPROCS(1))
	defer debug.SetGCPercent(debug.SetGCPercent(-1))
	var ks []kept
	var early []string
	for _, st := range steps {
		f := strings.Split(st, ":")
		var k kept
		switch {
		case f[0] == "d" && len(f) == 3:
			var ec ntske.EncryptedServerCookie
			key := hexb(f[2])
			if err := ec.Decode(exact(hexb(f[1]))); err != nil {
				msg := "err:" + ErrName(err)
				k = kept{func() string { return msg }, same}
				break
			}
			oracleOpen(key, ec.Nonce, ec.Ciphertext, nil)
			c, err := ec.Decrypt(key)
			if err != nil {
				msg := "err:" + ErrName(err)
				k = kept{func() string { return msg }, same}
				break
			}
			k = kept{func() string { return fmt.Sprintf("ok:%d:%s:%s", c.Algo, lib.Hex(c.S2C), lib.Hex(c.C2S)) }, same}
		case f[0] == "s" && len(f) == 2:
			var c ntske.ServerCookie
			if err := c.Decode(exact(hexb(f[1]))); err != nil {
				msg := "err:" + ErrName(err)
				k = kept{func() string { return msg }, same}
				break
			}
			k = kept{func() string { return fmt.Sprintf("ok:%d:%s:%s", c.Algo, lib.Hex(c.S2C), lib.Hex(c.C2S)) }, same}
		case f[0] == "q" && len(f) == 3:
			pkt := new(nts.Packet)
			b, key := exact(hexb(f[1])), hexb(f[2])
			if err := nts.DecodePacket(pkt, b); err != nil {
				msg := "err:" + ErrName(err)
				k = kept{func() string { return msg }, same}
				break
			}
			oracleOpen(key, pkt.Auth.Nonce, pkt.Auth.CipherText, b[:pkt.Auth.VerifC10Pos()])
			if err := nts.ProcessRequest(b, key, pkt); err != nil {
				msg := "err:" + ErrName(err)
				k = kept{func() string { return msg }, same}
				break
			}
			k = kept{func() string { return "ok:" + HexList(cookiesOf(pkt)) }, same}
		case f[0] == "p" && len(f) == 4:
			pkt := new(nts.Packet)
			b, key := exact(hexb(f[1])), hexb(f[2])
			if err := nts.DecodePacket(pkt, b); err != nil {
				msg := "err:" + ErrName(err)
				k = kept{func() string { return msg }, same}
				break
			}
			oracleOpen(key, pkt.Auth.Nonce, pkt.Auth.CipherText, b[:pkt.Auth.VerifC10Pos()])
			fe := new(ntske.Fetcher)
			if err := nts.ProcessResponse(b, key, fe, pkt, hexb(f[3])); err != nil {
				msg := "err:" + ErrName(err)
				k = kept{func() string { return msg }, same}
				break
			}
			k = kept{func() string { return "ok:" + HexList(fe.VerifC11Cookies()) }, same}
		case f[0] == "x" && len(f) == 1:
			cs := tlsState()
			data := new(ntske.Data)
			if err := ntske.ExportKeys(cs, data); err != nil {
				k = kept{func() string { return "err:export" }, same}
				break
			}
			k = kept{func() string { return "x:" + lib.Hex(data.C2sKey) + ":" + lib.Hex(data.S2cKey) }, func(full string) string {
				g := strings.Split(full, ":")
				if len(g) != 3 {
					return full
				}
				rel := "ne"
				if g[1] == g[2] {
					rel = "eq"
				}
				return fmt.Sprintf("x:%d:%d:%s", len(g[1])/2, len(g[2])/2, rel)
			}}
		default:
			panic("bad-op")
		}
		ks = append(ks, k)
		early = append(early, k.full())
	}
	var out, unstable []string
	var firstX string
	for i, k := range ks {
		late := k.full()
		if late != early[i] {
			unstable = append(unstable, strconv.Itoa(i))
		}
		if strings.HasPrefix(late, "x:") { // one connection: every export yields the same keys
			if firstX == "" {
				firstX = late
			} else if late != firstX {
				unstable = append(unstable, strconv.Itoa(i))
			}
		}
		out = append(out, k.show(late))
	}
	ans := "ok " + strings.Join(out, " | ")
	if len(unstable) > 0 {
		ans += " unstable=" + strings.Join(unstable, ",")
	}
	return ans
}

// tlsState returns the state of a TLS 1.3 connection established in-process (once per worker).
var tlsConnState *tls.ConnectionState

func tlsState() tls.ConnectionState {
	if tlsConnState != nil {
		return *tlsConnState
	}
	key, err := ecdsa.GenerateKey(elliptic.P256(), origRand)
	if err != nil {
		panic(err)
	}
	tmpl := &x509.Certificate{SerialNumber: big.NewInt(1), Subject: pkix.Name{CommonName: "ntsx"},
		NotBefore: time.Now().Add(-time.Hour), NotAfter: time.Now().Add(24 * time.Hour), DNSNames: []string{"ntsx"}}
	der, err := x509.CreateCertificate(origRand, tmpl, tmpl, &key.PublicKey, key)
	if err != nil {
		panic(err)
	}
	cert := tls.Certificate{Certificate: [][]byte{der}, PrivateKey: key}
	a, b := net.Pipe()
	srv := tls.Server(a, &tls.Config{Certificates: []tls.Certificate{cert}, MinVersion: tls.VersionTLS13, Rand: origRand})
	cli := tls.Client(b, &tls.Config{InsecureSkipVerify: true, MinVersion: tls.VersionTLS13, Rand: origRand})
	errc := make(chan error, 1)
	go func() { errc <- srv.Handshake() }()
	if err := cli.Handshake(); err != nil {
		panic(err)
	}
	if err := <-errc; err != nil {
		panic(err)
	}
	st := cli.ConnectionState()
	tlsConnState = &st
	return st
}

var origRand = rand.Reader

// srvReply is the NTS branch of runIPServer / runSCIONServer (core/server/server_ip.go,
// server_scion.go), transcribed call by call over the real nts/ntske functions: the listeners
// themselves cannot be called without sockets. keys= is provider.Get, cur= provider.Current().
func srvReply(t []string, b, hdr []byte) string {
	keys := map[int][]byte{}
	ks, _ := kv(t, "keys")
	if len(ks) < 2 {
		panic("bad-op")
	}
	if ks != "[]" {
		for _, e := range strings.Split(ks[1:len(ks)-1], ",") {
			i := strings.IndexByte(e, ':')
			keys[atoi(e[:i])] = hexb(e[i+1:])
		}
	}
	cs, _ := kv(t, "cur")
	i := strings.IndexByte(cs, ':')
	if i < 0 {
		panic("bad-op")
	}
	curID, curKey := atoi(cs[:i]), hexb(cs[i+1:])

	buf := make([]byte, 2048)
	copy(buf, b)
	buf = buf[:len(b)]

	var ntsreq nts.Packet
	var serverCookie ntske.ServerCookie
	err := nts.DecodePacket(&ntsreq, buf)
	if err != nil {
		return "err " + ErrName(err)
	}
	cookie, err := ntsreq.FirstCookie()
	if err != nil {
		return "err " + ErrName(err)
	}
	var encryptedCookie ntske.EncryptedServerCookie
	err = encryptedCookie.Decode(cookie)
	if err != nil {
		return "err " + ErrName(err)
	}
	key, ok := keys[int(encryptedCookie.ID)]
	if !ok {
		return "err no-key"
	}
	oracleOpen(key, encryptedCookie.Nonce, encryptedCookie.Ciphertext, nil)
	serverCookie, err = encryptedCookie.Decrypt(key)
	if err != nil {
		return "err " + ErrName(err)
	}
	oracleOpen(serverCookie.C2S, ntsreq.Auth.Nonce, ntsreq.Auth.CipherText, buf[:ntsreq.Auth.VerifC10Pos()])
	err = nts.ProcessRequest(buf, serverCookie.C2S, &ntsreq)
	if err != nil {
		return "err " + ErrName(err)
	}

	// ntp.EncodePacket(&buf, &ntpresp): the response header replaces the first 48 bytes
	buf = buf[:48]
	copy(buf, hdr)

	var cookies [][]byte
	addedCookie := false
	for range len(ntsreq.Cookies) + len(ntsreq.CookiePlaceholders) {
		oracleSeal(curKey, rnd.peek(16), serverCookie.Encode(), nil)
		encryptedCookie, err := serverCookie.EncryptWithNonce(curKey, curID)
		if err != nil {
			continue
		}
		cookie := encryptedCookie.Encode()
		cookies = append(cookies, cookie)
		addedCookie = true
	}
	if !addedCookie {
		return "err no-cookies"
	}
	ntsresp := nts.NewResponsePacket(cookies, serverCookie.S2C, ntsreq.UniqueID.ID)
	nonce := rnd.peek(16)
	nts.EncodePacket(&buf, &ntsresp)
	adlen := fieldsLen(ntsreq.UniqueID.ID)
	if adlen > len(buf) {
		adlen = len(buf)
	}
	oracleSeal(serverCookie.S2C, nonce, ntsresp.Auth.PlainText, buf[:adlen])
	return "ok " + lib.Hex(buf)
}

// ---------------------------------------------------------------- the real IP listener on loopback

var lsn struct {
	started  bool
	addr     *net.UDPAddr
	provider *ntske.Provider
}

// wallClock is the system clock the listener reads (time.Now; never adjusted).
type wallClock struct{}

func (wallClock) Epoch() uint64                                { return 0 }
func (wallClock) Now() time.Time                               { return time.Now() }
func (wallClock) Drift(time.Duration) time.Duration            { return 0 }
func (wallClock) Step(time.Duration)                           {}
func (wallClock) Adjust(time.Duration, time.Duration, float64) {}
func (wallClock) Sleep(d time.Duration)                        { time.Sleep(d) }

func lsnStart() {
	lsn.started = true
	timebase.RegisterClock(wallClock{})
	rand.Reader = &script{} // the provider's key becomes 32 zero bytes, id 1
	lsn.provider = ntske.NewProvider()
	l, err := net.ListenUDP("udp", &net.UDPAddr{IP: net.IPv4(127, 0, 0, 1)})
	if err != nil {
		panic(err)
	}
	port := l.LocalAddr().(*net.UDPAddr).Port
	l.Close()
	lsn.addr = &net.UDPAddr{IP: net.IPv4(127, 0, 0, 1), Port: port}
	log := slog.New(slog.NewTextHandler(io.Discard, nil))
	server.StartIPServer(context.Background(), log, lsn.addr, 0, lsn.provider)
	time.Sleep(100 * time.Millisecond)
}

// exchange sends one datagram to the listener from a fresh socket and waits for a reply.
func exchange(b []byte, wait time.Duration) ([]byte, bool) {
	conn, err := net.DialUDP("udp", nil, lsn.addr)
	if err != nil {
		panic(err)
	}
	defer conn.Close()
	if _, err := conn.Write(b); err != nil {
		panic(err)
	}
	conn.SetReadDeadline(time.Now().Add(wait))
	buf := make([]byte, 4096)
	n, err := conn.Read(buf)
	if err != nil {
		return nil, false
	}
	return buf[:n], true
}

// lsnSend delivers b to the real IP listener (runIPServer behind a loopback socket, real provider)
// and reports what comes back; afterwards a plain NTP request must still be answered. The branch
// transcription runs on the same datagram first: it supplies the AEAD answers for the model and
// must agree with the listener on reply / no reply and on the reply length.
func lsnSend(t []string, b []byte) string {
	if !lsn.started {
		lsnStart()
	}
	key := lsn.provider.Current()
	want := fmt.Sprintf("%d:%s", key.ID, lib.Hex(key.Value))
	if c, _ := kv(t, "cur"); c != want {
		return "bad-provider " + want
	}
	rnd = &script{}
	rand.Reader = rnd
	tr := lib.Try(func() string { return srvReply(t, b, make([]byte, 48)) })
	trAns := "none"
	if r, ok := OkHex(tr); ok {
		trAns = fmt.Sprintf("ok len=%d", len(r))
	} else if strings.HasPrefix(tr, "panic") {
		trAns = tr
	}
	sentinel := make([]byte, 48)
	sentinel[0] = 0x23
	ans := ""
	for attempt := 0; attempt < 2; attempt++ { // a disagreement is retried once (loaded machine)
		rnd = &script{}
		rand.Reader = rnd
		wait := 300 * time.Millisecond
		if trAns != "none" {
			wait = 2 * time.Second
		}
		reply, ok := exchange(b, wait)
		alive := false
		for i := 0; i < 3 && !alive; i++ {
			_, alive = exchange(sentinel, time.Second)
		}
		if !alive {
			return "dead"
		}
		ans = "none"
		if ok {
			ans = fmt.Sprintf("ok len=%d", len(reply))
		}
		if ans == trAns {
			return ans
		}
	}
	return "disagree listener=" + strings.ReplaceAll(ans, " ", "_") + " transcription=" + strings.ReplaceAll(trAns, " ", "_")
}

// lsnProbe starts the listener and checks that loopback exchanges work in this environment.
func lsnProbe() (res string) {
	defer func() {
		if r := recover(); r != nil {
			res = "unavailable"
		}
	}()
	if !lsn.started {
		lsnStart()
	}
	sentinel := make([]byte, 48)
	sentinel[0] = 0x23
	for i := 0; i < 3; i++ {
		if _, ok := exchange(sentinel, time.Second); ok {
			return "ok"
		}
	}
	return "unavailable"
}

// ---------------------------------------------------------------- guarded execution

func runOne(line string) (ans string) {
	entries = entries[:0]
	defer func() {
		if r := recover(); r != nil {
			if s, ok := r.(string); ok && s == "bad-op" {
				ans = "bad-op"
				return
			}
			ans = "panic " + lib.PanicClass(r)
		}
	}()
	return Run(strings.Fields(line))
}

const memLimit = 1 << 30

func worker() {
	go func() {
		var ms runtime.MemStats
		for {
			time.Sleep(10 * time.Millisecond)
			runtime.ReadMemStats(&ms)
			if ms.HeapAlloc > memLimit {
				os.Exit(3)
			}
		}
	}()
	in := bufio.NewReaderSize(os.Stdin, 1<<20)
	out := bufio.NewWriter(os.Stdout)
	for {
		line, err := in.ReadString('\n')
		if line != "" {
			ans := runOne(strings.TrimRight(line, "\n"))
			out.WriteString(ans)
			for _, e := range entries {
				out.WriteByte('\t')
				out.WriteString(e)
			}
			out.WriteByte('\n')
			out.Flush()
		}
		if err != nil {
			return
		}
	}
}

type child struct {
	cmd   *exec.Cmd
	in    io.WriteCloser
	lines chan string
}

var cur *child

func spawn() *child {
	cmd := exec.Command(os.Args[0], "-worker")
	cmd.Stderr = os.Stderr
	in, _ := cmd.StdinPipe()
	outp, _ := cmd.StdoutPipe()
	if err := cmd.Start(); err != nil {
		panic(err)
	}
	ch := &child{cmd: cmd, in: in, lines: make(chan string, 1)}
	go func() {
		r := bufio.NewReaderSize(outp, 1<<20)
		for {
			l, err := r.ReadString('\n')
			if err != nil {
				close(ch.lines)
				return
			}
			ch.lines <- strings.TrimRight(l, "\n")
		}
	}()
	return ch
}

// Timeout is the time an op may take before it is reported as `hang`.
var Timeout = 3 * time.Second

// after a few kills the remaining ops get a short deadline so that a broken tree is reported quickly
func timeout() time.Duration {
	if listenerOp {
		return 20 * time.Second
	}
	if Hangs >= 5 {
		return 300 * time.Millisecond
	}
	return Timeout
}

var listenerOp bool

// Hangs counts ops that had to be killed.
var Hangs int

// Guarded runs one op line in the worker process and returns the answer and the AEAD tokens.
func Guarded(line string) (string, []string) {
	if cur == nil {
		cur = spawn()
	}
	listenerOp = strings.HasPrefix(line, "lsn.")
	io.WriteString(cur.in, line+"\n")
	select {
	case l, ok := <-cur.lines:
		if !ok {
			cur.cmd.Wait()
			cur = nil
			Hangs++
			return "hang", nil
		}
		parts := strings.Split(l, "\t")
		return parts[0], parts[1:]
	case <-time.After(timeout()):
		cur.cmd.Process.Kill()
		cur.cmd.Wait()
		cur = nil
		Hangs++
		return "hang", nil
	}
}

func guardedExec(t []string) string {
	ans, _ := Guarded(strings.Join(t, " "))
	return ans
}

// Do runs op (without AEAD tokens) against the real code in the guarded worker and records the op
// line completed with the AEAD answers for the model, and the implementation's answer.
func Do(c *lib.Ctx, op string) string {
	ans, ent := Guarded(op)
	if len(ent) > 0 {
		op = op + " " + strings.Join(ent, " ")
	}
	c.Emit(op, ans)
	return ans
}

// Main is the entry point of the NTS harness commands.
func Main(gen func(c *lib.Ctx)) {
	if len(os.Args) > 1 && os.Args[1] == "-worker" {
		worker()
		return
	}
	lib.Main(guardedExec, func(c *lib.Ctx) {
		gen(c)
		if cur != nil {
			cur.in.Close()
			cur.cmd.Wait()
		}
	})
}
