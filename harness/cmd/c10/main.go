// c10: NTS authentication (net/nts, net/ntske/cookies.go). Byte-exact comparison of every
// encoding with scripted crypto/rand, verdict comparison (real code vs Lean model) on single-bit
// and single-field mutations of encoded requests, responses and cookies, wrong key, swapped
// direction, foreign unique identifier; direct oracle: accepted ⇒ authenticated content unchanged.
package main

import (
	"bytes"
	"fmt"
	"strings"

	"verifharness/cmd/c10/ntsx"
	"verifharness/lib"
)

type auth struct {
	pos       int
	nonce, ct []byte
}

func authOf(dec string) (a auth, ok bool) {
	if !ntsx.IsOK(dec) {
		return a, false
	}
	fmt.Sscan(ntsx.Field(dec, "pos"), &a.pos)
	a.nonce = ntsx.ParseHex(ntsx.Field(dec, "nonce"))
	a.ct = ntsx.ParseHex(ntsx.Field(dec, "ct"))
	return a, true
}

// verdict runs the acceptance op on a mutant and evaluates the soundness oracle:
// accepted ⇒ same authenticator position, nonce and ciphertext, and identical bytes before it.
func verdict(c *lib.Ctx, kind string, orig []byte, oa auth, mut []byte, mkind string, accept func(b []byte) string) {
	decOp := "nts.dec " + lib.Hex(mut)
	dec := ntsx.Do(c, decOp)
	ntsx.NoCrash(c, decOp, dec, "DecodePacket on mutated "+kind+" ("+mkind+")")
	accOp := accept(mut)
	ans := ntsx.Do(c, accOp)
	ntsx.NoCrash(c, accOp, ans, "processing mutated "+kind+" ("+mkind+")")
	if !ntsx.IsOK(ans) {
		c.Count(kind + ":mutant-rejected")
		return
	}
	ma, ok := authOf(dec)
	same := ok && ma.pos == oa.pos && bytes.Equal(ma.nonce, oa.nonce) && bytes.Equal(ma.ct, oa.ct) &&
		len(mut) >= oa.pos && bytes.Equal(mut[:oa.pos], orig[:oa.pos])
	if same {
		c.Count(kind + ":mutant-accepted-authenticated-part-unchanged")
		return
	}
	c.Fail("sound:"+kind+":"+mkindClass(mkind), "a "+kind+" whose authenticated bytes, nonce or ciphertext were changed is accepted ("+mkind+")",
		[]string{decOp, accOp}, map[string]any{"mutation": mkind})
}

func mkindClass(k string) string {
	for i, ch := range k {
		if ch >= '0' && ch <= '9' || ch == '=' || ch == '+' || ch == '-' {
			return k[:i]
		}
	}
	return k
}

func mutate(c *lib.Ctx, r *lib.Rand, kind string, orig []byte, accept func(b []byte) string) {
	dec := ntsx.Do(c, "nts.dec "+lib.Hex(orig))
	oa, ok := authOf(dec)
	if !ok {
		c.Fail("complete:"+kind+":decode", "own "+kind+" does not decode: "+dec, []string{"nts.dec " + lib.Hex(orig)}, nil)
		return
	}
	nbits := len(orig) * 8
	flips := map[int]bool{}
	if c.Thorough() && r.Chance(25) {
		for i := 0; i < nbits; i++ {
			flips[i] = true
		}
	} else {
		// every bit of every type/length field and of the authenticator; a sample elsewhere
		for _, f := range ntsx.Walk(orig) {
			for i := f.Off * 8; i < (f.Off+4)*8; i++ {
				flips[i] = true
			}
			if f.Type == 0x404 {
				for i := f.Off * 8; i < (f.Off+f.Len)*8 && i < nbits; i++ {
					if i < (f.Off+8)*8 || r.Chance(c.Scale(15, 50)) {
						flips[i] = true
					}
				}
			}
		}
		for i := 0; i < c.Scale(120, 600); i++ {
			flips[r.Intn(nbits)] = true
		}
		for i := 0; i < 8; i++ { // first byte (LI/VN/mode) is authenticated too
			flips[i] = true
		}
	}
	for i := 0; i < nbits; i++ {
		if flips[i] {
			c.Count(kind + ":bitflip")
			verdict(c, kind, orig, oa, ntsx.BitFlip(orig, i), fmt.Sprintf("bit%d", i), accept)
		}
	}
	for _, m := range ntsx.FieldMutants(orig, r) {
		c.Count(kind + ":fieldmutant")
		verdict(c, kind, orig, oa, m.B, m.Kind, accept)
	}
}

func expect(c *lib.Ctx, sig, what, op, ans string, ok bool) {
	if !ok {
		c.Fail(sig, what+": "+ans, []string{op}, map[string]any{"answer": ans})
	}
}

func gen(c *lib.Ctx) {
	r := c.Rand
	sessions := c.Scale(5, 40)
	for si := 0; si < sessions; si++ {
		c.Comment(fmt.Sprintf("session %d", si))
		s := ntsx.NewSession(r)
		other := ntsx.NewSession(r)
		keys := map[int][]byte{}
		curID := 1 + r.Intn(3)
		for id := 1; id <= curID; id++ {
			keys[id] = r.Bytes(32)
		}
		sealID := 1 + r.Intn(curID)

		// ---- cookies
		level := 1 + r.Intn(8)
		if si < 8 {
			level = 8 - si
		}
		var pool [][]byte
		for i := 0; i < level; i++ {
			ck := ntsx.IssueCookie(c, r, s, keys[sealID], sealID)
			pool = append(pool, ck)
		}
		ck := pool[0]
		want := fmt.Sprintf("ok %d %s %s", s.Algo, lib.Hex(s.S2C), lib.Hex(s.C2S))
		op := fmt.Sprintf("ck.decrypt %s %s", lib.Hex(ck), lib.Hex(keys[sealID]))
		ans := ntsx.Do(c, op)
		expect(c, "complete:cookie", "a cookie does not open under the key that sealed it to the sealed algorithm and keys", op, ans, ans == want)
		c.Count("cookie:roundtrip")
		op = fmt.Sprintf("ck.decrypt %s %s", lib.Hex(ck), lib.Hex(r.Bytes(32)))
		ans = ntsx.Do(c, op)
		expect(c, "sound:cookie:wrong-key", "a cookie opens under a different server key", op, ans, !ntsx.IsOK(ans))
		for _, kl := range []int{0, 16, 31, 33, 48, 64} {
			op = fmt.Sprintf("ck.decrypt %s %s", lib.Hex(ck), lib.Hex(r.Bytes(kl)))
			ans = ntsx.Do(c, op)
			ntsx.NoCrash(c, op, ans, "Decrypt with a key of unusual size")
			expect(c, "sound:cookie:wrong-key", "a cookie opens under a different server key", op, ans, !ntsx.IsOK(ans))
		}
		if si < c.Scale(2, 10) {
			for i := 0; i < len(ck)*8; i++ {
				m := ntsx.BitFlip(ck, i)
				op = fmt.Sprintf("ck.decrypt %s %s", lib.Hex(m), lib.Hex(keys[sealID]))
				ans = ntsx.Do(c, op)
				ntsx.NoCrash(c, op, ans, "Decode/Decrypt of a mutated cookie")
				c.Count("cookie:bitflip")
				// bits of the key id field are not covered by the AEAD (the listener uses the id only to
				// select the key); every other bit must be rejected
				if i/8 != 4 && i/8 != 5 {
					expect(c, "sound:cookie:bit", fmt.Sprintf("a cookie with bit %d flipped still opens", i), op, ans, !ntsx.IsOK(ans))
				}
			}
		}
		for _, m := range ntsx.TLVMutants(ck, r) {
			op = fmt.Sprintf("ck.decrypt %s %s", lib.Hex(m.B), lib.Hex(keys[sealID]))
			ans = ntsx.Do(c, op)
			ntsx.NoCrash(c, op, ans, "Decode/Decrypt of a mutated cookie ("+m.Kind+")")
			c.Count("cookie:fieldmutant")
			if ntsx.IsOK(ans) && ans != want {
				c.Fail("sound:cookie:field", "a mutated cookie opens to different contents ("+m.Kind+")", []string{op}, nil)
			}
		}

		// well-formed cookies whose nonce TLV has another length than the AEAD expects (F16)
		dop := "ec.dec " + lib.Hex(ck)
		if f := strings.Fields(ntsx.Do(c, dop)); len(f) == 4 && f[0] == "ok" {
			for _, nl := range []int{0, 1, 8, 15, 17, 24, 32} {
				eop := fmt.Sprintf("ec.enc %s %s %s", f[1], lib.Hex(r.Bytes(nl)), f[3])
				if m, ok := ntsx.OkHex(ntsx.Do(c, eop)); ok {
					op = fmt.Sprintf("ck.decrypt %s %s", lib.Hex(m), lib.Hex(keys[sealID]))
					ans = ntsx.Do(c, op)
					ntsx.NoCrash(c, op, ans, fmt.Sprintf("Decrypt of a well-formed cookie with a %d-byte nonce", nl))
					expect(c, "sound:cookie:field", "a cookie with a replaced nonce opens", op, ans, !ntsx.IsOK(ans))
					c.Count("cookie:nonce-length")
				}
			}
		}

		// ---- request
		req, uid, encAns := ntsx.Request(c, r, pool, s.C2S)
		if req == nil {
			c.Count("request:encode-failed")
			c.Fail("complete:request:encode", fmt.Sprintf("the request for pool level %d cannot be encoded: %s", level, encAns), nil, map[string]any{"level": level})
			continue
		}
		c.Count(fmt.Sprintf("request:level%d", level))
		acceptReq := func(key []byte) func(b []byte) string {
			return func(b []byte) string { return fmt.Sprintf("nts.req %s %s", lib.Hex(b), lib.Hex(key)) }
		}
		op = acceptReq(s.C2S)(req)
		ans = ntsx.Do(c, op)
		expect(c, "complete:request", "an untampered request is not accepted under its C2S key", op, ans, ntsx.IsOK(ans))
		for _, k := range [][]byte{s.S2C, other.C2S, r.Bytes(32), r.Bytes(64), r.Bytes(16), {}} {
			op = acceptReq(k)(req)
			ans = ntsx.Do(c, op)
			ntsx.NoCrash(c, op, ans, "ProcessRequest with another key")
			expect(c, "sound:request:wrong-key", "a request is accepted under a key other than its C2S key", op, ans, !ntsx.IsOK(ans))
			c.Count("request:wrong-key")
		}
		mutate(c, r, "request", req, acceptReq(s.C2S))

		// ---- response (through the server branch)
		nf := len(ntsx.Walk(req)) + 2
		rans := ntsx.Reply(c, r, req, keys, curID, nf)
		resp, ok := ntsx.OkHex(rans)
		if !ok {
			c.Fail("complete:reply", "the server branch does not answer an untampered request: "+rans, nil, map[string]any{"level": level})
			continue
		}
		acceptResp := func(key, id []byte) func(b []byte) string {
			return func(b []byte) string {
				return fmt.Sprintf("nts.resp %s %s %s", lib.Hex(b), lib.Hex(key), lib.Hex(id))
			}
		}
		op = acceptResp(s.S2C, uid)(resp)
		ans = ntsx.Do(c, op)
		expect(c, "complete:response", "an untampered response is not accepted under the S2C key and request id", op, ans, ntsx.IsOK(ans))
		op = acceptResp(s.S2C, r.Bytes(32))(resp)
		ans = ntsx.Do(c, op)
		expect(c, "sound:response:foreign-uid", "a response to a different request is accepted", op, ans, ans == "err resp-id")
		fuid := append([]byte(nil), uid...)
		fuid[31] ^= 1
		op = acceptResp(s.S2C, fuid)(resp)
		ans = ntsx.Do(c, op)
		expect(c, "sound:response:foreign-uid", "a response to a different request is accepted", op, ans, ans == "err resp-id")
		op = acceptResp(s.S2C, uid[:31])(resp)
		ans = ntsx.Do(c, op)
		expect(c, "sound:response:foreign-uid", "a response to a different request is accepted", op, ans, ans == "err resp-id")
		c.Count("response:foreign-uid")
		for _, k := range [][]byte{s.C2S, other.S2C, r.Bytes(32)} {
			op = acceptResp(k, uid)(resp)
			ans = ntsx.Do(c, op)
			expect(c, "sound:response:wrong-key", "a response is accepted under a key other than its S2C key", op, ans, !ntsx.IsOK(ans))
			c.Count("response:wrong-key")
		}
		// swapped direction: the request reflected as a response, the response replayed as a request
		op = acceptResp(s.S2C, uid)(req)
		ans = ntsx.Do(c, op)
		expect(c, "sound:direction", "a request reflected to the client is accepted as a response", op, ans, !ntsx.IsOK(ans))
		op = acceptReq(s.C2S)(resp)
		ans = ntsx.Do(c, op)
		expect(c, "sound:direction", "a response replayed to the server is accepted as a request", op, ans, !ntsx.IsOK(ans))
		c.Count("direction:swapped")
		mutate(c, r, "response", resp, acceptResp(s.S2C, uid))
	}
}

// ---------------------------------------------------------------- earlier results stay what they were

// colon turns a one-shot answer ("ok 15 aa bb", "ok [..]", "err auth") into the form a seq.run
// answer uses for one call.
func colon(ans string) string { return strings.Join(strings.Fields(ans), ":") }

type keptCall struct {
	step    string // token of the seq.run op
	oneShot string // the same call as an op of its own ("" for x)
	kind    string
}

// genKept: several interleaved associations; every call is made once on its own (answer rendered
// at once) and then inside sequences whose results are rendered only after the last call. Oracle:
// every result of a sequence is the one-shot result of that call — values returned by Decrypt /
// Decode / ProcessRequest / ProcessResponse / ExportKeys do not change under later calls. Nothing
// here depends on scheduling: a sequence runs on one goroutine.
func genKept(c *lib.Ctx) {
	r := c.Rand.Fork("kept")
	rounds := c.Scale(6, 40)
	for ri := 0; ri < rounds; ri++ {
		c.Comment(fmt.Sprintf("kept %d", ri))
		keys := map[int][]byte{1: r.Bytes(32), 2: r.Bytes(32)}
		var calls []keptCall
		na := 2 + r.Intn(4)
		for a := 0; a < na; a++ {
			s := ntsx.NewSession(r)
			id := 1 + r.Intn(2)
			var pool [][]byte
			for i := 0; i < 1+r.Intn(3); i++ {
				pool = append(pool, ntsx.IssueCookie(c, r, s, keys[id], id))
			}
			if pool[0] == nil {
				continue
			}
			calls = append(calls, keptCall{fmt.Sprintf("d:%s:%s", lib.Hex(pool[0]), lib.Hex(keys[id])),
				fmt.Sprintf("ck.decrypt %s %s", lib.Hex(pool[0]), lib.Hex(keys[id])), "decrypt"})
			if r.Chance(40) {
				wrong := keys[3-id]
				calls = append(calls, keptCall{fmt.Sprintf("d:%s:%s", lib.Hex(pool[0]), lib.Hex(wrong)),
					fmt.Sprintf("ck.decrypt %s %s", lib.Hex(pool[0]), lib.Hex(wrong)), "decrypt-wrong-key"})
			}
			if a == 0 || r.Chance(40) {
				if plain, ok := ntsx.OkHex(ntsx.Do(c, fmt.Sprintf("sc.enc %d %s %s", s.Algo, lib.Hex(s.S2C), lib.Hex(s.C2S)))); ok {
					calls = append(calls, keptCall{"s:" + lib.Hex(plain), "sc.dec " + lib.Hex(plain), "decode"})
				}
			}
			if a < 2 || r.Chance(50) {
				req, uid, _ := ntsx.Request(c, r, pool, s.C2S)
				if req == nil {
					continue
				}
				calls = append(calls, keptCall{fmt.Sprintf("q:%s:%s", lib.Hex(req), lib.Hex(s.C2S)),
					fmt.Sprintf("nts.req %s %s", lib.Hex(req), lib.Hex(s.C2S)), "request"})
				if resp, ok := ntsx.OkHex(ntsx.Reply(c, r, req, keys, id, len(ntsx.Walk(req))+2)); ok {
					calls = append(calls, keptCall{fmt.Sprintf("p:%s:%s:%s", lib.Hex(resp), lib.Hex(s.S2C), lib.Hex(uid)),
						fmt.Sprintf("nts.resp %s %s %s", lib.Hex(resp), lib.Hex(s.S2C), lib.Hex(uid)), "response"})
				}
			}
		}
		calls = append(calls, keptCall{"x", "", "export"})
		want := make([]string, len(calls))
		for i, k := range calls {
			if k.oneShot == "" {
				want[i] = "x:32:32:ne"
				continue
			}
			want[i] = colon(ntsx.Do(c, k.oneShot))
		}
		run := func(idx []int, label string) {
			steps := make([]string, len(idx))
			for i, j := range idx {
				steps[i] = calls[j].step
			}
			op := "seq.run " + strings.Join(steps, " ")
			ans := ntsx.Do(c, op)
			ntsx.NoCrash(c, op, ans, "a sequence of calls ("+label+")")
			c.Count("kept:seq:" + label)
			body, unstable := ans, ""
			if i := strings.Index(ans, " unstable="); i >= 0 {
				body, unstable = ans[:i], ans[i+10:]
			}
			parts := strings.Split(strings.TrimPrefix(body, "ok "), " | ")
			if !strings.HasPrefix(ans, "ok ") || len(parts) != len(idx) {
				c.Fail("kept:seq-failed", "a sequence of calls did not answer: "+ans, []string{op}, nil)
				return
			}
			for i, j := range idx {
				c.Count("kept:call:" + calls[j].kind)
				if parts[i] != want[j] {
					ops := []string{op}
					if calls[j].oneShot != "" {
						ops = append(ops, calls[j].oneShot)
					}
					c.Fail("kept:"+calls[j].kind+":changed", fmt.Sprintf("the result of call %d (%s) read after %d further calls is not what the call returns on its own",
						i, calls[j].kind, len(idx)-1-i), ops, map[string]any{"position": i, "got": parts[i], "want": want[j], "sequence": label})
					return
				}
			}
			if unstable != "" {
				c.Fail("kept:unstable", "values returned by earlier calls changed under later calls (positions "+unstable+")", []string{op}, map[string]any{"sequence": label})
			}
		}
		n := len(calls)
		// every ordered pair of decrypts of different associations, then the first one again: A B A
		var dec []int
		for i, k := range calls {
			if k.kind == "decrypt" {
				dec = append(dec, i)
			}
		}
		for x := 0; x < len(dec) && x < 3; x++ {
			for y := 0; y < len(dec) && y < 3; y++ {
				if x != y {
					run([]int{dec[x], dec[y], dec[x]}, "decrypt-A-B-A")
				}
			}
		}
		all := make([]int, n)
		for i := range all {
			all[i] = i
		}
		run(all, "all-in-order")
		rev := make([]int, n)
		for i := range rev {
			rev[i] = n - 1 - i
		}
		run(rev, "all-reversed")
		for i := 0; i < c.Scale(6, 30); i++ {
			l := 2 + r.Intn(9)
			idx := make([]int, l)
			for j := range idx {
				idx[j] = r.Intn(n)
			}
			run(idx, "random")
		}
	}
}

// ---------------------------------------------------------------- nothing behind the authenticator takes effect

// authUID reads the first unique-identifier field in front of the authenticator with the
// generator's own field walk (the identifier the AEAD covers).
func authUID(b []byte) []byte {
	for _, f := range ntsx.Walk(b) {
		if f.Type == 0x404 {
			return nil
		}
		if f.Type == 0x104 {
			return b[f.Off+4 : f.Off+f.Len]
		}
	}
	return nil
}

func authField(b []byte) []byte {
	for _, f := range ntsx.Walk(b) {
		if f.Type == 0x404 {
			return b[f.Off : f.Off+f.Len]
		}
	}
	return nil
}

// genTrail: one association, two outstanding requests A and B, the genuine responses RA and RB.
// An attacker without keys appends extension fields behind the authenticator of a genuine
// packet (the identifier of the other request, which travels in clear; cookies; placeholders; a
// second authenticator; unknown fields; padding) — bytes the AEAD does not cover. Oracles, all
// from what the generator built itself:
//   - RB+trailer presented for request A is rejected (the authenticated identifier is B's);
//   - RB+trailer presented for request B, if accepted, stores exactly the cookies of plain RB;
//   - request+trailer, if served, is served like the plain request: same cookies handed to the
//     listener, and the reply carries the request's authenticated identifier and as many cookies.
func genTrail(c *lib.Ctx) {
	r := c.Rand.Fork("trail")
	rounds := c.Scale(6, 40)
	for ri := 0; ri < rounds; ri++ {
		c.Comment(fmt.Sprintf("trail %d", ri))
		s := ntsx.NewSession(r)
		keys := map[int][]byte{1: r.Bytes(32)}
		var pool [][]byte
		for i := 0; i < 1+r.Intn(4); i++ {
			pool = append(pool, ntsx.IssueCookie(c, r, s, keys[1], 1))
		}
		if pool[0] == nil {
			continue
		}
		reqA, uidA, _ := ntsx.Request(c, r, pool, s.C2S)
		reqB, uidB, _ := ntsx.Request(c, r, pool[:1+r.Intn(len(pool))], s.C2S)
		if reqA == nil || reqB == nil || bytes.Equal(uidA, uidB) {
			continue
		}
		respA, okA := ntsx.OkHex(ntsx.Reply(c, r, reqA, keys, 1, len(ntsx.Walk(reqA))+2))
		respB, okB := ntsx.OkHex(ntsx.Reply(c, r, reqB, keys, 1, len(ntsx.Walk(reqB))+2))
		if !okA || !okB {
			continue
		}
		// what the generator knows: RB authenticates B's identifier (its own walk of its own packet)
		if !bytes.Equal(authUID(respB), uidB) || !bytes.Equal(authUID(respA), uidA) {
			c.Fail("complete:reply:uid", "the reply does not carry the request's identifier in front of its authenticator", nil, nil)
			continue
		}
		respOp := func(b, id []byte) string {
			return fmt.Sprintf("nts.resp %s %s %s", lib.Hex(b), lib.Hex(s.S2C), lib.Hex(id))
		}
		plainB := ntsx.Do(c, respOp(respB, uidB))
		if !ntsx.IsOK(plainB) {
			continue // completeness is the main stream's
		}
		uidF := func(id []byte) []byte { return ntsx.RawField(0x104, id) }
		junkCk := ntsx.RawField(0x204, r.Bytes(len(pool[0])))
		trailers := []struct {
			kind string
			b    []byte
		}{
			{"uid", uidF(uidA)},
			{"uid-uid", cat(uidF(uidA), uidF(uidA))},
			{"unknown-uid", cat(ntsx.RawField(0x4204, r.Bytes(28)), uidF(uidA))},
			{"uid-zeros", cat(uidF(uidA), make([]byte, 4+4*r.Intn(12)))},
			{"cookie-uid", cat(junkCk, uidF(uidA))},
			{"uid-cookie", cat(uidF(uidA), junkCk)},
			{"placeholder-uid", cat(ntsx.RawField(0x304, make([]byte, len(pool[0]))), uidF(uidA))},
			{"auth-uid", cat(authField(respA), uidF(uidA))},
			{"uid-auth", cat(uidF(uidA), authField(respA))},
			{"whole-response", respA[48:]},
			{"cookie", junkCk},
			{"cookies", cat(junkCk, ntsx.RawField(0x204, pool[0]), junkCk)},
			{"own-uid", uidF(uidB)},
			{"random", r.Bytes(28 + 4*r.Intn(20))},
		}
		for _, t := range trailers {
			m := cat(respB, t.b)
			c.Count("trail:response:" + t.kind)
			decOp := "nts.dec " + lib.Hex(m)
			ntsx.NoCrash(c, decOp, ntsx.Do(c, decOp), "DecodePacket on a response with fields behind the authenticator ("+t.kind+")")
			// for the other request
			op := respOp(m, uidA)
			ans := ntsx.Do(c, op)
			ntsx.NoCrash(c, op, ans, "a response with fields behind the authenticator ("+t.kind+")")
			if ntsx.IsOK(ans) {
				c.Fail("sound:response:trailing-uid", "a genuine response to request B followed by unauthenticated fields ("+t.kind+
					") is accepted as the response to request A: the identifier compared is not the authenticated one",
					[]string{respOp(respB, uidA), op}, map[string]any{"trailer": t.kind, "uidA": lib.Hex(uidA), "uidB": lib.Hex(uidB), "trailer_bytes": lib.Hex(t.b)})
			} else {
				c.Count("trail:response:for-A-rejected")
			}
			// for its own request: nothing behind the authenticator reaches the cookie pool
			op = respOp(m, uidB)
			ans = ntsx.Do(c, op)
			ntsx.NoCrash(c, op, ans, "a response with fields behind the authenticator ("+t.kind+")")
			if ntsx.IsOK(ans) && ans != plainB {
				c.Fail("sound:response:trailing-cookie", "a genuine response followed by unauthenticated fields ("+t.kind+
					") is accepted and stores cookies other than the authenticated ones",
					[]string{respOp(respB, uidB), op}, map[string]any{"trailer": t.kind, "plain": plainB, "got": ans})
			} else if ntsx.IsOK(ans) {
				c.Count("trail:response:for-B-accepted-same-cookies")
			} else {
				c.Count("trail:response:for-B-rejected")
			}
		}

		// ---- server side: the request with fields behind its authenticator
		reqOp := func(b []byte) string { return fmt.Sprintf("nts.req %s %s", lib.Hex(b), lib.Hex(s.C2S)) }
		plainReq := ntsx.Do(c, reqOp(reqB))
		ncookies := func(resp []byte) (int, bool) {
			a := ntsx.Do(c, respOp(resp, uidB))
			if !ntsx.IsOK(a) {
				return 0, false
			}
			return len(ntsx.ParseHexList(strings.TrimSpace(strings.TrimPrefix(a, "ok")))), true
		}
		nPlain, okPlain := ncookies(respB)
		ph := ntsx.RawField(0x304, make([]byte, len(pool[0])))
		rtrailers := []struct {
			kind string
			b    []byte
		}{
			{"uid", uidF(uidA)},
			{"placeholders", cat(ph, ph, ph)},
			{"cookie", ntsx.RawField(0x204, pool[0])},
			{"uid-placeholder", cat(uidF(uidA), ph)},
			{"auth-uid", cat(authField(reqA), uidF(uidA))},
			{"whole-request", reqA[48:]},
		}
		for _, t := range rtrailers {
			m := cat(reqB, t.b)
			c.Count("trail:request:" + t.kind)
			op := reqOp(m)
			ans := ntsx.Do(c, op)
			ntsx.NoCrash(c, op, ans, "a request with fields behind the authenticator ("+t.kind+")")
			if ntsx.IsOK(ans) && ntsx.IsOK(plainReq) && ans != plainReq {
				c.Fail("sound:request:trailing-field", "a genuine request followed by unauthenticated fields ("+t.kind+
					") is accepted with cookies other than the authenticated ones", []string{reqOp(reqB), op},
					map[string]any{"trailer": t.kind, "plain": plainReq, "got": ans})
			}
			rans := ntsx.Reply(c, r, m, keys, 1, len(ntsx.Walk(m))+2)
			ntsx.NoCrash(c, "srv.reply", rans, "the server branch on a request with fields behind the authenticator ("+t.kind+")")
			rep, ok := ntsx.OkHex(rans)
			if !ok {
				c.Count("trail:request:not-served")
				continue
			}
			if !bytes.Equal(authUID(rep), uidB) {
				c.Fail("sound:reply:trailing-uid", "the reply to a genuine request followed by unauthenticated fields ("+t.kind+
					") echoes an identifier other than the authenticated one", []string{op},
					map[string]any{"trailer": t.kind, "uidB": lib.Hex(uidB), "echoed": lib.Hex(authUID(rep))})
				continue
			}
			if n, ok := ncookies(rep); okPlain && ok && n != nPlain {
				c.Fail("sound:reply:trailing-placeholder", fmt.Sprintf("the reply to a genuine request followed by unauthenticated fields (%s) carries %d cookies, the reply to the request itself %d",
					t.kind, n, nPlain), []string{op}, map[string]any{"trailer": t.kind})
				continue
			}
			c.Count("trail:request:served-as-plain")
		}
	}
}

func cat(bs ...[]byte) []byte {
	var out []byte
	for _, b := range bs {
		out = append(out, b...)
	}
	return out
}

func main() {
	ntsx.Main(func(c *lib.Ctx) {
		gen(c)
		genKept(c)
		genTrail(c)
	})
}
