// f64: ties the software-double model (lean/ScionTime/Model/F64.lean) to Go's float64 as
// compiled for this machine: the hardware operations the repository's float code uses
// (+ - * / sqrt ceil floor, int64<->float64 conversions, comparisons, Duration.Seconds,
// timemath.Duration, decimal constants) on boundary-dense and random bit patterns,
// compared bit for bit with the model.
package main

import (
	"fmt"
	"math"
	"math/big"
	"strconv"
	"time"

	"example.com/scion-time/base/timemath"

	"verifharness/lib"
)

func bits(f float64) string {
	if f != f {
		return "7ff8000000000001"
	}
	return fmt.Sprintf("%016x", math.Float64bits(f))
}

func pf(s string) float64 {
	u, err := strconv.ParseUint(s, 16, 64)
	if err != nil || len(s) != 16 {
		panic("bad-op")
	}
	return math.Float64frombits(u)
}

func pi(s string) int64 {
	v, err := strconv.ParseInt(s, 10, 64)
	if err != nil {
		panic("bad-op")
	}
	return v
}

//go:noinline
func fadd(a, b float64) float64 { return a + b }

//go:noinline
func fsub(a, b float64) float64 { return a - b }

//go:noinline
func fmul(a, b float64) float64 { return a * b }

//go:noinline
func fdiv(a, b float64) float64 { return a / b }

//go:noinline
func f2i(a float64) int64 { return int64(a) }

//go:noinline
func i2f(a int64) float64 { return float64(a) }

func exec(t []string) string {
	switch len(t) {
	case 3:
		if t[0] == "f64.const" {
			n, ok1 := new(big.Int).SetString(t[1], 10)
			d, ok2 := new(big.Int).SetString(t[2], 10)
			if !ok1 || !ok2 || d.Sign() <= 0 {
				return "bad-op"
			}
			f, _ := new(big.Rat).SetFrac(n, d).Float64()
			return "ok " + bits(f)
		}
		a, b := pf(t[1]), pf(t[2])
		switch t[0] {
		case "f64.add":
			return "ok " + bits(fadd(a, b))
		case "f64.sub":
			return "ok " + bits(fsub(a, b))
		case "f64.mul":
			return "ok " + bits(fmul(a, b))
		case "f64.div":
			return "ok " + bits(fdiv(a, b))
		case "f64.lt":
			return "ok " + lib.Bool(a < b)
		case "f64.le":
			return "ok " + lib.Bool(a <= b)
		case "f64.eq":
			return "ok " + lib.Bool(a == b)
		}
	case 2:
		switch t[0] {
		case "f64.ofint":
			return "ok " + bits(i2f(pi(t[1])))
		case "f64.durs":
			return "ok " + bits(time.Duration(pi(t[1])).Seconds())
		}
		a := pf(t[1])
		switch t[0] {
		case "f64.sqrt":
			return "ok " + bits(math.Sqrt(a))
		case "f64.ceil":
			return "ok " + bits(math.Ceil(a))
		case "f64.floor":
			return "ok " + bits(math.Floor(a))
		case "f64.neg":
			return "ok " + bits(-a)
		case "f64.abs":
			return "ok " + bits(math.Abs(a))
		case "f64.toint":
			return fmt.Sprintf("ok %d", f2i(a))
		case "f64.todur":
			return fmt.Sprintf("ok %d", int64(timemath.Duration(a)))
		case "f64.id":
			return "ok " + bits(a)
		}
	}
	return "bad-op"
}

var specials = []uint64{
	0, 1 << 63, 0x7ff0000000000000, 0xfff0000000000000, 0x7ff8000000000001,
	1, 2, 0x000fffffffffffff, 0x0010000000000000, 0x0010000000000001, 0x7fefffffffffffff, 0xffefffffffffffff,
	0x3ff0000000000000, 0x3ff0000000000001, 0x3fefffffffffffff, 0xbff0000000000000, 0x4000000000000000,
	0x3fe0000000000000, 0x3fd5555555555555, 0x4330000000000000, 0x4340000000000000, 0x4340000000000001,
	0x43e0000000000000, 0xc3e0000000000000, 0x43dfffffffffffff, 0xc3e0000000000001, 0x43f0000000000000,
	0x41cdcd6500000000, // 1e9
	0x3f40624dd2f1a9fc, // 1e-3*0.5
	0x3e112e0be826d695, // 1e-9
	0x8000000000000001, 0x3ca0000000000000, 0x3cb0000000000000,
}

func rf(r *lib.Rand) float64 {
	switch r.Intn(10) {
	case 0:
		return math.Float64frombits(specials[r.Intn(len(specials))])
	case 1:
		return math.Float64frombits(r.U64())
	case 2: // small integers
		return float64(r.Range(-1000, 1000))
	case 3: // seconds-like values with ns granularity
		return float64(r.Range(-5_000_000_000, 5_000_000_000)) / 1e9
	case 4: // exponent near 0, random mantissa
		return math.Float64frombits(uint64(r.Range(1000, 1046))<<52 | r.U64()&(1<<52-1) | uint64(r.Intn(2))<<63)
	case 5: // subnormal / tiny
		return math.Float64frombits(uint64(r.Range(0, 3))<<52 | r.U64()&(1<<52-1) | uint64(r.Intn(2))<<63)
	case 6: // huge
		return math.Float64frombits(uint64(r.Range(2040, 2046))<<52 | r.U64()&(1<<52-1) | uint64(r.Intn(2))<<63)
	case 7: // around int64 range
		return float64(r.I64()) * (1 + float64(r.Range(-2, 2))*0x1p-52)
	case 8: // few mantissa bits (exact products, ties)
		return math.Ldexp(float64(r.Range(-7, 7)), int(r.Range(-60, 60)))
	default:
		return (float64(r.Range(-1_000_000, 1_000_000)) / 1e6) * math.Pow(10, float64(r.Range(-12, 12)))
	}
}

func gen(c *lib.Ctx) {
	r := c.Rand
	c.Comment("special x special")
	for _, a := range specials {
		fa := math.Float64frombits(a)
		for _, op := range []string{"sqrt", "ceil", "floor", "neg", "abs", "toint", "todur", "id"} {
			c.Dof("f64.%s %s", op, bits(fa))
		}
		for _, b := range specials {
			for _, op := range []string{"add", "sub", "mul", "div", "lt", "le", "eq"} {
				c.Dof("f64.%s %s %s", op, bits(fa), bits(math.Float64frombits(b)))
			}
		}
	}
	c.Comment("constants of the Go sources")
	for _, k := range [][2]int64{{33, 100}, {3, 100}, {5, 10000}, {6, 100}, {1, 1000}, {999, 1000}, {500, 1000000}, {-500, 1000000},
		{1, 3}, {2, 3}, {1, 10}, {65536000000, 1}, {20, 1}, {3, 1}, {60, 1}, {1, 1000000000}} {
		c.Dof("f64.const %d %d", k[0], k[1])
	}
	for _, i := range []int64{0, 1, -1, 1<<53 - 1, 1 << 53, 1<<53 + 1, 1<<53 + 2, 1<<53 + 3, -(1<<53 + 1), 1<<54 + 2, 1<<54 + 6,
		math.MaxInt64, math.MinInt64, math.MaxInt64 - 1, math.MaxInt64 - 511, math.MaxInt64 - 512, math.MaxInt64 - 513, 1<<62 + 1<<8, 999999999, 1000000000, -999999999} {
		c.Dof("f64.ofint %d", i)
		c.Dof("f64.durs %d", i)
	}
	n := c.Scale(30000, 600000)
	c.Comment("random")
	for i := 0; i < n; i++ {
		a, b := rf(r), rf(r)
		if r.Chance(15) { // nearby values: cancellation, ties
			b = math.Float64frombits(math.Float64bits(a) + uint64(r.Range(-3, 3)))
			if r.Chance(50) {
				b = -b
			}
		}
		switch r.Intn(16) {
		case 0:
			c.Dof("f64.add %s %s", bits(a), bits(b))
		case 1:
			c.Dof("f64.sub %s %s", bits(a), bits(b))
		case 2, 3:
			c.Dof("f64.mul %s %s", bits(a), bits(b))
		case 4, 5:
			c.Dof("f64.div %s %s", bits(a), bits(b))
		case 6:
			c.Dof("f64.sqrt %s", bits(math.Abs(a)))
			if r.Chance(30) { // perfect squares and neighbours
				s := float64(r.Range(0, 1<<26))
				c.Dof("f64.sqrt %s", bits(s*s))
				c.Dof("f64.sqrt %s", bits(math.Nextafter(s*s, math.Inf(1))))
			}
		case 7:
			c.Dof("f64.ceil %s", bits(a))
			c.Dof("f64.floor %s", bits(a))
		case 8:
			c.Dof("f64.toint %s", bits(a))
		case 9:
			c.Dof("f64.todur %s", bits(a))
		case 10:
			c.Dof("f64.ofint %d", r.I64()>>uint(r.Intn(64)))
		case 11:
			c.Dof("f64.durs %d", r.I64()>>uint(r.Intn(64)))
		case 12:
			c.Dof("f64.lt %s %s", bits(a), bits(b))
			c.Dof("f64.le %s %s", bits(a), bits(b))
			c.Dof("f64.eq %s %s", bits(a), bits(b))
		case 13:
			d := r.Range(1, 1<<uint(r.Intn(62)+1))
			c.Dof("f64.const %d %d", r.I64()>>uint(r.Intn(64)), d)
		case 14:
			c.Dof("f64.neg %s", bits(a))
			c.Dof("f64.abs %s", bits(a))
		default:
			c.Dof("f64.id %s", bits(a))
		}
	}
}

func main() { lib.Main(exec, gen) }
