// Package authx generates the boundary stream of the NTS authenticator extension field
// (type 0x0404): the field's own length and the two 16-bit lengths inside it (nonce length,
// ciphertext length) at the integer edges of every comparison a decoder can make between them.
//
//	(a) 45 inner pairs (nonceLen, cipherTextLen) in a 40-byte field (32 value bytes behind the two
//	    length fields): sums that wrap 2^16 (to 0, to a small value, to the value length, with
//	    and without the 8 header bytes added), sums just below / at / above the value length,
//	    the field length, the bytes that follow in the datagram; each alone too large.
//	(b) field lengths 4..7 (shorter than the field's own two inner length fields, so that
//	    `Length-8` is negative) and their neighbours 8, 9, 11, 12, with 24 / 28 / 64 bytes
//	    following the 4-byte header, the first four of which are read as the inner lengths.
//
// Every datagram exists with and without a cookie field in front of the authenticator, and (a)
// with and without 28 bytes following the field. Nothing of net/nts is used; the datagrams are
// unauthenticated (no key is needed to reach the decoder).
//
// Used by c08nts (decoder-level correspondence nts.dec / nts.req / nts.resp / srv.reply, and the
// live IP listener: lsn.send) and by c08net (the listener group in a child process).
package authx

import (
	"encoding/binary"
	"fmt"
)

// Case is one crafted datagram.
type Case struct {
	What string
	B    []byte
	Live bool // member of the small subset the quick tier delivers to a live listener
}

// Field is an authenticator extension field as it appears on the wire: type 0x0404, the claimed
// field length, the two inner lengths, then body (whatever its real size).
func Field(length, nonceLen, ctLen int, body []byte) []byte {
	f := make([]byte, 8, 8+len(body))
	binary.BigEndian.PutUint16(f, 0x0404)
	binary.BigEndian.PutUint16(f[2:], uint16(length))
	binary.BigEndian.PutUint16(f[4:], uint16(nonceLen))
	binary.BigEndian.PutUint16(f[6:], uint16(ctLen))
	return append(f, body...)
}

// Pairs are the inner (nonceLen, cipherTextLen) pairs of part (a), for a field with 32 value bytes.
var Pairs = [][2]int{
	// sums that wrap 2^16
	{0xfff0, 0x0020}, {0xffff, 0x0001}, {0x8000, 0x8000}, {0xffff, 0xffff},
	{0xffe0, 0x0020}, {0xfff0, 0x0010}, {0x0001, 0xffff}, {0x7fff, 0x8001}, {0x0020, 0xfff0},
	// 8 + sum wraps (the two length fields and the header counted in)
	{0xfff8, 0x0010}, {0xfff8, 0x0008}, {0xfff0, 0x0008}, {0xfff7, 0x0001},
	// sum below 2^16 by less than the header
	{0xfffc, 0x0003}, {0xfff8, 0x0007}, {0x7fff, 0x8000},
	// below / at / above the 32 value bytes
	{16, 15}, {16, 16}, {16, 17}, {0, 31}, {0, 32}, {0, 33}, {31, 0}, {32, 0}, {33, 0}, {32, 1}, {0, 0},
	// around the field length (40) and the field length without its header (36)
	{16, 20}, {16, 21}, {36, 0}, {37, 0}, {40, 0}, {41, 0}, {16, 24}, {16, 25},
	// around the end of the datagram when 28 bytes follow the field (32 + 28 = 60)
	{16, 44}, {16, 45}, {60, 0}, {61, 0}, {0, 60}, {0, 61},
	// each too large on its own
	{4096, 16}, {16, 4096}, {2048, 2048}, {0x7000, 0x7000},
}

// live pairs of the quick tier
var livePairs = map[[2]int]bool{
	{0xfff0, 0x0020}: true, {0xffff, 0x0001}: true, {0x8000, 0x8000}: true, {0xffff, 0xffff}: true,
	{0xfff8, 0x0010}: true, {16, 15}: true, {16, 16}: true, {16, 17}: true,
}

// ShortLens are the field lengths of part (b), Follow the numbers of bytes after the 4-byte
// header, shortInner the inner pairs placed in the first four of them (-1: "exactly the rest").
var (
	ShortLens  = []int{4, 5, 6, 7, 8, 9, 11, 12}
	Follow     = []int{24, 28, 64}
	shortInner = [][2]int{{16, 16}, {0, 0}, {0xffff, 0xffff}, {0x0010, 0x2000}, {8, 12}, {-1, 0}, {-2, 0}, {0xfff0, 0x0020}}
)

func cat(parts ...[]byte) []byte {
	var b []byte
	for _, p := range parts {
		b = append(b, p...)
	}
	return b
}

// Cases returns the stream. hdr is a 48-byte NTP header, uidField a unique identifier field,
// cookieField a cookie field (used in every second datagram), rnd a source of filler bytes.
func Cases(hdr, uidField, cookieField []byte, rnd func(n int) []byte) []Case {
	var cs []Case
	for _, withCookie := range []bool{false, true} {
		pre := cat(hdr, uidField)
		ck := "no cookie field"
		if withCookie {
			pre = cat(pre, cookieField)
			ck = "cookie field"
		}
		for _, p := range Pairs {
			for _, trail := range []int{0, 28} {
				b := cat(pre, Field(40, p[0], p[1], rnd(32)), rnd(trail))
				cs = append(cs, Case{
					What: fmt.Sprintf("authenticator nonce=%#06x ciphertext=%#06x in a 40-byte field, %d bytes after it, %s", p[0], p[1], trail, ck),
					B:    b, Live: trail == 0 && livePairs[p],
				})
			}
		}
		for _, l := range ShortLens {
			for _, fo := range Follow {
				for _, in := range shortInner {
					n, c := in[0], in[1]
					switch n {
					case -1: // exactly the bytes behind the two inner length fields
						n = fo - 4
					case -2: // one more
						n = fo - 3
					}
					body := rnd(fo - 4)
					b := cat(pre, Field(l, n, c, body))
					cs = append(cs, Case{
						What: fmt.Sprintf("authenticator field of length %d with %d bytes after its header, nonce=%#06x ciphertext=%#06x, %s", l, fo, n, c, ck),
						B:    b, Live: l <= 7 && fo == 28 && (in == [2]int{16, 16} || in == [2]int{0xffff, 0xffff}),
					})
				}
			}
		}
	}
	return cs
}
