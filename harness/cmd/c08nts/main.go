// c08nts: totality of the NTS decoders and of the listeners' NTS branch (C08 fragment):
// structure-aware malformed input through DecodePacket, ProcessRequest / ProcessResponse
// (authenticate and its plaintext walk), both cookie decoders, Decrypt and the whole reply path.
// Direct oracle: every outcome is a value or an error — never `panic <class>` or `hang`; a reply,
// when produced, is at most MaxPacketLen bytes and authenticates for the requester.
package main

import (
	"fmt"
	"strings"

	"verifharness/cmd/c08nts/authx"
	"verifharness/cmd/c10/ntsx"
	"verifharness/lib"
)

type env struct {
	c    *lib.Ctx
	r    *lib.Rand
	s    ntsx.Session
	key  []byte
	keys map[int][]byte
	ck   []byte
}

// feed runs one datagram through every entry point that sees network bytes.
func (e *env) feed(b []byte, uid []byte, what string) {
	c := e.c
	ops := []string{
		"nts.dec " + lib.Hex(b),
		fmt.Sprintf("nts.req %s %s", lib.Hex(b), lib.Hex(e.s.C2S)),
		fmt.Sprintf("nts.resp %s %s %s", lib.Hex(b), lib.Hex(e.s.S2C), lib.Hex(uid)),
	}
	for _, op := range ops {
		ntsx.NoCrash(c, op, ntsx.Do(c, op), what)
	}
	nr := 3
	for _, f := range ntsx.Walk(b) {
		_ = f
		nr++
	}
	if nr > 40 {
		nr = 40
	}
	ans := ntsx.Reply(c, e.r, b, e.keys, 1, nr)
	op := "srv.reply " + lib.Hex(b)
	ntsx.NoCrash(c, op, ans, "listener NTS branch: "+what)
	if resp, ok := ntsx.OkHex(ans); ok {
		c.Count("reply:produced")
		dec := ntsx.Do(c, "nts.dec "+lib.Hex(b))
		ruid := ntsx.ParseHex(ntsx.Field(dec, "uid"))
		chk := ntsx.Do(c, fmt.Sprintf("nts.resp %s %s %s", lib.Hex(resp), lib.Hex(e.s.S2C), lib.Hex(ruid)))
		if len(resp) > 1024 || !ntsx.IsOK(chk) {
			c.Fail("reply:unusable", fmt.Sprintf("reply of %d bytes, requester's verdict %.40s (%s)", len(resp), chk, what), []string{op}, map[string]any{"request": lib.Hex(b)})
		}
	} else {
		c.Count("reply:dropped")
	}
}

// listener sends datagrams to the real IP listener (loopback socket, real provider whose key is
// 32 zero bytes under the scripted crypto/rand): reply / no reply and reply length must be what the
// model of the branch says, and the listener must still answer a plain request afterwards.
func listener(c *lib.Ctx, r *lib.Rand) {
	if a, _ := ntsx.Guarded("lsn.probe"); a != "ok" {
		c.NotExecuted("real IP listener on loopback (sockets unavailable in this environment: " + a + ")")
		return
	}
	zero := make([]byte, 32)
	e := &env{c: c, r: r, s: ntsx.NewSession(r), key: zero, keys: map[int][]byte{1: zero}}
	e.ck = ntsx.IssueCookie(c, r, e.s, zero, 1)
	hdr := ntsx.Header(r)
	uid := r.Bytes(32)
	cookieF := ntsx.RawField(0x204, e.ck)
	phF := ntsx.RawField(0x304, make([]byte, len(e.ck)))
	send := func(b []byte, what string) {
		if len(b) <= 48 {
			return // not an NTS datagram: answered (or not) as plain NTP, outside this model
		}
		op := fmt.Sprintf("lsn.send %s keys=[1:%s] cur=1:%s", lib.Hex(b), lib.Hex(zero), lib.Hex(zero))
		ans := ntsx.Do(c, op)
		c.Count("listener:" + strings.Fields(ans)[0])
		if ans == "dead" || ans == "hang" || strings.HasPrefix(ans, "disagree") || strings.HasPrefix(ans, "bad-provider") {
			c.Fail("listener:"+strings.Fields(ans)[0], "real IP listener: "+what+": "+ans, []string{op}, map[string]any{"answer": ans})
		}
	}
	mk := func(u []byte, fields ...[]byte) []byte {
		fs := append([][]byte{ntsx.RawField(0x104, u)}, fields...)
		return ntsx.ForeignPacket(hdr, fs, e.s.C2S, r.Bytes(16), nil)
	}
	good := mk(uid, cookieF, phF)
	send(good, "well-formed request")
	for _, n := range []int{0, 28, 31, 33, 700, 804, 808, 1000} {
		send(mk(r.Bytes(n), cookieF), fmt.Sprintf("%d-byte unique identifier", n))
	}
	for _, n := range []int{5, 6, 7, 12} {
		fs := [][]byte{cookieF}
		for i := 0; i < n; i++ {
			fs = append(fs, phF)
		}
		send(mk(uid, fs...), fmt.Sprintf("%d placeholders", n))
	}
	send(append(append([]byte(nil), hdr...), append([]byte{3, 4, 0, 0}, make([]byte, 24)...)...), "zero-length extension field")
	send(append(append([]byte(nil), hdr...), append([]byte{2, 4, 0, 0}, make([]byte, 24)...)...), "zero-length cookie field")
	send(mk(uid, ntsx.RawField(0x204, e.ck[:len(e.ck)-1])), "cookie cut short")
	send(mk(uid, ntsx.RawField(0x204, []byte{4, 1, 0, 2, 0, 1, 5, 1, 0xff, 0xff, 1, 2, 3, 4, 5, 6, 7, 8, 9, 10, 11, 12, 13, 14})), "cookie TLV beyond buffer")
	if f := strings.Fields(ntsx.Do(c, "ec.dec "+lib.Hex(e.ck))); len(f) == 4 && f[0] == "ok" {
		for _, nl := range []int{0, 15, 17} {
			if m, ok := ntsx.OkHex(ntsx.Do(c, fmt.Sprintf("ec.enc %s %s %s", f[1], lib.Hex(r.Bytes(nl)), f[3]))); ok {
				send(mk(uid, ntsx.RawField(0x204, m)), fmt.Sprintf("cookie with a %d-byte nonce", nl))
			}
		}
	}
	for _, n := range []int{0, 15, 17} {
		send(ntsx.ForeignPacket(hdr, [][]byte{ntsx.RawField(0x104, uid), cookieF}, e.s.C2S, r.Bytes(n), nil), fmt.Sprintf("%d-byte authenticator nonce", n))
	}
	send(ntsx.ForeignPacket(hdr, [][]byte{ntsx.RawField(0x104, uid), cookieF}, e.s.C2S, r.Bytes(16), append([]byte{2, 4, 0, 0}, make([]byte, 28)...)), "zero-length encrypted field")
	ms := ntsx.FieldMutants(good, r)
	for i := 0; i < c.Scale(12, 150); i++ {
		m := ms[r.Intn(len(ms))]
		send(m.B, "mutated request ("+m.Kind+")")
	}
	// boundary stream of the authenticator field (inner lengths whose sum wraps 2^16 or sits at the
	// edges of the value / field / datagram; fields shorter than their own inner length fields):
	// each datagram, then the sentinel. Quick: the subset marked Live; thorough: all of them.
	for _, a := range authx.Cases(hdr, ntsx.RawField(0x104, uid), cookieF, r.Bytes) {
		if a.Live || c.Thorough() {
			c.Count("listener-auth-boundary")
			send(a.B, a.What)
		}
	}
}

func gen(c *lib.Ctx) {
	r := c.Rand
	listener(c, c.Rand.Fork("listener"))
	for si := 0; si < c.Scale(3, 25); si++ {
		e := &env{c: c, r: r, s: ntsx.NewSession(r), key: r.Bytes(32)}
		e.keys = map[int][]byte{1: e.key}
		e.ck = ntsx.IssueCookie(c, r, e.s, e.key, 1)
		hdr := ntsx.Header(r)
		uid := r.Bytes(32)
		cookieF := ntsx.RawField(0x204, e.ck)
		phF := ntsx.RawField(0x304, make([]byte, len(e.ck)))
		good := ntsx.ForeignPacket(hdr, [][]byte{ntsx.RawField(0x104, uid), cookieF, phF}, e.s.C2S, r.Bytes(16), nil)
		e.feed(good, uid, "well-formed foreign request")

		// boundary stream of the authenticator field, decoder level: model vs real DecodePacket /
		// ProcessRequest / ProcessResponse / listener branch on every datagram of authx.Cases
		if si < c.Scale(1, 3) {
			for _, a := range authx.Cases(hdr, ntsx.RawField(0x104, uid), cookieF, r.Bytes) {
				c.Count("auth-boundary")
				e.feed(a.B, uid, a.What)
			}
		}

		// unique identifier lengths (F15: short; long: no room for a cookie in the reply)
		for _, n := range []int{0, 4, 8, 24, 28, 31, 32, 33, 64, 256, 700, 800, 804, 808, 900, 932, 936, 1000, 1400} {
			u := r.Bytes(n)
			b := ntsx.ForeignPacket(hdr, [][]byte{ntsx.RawField(0x104, u), cookieF}, e.s.C2S, r.Bytes(16), nil)
			c.Count("uid-length")
			e.feed(b, u, fmt.Sprintf("authentic request with a %d-byte unique identifier", n))
		}
		// many placeholders / cookies, minimal fields
		for _, n := range []int{7, 8, 9, 30, 100, 400} {
			fs := [][]byte{ntsx.RawField(0x104, uid), cookieF}
			for i := 0; i < n; i++ {
				fs = append(fs, ntsx.RawField(0x304, nil))
			}
			b := ntsx.ForeignPacket(hdr, fs, e.s.C2S, r.Bytes(16), nil)
			if len(b) <= 2048 {
				c.Count("many-placeholders")
				e.feed(b, uid, fmt.Sprintf("authentic request with %d empty placeholders", n))
			}
		}
		// encrypted extension fields: cookies, zero-length and short fields, garbage
		pts := map[string][]byte{
			"cookie in plaintext":    append(ntsx.RawField(0x204, e.ck), make([]byte, 28)...),
			"zero-length field":      append([]byte{0x02, 0x04, 0, 0}, make([]byte, 28)...),
			"length-1 field":         append([]byte{0x02, 0x04, 0, 1}, make([]byte, 28)...),
			"length-3 unknown field": append([]byte{0x7f, 0x04, 0, 3}, make([]byte, 28)...),
			"length beyond":          append([]byte{0x02, 0x04, 0xff, 0xff}, make([]byte, 28)...),
			"garbage":                r.Bytes(64),
			"27 bytes":               r.Bytes(27),
		}
		for _, name := range []string{"cookie in plaintext", "zero-length field", "length-1 field", "length-3 unknown field", "length beyond", "garbage", "27 bytes"} {
			b := ntsx.ForeignPacket(hdr, [][]byte{ntsx.RawField(0x104, uid), cookieF}, e.s.C2S, r.Bytes(16), pts[name])
			c.Count("encrypted-fields")
			e.feed(b, uid, "authentic request, encrypted fields: "+name)
			// the same as a response to a client
			b = ntsx.ForeignPacket(hdr, [][]byte{ntsx.RawField(0x104, uid)}, e.s.S2C, r.Bytes(16), pts[name])
			e.feed(b, uid, "authentic response, encrypted fields: "+name)
		}
		// nonce lengths
		for _, n := range []int{0, 8, 12, 15, 17, 20, 32} {
			b := ntsx.ForeignPacket(hdr, [][]byte{ntsx.RawField(0x104, uid), cookieF}, e.s.C2S, r.Bytes(n), nil)
			c.Count("nonce-length")
			e.feed(b, uid, fmt.Sprintf("request sealed with a %d-byte nonce", n))
		}
		// well-formed cookies whose nonce TLV has another length than the AEAD expects (F16)
		if f := strings.Fields(ntsx.Do(c, "ec.dec "+lib.Hex(e.ck))); len(f) == 4 && f[0] == "ok" {
			for _, nl := range []int{0, 1, 8, 15, 17, 24, 32} {
				m, ok := ntsx.OkHex(ntsx.Do(c, fmt.Sprintf("ec.enc %s %s %s", f[1], lib.Hex(r.Bytes(nl)), f[3])))
				if !ok {
					continue
				}
				c.Count("cookie-nonce-length")
				op := fmt.Sprintf("ck.decrypt %s %s", lib.Hex(m), lib.Hex(e.key))
				ntsx.NoCrash(c, op, ntsx.Do(c, op), fmt.Sprintf("Decrypt of a well-formed cookie with a %d-byte nonce", nl))
				b := ntsx.ForeignPacket(hdr, [][]byte{ntsx.RawField(0x104, uid), ntsx.RawField(0x204, m)}, e.s.C2S, r.Bytes(16), nil)
				e.feed(b, uid, fmt.Sprintf("request whose cookie has a %d-byte nonce", nl))
			}
		}
		// cookies: every TLV mutation inside an otherwise valid request
		for _, m := range ntsx.TLVMutants(e.ck, r) {
			b := ntsx.ForeignPacket(hdr, [][]byte{ntsx.RawField(0x104, uid), ntsx.RawField(0x204, m.B)}, e.s.C2S, r.Bytes(16), nil)
			if len(m.B) >= 24 {
				c.Count("cookie-mutant")
				e.feed(b, uid, "request with a mutated cookie ("+m.Kind+")")
			}
			for _, k := range []string{"ec.dec ", "sc.dec "} {
				op := k + lib.Hex(m.B)
				ntsx.NoCrash(c, op, ntsx.Do(c, op), "cookie Decode ("+m.Kind+")")
			}
		}
		// field mutations of a valid request and of the reply to it
		for _, m := range ntsx.FieldMutants(good, r) {
			c.Count("field-mutant")
			e.feed(m.B, uid, "mutated request ("+m.Kind+")")
		}
		for i := 0; i < c.Scale(150, 1500); i++ {
			e.feed(ntsx.BitFlip(good, r.Intn(len(good)*8)), uid, "bit flip")
			c.Count("bitflip")
		}
		// random tails
		for i := 0; i < c.Scale(100, 2000); i++ {
			b := append(append([]byte(nil), hdr...), r.Bytes(int(r.Range(1, 200)))...)
			if r.Chance(60) && len(b) >= 52 {
				copy(b[48:], []byte{byte(1 + r.Intn(4)), 4, 0, byte(r.Intn(48))})
			}
			c.Count("random")
			e.feed(b, uid, "random bytes")
		}
	}
}

func main() { ntsx.Main(gen) }
