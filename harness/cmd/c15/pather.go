// The path table of net/scion/pather.go behind a scripted SCION daemon: the real
// scion.StartPather / update / Pather.Paths talk to a stand-in for scionproto's daemon gRPC
// service on loopback TCP through the real scion.NewDaemonConnector (the production path), and
// the rounds of one reference clock run on what Paths hands out, refresh after refresh.
//
// ops (stateful; `# history pd` starts a history)
//   pd.start via=start|hook dst=[a,b,a] lia=1|0 ans=a:0.1.2;b:e;c:
//       a new Pather for the configured destination IAs: via=start is scion.StartPather itself
//       (connector + first update + refresh goroutine), via=hook an empty Pather whose first
//       update is the hook scion.VerifC15Update (= update) on a shared connector. lia: does the
//       daemon answer the local-IA lookup; ans: its answer per destination (socket indices of the
//       paths, `e` = error).           -> ok lia=<1|0> a=<list|-> b=<…> c=<…>   (what Paths returns; - = nil)
//   pd.refresh lia= ans=            one more update (what a tick of the refresh goroutine does) -> same
//   pd.round cs=[…] s=<hex> succ=[…] the real MeasureClockOffsetSCION on Paths(a) -> mp.round answer + offered=[…]
package main

import (
	"context"
	"errors"
	"fmt"
	"net"
	"sort"
	"strconv"
	"strings"
	"sync"
	"time"

	"google.golang.org/grpc"
	"google.golang.org/grpc/codes"
	"google.golang.org/grpc/status"
	"google.golang.org/protobuf/types/known/timestamppb"

	"github.com/scionproto/scion/pkg/addr"
	"github.com/scionproto/scion/pkg/daemon"
	sdpb "github.com/scionproto/scion/pkg/proto/daemon"
	"github.com/scionproto/scion/pkg/slayers/path"
	scionpath "github.com/scionproto/scion/pkg/slayers/path/scion"
	"github.com/scionproto/scion/pkg/snet"

	"example.com/scion-time/net/scion"

	"verifharness/lib"
)

// ---------------------------------------------------------------- the scripted daemon

var pdIAs = map[string]addr.IA{
	"a": remoteIA, // the reference clock's AS: rounds run on Paths(a)
	"b": addr.MustParseIA("1-ff00:0:113"),
	"c": addr.MustParseIA("2-ff00:0:211"),
	"w": addr.MustParseIA("1-0"), // a wildcard IA (a configuration mistake: AS 0)
	"t": addr.MustParseIA("1-ff00:0:119"),
}

var pdNames = []string{"a", "b", "c"} // the destinations every answer reports on

type pdAns struct {
	err bool
	idx []int
}

var pd struct {
	mu       sync.Mutex
	liaOK    bool
	ans      map[addr.IA]pdAns
	asked    map[addr.IA]int
	askedLIA int
}

// pdDaemon: the scripted daemon of the histories; with tick set, the second instance that serves
// only the Pather left alone with its refresh goroutine (its local-IA lookup always succeeds).
type pdDaemon struct {
	sdpb.UnimplementedDaemonServiceServer
	tick bool
}

func (d *pdDaemon) AS(ctx context.Context, req *sdpb.ASRequest) (*sdpb.ASResponse, error) {
	pd.mu.Lock()
	defer pd.mu.Unlock()
	pd.askedLIA++
	if !pd.liaOK && !d.tick {
		return nil, status.Error(codes.Unavailable, "scripted daemon: local IA lookup fails")
	}
	return &sdpb.ASResponse{IsdAs: uint64(localIA), Mtu: 1400}, nil
}

// pdFpTok: the fingerprint token of the daemon's path through socket j
func pdFpTok(j int) string { return "q" + strconv.Itoa(j) }

func pdRawPath(j int) []byte {
	m := fpMeta(pdFpTok(j))
	dp := scionpath.Decoded{
		Base: scionpath.Base{
			PathMeta: scionpath.MetaHdr{SegLen: [3]uint8{2, 0, 0}},
			NumINF:   1, NumHops: 2,
		},
		InfoFields: []path.InfoField{{ConsDir: true, SegID: uint16(j + 1), Timestamp: uint32(time.Now().Unix())}},
		HopFields: []path.HopField{
			{ExpTime: 63, ConsIngress: 0, ConsEgress: uint16(m.Interfaces[0].ID)},
			{ExpTime: 63, ConsIngress: uint16(m.Interfaces[1].ID), ConsEgress: 0},
		},
	}
	raw := make([]byte, dp.Len())
	if err := dp.SerializeTo(raw); err != nil {
		panic("pdRawPath: " + err.Error())
	}
	return raw
}

func (*pdDaemon) Paths(ctx context.Context, req *sdpb.PathsRequest) (*sdpb.PathsResponse, error) {
	pd.mu.Lock()
	defer pd.mu.Unlock()
	dst := addr.IA(req.DestinationIsdAs)
	pd.asked[dst]++
	a, ok := pd.ans[dst]
	if !ok || a.err {
		return nil, status.Error(codes.Unavailable, "scripted daemon: path lookup fails")
	}
	resp := &sdpb.PathsResponse{}
	for _, j := range a.idx {
		m := fpMeta(pdFpTok(j))
		resp.Paths = append(resp.Paths, &sdpb.Path{
			Raw:        pdRawPath(j),
			Interface:  &sdpb.Interface{Address: &sdpb.Underlay{Address: socks[j].LocalAddr().String()}},
			Interfaces: []*sdpb.PathInterface{{IsdAs: uint64(localIA), Id: uint64(m.Interfaces[0].ID)}, {IsdAs: uint64(remoteIA), Id: uint64(m.Interfaces[1].ID)}},
			Mtu:        1400,
			Expiration: timestamppb.New(time.Now().Add(time.Hour)),
		})
	}
	return resp, nil
}

var (
	pdOnce sync.Once
	pdAddr string
	pdTickAddr string
	pdErr  error
	pdConn daemon.Connector // the shared connector of via=hook histories
)

func pdStartDaemon() error {
	pdOnce.Do(func() {
		pd.ans, pd.asked = map[addr.IA]pdAns{}, map[addr.IA]int{}
		ln, err := net.Listen("tcp", "127.0.0.1:0")
		if err != nil {
			pdErr = err
			return
		}
		srv := grpc.NewServer()
		sdpb.RegisterDaemonServiceServer(srv, &pdDaemon{})
		go srv.Serve(ln)
		pdAddr = ln.Addr().String()
		ln2, err := net.Listen("tcp", "127.0.0.1:0")
		if err != nil {
			pdErr = err
			return
		}
		srv2 := grpc.NewServer()
		sdpb.RegisterDaemonServiceServer(srv2, &pdDaemon{tick: true})
		go srv2.Serve(ln2)
		pdTickAddr = ln2.Addr().String()
		pdConn = scion.NewDaemonConnector(context.Background(), pdAddr)
		if pdConn == nil {
			pdErr = errors.New("scion.NewDaemonConnector returned nil for the stand-in daemon")
		}
	})
	return pdErr
}

// ---------------------------------------------------------------- exec

var (
	pdPather *scion.Pather
	pdDst    []addr.IA
)

func pdSetScript(lia, ans string) bool {
	m := map[addr.IA]pdAns{}
	for _, part := range strings.Split(ans, ";") {
		name, spec, ok := strings.Cut(part, ":")
		ia, known := pdIAs[name]
		if !ok || !known || name == "w" {
			return false
		}
		var a pdAns
		switch {
		case spec == "e":
			a.err = true
		case spec != "":
			for _, x := range strings.Split(spec, ".") {
				j, err := strconv.Atoi(x)
				if err != nil || j < 0 || j >= maxPaths || (x != "0" && x[0] == '0') {
					return false
				}
				a.idx = append(a.idx, j)
			}
		}
		if _, dup := m[ia]; dup {
			return false
		}
		m[ia] = a
	}
	for _, n := range pdNames {
		if _, ok := m[pdIAs[n]]; !ok {
			return false
		}
	}
	if lia != "0" && lia != "1" {
		return false
	}
	pd.mu.Lock()
	// the answers for "t" (the ticking Pather of genPatherDaemon) are kept
	if t, ok := pd.ans[pdIAs["t"]]; ok {
		m[pdIAs["t"]] = t
	}
	pd.liaOK, pd.ans = lia == "1", m
	pd.mu.Unlock()
	return true
}

func pdState() string {
	var sb strings.Builder
	if pdPather.LocalIA() == localIA {
		sb.WriteString("ok lia=1")
	} else if pdPather.LocalIA() == 0 {
		sb.WriteString("ok lia=0")
	} else {
		sb.WriteString("ok lia=other")
	}
	for _, n := range pdNames {
		ps := pdPather.Paths(pdIAs[n])
		if ps == nil {
			sb.WriteString(" " + n + "=-")
		} else {
			sb.WriteString(" " + n + "=" + pathIndices(ps))
		}
	}
	return sb.String()
}

func execPatherDaemon(t []string) string {
	if err := world(); err != nil {
		panic("world: " + err.Error())
	}
	if err := pdStartDaemon(); err != nil {
		return "harness-assumption-broken stand-in-daemon: " + strings.ReplaceAll(err.Error(), " ", "_")
	}
	switch {
	case t[0] == "pd.start" && len(t) == 5:
		persistReset(true)
		var dst []addr.IA
		for _, n := range list(kv(t, "dst")) {
			ia, ok := pdIAs[n]
			if !ok || n == "t" {
				return "bad-op"
			}
			dst = append(dst, ia)
		}
		if !pdSetScript(kv(t, "lia"), kv(t, "ans")) {
			return "bad-op"
		}
		pdPather, pdDst = nil, dst
		ctx, cancel := context.WithTimeout(context.Background(), 10*time.Second)
		defer cancel()
		switch kv(t, "via") {
		case "start":
			// the real constructor: its context is the program's (never cancelled)
			pdPather = scion.StartPather(context.Background(), discard, pdAddr, dst)
		case "hook":
			pdPather = scion.VerifC15NewPather(discard, 0, nil)
			scion.VerifC15Update(ctx, pdPather, pdConn, dst)
		default:
			return "bad-op"
		}
		return pdState()
	case t[0] == "pd.refresh" && len(t) == 3:
		if pdPather == nil {
			return "err nopather"
		}
		if !pdSetScript(kv(t, "lia"), kv(t, "ans")) {
			return "bad-op"
		}
		ctx, cancel := context.WithTimeout(context.Background(), 10*time.Second)
		defer cancel()
		scion.VerifC15Update(ctx, pdPather, pdConn, pdDst)
		return pdState()
	}
	return "bad-op"
}

func execPatherDaemonRoundOnce(toks []string, deadline time.Duration) (string, bool) {
	if len(toks) != 4 {
		return "bad-op", false
	}
	cs, succ := list(kv(toks, "cs")), list(kv(toks, "succ"))
	data := unhex(kv(toks, "s"))
	if len(succ) != len(cs) || len(cs) > 62 {
		return "bad-op", false
	}
	if pdPather == nil {
		return "err nopather", false
	}
	offered := pdPather.Paths(remoteIA)
	off := pathIndices(offered)
	res, timedOut := runRound(cs, succ, data, offered, deadline)
	if timedOut || res == "bad-op" || strings.HasPrefix(res, "panic") {
		return res, timedOut
	}
	return res + " offered=" + off, false
}

// ---------------------------------------------------------------- generator + direct oracle

type pdScriptGen struct {
	lia bool
	ans map[string]pdAns
}

func (s pdScriptGen) tok() string {
	var parts []string
	for _, n := range pdNames {
		a := s.ans[n]
		switch {
		case a.err:
			parts = append(parts, n+":e")
		default:
			var xs []string
			for _, j := range a.idx {
				xs = append(xs, strconv.Itoa(j))
			}
			parts = append(parts, n+":"+strings.Join(xs, "."))
		}
	}
	l := "0"
	if s.lia {
		l = "1"
	}
	return "lia=" + l + " ans=" + strings.Join(parts, ";")
}

func pdField(ans, key string) string {
	for _, f := range strings.Fields(ans) {
		if strings.HasPrefix(f, key+"=") {
			return f[len(key)+1:]
		}
	}
	return ""
}

func pdIdxList(s string) ([]int, bool) {
	if s == "-" || s == "" {
		return nil, false
	}
	var out []int
	for _, x := range list(s) {
		out = append(out, atoi(x))
	}
	return out, true
}

func sortedCopy(a []int) []int {
	b := append([]int{}, a...)
	sort.Ints(b)
	return b
}

func equalInts(a, b []int) bool {
	if len(a) != len(b) {
		return false
	}
	for i := range a {
		if a[i] != b[i] {
			return false
		}
	}
	return true
}

func hasDup(a []int) bool {
	seen := map[int]bool{}
	for _, x := range a {
		if seen[x] {
			return true
		}
		seen[x] = true
	}
	return false
}

// remapAssign rewrites the assign list of a round's answer from socket indices to positions in
// the offered list (first position of that path), so that judge() can be applied with the
// offered fingerprints in offered order.
func remapAssign(ans string, offered []int) string {
	f := strings.Fields(ans)
	for i, t := range f {
		if !strings.HasPrefix(t, "assign=[") {
			continue
		}
		as := list(t[7:])
		for k, a := range as {
			if a == "-" || a == "multi" {
				continue
			}
			j, pos := atoi(a), -1
			for p, o := range offered {
				if o == j {
					pos = p
					break
				}
			}
			as[k] = strconv.Itoa(pos) // -1: a path that was not offered (judge reports it)
		}
		f[i] = "assign=[" + strings.Join(as, ",") + "]"
	}
	return strings.Join(f, " ")
}

var pdTickStart time.Time
var pdTickPather *scion.Pather

// genPatherDaemon: histories of refreshes of one Pather (configured destination lists with and
// without repeated IAs; daemon answers that change, fail for one destination, fail at the local
// IA lookup) and rounds of one set of clients on what Paths offers after each refresh.
//
// Direct oracles (from the script; independent of the model):
//   C15:pather:offer-is-not-the-daemons-answer  after a refresh whose local-IA lookup succeeded,
//       Paths(dst) offers exactly the paths the daemon answered for dst in THAT refresh (none if
//       the lookup failed), for every configured dst; nil for a dst that is not configured
//   C15:pather:offer-repeats-a-path            … and each of them once (a path offered twice lets
//       two clients of one round probe the same path)
//   C15:pather:table-changed-by-failed-refresh a refresh whose local-IA lookup fails leaves the offer as it was
//   everything judge() checks on the rounds (C15:round:distinct, sticky kept / reset, FTM, …)
func genPatherDaemon(c *lib.Ctx) {
	r := c.Rand.Fork("pather-daemon")
	if ans := c.Do("pd.start via=hook dst=[a] lia=1 ans=a:0;b:;c:"); !strings.HasPrefix(ans, "ok ") {
		c.NotExecuted("pd: stand-in SCION daemon (gRPC on loopback) unavailable: " + ans)
		return
	}
	// one Pather is left alone with its refresh goroutine: after a refresh period it must offer
	// what the daemon answers then
	pd.mu.Lock()
	pd.ans[pdIAs["t"]] = pdAns{idx: []int{1, 2}}
	pd.mu.Unlock()
	pdTickPather = scion.StartPather(context.Background(), discard, pdTickAddr, []addr.IA{pdIAs["t"]})
	pdTickStart = time.Now()
	if got := pathIndices(pdTickPather.Paths(pdIAs["t"])); got != "[1,2]" {
		c.Fail("C15:pather:offer-is-not-the-daemons-answer", "StartPather: the first lookup's answer is not what Paths offers", []string{"# StartPather dst=[t], daemon answers t:1.2"}, map[string]any{"got": got})
	}
	pd.mu.Lock()
	pd.ans[pdIAs["t"]] = pdAns{idx: []int{3}}
	pd.mu.Unlock()

	words := func(n int) []byte {
		var s []byte
		for i := 0; i < n; i++ {
			s = append(s, r.Bytes(4)...)
		}
		return s
	}
	dstLists := [][]string{{"a"}, {"a", "b"}, {"a", "a"}, {"b", "a", "a"}, {"a", "b", "a", "c"}, {"b"}, {"a", "b", "c"}, {"a", "a", "a"}, {"c", "a"}}
	script := func(np int) pdScriptGen {
		s := pdScriptGen{lia: !r.Chance(12), ans: map[string]pdAns{}}
		for _, n := range pdNames {
			var a pdAns
			switch {
			case r.Chance(12):
				a.err = true
			case n == "a":
				// a random subset of the np paths, in random order
				perm := make([]int, np)
				for i := range perm {
					perm[i] = i
				}
				for i := np - 1; i > 0; i-- {
					j := r.Intn(i + 1)
					perm[i], perm[j] = perm[j], perm[i]
				}
				k := r.Intn(np + 1)
				if r.Chance(60) {
					k = np
				}
				a.idx = append([]int{}, perm[:k]...)
			default:
				for j := 0; j < r.Intn(3); j++ {
					a.idx = append(a.idx, 10+r.Intn(4))
				}
				a.idx = dedupInts(a.idx)
			}
			s.ans[n] = a
		}
		return s
	}
	nStart := 0
	history := func(hi int, dst []string, nc int, refreshes int, np int, forced []pdScriptGen) {
		c.Comment("history pd")
		via := "hook"
		if nStart < 10 && hi%3 == 0 {
			via = "start"
			nStart++
		}
		c.Count("pd:via-" + via)
		if hasDupStr(dst) {
			c.Count("pd:config-repeats-a-destination")
		}
		var ops []string
		cs := make([]clientSpec, nc)
		for i := range cs {
			cs[i] = clientSpec{mode: !r.Chance(15), fp: "-"}
		}
		// what the table must offer for each name: nil (not configured / never filled) or a set
		offer := map[string][]int{}
		filled := false
		for k := 0; k <= refreshes; k++ {
			var sc pdScriptGen
			if k < len(forced) {
				sc = forced[k]
			} else {
				sc = script(np)
			}
			var op string
			if k == 0 {
				op = fmt.Sprintf("pd.start via=%s dst=[%s] %s", via, strings.Join(dst, ","), sc.tok())
			} else {
				op = "pd.refresh " + sc.tok()
			}
			ops = append(ops, op)
			replay := append([]string(nil), ops...)
			ans := c.Do(op)
			c.Count("pd:refresh")
			if !strings.HasPrefix(ans, "ok ") {
				c.Fail("C15:pather:refresh-failed", "a refresh of the path table did not complete", replay, map[string]any{"answer": ans})
				return
			}
			if sc.lia {
				filled = true
				c.Count("pd:refresh:installed")
				for _, n := range pdNames {
					if !containsStr(dst, n) {
						delete(offer, n)
						continue
					}
					if sc.ans[n].err {
						c.Count("pd:lookup-error-for-a-destination")
						offer[n] = []int{}
					} else {
						offer[n] = sortedCopy(sc.ans[n].idx)
					}
				}
			} else {
				c.Count("pd:refresh:local-ia-lookup-failed")
			}
			for _, n := range pdNames {
				got, present := pdIdxList(pdField(ans, n))
				want, wantPresent := offer[n]
				if !filled {
					wantPresent = false
				}
				sig, what := "", ""
				switch {
				case present != wantPresent || (present && !equalInts(dedupInts(sortedCopy(got)), want)):
					sig, what = "C15:pather:offer-is-not-the-daemons-answer", "what Paths offers for a destination is not the set of paths the daemon answered in the most recent completed refresh (nil for a destination that is not configured)"
					if !sc.lia {
						sig, what = "C15:pather:table-changed-by-failed-refresh", "a refresh whose local-IA lookup failed changed what Paths offers"
					}
				case present && hasDup(got):
					sig, what = "C15:pather:offer-repeats-a-path", "Paths offers the same path more than once although the daemon answered it once: two clients of one round can be given the same path"
				}
				if sig != "" {
					c.Fail(sig, what, replay, map[string]any{"answer": ans, "destination": n, "want": fmt.Sprint(want), "configured": strings.Join(dst, ",")})
				}
			}
			// rounds of the reference clock in AS a on this table
			offered, present := pdIdxList(pdField(ans, "a"))
			if !present {
				offered = nil
			}
			ps := make([]string, len(offered))
			for i, j := range offered {
				ps[i] = pdFpTok(j)
			}
			for q := 1 + r.Intn(2); q > 0; q-- {
				if lateRounds >= 8 {
					return
				}
				succ := make([]string, len(cs))
				for i := range succ {
					if r.Chance(10) {
						succ[i] = "x"
					} else {
						succ[i] = strconv.FormatInt(r.Range(-1000000, 1000000), 10)
					}
				}
				ct := make([]string, len(cs))
				for i, s := range cs {
					ct[i] = s.tok()
				}
				rop := fmt.Sprintf("pd.round cs=[%s] s=%s succ=[%s]", strings.Join(ct, ","), lib.Hex(words(len(ps)+4)), strings.Join(succ, ","))
				ops = append(ops, rop)
				rreplay := append([]string(nil), ops...)
				rans := c.Do(rop)
				c.Count("pd:round")
				if len(offered) == 0 {
					c.Count("pd:round-without-paths")
				}
				if f := strings.Fields(rans); f[0] != "panic" && len(f) >= 6 && pdField(rans, "offered") != lib.IntList(toI64(offered)) {
					c.Fail("C15:pather:offered-differs", "the paths offered to a round are not what the Pather offered after the refresh", rreplay, map[string]any{"answer": rans})
				}
				assign := judge(c, rreplay, remapAssign(rans, offered), cs, ps, succ)
				if assign == nil {
					break
				}
				for i := range cs {
					if i >= len(assign) || assign[i] == "-" {
						continue
					}
					j := atoi(assign[i])
					switch {
					case !cs[i].mode:
					case succ[i] == "x" || j < 0 || j >= len(ps):
						cs[i] = clientSpec{mode: true, fp: "-"}
					default:
						cs[i] = clientSpec{true, true, true, ps[j]}
						c.Count("pd:client-now-interleaved")
					}
				}
			}
		}
	}
	good := func(idx ...int) pdScriptGen {
		return pdScriptGen{lia: true, ans: map[string]pdAns{"a": {idx: idx}, "b": {idx: []int{10}}, "c": {}}}
	}
	aErr := pdScriptGen{lia: true, ans: map[string]pdAns{"a": {err: true}, "b": {idx: []int{10}}, "c": {}}}
	liaErr := pdScriptGen{lia: false, ans: map[string]pdAns{"a": {idx: []int{5}}, "b": {}, "c": {}}}
	c.Comment("pd corpus")
	history(1, []string{"a"}, 3, 3, 3, []pdScriptGen{good(0, 1, 2), good(0, 1, 2), good(2, 1), good(0, 1, 2)})
	history(2, []string{"a", "b"}, 3, 3, 3, []pdScriptGen{good(0, 1, 2), aErr, good(0, 1, 2), liaErr})                   // a transient lookup error empties the offer for a period
	history(4, []string{"a", "a"}, 3, 2, 3, []pdScriptGen{good(0, 1, 2), good(0, 1, 2), good(0, 1)})                     // two reference clocks in one AS
	history(5, []string{"a", "b", "a"}, 7, 1, 4, []pdScriptGen{good(0, 1, 2, 3), good(0, 1, 2, 3)})                       // reference clock and peer in one AS, seven clients
	history(7, []string{"a"}, 2, 3, 3, []pdScriptGen{liaErr, liaErr, good(0, 1), liaErr})                                 // daemon not reachable at start
	history(0, []string{"a", "a"}, 2, 1, 2, []pdScriptGen{good(0, 1), good(1, 0)})                                        // via StartPather
	history(3, []string{"b", "a"}, 4, 2, 6, []pdScriptGen{good(0, 1, 2, 3, 4, 5), good(5, 4, 3), good(0, 1, 2, 3, 4, 5)}) // via StartPather
	c.Comment("pd random histories")
	for i := 0; i < c.Scale(60, 600); i++ {
		if lateRounds >= 8 {
			c.Count("round:skipped-after-late-rounds")
			break
		}
		history(i, dstLists[r.Intn(len(dstLists))], 1+r.Intn(7), 1+r.Intn(4), 1+r.Intn(7), nil)
	}
	// the wildcard destination: update panics as soon as a local-IA lookup succeeds (a
	// configuration mistake; the panic is the documented reaction). Executed in the caller's
	// goroutine only (StartPather's first update and the hook); with the daemon unreachable at
	// start the first update returns early and the panic would fire later inside the refresh
	// goroutine — model only (Props/C15Upd, `C15Upd_wildcard_panic_can_be_late`).
	c.Comment("history pd")
	if ans := c.Do("pd.start via=start dst=[a,w] lia=1 ans=a:0;b:;c:"); strings.HasPrefix(ans, "panic explicit:unexpected_destination_IA") || strings.HasPrefix(ans, "panic explicit:unexpected destination IA") {
		c.Count("observed:wildcard-destination-panics-in-first-update")
	} else {
		c.Count("observed:wildcard-destination-first-update:" + strings.Fields(ans)[0])
	}
	c.Comment("history pd")
	a1 := c.Do("pd.start via=hook dst=[a,w] lia=0 ans=a:0;b:;c:")
	a2 := c.Do("pd.refresh lia=1 ans=a:0;b:;c:")
	if strings.HasPrefix(a1, "ok ") && strings.HasPrefix(a2, "panic") {
		c.Count("observed:wildcard-destination-panics-only-once-the-daemon-answers")
	}

	// the ticking Pather
	wait := 15*time.Second + 1500*time.Millisecond - time.Since(pdTickStart)
	if wait > 0 {
		time.Sleep(wait)
	}
	got := ""
	for k := 0; k < 40; k++ { // up to 4 more seconds on a loaded machine
		if got = pathIndices(pdTickPather.Paths(pdIAs["t"])); got == "[3]" {
			break
		}
		time.Sleep(100 * time.Millisecond)
	}
	if got == "[3]" {
		c.Count("observed:refresh-goroutine-installed-the-daemons-new-answer-after-one-period")
	} else {
		c.Fail("C15:pather:offer-is-not-the-daemons-answer", "one refresh period (15 s) after the daemon changed its answer the Pather started by StartPather still offers the old paths",
			[]string{"# StartPather dst=[t]; daemon answers t:1.2, then t:3; wait 16.5 s .. 20.5 s"}, map[string]any{"got": got, "want": "[3]"})
	}
}

func dedupInts(a []int) []int {
	var out []int
	seen := map[int]bool{}
	for _, x := range a {
		if !seen[x] {
			seen[x] = true
			out = append(out, x)
		}
	}
	return out
}

func toI64(a []int) []int64 {
	out := make([]int64, len(a))
	for i, x := range a {
		out[i] = int64(x)
	}
	return out
}

func containsStr(l []string, s string) bool {
	for _, x := range l {
		if x == s {
			return true
		}
	}
	return false
}

func hasDupStr(l []string) bool {
	seen := map[string]bool{}
	for _, x := range l {
		if seen[x] {
			return true
		}
		seen[x] = true
	}
	return false
}

var _ snet.Path
