// c15: correspondence + direct oracle for crypto.RandIntn / crypto.Sample (scripted
// crypto/rand.Reader) and the multipath round client.MeasureClockOffsetSCION (real function,
// real sockets on loopback, fake snet.Paths whose next hops are sockets of this process,
// clients pre-set through the verif hook, scripted filters).
package main

import (
	"context"
	"crypto/rand"
	"encoding/hex"
	"errors"
	"fmt"
	"hash/fnv"
	"io"
	"log/slog"
	"math"
	"net"
	"net/netip"
	"sort"
	"strconv"
	"strings"
	"sync"
	"time"

	"github.com/google/gopacket"
	"github.com/scionproto/scion/pkg/addr"
	"github.com/scionproto/scion/pkg/segment/iface"
	"github.com/scionproto/scion/pkg/slayers"
	"github.com/scionproto/scion/pkg/snet"
	spath "github.com/scionproto/scion/pkg/snet/path"

	"example.com/scion-time/base/crypto"
	"example.com/scion-time/core/client"
	"example.com/scion-time/core/measurements"
	"example.com/scion-time/core/timebase"
	"example.com/scion-time/net/ntp"
	"example.com/scion-time/net/scion"
	"example.com/scion-time/net/udp"

	"verifharness/lib"
)

// ---------------------------------------------------------------- scripted crypto/rand.Reader

// script serves the scripted bytes; when they run out it pads with 0xff (always accepted by
// the rejection loops) and remembers that it did: crypto/rand.Read must never fail on
// Go >= 1.24 (a failing Reader crashes the program).
type script struct {
	data      []byte
	pos       int
	exhausted bool
}

func (s *script) Read(p []byte) (int, error) {
	for i := range p {
		if s.pos < len(s.data) {
			p[i] = s.data[s.pos]
			s.pos++
		} else {
			p[i] = 0xff
			s.exhausted = true
		}
	}
	return len(p), nil
}

func withScript(data []byte, f func(sc *script) string) string {
	sc := &script{data: data}
	old := rand.Reader
	rand.Reader = sc
	defer func() { rand.Reader = old }()
	return f(sc)
}

func unhex(s string) []byte {
	if s == "-" {
		return nil
	}
	b, err := hex.DecodeString(s)
	if err != nil {
		panic("bad-op")
	}
	return b
}

func i64(s string) int64 {
	v, err := strconv.ParseInt(s, 10, 64)
	if err != nil {
		panic("bad-op")
	}
	return v
}

func ctxFor(cancelled string) context.Context {
	ctx := context.Background()
	if cancelled == "1" {
		c, cancel := context.WithCancel(ctx)
		cancel()
		return c
	}
	return ctx
}

func errClass(sc *script, err error) string {
	if sc.exhausted {
		return "exhausted"
	}
	if errors.Is(err, context.Canceled) {
		return "cancelled"
	}
	return "other:" + strings.ReplaceAll(err.Error(), " ", "_")
}

// ---------------------------------------------------------------- loopback world for mp.round

const (
	maxPaths = 16
	pathIP   = "127.0.15.1"
	localIP  = "127.0.15.2"
	remoteIP = "127.0.15.3"
)

var (
	localIA  = addr.MustParseIA("1-ff00:0:111")
	remoteIA = addr.MustParseIA("1-ff00:0:112")

	worldOnce sync.Once
	worldErr  error
	socks     []*net.UDPConn

	mu  sync.Mutex
	cur struct {
		succ map[int]string // per client: outcome of its attempts in this round, '1' answered / '0' refused; the last one repeats
		log  []probe
	}
)

type probe struct {
	client, path int
	il           bool // the request was an interleaved-mode request (origin / receive timestamp set)
}

// The clients of a history (pa.set / pd.start begin one; mp.round is stateless): the client
// objects live on from round to round, as a reference clock's do, whenever the state the
// op line describes for a client is the state its object of the previous round really is
// in (otherwise a new object is pre-set through the hook, as for mp.round). What a reused
// object remembers of its previous exchange (reference, fingerprint, timestamps) is what the
// real code left there; only the flag "the previous response was an interleaved one" is
// scripted, because pathServer always answers in basic mode.
var persist struct {
	on      bool
	clients map[int]*client.SCIONClient
}

func persistReset(on bool) {
	persist.on, persist.clients = on, map[int]*client.SCIONClient{}
}

// lastStale: direct-oracle observation of the most recent round — the clients that were reset
// in the round (their filter was) and whose first request of the round nevertheless was an
// interleaved-mode request, i.e. carried timestamps of an exchange from before the reset.
var (
	lastStale  []int
	lastReused int
)


type sysClock struct{}

func (sysClock) Epoch() uint64                        { return 0 }
func (sysClock) Now() time.Time                       { return time.Now() }
func (sysClock) Drift(time.Duration) time.Duration    { return 0 }
func (sysClock) Step(time.Duration)                   {}
func (sysClock) Adjust(_, _ time.Duration, _ float64) {}
func (sysClock) Sleep(d time.Duration)                { time.Sleep(d) }

func world() error {
	worldOnce.Do(func() {
		timebase.RegisterClock(sysClock{})
		for j := 0; j < maxPaths; j++ {
			c, err := net.ListenUDP("udp", &net.UDPAddr{IP: net.ParseIP(pathIP)})
			if err != nil {
				worldErr = err
				return
			}
			socks = append(socks, c)
			go pathServer(j, c)
		}
	})
	return worldErr
}

// pathServer plays "border router + time server" behind path j: it records which client
// (DSCP in the SCION traffic class) probed this path and answers as scripted for the round:
// a valid NTP response, or two datagrams of garbage (the client gives up after one retry).
func pathServer(j int, conn *net.UDPConn) {
	var (
		scn  slayers.SCION
		hbh  slayers.HopByHopExtnSkipper
		e2e  slayers.EndToEndExtn
		udpl slayers.UDP
		scmp slayers.SCMP
	)
	scn.RecyclePaths()
	parser := gopacket.NewDecodingLayerParser(slayers.LayerTypeSCION, &scn, &hbh, &e2e, &udpl, &scmp)
	parser.IgnoreUnsupported = true
	decoded := make([]gopacket.LayerType, 4)
	buf := make([]byte, 9216)
	out := gopacket.NewSerializeBuffer()
	opts := gopacket.SerializeOptions{ComputeChecksums: true, FixLengths: true}
	for {
		n, from, err := conn.ReadFromUDPAddrPort(buf)
		if err != nil {
			return
		}
		if err := parser.DecodeLayers(buf[:n], &decoded); err != nil || len(decoded) < 2 ||
			decoded[len(decoded)-1] != slayers.LayerTypeSCIONUDP {
			continue
		}
		cl := int(scn.TrafficClass>>2) - 1
		mu.Lock()
		nth := 0 // how many requests this client has sent before this one (= index of the attempt)
		for _, p := range cur.log {
			if p.client == cl {
				nth++
			}
		}
		var req ntp.Packet
		reqErr := ntp.DecodePacket(&req, udpl.Payload)
		var zero ntp.Time64
		cur.log = append(cur.log, probe{cl, j, reqErr == nil && (req.OriginTime != zero || req.ReceiveTime != zero)})
		pat := cur.succ[cl]
		mu.Unlock()
		ok := false
		if len(pat) > 0 {
			ok = pat[min(nth, len(pat)-1)] == '1'
		}
		if !ok {
			conn.WriteToUDPAddrPort([]byte{0}, from)
			conn.WriteToUDPAddrPort([]byte{0}, from)
			continue
		}
		var resp ntp.Packet
		if reqErr != nil {
			continue
		}
		now := ntp.Time64FromTime(time.Now())
		resp.SetVersion(ntp.VersionMax)
		resp.SetMode(ntp.ModeServer)
		resp.Stratum = 1
		// (always a basic-mode response, also to an interleaved-mode request: whether the previous
		// response was an interleaved one is scripted per client, see runRound)
		resp.OriginTime = req.TransmitTime
		resp.ReceiveTime = now
		resp.TransmitTime = now
		var pld []byte
		ntp.EncodePacket(&pld, &resp)

		scn.DstIA, scn.SrcIA = scn.SrcIA, scn.DstIA
		scn.DstAddrType, scn.SrcAddrType = scn.SrcAddrType, scn.DstAddrType
		scn.RawDstAddr, scn.RawSrcAddr = scn.RawSrcAddr, scn.RawDstAddr
		scn.Path, err = scn.Path.Reverse()
		if err != nil {
			continue
		}
		scn.NextHdr = slayers.L4UDP
		udpl.DstPort, udpl.SrcPort = udpl.SrcPort, udpl.DstPort
		udpl.SetNetworkLayerForChecksum(&scn)
		out.Clear()
		p := gopacket.Payload(pld)
		p.SerializeTo(out, opts)
		out.PushLayer(p.LayerType())
		if err := udpl.SerializeTo(out, opts); err != nil {
			continue
		}
		out.PushLayer(udpl.LayerType())
		if err := scn.SerializeTo(out, opts); err != nil {
			continue
		}
		conn.WriteToUDPAddrPort(out.Bytes(), from)
	}
}

type fakeFilter struct {
	off    time.Duration
	resets int
}

func (f *fakeFilter) Do(_, _, _, _ time.Time) time.Duration { return f.off }
func (f *fakeFilter) Reset()                                { f.resets++ }

// fpPath builds the metadata whose snet.Fingerprint stands for the token; "-" has none.
func fpMeta(tok string) snet.PathMetadata {
	if tok == "-" {
		return snet.PathMetadata{}
	}
	h := fnv.New64a()
	h.Write([]byte(tok))
	return snet.PathMetadata{Interfaces: []snet.PathInterface{
		{IA: localIA, ID: iface.ID(h.Sum64() % 60000)},
		{IA: remoteIA, ID: iface.ID(h.Sum64() >> 32 % 60000)},
	}}
}

func fpString(tok string) string {
	return snet.Fingerprint(spath.Path{Meta: fpMeta(tok)}).String()
}

func list(s string) []string {
	if !strings.HasPrefix(s, "[") || !strings.HasSuffix(s, "]") {
		panic("bad-op")
	}
	s = s[1 : len(s)-1]
	if s == "" {
		return nil
	}
	return strings.Split(s, ",")
}

func kv(toks []string, key string) string {
	for _, t := range toks {
		if strings.HasPrefix(t, key+"=") {
			return t[len(key)+1:]
		}
	}
	panic("bad-op")
}

var discard = slog.New(slog.NewTextHandler(io.Discard, &slog.HandlerOptions{Level: slog.LevelError + 4}))

// roundDeadline bounds every real round. On loopback a round takes a millisecond or two (tens of
// milliseconds under the race detector), so a round that is still running at the deadline
// although every participant's exchanges were answered did not finish by itself: that is
// reported as `late=1` (the model always says `late=0`). A round that hits the deadline while
// some participant is still unanswered is a sandbox problem (machine overloaded, datagram
// lost), not a behaviour of the code: it is retried from scratch.
const (
	roundDeadline = 250 * time.Millisecond
	roundConfirm  = 2 * time.Second // a late round is re-run with this deadline before it is reported
)

// execRound runs one round (see roundDeadline).
func execRound(toks []string) string {
	deadline := roundDeadline
	for attempt := 0; ; attempt++ {
		var res string
		var timedOut bool
		if toks[0] == "pa.round" {
			res, timedOut = execPatherRoundOnce(toks, deadline)
		} else if toks[0] == "pd.round" {
			res, timedOut = execPatherDaemonRoundOnce(toks, deadline)
		} else {
			res, timedOut = execRoundOnce(toks, deadline)
		}
		if !timedOut && strings.HasSuffix(res, " late=1") && deadline == roundDeadline {
			// confirm with a much longer deadline before reporting (rules out a stalled machine)
			deadline = roundConfirm
			continue
		}
		if !timedOut {
			return res
		}
		if attempt == 4 {
			panic("round timed out")
		}
		time.Sleep(200 * time.Millisecond)
	}
}

func execRoundOnce(toks []string, deadline time.Duration) (string, bool) {
	if len(toks) != 5 {
		return "bad-op", false
	}
	cs, ps, succ := list(kv(toks, "cs")), list(kv(toks, "ps")), list(kv(toks, "succ"))
	data := unhex(kv(toks, "s"))
	if len(succ) != len(cs) || len(ps) > maxPaths || len(cs) > 62 {
		return "bad-op", false
	}
	if err := world(); err != nil {
		panic("world: " + err.Error())
	}
	persistReset(false)
	return runRound(cs, succ, data, mkPaths(ps), deadline)
}

// mkPaths: fake snet.Paths for the fingerprint tokens; path j's next hop is socket j.
func mkPaths(ps []string) []snet.Path {
	paths := make([]snet.Path, len(ps))
	for j, t := range ps {
		paths[j] = spath.Path{
			Src: localIA, Dst: remoteIA, DataplanePath: spath.Empty{},
			NextHop: net.UDPAddrFromAddrPort(socks[j].LocalAddr().(*net.UDPAddr).AddrPort()),
			Meta:    fpMeta(t),
		}
	}
	return paths
}

// ---------------------------------------------------------------- rounds on one Pather

// The Pather of the current history (pa.set): its path table is filled through the verif hook
// (what update() stores after a daemon lookup); every pa.round asks the real Pather.Paths for
// the paths to offer, exactly as ntpReferenceClockSCION.MeasureClockOffset does.
var (
	pather     *scion.Pather
	patherToks []string
)

// sockIndex identifies an offered path by the socket behind it (= its position in pa.set's list)
func sockIndex(p snet.Path) int64 {
	nh := p.UnderlayNextHop()
	for j := range socks {
		if nh != nil && nh.Port == socks[j].LocalAddr().(*net.UDPAddr).Port {
			return int64(j)
		}
	}
	return -1
}

func pathIndices(ps []snet.Path) string {
	ix := make([]int64, len(ps))
	for i, p := range ps {
		ix[i] = sockIndex(p)
	}
	return lib.IntList(ix)
}

func execPatherSet(toks []string) string {
	if len(toks) != 2 {
		return "bad-op"
	}
	ps := list(kv(toks, "ps"))
	if len(ps) > maxPaths {
		return "bad-op"
	}
	if err := world(); err != nil {
		panic("world: " + err.Error())
	}
	patherToks = ps
	persistReset(true)
	pather = scion.VerifC15NewPather(discard, localIA, map[addr.IA][]snet.Path{remoteIA: mkPaths(ps)})
	return fmt.Sprintf("ok n=%d", len(ps))
}

func execPatherRoundOnce(toks []string, deadline time.Duration) (string, bool) {
	if len(toks) != 4 {
		return "bad-op", false
	}
	cs, succ := list(kv(toks, "cs")), list(kv(toks, "succ"))
	data := unhex(kv(toks, "s"))
	if len(succ) != len(cs) || len(cs) > 62 {
		return "bad-op", false
	}
	if pather == nil {
		return "err nopather", false
	}
	offered := pather.Paths(remoteIA) // the real method: what a round is offered
	off := pathIndices(offered)
	res, timedOut := runRound(cs, succ, data, offered, deadline)
	if timedOut || res == "bad-op" {
		return res, timedOut
	}
	// what the Pather holds now = what the next round (of this or another reference clock) is offered
	return res + " offered=" + off + " held=" + pathIndices(scion.VerifC15Held(pather, remoteIA)), false
}

// runRound: one real MeasureClockOffsetSCION call over the given offered paths.
func runRound(cs, succ []string, data []byte, paths []snet.Path, deadline time.Duration) (string, bool) {
	ps := paths
	nReused := 0
	clients := make([]*client.SCIONClient, len(cs))
	filters := make([]*fakeFilter, len(cs))
	sm := map[int]string{}
	for i, t := range cs {
		if len(t) < 4 {
			return "bad-op", false
		}
		for _, ch := range t[:3] {
			if ch != '0' && ch != '1' {
				return "bad-op", false
			}
		}
		c := &client.SCIONClient{Log: discard, DSCP: uint8(i + 1), InterleavedMode: t[0] == '1'}
		reused := false
		if pc := persist.clients[i]; persist.on && pc != nil {
			ref, fp, _ := client.VerifC15Prev(pc)
			if pc.InterleavedMode == (t[0] == '1') && (ref != "") == (t[1] == '1') && fp == fpString(t[3:]) {
				c, reused = pc, true
				nReused++
				client.VerifC15SetPrev(c, ref, fp, t[2] == '1')
			}
		}
		f := &fakeFilter{}
		// succ[i]: "x" every attempt is refused; "<off>" every attempt is answered; "<off>:<pattern>"
		// attempt k is answered iff pattern[k] == '1' (last character repeats)
		val, pat, _ := strings.Cut(succ[i], ":")
		switch {
		case val == "x":
			sm[i] = "0"
		case pat == "":
			sm[i] = "1"
		default:
			for _, ch := range pat {
				if ch != '0' && ch != '1' {
					return "bad-op", false
				}
			}
			sm[i] = pat
		}
		if val != "x" {
			f.off = time.Duration(i64(val))
		}
		c.Filter = f
		ref := ""
		if t[1] == '1' {
			ref = "verif-previous-reference"
		}
		if !reused {
			client.VerifC15SetPrev(c, ref, fpString(t[3:]), t[2] == '1')
		}
		clients[i], filters[i] = c, f
	}
	mu.Lock()
	cur.succ, cur.log = sm, nil
	mu.Unlock()
	lastStale, lastReused = nil, nReused

	laddr := udp.UDPAddr{IA: localIA, Host: &net.UDPAddr{IP: net.ParseIP(localIP).To4()}}
	raddr := udp.UDPAddr{IA: remoteIA, Host: &net.UDPAddr{IP: net.ParseIP(remoteIP).To4(), Port: 10123}}
	ctx, cancel := context.WithTimeout(context.Background(), deadline)
	defer cancel()

	var (
		off time.Duration
		err error
		sc  *script
	)
	withScript(data, func(s *script) string {
		sc = s
		_, off, err = client.MeasureClockOffsetSCION(ctx, discard, clients, laddr, raddr, paths)
		return ""
	})
	late := ctx.Err() != nil

	mu.Lock()
	log := append([]probe(nil), cur.log...)
	mu.Unlock()
	assign := make([]string, len(cs))
	probes := make([]int64, len(cs))
	for i := range assign {
		assign[i] = "-"
	}
	if persist.on {
		// the objects live on, unless abandoned per-path goroutines may still be writing to them
		persist.clients = map[int]*client.SCIONClient{}
		if !late {
			for i, c := range clients {
				persist.clients[i] = c
			}
		}
	}
	for _, p := range log {
		if p.client < 0 || p.client >= len(cs) {
			return "err unknown-client", false
		}
		if probes[p.client] == 0 && p.il && filters[p.client].resets > 0 {
			lastStale = append(lastStale, p.client)
		}
		probes[p.client]++
		s := strconv.Itoa(p.path)
		if assign[p.client] != "-" && assign[p.client] != s {
			s = "multi"
		}
		assign[p.client] = s
	}
	resets := make([]int64, len(cs))
	for i, f := range filters {
		resets[i] = int64(f.resets)
		// ResetInterleavedMode and Filter.Reset go together. (Not looked at when the round ran into
		// its deadline: abandoned per-path goroutines may still be finishing their exchange and
		// writing the client's prev state — nothing orders those writes before this read.)
		if late {
			continue
		}
		if ref, _, _ := client.VerifC15Prev(clients[i]); f.resets > 0 && ref != "" && probes[i] == 0 {
			return "err reset-without-interleaved-reset", false
		}
	}
	if late {
		// did every participant get all its answers? (participants = clients that sent requests;
		// there must be min(clients, paths) of them, each with 3 resp. 1 answered exchanges)
		want := min(len(cs), len(ps))
		got := 0
		complete := true
		for i := range cs {
			if probes[i] == 0 {
				continue
			}
			got++
			exp := int64(1)
			if clients[i].InterleavedMode {
				exp = 3
			}
			if probes[i] != exp {
				complete = false
			}
		}
		if got != want || !complete {
			return "", true
		}
	}
	used := sc.pos
	var head string
	switch {
	case sc.exhausted:
		head = "err sample:exhausted"
		used = 0
		for i := range assign {
			assign[i], probes[i] = "-", 0
		}
	case err == nil:
		head = fmt.Sprintf("ok off=%d", int64(off))
	case err.Error() == "failed to measure clock offset: no path":
		head = "err nopath"
	case err.Error() == "failed to measure clock offset: no successful measurement":
		head = "err nomeas"
	default:
		head = "err other:" + strings.ReplaceAll(err.Error(), " ", "_")
		used = 0
	}
	lateFlag := 0
	if late {
		lateFlag = 1
	}
	return fmt.Sprintf("%s assign=[%s] reset=%s probes=%s used=%d late=%d", head, strings.Join(assign, ","),
		lib.IntList(resets), lib.IntList(probes), used, lateFlag), false
}

func exec(t []string) string {
	switch {
	case t[0] == "rand.intn" && len(t) == 4:
		return withScript(unhex(t[3]), func(sc *script) string {
			v, err := crypto.RandIntn(ctxFor(t[2]), int(i64(t[1])))
			if err != nil || sc.exhausted {
				return "err " + errClass(sc, err)
			}
			return fmt.Sprintf("ok %d %d", v, sc.pos)
		})
	case t[0] == "rand.sample" && len(t) == 5:
		return withScript(unhex(t[4]), func(sc *script) string {
			var picks []string
			k, err := crypto.Sample(ctxFor(t[3]), int(i64(t[1])), int(i64(t[2])), func(dst, src int) {
				picks = append(picks, fmt.Sprintf("%d:%d", dst, src))
			})
			if err != nil || sc.exhausted {
				return "err " + errClass(sc, err)
			}
			return fmt.Sprintf("ok %d [%s] %d", k, strings.Join(picks, ","), sc.pos)
		})
	case t[0] == "mp.round", t[0] == "pa.round", t[0] == "pd.round":
		return execRound(t)
	case t[0] == "pd.start", t[0] == "pd.refresh":
		return execPatherDaemon(t)
	case t[0] == "pa.set":
		return execPatherSet(t)
	}
	return "bad-op"
}

// ---------------------------------------------------------------- generators + direct oracle

func le32(x uint32) []byte { return []byte{byte(x), byte(x >> 8), byte(x >> 16), byte(x >> 24)} }
func le64(x uint64) []byte {
	return append(le32(uint32(x)), le32(uint32(x>>32))...)
}

func genIntn(c *lib.Ctx) {
	r := c.Rand
	ns := []int64{1, 2, 3, 5, 6, 7, 10, 12, 100, 65537, 1 << 30, math.MaxInt32 - 1, math.MaxInt32,
		math.MaxInt32 + 1, math.MaxInt32 + 2, 1<<40 + 3, 1 << 62, 1<<62 + 1, math.MaxInt64 - 1, math.MaxInt64}
	one := func(n int64, cancelled int, stream []byte) {
		ans := c.Dof("rand.intn %d %d %s", n, cancelled, lib.Hex(stream))
		if v, ok := lib.Ints(ans); ok {
			c.Count("intn:ok")
			if v[0] < 0 || v[0] >= n {
				c.Fail("C15:intn:range", "RandIntn(n) outside [0,n)", []string{fmt.Sprintf("rand.intn %d %d %s", n, cancelled, lib.Hex(stream))},
					map[string]any{"n": n, "v": v[0]})
			}
		} else {
			c.Count("intn:" + strings.Fields(ans)[0] + ":" + strings.SplitN(strings.Fields(ans)[1], ":", 2)[0])
		}
	}
	c.Comment("rand.intn boundary stream")
	for _, n := range append([]int64{0, -1, math.MinInt64}, ns...) {
		for _, cancelled := range []int{0, 1} {
			if n <= 0 {
				one(n, cancelled, r.Bytes(8))
				continue
			}
			if n <= math.MaxInt32 {
				t := uint32((uint64(1) << 32) % uint64(n))
				for _, x := range []uint32{t - 1, t, t + 1, 0, math.MaxUint32, uint32(n), uint32(n) - 1} {
					// at the threshold, below, above; a rejected word followed by an accepted one
					one(n, cancelled, le32(x))
					one(n, cancelled, append(le32(x), le32(uint32(r.U64()))...))
					one(n, cancelled, append(append(le32(t), le32(0)...), le32(x)...))
				}
			} else {
				t := (math.MaxUint64 - uint64(n) + 1) % uint64(n)
				for _, x := range []uint64{t - 1, t, t + 1, 0, math.MaxUint64, uint64(n), uint64(n) - 1} {
					one(n, cancelled, le64(x))
					one(n, cancelled, append(le64(x), le64(r.U64())...))
					one(n, cancelled, append(append(le64(t), le64(0)...), le64(x)...))
				}
			}
			for l := 0; l <= 9; l++ { // short streams
				one(n, cancelled, r.Bytes(l))
			}
		}
	}
	c.Comment("rand.intn random stream")
	for i := 0; i < c.Scale(20000, 1000000); i++ {
		var n int64
		switch r.Intn(4) {
		case 0:
			n = r.Pick64(ns)
		case 1:
			n = r.Range(1, 40)
		case 2:
			n = r.Range(1, math.MaxInt32)
		default:
			n = r.Range(1, math.MaxInt64)
		}
		words := r.Intn(4) + 1
		var s []byte
		for w := 0; w < words; w++ {
			if r.Chance(30) { // small words are the ones that get rejected
				s = append(s, le64(uint64(r.Range(0, 2*minI64(n, 1<<20))))[:4+4*r.Intn(2)]...)
			} else {
				s = append(s, r.Bytes(8)...)
			}
		}
		cancelled := 0
		if r.Chance(15) {
			cancelled = 1
		}
		one(n, cancelled, s)
	}
}

func minI64(a, b int64) int64 {
	if a < b {
		return a
	}
	return b
}

func parsePicks(s string) [][2]int {
	var out [][2]int
	for _, p := range list(s) {
		ds := strings.Split(p, ":")
		d, _ := strconv.Atoi(ds[0])
		sr, _ := strconv.Atoi(ds[1])
		out = append(out, [2]int{d, sr})
	}
	return out
}

func genSample(c *lib.Ctx) {
	r := c.Rand
	one := func(k, n int64, cancelled int, stream []byte) {
		op := fmt.Sprintf("rand.sample %d %d %d %s", k, n, cancelled, lib.Hex(stream))
		ans := c.Do(op)
		f := strings.Fields(ans)
		if f[0] != "ok" {
			c.Count("sample:" + f[0])
			return
		}
		c.Count("sample:ok")
		kk, _ := strconv.Atoi(f[1])
		want := int(minI64(k, n))
		// direct oracle: the picked items are k' = min(k, n) distinct items of 0..n-1
		arr := make([]int, n)
		for i := range arr {
			arr[i] = i
		}
		bad := kk != want
		for _, p := range parsePicks(f[2]) {
			if p[0] < 0 || p[0] >= kk || p[1] < 0 || p[1] >= int(n) {
				bad = true
				break
			}
			arr[p[0]] = arr[p[1]]
		}
		seen := map[int]bool{}
		for i := 0; i < kk && !bad; i++ {
			if seen[arr[i]] {
				bad = true
			}
			seen[arr[i]] = true
		}
		if bad {
			c.Fail("C15:sample:distinct", "Sample(k, n) did not pick min(k,n) distinct items", []string{op}, map[string]any{"answer": ans})
		}
	}
	c.Comment("rand.sample boundary stream")
	for k := int64(-1); k <= 6; k++ {
		for n := int64(-1); n <= 8; n++ {
			for rep := 0; rep < 3; rep++ {
				var s []byte
				for i := int64(0); i < n+2; i++ {
					switch {
					case rep == 1 && i%2 == 0: // rejected words (x <= t) in between
						s = append(s, le32(uint32(r.Intn(2)))...)
					case rep == 2: // j exactly at k-1, k
						s = append(s, le32(uint32(r.Range(maxI64(k-1, 0), k+1)))...)
					default:
						s = append(s, r.Bytes(4)...)
					}
				}
				one(k, n, 0, s)
			}
			one(k, n, 1, r.Bytes(int(4*(n+2))))
			one(k, n, 0, r.Bytes(r.Intn(6)))
		}
	}
	c.Comment("rand.sample random stream")
	for i := 0; i < c.Scale(20000, 500000); i++ {
		k, n := r.Range(0, 8), r.Range(0, 14)
		words := int(n) + r.Intn(4)
		var s []byte
		for w := 0; w < words; w++ {
			if r.Chance(20) {
				s = append(s, le32(uint32(r.Intn(16)))...)
			} else {
				s = append(s, r.Bytes(4)...)
			}
		}
		cancelled := 0
		if r.Chance(10) {
			cancelled = 1
		}
		one(k, n, cancelled, s)
	}
}

// genUniform is the counting form of "drawn uniformly" on the real code: for small (k, n) it
// runs crypto.Sample on every vector of n-k random words taken from [L, 2L), L = lcm(2..n).
// Such words pass every rejection test (L > 2^32 mod b for every bound b <= n) and are
// equidistributed modulo every bound, so they enumerate ideal uniform draws exactly; every
// k-subset of [0, n) must then come out equally often (C15_reservoir_uniform: L^(n-k) / C(n,k)
// times each).
func genUniform(c *lib.Ctx) {
	c.Comment("rand.sample exhaustive uniformity")
	for _, kn := range [][2]int{{1, 2}, {1, 3}, {2, 3}, {1, 4}, {2, 4}, {3, 4}, {2, 5}, {4, 5}, {3, 5}} {
		k, n := kn[0], kn[1]
		L := 1
		for b := 2; b <= n; b++ {
			g, x, y := 0, L, b
			for y != 0 {
				x, y = y, x%y
			}
			g = x
			L = L / g * b
		}
		m := n - k
		total := 1
		for i := 0; i < m; i++ {
			total *= L
		}
		if total > 4000 {
			continue
		}
		tally := map[string]int{}
		var ops []string
		bad := ""
		for v := 0; v < total; v++ {
			var s []byte
			x := v
			for i := 0; i < m; i++ {
				s = append(s, le32(uint32(L+x%L))...)
				x /= L
			}
			s = append(s, le32(uint32(L))...) // spare accepted words
			s = append(s, le32(uint32(L+1))...)
			op := fmt.Sprintf("rand.sample %d %d 0 %s", k, n, lib.Hex(s))
			ans := c.Do(op)
			if len(ops) < 150 {
				ops = append(ops, op)
			}
			f := strings.Fields(ans)
			if f[0] != "ok" || len(f) < 3 {
				bad = "a run did not succeed: " + ans
				break
			}
			arr := make([]int, n)
			for i := range arr {
				arr[i] = i
			}
			okp := true
			for _, p := range parsePicks(f[2]) {
				if p[0] < 0 || p[0] >= n || p[1] < 0 || p[1] >= n {
					okp = false
					break
				}
				arr[p[0]] = arr[p[1]]
			}
			if !okp {
				bad = "pick out of range: " + ans
				break
			}
			sel := append([]int(nil), arr[:k]...)
			sort.Ints(sel)
			tally[fmt.Sprint(sel)]++
		}
		c.Count("uniform:k-n-pairs")
		subsets := 1 // C(n, k)
		for i := 0; i < k; i++ {
			subsets = subsets * (n - i) / (i + 1)
		}
		if bad == "" {
			if len(tally) != subsets {
				bad = fmt.Sprintf("%d of the %d %d-subsets of [0,%d) are ever selected", len(tally), subsets, k, n)
			}
			for _, cnt := range tally {
				if cnt*subsets != total && bad == "" {
					bad = "the subsets are not selected equally often"
				}
			}
		}
		if bad != "" {
			c.Fail("C15:sample:uniform", "over all ideal uniform draw vectors Sample(k, n) does not select every k-subset equally often",
				ops, map[string]any{"k": k, "n": n, "draw_vectors": total, "subsets": subsets, "tally": tally, "why": bad})
		}
	}
}

func maxI64(a, b int64) int64 {
	if a > b {
		return a
	}
	return b
}

type clientSpec struct {
	mode, ref, il bool
	fp            string
}

func (s clientSpec) tok() string {
	b := func(x bool) string {
		if x {
			return "1"
		}
		return "0"
	}
	return b(s.mode) + b(s.ref) + b(s.il) + s.fp
}

func (s clientSpec) interleaved() bool { return s.mode && s.ref && s.il }

// round runs one mp.round op and evaluates the property predicate on the answer.
func round(c *lib.Ctx, cs []clientSpec, ps []string, stream []byte, succ []string) {
	ct := make([]string, len(cs))
	for i, s := range cs {
		ct[i] = s.tok()
	}
	op := fmt.Sprintf("mp.round cs=[%s] ps=[%s] s=%s succ=[%s]", strings.Join(ct, ","), strings.Join(ps, ","),
		lib.Hex(stream), strings.Join(succ, ","))
	judge(c, []string{op}, c.Do(op), cs, ps, succ)
}

// anyAnswered: does a participant with this outcome token get at least one answered exchange?
// (clients in InterleavedMode make three attempts per round, the others one)
func anyAnswered(tok string, interleavedMode bool) bool {
	val, pat, _ := strings.Cut(tok, ":")
	if val == "x" {
		return false
	}
	if pat == "" {
		return true
	}
	n := 1
	if interleavedMode {
		n = 3
	}
	for k := 0; k < n; k++ {
		if pat[min(k, len(pat)-1)] == '1' {
			return true
		}
	}
	return false
}

// judge evaluates the property predicate on the answer of one round (`ops` = the replay: the
// round's op, preceded by the ops of its history for rounds on one Pather; `ps` = the
// fingerprints the path source offers). It returns the client -> offered-position assignment.
func judge(c *lib.Ctx, ops []string, ans string, cs []clientSpec, ps []string, succ []string) []string {
	f := strings.Fields(ans)
	fail := func(sig, what string) {
		c.Fail(sig, what, ops, map[string]any{"answer": ans})
	}
	c.Counters["round:client-objects-reused"] += lastReused
	if len(lastStale) > 0 {
		c.Fail("C15:round:reset-client-sent-interleaved", "a client that was reset in this round (its filter was) opened the round with an interleaved-mode request: it carries the timestamps of its exchange from before the reset, over the path it no longer has",
			ops, map[string]any{"answer": ans, "clients": fmt.Sprint(lastStale)})
	}
	if f[0] == "panic" || len(f) < 6 || strings.HasPrefix(f[1], "other") || strings.HasPrefix(f[1], "sample") {
		c.Count("round:" + f[0] + ":" + f[1])
		if f[0] == "panic" {
			fail("C15:round:panic", "MeasureClockOffsetSCION panicked")
		}
		return nil
	}
	assign, reset, probes := list(kv(f, "assign")), list(kv(f, "reset")), list(kv(f, "probes"))
	if kv(f, "late") != "0" {
		c.Count("round:late")
		lateRounds++
		fail("C15:round:late", fmt.Sprintf("the round did not finish by itself although every participant's exchanges were answered: it returned only when its context expired (%v, confirmed with %v)", roundDeadline, roundConfirm))
	}
	// participants = min(clients, paths), on pairwise distinct offered positions
	npart := 0
	seen := map[string]bool{}
	for i, a := range assign {
		if a == "-" {
			if probes[i] != "0" {
				fail("C15:round:probes", "a client without a path sent requests")
			}
			continue
		}
		npart++
		j, err := strconv.Atoi(a)
		if err != nil || j < 0 || j >= len(ps) {
			fail("C15:round:assign", "client probed several paths or a path that was not offered")
			return nil
		}
		if seen[a] {
			fail("C15:round:distinct", "two clients probed the same path in one round")
		}
		seen[a] = true
	}
	want := len(cs)
	if len(ps) < want {
		want = len(ps)
	}
	if f[1] == "nopath" {
		c.Count("round:err:nopath")
		if want != 0 {
			fail("C15:round:nopath", "errNoPath although clients and paths were available")
		}
	} else if want == 0 {
		fail("C15:round:nopath-missing", "no error although no path (or no client) was available")
	} else if npart != want {
		fail("C15:round:participants", fmt.Sprintf("participants %d, expected min(clients, paths) = %d", npart, want))
	}
	// sticky: an interleaved client keeps (a path with) its previous fingerprint while one is
	// still offered and not taken by an earlier client; otherwise it is reset with its filter
	taken := map[string]int{}
	offered := map[string]int{}
	for _, p := range ps {
		offered[p]++
	}
	for i, s := range cs {
		keep := s.interleaved() && offered[s.fp]-taken[s.fp] > 0
		if keep {
			taken[s.fp]++
			c.Count("sticky:kept")
			if s.fp == "-" {
				c.Count("sticky:kept-empty-fingerprint")
			}
			if reset[i] != "0" || assign[i] == "-" || (assign[i] != "-" && ps[atoi(assign[i])] != s.fp) {
				sig := "C15:sticky:lost"
				if s.fp == "-" {
					sig = "C15:sticky:empty-fingerprint"
				}
				fail(sig, "an interleaved client whose previous path is still offered was reset or moved to another path")
			}
		} else {
			if s.interleaved() {
				c.Count("sticky:withdrawn-or-taken")
			} else {
				c.Count("sticky:not-interleaved")
			}
			if reset[i] != "1" {
				fail("C15:sticky:not-reset", "a client that does not keep its path was not reset exactly once (with its filter)")
			}
		}
	}
	// result = FTM over one value per participant; an error when nothing succeeded
	var ms []measurements.Measurement
	nsucc := 0
	for i, a := range assign {
		if a == "-" {
			continue
		}
		m := measurements.Measurement{}
		if anyAnswered(succ[i], cs[i].mode) {
			v, _, _ := strings.Cut(succ[i], ":")
			m.Offset = time.Duration(i64(v))
			nsucc++
		}
		ms = append(ms, m)
		wantProbes := "1"
		if cs[i].mode {
			wantProbes = "3"
		}
		if probes[i] != wantProbes {
			fail("C15:round:probes", "unexpected number of exchanges for a participant")
		}
	}
	switch {
	case f[1] == "nopath":
	case nsucc == 0:
		c.Count("round:all-failed")
		if f[0] != "err" {
			fail("C15:round:success-without-measurement", "no per-path measurement succeeded but the round reports success (F12)")
		}
	default:
		c.Count("round:ok")
		if f[0] != "ok" {
			fail("C15:round:error-with-measurement", "a per-path measurement succeeded but the round reports an error")
		} else if o := measurements.FaultTolerantMidpoint(ms).Offset; f[1] != fmt.Sprintf("off=%d", int64(o)) {
			fail("C15:round:ftm", fmt.Sprintf("offset is not the fault-tolerant midpoint over one value per participant (%d)", int64(o)))
		}
	}
	return assign
}

// genPatherRounds: histories of consecutive rounds of ONE set of clients on ONE Pather (as a
// SCION reference clock runs them between two daemon refreshes). The clients' state of the
// previous exchange evolves as the rounds go: a client whose exchange over path j succeeded
// remembers j's fingerprint (interleaved mode), a failed one starts over. Oracles, per round:
// everything judge() checks with "offered" = the Pather's table (distinct paths, participants,
// an interleaved client keeps its path while the Pather still offers it, FTM), plus: what the
// round was offered is the Pather's table, and the table is unchanged by the round.
func genPatherRounds(c *lib.Ctx) {
	r := c.Rand
	words := func(n int) []byte {
		var s []byte
		for i := 0; i < n; i++ {
			s = append(s, r.Bytes(4)...)
		}
		return s
	}
	history := func(ps []string, cs []clientSpec, rounds int, failPct int) {
		c.Comment("history pather")
		setOp := fmt.Sprintf("pa.set ps=[%s]", strings.Join(ps, ","))
		ops := []string{setOp}
		if ans := c.Do(setOp); ans != fmt.Sprintf("ok n=%d", len(ps)) {
			c.Fail("C15:pather:set", "the Pather could not be set up", ops, map[string]any{"answer": ans})
			return
		}
		ident := make([]int64, len(ps))
		for j := range ident {
			ident[j] = int64(j)
		}
		for k := 0; k < rounds; k++ {
			if lateRounds >= 8 {
				return
			}
			succ := make([]string, len(cs))
			for i := range succ {
				if r.Chance(failPct) {
					succ[i] = "x"
				} else {
					succ[i] = strconv.FormatInt(r.Range(-1000000, 1000000), 10)
				}
			}
			ct := make([]string, len(cs))
			for i, s := range cs {
				ct[i] = s.tok()
			}
			op := fmt.Sprintf("pa.round cs=[%s] s=%s succ=[%s]", strings.Join(ct, ","), lib.Hex(words(len(ps)+4)), strings.Join(succ, ","))
			ops = append(ops, op)
			replay := append([]string(nil), ops...)
			ans := c.Do(op)
			c.Count("pather:round")
			if k > 0 {
				c.Count("pather:round-after-first")
			}
			f := strings.Fields(ans)
			if f[0] != "panic" && len(f) >= 6 {
				off, held := "", ""
				for _, t := range f {
					if strings.HasPrefix(t, "offered=") {
						off = t[8:]
					}
					if strings.HasPrefix(t, "held=") {
						held = t[5:]
					}
				}
				if off != lib.IntList(ident) {
					c.Fail("C15:pather:offered-differs", "the paths offered to a round are not the Pather's path table (paths lost / duplicated / reordered by earlier rounds)",
						replay, map[string]any{"answer": ans, "table": lib.IntList(ident), "offered": off})
				}
				if held != lib.IntList(ident) {
					c.Fail("C15:pather:table-altered", "a measurement round altered the Pather's path table (the round consumes its path list in place; Paths must hand out a copy)",
						replay, map[string]any{"answer": ans, "table": lib.IntList(ident), "held_after": held})
				}
			}
			assign := judge(c, replay, ans, cs, ps, succ)
			if assign == nil {
				return
			}
			// the clients' state after this round
			for i := range cs {
				if i >= len(assign) || assign[i] == "-" {
					continue
				}
				j := atoi(assign[i])
				switch {
				case !cs[i].mode:
				case succ[i] == "x" || j < 0 || j >= len(ps):
					cs[i] = clientSpec{mode: true, fp: "-"}
				default:
					cs[i] = clientSpec{true, true, true, ps[j]}
					c.Count("pather:client-now-interleaved")
				}
			}
		}
	}
	fresh := func(n int, basicPct int) []clientSpec {
		cs := make([]clientSpec, n)
		for i := range cs {
			cs[i] = clientSpec{mode: !r.Chance(basicPct), fp: "-"}
		}
		return cs
	}
	fps := func(n int) []string {
		ps := make([]string, n)
		for j := range ps {
			ps[j] = fmt.Sprintf("f%d", j)
		}
		return ps
	}
	c.Comment("pa.round corpus: a reference clock's seven clients on one Pather")
	history(fps(7), fresh(7, 0), 4, 0)  // as many paths as clients: every client keeps its path from round 2 on
	history(fps(10), fresh(7, 0), 4, 0) // more paths than clients: the fill draws from the rest
	history(fps(3), fresh(7, 0), 4, 0)  // fewer paths than clients
	history(fps(2), fresh(2, 0), 3, 0)
	history(fps(5), fresh(3, 0), 4, 30)
	history([]string{"-"}, fresh(7, 0), 3, 0) // the AS-local path
	history(nil, fresh(7, 0), 2, 0)
	c.Comment("pa.round random histories")
	for i := 0; i < c.Scale(120, 4000); i++ {
		if lateRounds >= 8 {
			c.Count("round:skipped-after-late-rounds")
			break
		}
		np, nc := 1+r.Intn(10), 1+r.Intn(7)
		switch r.Intn(5) {
		case 0:
			nc = 7
		case 1:
			np = nc
		case 2:
			np = nc + 1 + r.Intn(3)
		}
		ps := fps(np)
		if r.Chance(15) && np > 1 { // a duplicate or an empty fingerprint among the offered paths
			ps[r.Intn(np)] = []string{"-", ps[0]}[r.Intn(2)]
		}
		history(ps, fresh(nc, 15), 2+r.Intn(4), []int{0, 0, 10, 40}[r.Intn(4)])
	}
}

// lateRounds counts rounds that ran into the deadline (see roundDeadline); after a few of them
// the random stream is cut short so that the check stays fast.
var lateRounds int

func atoi(s string) int { v, _ := strconv.Atoi(s); return v }

func genRounds(c *lib.Ctx) {
	r := c.Rand
	words := func(n int) []byte {
		var s []byte
		for i := 0; i < n; i++ {
			s = append(s, r.Bytes(4)...)
		}
		return s
	}
	c.Comment("mp.round corpus")
	il := func(fp string) clientSpec { return clientSpec{true, true, true, fp} }
	fresh := clientSpec{true, false, false, "-"}
	basic := clientSpec{false, false, false, "-"}
	// F12: every per-path exchange fails
	round(c, []clientSpec{fresh}, []string{"f0"}, words(4), []string{"x"})
	round(c, []clientSpec{fresh, basic, il("f1")}, []string{"f0", "f1", "f2"}, words(6), []string{"x", "x", "x"})
	// F11: the intra-AS path has the empty fingerprint
	round(c, []clientSpec{il("-")}, []string{"-"}, words(4), []string{"7"})
	round(c, []clientSpec{il("-"), fresh, fresh}, []string{"-"}, words(4), []string{"7", "1", "2"})
	// no paths / no clients
	round(c, []clientSpec{fresh, il("f0")}, nil, words(2), []string{"1", "2"})
	round(c, nil, []string{"f0", "f1"}, words(4), nil)
	round(c, nil, nil, nil, nil)
	// duplicates: two clients remember the same fingerprint, one / two paths carry it
	round(c, []clientSpec{il("f0"), il("f0")}, []string{"f1", "f0", "f2"}, words(6), []string{"10", "20"})
	round(c, []clientSpec{il("f0"), il("f0"), fresh}, []string{"f0", "f1", "f0", "f2"}, words(8), []string{"10", "20", "-30"})
	// rejected draws in the fill (words 0 and 1 are <= 2^32 mod n for n = 3)
	round(c, []clientSpec{fresh}, []string{"f0", "f1", "f2"}, append(append(words(1), le32(0)...), append(le32(1), words(3)...)...), []string{"5"})

	c.Comment("mp.round random stream")
	alphabet := []string{"f0", "f1", "f2", "f3", "f4", "f5", "f6", "f7", "-"}
	for i := 0; i < c.Scale(3000, 100000); i++ {
		if lateRounds >= 8 {
			c.Count("round:skipped-after-late-rounds")
			c.Comment("random stream cut short: rounds do not finish by themselves")
			break
		}
		nc, np := r.Intn(7), r.Intn(11)
		switch r.Intn(8) {
		case 0:
			np = 0
		case 1:
			nc = 0
		case 2:
			np = nc
		case 3:
			np = nc + 1
		}
		ps := make([]string, np)
		for j := range ps {
			if r.Chance(70) { // mostly distinct fingerprints, some duplicates, some empty
				ps[j] = fmt.Sprintf("f%d", j)
			} else {
				ps[j] = alphabet[r.Intn(len(alphabet))]
			}
		}
		cs := make([]clientSpec, nc)
		succ := make([]string, nc)
		mode := r.Intn(4) // 0: mixed, 1: all succeed, 2: all fail, 3: mixed
		for k := range cs {
			s := clientSpec{mode: r.Chance(80), ref: r.Chance(85), il: r.Chance(85)}
			switch {
			case np > 0 && r.Chance(60):
				s.fp = ps[r.Intn(np)] // still offered (possibly the same as another client's)
			case r.Chance(50):
				s.fp = fmt.Sprintf("g%d", r.Intn(4)) // withdrawn
			default:
				s.fp = alphabet[r.Intn(len(alphabet))]
			}
			cs[k] = s
			switch {
			case mode == 2, mode != 1 && r.Chance(35):
				succ[k] = "x"
			case r.Chance(10):
				succ[k] = strconv.FormatInt(r.Pick64([]int64{0, 1, -1, 1 << 40, -(1 << 40)}), 10)
			default:
				succ[k] = strconv.FormatInt(r.Range(-1000000000, 1000000000), 10)
			}
			if succ[k] != "x" && r.Chance(35) { // some attempts of this participant are refused
				succ[k] += ":" + []string{"10", "100", "01", "011", "010", "101", "001", "110", "000", "0"}[r.Intn(10)]
			}
		}
		var s []byte
		for w := 0; w < np+2; w++ {
			if r.Chance(12) { // words that are rejected for small n, with spare ones behind
				s = append(s, le32(uint32(r.Intn(3)))...)
				s = append(s, r.Bytes(4)...)
			} else {
				s = append(s, r.Bytes(4)...)
			}
		}
		s = append(s, words(3)...)
		round(c, cs, ps, s, succ)
	}
}

func gen(c *lib.Ctx) {
	genIntn(c)
	genSample(c)
	genUniform(c)
	if err := world(); err != nil {
		// retry once in isolation before giving up on the socket-level part
		c.NotExecuted("mp.round: cannot open loopback sockets on " + pathIP + ": " + err.Error())
		return
	}
	if _, err := net.ListenUDP("udp", net.UDPAddrFromAddrPort(netip.MustParseAddrPort(localIP+":0"))); err != nil {
		c.NotExecuted("mp.round: cannot bind " + localIP + ": " + err.Error())
		return
	}
	genRounds(c)
	genPatherRounds(c)
	genPatherDaemon(c)
}

func main() { lib.Main(exec, gen) }
