package main

// Generators: corpus, random + model-guided histories, capacity regime, concurrency.

import (
	"fmt"
	"os"
	"sync"

	"example.com/scion-time/core/server"
	"example.com/scion-time/net/ntp"

	"verifharness/lib"
)

const (
	T0  = int64(1700000000) * 1000000000 // a second boundary, era 0
	ERA = int64(2085978496) * 1000000000 // 2036-02-07T06:28:16Z, NTP era boundary
)

func z64() ntp.Time64 { return ntp.Time64{} }

func mkReq(org, rx, tx ntp.Time64) ntp.Packet {
	return ntp.Packet{OriginTime: org, ReceiveTime: rx, TransmitTime: tx}
}

var (
	rxA = ntp.Time64{Seconds: 9, Fraction: 9}
	txA = ntp.Time64{Seconds: 8, Fraction: 8}
	s77 = ntp.Time64{Seconds: 7, Fraction: 7}
)

func gen(c *lib.Ctx) {
	part := os.Getenv("C06_PART")
	all := part == ""
	genCorpus(c)
	switch {
	case all:
		genRandom(c, c.Scale(3000, 10000), c.Scale(40, 100))
	case part == "c06":
		genRandom(c, c.Scale(3000, 10000), c.Scale(40, 100))
	default:
		genRandom(c, c.Scale(400, 4000), c.Scale(40, 100))
	}
	if all || part != "c06" {
		genBulkBelowCap(c)
		genPar(c, c.Scale(40, 300))
		genCapacity(c) // quick: boundary stream + a few random ops; thorough: + 150 random ops
		if c.Thorough() {
			genConcurrent(c)
		}
	}
}

// ---------------------------------------------------------------- corpus

func genCorpus(c *lib.Ctx) {
	for _, base := range []int64{T0, ERA - 4, T0 + 999999996} {
		tag := fmt.Sprint(base)

		// F9: clock reading not later than the receive time, then an interleaved request
		// before the tx-timestamp update
		for _, dn := range []int64{0, -1, -1000000000} {
			h := newH(c, "corpus F9 now<=rxt then interleaved base="+tag+fmt.Sprint(" dn=", dn))
			r1 := h.hr(hrIn{1, mkReq(z64(), z64(), s77), base, base + dn})
			h.hr(hrIn{1, mkReq(r1.reply.ReceiveTime, rxA, txA), base + 100, base + 50})
			c.Count("corpus:F9")
			// F9, second half: lost kernel timestamp after now <= rxt must drop the exchange
			h = newH(c, "corpus F9 now<=rxt then lost tx timestamp base="+tag+fmt.Sprint(" dn=", dn))
			r1 = h.hr(hrIn{2, mkReq(z64(), z64(), s77), base, base + dn})
			h.utx(2, r1.rxt, r1.txt)
			r1 = h.hr(hrIn{2, mkReq(z64(), z64(), s77), base + 10, base + 10 + dn})
			r2 := h.hr(hrIn{2, mkReq(z64(), z64(), s77), base + 20, base + 20 + dn})
			h.utx(2, r2.rxt, r2.txt)
			h.hr(hrIn{2, mkReq(t64(r2.rxt), rxA, txA), base + 30, base + 40})
			h.utx(2, r1.rxt, r1.txt)
		}

		// colliding receive timestamps, 9 and more times in a row (up to 8 bumps)
		for _, dn := range []int64{-5, 0, 3, 1000} {
			h := newH(c, "corpus colliding rx base="+tag+fmt.Sprint(" dn=", dn))
			for i := 0; i < 11; i++ {
				h.hr(hrIn{1, mkReq(ntp.Time64{Seconds: 1, Fraction: uint32(i)}, rxA, txA), base, base + dn})
			}
			h.hr(hrIn{2, mkReq(z64(), rxA, txA), base, base + dn})
			c.Count("corpus:colliding-rx")
		}

		// rx == tx request whose origin matches: must be basic; interleaved hit; replaced entry
		{
			h := newH(c, "corpus interleaved hit / rx==tx / replaced base="+tag)
			r1 := h.hr(hrIn{1, mkReq(z64(), z64(), s77), base, base + 20})
			h.utx(1, r1.rxt, r1.txt+700)
			h.hr(hrIn{2, mkReq(r1.reply.ReceiveTime, rxA, txA), base + 1, base + 21})            // other client: no hit
			r2 := h.hr(hrIn{1, mkReq(r1.reply.ReceiveTime, rxA, rxA), base + 1000, base + 1020}) // rx == tx: basic, entry replaced
			h.hr(hrIn{1, mkReq(r1.reply.ReceiveTime, rxA, txA), base + 2000, base + 2020})       // replaced entry: miss
			r4 := h.hr(hrIn{1, mkReq(r2.reply.ReceiveTime, rxA, txA), base + 3000, base + 3020}) // hit (software tx)
			h.utx(1, r4.rxt, r4.txt+555)
			h.hr(hrIn{1, mkReq(r4.reply.ReceiveTime, txA, rxA), base + 4000, base + 4020}) // hit (kernel tx)
			h.hr(hrIn{1, mkReq(r4.reply.ReceiveTime, txA, rxA), base + 5000, base + 5020}) // replaced: miss
			c.Count("corpus:interleaved")
		}

		// item full: 9+ distinct requests, oldest replaced; then lost timestamps
		{
			h := newH(c, "corpus item full / lost tx timestamp base="+tag)
			var rs []lastRes
			for i := 0; i < 12; i++ {
				// receive times not in order, so that "oldest" is not "first"
				off := int64((i*5)%12) * 10
				rs = append(rs, h.hr(hrIn{1, mkReq(z64(), rxA, txA), base + off, base + off + 5}))
			}
			h.hr(hrIn{3, mkReq(z64(), rxA, txA), base + 7, base + 9})
			for _, i := range []int{11, 10, 3, 9, 8, 7, 6, 5, 4, 2, 1, 0} {
				h.utx(1, rs[i].rxt, rs[i].txt) // lost: entry dropped; the last one removes the item
			}
			r := h.hr(hrIn{1, mkReq(z64(), rxA, txA), base + 500, base + 505})
			h.utx(1, r.rxt, r.txt) // len == 1: whole item removed
			h.utx(1, r.rxt, r.txt) // unknown client now
			c.Count("corpus:item-full-lost")
		}

		// utx: txt1 <= rxt, unknown client, unknown rxt
		{
			h := newH(c, "corpus utx edge cases base="+tag)
			r := h.hr(hrIn{1, mkReq(z64(), rxA, txA), base, base + 5})
			h.utx(1, r.rxt, r.rxt)     // bumped to rxt+1
			h.utx(1, r.rxt, r.rxt-100) // bumped to rxt+1 again: equal to stored => dropped
			r = h.hr(hrIn{1, mkReq(z64(), rxA, txA), base + 10, base + 15})
			h.utx(9, r.rxt, r.txt+5)   // unknown client
			h.utx(1, r.rxt+1, r.txt+5) // unknown rxt
			h.utx(1, r.rxt, r.txt+5)
			h.utx(1, r.rxt, r.txt+5) // same again: "lost" => removed
			c.Count("corpus:utx-edges")
		}

		// several clients, heap movement: the least recently active one becomes the most recent
		{
			h := newH(c, "corpus heap movement base="+tag)
			for i := int64(0); i < 7; i++ {
				h.hr(hrIn{uint64(10 + i), mkReq(z64(), rxA, txA), base + i*3, base + i*3 + 1})
			}
			for i := int64(0); i < 7; i++ {
				h.hr(hrIn{uint64(10 + (i*3)%7), mkReq(z64(), rxA, txA), base + 100 + i, base + 200})
			}
			r := h.hr(hrIn{10, mkReq(z64(), rxA, txA), base + 300, base + 301})
			h.utx(10, r.rxt, r.txt) // newest entry dropped: qval falls back
			for i := int64(0); i < 7; i++ {
				h.utx(uint64(10+i), base+i*3, base+i*3+1)
			}
			c.Count("corpus:heap-movement")
		}
	}
	// malformed ops: both sides must say bad-op
	h := newH(c, "corpus malformed ops")
	for _, op := range []string{
		"srv.hr 1 0 0 0 0 7 4294967296 1 1", "srv.hr 1 0 0 0 -1 7 7 1 1", "srv.hr 1 4294967296 0 0 0 7 7 1 1",
		"srv.hr 1 0 0 0 0 7 7 1", "srv.hr x 0 0 0 0 7 7 1 1", "srv.hr -1 0 0 0 0 7 7 1 1", "srv.utx 1 2", "srv.utx a 1 2",
		"srv.utx 1 x 2", "srv.mode tiny", "srv.reset now", "srv.snap", "srv.bulk 1048577 0 0 1 1", "srv.bulk 3 0 x 1 1", "srv.digest 1",
	} {
		if a := h.do(op); a != "bad-op" {
			h.fail("C06:harness-bad-op", "malformed op accepted", map[string]any{"answer": a})
		}
		c.Count("corpus:malformed")
	}
	h.do("srv.hr 1 0 0 0 0 7 7 5 9")
	if a := h.do("srv.bulk 3 10 1000 1 1"); a != "bad-op" { // store not empty
		h.fail("C06:harness-bad-op", "bulk on a non-empty store accepted", map[string]any{"answer": a})
	}
}

// ---------------------------------------------------------------- random, model-guided

type pend struct {
	id        uint64
	rxt, txt0 int64
}

type rgen struct {
	h       *hctx
	r       *lib.Rand
	pool    []uint64
	t       int64 // advancing time
	recent  []int64
	pending []pend
	done    []pend // exchanges already updated/removed (stale updates)
}

func (g *rgen) itemOf(id uint64) *server.VerifC06Item {
	if brief {
		it, ok, _, _, _ := server.VerifC06Peek(key(id))
		if !ok {
			return nil
		}
		return &it
	}
	return findItem(&g.h.prev, key(id))
}

func (g *rgen) pickRxt() int64 {
	r, c := g.r, g.h.c
	k := r.Intn(100)
	switch {
	case k < 35 || len(g.recent) == 0:
		c.Count("rxt:increasing")
		g.t += r.Range(1, 2000)
		return g.t
	case k < 55:
		c.Count("rxt:equal-to-recent")
		return g.recent[r.Intn(len(g.recent))]
	case k < 75:
		c.Count("rxt:recent-plus-minus-few-ns")
		return g.recent[r.Intn(len(g.recent))] + r.Range(-3, 3)
	case k < 90:
		c.Count("rxt:decreasing")
		return g.t - r.Range(1, 5000)
	default:
		c.Count("rxt:next-second")
		g.t = (g.t/1000000000+1)*1000000000 + r.Range(-2, 2)
		return g.t
	}
}

func (g *rgen) pickNow(rxt int64) int64 {
	r, c := g.r, g.h.c
	switch k := r.Intn(100); {
	case k < 55:
		c.Count("now:later")
		return rxt + r.Range(1, 100000)
	case k < 65:
		c.Count("now:one-ns-later")
		return rxt + 1
	case k < 80:
		c.Count("now:equal")
		return rxt
	case k < 95:
		c.Count("now:earlier")
		return rxt - r.Range(1, 10)
	default:
		c.Count("now:much-earlier")
		return rxt - r.Range(1000000000, 5000000000)
	}
}

func (g *rgen) randT64() ntp.Time64 {
	return ntp.Time64{Seconds: uint32(g.r.Intn(4)), Fraction: uint32(g.r.Intn(4))}
}

func (g *rgen) pickOrg(id uint64) ntp.Time64 {
	r, c := g.r, g.h.c
	k := r.Intn(100)
	if k < 50 {
		if it := g.itemOf(id); it != nil && len(it.Pairs) > 0 {
			c.Count("org:own-entry")
			return it.Pairs[r.Intn(len(it.Pairs))].Rx
		}
	}
	if k < 65 {
		o := g.pool[r.Intn(len(g.pool))]
		if it := g.itemOf(o); o != id && it != nil && len(it.Pairs) > 0 {
			c.Count("org:other-clients-entry")
			return it.Pairs[r.Intn(len(it.Pairs))].Rx
		}
	}
	if k < 80 && len(g.h.removed) > 0 {
		c.Count("org:removed-entry")
		n := len(g.h.removed)
		lo := n - 8
		if lo < 0 {
			lo = 0
		}
		return g.h.removed[lo+r.Intn(n-lo)]
	}
	if k < 90 {
		c.Count("org:zero")
		return z64()
	}
	c.Count("org:random")
	return t64(g.t + r.Range(-50, 50))
}

func (g *rgen) doUTX(p pend) {
	r, c := g.r, g.h.c
	switch k := r.Intn(100); {
	case k < 50:
		c.Count("utxgen:kernel-later")
		g.h.utx(p.id, p.rxt, p.txt0+r.Range(1, 5000))
	case k < 70:
		c.Count("utxgen:lost")
		g.h.utx(p.id, p.rxt, p.txt0)
	case k < 82:
		c.Count("utxgen:not-later-than-rxt")
		g.h.utx(p.id, p.rxt, p.rxt-r.Range(0, 3))
	case k < 90:
		c.Count("utxgen:just-later")
		g.h.utx(p.id, p.rxt, p.rxt+r.Range(1, 2))
	default:
		c.Count("utxgen:shifted-rxt")
		g.h.utx(p.id, p.rxt+r.Range(-2, 2), p.txt0+r.Range(0, 10))
	}
	g.done = append(g.done, p)
	if len(g.done) > 12 {
		g.done = g.done[1:]
	}
}

func (g *rgen) step() {
	r, c := g.r, g.h.c
	k := r.Intn(100)
	switch {
	case k < 12 && len(g.pending) > 0: // delayed update (other listeners' requests were handled in between)
		i := r.Intn(len(g.pending))
		p := g.pending[i]
		g.pending = append(g.pending[:i], g.pending[i+1:]...)
		c.Count("utxgen:delayed")
		g.doUTX(p)
	case k < 17 && len(g.done) > 0: // stale update
		c.Count("utxgen:stale")
		g.doUTX(g.done[r.Intn(len(g.done))])
	case k < 19:
		c.Count("utxgen:unknown-client")
		g.h.utx(g.pool[len(g.pool)-1]+1+uint64(r.Intn(3)), g.t, g.t+5)
	default:
		id := g.pool[r.Intn(len(g.pool))]
		rxt := g.pickRxt()
		now := g.pickNow(rxt)
		org := g.pickOrg(id)
		rx, tx := g.randT64(), g.randT64()
		if r.Chance(20) {
			tx = rx
			c.Count("req:rx-eq-tx")
		}
		res := g.h.hr(hrIn{id, mkReq(org, rx, tx), rxt, now})
		g.recent = append(g.recent, res.rxt)
		if len(g.recent) > 5 {
			g.recent = g.recent[1:]
		}
		p := pend{id, res.rxt, res.txt}
		switch q := r.Intn(100); {
		case q < 45:
			g.doUTX(p)
		case q < 75:
			g.pending = append(g.pending, p)
			if len(g.pending) > 6 {
				g.pending = g.pending[1:]
			}
		}
	}
}

func genRandom(c *lib.Ctx, histories, length int) {
	r := c.Rand.Fork("random")
	for i := 0; i < histories; i++ {
		var base int64
		switch k := r.Intn(10); {
		case k < 5:
			base = T0 + r.Range(0, 1000000)*1000
		case k < 7:
			base = ERA - r.Range(0, 3000) // history runs into the era boundary
		case k < 8:
			base = ERA - 1000000000 + r.Range(-3000, 0) // ... into the second before it
		default:
			base = T0 + 1000000000 - r.Range(0, 3000) // ... into a second boundary
		}
		h := newH(c, fmt.Sprintf("random %d base=%d", i, base))
		n := 2 + r.Intn(5)
		g := &rgen{h: h, r: r, t: base}
		idb := uint64(r.Intn(3)) * 7
		for j := 0; j < n; j++ {
			g.pool = append(g.pool, idb+uint64(j))
		}
		if r.Chance(25) {
			g.pool = g.pool[:1+r.Intn(2)] // one or two clients: items fill up
		}
		for j := 0; j < length && h.fails == 0; j++ {
			g.step()
		}
	}
}

// ---------------------------------------------------------------- bulk below capacity (quick and thorough)

func (h *hctx) bulk(op string, n, idbase uint64, base, step, d int64) string {
	a := h.do(fmt.Sprintf("%s %d %d %d %d %d", op, n, idbase, base, step, d))
	h.bulkN, h.bulkBase, h.bulkT0, h.bulkStep, h.bulkD = n, idbase, base, step, d
	return a
}

func genBulkBelowCap(c *lib.Ctx) {
	r := c.Rand.Fork("bulk")
	// the closed form (Props/C07Fill: C07_fill_closed_form) against the real inserts and the
	// model's own replay, also with a clock reading not later than the receive time, with
	// equal receive times (step 0) and across a second boundary
	for _, p := range []struct {
		n       uint64
		step, d int64
	}{{40, 1000, 0}, {40, 3, -5}, {25, 0, 50}, {64, 40000000, 1}, {1, 1000, 50}, {0, 1000, 50}} {
		h := newH(c, fmt.Sprintf("bulk closed form n=%d step=%d d=%d", p.n, p.step, p.d))
		if a := h.bulk("srv.bulkcheck", p.n, 7, T0+999000000, p.step, p.d); a != "ok equal" {
			h.fail("C07:bulk-closed-form", "store after n first requests of n clients in timestamp order is not the closed form (heap = arrival order)", map[string]any{"answer": a})
		}
		h.resync()
		if p.n > 2 { // an interleaved request of a filled client is served its recorded pair
			h.hr(hrIn{8, mkReq(t64(T0+999000000+p.step), rxA, txA), T0 + 4000000000, T0 + 4000000050})
		}
		c.Count("bulk:closed-form-small")
	}
	h := newH(c, "bulk below capacity")
	h.do("srv.mode brief")
	base := T0 + 5000000000
	if a := h.bulk("srv.bulkcheck", 300, 100, base, 1000, 50); a != "ok equal" {
		h.fail("C07:bulk-closed-form", "store after n first requests of n clients in timestamp order is not the closed form (heap = arrival order)", map[string]any{"answer": a})
	}
	h.do("srv.digest")
	h.checkHeapWalk()
	g := &rgen{h: h, r: r, t: base + 300*1000}
	for j := 0; j < 12; j++ {
		g.pool = append(g.pool, 100+uint64(r.Intn(300)))
	}
	g.pool = append(g.pool, 100, 101, 399, 400, 401)
	for j := 0; j < c.Scale(300, 1500) && h.fails == 0; j++ {
		g.step()
		if j%50 == 49 {
			h.checkHeapWalk()
		}
	}
	h.do("srv.digest")
	h.do("srv.mode full")
	h.resync()
	g.step()
	h.do("srv.reset")
}

// ---------------------------------------------------------------- capacity regime (thorough)

func (h *hctx) topInfo() (id uint64, qvalNs int64, ok bool) {
	_, _, _, _, top := server.VerifC06Peek("")
	if top == "" {
		return 0, 0, false
	}
	id, _ = keyID(top)
	it, _, _, _, _ := server.VerifC06Peek(top)
	for rx, tm := range h.logOf(id) {
		if rx == it.Qval {
			return id, tm.rxNs, true
		}
	}
	return id, 0, false
}

// genCapacity: the capacity regime at the real tssCap = 2^20. The store is filled through
// 2^20 real handleRequest calls (srv.bulk; the model takes the closed form proved equal to the
// replay in Props/C07: C07_fill_closed_form), then
//   - a deterministic boundary stream around tssQ[0].qval (rx older / equal / one ns later /
//     much later than the least recently active client's rank, each with the clock reading
//     earlier than, equal to and later than that rank: the guard compares the RECEIVE time),
//     eviction of exactly the least recently active client, stateless service, known clients
//     at capacity, removal of an item followed by insertion without eviction;
//   - random ops around the boundary (quick: a few; thorough: 150).
// The stateless cases come first so that a failure there replays with reset/bulk/op only.
func genCapacity(c *lib.Ctx) {
	r := c.Rand.Fork("capacity")
	h := newH(c, "capacity 2^20")
	h.maxOps = 200
	h.do("srv.mode brief")
	const N = uint64(server.VerifC06TssCap)
	step := []int64{1000, 1000, 250, 7}[r.Intn(4)]
	d := []int64{50, 50, 1, 3000}[r.Intn(4)]
	base := T0 + 7000000000 + r.Range(0, 1000000)*1000
	if a := h.bulk("srv.bulk", N, 0, base, step, d); a != fmt.Sprintf("ok n=%d", N) {
		h.fail("C07:bulk", "bulk insert failed", map[string]any{"answer": a})
	}
	dig0 := h.do("srv.digest")
	h.checkHeapWalk()
	// the closed form on the real store (qidx = arrival index, heap = arrival order)
	for _, i := range []uint64{0, 1, 2, 12345, N - 1} {
		it, ok, _, _, _ := server.VerifC06Peek(key(i))
		if !ok || it.Qidx != int(i) || it.Len != 1 || it.Qval != t64(base+int64(i)*step) {
			h.fail("C07:bulk-closed-form", "store after 2^20 first requests in timestamp order is not the closed form", map[string]any{"i": i, "item": itemStr(&it)})
		}
	}
	late := base + int64(N)*step
	next := N + 10
	newcomer := func() uint64 { next++; return next }
	req := mkReq(z64(), rxA, txA)

	// ---- boundary stream, part 1: newcomers older than the least recently active client
	// (must be served statelessly whatever the clock says when they are handled)
	_, q, tok := h.topInfo()
	if !tok {
		h.fail("C07:bulk", "no top of the heap after the fill", nil)
		return
	}
	for _, cse := range []struct {
		name    string
		rx, now int64
	}{
		{"older-clock-older", q - 2, q - 1},
		{"older-clock-equal", q - 1, q},
		{"older-clock-one-later", q - 1, q + 1},
		{"older-clock-much-later", q - 3, late + 20},
		{"second-older-clock-much-later", q - 1000000000, late + 999},
		{"older-clock-before-rx", q - 1, q - 5},
	} {
		c.Count("capgen:boundary:" + cse.name)
		h.hr(hrIn{newcomer(), req, cse.rx, cse.now})
	}
	if dig1 := h.do("srv.digest"); dig1 != dig0 {
		h.fail("C07:stateless-changed-store", "requests of newcomers older than every stored client changed the full store",
			map[string]any{"digest_before": dig0, "digest_after": dig1})
	}

	// ---- part 2: newcomers at least as recent: exactly the least recently active one goes.
	// The harness's own expectation: first client 0 of the fill (rank q); each newcomer is
	// stored with a rank below client 1's, so it is the next one to go.
	expect := uint64(0)
	for _, cse := range []struct {
		name      string
		drx, dnow int64
		late      bool
	}{
		{"equal-clock-later", 0, 5, false},
		{"one-later", 1, 2, false},
		{"equal-clock-earlier", 1, -7, false},
		{"much-later", 0, 20, true},
	} {
		topID, _, tok := h.topInfo()
		if !tok || topID != expect {
			h.fail("C07:heap-order", "the top of the heap is not the least recently active client", map[string]any{"top": topID, "expected": expect})
			break
		}
		c.Count("capgen:boundary:" + cse.name)
		nc, rx := newcomer(), q+cse.drx
		if cse.late {
			late += 100
			rx = late
		}
		h.hr(hrIn{nc, req, rx, rx + cse.dnow})
		_, still, _, _, _ := server.VerifC06Peek(key(expect))
		_, stored, _, _, _ := server.VerifC06Peek(key(nc))
		if still || !stored {
			h.fail("C07:evict-wrong", "the newcomer at least as recent as the least recently active client did not replace exactly that client",
				map[string]any{"least_recently_active": expect, "still_stored": still, "newcomer_stored": stored})
		}
		expect = nc
	}
	if topID, _, _ := h.topInfo(); topID != 1 {
		h.fail("C07:heap-order", "after the eviction of client 0 and of the newcomers ranked below client 1 the top is not client 1", map[string]any{"top": topID})
	}

	// ---- part 3: known clients at capacity (no eviction, count unchanged)
	if topID, _, tok := h.topInfo(); tok {
		late += 100
		c.Count("capgen:boundary:top-client-again")
		h.hr(hrIn{topID, req, late, late + 20}) // heap.Fix moves it away from the top
		topID2, q2, _ := h.topInfo()
		c.Count("capgen:boundary:top-client-interleaved")
		h.hr(hrIn{topID2, mkReq(t64(q2), rxA, txA), late + 10, late + 30}) // interleaved hit
		mid := N/2 + uint64(r.Intn(1000))
		c.Count("capgen:boundary:mid-client-older-rx")
		h.hr(hrIn{mid, req, base + int64(mid)*step - 5, late + 40}) // older than its kept rx: rank unchanged
		c.Count("capgen:boundary:mid-client-colliding-rx")
		h.hr(hrIn{mid + 1, req, base + int64(mid+1)*step, late + 50}) // collides with its fill rx: bumped
		c.Count("capgen:boundary:last-client-again")
		h.hr(hrIn{N - 1, req, late + 60, late + 70})
	}

	// ---- part 4: an item removed (lost tx timestamp), then newcomers: inserted without
	// eviction even if older than everybody; full again: stateless / evicting
	if topID, q, tok := h.topInfo(); tok {
		id := topID + 3
		it, ok, _, _, _ := server.VerifC06Peek(key(id))
		if ok && it.Len == 1 {
			if tm, found := h.logOf(id)[it.Pairs[0].Rx]; found {
				c.Count("capgen:boundary:remove-item-then-older-newcomer")
				h.utx(id, tm.rxNs, tm.txNs) // lost: whole item removed, n = cap-1
				nc := newcomer()
				h.hr(hrIn{nc, req, q - 10, late + 80}) // below capacity: stored, becomes the top
				if t2, _, _ := h.topInfo(); t2 != nc {
					h.fail("C07:heap-order", "a newcomer older than every stored client, stored below capacity, is not the top of the heap", map[string]any{"top": t2, "newcomer": nc})
				}
				c.Count("capgen:boundary:full-again-older")
				h.hr(hrIn{newcomer(), req, q - 11, late + 90}) // older than the new top: stateless
				c.Count("capgen:boundary:full-again-between")
				h.hr(hrIn{newcomer(), req, q - 9, late + 95}) // later than the new top, older than the rest: evicts it
				if _, still, _, _, _ := server.VerifC06Peek(key(nc)); still {
					h.fail("C07:evict-wrong", "least recently active client not evicted by a more recent newcomer", map[string]any{"id": nc})
				}
			}
		}
	}
	h.do("srv.digest")
	h.checkHeapWalk()

	// ---- random ops around the boundary
	for j := 0; j < c.Scale(10, 150) && h.fails == 0; j++ {
		late += r.Range(1, 3000)
		topID, topNs, tok := h.topInfo()
		switch k := r.Intn(100); {
		case k < 25: // newcomer later than the minimum: evicts the top
			c.Count("capgen:newcomer-later")
			h.hr(hrIn{newcomer(), mkReq(z64(), rxA, txA), late, late + 20})
		case k < 40 && tok: // newcomer earlier than the heap minimum: stateless
			c.Count("capgen:newcomer-earlier")
			h.hr(hrIn{newcomer(), mkReq(z64(), rxA, txA), topNs - r.Range(1, 3), late})
		case k < 52 && tok: // newcomer exactly at the minimum qval: evicts (guard is !After)
			c.Count("capgen:newcomer-equal")
			h.hr(hrIn{newcomer(), mkReq(z64(), rxA, txA), topNs, topNs + 5})
		case k < 60 && tok: // one ns later than the minimum
			c.Count("capgen:newcomer-one-later")
			h.hr(hrIn{newcomer(), mkReq(z64(), rxA, txA), topNs + 1, topNs + 5})
		case k < 72 && tok: // the least recently active client itself asks again: Fix moves it
			c.Count("capgen:top-client-again")
			org := z64()
			if r.Bool() {
				org = t64(topNs) // interleaved hit
			}
			h.hr(hrIn{topID, mkReq(org, rxA, txA), late, late + 20})
		case k < 82: // an existing client near the top of the list asks again
			c.Count("capgen:existing-client")
			id := topID + uint64(r.Intn(40))
			rxt := late
			if r.Chance(30) {
				rxt = base + int64(id)*step // colliding with its first exchange
			}
			h.hr(hrIn{id, mkReq(z64(), rxA, txA), rxt, rxt + r.Range(-2, 20)})
		case k < 92 && tok: // lost tx timestamp of a single-exchange client: whole item removed,
			// the next newcomer is inserted without eviction
			c.Count("capgen:remove-item-then-newcomer")
			id := topID + 1 + uint64(r.Intn(30))
			it, ok, _, _, _ := server.VerifC06Peek(key(id))
			if ok && it.Len == 1 {
				if tm, found := h.logOf(id)[it.Pairs[0].Rx]; found {
					h.utx(id, tm.rxNs, tm.txNs)
					h.hr(hrIn{newcomer(), mkReq(z64(), rxA, txA), late, late + 9})
				}
			}
		default: // kernel timestamp for an existing client
			c.Count("capgen:utx-existing")
			id := topID + uint64(r.Intn(30))
			it, ok, _, _, _ := server.VerifC06Peek(key(id))
			if ok {
				if tm, found := h.logOf(id)[it.Pairs[0].Rx]; found {
					h.utx(id, tm.rxNs, tm.txNs+300)
				}
			}
		}
		if j%25 == 24 {
			h.checkHeapWalk()
		}
	}
	if c.Thorough() {
		h.do("srv.digest")
		h.checkHeapWalk()
	}
	h.parAtCapacity(c, c.Scale(2, 6), &late, newcomer)
	h.do("srv.digest")
	h.do("srv.reset")
	h.do("srv.mode full")
	h.clear()
}

// ---------------------------------------------------------------- concurrency (thorough)

type cop struct {
	utx      bool
	in       hrIn
	rxt, txt int64 // utx
}

type cres struct {
	reply    ntp.Packet
	rxt, txt int64
}

func genConcurrent(c *lib.Ctx) {
	r := c.Rand.Fork("concurrent")
	const G, L = 16, 200
	base := T0 + 20000000000
	now := base - 1000000000 // the clock stays earlier than every receive time
	scripts := make([][]cop, G)
	for g := 0; g < G; g++ {
		ids := []uint64{uint64(1000 + 2*g), uint64(1001 + 2*g)}
		hist := map[uint64][]int64{}
		t := base + int64(g)*10000000
		for k := 0; k < L; k++ {
			id := ids[r.Intn(2)]
			if r.Chance(30) && len(hist[id]) > 0 {
				rx := hist[id][len(hist[id])-1-r.Intn(min(len(hist[id]), 3))]
				var txt1 int64
				switch q := r.Intn(4); q {
				case 0:
					txt1 = rx + 1 // equal to the software value (rxt+1): lost
				case 1:
					txt1 = rx - 5
				default:
					txt1 = rx + r.Range(2, 900)
				}
				scripts[g] = append(scripts[g], cop{utx: true, in: hrIn{id: id}, rxt: rx, txt: txt1})
				continue
			}
			t += r.Range(1, 1000)
			org := z64()
			if len(hist[id]) > 0 && r.Chance(60) {
				org = t64(hist[id][len(hist[id])-1-r.Intn(min(len(hist[id]), 9))])
			}
			rx, tx := rxA, txA
			if r.Chance(15) {
				tx = rx
			}
			scripts[g] = append(scripts[g], cop{in: hrIn{id, mkReq(org, rx, tx), t, now}})
			hist[id] = append(hist[id], t)
		}
	}
	// phase 1: concurrent, direct calls
	server.VerifC06Reset()
	clk.ns.Store(now)
	res1 := make([][]cres, G)
	var wg sync.WaitGroup
	start := make(chan struct{})
	for g := 0; g < G; g++ {
		wg.Add(1)
		go func(g int) {
			defer wg.Done()
			<-start
			for _, op := range scripts[g] {
				if op.utx {
					txt := doUTXNoClock(op.in.id, op.rxt, op.txt)
					res1[g] = append(res1[g], cres{rxt: op.rxt, txt: txt})
				} else {
					req := op.in.req
					resp, rxt, txt := doHRNoClock(op.in.id, &req, op.in.rxt)
					res1[g] = append(res1[g], cres{reply: resp, rxt: rxt, txt: txt})
				}
			}
		}(g)
	}
	close(start)
	wg.Wait()
	snap1 := server.VerifC06Snapshot()
	c.Count("concurrent:runs")

	// phase 2: the same ops sequentially (goroutine by goroutine), through the pipeline
	h := newH(c, "concurrent scripts, sequential re-run")
	h.maxOps = 250
	h.checkSnapshot(&snap1) // validity of the store the concurrent run left
	differ := 0
	for g := 0; g < G; g++ {
		for k, op := range scripts[g] {
			var r2 lastRes
			if op.utx {
				r2 = h.utx(op.in.id, op.rxt, op.txt)
			} else {
				r2 = h.hr(op.in)
			}
			r1 := res1[g][k]
			if r1.rxt != r2.rxt || r1.txt != r2.txt || (!op.utx && (r1.reply.ReceiveTime != r2.reply.ReceiveTime || r1.reply.OriginTime != r2.reply.OriginTime ||
				r1.reply.TransmitTime != r2.reply.TransmitTime || r1.reply.ReferenceTime != r2.reply.ReferenceTime)) {
				differ++
				if differ <= 3 {
					h.fail("C07:concurrent-not-serializable", "a call in the concurrent run returned something else than in the sequential run of the same per-client scripts",
						map[string]any{"goroutine": g, "call": k, "concurrent": fmt.Sprint(r1), "sequential": fmt.Sprint(cres{r2.reply, r2.rxt, r2.txt})})
				}
			}
			c.Count("concurrent:calls-compared")
		}
	}
	snap2 := server.VerifC06Snapshot()
	same := len(snap1.Items) == len(snap2.Items) && snap1.MapLen == snap2.MapLen
	for i := 0; same && i < len(snap1.Items); i++ {
		a, b := &snap1.Items[i], &snap2.Items[i]
		same = a.Key == b.Key && a.Len == b.Len && a.Qval == b.Qval && len(a.Pairs) == len(b.Pairs)
		for j := 0; same && j < len(a.Pairs); j++ {
			same = a.Pairs[j] == b.Pairs[j]
		}
	}
	if !same {
		h.fail("C07:concurrent-not-serializable", "per-client contents after the concurrent run differ from the sequential run", map[string]any{"concurrent": snapFull(&snap1), "sequential": snapFull(&snap2)})
	}
	h.do("srv.reset")
}

func doHRNoClock(id uint64, req *ntp.Packet, rxtNs int64) (ntp.Packet, int64, int64) {
	var resp ntp.Packet
	rxt := timeNs(rxtNs)
	txt := rxt
	server.VerifC06HandleRequest(key(id), req, &rxt, &txt, &resp)
	return resp, rxt.UnixNano(), txt.UnixNano()
}

func doUTXNoClock(id uint64, rxtNs, txt1 int64) int64 {
	txt := timeNs(txt1)
	server.VerifC06UpdateTXTimestamp(key(id), timeNs(rxtNs), &txt)
	return txt.UnixNano()
}
