// c06: correspondence + direct oracle for the server's per-client timestamp store
// (core/server/server.go: handleRequest, updateTXTimestamp, tss/tssQ), properties C06/C07.
//
// exec.go part: the op interpreter (real code through the verif hooks).
package main

import (
	"fmt"
	"sort"
	"strconv"
	"strings"
	"sync/atomic"
	"time"

	btimebase "example.com/scion-time/base/timebase"
	"example.com/scion-time/core/server"
	"example.com/scion-time/core/timebase"
	"example.com/scion-time/net/ntp"

	"verifharness/lib"
)

// ---------------------------------------------------------------- scripted clock

type scriptedClock struct{ ns atomic.Int64 }

var _ btimebase.SystemClock = (*scriptedClock)(nil)

func (c *scriptedClock) Epoch() uint64                                { return 0 }
func (c *scriptedClock) Now() time.Time                               { return time.Unix(0, c.ns.Load()) }
func (c *scriptedClock) Drift(time.Duration) time.Duration            { return 0 }
func (c *scriptedClock) Step(time.Duration)                           {}
func (c *scriptedClock) Adjust(time.Duration, time.Duration, float64) {}
func (c *scriptedClock) Sleep(time.Duration)                          {}

var clk = &scriptedClock{}

func init() { timebase.RegisterClock(clk) }

// ---------------------------------------------------------------- state of the interpreter

var brief bool

// result of the last srv.hr / srv.utx executed by exec (read by the generator's oracle)
type lastRes struct {
	reply    ntp.Packet
	rxt, txt int64 // out-params (UnixNano)
	ev       string
}

var last lastRes

func key(id uint64) string { return "c" + strconv.FormatUint(id, 10) }

func keyID(k string) (uint64, bool) {
	if !strings.HasPrefix(k, "c") {
		return 0, false
	}
	v, err := strconv.ParseUint(k[1:], 10, 64)
	return v, err == nil
}

func idStr(k string) string {
	if v, ok := keyID(k); ok {
		return strconv.FormatUint(v, 10)
	}
	return "?" + k
}

func f64(t ntp.Time64) string { return fmt.Sprintf("%d.%d", t.Seconds, t.Fraction) }

func fmtItem(it *server.VerifC06Item) string {
	var sb strings.Builder
	fmt.Fprintf(&sb, "%s:%d:%s:", idStr(it.Key), it.Qidx, f64(it.Qval))
	for i, p := range it.Pairs {
		if i > 0 {
			sb.WriteByte(',')
		}
		sb.WriteString(f64(p.Rx))
		sb.WriteByte('/')
		sb.WriteString(f64(p.Tx))
	}
	return sb.String()
}

func snapFull(s *server.VerifC06Snap) string {
	items := make([]*server.VerifC06Item, len(s.Items))
	for i := range s.Items {
		items[i] = &s.Items[i]
	}
	sort.Slice(items, func(i, j int) bool {
		a, _ := keyID(items[i].Key)
		b, _ := keyID(items[j].Key)
		return a < b
	})
	var sb strings.Builder
	fmt.Fprintf(&sb, "n=%d h=[", s.MapLen)
	for i, k := range s.Heap {
		if i > 0 {
			sb.WriteByte(',')
		}
		sb.WriteString(idStr(k))
	}
	sb.WriteString("] items=")
	for i, it := range items {
		if i > 0 {
			sb.WriteByte(';')
		}
		sb.WriteString(fmtItem(it))
	}
	return sb.String()
}

func snapBrief(id uint64) string {
	it, ok, n, hn, top := server.VerifC06Peek(key(id))
	ts := "-"
	if hn > 0 {
		ts = idStr(top)
	}
	is := "-"
	if ok {
		is = fmtItem(&it)
	}
	return fmt.Sprintf("n=%d hn=%d top=%s it=%s", n, hn, ts, is)
}

func snap(id uint64) string {
	if brief {
		return snapBrief(id)
	}
	s := server.VerifC06Snapshot()
	return snapFull(&s)
}

// ---------------------------------------------------------------- parsing (bad-op on anything the driver rejects)

type badOp struct{}

func pNat(s string) uint64 {
	if s == "" {
		panic(badOp{})
	}
	for _, ch := range s {
		if ch < '0' || ch > '9' {
			panic(badOp{})
		}
	}
	v, err := strconv.ParseUint(s, 10, 63)
	if err != nil {
		panic(badOp{})
	}
	return v
}

func pInt(s string) int64 {
	t := s
	if strings.HasPrefix(t, "-") {
		t = t[1:]
	}
	if t == "" {
		panic(badOp{})
	}
	for _, ch := range t {
		if ch < '0' || ch > '9' {
			panic(badOp{})
		}
	}
	v, err := strconv.ParseInt(s, 10, 64)
	if err != nil {
		panic(badOp{})
	}
	return v
}

func pT64(s, f string) ntp.Time64 {
	a, b := pInt(s), pInt(f)
	if a < 0 || a > 0xffffffff || b < 0 || b > 0xffffffff {
		panic(badOp{})
	}
	return ntp.Time64{Seconds: uint32(a), Fraction: uint32(b)}
}

// ---------------------------------------------------------------- the real calls

// doHR performs one real handleRequest call with the scripted clock reading `now`.
func doHR(id uint64, req *ntp.Packet, rxtNs, now int64) (resp ntp.Packet, rxt, txt time.Time) {
	clk.ns.Store(now)
	rxt = time.Unix(0, rxtNs)
	server.VerifC06HandleRequest(key(id), req, &rxt, &txt, &resp)
	return
}

func doUTX(id uint64, rxtNs, txt1 int64) time.Time {
	txt := time.Unix(0, txt1)
	server.VerifC06UpdateTXTimestamp(key(id), time.Unix(0, rxtNs), &txt)
	return txt
}

func storeLen() int {
	_, _, n, _, _ := server.VerifC06Peek("")
	return n
}

// bulkExpected is the closed form of the store after srv.bulk (see Driver/C06.lean bulkState).
func bulkEqualsClosedForm(n int, idbase uint64, base, step, d int64) bool {
	s := server.VerifC06Snapshot()
	if s.MapLen != n || len(s.Items) != n || len(s.Heap) != n {
		return false
	}
	byKey := make(map[string]*server.VerifC06Item, n)
	for i := range s.Items {
		byKey[s.Items[i].Key] = &s.Items[i]
	}
	for i := 0; i < n; i++ {
		k := key(idbase + uint64(i))
		if s.Heap[i] != k {
			return false
		}
		it := byKey[k]
		if it == nil {
			return false
		}
		rxt := base + int64(i)*step
		rx := ntp.Time64FromTime(time.Unix(0, rxt))
		txt := rxt + d
		if !(rxt < txt) {
			txt = rxt + 1 // the repaired handleRequest forces txt later than rxt
		}
		tx := ntp.Time64FromTime(time.Unix(0, txt))
		if it.Len != 1 || len(it.Pairs) != 1 || it.Pairs[0].Rx != rx || it.Pairs[0].Tx != tx || it.Qval != rx || it.Qidx != i {
			return false
		}
	}
	return true
}

const hashM = 2147483647

func hashStep(p, h, v uint64) uint64 { return (h*p + v%hashM) % hashM }

// digest replicates `digest` of Driver/C06.lean (items are reached through the heap slots).
func digest() string {
	var hk, s1, s2 uint64
	hn := 0
	server.VerifC06HeapWalk(func(pos int, k string, qidx int, qval ntp.Time64, n int) {
		hn++
		id, _ := keyID(k)
		hk = hashStep(1000003, hk, id)
		g := hashStep(7919, 1, id)
		g = hashStep(7919, g, uint64(qidx))
		g = hashStep(7919, g, uint64(qval.Seconds))
		g = hashStep(7919, g, uint64(qval.Fraction))
		g = hashStep(7919, g, uint64(n))
		s1 = (s1 + g) % hashM
		s2 = (s2 + g*g%hashM) % hashM
	})
	return fmt.Sprintf("n=%d hn=%d d=%d.%d.%d", storeLen(), hn, hk, s1, s2)
}

func exec(t []string) (res string) {
	defer func() {
		if r := recover(); r != nil {
			if _, ok := r.(badOp); ok {
				res = "bad-op"
				return
			}
			panic(r)
		}
	}()
	if len(t) == 0 {
		return "bad-op"
	}
	switch {
	case t[0] == "srv.reset" && len(t) == 1:
		server.VerifC06Reset()
		return "ok"
	case t[0] == "srv.mode" && len(t) == 2 && (t[1] == "full" || t[1] == "brief"):
		brief = t[1] == "brief"
		return "ok"
	case t[0] == "srv.digest" && len(t) == 1:
		return "ok " + digest()
	case t[0] == "srv.hr" && len(t) == 10:
		id := pNat(t[1])
		req := ntp.Packet{OriginTime: pT64(t[2], t[3]), ReceiveTime: pT64(t[4], t[5]), TransmitTime: pT64(t[6], t[7])}
		rxtNs, now := pInt(t[8]), pInt(t[9])
		_, _, _, _, top := server.VerifC06Peek("")
		resp, rxt, txt := doHR(id, &req, rxtNs, now)
		ev := "-"
		if top != "" {
			if _, still, _, _, _ := server.VerifC06Peek(top); !still {
				ev = idStr(top)
			}
		}
		last = lastRes{reply: resp, rxt: rxt.UnixNano(), txt: txt.UnixNano(), ev: ev}
		return fmt.Sprintf("ok rx=%s org=%s tx=%s ref=%s rxt=%d txt=%d ev=%s | %s",
			f64(resp.ReceiveTime), f64(resp.OriginTime), f64(resp.TransmitTime), f64(resp.ReferenceTime),
			rxt.UnixNano(), txt.UnixNano(), ev, snap(id))
	case t[0] == "srv.utx" && len(t) == 4:
		id := pNat(t[1])
		rxtNs, txt1 := pInt(t[2]), pInt(t[3])
		txt := doUTX(id, rxtNs, txt1)
		last = lastRes{rxt: rxtNs, txt: txt.UnixNano(), ev: "-"}
		return fmt.Sprintf("ok txt=%d | %s", txt.UnixNano(), snap(id))
	case t[0] == "srv.par" && len(t) >= 3:
		now := pInt(t[1])
		subs := parseSubs(t[2:])
		clk.ns.Store(now)
		return "ok " + runPar(subs)
	case (t[0] == "srv.bulk" || t[0] == "srv.bulkcheck") && len(t) == 6:
		n, idbase := pNat(t[1]), pNat(t[2])
		base, step, d := pInt(t[3]), pInt(t[4]), pInt(t[5])
		if storeLen() != 0 || n > server.VerifC06TssCap {
			return "bad-op"
		}
		var req ntp.Packet
		for i := uint64(0); i < n; i++ {
			rxt := base + int64(i)*step
			doHR(idbase+i, &req, rxt, rxt+d)
		}
		if t[0] == "srv.bulk" {
			return fmt.Sprintf("ok n=%d", n)
		}
		if bulkEqualsClosedForm(int(n), idbase, base, step, d) {
			return "ok equal"
		}
		return "ok differ"
	}
	return "bad-op"
}

func main() { lib.Main(exec, gen) }

func timeNs(ns int64) time.Time { return time.Unix(0, ns) }
