package main

// Direct oracle for C06/C07: the property predicates evaluated on what the real code
// returned (reply fields, out-params) and on snapshots of the real store, independent of
// the Lean model.

import (
	"fmt"
	"sort"
	"strings"
	"time"

	"example.com/scion-time/core/server"
	"example.com/scion-time/net/ntp"

	"verifharness/lib"
)

type times struct{ rxNs, txNs int64 }

func t64(ns int64) ntp.Time64 { return ntp.Time64FromTime(time.Unix(0, ns)) }

// own comparison of NTP timestamps (as the store orders them: seconds, then fraction)
func before64(a, b ntp.Time64) bool {
	return a.Seconds < b.Seconds || (a.Seconds == b.Seconds && a.Fraction < b.Fraction)
}
func after64(a, b ntp.Time64) bool { return before64(b, a) }

type hctx struct {
	c    *lib.Ctx
	name string
	ops  []string
	// the harness's own record per client: rx64 -> the times (ns) of the exchange
	log map[uint64]map[ntp.Time64]times
	// lazily materialised record of clients created by srv.bulk
	bulkN                   uint64
	bulkBase                uint64
	bulkT0, bulkStep, bulkD int64
	bulkSeen                map[uint64]bool
	// snapshot after the previous op (full mode only)
	prev    server.VerifC06Snap
	fails   int
	maxOps  int
	removed []ntp.Time64 // rx values of entries that were replaced/removed (generator input)
}

func newH(c *lib.Ctx, name string) *hctx {
	h := &hctx{c: c, name: name, maxOps: 400}
	h.c.Comment("history " + name)
	h.clear()
	h.do("srv.reset")
	return h
}

func (h *hctx) clear() {
	h.log = map[uint64]map[ntp.Time64]times{}
	h.bulkN = 0
	h.bulkSeen = map[uint64]bool{}
	h.prev = server.VerifC06Snap{}
	h.removed = nil
}

func (h *hctx) do(op string) string {
	h.ops = append(h.ops, op)
	return h.c.Do(op)
}

func (h *hctx) fail(sig, what string, detail map[string]any) {
	h.fails++
	h.c.Count("oraclefail:" + sig)
	ops := h.ops
	if len(ops) > h.maxOps {
		// keep the head (reset/mode/bulk) and the tail
		ops = append(append([]string{}, ops[:8]...), ops[len(ops)-(h.maxOps-8):]...)
	}
	if detail == nil {
		detail = map[string]any{}
	}
	detail["history"] = h.name
	detail["op"] = h.ops[len(h.ops)-1]
	h.c.Fail(sig, what, append([]string{}, ops...), detail)
}

func (h *hctx) logOf(id uint64) map[ntp.Time64]times {
	if h.bulkN > 0 && id >= h.bulkBase && id < h.bulkBase+h.bulkN && !h.bulkSeen[id] {
		h.bulkSeen[id] = true
		rxt := h.bulkT0 + int64(id-h.bulkBase)*h.bulkStep
		txt := rxt + h.bulkD
		if !(rxt < txt) {
			txt = rxt + 1
		}
		h.log[id] = map[ntp.Time64]times{t64(rxt): {rxt, txt}}
	}
	m := h.log[id]
	if m == nil {
		m = map[ntp.Time64]times{}
		h.log[id] = m
	}
	return m
}

func findItem(s *server.VerifC06Snap, k string) *server.VerifC06Item {
	i := sort.Search(len(s.Items), func(i int) bool { return s.Items[i].Key >= k })
	if i < len(s.Items) && s.Items[i].Key == k {
		return &s.Items[i]
	}
	return nil
}

func pairStrings(it *server.VerifC06Item) []string {
	if it == nil {
		return nil
	}
	out := make([]string, len(it.Pairs))
	for i, p := range it.Pairs {
		out[i] = f64(p.Rx) + "/" + f64(p.Tx)
	}
	sort.Strings(out)
	return out
}

func sameStrings(a, b []string) bool {
	if len(a) != len(b) {
		return false
	}
	for i := range a {
		if a[i] != b[i] {
			return false
		}
	}
	return true
}

func itemStr(it *server.VerifC06Item) string {
	if it == nil {
		return "-"
	}
	return fmtItem(it)
}

// ---------------------------------------------------------------- C06: one handleRequest call

type hrIn struct {
	id       uint64
	req      ntp.Packet
	rxt, now int64
}

// checkReply evaluates clauses (a)-(c) of C06 on one reply, given the client's item as it
// was before the call (nil if none), and returns the stored entry that was served (nil if basic).
func (h *hctx) checkReply(in hrIn, before *server.VerifC06Item, r lastRes) (wantInter bool, o int) {
	det := func() map[string]any {
		return map[string]any{"id": in.id, "before": itemStr(before), "reply_rx": f64(r.reply.ReceiveTime),
			"reply_org": f64(r.reply.OriginTime), "reply_tx": f64(r.reply.TransmitTime), "rxt": r.rxt, "txt": r.txt,
			"rxt_in": in.rxt, "now": in.now}
	}
	rx64 := t64(r.rxt)
	tx64 := t64(r.txt)
	// (a)
	if r.reply.ReceiveTime != rx64 {
		h.fail("C06:reply-rx-mismatch", "reply receive timestamp is not Time64FromTime of the returned rxt", det())
	}
	if r.rxt < in.rxt || (before == nil && r.rxt != in.rxt) || (before != nil && r.rxt-in.rxt > int64(before.Len)) {
		h.fail("C06:rxt-bump-range", "returned rxt is not the packet's receive time plus at most one bump per kept entry", det())
	}
	if b := r.rxt - in.rxt; b > 0 {
		h.c.Count(fmt.Sprintf("rx:uniqueness-bumps=%d", b))
	}
	o = -1
	if before != nil {
		for i, p := range before.Pairs {
			if p.Rx == r.reply.ReceiveTime {
				h.fail("C06:rx-not-unique", "reply receive timestamp equals a receive timestamp kept for this client before the request", det())
			}
			if p.Rx == in.req.OriginTime {
				o = i
			}
		}
	}
	// (b)
	wantInter = in.req.ReceiveTime != in.req.TransmitTime && o != -1
	if r.reply.ReferenceTime != tx64 {
		h.fail("C06:reply-ref-mismatch", "reply reference timestamp is not Time64FromTime of the returned txt", det())
	}
	if wantInter {
		h.c.Count("reply:interleaved")
		e := before.Pairs[o]
		if r.reply.OriginTime != in.req.ReceiveTime {
			h.fail("C06:interleaved-expected", "an earlier reply with rx = request origin is on record and req.rx != req.tx, but origin is not the request's receive timestamp", det())
		}
		if r.reply.TransmitTime != e.Tx {
			h.fail("C06:interleaved-tx-wrong", "interleaved reply does not carry the transmit time recorded for the earlier reply", det())
		}
		lg, ok := h.logOf(in.id)[e.Rx]
		if !ok || t64(lg.txNs) != e.Tx || t64(lg.rxNs) != e.Rx {
			d := det()
			d["own_record"] = fmt.Sprint(lg, ok)
			h.fail("C06:record-mismatch", "the entry served is not the (rx, tx) pair the harness recorded for this client", d)
		} else if !(lg.txNs > lg.rxNs) {
			d := det()
			d["recorded_rx_ns"], d["recorded_tx_ns"] = lg.rxNs, lg.txNs
			h.fail("C06:interleaved-tx-not-later", "interleaved reply serves a recorded transmit time that is not later than its receive timestamp", d)
		}
	} else {
		if o != -1 {
			h.c.Count("reply:basic-rx-eq-tx-origin-matches")
		} else {
			h.c.Count("reply:basic")
		}
		if r.reply.OriginTime != in.req.TransmitTime || r.reply.TransmitTime != tx64 {
			sig := "C06:basic-expected"
			if in.req.ReceiveTime == in.req.TransmitTime && o != -1 {
				sig = "C06:interleaved-on-rx-eq-tx"
			} else if before == nil || o == -1 {
				sig = "C06:interleaved-without-record"
			}
			h.fail(sig, "reply must be basic (origin = req.tx, tx = Time64FromTime(txt)): no matching record of this client or req.rx == req.tx", det())
		}
		if in.now > in.rxt && !(r.txt > r.rxt) {
			h.fail("C06:basic-tx-not-later", "clock reading later than the receive time but transmit time not later than receive timestamp", det())
		}
	}
	// (c) repaired code: strict rx < tx for every exchange
	if !(r.txt > r.rxt) {
		h.fail("C06:tx-not-later", "returned (and recorded) transmit time is not later than the receive time", det())
	}
	return wantInter, o
}

// checkStored: after the call the client's item (if the client is stored) holds the pair
// (reply rx, Time64(txt)) and otherwise the pairs it had, with the served/oldest one replaced.
func (h *hctx) checkStored(in hrIn, before, after *server.VerifC06Item, r lastRes, o int) {
	if after == nil {
		return
	}
	rx64, tx64 := t64(r.rxt), t64(r.txt)
	want := []string{}
	lg := h.logOf(in.id)
	if before != nil {
		repl := -1
		if o != -1 {
			repl = o
		} else if before.Len == server.VerifC06TssItemCap {
			repl = 0
			for i, p := range before.Pairs {
				if before64(p.Rx, before.Pairs[repl].Rx) {
					repl = i
				}
			}
			h.c.Count("store:item-full-oldest-replaced")
		}
		for i, p := range before.Pairs {
			if i == repl {
				h.removed = append(h.removed, p.Rx)
				delete(lg, p.Rx)
				continue
			}
			want = append(want, f64(p.Rx)+"/"+f64(p.Tx))
		}
	}
	want = append(want, f64(rx64)+"/"+f64(tx64))
	sort.Strings(want)
	lg[rx64] = times{r.rxt, r.txt}
	if got := pairStrings(after); !sameStrings(got, want) {
		h.fail("C06:store-update", "the client's kept pairs after the request are not the previous ones with the new exchange recorded",
			map[string]any{"id": in.id, "before": itemStr(before), "after": itemStr(after), "want": strings.Join(want, ",")})
	}
}

// ---------------------------------------------------------------- C06: one updateTXTimestamp call

func (h *hctx) checkUTX(id uint64, rxt, txt1 int64, before, after *server.VerifC06Item, r lastRes) {
	det := func() map[string]any {
		return map[string]any{"id": id, "rxt": rxt, "txt1": txt1, "txt_out": r.txt, "before": itemStr(before), "after": itemStr(after)}
	}
	want := txt1
	if !(rxt < txt1) {
		want = rxt + 1
		h.c.Count("utx:txt-not-later-bumped")
	}
	if r.txt != want {
		h.fail("C06:utx-txt", "updateTXTimestamp returned a transmit time other than txt (or rxt+1ns when txt <= rxt)", det())
	}
	rx64, tx64 := t64(rxt), t64(want)
	x := -1
	if before != nil {
		for i, p := range before.Pairs {
			if p.Rx == rx64 {
				x = i
			}
		}
	}
	lg := h.logOf(id)
	// the caller reports the value that is already on record (no kernel timestamp could be
	// read): the exchange must be dropped, whatever the relation of that value to rxt
	if x != -1 && before.Pairs[x].Tx == t64(txt1) {
		still := false
		if after != nil {
			for _, p := range after.Pairs {
				still = still || p.Rx == rx64
			}
		}
		if still {
			h.fail("C06:lost-tx-not-dropped", "the reported transmit time is the one already on record (no updated timestamp available) but the exchange stayed on record", det())
		}
	}
	switch {
	case before == nil:
		h.c.Count("utx:unknown-client")
		if after != nil {
			h.fail("C06:utx-changed-state", "update for an unknown client created state", det())
		}
	case x == -1:
		h.c.Count("utx:unknown-rxt")
		if after == nil || !sameStrings(pairStrings(before), pairStrings(after)) {
			h.fail("C06:utx-changed-state", "update for a receive time not on record changed the record", det())
		}
	case before.Pairs[x].Tx != tx64:
		h.c.Count("utx:kernel-timestamp-recorded")
		w := []string{}
		for i, p := range before.Pairs {
			if i == x {
				w = append(w, f64(p.Rx)+"/"+f64(tx64))
			} else {
				w = append(w, f64(p.Rx)+"/"+f64(p.Tx))
			}
		}
		sort.Strings(w)
		if after == nil || !sameStrings(pairStrings(after), w) {
			h.fail("C06:utx-not-recorded", "the kernel transmit timestamp was not recorded for the exchange", det())
		}
		lg[rx64] = times{rxt, want}
	default:
		w := []string{}
		for i, p := range before.Pairs {
			if i != x {
				w = append(w, f64(p.Rx)+"/"+f64(p.Tx))
			}
		}
		sort.Strings(w)
		h.removed = append(h.removed, rx64)
		delete(lg, rx64)
		if before.Len == 1 {
			h.c.Count("utx:lost-timestamp-item-removed")
			if after != nil {
				h.fail("C06:utx-not-dropped", "no updated transmit timestamp available but the exchange (the client's only one) stayed on record", det())
			}
		} else {
			h.c.Count("utx:lost-timestamp-entry-removed")
			if after == nil || !sameStrings(pairStrings(after), w) {
				h.fail("C06:utx-not-dropped", "no updated transmit timestamp available but the exchange stayed on record (or others were lost)", det())
			}
		}
	}
}

// ---------------------------------------------------------------- C07: snapshot validity

func (h *hctx) checkSnapshot(s *server.VerifC06Snap) {
	bad := func(sig, what string, d map[string]any) {
		if d == nil {
			d = map[string]any{}
		}
		if len(s.Items) <= 16 {
			d["snapshot"] = snapFull(s)
		}
		h.fail(sig, what, d)
	}
	if s.MapLen != len(s.Heap) || s.MapLen != len(s.Items) {
		bad("C07:map-heap-size", "number of clients in the map and in the heap differ", map[string]any{"map": s.MapLen, "heap": len(s.Heap)})
	}
	if s.MapLen > server.VerifC06TssCap {
		bad("C07:cap-exceeded", "more than tssCap clients stored", nil)
	}
	qv := make(map[string]ntp.Time64, len(s.Items))
	for i := range s.Items {
		it := &s.Items[i]
		qv[it.Key] = it.Qval
		if it.Len < 1 || it.Len > server.VerifC06TssItemCap || it.Len != len(it.Pairs) {
			bad("C07:item-len", "a stored client has no exchange or more than tssItemCap", map[string]any{"item": fmtItem(it), "len": it.Len})
		}
		for a := range it.Pairs {
			for b := a + 1; b < len(it.Pairs); b++ {
				if it.Pairs[a].Rx == it.Pairs[b].Rx {
					bad("C06:rx-not-unique", "two kept exchanges of one client have the same receive timestamp", map[string]any{"item": fmtItem(it)})
				}
			}
			if before64(it.Qval, it.Pairs[a].Rx) {
				bad("C07:qval-older-than-entry", "a client is ranked older than its most recent stored exchange", map[string]any{"item": fmtItem(it)})
			}
		}
		if it.Qidx < 0 || it.Qidx >= len(s.Heap) || s.Heap[it.Qidx] != it.Key {
			bad("C07:qidx", "heap[item.qidx] is not the item", map[string]any{"item": fmtItem(it)})
		}
	}
	for i := 1; i < len(s.Heap); i++ {
		p := (i - 1) / 2
		a, oka := qv[s.Heap[p]]
		b, okb := qv[s.Heap[i]]
		if !oka || !okb {
			bad("C07:heap-key-unknown", "heap slot refers to a client that is not in the map", map[string]any{"pos": i})
			continue
		}
		if after64(a, b) {
			bad("C07:heap-order", "heap order violated: parent ranked later than child", map[string]any{"parent": p, "child": i})
		}
	}
}

// checkHeapWalk validates the heap of a large store (capacity regime) through the walk hook.
func (h *hctx) checkHeapWalk() {
	var qvals []ntp.Time64
	badQidx, badLen, nilSlot := -1, -1, -1
	server.VerifC06HeapWalk(func(pos int, k string, qidx int, qval ntp.Time64, n int) {
		qvals = append(qvals, qval)
		if k == "<nil>" {
			nilSlot = pos
			return
		}
		if qidx != pos && badQidx < 0 {
			badQidx = pos
		}
		if (n < 1 || n > server.VerifC06TssItemCap) && badLen < 0 {
			badLen = pos
		}
	})
	if nilSlot >= 0 {
		h.fail("C07:heap-key-unknown", "nil heap slot", map[string]any{"pos": nilSlot})
	}
	if badQidx >= 0 {
		h.fail("C07:qidx", "heap[item.qidx] is not the item", map[string]any{"pos": badQidx})
	}
	if badLen >= 0 {
		h.fail("C07:item-len", "a stored client has no exchange or more than tssItemCap", map[string]any{"pos": badLen})
	}
	if n := storeLen(); n != len(qvals) || n > server.VerifC06TssCap {
		h.fail("C07:map-heap-size", "number of clients in the map and in the heap differ (or exceed tssCap)", map[string]any{"map": n, "heap": len(qvals)})
	}
	for i := 1; i < len(qvals); i++ {
		if after64(qvals[(i-1)/2], qvals[i]) {
			h.fail("C07:heap-order", "heap order violated: parent ranked later than child", map[string]any{"parent": (i - 1) / 2, "child": i})
			break
		}
	}
	h.c.Count("oracle:heap-walk")
}

// ---------------------------------------------------------------- ops with oracle

func hrOp(in hrIn) string {
	return fmt.Sprintf("srv.hr %d %d %d %d %d %d %d %d %d", in.id,
		in.req.OriginTime.Seconds, in.req.OriginTime.Fraction, in.req.ReceiveTime.Seconds, in.req.ReceiveTime.Fraction,
		in.req.TransmitTime.Seconds, in.req.TransmitTime.Fraction, in.rxt, in.now)
}

// hr performs one srv.hr with all oracle checks; works in full mode (snapshots) and in
// brief mode (peeks; for large stores).
func (h *hctx) hr(in hrIn) lastRes {
	k := key(in.id)
	if brief {
		bi, bok, bn, _, top := server.VerifC06Peek(k)
		var before *server.VerifC06Item
		if bok {
			before = &bi
		}
		var topItem server.VerifC06Item
		if top != "" {
			topItem, _, _, _, _ = server.VerifC06Peek(top)
		}
		h.logOf(in.id)
		h.do(hrOp(in))
		r := last
		ai, aok, an, ahn, _ := server.VerifC06Peek(k)
		var after *server.VerifC06Item
		if aok {
			after = &ai
		}
		_, o := h.checkReply(in, before, r)
		h.checkStored(in, before, after, r, o)
		h.checkEviction(in, bok, bn, top, &topItem, aok, an, ahn, r)
		return r
	}
	before := findItem(&h.prev, k)
	bn := h.prev.MapLen
	top := ""
	var topItem server.VerifC06Item
	if len(h.prev.Heap) > 0 {
		top = h.prev.Heap[0]
		if ti := findItem(&h.prev, top); ti != nil {
			topItem = *ti
		}
	}
	h.do(hrOp(in))
	r := last
	cur := server.VerifC06Snapshot()
	after := findItem(&cur, k)
	_, o := h.checkReply(in, before, r)
	h.checkStored(in, before, after, r, o)
	h.checkEviction(in, before != nil, bn, top, &topItem, after != nil, cur.MapLen, len(cur.Heap), r)
	// other clients untouched (except an evicted one)
	for i := range h.prev.Items {
		p := &h.prev.Items[i]
		if p.Key == k || (r.ev != "-" && idStr(p.Key) == r.ev) {
			continue
		}
		q := findItem(&cur, p.Key)
		if q == nil || !sameStrings(pairStrings(p), pairStrings(q)) || q.Qval != p.Qval {
			h.fail("C06:other-client-changed", "a request changed the record of another client", map[string]any{"other": p.Key, "before": itemStr(p), "after": itemStr(q)})
		}
	}
	h.checkSnapshot(&cur)
	h.prev = cur
	return r
}

// checkEviction: C07's eviction clause.
func (h *hctx) checkEviction(in hrIn, bok bool, bn int, top string, topItem *server.VerifC06Item, aok bool, an, ahn int, r lastRes) {
	det := map[string]any{"id": in.id, "n_before": bn, "n_after": an, "heap_after": ahn, "top_before": top, "top_item": itemStr(topItem), "ev": r.ev, "reply_rx": f64(r.reply.ReceiveTime)}
	capN := server.VerifC06TssCap
	if an != ahn || an > capN {
		h.fail("C07:map-heap-size", "number of clients in the map and in the heap differ (or exceed tssCap)", det)
	}
	switch {
	case bok:
		if r.ev != "-" || an != bn || !aok {
			h.fail("C07:evict-wrong", "a request of a stored client evicted or removed a client", det)
		}
	case bn < capN:
		h.c.Count("store:newcomer-inserted")
		if r.ev != "-" || an != bn+1 || !aok {
			h.fail("C07:evict-wrong", "below capacity a newcomer must be stored without eviction", det)
		}
	default: // newcomer at capacity
		rx64 := r.reply.ReceiveTime
		if !after64(topItem.Qval, rx64) {
			if topItem.Qval == rx64 {
				h.c.Count("cap:evict-equal-qval")
			} else {
				h.c.Count("cap:evict")
			}
			if r.ev != idStr(top) || an != capN || !aok {
				h.fail("C07:evict-wrong", "at capacity a newcomer at least as recent as the least recently active client must replace exactly that client", det)
			}
		} else {
			h.c.Count("cap:stateless")
			if r.ev != "-" || an != capN || aok {
				h.fail("C07:evict-wrong", "at capacity a newcomer older than every stored client must be served statelessly", det)
			}
		}
	}
}

func (h *hctx) utx(id uint64, rxt, txt1 int64) lastRes {
	k := key(id)
	op := fmt.Sprintf("srv.utx %d %d %d", id, rxt, txt1)
	if brief {
		bi, bok, bn, _, _ := server.VerifC06Peek(k)
		var before *server.VerifC06Item
		if bok {
			before = &bi
		}
		h.logOf(id)
		h.do(op)
		r := last
		ai, aok, an, ahn, _ := server.VerifC06Peek(k)
		var after *server.VerifC06Item
		if aok {
			after = &ai
		}
		h.checkUTX(id, rxt, txt1, before, after, r)
		wantN := bn
		if bok && !aok {
			wantN--
		}
		if an != wantN || an != ahn {
			h.fail("C07:map-heap-size", "client count after update inconsistent", map[string]any{"before": bn, "after": an, "heap": ahn})
		}
		return r
	}
	before := findItem(&h.prev, k)
	h.do(op)
	r := last
	cur := server.VerifC06Snapshot()
	after := findItem(&cur, k)
	h.checkUTX(id, rxt, txt1, before, after, r)
	for i := range h.prev.Items {
		p := &h.prev.Items[i]
		if p.Key == k {
			continue
		}
		q := findItem(&cur, p.Key)
		if q == nil || !sameStrings(pairStrings(p), pairStrings(q)) || q.Qval != p.Qval {
			h.fail("C06:other-client-changed", "an update changed the record of another client", map[string]any{"other": p.Key, "before": itemStr(p), "after": itemStr(q)})
		}
	}
	h.checkSnapshot(&cur)
	h.prev = cur
	return r
}

// resync re-reads the snapshot (after ops issued with do() directly, in full mode).
func (h *hctx) resync() {
	if !brief {
		h.prev = server.VerifC06Snapshot()
		h.checkSnapshot(&h.prev)
	}
}
