// c06, par.go: operations of several listeners overlapping one stalled critical section.
//
//	srv.par <now> <sub> ; <sub> ; …      sub = hr <id> <org.s> <org.f> <rx.s> <rx.f> <tx.s> <tx.f> <rxt>
//	                                          | utx <id> <rxt> <txt1>
//	  -> ok early=<k> | <result of sub 1> | … | n=<len> hn=<heap len> its=<item of sub 1's client>;…
//
// The harness first takes the place of a listener that is preempted inside the store's critical
// section (it holds tssMu through the existing hook VerifC06HeapWalk, whose callback runs under
// the mutex, and stalls in it), then starts one goroutine per sub-operation on the real store,
// gives them parWait to reach the mutex, counts the ones that have already returned (early), lets
// the stalled listener go on and waits for all of them. The answer is canonical only for
// sub-operations whose results do not depend on their order (the generator's business); the model
// runs them one after the other in the listed order and always answers early=0: an operation on
// the store cannot return while another listener is inside the critical section.
package main

import (
	"fmt"
	"os"
	"strings"
	"sync"
	"sync/atomic"
	"time"

	"example.com/scion-time/core/server"
	"example.com/scion-time/net/ntp"

	"verifharness/lib"
)

var parWait = func() time.Duration { if d, err := time.ParseDuration(os.Getenv("C06_PARWAIT")); err == nil { return d }; return 15 * time.Millisecond }()

type psub struct {
	utx       bool
	id        uint64
	req       ntp.Packet
	rxt, txt1 int64
}

func splitSubs(t []string) [][]string {
	out := [][]string{nil}
	for _, x := range t {
		if x == ";" {
			out = append(out, nil)
		} else {
			out[len(out)-1] = append(out[len(out)-1], x)
		}
	}
	return out
}

func parseSubs(t []string) []psub {
	var subs []psub
	for _, s := range splitSubs(t) {
		switch {
		case len(s) == 9 && s[0] == "hr":
			subs = append(subs, psub{id: pNat(s[1]), rxt: pInt(s[8]),
				req: ntp.Packet{OriginTime: pT64(s[2], s[3]), ReceiveTime: pT64(s[4], s[5]), TransmitTime: pT64(s[6], s[7])}})
		case len(s) == 4 && s[0] == "utx":
			subs = append(subs, psub{utx: true, id: pNat(s[1]), rxt: pInt(s[2]), txt1: pInt(s[3])})
		default:
			panic(badOp{})
		}
	}
	return subs
}

func fmtItemNoIdx(it *server.VerifC06Item) string {
	s := fmtItem(it) // id:qidx:qval:pairs
	f := strings.SplitN(s, ":", 3)
	return f[0] + ":" + f[2]
}

// parRes is what the generator's oracle reads after a srv.par.
var parEarly int

func runPar(subs []psub) string {
	held, release, walked := make(chan struct{}), make(chan struct{}), make(chan struct{})
	go func() {
		defer close(walked)
		server.VerifC06HeapWalk(func(pos int, _ string, _ int, _ ntp.Time64, _ int) {
			if pos == 0 {
				close(held)
				<-release
			}
		})
	}()
	holding := false
	select {
	case <-held:
		holding = true
	case <-walked: // empty store: nothing to stall in
	}
	res := make([]string, len(subs))
	var done atomic.Int32
	var wg sync.WaitGroup
	for i := range subs {
		wg.Add(1)
		go func(i int) {
			defer wg.Done()
			s := subs[i]
			res[i] = lib.Try(func() string {
				if s.utx {
					return fmt.Sprintf("txt=%d", doUTXNoClock(s.id, s.rxt, s.txt1))
				}
				req := s.req
				resp, rxt, txt := doHRNoClock(s.id, &req, s.rxt)
				return fmt.Sprintf("rx=%s org=%s tx=%s ref=%s rxt=%d txt=%d",
					f64(resp.ReceiveTime), f64(resp.OriginTime), f64(resp.TransmitTime), f64(resp.ReferenceTime), rxt, txt)
			})
			done.Add(1)
		}(i)
	}
	early := 0
	if holding {
		time.Sleep(parWait)
		early = int(done.Load())
		close(release)
	}
	// nobody waits for the stalled listener itself at the moment it leaves the critical section:
	// the goroutines it wakes are the next to run, as with a listener that goes back to its socket
	wg.Wait()
	<-walked
	parEarly = early
	its := make([]string, len(subs))
	n, hn := 0, 0
	for i, s := range subs {
		it, ok, a, b, _ := server.VerifC06Peek(key(s.id))
		n, hn = a, b
		its[i] = "-"
		if ok {
			its[i] = fmtItemNoIdx(&it)
		}
	}
	return fmt.Sprintf("early=%d | %s | n=%d hn=%d its=%s", early, strings.Join(res, " | "), n, hn, strings.Join(its, ";"))
}

// ---------------------------------------------------------------- generator + oracle

func subOp(s psub) string {
	if s.utx {
		return fmt.Sprintf("utx %d %d %d", s.id, s.rxt, s.txt1)
	}
	f := strings.Fields(hrOp(hrIn{id: s.id, req: s.req, rxt: s.rxt}))
	return "hr " + strings.Join(f[1:len(f)-1], " ")
}

// par issues one srv.par and returns the per-sub results and the per-sub items (nil if the
// answer is not of the expected shape). Direct oracle on the answer: no sub-operation returned
// while the critical section was occupied; len(tss) = len(tssQ) <= cap.
func (h *hctx) par(now int64, subs []psub) (res, its []string) {
	parts := make([]string, len(subs))
	for i, s := range subs {
		parts[i] = subOp(s)
	}
	ans := h.do(fmt.Sprintf("srv.par %d %s", now, strings.Join(parts, " ; ")))
	h.c.Count("par:ops")
	f := strings.Split(ans, " | ")
	if !strings.HasPrefix(ans, "ok early=") || len(f) != len(subs)+2 {
		h.fail("C07:par-failed", "overlapping operations failed: "+ans, nil)
		return nil, nil
	}
	if f[0] != "ok early=0" {
		h.fail("C07:ran-inside-critical-section", "an operation on the timestamp store returned while another listener was inside the store's critical section (it cannot have waited for the mutex: unsynchronised access, or an outcome that depends on the overlap)",
			map[string]any{"answer": ans})
	}
	var n, hn int
	var itStr string
	if _, err := fmt.Sscanf(f[len(f)-1], "n=%d hn=%d its=%s", &n, &hn, &itStr); err != nil {
		h.fail("C07:par-failed", "overlapping operations failed: "+ans, nil)
		return nil, nil
	}
	if n != hn || n > server.VerifC06TssCap {
		h.fail("C07:map-heap-size", "client count after overlapping operations inconsistent", map[string]any{"map": n, "heap": hn, "answer": ans})
	}
	for _, x := range f[1 : len(f)-1] {
		if strings.HasPrefix(x, "panic") {
			h.fail("C07:par-panic", "an operation overlapping others panicked: "+x, map[string]any{"answer": ans})
		}
	}
	return f[1 : len(f)-1], strings.Split(itStr, ";")
}

// genPar: histories below capacity in which operations of distinct clients overlap a stalled
// critical section. With distinct clients and no eviction every sequential order of the
// sub-operations gives each of them the same result and each client the same record, so the
// concurrent outcome must equal the outcome of running the same history one op at a time
// (which is done first, on the real code, through srv.hr / srv.utx with all their oracles).
func genPar(c *lib.Ctx, histories int) {
	r := c.Rand.Fork("par")
	for n := 0; n < histories; n++ {
		type cl struct {
			id             uint64
			lastRx, lastTx int64
			known          bool
		}
		base := T0 + 30000000000 + r.Range(0, 1000000)*1000
		nc := int(r.Range(1, 5))
		cls := make([]cl, nc)
		t := base
		// the setup script is fixed before it runs, so that both runs execute the same ops
		type plan struct{ ex, pendingLast int }
		plans := make([]plan, nc)
		for j := range cls {
			cls[j].id = uint64(7000 + 10*n%5000 + j)
			plans[j] = plan{ex: int(r.Range(1, 3)), pendingLast: r.Intn(2)}
		}
		var subs []psub
		run := func(h *hctx, concurrent bool) (res, its []string) {
			h.do("srv.mode full")
			t = base
			for j := range cls {
				for e := 0; e < plans[j].ex; e++ {
					t += 1000 + int64(e)
					org := z64()
					if e > 0 {
						org = t64(cls[j].lastRx)
					}
					rr := h.hr(hrIn{cls[j].id, mkReq(org, rxA, txA), t, t + 50})
					cls[j].lastRx, cls[j].lastTx, cls[j].known = rr.rxt, rr.txt, true
					if e < plans[j].ex-1 || plans[j].pendingLast == 0 {
						u := h.utx(cls[j].id, rr.rxt, rr.txt+200)
						cls[j].lastTx = u.txt
					}
				}
			}
			now := t + 5000
			if subs == nil {
				used := map[uint64]bool{}
				k := int(r.Range(2, 6))
				for i := 0; i < k; i++ {
					t += r.Range(1, 900)
					switch x := r.Intn(100); {
					case x < 35: // a known client asks again (interleaved or basic)
						cl := cls[r.Intn(nc)]
						if used[cl.id] {
							continue
						}
						used[cl.id] = true
						org := t64(cl.lastRx)
						if r.Chance(30) {
							org = z64()
						}
						subs = append(subs, psub{id: cl.id, req: mkReq(org, rxA, txA), rxt: t})
						c.Count("par:hr-known")
					case x < 55: // a new client while the store is far from full
						id := uint64(900000 + 10*n + i)
						used[id] = true
						subs = append(subs, psub{id: id, req: mkReq(z64(), rxA, txA), rxt: t})
						c.Count("par:hr-new")
					case x < 75: // kernel timestamp (or none: lost) for a known client's last exchange
						cl := cls[r.Intn(nc)]
						if used[cl.id] {
							continue
						}
						used[cl.id] = true
						txt1 := cl.lastTx + r.Range(1, 900)
						if r.Chance(35) {
							txt1 = cl.lastTx // no newer timestamp: the exchange is dropped
						}
						subs = append(subs, psub{utx: true, id: cl.id, rxt: cl.lastRx, txt1: txt1})
						c.Count("par:utx-known")
					default: // timestamp update for a client that has no state (served statelessly / evicted)
						id := uint64(800000 + 10*n + i)
						used[id] = true
						subs = append(subs, psub{utx: true, id: id, rxt: t, txt1: t + 40})
						c.Count("par:utx-stateless")
					}
				}
				if len(subs) == 0 {
					subs = append(subs, psub{utx: true, id: 800000, rxt: t, txt1: t + 40})
				}
			}
			if concurrent {
				return h.par(now, subs)
			}
			for _, s := range subs {
				if s.utx {
					a := h.do(fmt.Sprintf("srv.utx %d %d %d", s.id, s.rxt, s.txt1))
					res = append(res, strings.TrimPrefix(strings.SplitN(a, " | ", 2)[0], "ok "))
				} else {
					a := h.do(hrOp(hrIn{s.id, s.req, s.rxt, now}))
					a = strings.TrimPrefix(strings.SplitN(a, " | ", 2)[0], "ok ")
					if i := strings.Index(a, " ev="); i >= 0 {
						a = a[:i]
					}
					res = append(res, a)
				}
			}
			for _, s := range subs {
				it, ok, _, _, _ := server.VerifC06Peek(key(s.id))
				if ok {
					its = append(its, fmtItemNoIdx(&it))
				} else {
					its = append(its, "-")
				}
			}
			return res, its
		}
		hs := newH(c, fmt.Sprintf("overlap %d, one op at a time", n))
		res1, its1 := run(hs, false)
		hs.do("srv.reset")
		hp := newH(c, fmt.Sprintf("overlap %d, against a stalled critical section", n))
		res2, its2 := run(hp, true)
		if res2 != nil {
			for i := range subs {
				if res1[i] != res2[i] || its1[i] != its2[i] {
					hp.fail("C07:concurrent-not-serializable", "an operation overlapping operations of other clients (store far from full) had another outcome than in any sequential order of the same operations",
						map[string]any{"sub": subOp(subs[i]), "concurrent": res2[i] + " item " + its2[i], "sequential": res1[i] + " item " + its1[i]})
					break
				}
			}
			for i, s := range subs {
				if !s.utx && its2[i] == "-" {
					hp.fail("C07:stateless-below-capacity", "a request was served without state although the store is far from full", map[string]any{"sub": subOp(s)})
				}
			}
			c.Count("par:histories-compared")
		}
		hp.do("srv.reset")
	}
}

// parAtCapacity (called with the full store of genCapacity, brief mode): the least recently
// active client's listener got no newer tx timestamp (its single exchange is dropped, the client
// removed) while another listener admits a newcomer. Either order leaves the same store: that
// client gone, the newcomer stored, 2^20 clients in map and queue.
func (h *hctx) parAtCapacity(c *lib.Ctx, rounds int, late *int64, newcomer func() uint64) {
	for j := 0; j < rounds && h.fails == 0; j++ {
		topID, _, tok := h.topInfo()
		if !tok {
			c.Count("par:capacity-skipped")
			return
		}
		it, ok, _, _, _ := server.VerifC06Peek(key(topID))
		tm, found := h.logOf(topID)[it.Qval]
		if !ok || it.Len != 1 || !found || it.Pairs[0].Rx != it.Qval {
			c.Count("par:capacity-skipped")
			return
		}
		*late += 1000
		nc := newcomer()
		_, its := h.par(*late+20, []psub{{utx: true, id: topID, rxt: tm.rxNs, txt1: tm.txNs}, {id: nc, req: mkReq(z64(), rxA, txA), rxt: *late}})
		c.Count("par:capacity-rounds")
		if its == nil {
			return
		}
		_, _, n, hn, _ := server.VerifC06Peek("")
		if its[0] != "-" || its[1] == "-" || n != server.VerifC06TssCap || hn != n {
			h.fail("C07:concurrent-not-serializable", "removal of the least recently active client overlapping the admission of a newcomer at capacity left a store that no sequential order of the two produces",
				map[string]any{"removed_client_item": its[0], "newcomer_item": its[1], "map": n, "heap": hn})
		}
	}
}
